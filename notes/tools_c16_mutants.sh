#!/bin/bash
# C16 sanity mutations on a scratch worktree of /repo (never edits /repo). usage: tools_c16_mutants.sh [ids...]
set -u
cd "$(dirname "$0")"
WT=/tmp/wt_b16
ids=${@:-1 2a 2b 3 4 5 6}
for id in $ids; do
  git -C /repo worktree remove --force $WT >/dev/null 2>&1
  git -C /repo worktree add --detach $WT HEAD >/dev/null 2>&1
  B=$WT/torchsde/_core/base_sde.py
  M=$WT/torchsde/_core/misc.py
  /venv/bin/python - "$id" "$B" "$M" <<'PY'
import sys
id, B, M = sys.argv[1:]
def sub(path, old, new):
    s = open(path).read(); assert s.count(old) == 1, (id, old, s.count(old)); open(path, 'w').write(s.replace(old, new))
if id == '1':
    sub(B, "        f, g = self.f_and_g(t, y)\n        return f, self.prod(g, v)", "        f, g = self.f_and_g(t, y)\n        return f, self.prod(g, v) * 1.0000001")
elif id == '2a':
    sub(B, "            self.f_and_g_prod = self.f_and_g_prod_default1", "            self.f_and_g_prod = self.f_and_g_prod_default2")
elif id == '2b':
    sub(B, "    def g_prod_default(self, t, y, v):\n        return self.prod(self.g(t, y), v)",
           "    def g_prod_default(self, t, y, v):\n        if not hasattr(self._base_sde, 'g'):\n            return torch.zeros_like(y)\n        return self.prod(self.g(t, y), v)")
elif id == '3':
    sub(B, "                grad_outputs=g * v2,\n", "                grad_outputs=v2,\n")
elif id == '4':
    sub(B, "ga_flat = ga.transpose(1, 2).flatten(0, 1)", "ga_flat = ga.flatten(0, 1)")
elif id == '5':
    sub(B, "(drift, diffusion, prior_drift, diffusion_prod, drift_and_diffusion,", "(drift, diffusion, prior_drift, drift_and_diffusion, diffusion_prod,")
elif id == '6':
    sub(M, "def batch_mvp(m, v):\n    return", "def batch_mvp(m, v):\n    if m.size(1) == m.size(2):\n        m = m.transpose(1, 2)\n    return")
PY
  echo "=== mutation $id"; git -C $WT diff --stat | tail -1
  VERIF_REPO=$WT ./check C16 --tier quick > /tmp/c16_mut_$id.log 2>&1
  echo "exit=$?"; grep -c "^VIOLATION" /tmp/c16_mut_$id.log; grep "^VIOLATION\|^\[C16\]" /tmp/c16_mut_$id.log | head -4
  /venv/bin/python - <<PY
import json
e = json.load(open('evidence/C16.json'))
bad = [o for o in e['coverage']['obligation_list'] if not o['ok']]
import collections
c = collections.Counter(o['kind'] for o in bad)
print('broken:', dict(c))
for o in bad[:400]:
    if o['kind'] != 'theorem': print('  ', o['kind'], o['name'][:70], '|', o['detail'][:160].replace('\n',' '))
th = [o['name'] for o in bad if o['kind']=='theorem']
print('  theorems e.g.:', th[:6])
PY
done
git -C /repo worktree remove --force $WT >/dev/null 2>&1
# restore generated files / evidence for the unchanged tree
./check C16 --tier quick | tail -1
