/-
C20 — batch rows are independent samples with no cross-talk (step / kernel level).

Every solver step is traced from the real solver classes twice: with ONE batch row (`Gen.<step>_…`, group Steps) and with
TWO batch rows (`Gen.<step>_b2_…`, group Batch).  The theorems say: row `b` of the two-row step IS the one-row step applied
to row `b` of the inputs (state, Brownian increment, space-time Levy area, Levy area, extra solver state) — for arbitrary
drift and diffusion functions acting row-wise.  Hence (corollaries) row 0 does not change when row 1 changes, and swapping
the rows of the inputs swaps the rows of the output.  The same for the Brownian kernels: element (i,j) of a bridge split on a
(2,2) sample is the scalar split applied to the (i,j) elements (each element is driven by its own noise element), and row `b`
of the Davie/Foster Levy area depends on row `b` only.
Trajectory level: `C20Loop.integrate_rowwise` (projection theorem for the loop model).
-/
import Tsv.Gen.Steps
import Tsv.Gen.Brownian
import Tsv.Gen.Batch
import Mathlib.Tactic.Ring

namespace C20
set_option linter.unusedSectionVars false
set_option linter.unusedVariables false
set_option linter.unusedTactic false
set_option linter.unreachableTactic false
variable {K : Type} [Field K] [LinearOrder K]

/-- `euler_heun_s_additive_11` with two batch rows: row b of the output = the one-row step on row b of the inputs -/
theorem euler_heun_s_additive_11_b2_rowwise (f : K → K → K) (g : K → K) (t0 t1 y0_0_0 y0_1_0 dW_0_0 dW_1_0 : K) :
    Gen.euler_heun_s_additive_11_b2_y1_0_0 f g t0 t1 y0_0_0 y0_1_0 dW_0_0 dW_1_0
      = Gen.euler_heun_s_additive_11_y1_0_0 f g t0 t1 y0_0_0 dW_0_0 ∧
    Gen.euler_heun_s_additive_11_b2_y1_1_0 f g t0 t1 y0_0_0 y0_1_0 dW_0_0 dW_1_0
      = Gen.euler_heun_s_additive_11_y1_0_0 f g t0 t1 y0_1_0 dW_1_0 := by
  refine ⟨?_, ?_⟩ <;> simp only [Gen.euler_heun_s_additive_11_b2_y1_0_0, Gen.euler_heun_s_additive_11_b2_y1_1_0, Gen.euler_heun_s_additive_11_y1_0_0] <;> ring

/-- row 0 is unaffected by anything in row 1; swapping the rows of the inputs swaps the rows of the output -/
theorem euler_heun_s_additive_11_b2_no_crosstalk (f : K → K → K) (g : K → K) (t0 t1 y0_0_0 y0_1_0 dW_0_0 dW_1_0 y0_1_0' dW_1_0' : K) :
    Gen.euler_heun_s_additive_11_b2_y1_0_0 f g t0 t1 y0_0_0 y0_1_0 dW_0_0 dW_1_0 = Gen.euler_heun_s_additive_11_b2_y1_0_0 f g t0 t1 y0_0_0 y0_1_0' dW_0_0 dW_1_0' ∧
    Gen.euler_heun_s_additive_11_b2_y1_1_0 f g t0 t1 y0_0_0 y0_1_0 dW_0_0 dW_1_0 = Gen.euler_heun_s_additive_11_b2_y1_0_0 f g t0 t1 y0_1_0 y0_0_0 dW_1_0 dW_0_0 := by
  constructor <;> simp only [Gen.euler_heun_s_additive_11_b2_y1_0_0, Gen.euler_heun_s_additive_11_b2_y1_1_0] <;> ring

/-- `euler_heun_s_diagonal_11` with two batch rows: row b of the output = the one-row step on row b of the inputs -/
theorem euler_heun_s_diagonal_11_b2_rowwise (f : K → K → K) (g : K → K → K) (t0 t1 y0_0_0 y0_1_0 dW_0_0 dW_1_0 : K) :
    Gen.euler_heun_s_diagonal_11_b2_y1_0_0 f g t0 t1 y0_0_0 y0_1_0 dW_0_0 dW_1_0
      = Gen.euler_heun_s_diagonal_11_y1_0_0 f g t0 t1 y0_0_0 dW_0_0 ∧
    Gen.euler_heun_s_diagonal_11_b2_y1_1_0 f g t0 t1 y0_0_0 y0_1_0 dW_0_0 dW_1_0
      = Gen.euler_heun_s_diagonal_11_y1_0_0 f g t0 t1 y0_1_0 dW_1_0 := by
  refine ⟨?_, ?_⟩ <;> simp only [Gen.euler_heun_s_diagonal_11_b2_y1_0_0, Gen.euler_heun_s_diagonal_11_b2_y1_1_0, Gen.euler_heun_s_diagonal_11_y1_0_0] <;> ring

/-- row 0 is unaffected by anything in row 1; swapping the rows of the inputs swaps the rows of the output -/
theorem euler_heun_s_diagonal_11_b2_no_crosstalk (f : K → K → K) (g : K → K → K) (t0 t1 y0_0_0 y0_1_0 dW_0_0 dW_1_0 y0_1_0' dW_1_0' : K) :
    Gen.euler_heun_s_diagonal_11_b2_y1_0_0 f g t0 t1 y0_0_0 y0_1_0 dW_0_0 dW_1_0 = Gen.euler_heun_s_diagonal_11_b2_y1_0_0 f g t0 t1 y0_0_0 y0_1_0' dW_0_0 dW_1_0' ∧
    Gen.euler_heun_s_diagonal_11_b2_y1_1_0 f g t0 t1 y0_0_0 y0_1_0 dW_0_0 dW_1_0 = Gen.euler_heun_s_diagonal_11_b2_y1_0_0 f g t0 t1 y0_1_0 y0_0_0 dW_1_0 dW_0_0 := by
  constructor <;> simp only [Gen.euler_heun_s_diagonal_11_b2_y1_0_0, Gen.euler_heun_s_diagonal_11_b2_y1_1_0] <;> ring

/-- `euler_heun_s_general_11` with two batch rows: row b of the output = the one-row step on row b of the inputs -/
theorem euler_heun_s_general_11_b2_rowwise (f : K → K → K) (g : K → K → K) (t0 t1 y0_0_0 y0_1_0 dW_0_0 dW_1_0 : K) :
    Gen.euler_heun_s_general_11_b2_y1_0_0 f g t0 t1 y0_0_0 y0_1_0 dW_0_0 dW_1_0
      = Gen.euler_heun_s_general_11_y1_0_0 f g t0 t1 y0_0_0 dW_0_0 ∧
    Gen.euler_heun_s_general_11_b2_y1_1_0 f g t0 t1 y0_0_0 y0_1_0 dW_0_0 dW_1_0
      = Gen.euler_heun_s_general_11_y1_0_0 f g t0 t1 y0_1_0 dW_1_0 := by
  refine ⟨?_, ?_⟩ <;> simp only [Gen.euler_heun_s_general_11_b2_y1_0_0, Gen.euler_heun_s_general_11_b2_y1_1_0, Gen.euler_heun_s_general_11_y1_0_0] <;> ring

/-- row 0 is unaffected by anything in row 1; swapping the rows of the inputs swaps the rows of the output -/
theorem euler_heun_s_general_11_b2_no_crosstalk (f : K → K → K) (g : K → K → K) (t0 t1 y0_0_0 y0_1_0 dW_0_0 dW_1_0 y0_1_0' dW_1_0' : K) :
    Gen.euler_heun_s_general_11_b2_y1_0_0 f g t0 t1 y0_0_0 y0_1_0 dW_0_0 dW_1_0 = Gen.euler_heun_s_general_11_b2_y1_0_0 f g t0 t1 y0_0_0 y0_1_0' dW_0_0 dW_1_0' ∧
    Gen.euler_heun_s_general_11_b2_y1_1_0 f g t0 t1 y0_0_0 y0_1_0 dW_0_0 dW_1_0 = Gen.euler_heun_s_general_11_b2_y1_0_0 f g t0 t1 y0_1_0 y0_0_0 dW_1_0 dW_0_0 := by
  constructor <;> simp only [Gen.euler_heun_s_general_11_b2_y1_0_0, Gen.euler_heun_s_general_11_b2_y1_1_0] <;> ring

/-- `euler_heun_s_scalar_11` with two batch rows: row b of the output = the one-row step on row b of the inputs -/
theorem euler_heun_s_scalar_11_b2_rowwise (f : K → K → K) (g : K → K → K) (t0 t1 y0_0_0 y0_1_0 dW_0_0 dW_1_0 : K) :
    Gen.euler_heun_s_scalar_11_b2_y1_0_0 f g t0 t1 y0_0_0 y0_1_0 dW_0_0 dW_1_0
      = Gen.euler_heun_s_scalar_11_y1_0_0 f g t0 t1 y0_0_0 dW_0_0 ∧
    Gen.euler_heun_s_scalar_11_b2_y1_1_0 f g t0 t1 y0_0_0 y0_1_0 dW_0_0 dW_1_0
      = Gen.euler_heun_s_scalar_11_y1_0_0 f g t0 t1 y0_1_0 dW_1_0 := by
  refine ⟨?_, ?_⟩ <;> simp only [Gen.euler_heun_s_scalar_11_b2_y1_0_0, Gen.euler_heun_s_scalar_11_b2_y1_1_0, Gen.euler_heun_s_scalar_11_y1_0_0] <;> ring

/-- row 0 is unaffected by anything in row 1; swapping the rows of the inputs swaps the rows of the output -/
theorem euler_heun_s_scalar_11_b2_no_crosstalk (f : K → K → K) (g : K → K → K) (t0 t1 y0_0_0 y0_1_0 dW_0_0 dW_1_0 y0_1_0' dW_1_0' : K) :
    Gen.euler_heun_s_scalar_11_b2_y1_0_0 f g t0 t1 y0_0_0 y0_1_0 dW_0_0 dW_1_0 = Gen.euler_heun_s_scalar_11_b2_y1_0_0 f g t0 t1 y0_0_0 y0_1_0' dW_0_0 dW_1_0' ∧
    Gen.euler_heun_s_scalar_11_b2_y1_1_0 f g t0 t1 y0_0_0 y0_1_0 dW_0_0 dW_1_0 = Gen.euler_heun_s_scalar_11_b2_y1_0_0 f g t0 t1 y0_1_0 y0_0_0 dW_1_0 dW_0_0 := by
  constructor <;> simp only [Gen.euler_heun_s_scalar_11_b2_y1_0_0, Gen.euler_heun_s_scalar_11_b2_y1_1_0] <;> ring

/-- `euler_heun_s_scalar_21` with two batch rows: row b of the output = the one-row step on row b of the inputs -/
theorem euler_heun_s_scalar_21_b2_rowwise (f0 : K → K → K → K) (f1 : K → K → K → K) (g00 : K → K → K → K) (g10 : K → K → K → K) (t0 t1 y0_0_0 y0_0_1 y0_1_0 y0_1_1 dW_0_0 dW_1_0 : K) :
    Gen.euler_heun_s_scalar_21_b2_y1_0_0 f0 f1 g00 g10 t0 t1 y0_0_0 y0_0_1 y0_1_0 y0_1_1 dW_0_0 dW_1_0
      = Gen.euler_heun_s_scalar_21_y1_0_0 f0 f1 g00 g10 t0 t1 y0_0_0 y0_0_1 dW_0_0 ∧
    Gen.euler_heun_s_scalar_21_b2_y1_0_1 f0 f1 g00 g10 t0 t1 y0_0_0 y0_0_1 y0_1_0 y0_1_1 dW_0_0 dW_1_0
      = Gen.euler_heun_s_scalar_21_y1_0_1 f0 f1 g00 g10 t0 t1 y0_0_0 y0_0_1 dW_0_0 ∧
    Gen.euler_heun_s_scalar_21_b2_y1_1_0 f0 f1 g00 g10 t0 t1 y0_0_0 y0_0_1 y0_1_0 y0_1_1 dW_0_0 dW_1_0
      = Gen.euler_heun_s_scalar_21_y1_0_0 f0 f1 g00 g10 t0 t1 y0_1_0 y0_1_1 dW_1_0 ∧
    Gen.euler_heun_s_scalar_21_b2_y1_1_1 f0 f1 g00 g10 t0 t1 y0_0_0 y0_0_1 y0_1_0 y0_1_1 dW_0_0 dW_1_0
      = Gen.euler_heun_s_scalar_21_y1_0_1 f0 f1 g00 g10 t0 t1 y0_1_0 y0_1_1 dW_1_0 := by
  refine ⟨?_, ?_, ?_, ?_⟩ <;> simp only [Gen.euler_heun_s_scalar_21_b2_y1_0_0, Gen.euler_heun_s_scalar_21_b2_y1_0_1, Gen.euler_heun_s_scalar_21_b2_y1_1_0, Gen.euler_heun_s_scalar_21_b2_y1_1_1, Gen.euler_heun_s_scalar_21_y1_0_0, Gen.euler_heun_s_scalar_21_y1_0_1] <;> ring

/-- row 0 is unaffected by anything in row 1; swapping the rows of the inputs swaps the rows of the output -/
theorem euler_heun_s_scalar_21_b2_no_crosstalk (f0 : K → K → K → K) (f1 : K → K → K → K) (g00 : K → K → K → K) (g10 : K → K → K → K) (t0 t1 y0_0_0 y0_0_1 y0_1_0 y0_1_1 dW_0_0 dW_1_0 y0_1_0' y0_1_1' dW_1_0' : K) :
    Gen.euler_heun_s_scalar_21_b2_y1_0_0 f0 f1 g00 g10 t0 t1 y0_0_0 y0_0_1 y0_1_0 y0_1_1 dW_0_0 dW_1_0 = Gen.euler_heun_s_scalar_21_b2_y1_0_0 f0 f1 g00 g10 t0 t1 y0_0_0 y0_0_1 y0_1_0' y0_1_1' dW_0_0 dW_1_0' ∧
    Gen.euler_heun_s_scalar_21_b2_y1_1_0 f0 f1 g00 g10 t0 t1 y0_0_0 y0_0_1 y0_1_0 y0_1_1 dW_0_0 dW_1_0 = Gen.euler_heun_s_scalar_21_b2_y1_0_0 f0 f1 g00 g10 t0 t1 y0_1_0 y0_1_1 y0_0_0 y0_0_1 dW_1_0 dW_0_0 := by
  constructor <;> simp only [Gen.euler_heun_s_scalar_21_b2_y1_0_0, Gen.euler_heun_s_scalar_21_b2_y1_0_1, Gen.euler_heun_s_scalar_21_b2_y1_1_0, Gen.euler_heun_s_scalar_21_b2_y1_1_1] <;> ring

/-- `euler_i_additive_11` with two batch rows: row b of the output = the one-row step on row b of the inputs -/
theorem euler_i_additive_11_b2_rowwise (f : K → K → K) (g : K → K) (t0 t1 y0_0_0 y0_1_0 dW_0_0 dW_1_0 : K) :
    Gen.euler_i_additive_11_b2_y1_0_0 f g t0 t1 y0_0_0 y0_1_0 dW_0_0 dW_1_0
      = Gen.euler_i_additive_11_y1_0_0 f g t0 t1 y0_0_0 dW_0_0 ∧
    Gen.euler_i_additive_11_b2_y1_1_0 f g t0 t1 y0_0_0 y0_1_0 dW_0_0 dW_1_0
      = Gen.euler_i_additive_11_y1_0_0 f g t0 t1 y0_1_0 dW_1_0 := by
  refine ⟨?_, ?_⟩ <;> simp only [Gen.euler_i_additive_11_b2_y1_0_0, Gen.euler_i_additive_11_b2_y1_1_0, Gen.euler_i_additive_11_y1_0_0] <;> ring

/-- row 0 is unaffected by anything in row 1; swapping the rows of the inputs swaps the rows of the output -/
theorem euler_i_additive_11_b2_no_crosstalk (f : K → K → K) (g : K → K) (t0 t1 y0_0_0 y0_1_0 dW_0_0 dW_1_0 y0_1_0' dW_1_0' : K) :
    Gen.euler_i_additive_11_b2_y1_0_0 f g t0 t1 y0_0_0 y0_1_0 dW_0_0 dW_1_0 = Gen.euler_i_additive_11_b2_y1_0_0 f g t0 t1 y0_0_0 y0_1_0' dW_0_0 dW_1_0' ∧
    Gen.euler_i_additive_11_b2_y1_1_0 f g t0 t1 y0_0_0 y0_1_0 dW_0_0 dW_1_0 = Gen.euler_i_additive_11_b2_y1_0_0 f g t0 t1 y0_1_0 y0_0_0 dW_1_0 dW_0_0 := by
  constructor <;> simp only [Gen.euler_i_additive_11_b2_y1_0_0, Gen.euler_i_additive_11_b2_y1_1_0] <;> ring

/-- `euler_i_diagonal_11` with two batch rows: row b of the output = the one-row step on row b of the inputs -/
theorem euler_i_diagonal_11_b2_rowwise (f : K → K → K) (g : K → K → K) (t0 t1 y0_0_0 y0_1_0 dW_0_0 dW_1_0 : K) :
    Gen.euler_i_diagonal_11_b2_y1_0_0 f g t0 t1 y0_0_0 y0_1_0 dW_0_0 dW_1_0
      = Gen.euler_i_diagonal_11_y1_0_0 f g t0 t1 y0_0_0 dW_0_0 ∧
    Gen.euler_i_diagonal_11_b2_y1_1_0 f g t0 t1 y0_0_0 y0_1_0 dW_0_0 dW_1_0
      = Gen.euler_i_diagonal_11_y1_0_0 f g t0 t1 y0_1_0 dW_1_0 := by
  refine ⟨?_, ?_⟩ <;> simp only [Gen.euler_i_diagonal_11_b2_y1_0_0, Gen.euler_i_diagonal_11_b2_y1_1_0, Gen.euler_i_diagonal_11_y1_0_0] <;> ring

/-- row 0 is unaffected by anything in row 1; swapping the rows of the inputs swaps the rows of the output -/
theorem euler_i_diagonal_11_b2_no_crosstalk (f : K → K → K) (g : K → K → K) (t0 t1 y0_0_0 y0_1_0 dW_0_0 dW_1_0 y0_1_0' dW_1_0' : K) :
    Gen.euler_i_diagonal_11_b2_y1_0_0 f g t0 t1 y0_0_0 y0_1_0 dW_0_0 dW_1_0 = Gen.euler_i_diagonal_11_b2_y1_0_0 f g t0 t1 y0_0_0 y0_1_0' dW_0_0 dW_1_0' ∧
    Gen.euler_i_diagonal_11_b2_y1_1_0 f g t0 t1 y0_0_0 y0_1_0 dW_0_0 dW_1_0 = Gen.euler_i_diagonal_11_b2_y1_0_0 f g t0 t1 y0_1_0 y0_0_0 dW_1_0 dW_0_0 := by
  constructor <;> simp only [Gen.euler_i_diagonal_11_b2_y1_0_0, Gen.euler_i_diagonal_11_b2_y1_1_0] <;> ring

/-- `euler_i_general_11` with two batch rows: row b of the output = the one-row step on row b of the inputs -/
theorem euler_i_general_11_b2_rowwise (f : K → K → K) (g : K → K → K) (t0 t1 y0_0_0 y0_1_0 dW_0_0 dW_1_0 : K) :
    Gen.euler_i_general_11_b2_y1_0_0 f g t0 t1 y0_0_0 y0_1_0 dW_0_0 dW_1_0
      = Gen.euler_i_general_11_y1_0_0 f g t0 t1 y0_0_0 dW_0_0 ∧
    Gen.euler_i_general_11_b2_y1_1_0 f g t0 t1 y0_0_0 y0_1_0 dW_0_0 dW_1_0
      = Gen.euler_i_general_11_y1_0_0 f g t0 t1 y0_1_0 dW_1_0 := by
  refine ⟨?_, ?_⟩ <;> simp only [Gen.euler_i_general_11_b2_y1_0_0, Gen.euler_i_general_11_b2_y1_1_0, Gen.euler_i_general_11_y1_0_0] <;> ring

/-- row 0 is unaffected by anything in row 1; swapping the rows of the inputs swaps the rows of the output -/
theorem euler_i_general_11_b2_no_crosstalk (f : K → K → K) (g : K → K → K) (t0 t1 y0_0_0 y0_1_0 dW_0_0 dW_1_0 y0_1_0' dW_1_0' : K) :
    Gen.euler_i_general_11_b2_y1_0_0 f g t0 t1 y0_0_0 y0_1_0 dW_0_0 dW_1_0 = Gen.euler_i_general_11_b2_y1_0_0 f g t0 t1 y0_0_0 y0_1_0' dW_0_0 dW_1_0' ∧
    Gen.euler_i_general_11_b2_y1_1_0 f g t0 t1 y0_0_0 y0_1_0 dW_0_0 dW_1_0 = Gen.euler_i_general_11_b2_y1_0_0 f g t0 t1 y0_1_0 y0_0_0 dW_1_0 dW_0_0 := by
  constructor <;> simp only [Gen.euler_i_general_11_b2_y1_0_0, Gen.euler_i_general_11_b2_y1_1_0] <;> ring

/-- `euler_i_general_22` with two batch rows: row b of the output = the one-row step on row b of the inputs -/
theorem euler_i_general_22_b2_rowwise (f0 : K → K → K → K) (f1 : K → K → K → K) (g00 : K → K → K → K) (g01 : K → K → K → K) (g10 : K → K → K → K) (g11 : K → K → K → K) (t0 t1 y0_0_0 y0_0_1 y0_1_0 y0_1_1 dW_0_0 dW_0_1 dW_1_0 dW_1_1 : K) :
    Gen.euler_i_general_22_b2_y1_0_0 f0 f1 g00 g01 g10 g11 t0 t1 y0_0_0 y0_0_1 y0_1_0 y0_1_1 dW_0_0 dW_0_1 dW_1_0 dW_1_1
      = Gen.euler_i_general_22_y1_0_0 f0 f1 g00 g01 g10 g11 t0 t1 y0_0_0 y0_0_1 dW_0_0 dW_0_1 ∧
    Gen.euler_i_general_22_b2_y1_0_1 f0 f1 g00 g01 g10 g11 t0 t1 y0_0_0 y0_0_1 y0_1_0 y0_1_1 dW_0_0 dW_0_1 dW_1_0 dW_1_1
      = Gen.euler_i_general_22_y1_0_1 f0 f1 g00 g01 g10 g11 t0 t1 y0_0_0 y0_0_1 dW_0_0 dW_0_1 ∧
    Gen.euler_i_general_22_b2_y1_1_0 f0 f1 g00 g01 g10 g11 t0 t1 y0_0_0 y0_0_1 y0_1_0 y0_1_1 dW_0_0 dW_0_1 dW_1_0 dW_1_1
      = Gen.euler_i_general_22_y1_0_0 f0 f1 g00 g01 g10 g11 t0 t1 y0_1_0 y0_1_1 dW_1_0 dW_1_1 ∧
    Gen.euler_i_general_22_b2_y1_1_1 f0 f1 g00 g01 g10 g11 t0 t1 y0_0_0 y0_0_1 y0_1_0 y0_1_1 dW_0_0 dW_0_1 dW_1_0 dW_1_1
      = Gen.euler_i_general_22_y1_0_1 f0 f1 g00 g01 g10 g11 t0 t1 y0_1_0 y0_1_1 dW_1_0 dW_1_1 := by
  refine ⟨?_, ?_, ?_, ?_⟩ <;> simp only [Gen.euler_i_general_22_b2_y1_0_0, Gen.euler_i_general_22_b2_y1_0_1, Gen.euler_i_general_22_b2_y1_1_0, Gen.euler_i_general_22_b2_y1_1_1, Gen.euler_i_general_22_y1_0_0, Gen.euler_i_general_22_y1_0_1] <;> ring

/-- row 0 is unaffected by anything in row 1; swapping the rows of the inputs swaps the rows of the output -/
theorem euler_i_general_22_b2_no_crosstalk (f0 : K → K → K → K) (f1 : K → K → K → K) (g00 : K → K → K → K) (g01 : K → K → K → K) (g10 : K → K → K → K) (g11 : K → K → K → K) (t0 t1 y0_0_0 y0_0_1 y0_1_0 y0_1_1 dW_0_0 dW_0_1 dW_1_0 dW_1_1 y0_1_0' y0_1_1' dW_1_0' dW_1_1' : K) :
    Gen.euler_i_general_22_b2_y1_0_0 f0 f1 g00 g01 g10 g11 t0 t1 y0_0_0 y0_0_1 y0_1_0 y0_1_1 dW_0_0 dW_0_1 dW_1_0 dW_1_1 = Gen.euler_i_general_22_b2_y1_0_0 f0 f1 g00 g01 g10 g11 t0 t1 y0_0_0 y0_0_1 y0_1_0' y0_1_1' dW_0_0 dW_0_1 dW_1_0' dW_1_1' ∧
    Gen.euler_i_general_22_b2_y1_1_0 f0 f1 g00 g01 g10 g11 t0 t1 y0_0_0 y0_0_1 y0_1_0 y0_1_1 dW_0_0 dW_0_1 dW_1_0 dW_1_1 = Gen.euler_i_general_22_b2_y1_0_0 f0 f1 g00 g01 g10 g11 t0 t1 y0_1_0 y0_1_1 y0_0_0 y0_0_1 dW_1_0 dW_1_1 dW_0_0 dW_0_1 := by
  constructor <;> simp only [Gen.euler_i_general_22_b2_y1_0_0, Gen.euler_i_general_22_b2_y1_0_1, Gen.euler_i_general_22_b2_y1_1_0, Gen.euler_i_general_22_b2_y1_1_1] <;> ring

/-- `euler_i_scalar_11` with two batch rows: row b of the output = the one-row step on row b of the inputs -/
theorem euler_i_scalar_11_b2_rowwise (f : K → K → K) (g : K → K → K) (t0 t1 y0_0_0 y0_1_0 dW_0_0 dW_1_0 : K) :
    Gen.euler_i_scalar_11_b2_y1_0_0 f g t0 t1 y0_0_0 y0_1_0 dW_0_0 dW_1_0
      = Gen.euler_i_scalar_11_y1_0_0 f g t0 t1 y0_0_0 dW_0_0 ∧
    Gen.euler_i_scalar_11_b2_y1_1_0 f g t0 t1 y0_0_0 y0_1_0 dW_0_0 dW_1_0
      = Gen.euler_i_scalar_11_y1_0_0 f g t0 t1 y0_1_0 dW_1_0 := by
  refine ⟨?_, ?_⟩ <;> simp only [Gen.euler_i_scalar_11_b2_y1_0_0, Gen.euler_i_scalar_11_b2_y1_1_0, Gen.euler_i_scalar_11_y1_0_0] <;> ring

/-- row 0 is unaffected by anything in row 1; swapping the rows of the inputs swaps the rows of the output -/
theorem euler_i_scalar_11_b2_no_crosstalk (f : K → K → K) (g : K → K → K) (t0 t1 y0_0_0 y0_1_0 dW_0_0 dW_1_0 y0_1_0' dW_1_0' : K) :
    Gen.euler_i_scalar_11_b2_y1_0_0 f g t0 t1 y0_0_0 y0_1_0 dW_0_0 dW_1_0 = Gen.euler_i_scalar_11_b2_y1_0_0 f g t0 t1 y0_0_0 y0_1_0' dW_0_0 dW_1_0' ∧
    Gen.euler_i_scalar_11_b2_y1_1_0 f g t0 t1 y0_0_0 y0_1_0 dW_0_0 dW_1_0 = Gen.euler_i_scalar_11_b2_y1_0_0 f g t0 t1 y0_1_0 y0_0_0 dW_1_0 dW_0_0 := by
  constructor <;> simp only [Gen.euler_i_scalar_11_b2_y1_0_0, Gen.euler_i_scalar_11_b2_y1_1_0] <;> ring

/-- `heun_s_additive_11` with two batch rows: row b of the output = the one-row step on row b of the inputs -/
theorem heun_s_additive_11_b2_rowwise (f : K → K → K) (g : K → K) (t0 t1 y0_0_0 y0_1_0 dW_0_0 dW_1_0 : K) :
    Gen.heun_s_additive_11_b2_y1_0_0 f g t0 t1 y0_0_0 y0_1_0 dW_0_0 dW_1_0
      = Gen.heun_s_additive_11_y1_0_0 f g t0 t1 y0_0_0 dW_0_0 ∧
    Gen.heun_s_additive_11_b2_y1_1_0 f g t0 t1 y0_0_0 y0_1_0 dW_0_0 dW_1_0
      = Gen.heun_s_additive_11_y1_0_0 f g t0 t1 y0_1_0 dW_1_0 := by
  refine ⟨?_, ?_⟩ <;> simp only [Gen.heun_s_additive_11_b2_y1_0_0, Gen.heun_s_additive_11_b2_y1_1_0, Gen.heun_s_additive_11_y1_0_0] <;> ring

/-- row 0 is unaffected by anything in row 1; swapping the rows of the inputs swaps the rows of the output -/
theorem heun_s_additive_11_b2_no_crosstalk (f : K → K → K) (g : K → K) (t0 t1 y0_0_0 y0_1_0 dW_0_0 dW_1_0 y0_1_0' dW_1_0' : K) :
    Gen.heun_s_additive_11_b2_y1_0_0 f g t0 t1 y0_0_0 y0_1_0 dW_0_0 dW_1_0 = Gen.heun_s_additive_11_b2_y1_0_0 f g t0 t1 y0_0_0 y0_1_0' dW_0_0 dW_1_0' ∧
    Gen.heun_s_additive_11_b2_y1_1_0 f g t0 t1 y0_0_0 y0_1_0 dW_0_0 dW_1_0 = Gen.heun_s_additive_11_b2_y1_0_0 f g t0 t1 y0_1_0 y0_0_0 dW_1_0 dW_0_0 := by
  constructor <;> simp only [Gen.heun_s_additive_11_b2_y1_0_0, Gen.heun_s_additive_11_b2_y1_1_0] <;> ring

/-- `heun_s_diagonal_11` with two batch rows: row b of the output = the one-row step on row b of the inputs -/
theorem heun_s_diagonal_11_b2_rowwise (f : K → K → K) (g : K → K → K) (t0 t1 y0_0_0 y0_1_0 dW_0_0 dW_1_0 : K) :
    Gen.heun_s_diagonal_11_b2_y1_0_0 f g t0 t1 y0_0_0 y0_1_0 dW_0_0 dW_1_0
      = Gen.heun_s_diagonal_11_y1_0_0 f g t0 t1 y0_0_0 dW_0_0 ∧
    Gen.heun_s_diagonal_11_b2_y1_1_0 f g t0 t1 y0_0_0 y0_1_0 dW_0_0 dW_1_0
      = Gen.heun_s_diagonal_11_y1_0_0 f g t0 t1 y0_1_0 dW_1_0 := by
  refine ⟨?_, ?_⟩ <;> simp only [Gen.heun_s_diagonal_11_b2_y1_0_0, Gen.heun_s_diagonal_11_b2_y1_1_0, Gen.heun_s_diagonal_11_y1_0_0] <;> ring

/-- row 0 is unaffected by anything in row 1; swapping the rows of the inputs swaps the rows of the output -/
theorem heun_s_diagonal_11_b2_no_crosstalk (f : K → K → K) (g : K → K → K) (t0 t1 y0_0_0 y0_1_0 dW_0_0 dW_1_0 y0_1_0' dW_1_0' : K) :
    Gen.heun_s_diagonal_11_b2_y1_0_0 f g t0 t1 y0_0_0 y0_1_0 dW_0_0 dW_1_0 = Gen.heun_s_diagonal_11_b2_y1_0_0 f g t0 t1 y0_0_0 y0_1_0' dW_0_0 dW_1_0' ∧
    Gen.heun_s_diagonal_11_b2_y1_1_0 f g t0 t1 y0_0_0 y0_1_0 dW_0_0 dW_1_0 = Gen.heun_s_diagonal_11_b2_y1_0_0 f g t0 t1 y0_1_0 y0_0_0 dW_1_0 dW_0_0 := by
  constructor <;> simp only [Gen.heun_s_diagonal_11_b2_y1_0_0, Gen.heun_s_diagonal_11_b2_y1_1_0] <;> ring

/-- `heun_s_general_11` with two batch rows: row b of the output = the one-row step on row b of the inputs -/
theorem heun_s_general_11_b2_rowwise (f : K → K → K) (g : K → K → K) (t0 t1 y0_0_0 y0_1_0 dW_0_0 dW_1_0 : K) :
    Gen.heun_s_general_11_b2_y1_0_0 f g t0 t1 y0_0_0 y0_1_0 dW_0_0 dW_1_0
      = Gen.heun_s_general_11_y1_0_0 f g t0 t1 y0_0_0 dW_0_0 ∧
    Gen.heun_s_general_11_b2_y1_1_0 f g t0 t1 y0_0_0 y0_1_0 dW_0_0 dW_1_0
      = Gen.heun_s_general_11_y1_0_0 f g t0 t1 y0_1_0 dW_1_0 := by
  refine ⟨?_, ?_⟩ <;> simp only [Gen.heun_s_general_11_b2_y1_0_0, Gen.heun_s_general_11_b2_y1_1_0, Gen.heun_s_general_11_y1_0_0] <;> ring

/-- row 0 is unaffected by anything in row 1; swapping the rows of the inputs swaps the rows of the output -/
theorem heun_s_general_11_b2_no_crosstalk (f : K → K → K) (g : K → K → K) (t0 t1 y0_0_0 y0_1_0 dW_0_0 dW_1_0 y0_1_0' dW_1_0' : K) :
    Gen.heun_s_general_11_b2_y1_0_0 f g t0 t1 y0_0_0 y0_1_0 dW_0_0 dW_1_0 = Gen.heun_s_general_11_b2_y1_0_0 f g t0 t1 y0_0_0 y0_1_0' dW_0_0 dW_1_0' ∧
    Gen.heun_s_general_11_b2_y1_1_0 f g t0 t1 y0_0_0 y0_1_0 dW_0_0 dW_1_0 = Gen.heun_s_general_11_b2_y1_0_0 f g t0 t1 y0_1_0 y0_0_0 dW_1_0 dW_0_0 := by
  constructor <;> simp only [Gen.heun_s_general_11_b2_y1_0_0, Gen.heun_s_general_11_b2_y1_1_0] <;> ring

/-- `heun_s_general_22` with two batch rows: row b of the output = the one-row step on row b of the inputs -/
theorem heun_s_general_22_b2_rowwise (f0 : K → K → K → K) (f1 : K → K → K → K) (g00 : K → K → K → K) (g01 : K → K → K → K) (g10 : K → K → K → K) (g11 : K → K → K → K) (t0 t1 y0_0_0 y0_0_1 y0_1_0 y0_1_1 dW_0_0 dW_0_1 dW_1_0 dW_1_1 : K) :
    Gen.heun_s_general_22_b2_y1_0_0 f0 f1 g00 g01 g10 g11 t0 t1 y0_0_0 y0_0_1 y0_1_0 y0_1_1 dW_0_0 dW_0_1 dW_1_0 dW_1_1
      = Gen.heun_s_general_22_y1_0_0 f0 f1 g00 g01 g10 g11 t0 t1 y0_0_0 y0_0_1 dW_0_0 dW_0_1 ∧
    Gen.heun_s_general_22_b2_y1_0_1 f0 f1 g00 g01 g10 g11 t0 t1 y0_0_0 y0_0_1 y0_1_0 y0_1_1 dW_0_0 dW_0_1 dW_1_0 dW_1_1
      = Gen.heun_s_general_22_y1_0_1 f0 f1 g00 g01 g10 g11 t0 t1 y0_0_0 y0_0_1 dW_0_0 dW_0_1 ∧
    Gen.heun_s_general_22_b2_y1_1_0 f0 f1 g00 g01 g10 g11 t0 t1 y0_0_0 y0_0_1 y0_1_0 y0_1_1 dW_0_0 dW_0_1 dW_1_0 dW_1_1
      = Gen.heun_s_general_22_y1_0_0 f0 f1 g00 g01 g10 g11 t0 t1 y0_1_0 y0_1_1 dW_1_0 dW_1_1 ∧
    Gen.heun_s_general_22_b2_y1_1_1 f0 f1 g00 g01 g10 g11 t0 t1 y0_0_0 y0_0_1 y0_1_0 y0_1_1 dW_0_0 dW_0_1 dW_1_0 dW_1_1
      = Gen.heun_s_general_22_y1_0_1 f0 f1 g00 g01 g10 g11 t0 t1 y0_1_0 y0_1_1 dW_1_0 dW_1_1 := by
  refine ⟨?_, ?_, ?_, ?_⟩ <;> simp only [Gen.heun_s_general_22_b2_y1_0_0, Gen.heun_s_general_22_b2_y1_0_1, Gen.heun_s_general_22_b2_y1_1_0, Gen.heun_s_general_22_b2_y1_1_1, Gen.heun_s_general_22_y1_0_0, Gen.heun_s_general_22_y1_0_1] <;> ring

/-- row 0 is unaffected by anything in row 1; swapping the rows of the inputs swaps the rows of the output -/
theorem heun_s_general_22_b2_no_crosstalk (f0 : K → K → K → K) (f1 : K → K → K → K) (g00 : K → K → K → K) (g01 : K → K → K → K) (g10 : K → K → K → K) (g11 : K → K → K → K) (t0 t1 y0_0_0 y0_0_1 y0_1_0 y0_1_1 dW_0_0 dW_0_1 dW_1_0 dW_1_1 y0_1_0' y0_1_1' dW_1_0' dW_1_1' : K) :
    Gen.heun_s_general_22_b2_y1_0_0 f0 f1 g00 g01 g10 g11 t0 t1 y0_0_0 y0_0_1 y0_1_0 y0_1_1 dW_0_0 dW_0_1 dW_1_0 dW_1_1 = Gen.heun_s_general_22_b2_y1_0_0 f0 f1 g00 g01 g10 g11 t0 t1 y0_0_0 y0_0_1 y0_1_0' y0_1_1' dW_0_0 dW_0_1 dW_1_0' dW_1_1' ∧
    Gen.heun_s_general_22_b2_y1_1_0 f0 f1 g00 g01 g10 g11 t0 t1 y0_0_0 y0_0_1 y0_1_0 y0_1_1 dW_0_0 dW_0_1 dW_1_0 dW_1_1 = Gen.heun_s_general_22_b2_y1_0_0 f0 f1 g00 g01 g10 g11 t0 t1 y0_1_0 y0_1_1 y0_0_0 y0_0_1 dW_1_0 dW_1_1 dW_0_0 dW_0_1 := by
  constructor <;> simp only [Gen.heun_s_general_22_b2_y1_0_0, Gen.heun_s_general_22_b2_y1_0_1, Gen.heun_s_general_22_b2_y1_1_0, Gen.heun_s_general_22_b2_y1_1_1] <;> ring

/-- `heun_s_scalar_11` with two batch rows: row b of the output = the one-row step on row b of the inputs -/
theorem heun_s_scalar_11_b2_rowwise (f : K → K → K) (g : K → K → K) (t0 t1 y0_0_0 y0_1_0 dW_0_0 dW_1_0 : K) :
    Gen.heun_s_scalar_11_b2_y1_0_0 f g t0 t1 y0_0_0 y0_1_0 dW_0_0 dW_1_0
      = Gen.heun_s_scalar_11_y1_0_0 f g t0 t1 y0_0_0 dW_0_0 ∧
    Gen.heun_s_scalar_11_b2_y1_1_0 f g t0 t1 y0_0_0 y0_1_0 dW_0_0 dW_1_0
      = Gen.heun_s_scalar_11_y1_0_0 f g t0 t1 y0_1_0 dW_1_0 := by
  refine ⟨?_, ?_⟩ <;> simp only [Gen.heun_s_scalar_11_b2_y1_0_0, Gen.heun_s_scalar_11_b2_y1_1_0, Gen.heun_s_scalar_11_y1_0_0] <;> ring

/-- row 0 is unaffected by anything in row 1; swapping the rows of the inputs swaps the rows of the output -/
theorem heun_s_scalar_11_b2_no_crosstalk (f : K → K → K) (g : K → K → K) (t0 t1 y0_0_0 y0_1_0 dW_0_0 dW_1_0 y0_1_0' dW_1_0' : K) :
    Gen.heun_s_scalar_11_b2_y1_0_0 f g t0 t1 y0_0_0 y0_1_0 dW_0_0 dW_1_0 = Gen.heun_s_scalar_11_b2_y1_0_0 f g t0 t1 y0_0_0 y0_1_0' dW_0_0 dW_1_0' ∧
    Gen.heun_s_scalar_11_b2_y1_1_0 f g t0 t1 y0_0_0 y0_1_0 dW_0_0 dW_1_0 = Gen.heun_s_scalar_11_b2_y1_0_0 f g t0 t1 y0_1_0 y0_0_0 dW_1_0 dW_0_0 := by
  constructor <;> simp only [Gen.heun_s_scalar_11_b2_y1_0_0, Gen.heun_s_scalar_11_b2_y1_1_0] <;> ring

/-- `levy_davie` with two batch rows: row b of the output = the one-row step on row b of the inputs -/
theorem levy_davie_b2_rowwise (sqrt : K → K) (W_0_0 W_0_1 W_1_0 W_1_1 H_0_0 H_0_1 H_1_0 H_1_1 h N_0_0_0 N_0_0_1 N_0_1_0 N_0_1_1 N_1_0_0 N_1_0_1 N_1_1_0 N_1_1_1 : K) :
    Gen.levy_davie_b2_A_0_0_0 sqrt  W_0_0 W_0_1 W_1_0 W_1_1 H_0_0 H_0_1 H_1_0 H_1_1 h N_0_0_0 N_0_0_1 N_0_1_0 N_0_1_1 N_1_0_0 N_1_0_1 N_1_1_0 N_1_1_1
      = Gen.levy_davie_A_0_0_0 sqrt  W_0_0 W_0_1 H_0_0 H_0_1 h N_0_0_0 N_0_0_1 N_0_1_0 N_0_1_1 ∧
    Gen.levy_davie_b2_A_0_0_1 sqrt  W_0_0 W_0_1 W_1_0 W_1_1 H_0_0 H_0_1 H_1_0 H_1_1 h N_0_0_0 N_0_0_1 N_0_1_0 N_0_1_1 N_1_0_0 N_1_0_1 N_1_1_0 N_1_1_1
      = Gen.levy_davie_A_0_0_1 sqrt  W_0_0 W_0_1 H_0_0 H_0_1 h N_0_0_0 N_0_0_1 N_0_1_0 N_0_1_1 ∧
    Gen.levy_davie_b2_A_0_1_0 sqrt  W_0_0 W_0_1 W_1_0 W_1_1 H_0_0 H_0_1 H_1_0 H_1_1 h N_0_0_0 N_0_0_1 N_0_1_0 N_0_1_1 N_1_0_0 N_1_0_1 N_1_1_0 N_1_1_1
      = Gen.levy_davie_A_0_1_0 sqrt  W_0_0 W_0_1 H_0_0 H_0_1 h N_0_0_0 N_0_0_1 N_0_1_0 N_0_1_1 ∧
    Gen.levy_davie_b2_A_0_1_1 sqrt  W_0_0 W_0_1 W_1_0 W_1_1 H_0_0 H_0_1 H_1_0 H_1_1 h N_0_0_0 N_0_0_1 N_0_1_0 N_0_1_1 N_1_0_0 N_1_0_1 N_1_1_0 N_1_1_1
      = Gen.levy_davie_A_0_1_1 sqrt  W_0_0 W_0_1 H_0_0 H_0_1 h N_0_0_0 N_0_0_1 N_0_1_0 N_0_1_1 ∧
    Gen.levy_davie_b2_A_1_0_0 sqrt  W_0_0 W_0_1 W_1_0 W_1_1 H_0_0 H_0_1 H_1_0 H_1_1 h N_0_0_0 N_0_0_1 N_0_1_0 N_0_1_1 N_1_0_0 N_1_0_1 N_1_1_0 N_1_1_1
      = Gen.levy_davie_A_0_0_0 sqrt  W_1_0 W_1_1 H_1_0 H_1_1 h N_1_0_0 N_1_0_1 N_1_1_0 N_1_1_1 ∧
    Gen.levy_davie_b2_A_1_0_1 sqrt  W_0_0 W_0_1 W_1_0 W_1_1 H_0_0 H_0_1 H_1_0 H_1_1 h N_0_0_0 N_0_0_1 N_0_1_0 N_0_1_1 N_1_0_0 N_1_0_1 N_1_1_0 N_1_1_1
      = Gen.levy_davie_A_0_0_1 sqrt  W_1_0 W_1_1 H_1_0 H_1_1 h N_1_0_0 N_1_0_1 N_1_1_0 N_1_1_1 ∧
    Gen.levy_davie_b2_A_1_1_0 sqrt  W_0_0 W_0_1 W_1_0 W_1_1 H_0_0 H_0_1 H_1_0 H_1_1 h N_0_0_0 N_0_0_1 N_0_1_0 N_0_1_1 N_1_0_0 N_1_0_1 N_1_1_0 N_1_1_1
      = Gen.levy_davie_A_0_1_0 sqrt  W_1_0 W_1_1 H_1_0 H_1_1 h N_1_0_0 N_1_0_1 N_1_1_0 N_1_1_1 ∧
    Gen.levy_davie_b2_A_1_1_1 sqrt  W_0_0 W_0_1 W_1_0 W_1_1 H_0_0 H_0_1 H_1_0 H_1_1 h N_0_0_0 N_0_0_1 N_0_1_0 N_0_1_1 N_1_0_0 N_1_0_1 N_1_1_0 N_1_1_1
      = Gen.levy_davie_A_0_1_1 sqrt  W_1_0 W_1_1 H_1_0 H_1_1 h N_1_0_0 N_1_0_1 N_1_1_0 N_1_1_1 := by
  refine ⟨?_, ?_, ?_, ?_, ?_, ?_, ?_, ?_⟩ <;> simp only [Gen.levy_davie_A_0_0_0, Gen.levy_davie_A_0_0_1, Gen.levy_davie_A_0_1_0, Gen.levy_davie_A_0_1_1, Gen.levy_davie_b2_A_0_0_0, Gen.levy_davie_b2_A_0_0_1, Gen.levy_davie_b2_A_0_1_0, Gen.levy_davie_b2_A_0_1_1, Gen.levy_davie_b2_A_1_0_0, Gen.levy_davie_b2_A_1_0_1, Gen.levy_davie_b2_A_1_1_0, Gen.levy_davie_b2_A_1_1_1] <;> ring

/-- row 0 is unaffected by anything in row 1; swapping the rows of the inputs swaps the rows of the output -/
theorem levy_davie_b2_no_crosstalk (sqrt : K → K) (W_0_0 W_0_1 W_1_0 W_1_1 H_0_0 H_0_1 H_1_0 H_1_1 h N_0_0_0 N_0_0_1 N_0_1_0 N_0_1_1 N_1_0_0 N_1_0_1 N_1_1_0 N_1_1_1 W_1_0' W_1_1' H_1_0' H_1_1' N_1_0_0' N_1_0_1' N_1_1_0' N_1_1_1' : K) :
    Gen.levy_davie_b2_A_0_0_0 sqrt  W_0_0 W_0_1 W_1_0 W_1_1 H_0_0 H_0_1 H_1_0 H_1_1 h N_0_0_0 N_0_0_1 N_0_1_0 N_0_1_1 N_1_0_0 N_1_0_1 N_1_1_0 N_1_1_1 = Gen.levy_davie_b2_A_0_0_0 sqrt  W_0_0 W_0_1 W_1_0' W_1_1' H_0_0 H_0_1 H_1_0' H_1_1' h N_0_0_0 N_0_0_1 N_0_1_0 N_0_1_1 N_1_0_0' N_1_0_1' N_1_1_0' N_1_1_1' ∧
    Gen.levy_davie_b2_A_1_0_0 sqrt  W_0_0 W_0_1 W_1_0 W_1_1 H_0_0 H_0_1 H_1_0 H_1_1 h N_0_0_0 N_0_0_1 N_0_1_0 N_0_1_1 N_1_0_0 N_1_0_1 N_1_1_0 N_1_1_1 = Gen.levy_davie_b2_A_0_0_0 sqrt  W_1_0 W_1_1 W_0_0 W_0_1 H_1_0 H_1_1 H_0_0 H_0_1 h N_1_0_0 N_1_0_1 N_1_1_0 N_1_1_1 N_0_0_0 N_0_0_1 N_0_1_0 N_0_1_1 := by
  constructor <;> simp only [Gen.levy_davie_b2_A_0_0_0, Gen.levy_davie_b2_A_0_0_1, Gen.levy_davie_b2_A_0_1_0, Gen.levy_davie_b2_A_0_1_1, Gen.levy_davie_b2_A_1_0_0, Gen.levy_davie_b2_A_1_0_1, Gen.levy_davie_b2_A_1_1_0, Gen.levy_davie_b2_A_1_1_1] <;> ring

/-- `levy_foster` with two batch rows: row b of the output = the one-row step on row b of the inputs -/
theorem levy_foster_b2_rowwise (sqrt : K → K) (W_0_0 W_0_1 W_1_0 W_1_1 H_0_0 H_0_1 H_1_0 H_1_1 h N_0_0_0 N_0_0_1 N_0_1_0 N_0_1_1 N_1_0_0 N_1_0_1 N_1_1_0 N_1_1_1 : K) :
    Gen.levy_foster_b2_A_0_0_0 sqrt  W_0_0 W_0_1 W_1_0 W_1_1 H_0_0 H_0_1 H_1_0 H_1_1 h N_0_0_0 N_0_0_1 N_0_1_0 N_0_1_1 N_1_0_0 N_1_0_1 N_1_1_0 N_1_1_1
      = Gen.levy_foster_A_0_0_0 sqrt  W_0_0 W_0_1 H_0_0 H_0_1 h N_0_0_0 N_0_0_1 N_0_1_0 N_0_1_1 ∧
    Gen.levy_foster_b2_A_0_0_1 sqrt  W_0_0 W_0_1 W_1_0 W_1_1 H_0_0 H_0_1 H_1_0 H_1_1 h N_0_0_0 N_0_0_1 N_0_1_0 N_0_1_1 N_1_0_0 N_1_0_1 N_1_1_0 N_1_1_1
      = Gen.levy_foster_A_0_0_1 sqrt  W_0_0 W_0_1 H_0_0 H_0_1 h N_0_0_0 N_0_0_1 N_0_1_0 N_0_1_1 ∧
    Gen.levy_foster_b2_A_0_1_0 sqrt  W_0_0 W_0_1 W_1_0 W_1_1 H_0_0 H_0_1 H_1_0 H_1_1 h N_0_0_0 N_0_0_1 N_0_1_0 N_0_1_1 N_1_0_0 N_1_0_1 N_1_1_0 N_1_1_1
      = Gen.levy_foster_A_0_1_0 sqrt  W_0_0 W_0_1 H_0_0 H_0_1 h N_0_0_0 N_0_0_1 N_0_1_0 N_0_1_1 ∧
    Gen.levy_foster_b2_A_0_1_1 sqrt  W_0_0 W_0_1 W_1_0 W_1_1 H_0_0 H_0_1 H_1_0 H_1_1 h N_0_0_0 N_0_0_1 N_0_1_0 N_0_1_1 N_1_0_0 N_1_0_1 N_1_1_0 N_1_1_1
      = Gen.levy_foster_A_0_1_1 sqrt  W_0_0 W_0_1 H_0_0 H_0_1 h N_0_0_0 N_0_0_1 N_0_1_0 N_0_1_1 ∧
    Gen.levy_foster_b2_A_1_0_0 sqrt  W_0_0 W_0_1 W_1_0 W_1_1 H_0_0 H_0_1 H_1_0 H_1_1 h N_0_0_0 N_0_0_1 N_0_1_0 N_0_1_1 N_1_0_0 N_1_0_1 N_1_1_0 N_1_1_1
      = Gen.levy_foster_A_0_0_0 sqrt  W_1_0 W_1_1 H_1_0 H_1_1 h N_1_0_0 N_1_0_1 N_1_1_0 N_1_1_1 ∧
    Gen.levy_foster_b2_A_1_0_1 sqrt  W_0_0 W_0_1 W_1_0 W_1_1 H_0_0 H_0_1 H_1_0 H_1_1 h N_0_0_0 N_0_0_1 N_0_1_0 N_0_1_1 N_1_0_0 N_1_0_1 N_1_1_0 N_1_1_1
      = Gen.levy_foster_A_0_0_1 sqrt  W_1_0 W_1_1 H_1_0 H_1_1 h N_1_0_0 N_1_0_1 N_1_1_0 N_1_1_1 ∧
    Gen.levy_foster_b2_A_1_1_0 sqrt  W_0_0 W_0_1 W_1_0 W_1_1 H_0_0 H_0_1 H_1_0 H_1_1 h N_0_0_0 N_0_0_1 N_0_1_0 N_0_1_1 N_1_0_0 N_1_0_1 N_1_1_0 N_1_1_1
      = Gen.levy_foster_A_0_1_0 sqrt  W_1_0 W_1_1 H_1_0 H_1_1 h N_1_0_0 N_1_0_1 N_1_1_0 N_1_1_1 ∧
    Gen.levy_foster_b2_A_1_1_1 sqrt  W_0_0 W_0_1 W_1_0 W_1_1 H_0_0 H_0_1 H_1_0 H_1_1 h N_0_0_0 N_0_0_1 N_0_1_0 N_0_1_1 N_1_0_0 N_1_0_1 N_1_1_0 N_1_1_1
      = Gen.levy_foster_A_0_1_1 sqrt  W_1_0 W_1_1 H_1_0 H_1_1 h N_1_0_0 N_1_0_1 N_1_1_0 N_1_1_1 := by
  refine ⟨?_, ?_, ?_, ?_, ?_, ?_, ?_, ?_⟩ <;> simp only [Gen.levy_foster_A_0_0_0, Gen.levy_foster_A_0_0_1, Gen.levy_foster_A_0_1_0, Gen.levy_foster_A_0_1_1, Gen.levy_foster_b2_A_0_0_0, Gen.levy_foster_b2_A_0_0_1, Gen.levy_foster_b2_A_0_1_0, Gen.levy_foster_b2_A_0_1_1, Gen.levy_foster_b2_A_1_0_0, Gen.levy_foster_b2_A_1_0_1, Gen.levy_foster_b2_A_1_1_0, Gen.levy_foster_b2_A_1_1_1] <;> ring

/-- row 0 is unaffected by anything in row 1; swapping the rows of the inputs swaps the rows of the output -/
theorem levy_foster_b2_no_crosstalk (sqrt : K → K) (W_0_0 W_0_1 W_1_0 W_1_1 H_0_0 H_0_1 H_1_0 H_1_1 h N_0_0_0 N_0_0_1 N_0_1_0 N_0_1_1 N_1_0_0 N_1_0_1 N_1_1_0 N_1_1_1 W_1_0' W_1_1' H_1_0' H_1_1' N_1_0_0' N_1_0_1' N_1_1_0' N_1_1_1' : K) :
    Gen.levy_foster_b2_A_0_0_0 sqrt  W_0_0 W_0_1 W_1_0 W_1_1 H_0_0 H_0_1 H_1_0 H_1_1 h N_0_0_0 N_0_0_1 N_0_1_0 N_0_1_1 N_1_0_0 N_1_0_1 N_1_1_0 N_1_1_1 = Gen.levy_foster_b2_A_0_0_0 sqrt  W_0_0 W_0_1 W_1_0' W_1_1' H_0_0 H_0_1 H_1_0' H_1_1' h N_0_0_0 N_0_0_1 N_0_1_0 N_0_1_1 N_1_0_0' N_1_0_1' N_1_1_0' N_1_1_1' ∧
    Gen.levy_foster_b2_A_1_0_0 sqrt  W_0_0 W_0_1 W_1_0 W_1_1 H_0_0 H_0_1 H_1_0 H_1_1 h N_0_0_0 N_0_0_1 N_0_1_0 N_0_1_1 N_1_0_0 N_1_0_1 N_1_1_0 N_1_1_1 = Gen.levy_foster_b2_A_0_0_0 sqrt  W_1_0 W_1_1 W_0_0 W_0_1 H_1_0 H_1_1 H_0_0 H_0_1 h N_1_0_0 N_1_0_1 N_1_1_0 N_1_1_1 N_0_0_0 N_0_0_1 N_0_1_0 N_0_1_1 := by
  constructor <;> simp only [Gen.levy_foster_b2_A_0_0_0, Gen.levy_foster_b2_A_0_0_1, Gen.levy_foster_b2_A_0_1_0, Gen.levy_foster_b2_A_0_1_1, Gen.levy_foster_b2_A_1_0_0, Gen.levy_foster_b2_A_1_0_1, Gen.levy_foster_b2_A_1_1_0, Gen.levy_foster_b2_A_1_1_1] <;> ring

/-- `log_ode_s_additive_11` with two batch rows: row b of the output = the one-row step on row b of the inputs -/
theorem log_ode_s_additive_11_b2_rowwise (f : K → K → K) (g : K → K) (t0 t1 y0_0_0 y0_1_0 dW_0_0 dW_1_0 U_0_0 U_1_0 A_0_0_0 A_1_0_0 : K) :
    Gen.log_ode_s_additive_11_b2_y1_0_0 f g t0 t1 y0_0_0 y0_1_0 dW_0_0 dW_1_0 U_0_0 U_1_0 A_0_0_0 A_1_0_0
      = Gen.log_ode_s_additive_11_y1_0_0 f g t0 t1 y0_0_0 dW_0_0 U_0_0 A_0_0_0 ∧
    Gen.log_ode_s_additive_11_b2_y1_1_0 f g t0 t1 y0_0_0 y0_1_0 dW_0_0 dW_1_0 U_0_0 U_1_0 A_0_0_0 A_1_0_0
      = Gen.log_ode_s_additive_11_y1_0_0 f g t0 t1 y0_1_0 dW_1_0 U_1_0 A_1_0_0 := by
  refine ⟨?_, ?_⟩ <;> simp only [Gen.log_ode_s_additive_11_b2_y1_0_0, Gen.log_ode_s_additive_11_b2_y1_1_0, Gen.log_ode_s_additive_11_y1_0_0] <;> ring

/-- row 0 is unaffected by anything in row 1; swapping the rows of the inputs swaps the rows of the output -/
theorem log_ode_s_additive_11_b2_no_crosstalk (f : K → K → K) (g : K → K) (t0 t1 y0_0_0 y0_1_0 dW_0_0 dW_1_0 U_0_0 U_1_0 A_0_0_0 A_1_0_0 y0_1_0' dW_1_0' U_1_0' A_1_0_0' : K) :
    Gen.log_ode_s_additive_11_b2_y1_0_0 f g t0 t1 y0_0_0 y0_1_0 dW_0_0 dW_1_0 U_0_0 U_1_0 A_0_0_0 A_1_0_0 = Gen.log_ode_s_additive_11_b2_y1_0_0 f g t0 t1 y0_0_0 y0_1_0' dW_0_0 dW_1_0' U_0_0 U_1_0' A_0_0_0 A_1_0_0' ∧
    Gen.log_ode_s_additive_11_b2_y1_1_0 f g t0 t1 y0_0_0 y0_1_0 dW_0_0 dW_1_0 U_0_0 U_1_0 A_0_0_0 A_1_0_0 = Gen.log_ode_s_additive_11_b2_y1_0_0 f g t0 t1 y0_1_0 y0_0_0 dW_1_0 dW_0_0 U_1_0 U_0_0 A_1_0_0 A_0_0_0 := by
  constructor <;> simp only [Gen.log_ode_s_additive_11_b2_y1_0_0, Gen.log_ode_s_additive_11_b2_y1_1_0] <;> ring

/-- `log_ode_s_diagonal_11` with two batch rows: row b of the output = the one-row step on row b of the inputs -/
theorem log_ode_s_diagonal_11_b2_rowwise (f : K → K → K) (g : K → K → K) (t0 t1 y0_0_0 y0_1_0 dW_0_0 dW_1_0 U_0_0 U_1_0 A_0_0_0 A_1_0_0 : K) :
    Gen.log_ode_s_diagonal_11_b2_y1_0_0 f g t0 t1 y0_0_0 y0_1_0 dW_0_0 dW_1_0 U_0_0 U_1_0 A_0_0_0 A_1_0_0
      = Gen.log_ode_s_diagonal_11_y1_0_0 f g t0 t1 y0_0_0 dW_0_0 U_0_0 A_0_0_0 ∧
    Gen.log_ode_s_diagonal_11_b2_y1_1_0 f g t0 t1 y0_0_0 y0_1_0 dW_0_0 dW_1_0 U_0_0 U_1_0 A_0_0_0 A_1_0_0
      = Gen.log_ode_s_diagonal_11_y1_0_0 f g t0 t1 y0_1_0 dW_1_0 U_1_0 A_1_0_0 := by
  refine ⟨?_, ?_⟩ <;> simp only [Gen.log_ode_s_diagonal_11_b2_y1_0_0, Gen.log_ode_s_diagonal_11_b2_y1_1_0, Gen.log_ode_s_diagonal_11_y1_0_0] <;> ring

/-- row 0 is unaffected by anything in row 1; swapping the rows of the inputs swaps the rows of the output -/
theorem log_ode_s_diagonal_11_b2_no_crosstalk (f : K → K → K) (g : K → K → K) (t0 t1 y0_0_0 y0_1_0 dW_0_0 dW_1_0 U_0_0 U_1_0 A_0_0_0 A_1_0_0 y0_1_0' dW_1_0' U_1_0' A_1_0_0' : K) :
    Gen.log_ode_s_diagonal_11_b2_y1_0_0 f g t0 t1 y0_0_0 y0_1_0 dW_0_0 dW_1_0 U_0_0 U_1_0 A_0_0_0 A_1_0_0 = Gen.log_ode_s_diagonal_11_b2_y1_0_0 f g t0 t1 y0_0_0 y0_1_0' dW_0_0 dW_1_0' U_0_0 U_1_0' A_0_0_0 A_1_0_0' ∧
    Gen.log_ode_s_diagonal_11_b2_y1_1_0 f g t0 t1 y0_0_0 y0_1_0 dW_0_0 dW_1_0 U_0_0 U_1_0 A_0_0_0 A_1_0_0 = Gen.log_ode_s_diagonal_11_b2_y1_0_0 f g t0 t1 y0_1_0 y0_0_0 dW_1_0 dW_0_0 U_1_0 U_0_0 A_1_0_0 A_0_0_0 := by
  constructor <;> simp only [Gen.log_ode_s_diagonal_11_b2_y1_0_0, Gen.log_ode_s_diagonal_11_b2_y1_1_0] <;> ring

/-- `log_ode_s_general_11` with two batch rows: row b of the output = the one-row step on row b of the inputs -/
theorem log_ode_s_general_11_b2_rowwise (f : K → K → K) (g : K → K → K) (g_d1 : K → K → K) (t0 t1 y0_0_0 y0_1_0 dW_0_0 dW_1_0 U_0_0 U_1_0 A_0_0_0 A_1_0_0 : K) :
    Gen.log_ode_s_general_11_b2_y1_0_0 f g g_d1 t0 t1 y0_0_0 y0_1_0 dW_0_0 dW_1_0 U_0_0 U_1_0 A_0_0_0 A_1_0_0
      = Gen.log_ode_s_general_11_y1_0_0 f g g_d1 t0 t1 y0_0_0 dW_0_0 U_0_0 A_0_0_0 ∧
    Gen.log_ode_s_general_11_b2_y1_1_0 f g g_d1 t0 t1 y0_0_0 y0_1_0 dW_0_0 dW_1_0 U_0_0 U_1_0 A_0_0_0 A_1_0_0
      = Gen.log_ode_s_general_11_y1_0_0 f g g_d1 t0 t1 y0_1_0 dW_1_0 U_1_0 A_1_0_0 := by
  refine ⟨?_, ?_⟩ <;> simp only [Gen.log_ode_s_general_11_b2_y1_0_0, Gen.log_ode_s_general_11_b2_y1_1_0, Gen.log_ode_s_general_11_y1_0_0] <;> ring

/-- row 0 is unaffected by anything in row 1; swapping the rows of the inputs swaps the rows of the output -/
theorem log_ode_s_general_11_b2_no_crosstalk (f : K → K → K) (g : K → K → K) (g_d1 : K → K → K) (t0 t1 y0_0_0 y0_1_0 dW_0_0 dW_1_0 U_0_0 U_1_0 A_0_0_0 A_1_0_0 y0_1_0' dW_1_0' U_1_0' A_1_0_0' : K) :
    Gen.log_ode_s_general_11_b2_y1_0_0 f g g_d1 t0 t1 y0_0_0 y0_1_0 dW_0_0 dW_1_0 U_0_0 U_1_0 A_0_0_0 A_1_0_0 = Gen.log_ode_s_general_11_b2_y1_0_0 f g g_d1 t0 t1 y0_0_0 y0_1_0' dW_0_0 dW_1_0' U_0_0 U_1_0' A_0_0_0 A_1_0_0' ∧
    Gen.log_ode_s_general_11_b2_y1_1_0 f g g_d1 t0 t1 y0_0_0 y0_1_0 dW_0_0 dW_1_0 U_0_0 U_1_0 A_0_0_0 A_1_0_0 = Gen.log_ode_s_general_11_b2_y1_0_0 f g g_d1 t0 t1 y0_1_0 y0_0_0 dW_1_0 dW_0_0 U_1_0 U_0_0 A_1_0_0 A_0_0_0 := by
  constructor <;> simp only [Gen.log_ode_s_general_11_b2_y1_0_0, Gen.log_ode_s_general_11_b2_y1_1_0] <;> ring

/-- `log_ode_s_general_22` with two batch rows: row b of the output = the one-row step on row b of the inputs -/
theorem log_ode_s_general_22_b2_rowwise (f0 : K → K → K → K) (f1 : K → K → K → K) (g00 : K → K → K → K) (g00_d1 : K → K → K → K) (g00_d2 : K → K → K → K) (g01 : K → K → K → K) (g01_d1 : K → K → K → K) (g01_d2 : K → K → K → K) (g10 : K → K → K → K) (g10_d1 : K → K → K → K) (g10_d2 : K → K → K → K) (g11 : K → K → K → K) (g11_d1 : K → K → K → K) (g11_d2 : K → K → K → K) (t0 t1 y0_0_0 y0_0_1 y0_1_0 y0_1_1 dW_0_0 dW_0_1 dW_1_0 dW_1_1 U_0_0 U_0_1 U_1_0 U_1_1 A_0_0_0 A_0_0_1 A_0_1_0 A_0_1_1 A_1_0_0 A_1_0_1 A_1_1_0 A_1_1_1 : K) :
    Gen.log_ode_s_general_22_b2_y1_0_0 f0 f1 g00 g00_d1 g00_d2 g01 g01_d1 g01_d2 g10 g10_d1 g10_d2 g11 g11_d1 g11_d2 t0 t1 y0_0_0 y0_0_1 y0_1_0 y0_1_1 dW_0_0 dW_0_1 dW_1_0 dW_1_1 U_0_0 U_0_1 U_1_0 U_1_1 A_0_0_0 A_0_0_1 A_0_1_0 A_0_1_1 A_1_0_0 A_1_0_1 A_1_1_0 A_1_1_1
      = Gen.log_ode_s_general_22_y1_0_0 f0 f1 g00 g00_d1 g00_d2 g01 g01_d1 g01_d2 g10 g10_d1 g10_d2 g11 g11_d1 g11_d2 t0 t1 y0_0_0 y0_0_1 dW_0_0 dW_0_1 U_0_0 U_0_1 A_0_0_0 A_0_0_1 A_0_1_0 A_0_1_1 ∧
    Gen.log_ode_s_general_22_b2_y1_0_1 f0 f1 g00 g00_d1 g00_d2 g01 g01_d1 g01_d2 g10 g10_d1 g10_d2 g11 g11_d1 g11_d2 t0 t1 y0_0_0 y0_0_1 y0_1_0 y0_1_1 dW_0_0 dW_0_1 dW_1_0 dW_1_1 U_0_0 U_0_1 U_1_0 U_1_1 A_0_0_0 A_0_0_1 A_0_1_0 A_0_1_1 A_1_0_0 A_1_0_1 A_1_1_0 A_1_1_1
      = Gen.log_ode_s_general_22_y1_0_1 f0 f1 g00 g00_d1 g00_d2 g01 g01_d1 g01_d2 g10 g10_d1 g10_d2 g11 g11_d1 g11_d2 t0 t1 y0_0_0 y0_0_1 dW_0_0 dW_0_1 U_0_0 U_0_1 A_0_0_0 A_0_0_1 A_0_1_0 A_0_1_1 ∧
    Gen.log_ode_s_general_22_b2_y1_1_0 f0 f1 g00 g00_d1 g00_d2 g01 g01_d1 g01_d2 g10 g10_d1 g10_d2 g11 g11_d1 g11_d2 t0 t1 y0_0_0 y0_0_1 y0_1_0 y0_1_1 dW_0_0 dW_0_1 dW_1_0 dW_1_1 U_0_0 U_0_1 U_1_0 U_1_1 A_0_0_0 A_0_0_1 A_0_1_0 A_0_1_1 A_1_0_0 A_1_0_1 A_1_1_0 A_1_1_1
      = Gen.log_ode_s_general_22_y1_0_0 f0 f1 g00 g00_d1 g00_d2 g01 g01_d1 g01_d2 g10 g10_d1 g10_d2 g11 g11_d1 g11_d2 t0 t1 y0_1_0 y0_1_1 dW_1_0 dW_1_1 U_1_0 U_1_1 A_1_0_0 A_1_0_1 A_1_1_0 A_1_1_1 ∧
    Gen.log_ode_s_general_22_b2_y1_1_1 f0 f1 g00 g00_d1 g00_d2 g01 g01_d1 g01_d2 g10 g10_d1 g10_d2 g11 g11_d1 g11_d2 t0 t1 y0_0_0 y0_0_1 y0_1_0 y0_1_1 dW_0_0 dW_0_1 dW_1_0 dW_1_1 U_0_0 U_0_1 U_1_0 U_1_1 A_0_0_0 A_0_0_1 A_0_1_0 A_0_1_1 A_1_0_0 A_1_0_1 A_1_1_0 A_1_1_1
      = Gen.log_ode_s_general_22_y1_0_1 f0 f1 g00 g00_d1 g00_d2 g01 g01_d1 g01_d2 g10 g10_d1 g10_d2 g11 g11_d1 g11_d2 t0 t1 y0_1_0 y0_1_1 dW_1_0 dW_1_1 U_1_0 U_1_1 A_1_0_0 A_1_0_1 A_1_1_0 A_1_1_1 := by
  refine ⟨?_, ?_, ?_, ?_⟩ <;> simp only [Gen.log_ode_s_general_22_b2_y1_0_0, Gen.log_ode_s_general_22_b2_y1_0_1, Gen.log_ode_s_general_22_b2_y1_1_0, Gen.log_ode_s_general_22_b2_y1_1_1, Gen.log_ode_s_general_22_y1_0_0, Gen.log_ode_s_general_22_y1_0_1] <;> ring

/-- row 0 is unaffected by anything in row 1; swapping the rows of the inputs swaps the rows of the output -/
theorem log_ode_s_general_22_b2_no_crosstalk (f0 : K → K → K → K) (f1 : K → K → K → K) (g00 : K → K → K → K) (g00_d1 : K → K → K → K) (g00_d2 : K → K → K → K) (g01 : K → K → K → K) (g01_d1 : K → K → K → K) (g01_d2 : K → K → K → K) (g10 : K → K → K → K) (g10_d1 : K → K → K → K) (g10_d2 : K → K → K → K) (g11 : K → K → K → K) (g11_d1 : K → K → K → K) (g11_d2 : K → K → K → K) (t0 t1 y0_0_0 y0_0_1 y0_1_0 y0_1_1 dW_0_0 dW_0_1 dW_1_0 dW_1_1 U_0_0 U_0_1 U_1_0 U_1_1 A_0_0_0 A_0_0_1 A_0_1_0 A_0_1_1 A_1_0_0 A_1_0_1 A_1_1_0 A_1_1_1 y0_1_0' y0_1_1' dW_1_0' dW_1_1' U_1_0' U_1_1' A_1_0_0' A_1_0_1' A_1_1_0' A_1_1_1' : K) :
    Gen.log_ode_s_general_22_b2_y1_0_0 f0 f1 g00 g00_d1 g00_d2 g01 g01_d1 g01_d2 g10 g10_d1 g10_d2 g11 g11_d1 g11_d2 t0 t1 y0_0_0 y0_0_1 y0_1_0 y0_1_1 dW_0_0 dW_0_1 dW_1_0 dW_1_1 U_0_0 U_0_1 U_1_0 U_1_1 A_0_0_0 A_0_0_1 A_0_1_0 A_0_1_1 A_1_0_0 A_1_0_1 A_1_1_0 A_1_1_1 = Gen.log_ode_s_general_22_b2_y1_0_0 f0 f1 g00 g00_d1 g00_d2 g01 g01_d1 g01_d2 g10 g10_d1 g10_d2 g11 g11_d1 g11_d2 t0 t1 y0_0_0 y0_0_1 y0_1_0' y0_1_1' dW_0_0 dW_0_1 dW_1_0' dW_1_1' U_0_0 U_0_1 U_1_0' U_1_1' A_0_0_0 A_0_0_1 A_0_1_0 A_0_1_1 A_1_0_0' A_1_0_1' A_1_1_0' A_1_1_1' ∧
    Gen.log_ode_s_general_22_b2_y1_1_0 f0 f1 g00 g00_d1 g00_d2 g01 g01_d1 g01_d2 g10 g10_d1 g10_d2 g11 g11_d1 g11_d2 t0 t1 y0_0_0 y0_0_1 y0_1_0 y0_1_1 dW_0_0 dW_0_1 dW_1_0 dW_1_1 U_0_0 U_0_1 U_1_0 U_1_1 A_0_0_0 A_0_0_1 A_0_1_0 A_0_1_1 A_1_0_0 A_1_0_1 A_1_1_0 A_1_1_1 = Gen.log_ode_s_general_22_b2_y1_0_0 f0 f1 g00 g00_d1 g00_d2 g01 g01_d1 g01_d2 g10 g10_d1 g10_d2 g11 g11_d1 g11_d2 t0 t1 y0_1_0 y0_1_1 y0_0_0 y0_0_1 dW_1_0 dW_1_1 dW_0_0 dW_0_1 U_1_0 U_1_1 U_0_0 U_0_1 A_1_0_0 A_1_0_1 A_1_1_0 A_1_1_1 A_0_0_0 A_0_0_1 A_0_1_0 A_0_1_1 := by
  constructor <;> simp only [Gen.log_ode_s_general_22_b2_y1_0_0, Gen.log_ode_s_general_22_b2_y1_0_1, Gen.log_ode_s_general_22_b2_y1_1_0, Gen.log_ode_s_general_22_b2_y1_1_1] <;> ring

/-- `log_ode_s_scalar_11` with two batch rows: row b of the output = the one-row step on row b of the inputs -/
theorem log_ode_s_scalar_11_b2_rowwise (f : K → K → K) (g : K → K → K) (t0 t1 y0_0_0 y0_1_0 dW_0_0 dW_1_0 U_0_0 U_1_0 A_0_0_0 A_1_0_0 : K) :
    Gen.log_ode_s_scalar_11_b2_y1_0_0 f g t0 t1 y0_0_0 y0_1_0 dW_0_0 dW_1_0 U_0_0 U_1_0 A_0_0_0 A_1_0_0
      = Gen.log_ode_s_scalar_11_y1_0_0 f g t0 t1 y0_0_0 dW_0_0 U_0_0 A_0_0_0 ∧
    Gen.log_ode_s_scalar_11_b2_y1_1_0 f g t0 t1 y0_0_0 y0_1_0 dW_0_0 dW_1_0 U_0_0 U_1_0 A_0_0_0 A_1_0_0
      = Gen.log_ode_s_scalar_11_y1_0_0 f g t0 t1 y0_1_0 dW_1_0 U_1_0 A_1_0_0 := by
  refine ⟨?_, ?_⟩ <;> simp only [Gen.log_ode_s_scalar_11_b2_y1_0_0, Gen.log_ode_s_scalar_11_b2_y1_1_0, Gen.log_ode_s_scalar_11_y1_0_0] <;> ring

/-- row 0 is unaffected by anything in row 1; swapping the rows of the inputs swaps the rows of the output -/
theorem log_ode_s_scalar_11_b2_no_crosstalk (f : K → K → K) (g : K → K → K) (t0 t1 y0_0_0 y0_1_0 dW_0_0 dW_1_0 U_0_0 U_1_0 A_0_0_0 A_1_0_0 y0_1_0' dW_1_0' U_1_0' A_1_0_0' : K) :
    Gen.log_ode_s_scalar_11_b2_y1_0_0 f g t0 t1 y0_0_0 y0_1_0 dW_0_0 dW_1_0 U_0_0 U_1_0 A_0_0_0 A_1_0_0 = Gen.log_ode_s_scalar_11_b2_y1_0_0 f g t0 t1 y0_0_0 y0_1_0' dW_0_0 dW_1_0' U_0_0 U_1_0' A_0_0_0 A_1_0_0' ∧
    Gen.log_ode_s_scalar_11_b2_y1_1_0 f g t0 t1 y0_0_0 y0_1_0 dW_0_0 dW_1_0 U_0_0 U_1_0 A_0_0_0 A_1_0_0 = Gen.log_ode_s_scalar_11_b2_y1_0_0 f g t0 t1 y0_1_0 y0_0_0 dW_1_0 dW_0_0 U_1_0 U_0_0 A_1_0_0 A_0_0_0 := by
  constructor <;> simp only [Gen.log_ode_s_scalar_11_b2_y1_0_0, Gen.log_ode_s_scalar_11_b2_y1_1_0] <;> ring

/-- `lqrow_euler_i_diagonal_11` with two batch rows: row b of the output = the one-row step on row b of the inputs -/
theorem lqrow_euler_i_diagonal_11_b2_rowwise (sgn : K → K) (f : K → K → K) (g : K → K → K) (h : K → K → K) (t0 t1 y0_0_0 y0_1_0 l0_0_0 l0_1_0 dW_0_0 dW_0_1 dW_1_0 dW_1_1 : K) :
    Gen.lqrow_euler_i_diagonal_11_b2_y1_0_0 sgn f g h t0 t1 y0_0_0 y0_1_0 l0_0_0 l0_1_0 dW_0_0 dW_0_1 dW_1_0 dW_1_1
      = Gen.lqrow_euler_i_diagonal_11_y1_0_0 sgn f g h t0 t1 y0_0_0 l0_0_0 dW_0_0 dW_0_1 ∧
    Gen.lqrow_euler_i_diagonal_11_b2_y1_0_1 sgn f g h t0 t1 y0_0_0 y0_1_0 l0_0_0 l0_1_0 dW_0_0 dW_0_1 dW_1_0 dW_1_1
      = Gen.lqrow_euler_i_diagonal_11_y1_0_1 sgn f g h t0 t1 y0_0_0 l0_0_0 dW_0_0 dW_0_1 ∧
    Gen.lqrow_euler_i_diagonal_11_b2_y1_1_0 sgn f g h t0 t1 y0_0_0 y0_1_0 l0_0_0 l0_1_0 dW_0_0 dW_0_1 dW_1_0 dW_1_1
      = Gen.lqrow_euler_i_diagonal_11_y1_0_0 sgn f g h t0 t1 y0_1_0 l0_1_0 dW_1_0 dW_1_1 ∧
    Gen.lqrow_euler_i_diagonal_11_b2_y1_1_1 sgn f g h t0 t1 y0_0_0 y0_1_0 l0_0_0 l0_1_0 dW_0_0 dW_0_1 dW_1_0 dW_1_1
      = Gen.lqrow_euler_i_diagonal_11_y1_0_1 sgn f g h t0 t1 y0_1_0 l0_1_0 dW_1_0 dW_1_1 := by
  refine ⟨?_, ?_, ?_, ?_⟩ <;> simp only [Gen.lqrow_euler_i_diagonal_11_b2_y1_0_0, Gen.lqrow_euler_i_diagonal_11_b2_y1_0_1, Gen.lqrow_euler_i_diagonal_11_b2_y1_1_0, Gen.lqrow_euler_i_diagonal_11_b2_y1_1_1, Gen.lqrow_euler_i_diagonal_11_y1_0_0, Gen.lqrow_euler_i_diagonal_11_y1_0_1] <;> ring

/-- row 0 is unaffected by anything in row 1; swapping the rows of the inputs swaps the rows of the output -/
theorem lqrow_euler_i_diagonal_11_b2_no_crosstalk (sgn : K → K) (f : K → K → K) (g : K → K → K) (h : K → K → K) (t0 t1 y0_0_0 y0_1_0 l0_0_0 l0_1_0 dW_0_0 dW_0_1 dW_1_0 dW_1_1 y0_1_0' l0_1_0' dW_1_0' dW_1_1' : K) :
    Gen.lqrow_euler_i_diagonal_11_b2_y1_0_0 sgn f g h t0 t1 y0_0_0 y0_1_0 l0_0_0 l0_1_0 dW_0_0 dW_0_1 dW_1_0 dW_1_1 = Gen.lqrow_euler_i_diagonal_11_b2_y1_0_0 sgn f g h t0 t1 y0_0_0 y0_1_0' l0_0_0 l0_1_0' dW_0_0 dW_0_1 dW_1_0' dW_1_1' ∧
    Gen.lqrow_euler_i_diagonal_11_b2_y1_1_0 sgn f g h t0 t1 y0_0_0 y0_1_0 l0_0_0 l0_1_0 dW_0_0 dW_0_1 dW_1_0 dW_1_1 = Gen.lqrow_euler_i_diagonal_11_b2_y1_0_0 sgn f g h t0 t1 y0_1_0 y0_0_0 l0_1_0 l0_0_0 dW_1_0 dW_1_1 dW_0_0 dW_0_1 := by
  constructor <;> simp only [Gen.lqrow_euler_i_diagonal_11_b2_y1_0_0, Gen.lqrow_euler_i_diagonal_11_b2_y1_0_1, Gen.lqrow_euler_i_diagonal_11_b2_y1_1_0, Gen.lqrow_euler_i_diagonal_11_b2_y1_1_1] <;> ring

/-- `lqrow_heun_s_diagonal_11` with two batch rows: row b of the output = the one-row step on row b of the inputs -/
theorem lqrow_heun_s_diagonal_11_b2_rowwise (sgn : K → K) (f : K → K → K) (g : K → K → K) (h : K → K → K) (t0 t1 y0_0_0 y0_1_0 l0_0_0 l0_1_0 dW_0_0 dW_0_1 dW_1_0 dW_1_1 : K) :
    Gen.lqrow_heun_s_diagonal_11_b2_y1_0_0 sgn f g h t0 t1 y0_0_0 y0_1_0 l0_0_0 l0_1_0 dW_0_0 dW_0_1 dW_1_0 dW_1_1
      = Gen.lqrow_heun_s_diagonal_11_y1_0_0 sgn f g h t0 t1 y0_0_0 l0_0_0 dW_0_0 dW_0_1 ∧
    Gen.lqrow_heun_s_diagonal_11_b2_y1_0_1 sgn f g h t0 t1 y0_0_0 y0_1_0 l0_0_0 l0_1_0 dW_0_0 dW_0_1 dW_1_0 dW_1_1
      = Gen.lqrow_heun_s_diagonal_11_y1_0_1 sgn f g h t0 t1 y0_0_0 l0_0_0 dW_0_0 dW_0_1 ∧
    Gen.lqrow_heun_s_diagonal_11_b2_y1_1_0 sgn f g h t0 t1 y0_0_0 y0_1_0 l0_0_0 l0_1_0 dW_0_0 dW_0_1 dW_1_0 dW_1_1
      = Gen.lqrow_heun_s_diagonal_11_y1_0_0 sgn f g h t0 t1 y0_1_0 l0_1_0 dW_1_0 dW_1_1 ∧
    Gen.lqrow_heun_s_diagonal_11_b2_y1_1_1 sgn f g h t0 t1 y0_0_0 y0_1_0 l0_0_0 l0_1_0 dW_0_0 dW_0_1 dW_1_0 dW_1_1
      = Gen.lqrow_heun_s_diagonal_11_y1_0_1 sgn f g h t0 t1 y0_1_0 l0_1_0 dW_1_0 dW_1_1 := by
  refine ⟨?_, ?_, ?_, ?_⟩ <;> simp only [Gen.lqrow_heun_s_diagonal_11_b2_y1_0_0, Gen.lqrow_heun_s_diagonal_11_b2_y1_0_1, Gen.lqrow_heun_s_diagonal_11_b2_y1_1_0, Gen.lqrow_heun_s_diagonal_11_b2_y1_1_1, Gen.lqrow_heun_s_diagonal_11_y1_0_0, Gen.lqrow_heun_s_diagonal_11_y1_0_1] <;> ring

/-- row 0 is unaffected by anything in row 1; swapping the rows of the inputs swaps the rows of the output -/
theorem lqrow_heun_s_diagonal_11_b2_no_crosstalk (sgn : K → K) (f : K → K → K) (g : K → K → K) (h : K → K → K) (t0 t1 y0_0_0 y0_1_0 l0_0_0 l0_1_0 dW_0_0 dW_0_1 dW_1_0 dW_1_1 y0_1_0' l0_1_0' dW_1_0' dW_1_1' : K) :
    Gen.lqrow_heun_s_diagonal_11_b2_y1_0_0 sgn f g h t0 t1 y0_0_0 y0_1_0 l0_0_0 l0_1_0 dW_0_0 dW_0_1 dW_1_0 dW_1_1 = Gen.lqrow_heun_s_diagonal_11_b2_y1_0_0 sgn f g h t0 t1 y0_0_0 y0_1_0' l0_0_0 l0_1_0' dW_0_0 dW_0_1 dW_1_0' dW_1_1' ∧
    Gen.lqrow_heun_s_diagonal_11_b2_y1_1_0 sgn f g h t0 t1 y0_0_0 y0_1_0 l0_0_0 l0_1_0 dW_0_0 dW_0_1 dW_1_0 dW_1_1 = Gen.lqrow_heun_s_diagonal_11_b2_y1_0_0 sgn f g h t0 t1 y0_1_0 y0_0_0 l0_1_0 l0_0_0 dW_1_0 dW_1_1 dW_0_0 dW_0_1 := by
  constructor <;> simp only [Gen.lqrow_heun_s_diagonal_11_b2_y1_0_0, Gen.lqrow_heun_s_diagonal_11_b2_y1_0_1, Gen.lqrow_heun_s_diagonal_11_b2_y1_1_0, Gen.lqrow_heun_s_diagonal_11_b2_y1_1_1] <;> ring

/-- `midpoint_s_additive_11` with two batch rows: row b of the output = the one-row step on row b of the inputs -/
theorem midpoint_s_additive_11_b2_rowwise (f : K → K → K) (g : K → K) (t0 t1 y0_0_0 y0_1_0 dW_0_0 dW_1_0 : K) :
    Gen.midpoint_s_additive_11_b2_y1_0_0 f g t0 t1 y0_0_0 y0_1_0 dW_0_0 dW_1_0
      = Gen.midpoint_s_additive_11_y1_0_0 f g t0 t1 y0_0_0 dW_0_0 ∧
    Gen.midpoint_s_additive_11_b2_y1_1_0 f g t0 t1 y0_0_0 y0_1_0 dW_0_0 dW_1_0
      = Gen.midpoint_s_additive_11_y1_0_0 f g t0 t1 y0_1_0 dW_1_0 := by
  refine ⟨?_, ?_⟩ <;> simp only [Gen.midpoint_s_additive_11_b2_y1_0_0, Gen.midpoint_s_additive_11_b2_y1_1_0, Gen.midpoint_s_additive_11_y1_0_0] <;> ring

/-- row 0 is unaffected by anything in row 1; swapping the rows of the inputs swaps the rows of the output -/
theorem midpoint_s_additive_11_b2_no_crosstalk (f : K → K → K) (g : K → K) (t0 t1 y0_0_0 y0_1_0 dW_0_0 dW_1_0 y0_1_0' dW_1_0' : K) :
    Gen.midpoint_s_additive_11_b2_y1_0_0 f g t0 t1 y0_0_0 y0_1_0 dW_0_0 dW_1_0 = Gen.midpoint_s_additive_11_b2_y1_0_0 f g t0 t1 y0_0_0 y0_1_0' dW_0_0 dW_1_0' ∧
    Gen.midpoint_s_additive_11_b2_y1_1_0 f g t0 t1 y0_0_0 y0_1_0 dW_0_0 dW_1_0 = Gen.midpoint_s_additive_11_b2_y1_0_0 f g t0 t1 y0_1_0 y0_0_0 dW_1_0 dW_0_0 := by
  constructor <;> simp only [Gen.midpoint_s_additive_11_b2_y1_0_0, Gen.midpoint_s_additive_11_b2_y1_1_0] <;> ring

/-- `midpoint_s_diagonal_11` with two batch rows: row b of the output = the one-row step on row b of the inputs -/
theorem midpoint_s_diagonal_11_b2_rowwise (f : K → K → K) (g : K → K → K) (t0 t1 y0_0_0 y0_1_0 dW_0_0 dW_1_0 : K) :
    Gen.midpoint_s_diagonal_11_b2_y1_0_0 f g t0 t1 y0_0_0 y0_1_0 dW_0_0 dW_1_0
      = Gen.midpoint_s_diagonal_11_y1_0_0 f g t0 t1 y0_0_0 dW_0_0 ∧
    Gen.midpoint_s_diagonal_11_b2_y1_1_0 f g t0 t1 y0_0_0 y0_1_0 dW_0_0 dW_1_0
      = Gen.midpoint_s_diagonal_11_y1_0_0 f g t0 t1 y0_1_0 dW_1_0 := by
  refine ⟨?_, ?_⟩ <;> simp only [Gen.midpoint_s_diagonal_11_b2_y1_0_0, Gen.midpoint_s_diagonal_11_b2_y1_1_0, Gen.midpoint_s_diagonal_11_y1_0_0] <;> ring

/-- row 0 is unaffected by anything in row 1; swapping the rows of the inputs swaps the rows of the output -/
theorem midpoint_s_diagonal_11_b2_no_crosstalk (f : K → K → K) (g : K → K → K) (t0 t1 y0_0_0 y0_1_0 dW_0_0 dW_1_0 y0_1_0' dW_1_0' : K) :
    Gen.midpoint_s_diagonal_11_b2_y1_0_0 f g t0 t1 y0_0_0 y0_1_0 dW_0_0 dW_1_0 = Gen.midpoint_s_diagonal_11_b2_y1_0_0 f g t0 t1 y0_0_0 y0_1_0' dW_0_0 dW_1_0' ∧
    Gen.midpoint_s_diagonal_11_b2_y1_1_0 f g t0 t1 y0_0_0 y0_1_0 dW_0_0 dW_1_0 = Gen.midpoint_s_diagonal_11_b2_y1_0_0 f g t0 t1 y0_1_0 y0_0_0 dW_1_0 dW_0_0 := by
  constructor <;> simp only [Gen.midpoint_s_diagonal_11_b2_y1_0_0, Gen.midpoint_s_diagonal_11_b2_y1_1_0] <;> ring

/-- `midpoint_s_diagonal_22` with two batch rows: row b of the output = the one-row step on row b of the inputs -/
theorem midpoint_s_diagonal_22_b2_rowwise (f0 : K → K → K → K) (f1 : K → K → K → K) (g0 : K → K → K) (g1 : K → K → K) (t0 t1 y0_0_0 y0_0_1 y0_1_0 y0_1_1 dW_0_0 dW_0_1 dW_1_0 dW_1_1 : K) :
    Gen.midpoint_s_diagonal_22_b2_y1_0_0 f0 f1 g0 g1 t0 t1 y0_0_0 y0_0_1 y0_1_0 y0_1_1 dW_0_0 dW_0_1 dW_1_0 dW_1_1
      = Gen.midpoint_s_diagonal_22_y1_0_0 f0 f1 g0 g1 t0 t1 y0_0_0 y0_0_1 dW_0_0 dW_0_1 ∧
    Gen.midpoint_s_diagonal_22_b2_y1_0_1 f0 f1 g0 g1 t0 t1 y0_0_0 y0_0_1 y0_1_0 y0_1_1 dW_0_0 dW_0_1 dW_1_0 dW_1_1
      = Gen.midpoint_s_diagonal_22_y1_0_1 f0 f1 g0 g1 t0 t1 y0_0_0 y0_0_1 dW_0_0 dW_0_1 ∧
    Gen.midpoint_s_diagonal_22_b2_y1_1_0 f0 f1 g0 g1 t0 t1 y0_0_0 y0_0_1 y0_1_0 y0_1_1 dW_0_0 dW_0_1 dW_1_0 dW_1_1
      = Gen.midpoint_s_diagonal_22_y1_0_0 f0 f1 g0 g1 t0 t1 y0_1_0 y0_1_1 dW_1_0 dW_1_1 ∧
    Gen.midpoint_s_diagonal_22_b2_y1_1_1 f0 f1 g0 g1 t0 t1 y0_0_0 y0_0_1 y0_1_0 y0_1_1 dW_0_0 dW_0_1 dW_1_0 dW_1_1
      = Gen.midpoint_s_diagonal_22_y1_0_1 f0 f1 g0 g1 t0 t1 y0_1_0 y0_1_1 dW_1_0 dW_1_1 := by
  refine ⟨?_, ?_, ?_, ?_⟩ <;> simp only [Gen.midpoint_s_diagonal_22_b2_y1_0_0, Gen.midpoint_s_diagonal_22_b2_y1_0_1, Gen.midpoint_s_diagonal_22_b2_y1_1_0, Gen.midpoint_s_diagonal_22_b2_y1_1_1, Gen.midpoint_s_diagonal_22_y1_0_0, Gen.midpoint_s_diagonal_22_y1_0_1] <;> ring

/-- row 0 is unaffected by anything in row 1; swapping the rows of the inputs swaps the rows of the output -/
theorem midpoint_s_diagonal_22_b2_no_crosstalk (f0 : K → K → K → K) (f1 : K → K → K → K) (g0 : K → K → K) (g1 : K → K → K) (t0 t1 y0_0_0 y0_0_1 y0_1_0 y0_1_1 dW_0_0 dW_0_1 dW_1_0 dW_1_1 y0_1_0' y0_1_1' dW_1_0' dW_1_1' : K) :
    Gen.midpoint_s_diagonal_22_b2_y1_0_0 f0 f1 g0 g1 t0 t1 y0_0_0 y0_0_1 y0_1_0 y0_1_1 dW_0_0 dW_0_1 dW_1_0 dW_1_1 = Gen.midpoint_s_diagonal_22_b2_y1_0_0 f0 f1 g0 g1 t0 t1 y0_0_0 y0_0_1 y0_1_0' y0_1_1' dW_0_0 dW_0_1 dW_1_0' dW_1_1' ∧
    Gen.midpoint_s_diagonal_22_b2_y1_1_0 f0 f1 g0 g1 t0 t1 y0_0_0 y0_0_1 y0_1_0 y0_1_1 dW_0_0 dW_0_1 dW_1_0 dW_1_1 = Gen.midpoint_s_diagonal_22_b2_y1_0_0 f0 f1 g0 g1 t0 t1 y0_1_0 y0_1_1 y0_0_0 y0_0_1 dW_1_0 dW_1_1 dW_0_0 dW_0_1 := by
  constructor <;> simp only [Gen.midpoint_s_diagonal_22_b2_y1_0_0, Gen.midpoint_s_diagonal_22_b2_y1_0_1, Gen.midpoint_s_diagonal_22_b2_y1_1_0, Gen.midpoint_s_diagonal_22_b2_y1_1_1] <;> ring

/-- `midpoint_s_general_11` with two batch rows: row b of the output = the one-row step on row b of the inputs -/
theorem midpoint_s_general_11_b2_rowwise (f : K → K → K) (g : K → K → K) (t0 t1 y0_0_0 y0_1_0 dW_0_0 dW_1_0 : K) :
    Gen.midpoint_s_general_11_b2_y1_0_0 f g t0 t1 y0_0_0 y0_1_0 dW_0_0 dW_1_0
      = Gen.midpoint_s_general_11_y1_0_0 f g t0 t1 y0_0_0 dW_0_0 ∧
    Gen.midpoint_s_general_11_b2_y1_1_0 f g t0 t1 y0_0_0 y0_1_0 dW_0_0 dW_1_0
      = Gen.midpoint_s_general_11_y1_0_0 f g t0 t1 y0_1_0 dW_1_0 := by
  refine ⟨?_, ?_⟩ <;> simp only [Gen.midpoint_s_general_11_b2_y1_0_0, Gen.midpoint_s_general_11_b2_y1_1_0, Gen.midpoint_s_general_11_y1_0_0] <;> ring

/-- row 0 is unaffected by anything in row 1; swapping the rows of the inputs swaps the rows of the output -/
theorem midpoint_s_general_11_b2_no_crosstalk (f : K → K → K) (g : K → K → K) (t0 t1 y0_0_0 y0_1_0 dW_0_0 dW_1_0 y0_1_0' dW_1_0' : K) :
    Gen.midpoint_s_general_11_b2_y1_0_0 f g t0 t1 y0_0_0 y0_1_0 dW_0_0 dW_1_0 = Gen.midpoint_s_general_11_b2_y1_0_0 f g t0 t1 y0_0_0 y0_1_0' dW_0_0 dW_1_0' ∧
    Gen.midpoint_s_general_11_b2_y1_1_0 f g t0 t1 y0_0_0 y0_1_0 dW_0_0 dW_1_0 = Gen.midpoint_s_general_11_b2_y1_0_0 f g t0 t1 y0_1_0 y0_0_0 dW_1_0 dW_0_0 := by
  constructor <;> simp only [Gen.midpoint_s_general_11_b2_y1_0_0, Gen.midpoint_s_general_11_b2_y1_1_0] <;> ring

/-- `midpoint_s_scalar_11` with two batch rows: row b of the output = the one-row step on row b of the inputs -/
theorem midpoint_s_scalar_11_b2_rowwise (f : K → K → K) (g : K → K → K) (t0 t1 y0_0_0 y0_1_0 dW_0_0 dW_1_0 : K) :
    Gen.midpoint_s_scalar_11_b2_y1_0_0 f g t0 t1 y0_0_0 y0_1_0 dW_0_0 dW_1_0
      = Gen.midpoint_s_scalar_11_y1_0_0 f g t0 t1 y0_0_0 dW_0_0 ∧
    Gen.midpoint_s_scalar_11_b2_y1_1_0 f g t0 t1 y0_0_0 y0_1_0 dW_0_0 dW_1_0
      = Gen.midpoint_s_scalar_11_y1_0_0 f g t0 t1 y0_1_0 dW_1_0 := by
  refine ⟨?_, ?_⟩ <;> simp only [Gen.midpoint_s_scalar_11_b2_y1_0_0, Gen.midpoint_s_scalar_11_b2_y1_1_0, Gen.midpoint_s_scalar_11_y1_0_0] <;> ring

/-- row 0 is unaffected by anything in row 1; swapping the rows of the inputs swaps the rows of the output -/
theorem midpoint_s_scalar_11_b2_no_crosstalk (f : K → K → K) (g : K → K → K) (t0 t1 y0_0_0 y0_1_0 dW_0_0 dW_1_0 y0_1_0' dW_1_0' : K) :
    Gen.midpoint_s_scalar_11_b2_y1_0_0 f g t0 t1 y0_0_0 y0_1_0 dW_0_0 dW_1_0 = Gen.midpoint_s_scalar_11_b2_y1_0_0 f g t0 t1 y0_0_0 y0_1_0' dW_0_0 dW_1_0' ∧
    Gen.midpoint_s_scalar_11_b2_y1_1_0 f g t0 t1 y0_0_0 y0_1_0 dW_0_0 dW_1_0 = Gen.midpoint_s_scalar_11_b2_y1_0_0 f g t0 t1 y0_1_0 y0_0_0 dW_1_0 dW_0_0 := by
  constructor <;> simp only [Gen.midpoint_s_scalar_11_b2_y1_0_0, Gen.midpoint_s_scalar_11_b2_y1_1_0] <;> ring

/-- `milstein_i_additive_11` with two batch rows: row b of the output = the one-row step on row b of the inputs -/
theorem milstein_i_additive_11_b2_rowwise (f : K → K → K) (g : K → K) (t0 t1 y0_0_0 y0_1_0 dW_0_0 dW_1_0 : K) :
    Gen.milstein_i_additive_11_b2_y1_0_0 f g t0 t1 y0_0_0 y0_1_0 dW_0_0 dW_1_0
      = Gen.milstein_i_additive_11_y1_0_0 f g t0 t1 y0_0_0 dW_0_0 ∧
    Gen.milstein_i_additive_11_b2_y1_1_0 f g t0 t1 y0_0_0 y0_1_0 dW_0_0 dW_1_0
      = Gen.milstein_i_additive_11_y1_0_0 f g t0 t1 y0_1_0 dW_1_0 := by
  refine ⟨?_, ?_⟩ <;> simp only [Gen.milstein_i_additive_11_b2_y1_0_0, Gen.milstein_i_additive_11_b2_y1_1_0, Gen.milstein_i_additive_11_y1_0_0] <;> ring

/-- row 0 is unaffected by anything in row 1; swapping the rows of the inputs swaps the rows of the output -/
theorem milstein_i_additive_11_b2_no_crosstalk (f : K → K → K) (g : K → K) (t0 t1 y0_0_0 y0_1_0 dW_0_0 dW_1_0 y0_1_0' dW_1_0' : K) :
    Gen.milstein_i_additive_11_b2_y1_0_0 f g t0 t1 y0_0_0 y0_1_0 dW_0_0 dW_1_0 = Gen.milstein_i_additive_11_b2_y1_0_0 f g t0 t1 y0_0_0 y0_1_0' dW_0_0 dW_1_0' ∧
    Gen.milstein_i_additive_11_b2_y1_1_0 f g t0 t1 y0_0_0 y0_1_0 dW_0_0 dW_1_0 = Gen.milstein_i_additive_11_b2_y1_0_0 f g t0 t1 y0_1_0 y0_0_0 dW_1_0 dW_0_0 := by
  constructor <;> simp only [Gen.milstein_i_additive_11_b2_y1_0_0, Gen.milstein_i_additive_11_b2_y1_1_0] <;> ring

/-- `milstein_i_diagonal_11` with two batch rows: row b of the output = the one-row step on row b of the inputs -/
theorem milstein_i_diagonal_11_b2_rowwise (f : K → K → K) (g : K → K → K) (g_d1 : K → K → K) (t0 t1 y0_0_0 y0_1_0 dW_0_0 dW_1_0 : K) :
    Gen.milstein_i_diagonal_11_b2_y1_0_0 f g g_d1 t0 t1 y0_0_0 y0_1_0 dW_0_0 dW_1_0
      = Gen.milstein_i_diagonal_11_y1_0_0 f g g_d1 t0 t1 y0_0_0 dW_0_0 ∧
    Gen.milstein_i_diagonal_11_b2_y1_1_0 f g g_d1 t0 t1 y0_0_0 y0_1_0 dW_0_0 dW_1_0
      = Gen.milstein_i_diagonal_11_y1_0_0 f g g_d1 t0 t1 y0_1_0 dW_1_0 := by
  refine ⟨?_, ?_⟩ <;> simp only [Gen.milstein_i_diagonal_11_b2_y1_0_0, Gen.milstein_i_diagonal_11_b2_y1_1_0, Gen.milstein_i_diagonal_11_y1_0_0] <;> ring

/-- row 0 is unaffected by anything in row 1; swapping the rows of the inputs swaps the rows of the output -/
theorem milstein_i_diagonal_11_b2_no_crosstalk (f : K → K → K) (g : K → K → K) (g_d1 : K → K → K) (t0 t1 y0_0_0 y0_1_0 dW_0_0 dW_1_0 y0_1_0' dW_1_0' : K) :
    Gen.milstein_i_diagonal_11_b2_y1_0_0 f g g_d1 t0 t1 y0_0_0 y0_1_0 dW_0_0 dW_1_0 = Gen.milstein_i_diagonal_11_b2_y1_0_0 f g g_d1 t0 t1 y0_0_0 y0_1_0' dW_0_0 dW_1_0' ∧
    Gen.milstein_i_diagonal_11_b2_y1_1_0 f g g_d1 t0 t1 y0_0_0 y0_1_0 dW_0_0 dW_1_0 = Gen.milstein_i_diagonal_11_b2_y1_0_0 f g g_d1 t0 t1 y0_1_0 y0_0_0 dW_1_0 dW_0_0 := by
  constructor <;> simp only [Gen.milstein_i_diagonal_11_b2_y1_0_0, Gen.milstein_i_diagonal_11_b2_y1_1_0] <;> ring

/-- `milstein_i_diagonal_11_gf` with two batch rows: row b of the output = the one-row step on row b of the inputs -/
theorem milstein_i_diagonal_11_gf_b2_rowwise (sqrt : K → K) (f : K → K → K) (g : K → K → K) (t0 t1 y0_0_0 y0_1_0 dW_0_0 dW_1_0 : K) :
    Gen.milstein_i_diagonal_11_gf_b2_y1_0_0 sqrt f g t0 t1 y0_0_0 y0_1_0 dW_0_0 dW_1_0
      = Gen.milstein_i_diagonal_11_gf_y1_0_0 sqrt f g t0 t1 y0_0_0 dW_0_0 ∧
    Gen.milstein_i_diagonal_11_gf_b2_y1_1_0 sqrt f g t0 t1 y0_0_0 y0_1_0 dW_0_0 dW_1_0
      = Gen.milstein_i_diagonal_11_gf_y1_0_0 sqrt f g t0 t1 y0_1_0 dW_1_0 := by
  refine ⟨?_, ?_⟩ <;> simp only [Gen.milstein_i_diagonal_11_gf_b2_y1_0_0, Gen.milstein_i_diagonal_11_gf_b2_y1_1_0, Gen.milstein_i_diagonal_11_gf_y1_0_0] <;> ring

/-- row 0 is unaffected by anything in row 1; swapping the rows of the inputs swaps the rows of the output -/
theorem milstein_i_diagonal_11_gf_b2_no_crosstalk (sqrt : K → K) (f : K → K → K) (g : K → K → K) (t0 t1 y0_0_0 y0_1_0 dW_0_0 dW_1_0 y0_1_0' dW_1_0' : K) :
    Gen.milstein_i_diagonal_11_gf_b2_y1_0_0 sqrt f g t0 t1 y0_0_0 y0_1_0 dW_0_0 dW_1_0 = Gen.milstein_i_diagonal_11_gf_b2_y1_0_0 sqrt f g t0 t1 y0_0_0 y0_1_0' dW_0_0 dW_1_0' ∧
    Gen.milstein_i_diagonal_11_gf_b2_y1_1_0 sqrt f g t0 t1 y0_0_0 y0_1_0 dW_0_0 dW_1_0 = Gen.milstein_i_diagonal_11_gf_b2_y1_0_0 sqrt f g t0 t1 y0_1_0 y0_0_0 dW_1_0 dW_0_0 := by
  constructor <;> simp only [Gen.milstein_i_diagonal_11_gf_b2_y1_0_0, Gen.milstein_i_diagonal_11_gf_b2_y1_1_0] <;> ring

/-- `milstein_i_diagonal_22` with two batch rows: row b of the output = the one-row step on row b of the inputs -/
theorem milstein_i_diagonal_22_b2_rowwise (f0 : K → K → K → K) (f1 : K → K → K → K) (g0 : K → K → K) (g0_d1 : K → K → K) (g1 : K → K → K) (g1_d1 : K → K → K) (t0 t1 y0_0_0 y0_0_1 y0_1_0 y0_1_1 dW_0_0 dW_0_1 dW_1_0 dW_1_1 : K) :
    Gen.milstein_i_diagonal_22_b2_y1_0_0 f0 f1 g0 g0_d1 g1 g1_d1 t0 t1 y0_0_0 y0_0_1 y0_1_0 y0_1_1 dW_0_0 dW_0_1 dW_1_0 dW_1_1
      = Gen.milstein_i_diagonal_22_y1_0_0 f0 f1 g0 g0_d1 g1 g1_d1 t0 t1 y0_0_0 y0_0_1 dW_0_0 dW_0_1 ∧
    Gen.milstein_i_diagonal_22_b2_y1_0_1 f0 f1 g0 g0_d1 g1 g1_d1 t0 t1 y0_0_0 y0_0_1 y0_1_0 y0_1_1 dW_0_0 dW_0_1 dW_1_0 dW_1_1
      = Gen.milstein_i_diagonal_22_y1_0_1 f0 f1 g0 g0_d1 g1 g1_d1 t0 t1 y0_0_0 y0_0_1 dW_0_0 dW_0_1 ∧
    Gen.milstein_i_diagonal_22_b2_y1_1_0 f0 f1 g0 g0_d1 g1 g1_d1 t0 t1 y0_0_0 y0_0_1 y0_1_0 y0_1_1 dW_0_0 dW_0_1 dW_1_0 dW_1_1
      = Gen.milstein_i_diagonal_22_y1_0_0 f0 f1 g0 g0_d1 g1 g1_d1 t0 t1 y0_1_0 y0_1_1 dW_1_0 dW_1_1 ∧
    Gen.milstein_i_diagonal_22_b2_y1_1_1 f0 f1 g0 g0_d1 g1 g1_d1 t0 t1 y0_0_0 y0_0_1 y0_1_0 y0_1_1 dW_0_0 dW_0_1 dW_1_0 dW_1_1
      = Gen.milstein_i_diagonal_22_y1_0_1 f0 f1 g0 g0_d1 g1 g1_d1 t0 t1 y0_1_0 y0_1_1 dW_1_0 dW_1_1 := by
  refine ⟨?_, ?_, ?_, ?_⟩ <;> simp only [Gen.milstein_i_diagonal_22_b2_y1_0_0, Gen.milstein_i_diagonal_22_b2_y1_0_1, Gen.milstein_i_diagonal_22_b2_y1_1_0, Gen.milstein_i_diagonal_22_b2_y1_1_1, Gen.milstein_i_diagonal_22_y1_0_0, Gen.milstein_i_diagonal_22_y1_0_1] <;> ring

/-- row 0 is unaffected by anything in row 1; swapping the rows of the inputs swaps the rows of the output -/
theorem milstein_i_diagonal_22_b2_no_crosstalk (f0 : K → K → K → K) (f1 : K → K → K → K) (g0 : K → K → K) (g0_d1 : K → K → K) (g1 : K → K → K) (g1_d1 : K → K → K) (t0 t1 y0_0_0 y0_0_1 y0_1_0 y0_1_1 dW_0_0 dW_0_1 dW_1_0 dW_1_1 y0_1_0' y0_1_1' dW_1_0' dW_1_1' : K) :
    Gen.milstein_i_diagonal_22_b2_y1_0_0 f0 f1 g0 g0_d1 g1 g1_d1 t0 t1 y0_0_0 y0_0_1 y0_1_0 y0_1_1 dW_0_0 dW_0_1 dW_1_0 dW_1_1 = Gen.milstein_i_diagonal_22_b2_y1_0_0 f0 f1 g0 g0_d1 g1 g1_d1 t0 t1 y0_0_0 y0_0_1 y0_1_0' y0_1_1' dW_0_0 dW_0_1 dW_1_0' dW_1_1' ∧
    Gen.milstein_i_diagonal_22_b2_y1_1_0 f0 f1 g0 g0_d1 g1 g1_d1 t0 t1 y0_0_0 y0_0_1 y0_1_0 y0_1_1 dW_0_0 dW_0_1 dW_1_0 dW_1_1 = Gen.milstein_i_diagonal_22_b2_y1_0_0 f0 f1 g0 g0_d1 g1 g1_d1 t0 t1 y0_1_0 y0_1_1 y0_0_0 y0_0_1 dW_1_0 dW_1_1 dW_0_0 dW_0_1 := by
  constructor <;> simp only [Gen.milstein_i_diagonal_22_b2_y1_0_0, Gen.milstein_i_diagonal_22_b2_y1_0_1, Gen.milstein_i_diagonal_22_b2_y1_1_0, Gen.milstein_i_diagonal_22_b2_y1_1_1] <;> ring

/-- `milstein_i_scalar_11` with two batch rows: row b of the output = the one-row step on row b of the inputs -/
theorem milstein_i_scalar_11_b2_rowwise (f : K → K → K) (g : K → K → K) (g_d1 : K → K → K) (t0 t1 y0_0_0 y0_1_0 dW_0_0 dW_1_0 : K) :
    Gen.milstein_i_scalar_11_b2_y1_0_0 f g g_d1 t0 t1 y0_0_0 y0_1_0 dW_0_0 dW_1_0
      = Gen.milstein_i_scalar_11_y1_0_0 f g g_d1 t0 t1 y0_0_0 dW_0_0 ∧
    Gen.milstein_i_scalar_11_b2_y1_1_0 f g g_d1 t0 t1 y0_0_0 y0_1_0 dW_0_0 dW_1_0
      = Gen.milstein_i_scalar_11_y1_0_0 f g g_d1 t0 t1 y0_1_0 dW_1_0 := by
  refine ⟨?_, ?_⟩ <;> simp only [Gen.milstein_i_scalar_11_b2_y1_0_0, Gen.milstein_i_scalar_11_b2_y1_1_0, Gen.milstein_i_scalar_11_y1_0_0] <;> ring

/-- row 0 is unaffected by anything in row 1; swapping the rows of the inputs swaps the rows of the output -/
theorem milstein_i_scalar_11_b2_no_crosstalk (f : K → K → K) (g : K → K → K) (g_d1 : K → K → K) (t0 t1 y0_0_0 y0_1_0 dW_0_0 dW_1_0 y0_1_0' dW_1_0' : K) :
    Gen.milstein_i_scalar_11_b2_y1_0_0 f g g_d1 t0 t1 y0_0_0 y0_1_0 dW_0_0 dW_1_0 = Gen.milstein_i_scalar_11_b2_y1_0_0 f g g_d1 t0 t1 y0_0_0 y0_1_0' dW_0_0 dW_1_0' ∧
    Gen.milstein_i_scalar_11_b2_y1_1_0 f g g_d1 t0 t1 y0_0_0 y0_1_0 dW_0_0 dW_1_0 = Gen.milstein_i_scalar_11_b2_y1_0_0 f g g_d1 t0 t1 y0_1_0 y0_0_0 dW_1_0 dW_0_0 := by
  constructor <;> simp only [Gen.milstein_i_scalar_11_b2_y1_0_0, Gen.milstein_i_scalar_11_b2_y1_1_0] <;> ring

/-- `milstein_i_scalar_11_gf` with two batch rows: row b of the output = the one-row step on row b of the inputs -/
theorem milstein_i_scalar_11_gf_b2_rowwise (sqrt : K → K) (f : K → K → K) (g : K → K → K) (t0 t1 y0_0_0 y0_1_0 dW_0_0 dW_1_0 : K) :
    Gen.milstein_i_scalar_11_gf_b2_y1_0_0 sqrt f g t0 t1 y0_0_0 y0_1_0 dW_0_0 dW_1_0
      = Gen.milstein_i_scalar_11_gf_y1_0_0 sqrt f g t0 t1 y0_0_0 dW_0_0 ∧
    Gen.milstein_i_scalar_11_gf_b2_y1_1_0 sqrt f g t0 t1 y0_0_0 y0_1_0 dW_0_0 dW_1_0
      = Gen.milstein_i_scalar_11_gf_y1_0_0 sqrt f g t0 t1 y0_1_0 dW_1_0 := by
  refine ⟨?_, ?_⟩ <;> simp only [Gen.milstein_i_scalar_11_gf_b2_y1_0_0, Gen.milstein_i_scalar_11_gf_b2_y1_1_0, Gen.milstein_i_scalar_11_gf_y1_0_0] <;> ring

/-- row 0 is unaffected by anything in row 1; swapping the rows of the inputs swaps the rows of the output -/
theorem milstein_i_scalar_11_gf_b2_no_crosstalk (sqrt : K → K) (f : K → K → K) (g : K → K → K) (t0 t1 y0_0_0 y0_1_0 dW_0_0 dW_1_0 y0_1_0' dW_1_0' : K) :
    Gen.milstein_i_scalar_11_gf_b2_y1_0_0 sqrt f g t0 t1 y0_0_0 y0_1_0 dW_0_0 dW_1_0 = Gen.milstein_i_scalar_11_gf_b2_y1_0_0 sqrt f g t0 t1 y0_0_0 y0_1_0' dW_0_0 dW_1_0' ∧
    Gen.milstein_i_scalar_11_gf_b2_y1_1_0 sqrt f g t0 t1 y0_0_0 y0_1_0 dW_0_0 dW_1_0 = Gen.milstein_i_scalar_11_gf_b2_y1_0_0 sqrt f g t0 t1 y0_1_0 y0_0_0 dW_1_0 dW_0_0 := by
  constructor <;> simp only [Gen.milstein_i_scalar_11_gf_b2_y1_0_0, Gen.milstein_i_scalar_11_gf_b2_y1_1_0] <;> ring

/-- `milstein_s_additive_11` with two batch rows: row b of the output = the one-row step on row b of the inputs -/
theorem milstein_s_additive_11_b2_rowwise (f : K → K → K) (g : K → K) (t0 t1 y0_0_0 y0_1_0 dW_0_0 dW_1_0 : K) :
    Gen.milstein_s_additive_11_b2_y1_0_0 f g t0 t1 y0_0_0 y0_1_0 dW_0_0 dW_1_0
      = Gen.milstein_s_additive_11_y1_0_0 f g t0 t1 y0_0_0 dW_0_0 ∧
    Gen.milstein_s_additive_11_b2_y1_1_0 f g t0 t1 y0_0_0 y0_1_0 dW_0_0 dW_1_0
      = Gen.milstein_s_additive_11_y1_0_0 f g t0 t1 y0_1_0 dW_1_0 := by
  refine ⟨?_, ?_⟩ <;> simp only [Gen.milstein_s_additive_11_b2_y1_0_0, Gen.milstein_s_additive_11_b2_y1_1_0, Gen.milstein_s_additive_11_y1_0_0] <;> ring

/-- row 0 is unaffected by anything in row 1; swapping the rows of the inputs swaps the rows of the output -/
theorem milstein_s_additive_11_b2_no_crosstalk (f : K → K → K) (g : K → K) (t0 t1 y0_0_0 y0_1_0 dW_0_0 dW_1_0 y0_1_0' dW_1_0' : K) :
    Gen.milstein_s_additive_11_b2_y1_0_0 f g t0 t1 y0_0_0 y0_1_0 dW_0_0 dW_1_0 = Gen.milstein_s_additive_11_b2_y1_0_0 f g t0 t1 y0_0_0 y0_1_0' dW_0_0 dW_1_0' ∧
    Gen.milstein_s_additive_11_b2_y1_1_0 f g t0 t1 y0_0_0 y0_1_0 dW_0_0 dW_1_0 = Gen.milstein_s_additive_11_b2_y1_0_0 f g t0 t1 y0_1_0 y0_0_0 dW_1_0 dW_0_0 := by
  constructor <;> simp only [Gen.milstein_s_additive_11_b2_y1_0_0, Gen.milstein_s_additive_11_b2_y1_1_0] <;> ring

/-- `milstein_s_diagonal_11` with two batch rows: row b of the output = the one-row step on row b of the inputs -/
theorem milstein_s_diagonal_11_b2_rowwise (f : K → K → K) (g : K → K → K) (g_d1 : K → K → K) (t0 t1 y0_0_0 y0_1_0 dW_0_0 dW_1_0 : K) :
    Gen.milstein_s_diagonal_11_b2_y1_0_0 f g g_d1 t0 t1 y0_0_0 y0_1_0 dW_0_0 dW_1_0
      = Gen.milstein_s_diagonal_11_y1_0_0 f g g_d1 t0 t1 y0_0_0 dW_0_0 ∧
    Gen.milstein_s_diagonal_11_b2_y1_1_0 f g g_d1 t0 t1 y0_0_0 y0_1_0 dW_0_0 dW_1_0
      = Gen.milstein_s_diagonal_11_y1_0_0 f g g_d1 t0 t1 y0_1_0 dW_1_0 := by
  refine ⟨?_, ?_⟩ <;> simp only [Gen.milstein_s_diagonal_11_b2_y1_0_0, Gen.milstein_s_diagonal_11_b2_y1_1_0, Gen.milstein_s_diagonal_11_y1_0_0] <;> ring

/-- row 0 is unaffected by anything in row 1; swapping the rows of the inputs swaps the rows of the output -/
theorem milstein_s_diagonal_11_b2_no_crosstalk (f : K → K → K) (g : K → K → K) (g_d1 : K → K → K) (t0 t1 y0_0_0 y0_1_0 dW_0_0 dW_1_0 y0_1_0' dW_1_0' : K) :
    Gen.milstein_s_diagonal_11_b2_y1_0_0 f g g_d1 t0 t1 y0_0_0 y0_1_0 dW_0_0 dW_1_0 = Gen.milstein_s_diagonal_11_b2_y1_0_0 f g g_d1 t0 t1 y0_0_0 y0_1_0' dW_0_0 dW_1_0' ∧
    Gen.milstein_s_diagonal_11_b2_y1_1_0 f g g_d1 t0 t1 y0_0_0 y0_1_0 dW_0_0 dW_1_0 = Gen.milstein_s_diagonal_11_b2_y1_0_0 f g g_d1 t0 t1 y0_1_0 y0_0_0 dW_1_0 dW_0_0 := by
  constructor <;> simp only [Gen.milstein_s_diagonal_11_b2_y1_0_0, Gen.milstein_s_diagonal_11_b2_y1_1_0] <;> ring

/-- `milstein_s_diagonal_11_gf` with two batch rows: row b of the output = the one-row step on row b of the inputs -/
theorem milstein_s_diagonal_11_gf_b2_rowwise (sqrt : K → K) (f : K → K → K) (g : K → K → K) (t0 t1 y0_0_0 y0_1_0 dW_0_0 dW_1_0 : K) :
    Gen.milstein_s_diagonal_11_gf_b2_y1_0_0 sqrt f g t0 t1 y0_0_0 y0_1_0 dW_0_0 dW_1_0
      = Gen.milstein_s_diagonal_11_gf_y1_0_0 sqrt f g t0 t1 y0_0_0 dW_0_0 ∧
    Gen.milstein_s_diagonal_11_gf_b2_y1_1_0 sqrt f g t0 t1 y0_0_0 y0_1_0 dW_0_0 dW_1_0
      = Gen.milstein_s_diagonal_11_gf_y1_0_0 sqrt f g t0 t1 y0_1_0 dW_1_0 := by
  refine ⟨?_, ?_⟩ <;> simp only [Gen.milstein_s_diagonal_11_gf_b2_y1_0_0, Gen.milstein_s_diagonal_11_gf_b2_y1_1_0, Gen.milstein_s_diagonal_11_gf_y1_0_0] <;> ring

/-- row 0 is unaffected by anything in row 1; swapping the rows of the inputs swaps the rows of the output -/
theorem milstein_s_diagonal_11_gf_b2_no_crosstalk (sqrt : K → K) (f : K → K → K) (g : K → K → K) (t0 t1 y0_0_0 y0_1_0 dW_0_0 dW_1_0 y0_1_0' dW_1_0' : K) :
    Gen.milstein_s_diagonal_11_gf_b2_y1_0_0 sqrt f g t0 t1 y0_0_0 y0_1_0 dW_0_0 dW_1_0 = Gen.milstein_s_diagonal_11_gf_b2_y1_0_0 sqrt f g t0 t1 y0_0_0 y0_1_0' dW_0_0 dW_1_0' ∧
    Gen.milstein_s_diagonal_11_gf_b2_y1_1_0 sqrt f g t0 t1 y0_0_0 y0_1_0 dW_0_0 dW_1_0 = Gen.milstein_s_diagonal_11_gf_b2_y1_0_0 sqrt f g t0 t1 y0_1_0 y0_0_0 dW_1_0 dW_0_0 := by
  constructor <;> simp only [Gen.milstein_s_diagonal_11_gf_b2_y1_0_0, Gen.milstein_s_diagonal_11_gf_b2_y1_1_0] <;> ring

/-- `milstein_s_scalar_11` with two batch rows: row b of the output = the one-row step on row b of the inputs -/
theorem milstein_s_scalar_11_b2_rowwise (f : K → K → K) (g : K → K → K) (g_d1 : K → K → K) (t0 t1 y0_0_0 y0_1_0 dW_0_0 dW_1_0 : K) :
    Gen.milstein_s_scalar_11_b2_y1_0_0 f g g_d1 t0 t1 y0_0_0 y0_1_0 dW_0_0 dW_1_0
      = Gen.milstein_s_scalar_11_y1_0_0 f g g_d1 t0 t1 y0_0_0 dW_0_0 ∧
    Gen.milstein_s_scalar_11_b2_y1_1_0 f g g_d1 t0 t1 y0_0_0 y0_1_0 dW_0_0 dW_1_0
      = Gen.milstein_s_scalar_11_y1_0_0 f g g_d1 t0 t1 y0_1_0 dW_1_0 := by
  refine ⟨?_, ?_⟩ <;> simp only [Gen.milstein_s_scalar_11_b2_y1_0_0, Gen.milstein_s_scalar_11_b2_y1_1_0, Gen.milstein_s_scalar_11_y1_0_0] <;> ring

/-- row 0 is unaffected by anything in row 1; swapping the rows of the inputs swaps the rows of the output -/
theorem milstein_s_scalar_11_b2_no_crosstalk (f : K → K → K) (g : K → K → K) (g_d1 : K → K → K) (t0 t1 y0_0_0 y0_1_0 dW_0_0 dW_1_0 y0_1_0' dW_1_0' : K) :
    Gen.milstein_s_scalar_11_b2_y1_0_0 f g g_d1 t0 t1 y0_0_0 y0_1_0 dW_0_0 dW_1_0 = Gen.milstein_s_scalar_11_b2_y1_0_0 f g g_d1 t0 t1 y0_0_0 y0_1_0' dW_0_0 dW_1_0' ∧
    Gen.milstein_s_scalar_11_b2_y1_1_0 f g g_d1 t0 t1 y0_0_0 y0_1_0 dW_0_0 dW_1_0 = Gen.milstein_s_scalar_11_b2_y1_0_0 f g g_d1 t0 t1 y0_1_0 y0_0_0 dW_1_0 dW_0_0 := by
  constructor <;> simp only [Gen.milstein_s_scalar_11_b2_y1_0_0, Gen.milstein_s_scalar_11_b2_y1_1_0] <;> ring

/-- `milstein_s_scalar_11_gf` with two batch rows: row b of the output = the one-row step on row b of the inputs -/
theorem milstein_s_scalar_11_gf_b2_rowwise (sqrt : K → K) (f : K → K → K) (g : K → K → K) (t0 t1 y0_0_0 y0_1_0 dW_0_0 dW_1_0 : K) :
    Gen.milstein_s_scalar_11_gf_b2_y1_0_0 sqrt f g t0 t1 y0_0_0 y0_1_0 dW_0_0 dW_1_0
      = Gen.milstein_s_scalar_11_gf_y1_0_0 sqrt f g t0 t1 y0_0_0 dW_0_0 ∧
    Gen.milstein_s_scalar_11_gf_b2_y1_1_0 sqrt f g t0 t1 y0_0_0 y0_1_0 dW_0_0 dW_1_0
      = Gen.milstein_s_scalar_11_gf_y1_0_0 sqrt f g t0 t1 y0_1_0 dW_1_0 := by
  refine ⟨?_, ?_⟩ <;> simp only [Gen.milstein_s_scalar_11_gf_b2_y1_0_0, Gen.milstein_s_scalar_11_gf_b2_y1_1_0, Gen.milstein_s_scalar_11_gf_y1_0_0] <;> ring

/-- row 0 is unaffected by anything in row 1; swapping the rows of the inputs swaps the rows of the output -/
theorem milstein_s_scalar_11_gf_b2_no_crosstalk (sqrt : K → K) (f : K → K → K) (g : K → K → K) (t0 t1 y0_0_0 y0_1_0 dW_0_0 dW_1_0 y0_1_0' dW_1_0' : K) :
    Gen.milstein_s_scalar_11_gf_b2_y1_0_0 sqrt f g t0 t1 y0_0_0 y0_1_0 dW_0_0 dW_1_0 = Gen.milstein_s_scalar_11_gf_b2_y1_0_0 sqrt f g t0 t1 y0_0_0 y0_1_0' dW_0_0 dW_1_0' ∧
    Gen.milstein_s_scalar_11_gf_b2_y1_1_0 sqrt f g t0 t1 y0_0_0 y0_1_0 dW_0_0 dW_1_0 = Gen.milstein_s_scalar_11_gf_b2_y1_0_0 sqrt f g t0 t1 y0_1_0 y0_0_0 dW_1_0 dW_0_0 := by
  constructor <;> simp only [Gen.milstein_s_scalar_11_gf_b2_y1_0_0, Gen.milstein_s_scalar_11_gf_b2_y1_1_0] <;> ring

/-- `reversible_heun_s_additive_11` with two batch rows: row b of the output = the one-row step on row b of the inputs -/
theorem reversible_heun_s_additive_11_b2_rowwise (f : K → K → K) (g : K → K) (t0 t1 y0_0_0 y0_1_0 dW_0_0 dW_1_0 z0_0_0 z0_1_0 f0_0_0 f0_1_0 g0_0_0_0 g0_1_0_0 : K) :
    Gen.reversible_heun_s_additive_11_b2_y1_0_0 f g t0 t1 y0_0_0 y0_1_0 dW_0_0 dW_1_0 z0_0_0 z0_1_0 f0_0_0 f0_1_0 g0_0_0_0 g0_1_0_0
      = Gen.reversible_heun_s_additive_11_y1_0_0 f g t0 t1 y0_0_0 dW_0_0 z0_0_0 f0_0_0 g0_0_0_0 ∧
    Gen.reversible_heun_s_additive_11_b2_y1_1_0 f g t0 t1 y0_0_0 y0_1_0 dW_0_0 dW_1_0 z0_0_0 z0_1_0 f0_0_0 f0_1_0 g0_0_0_0 g0_1_0_0
      = Gen.reversible_heun_s_additive_11_y1_0_0 f g t0 t1 y0_1_0 dW_1_0 z0_1_0 f0_1_0 g0_1_0_0 ∧
    Gen.reversible_heun_s_additive_11_b2_f1_0_0 f g t0 t1 y0_0_0 y0_1_0 dW_0_0 dW_1_0 z0_0_0 z0_1_0 f0_0_0 f0_1_0 g0_0_0_0 g0_1_0_0
      = Gen.reversible_heun_s_additive_11_f1_0_0 f g t0 t1 y0_0_0 dW_0_0 z0_0_0 f0_0_0 g0_0_0_0 ∧
    Gen.reversible_heun_s_additive_11_b2_f1_1_0 f g t0 t1 y0_0_0 y0_1_0 dW_0_0 dW_1_0 z0_0_0 z0_1_0 f0_0_0 f0_1_0 g0_0_0_0 g0_1_0_0
      = Gen.reversible_heun_s_additive_11_f1_0_0 f g t0 t1 y0_1_0 dW_1_0 z0_1_0 f0_1_0 g0_1_0_0 ∧
    Gen.reversible_heun_s_additive_11_b2_g1_0_0_0 f g t0 t1 y0_0_0 y0_1_0 dW_0_0 dW_1_0 z0_0_0 z0_1_0 f0_0_0 f0_1_0 g0_0_0_0 g0_1_0_0
      = Gen.reversible_heun_s_additive_11_g1_0_0_0 f g t0 t1 y0_0_0 dW_0_0 z0_0_0 f0_0_0 g0_0_0_0 ∧
    Gen.reversible_heun_s_additive_11_b2_g1_1_0_0 f g t0 t1 y0_0_0 y0_1_0 dW_0_0 dW_1_0 z0_0_0 z0_1_0 f0_0_0 f0_1_0 g0_0_0_0 g0_1_0_0
      = Gen.reversible_heun_s_additive_11_g1_0_0_0 f g t0 t1 y0_1_0 dW_1_0 z0_1_0 f0_1_0 g0_1_0_0 ∧
    Gen.reversible_heun_s_additive_11_b2_z1_0_0 f g t0 t1 y0_0_0 y0_1_0 dW_0_0 dW_1_0 z0_0_0 z0_1_0 f0_0_0 f0_1_0 g0_0_0_0 g0_1_0_0
      = Gen.reversible_heun_s_additive_11_z1_0_0 f g t0 t1 y0_0_0 dW_0_0 z0_0_0 f0_0_0 g0_0_0_0 ∧
    Gen.reversible_heun_s_additive_11_b2_z1_1_0 f g t0 t1 y0_0_0 y0_1_0 dW_0_0 dW_1_0 z0_0_0 z0_1_0 f0_0_0 f0_1_0 g0_0_0_0 g0_1_0_0
      = Gen.reversible_heun_s_additive_11_z1_0_0 f g t0 t1 y0_1_0 dW_1_0 z0_1_0 f0_1_0 g0_1_0_0 := by
  refine ⟨?_, ?_, ?_, ?_, ?_, ?_, ?_, ?_⟩ <;> simp only [Gen.reversible_heun_s_additive_11_b2_f1_0_0, Gen.reversible_heun_s_additive_11_b2_f1_1_0, Gen.reversible_heun_s_additive_11_b2_g1_0_0_0, Gen.reversible_heun_s_additive_11_b2_g1_1_0_0, Gen.reversible_heun_s_additive_11_b2_y1_0_0, Gen.reversible_heun_s_additive_11_b2_y1_1_0, Gen.reversible_heun_s_additive_11_b2_z1_0_0, Gen.reversible_heun_s_additive_11_b2_z1_1_0, Gen.reversible_heun_s_additive_11_f1_0_0, Gen.reversible_heun_s_additive_11_g1_0_0_0, Gen.reversible_heun_s_additive_11_y1_0_0, Gen.reversible_heun_s_additive_11_z1_0_0] <;> ring

/-- row 0 is unaffected by anything in row 1; swapping the rows of the inputs swaps the rows of the output -/
theorem reversible_heun_s_additive_11_b2_no_crosstalk (f : K → K → K) (g : K → K) (t0 t1 y0_0_0 y0_1_0 dW_0_0 dW_1_0 z0_0_0 z0_1_0 f0_0_0 f0_1_0 g0_0_0_0 g0_1_0_0 y0_1_0' dW_1_0' z0_1_0' f0_1_0' g0_1_0_0' : K) :
    Gen.reversible_heun_s_additive_11_b2_y1_0_0 f g t0 t1 y0_0_0 y0_1_0 dW_0_0 dW_1_0 z0_0_0 z0_1_0 f0_0_0 f0_1_0 g0_0_0_0 g0_1_0_0 = Gen.reversible_heun_s_additive_11_b2_y1_0_0 f g t0 t1 y0_0_0 y0_1_0' dW_0_0 dW_1_0' z0_0_0 z0_1_0' f0_0_0 f0_1_0' g0_0_0_0 g0_1_0_0' ∧
    Gen.reversible_heun_s_additive_11_b2_y1_1_0 f g t0 t1 y0_0_0 y0_1_0 dW_0_0 dW_1_0 z0_0_0 z0_1_0 f0_0_0 f0_1_0 g0_0_0_0 g0_1_0_0 = Gen.reversible_heun_s_additive_11_b2_y1_0_0 f g t0 t1 y0_1_0 y0_0_0 dW_1_0 dW_0_0 z0_1_0 z0_0_0 f0_1_0 f0_0_0 g0_1_0_0 g0_0_0_0 := by
  constructor <;> simp only [Gen.reversible_heun_s_additive_11_b2_f1_0_0, Gen.reversible_heun_s_additive_11_b2_f1_1_0, Gen.reversible_heun_s_additive_11_b2_g1_0_0_0, Gen.reversible_heun_s_additive_11_b2_g1_1_0_0, Gen.reversible_heun_s_additive_11_b2_y1_0_0, Gen.reversible_heun_s_additive_11_b2_y1_1_0, Gen.reversible_heun_s_additive_11_b2_z1_0_0, Gen.reversible_heun_s_additive_11_b2_z1_1_0] <;> ring

/-- `reversible_heun_s_diagonal_11` with two batch rows: row b of the output = the one-row step on row b of the inputs -/
theorem reversible_heun_s_diagonal_11_b2_rowwise (f : K → K → K) (g : K → K → K) (t0 t1 y0_0_0 y0_1_0 dW_0_0 dW_1_0 z0_0_0 z0_1_0 f0_0_0 f0_1_0 g0_0_0 g0_1_0 : K) :
    Gen.reversible_heun_s_diagonal_11_b2_y1_0_0 f g t0 t1 y0_0_0 y0_1_0 dW_0_0 dW_1_0 z0_0_0 z0_1_0 f0_0_0 f0_1_0 g0_0_0 g0_1_0
      = Gen.reversible_heun_s_diagonal_11_y1_0_0 f g t0 t1 y0_0_0 dW_0_0 z0_0_0 f0_0_0 g0_0_0 ∧
    Gen.reversible_heun_s_diagonal_11_b2_y1_1_0 f g t0 t1 y0_0_0 y0_1_0 dW_0_0 dW_1_0 z0_0_0 z0_1_0 f0_0_0 f0_1_0 g0_0_0 g0_1_0
      = Gen.reversible_heun_s_diagonal_11_y1_0_0 f g t0 t1 y0_1_0 dW_1_0 z0_1_0 f0_1_0 g0_1_0 ∧
    Gen.reversible_heun_s_diagonal_11_b2_f1_0_0 f g t0 t1 y0_0_0 y0_1_0 dW_0_0 dW_1_0 z0_0_0 z0_1_0 f0_0_0 f0_1_0 g0_0_0 g0_1_0
      = Gen.reversible_heun_s_diagonal_11_f1_0_0 f g t0 t1 y0_0_0 dW_0_0 z0_0_0 f0_0_0 g0_0_0 ∧
    Gen.reversible_heun_s_diagonal_11_b2_f1_1_0 f g t0 t1 y0_0_0 y0_1_0 dW_0_0 dW_1_0 z0_0_0 z0_1_0 f0_0_0 f0_1_0 g0_0_0 g0_1_0
      = Gen.reversible_heun_s_diagonal_11_f1_0_0 f g t0 t1 y0_1_0 dW_1_0 z0_1_0 f0_1_0 g0_1_0 ∧
    Gen.reversible_heun_s_diagonal_11_b2_g1_0_0 f g t0 t1 y0_0_0 y0_1_0 dW_0_0 dW_1_0 z0_0_0 z0_1_0 f0_0_0 f0_1_0 g0_0_0 g0_1_0
      = Gen.reversible_heun_s_diagonal_11_g1_0_0 f g t0 t1 y0_0_0 dW_0_0 z0_0_0 f0_0_0 g0_0_0 ∧
    Gen.reversible_heun_s_diagonal_11_b2_g1_1_0 f g t0 t1 y0_0_0 y0_1_0 dW_0_0 dW_1_0 z0_0_0 z0_1_0 f0_0_0 f0_1_0 g0_0_0 g0_1_0
      = Gen.reversible_heun_s_diagonal_11_g1_0_0 f g t0 t1 y0_1_0 dW_1_0 z0_1_0 f0_1_0 g0_1_0 ∧
    Gen.reversible_heun_s_diagonal_11_b2_z1_0_0 f g t0 t1 y0_0_0 y0_1_0 dW_0_0 dW_1_0 z0_0_0 z0_1_0 f0_0_0 f0_1_0 g0_0_0 g0_1_0
      = Gen.reversible_heun_s_diagonal_11_z1_0_0 f g t0 t1 y0_0_0 dW_0_0 z0_0_0 f0_0_0 g0_0_0 ∧
    Gen.reversible_heun_s_diagonal_11_b2_z1_1_0 f g t0 t1 y0_0_0 y0_1_0 dW_0_0 dW_1_0 z0_0_0 z0_1_0 f0_0_0 f0_1_0 g0_0_0 g0_1_0
      = Gen.reversible_heun_s_diagonal_11_z1_0_0 f g t0 t1 y0_1_0 dW_1_0 z0_1_0 f0_1_0 g0_1_0 := by
  refine ⟨?_, ?_, ?_, ?_, ?_, ?_, ?_, ?_⟩ <;> simp only [Gen.reversible_heun_s_diagonal_11_b2_f1_0_0, Gen.reversible_heun_s_diagonal_11_b2_f1_1_0, Gen.reversible_heun_s_diagonal_11_b2_g1_0_0, Gen.reversible_heun_s_diagonal_11_b2_g1_1_0, Gen.reversible_heun_s_diagonal_11_b2_y1_0_0, Gen.reversible_heun_s_diagonal_11_b2_y1_1_0, Gen.reversible_heun_s_diagonal_11_b2_z1_0_0, Gen.reversible_heun_s_diagonal_11_b2_z1_1_0, Gen.reversible_heun_s_diagonal_11_f1_0_0, Gen.reversible_heun_s_diagonal_11_g1_0_0, Gen.reversible_heun_s_diagonal_11_y1_0_0, Gen.reversible_heun_s_diagonal_11_z1_0_0] <;> ring

/-- row 0 is unaffected by anything in row 1; swapping the rows of the inputs swaps the rows of the output -/
theorem reversible_heun_s_diagonal_11_b2_no_crosstalk (f : K → K → K) (g : K → K → K) (t0 t1 y0_0_0 y0_1_0 dW_0_0 dW_1_0 z0_0_0 z0_1_0 f0_0_0 f0_1_0 g0_0_0 g0_1_0 y0_1_0' dW_1_0' z0_1_0' f0_1_0' g0_1_0' : K) :
    Gen.reversible_heun_s_diagonal_11_b2_y1_0_0 f g t0 t1 y0_0_0 y0_1_0 dW_0_0 dW_1_0 z0_0_0 z0_1_0 f0_0_0 f0_1_0 g0_0_0 g0_1_0 = Gen.reversible_heun_s_diagonal_11_b2_y1_0_0 f g t0 t1 y0_0_0 y0_1_0' dW_0_0 dW_1_0' z0_0_0 z0_1_0' f0_0_0 f0_1_0' g0_0_0 g0_1_0' ∧
    Gen.reversible_heun_s_diagonal_11_b2_y1_1_0 f g t0 t1 y0_0_0 y0_1_0 dW_0_0 dW_1_0 z0_0_0 z0_1_0 f0_0_0 f0_1_0 g0_0_0 g0_1_0 = Gen.reversible_heun_s_diagonal_11_b2_y1_0_0 f g t0 t1 y0_1_0 y0_0_0 dW_1_0 dW_0_0 z0_1_0 z0_0_0 f0_1_0 f0_0_0 g0_1_0 g0_0_0 := by
  constructor <;> simp only [Gen.reversible_heun_s_diagonal_11_b2_f1_0_0, Gen.reversible_heun_s_diagonal_11_b2_f1_1_0, Gen.reversible_heun_s_diagonal_11_b2_g1_0_0, Gen.reversible_heun_s_diagonal_11_b2_g1_1_0, Gen.reversible_heun_s_diagonal_11_b2_y1_0_0, Gen.reversible_heun_s_diagonal_11_b2_y1_1_0, Gen.reversible_heun_s_diagonal_11_b2_z1_0_0, Gen.reversible_heun_s_diagonal_11_b2_z1_1_0] <;> ring

/-- `reversible_heun_s_general_11` with two batch rows: row b of the output = the one-row step on row b of the inputs -/
theorem reversible_heun_s_general_11_b2_rowwise (f : K → K → K) (g : K → K → K) (t0 t1 y0_0_0 y0_1_0 dW_0_0 dW_1_0 z0_0_0 z0_1_0 f0_0_0 f0_1_0 g0_0_0_0 g0_1_0_0 : K) :
    Gen.reversible_heun_s_general_11_b2_y1_0_0 f g t0 t1 y0_0_0 y0_1_0 dW_0_0 dW_1_0 z0_0_0 z0_1_0 f0_0_0 f0_1_0 g0_0_0_0 g0_1_0_0
      = Gen.reversible_heun_s_general_11_y1_0_0 f g t0 t1 y0_0_0 dW_0_0 z0_0_0 f0_0_0 g0_0_0_0 ∧
    Gen.reversible_heun_s_general_11_b2_y1_1_0 f g t0 t1 y0_0_0 y0_1_0 dW_0_0 dW_1_0 z0_0_0 z0_1_0 f0_0_0 f0_1_0 g0_0_0_0 g0_1_0_0
      = Gen.reversible_heun_s_general_11_y1_0_0 f g t0 t1 y0_1_0 dW_1_0 z0_1_0 f0_1_0 g0_1_0_0 ∧
    Gen.reversible_heun_s_general_11_b2_f1_0_0 f g t0 t1 y0_0_0 y0_1_0 dW_0_0 dW_1_0 z0_0_0 z0_1_0 f0_0_0 f0_1_0 g0_0_0_0 g0_1_0_0
      = Gen.reversible_heun_s_general_11_f1_0_0 f g t0 t1 y0_0_0 dW_0_0 z0_0_0 f0_0_0 g0_0_0_0 ∧
    Gen.reversible_heun_s_general_11_b2_f1_1_0 f g t0 t1 y0_0_0 y0_1_0 dW_0_0 dW_1_0 z0_0_0 z0_1_0 f0_0_0 f0_1_0 g0_0_0_0 g0_1_0_0
      = Gen.reversible_heun_s_general_11_f1_0_0 f g t0 t1 y0_1_0 dW_1_0 z0_1_0 f0_1_0 g0_1_0_0 ∧
    Gen.reversible_heun_s_general_11_b2_g1_0_0_0 f g t0 t1 y0_0_0 y0_1_0 dW_0_0 dW_1_0 z0_0_0 z0_1_0 f0_0_0 f0_1_0 g0_0_0_0 g0_1_0_0
      = Gen.reversible_heun_s_general_11_g1_0_0_0 f g t0 t1 y0_0_0 dW_0_0 z0_0_0 f0_0_0 g0_0_0_0 ∧
    Gen.reversible_heun_s_general_11_b2_g1_1_0_0 f g t0 t1 y0_0_0 y0_1_0 dW_0_0 dW_1_0 z0_0_0 z0_1_0 f0_0_0 f0_1_0 g0_0_0_0 g0_1_0_0
      = Gen.reversible_heun_s_general_11_g1_0_0_0 f g t0 t1 y0_1_0 dW_1_0 z0_1_0 f0_1_0 g0_1_0_0 ∧
    Gen.reversible_heun_s_general_11_b2_z1_0_0 f g t0 t1 y0_0_0 y0_1_0 dW_0_0 dW_1_0 z0_0_0 z0_1_0 f0_0_0 f0_1_0 g0_0_0_0 g0_1_0_0
      = Gen.reversible_heun_s_general_11_z1_0_0 f g t0 t1 y0_0_0 dW_0_0 z0_0_0 f0_0_0 g0_0_0_0 ∧
    Gen.reversible_heun_s_general_11_b2_z1_1_0 f g t0 t1 y0_0_0 y0_1_0 dW_0_0 dW_1_0 z0_0_0 z0_1_0 f0_0_0 f0_1_0 g0_0_0_0 g0_1_0_0
      = Gen.reversible_heun_s_general_11_z1_0_0 f g t0 t1 y0_1_0 dW_1_0 z0_1_0 f0_1_0 g0_1_0_0 := by
  refine ⟨?_, ?_, ?_, ?_, ?_, ?_, ?_, ?_⟩ <;> simp only [Gen.reversible_heun_s_general_11_b2_f1_0_0, Gen.reversible_heun_s_general_11_b2_f1_1_0, Gen.reversible_heun_s_general_11_b2_g1_0_0_0, Gen.reversible_heun_s_general_11_b2_g1_1_0_0, Gen.reversible_heun_s_general_11_b2_y1_0_0, Gen.reversible_heun_s_general_11_b2_y1_1_0, Gen.reversible_heun_s_general_11_b2_z1_0_0, Gen.reversible_heun_s_general_11_b2_z1_1_0, Gen.reversible_heun_s_general_11_f1_0_0, Gen.reversible_heun_s_general_11_g1_0_0_0, Gen.reversible_heun_s_general_11_y1_0_0, Gen.reversible_heun_s_general_11_z1_0_0] <;> ring

/-- row 0 is unaffected by anything in row 1; swapping the rows of the inputs swaps the rows of the output -/
theorem reversible_heun_s_general_11_b2_no_crosstalk (f : K → K → K) (g : K → K → K) (t0 t1 y0_0_0 y0_1_0 dW_0_0 dW_1_0 z0_0_0 z0_1_0 f0_0_0 f0_1_0 g0_0_0_0 g0_1_0_0 y0_1_0' dW_1_0' z0_1_0' f0_1_0' g0_1_0_0' : K) :
    Gen.reversible_heun_s_general_11_b2_y1_0_0 f g t0 t1 y0_0_0 y0_1_0 dW_0_0 dW_1_0 z0_0_0 z0_1_0 f0_0_0 f0_1_0 g0_0_0_0 g0_1_0_0 = Gen.reversible_heun_s_general_11_b2_y1_0_0 f g t0 t1 y0_0_0 y0_1_0' dW_0_0 dW_1_0' z0_0_0 z0_1_0' f0_0_0 f0_1_0' g0_0_0_0 g0_1_0_0' ∧
    Gen.reversible_heun_s_general_11_b2_y1_1_0 f g t0 t1 y0_0_0 y0_1_0 dW_0_0 dW_1_0 z0_0_0 z0_1_0 f0_0_0 f0_1_0 g0_0_0_0 g0_1_0_0 = Gen.reversible_heun_s_general_11_b2_y1_0_0 f g t0 t1 y0_1_0 y0_0_0 dW_1_0 dW_0_0 z0_1_0 z0_0_0 f0_1_0 f0_0_0 g0_1_0_0 g0_0_0_0 := by
  constructor <;> simp only [Gen.reversible_heun_s_general_11_b2_f1_0_0, Gen.reversible_heun_s_general_11_b2_f1_1_0, Gen.reversible_heun_s_general_11_b2_g1_0_0_0, Gen.reversible_heun_s_general_11_b2_g1_1_0_0, Gen.reversible_heun_s_general_11_b2_y1_0_0, Gen.reversible_heun_s_general_11_b2_y1_1_0, Gen.reversible_heun_s_general_11_b2_z1_0_0, Gen.reversible_heun_s_general_11_b2_z1_1_0] <;> ring

/-- `reversible_heun_s_general_22` with two batch rows: row b of the output = the one-row step on row b of the inputs -/
theorem reversible_heun_s_general_22_b2_rowwise (f0 : K → K → K → K) (f1 : K → K → K → K) (g00 : K → K → K → K) (g01 : K → K → K → K) (g10 : K → K → K → K) (g11 : K → K → K → K) (t0 t1 y0_0_0 y0_0_1 y0_1_0 y0_1_1 dW_0_0 dW_0_1 dW_1_0 dW_1_1 z0_0_0 z0_0_1 z0_1_0 z0_1_1 f0_0_0 f0_0_1 f0_1_0 f0_1_1 g0_0_0_0 g0_0_0_1 g0_0_1_0 g0_0_1_1 g0_1_0_0 g0_1_0_1 g0_1_1_0 g0_1_1_1 : K) :
    Gen.reversible_heun_s_general_22_b2_y1_0_0 f0 f1 g00 g01 g10 g11 t0 t1 y0_0_0 y0_0_1 y0_1_0 y0_1_1 dW_0_0 dW_0_1 dW_1_0 dW_1_1 z0_0_0 z0_0_1 z0_1_0 z0_1_1 f0_0_0 f0_0_1 f0_1_0 f0_1_1 g0_0_0_0 g0_0_0_1 g0_0_1_0 g0_0_1_1 g0_1_0_0 g0_1_0_1 g0_1_1_0 g0_1_1_1
      = Gen.reversible_heun_s_general_22_y1_0_0 f0 f1 g00 g01 g10 g11 t0 t1 y0_0_0 y0_0_1 dW_0_0 dW_0_1 z0_0_0 z0_0_1 f0_0_0 f0_0_1 g0_0_0_0 g0_0_0_1 g0_0_1_0 g0_0_1_1 ∧
    Gen.reversible_heun_s_general_22_b2_y1_0_1 f0 f1 g00 g01 g10 g11 t0 t1 y0_0_0 y0_0_1 y0_1_0 y0_1_1 dW_0_0 dW_0_1 dW_1_0 dW_1_1 z0_0_0 z0_0_1 z0_1_0 z0_1_1 f0_0_0 f0_0_1 f0_1_0 f0_1_1 g0_0_0_0 g0_0_0_1 g0_0_1_0 g0_0_1_1 g0_1_0_0 g0_1_0_1 g0_1_1_0 g0_1_1_1
      = Gen.reversible_heun_s_general_22_y1_0_1 f0 f1 g00 g01 g10 g11 t0 t1 y0_0_0 y0_0_1 dW_0_0 dW_0_1 z0_0_0 z0_0_1 f0_0_0 f0_0_1 g0_0_0_0 g0_0_0_1 g0_0_1_0 g0_0_1_1 ∧
    Gen.reversible_heun_s_general_22_b2_y1_1_0 f0 f1 g00 g01 g10 g11 t0 t1 y0_0_0 y0_0_1 y0_1_0 y0_1_1 dW_0_0 dW_0_1 dW_1_0 dW_1_1 z0_0_0 z0_0_1 z0_1_0 z0_1_1 f0_0_0 f0_0_1 f0_1_0 f0_1_1 g0_0_0_0 g0_0_0_1 g0_0_1_0 g0_0_1_1 g0_1_0_0 g0_1_0_1 g0_1_1_0 g0_1_1_1
      = Gen.reversible_heun_s_general_22_y1_0_0 f0 f1 g00 g01 g10 g11 t0 t1 y0_1_0 y0_1_1 dW_1_0 dW_1_1 z0_1_0 z0_1_1 f0_1_0 f0_1_1 g0_1_0_0 g0_1_0_1 g0_1_1_0 g0_1_1_1 ∧
    Gen.reversible_heun_s_general_22_b2_y1_1_1 f0 f1 g00 g01 g10 g11 t0 t1 y0_0_0 y0_0_1 y0_1_0 y0_1_1 dW_0_0 dW_0_1 dW_1_0 dW_1_1 z0_0_0 z0_0_1 z0_1_0 z0_1_1 f0_0_0 f0_0_1 f0_1_0 f0_1_1 g0_0_0_0 g0_0_0_1 g0_0_1_0 g0_0_1_1 g0_1_0_0 g0_1_0_1 g0_1_1_0 g0_1_1_1
      = Gen.reversible_heun_s_general_22_y1_0_1 f0 f1 g00 g01 g10 g11 t0 t1 y0_1_0 y0_1_1 dW_1_0 dW_1_1 z0_1_0 z0_1_1 f0_1_0 f0_1_1 g0_1_0_0 g0_1_0_1 g0_1_1_0 g0_1_1_1 ∧
    Gen.reversible_heun_s_general_22_b2_f1_0_0 f0 f1 g00 g01 g10 g11 t0 t1 y0_0_0 y0_0_1 y0_1_0 y0_1_1 dW_0_0 dW_0_1 dW_1_0 dW_1_1 z0_0_0 z0_0_1 z0_1_0 z0_1_1 f0_0_0 f0_0_1 f0_1_0 f0_1_1 g0_0_0_0 g0_0_0_1 g0_0_1_0 g0_0_1_1 g0_1_0_0 g0_1_0_1 g0_1_1_0 g0_1_1_1
      = Gen.reversible_heun_s_general_22_f1_0_0 f0 f1 g00 g01 g10 g11 t0 t1 y0_0_0 y0_0_1 dW_0_0 dW_0_1 z0_0_0 z0_0_1 f0_0_0 f0_0_1 g0_0_0_0 g0_0_0_1 g0_0_1_0 g0_0_1_1 ∧
    Gen.reversible_heun_s_general_22_b2_f1_0_1 f0 f1 g00 g01 g10 g11 t0 t1 y0_0_0 y0_0_1 y0_1_0 y0_1_1 dW_0_0 dW_0_1 dW_1_0 dW_1_1 z0_0_0 z0_0_1 z0_1_0 z0_1_1 f0_0_0 f0_0_1 f0_1_0 f0_1_1 g0_0_0_0 g0_0_0_1 g0_0_1_0 g0_0_1_1 g0_1_0_0 g0_1_0_1 g0_1_1_0 g0_1_1_1
      = Gen.reversible_heun_s_general_22_f1_0_1 f0 f1 g00 g01 g10 g11 t0 t1 y0_0_0 y0_0_1 dW_0_0 dW_0_1 z0_0_0 z0_0_1 f0_0_0 f0_0_1 g0_0_0_0 g0_0_0_1 g0_0_1_0 g0_0_1_1 ∧
    Gen.reversible_heun_s_general_22_b2_f1_1_0 f0 f1 g00 g01 g10 g11 t0 t1 y0_0_0 y0_0_1 y0_1_0 y0_1_1 dW_0_0 dW_0_1 dW_1_0 dW_1_1 z0_0_0 z0_0_1 z0_1_0 z0_1_1 f0_0_0 f0_0_1 f0_1_0 f0_1_1 g0_0_0_0 g0_0_0_1 g0_0_1_0 g0_0_1_1 g0_1_0_0 g0_1_0_1 g0_1_1_0 g0_1_1_1
      = Gen.reversible_heun_s_general_22_f1_0_0 f0 f1 g00 g01 g10 g11 t0 t1 y0_1_0 y0_1_1 dW_1_0 dW_1_1 z0_1_0 z0_1_1 f0_1_0 f0_1_1 g0_1_0_0 g0_1_0_1 g0_1_1_0 g0_1_1_1 ∧
    Gen.reversible_heun_s_general_22_b2_f1_1_1 f0 f1 g00 g01 g10 g11 t0 t1 y0_0_0 y0_0_1 y0_1_0 y0_1_1 dW_0_0 dW_0_1 dW_1_0 dW_1_1 z0_0_0 z0_0_1 z0_1_0 z0_1_1 f0_0_0 f0_0_1 f0_1_0 f0_1_1 g0_0_0_0 g0_0_0_1 g0_0_1_0 g0_0_1_1 g0_1_0_0 g0_1_0_1 g0_1_1_0 g0_1_1_1
      = Gen.reversible_heun_s_general_22_f1_0_1 f0 f1 g00 g01 g10 g11 t0 t1 y0_1_0 y0_1_1 dW_1_0 dW_1_1 z0_1_0 z0_1_1 f0_1_0 f0_1_1 g0_1_0_0 g0_1_0_1 g0_1_1_0 g0_1_1_1 ∧
    Gen.reversible_heun_s_general_22_b2_g1_0_0_0 f0 f1 g00 g01 g10 g11 t0 t1 y0_0_0 y0_0_1 y0_1_0 y0_1_1 dW_0_0 dW_0_1 dW_1_0 dW_1_1 z0_0_0 z0_0_1 z0_1_0 z0_1_1 f0_0_0 f0_0_1 f0_1_0 f0_1_1 g0_0_0_0 g0_0_0_1 g0_0_1_0 g0_0_1_1 g0_1_0_0 g0_1_0_1 g0_1_1_0 g0_1_1_1
      = Gen.reversible_heun_s_general_22_g1_0_0_0 f0 f1 g00 g01 g10 g11 t0 t1 y0_0_0 y0_0_1 dW_0_0 dW_0_1 z0_0_0 z0_0_1 f0_0_0 f0_0_1 g0_0_0_0 g0_0_0_1 g0_0_1_0 g0_0_1_1 ∧
    Gen.reversible_heun_s_general_22_b2_g1_0_0_1 f0 f1 g00 g01 g10 g11 t0 t1 y0_0_0 y0_0_1 y0_1_0 y0_1_1 dW_0_0 dW_0_1 dW_1_0 dW_1_1 z0_0_0 z0_0_1 z0_1_0 z0_1_1 f0_0_0 f0_0_1 f0_1_0 f0_1_1 g0_0_0_0 g0_0_0_1 g0_0_1_0 g0_0_1_1 g0_1_0_0 g0_1_0_1 g0_1_1_0 g0_1_1_1
      = Gen.reversible_heun_s_general_22_g1_0_0_1 f0 f1 g00 g01 g10 g11 t0 t1 y0_0_0 y0_0_1 dW_0_0 dW_0_1 z0_0_0 z0_0_1 f0_0_0 f0_0_1 g0_0_0_0 g0_0_0_1 g0_0_1_0 g0_0_1_1 ∧
    Gen.reversible_heun_s_general_22_b2_g1_0_1_0 f0 f1 g00 g01 g10 g11 t0 t1 y0_0_0 y0_0_1 y0_1_0 y0_1_1 dW_0_0 dW_0_1 dW_1_0 dW_1_1 z0_0_0 z0_0_1 z0_1_0 z0_1_1 f0_0_0 f0_0_1 f0_1_0 f0_1_1 g0_0_0_0 g0_0_0_1 g0_0_1_0 g0_0_1_1 g0_1_0_0 g0_1_0_1 g0_1_1_0 g0_1_1_1
      = Gen.reversible_heun_s_general_22_g1_0_1_0 f0 f1 g00 g01 g10 g11 t0 t1 y0_0_0 y0_0_1 dW_0_0 dW_0_1 z0_0_0 z0_0_1 f0_0_0 f0_0_1 g0_0_0_0 g0_0_0_1 g0_0_1_0 g0_0_1_1 ∧
    Gen.reversible_heun_s_general_22_b2_g1_0_1_1 f0 f1 g00 g01 g10 g11 t0 t1 y0_0_0 y0_0_1 y0_1_0 y0_1_1 dW_0_0 dW_0_1 dW_1_0 dW_1_1 z0_0_0 z0_0_1 z0_1_0 z0_1_1 f0_0_0 f0_0_1 f0_1_0 f0_1_1 g0_0_0_0 g0_0_0_1 g0_0_1_0 g0_0_1_1 g0_1_0_0 g0_1_0_1 g0_1_1_0 g0_1_1_1
      = Gen.reversible_heun_s_general_22_g1_0_1_1 f0 f1 g00 g01 g10 g11 t0 t1 y0_0_0 y0_0_1 dW_0_0 dW_0_1 z0_0_0 z0_0_1 f0_0_0 f0_0_1 g0_0_0_0 g0_0_0_1 g0_0_1_0 g0_0_1_1 ∧
    Gen.reversible_heun_s_general_22_b2_g1_1_0_0 f0 f1 g00 g01 g10 g11 t0 t1 y0_0_0 y0_0_1 y0_1_0 y0_1_1 dW_0_0 dW_0_1 dW_1_0 dW_1_1 z0_0_0 z0_0_1 z0_1_0 z0_1_1 f0_0_0 f0_0_1 f0_1_0 f0_1_1 g0_0_0_0 g0_0_0_1 g0_0_1_0 g0_0_1_1 g0_1_0_0 g0_1_0_1 g0_1_1_0 g0_1_1_1
      = Gen.reversible_heun_s_general_22_g1_0_0_0 f0 f1 g00 g01 g10 g11 t0 t1 y0_1_0 y0_1_1 dW_1_0 dW_1_1 z0_1_0 z0_1_1 f0_1_0 f0_1_1 g0_1_0_0 g0_1_0_1 g0_1_1_0 g0_1_1_1 ∧
    Gen.reversible_heun_s_general_22_b2_g1_1_0_1 f0 f1 g00 g01 g10 g11 t0 t1 y0_0_0 y0_0_1 y0_1_0 y0_1_1 dW_0_0 dW_0_1 dW_1_0 dW_1_1 z0_0_0 z0_0_1 z0_1_0 z0_1_1 f0_0_0 f0_0_1 f0_1_0 f0_1_1 g0_0_0_0 g0_0_0_1 g0_0_1_0 g0_0_1_1 g0_1_0_0 g0_1_0_1 g0_1_1_0 g0_1_1_1
      = Gen.reversible_heun_s_general_22_g1_0_0_1 f0 f1 g00 g01 g10 g11 t0 t1 y0_1_0 y0_1_1 dW_1_0 dW_1_1 z0_1_0 z0_1_1 f0_1_0 f0_1_1 g0_1_0_0 g0_1_0_1 g0_1_1_0 g0_1_1_1 ∧
    Gen.reversible_heun_s_general_22_b2_g1_1_1_0 f0 f1 g00 g01 g10 g11 t0 t1 y0_0_0 y0_0_1 y0_1_0 y0_1_1 dW_0_0 dW_0_1 dW_1_0 dW_1_1 z0_0_0 z0_0_1 z0_1_0 z0_1_1 f0_0_0 f0_0_1 f0_1_0 f0_1_1 g0_0_0_0 g0_0_0_1 g0_0_1_0 g0_0_1_1 g0_1_0_0 g0_1_0_1 g0_1_1_0 g0_1_1_1
      = Gen.reversible_heun_s_general_22_g1_0_1_0 f0 f1 g00 g01 g10 g11 t0 t1 y0_1_0 y0_1_1 dW_1_0 dW_1_1 z0_1_0 z0_1_1 f0_1_0 f0_1_1 g0_1_0_0 g0_1_0_1 g0_1_1_0 g0_1_1_1 ∧
    Gen.reversible_heun_s_general_22_b2_g1_1_1_1 f0 f1 g00 g01 g10 g11 t0 t1 y0_0_0 y0_0_1 y0_1_0 y0_1_1 dW_0_0 dW_0_1 dW_1_0 dW_1_1 z0_0_0 z0_0_1 z0_1_0 z0_1_1 f0_0_0 f0_0_1 f0_1_0 f0_1_1 g0_0_0_0 g0_0_0_1 g0_0_1_0 g0_0_1_1 g0_1_0_0 g0_1_0_1 g0_1_1_0 g0_1_1_1
      = Gen.reversible_heun_s_general_22_g1_0_1_1 f0 f1 g00 g01 g10 g11 t0 t1 y0_1_0 y0_1_1 dW_1_0 dW_1_1 z0_1_0 z0_1_1 f0_1_0 f0_1_1 g0_1_0_0 g0_1_0_1 g0_1_1_0 g0_1_1_1 ∧
    Gen.reversible_heun_s_general_22_b2_z1_0_0 f0 f1 g00 g01 g10 g11 t0 t1 y0_0_0 y0_0_1 y0_1_0 y0_1_1 dW_0_0 dW_0_1 dW_1_0 dW_1_1 z0_0_0 z0_0_1 z0_1_0 z0_1_1 f0_0_0 f0_0_1 f0_1_0 f0_1_1 g0_0_0_0 g0_0_0_1 g0_0_1_0 g0_0_1_1 g0_1_0_0 g0_1_0_1 g0_1_1_0 g0_1_1_1
      = Gen.reversible_heun_s_general_22_z1_0_0 f0 f1 g00 g01 g10 g11 t0 t1 y0_0_0 y0_0_1 dW_0_0 dW_0_1 z0_0_0 z0_0_1 f0_0_0 f0_0_1 g0_0_0_0 g0_0_0_1 g0_0_1_0 g0_0_1_1 ∧
    Gen.reversible_heun_s_general_22_b2_z1_0_1 f0 f1 g00 g01 g10 g11 t0 t1 y0_0_0 y0_0_1 y0_1_0 y0_1_1 dW_0_0 dW_0_1 dW_1_0 dW_1_1 z0_0_0 z0_0_1 z0_1_0 z0_1_1 f0_0_0 f0_0_1 f0_1_0 f0_1_1 g0_0_0_0 g0_0_0_1 g0_0_1_0 g0_0_1_1 g0_1_0_0 g0_1_0_1 g0_1_1_0 g0_1_1_1
      = Gen.reversible_heun_s_general_22_z1_0_1 f0 f1 g00 g01 g10 g11 t0 t1 y0_0_0 y0_0_1 dW_0_0 dW_0_1 z0_0_0 z0_0_1 f0_0_0 f0_0_1 g0_0_0_0 g0_0_0_1 g0_0_1_0 g0_0_1_1 ∧
    Gen.reversible_heun_s_general_22_b2_z1_1_0 f0 f1 g00 g01 g10 g11 t0 t1 y0_0_0 y0_0_1 y0_1_0 y0_1_1 dW_0_0 dW_0_1 dW_1_0 dW_1_1 z0_0_0 z0_0_1 z0_1_0 z0_1_1 f0_0_0 f0_0_1 f0_1_0 f0_1_1 g0_0_0_0 g0_0_0_1 g0_0_1_0 g0_0_1_1 g0_1_0_0 g0_1_0_1 g0_1_1_0 g0_1_1_1
      = Gen.reversible_heun_s_general_22_z1_0_0 f0 f1 g00 g01 g10 g11 t0 t1 y0_1_0 y0_1_1 dW_1_0 dW_1_1 z0_1_0 z0_1_1 f0_1_0 f0_1_1 g0_1_0_0 g0_1_0_1 g0_1_1_0 g0_1_1_1 ∧
    Gen.reversible_heun_s_general_22_b2_z1_1_1 f0 f1 g00 g01 g10 g11 t0 t1 y0_0_0 y0_0_1 y0_1_0 y0_1_1 dW_0_0 dW_0_1 dW_1_0 dW_1_1 z0_0_0 z0_0_1 z0_1_0 z0_1_1 f0_0_0 f0_0_1 f0_1_0 f0_1_1 g0_0_0_0 g0_0_0_1 g0_0_1_0 g0_0_1_1 g0_1_0_0 g0_1_0_1 g0_1_1_0 g0_1_1_1
      = Gen.reversible_heun_s_general_22_z1_0_1 f0 f1 g00 g01 g10 g11 t0 t1 y0_1_0 y0_1_1 dW_1_0 dW_1_1 z0_1_0 z0_1_1 f0_1_0 f0_1_1 g0_1_0_0 g0_1_0_1 g0_1_1_0 g0_1_1_1 := by
  refine ⟨?_, ?_, ?_, ?_, ?_, ?_, ?_, ?_, ?_, ?_, ?_, ?_, ?_, ?_, ?_, ?_, ?_, ?_, ?_, ?_⟩ <;> simp only [Gen.reversible_heun_s_general_22_b2_f1_0_0, Gen.reversible_heun_s_general_22_b2_f1_0_1, Gen.reversible_heun_s_general_22_b2_f1_1_0, Gen.reversible_heun_s_general_22_b2_f1_1_1, Gen.reversible_heun_s_general_22_b2_g1_0_0_0, Gen.reversible_heun_s_general_22_b2_g1_0_0_1, Gen.reversible_heun_s_general_22_b2_g1_0_1_0, Gen.reversible_heun_s_general_22_b2_g1_0_1_1, Gen.reversible_heun_s_general_22_b2_g1_1_0_0, Gen.reversible_heun_s_general_22_b2_g1_1_0_1, Gen.reversible_heun_s_general_22_b2_g1_1_1_0, Gen.reversible_heun_s_general_22_b2_g1_1_1_1, Gen.reversible_heun_s_general_22_b2_y1_0_0, Gen.reversible_heun_s_general_22_b2_y1_0_1, Gen.reversible_heun_s_general_22_b2_y1_1_0, Gen.reversible_heun_s_general_22_b2_y1_1_1, Gen.reversible_heun_s_general_22_b2_z1_0_0, Gen.reversible_heun_s_general_22_b2_z1_0_1, Gen.reversible_heun_s_general_22_b2_z1_1_0, Gen.reversible_heun_s_general_22_b2_z1_1_1, Gen.reversible_heun_s_general_22_f1_0_0, Gen.reversible_heun_s_general_22_f1_0_1, Gen.reversible_heun_s_general_22_g1_0_0_0, Gen.reversible_heun_s_general_22_g1_0_0_1, Gen.reversible_heun_s_general_22_g1_0_1_0, Gen.reversible_heun_s_general_22_g1_0_1_1, Gen.reversible_heun_s_general_22_y1_0_0, Gen.reversible_heun_s_general_22_y1_0_1, Gen.reversible_heun_s_general_22_z1_0_0, Gen.reversible_heun_s_general_22_z1_0_1] <;> ring

/-- row 0 is unaffected by anything in row 1; swapping the rows of the inputs swaps the rows of the output -/
theorem reversible_heun_s_general_22_b2_no_crosstalk (f0 : K → K → K → K) (f1 : K → K → K → K) (g00 : K → K → K → K) (g01 : K → K → K → K) (g10 : K → K → K → K) (g11 : K → K → K → K) (t0 t1 y0_0_0 y0_0_1 y0_1_0 y0_1_1 dW_0_0 dW_0_1 dW_1_0 dW_1_1 z0_0_0 z0_0_1 z0_1_0 z0_1_1 f0_0_0 f0_0_1 f0_1_0 f0_1_1 g0_0_0_0 g0_0_0_1 g0_0_1_0 g0_0_1_1 g0_1_0_0 g0_1_0_1 g0_1_1_0 g0_1_1_1 y0_1_0' y0_1_1' dW_1_0' dW_1_1' z0_1_0' z0_1_1' f0_1_0' f0_1_1' g0_1_0_0' g0_1_0_1' g0_1_1_0' g0_1_1_1' : K) :
    Gen.reversible_heun_s_general_22_b2_y1_0_0 f0 f1 g00 g01 g10 g11 t0 t1 y0_0_0 y0_0_1 y0_1_0 y0_1_1 dW_0_0 dW_0_1 dW_1_0 dW_1_1 z0_0_0 z0_0_1 z0_1_0 z0_1_1 f0_0_0 f0_0_1 f0_1_0 f0_1_1 g0_0_0_0 g0_0_0_1 g0_0_1_0 g0_0_1_1 g0_1_0_0 g0_1_0_1 g0_1_1_0 g0_1_1_1 = Gen.reversible_heun_s_general_22_b2_y1_0_0 f0 f1 g00 g01 g10 g11 t0 t1 y0_0_0 y0_0_1 y0_1_0' y0_1_1' dW_0_0 dW_0_1 dW_1_0' dW_1_1' z0_0_0 z0_0_1 z0_1_0' z0_1_1' f0_0_0 f0_0_1 f0_1_0' f0_1_1' g0_0_0_0 g0_0_0_1 g0_0_1_0 g0_0_1_1 g0_1_0_0' g0_1_0_1' g0_1_1_0' g0_1_1_1' ∧
    Gen.reversible_heun_s_general_22_b2_y1_1_0 f0 f1 g00 g01 g10 g11 t0 t1 y0_0_0 y0_0_1 y0_1_0 y0_1_1 dW_0_0 dW_0_1 dW_1_0 dW_1_1 z0_0_0 z0_0_1 z0_1_0 z0_1_1 f0_0_0 f0_0_1 f0_1_0 f0_1_1 g0_0_0_0 g0_0_0_1 g0_0_1_0 g0_0_1_1 g0_1_0_0 g0_1_0_1 g0_1_1_0 g0_1_1_1 = Gen.reversible_heun_s_general_22_b2_y1_0_0 f0 f1 g00 g01 g10 g11 t0 t1 y0_1_0 y0_1_1 y0_0_0 y0_0_1 dW_1_0 dW_1_1 dW_0_0 dW_0_1 z0_1_0 z0_1_1 z0_0_0 z0_0_1 f0_1_0 f0_1_1 f0_0_0 f0_0_1 g0_1_0_0 g0_1_0_1 g0_1_1_0 g0_1_1_1 g0_0_0_0 g0_0_0_1 g0_0_1_0 g0_0_1_1 := by
  constructor <;> simp only [Gen.reversible_heun_s_general_22_b2_f1_0_0, Gen.reversible_heun_s_general_22_b2_f1_0_1, Gen.reversible_heun_s_general_22_b2_f1_1_0, Gen.reversible_heun_s_general_22_b2_f1_1_1, Gen.reversible_heun_s_general_22_b2_g1_0_0_0, Gen.reversible_heun_s_general_22_b2_g1_0_0_1, Gen.reversible_heun_s_general_22_b2_g1_0_1_0, Gen.reversible_heun_s_general_22_b2_g1_0_1_1, Gen.reversible_heun_s_general_22_b2_g1_1_0_0, Gen.reversible_heun_s_general_22_b2_g1_1_0_1, Gen.reversible_heun_s_general_22_b2_g1_1_1_0, Gen.reversible_heun_s_general_22_b2_g1_1_1_1, Gen.reversible_heun_s_general_22_b2_y1_0_0, Gen.reversible_heun_s_general_22_b2_y1_0_1, Gen.reversible_heun_s_general_22_b2_y1_1_0, Gen.reversible_heun_s_general_22_b2_y1_1_1, Gen.reversible_heun_s_general_22_b2_z1_0_0, Gen.reversible_heun_s_general_22_b2_z1_0_1, Gen.reversible_heun_s_general_22_b2_z1_1_0, Gen.reversible_heun_s_general_22_b2_z1_1_1] <;> ring

/-- `reversible_heun_s_scalar_11` with two batch rows: row b of the output = the one-row step on row b of the inputs -/
theorem reversible_heun_s_scalar_11_b2_rowwise (f : K → K → K) (g : K → K → K) (t0 t1 y0_0_0 y0_1_0 dW_0_0 dW_1_0 z0_0_0 z0_1_0 f0_0_0 f0_1_0 g0_0_0_0 g0_1_0_0 : K) :
    Gen.reversible_heun_s_scalar_11_b2_y1_0_0 f g t0 t1 y0_0_0 y0_1_0 dW_0_0 dW_1_0 z0_0_0 z0_1_0 f0_0_0 f0_1_0 g0_0_0_0 g0_1_0_0
      = Gen.reversible_heun_s_scalar_11_y1_0_0 f g t0 t1 y0_0_0 dW_0_0 z0_0_0 f0_0_0 g0_0_0_0 ∧
    Gen.reversible_heun_s_scalar_11_b2_y1_1_0 f g t0 t1 y0_0_0 y0_1_0 dW_0_0 dW_1_0 z0_0_0 z0_1_0 f0_0_0 f0_1_0 g0_0_0_0 g0_1_0_0
      = Gen.reversible_heun_s_scalar_11_y1_0_0 f g t0 t1 y0_1_0 dW_1_0 z0_1_0 f0_1_0 g0_1_0_0 ∧
    Gen.reversible_heun_s_scalar_11_b2_f1_0_0 f g t0 t1 y0_0_0 y0_1_0 dW_0_0 dW_1_0 z0_0_0 z0_1_0 f0_0_0 f0_1_0 g0_0_0_0 g0_1_0_0
      = Gen.reversible_heun_s_scalar_11_f1_0_0 f g t0 t1 y0_0_0 dW_0_0 z0_0_0 f0_0_0 g0_0_0_0 ∧
    Gen.reversible_heun_s_scalar_11_b2_f1_1_0 f g t0 t1 y0_0_0 y0_1_0 dW_0_0 dW_1_0 z0_0_0 z0_1_0 f0_0_0 f0_1_0 g0_0_0_0 g0_1_0_0
      = Gen.reversible_heun_s_scalar_11_f1_0_0 f g t0 t1 y0_1_0 dW_1_0 z0_1_0 f0_1_0 g0_1_0_0 ∧
    Gen.reversible_heun_s_scalar_11_b2_g1_0_0_0 f g t0 t1 y0_0_0 y0_1_0 dW_0_0 dW_1_0 z0_0_0 z0_1_0 f0_0_0 f0_1_0 g0_0_0_0 g0_1_0_0
      = Gen.reversible_heun_s_scalar_11_g1_0_0_0 f g t0 t1 y0_0_0 dW_0_0 z0_0_0 f0_0_0 g0_0_0_0 ∧
    Gen.reversible_heun_s_scalar_11_b2_g1_1_0_0 f g t0 t1 y0_0_0 y0_1_0 dW_0_0 dW_1_0 z0_0_0 z0_1_0 f0_0_0 f0_1_0 g0_0_0_0 g0_1_0_0
      = Gen.reversible_heun_s_scalar_11_g1_0_0_0 f g t0 t1 y0_1_0 dW_1_0 z0_1_0 f0_1_0 g0_1_0_0 ∧
    Gen.reversible_heun_s_scalar_11_b2_z1_0_0 f g t0 t1 y0_0_0 y0_1_0 dW_0_0 dW_1_0 z0_0_0 z0_1_0 f0_0_0 f0_1_0 g0_0_0_0 g0_1_0_0
      = Gen.reversible_heun_s_scalar_11_z1_0_0 f g t0 t1 y0_0_0 dW_0_0 z0_0_0 f0_0_0 g0_0_0_0 ∧
    Gen.reversible_heun_s_scalar_11_b2_z1_1_0 f g t0 t1 y0_0_0 y0_1_0 dW_0_0 dW_1_0 z0_0_0 z0_1_0 f0_0_0 f0_1_0 g0_0_0_0 g0_1_0_0
      = Gen.reversible_heun_s_scalar_11_z1_0_0 f g t0 t1 y0_1_0 dW_1_0 z0_1_0 f0_1_0 g0_1_0_0 := by
  refine ⟨?_, ?_, ?_, ?_, ?_, ?_, ?_, ?_⟩ <;> simp only [Gen.reversible_heun_s_scalar_11_b2_f1_0_0, Gen.reversible_heun_s_scalar_11_b2_f1_1_0, Gen.reversible_heun_s_scalar_11_b2_g1_0_0_0, Gen.reversible_heun_s_scalar_11_b2_g1_1_0_0, Gen.reversible_heun_s_scalar_11_b2_y1_0_0, Gen.reversible_heun_s_scalar_11_b2_y1_1_0, Gen.reversible_heun_s_scalar_11_b2_z1_0_0, Gen.reversible_heun_s_scalar_11_b2_z1_1_0, Gen.reversible_heun_s_scalar_11_f1_0_0, Gen.reversible_heun_s_scalar_11_g1_0_0_0, Gen.reversible_heun_s_scalar_11_y1_0_0, Gen.reversible_heun_s_scalar_11_z1_0_0] <;> ring

/-- row 0 is unaffected by anything in row 1; swapping the rows of the inputs swaps the rows of the output -/
theorem reversible_heun_s_scalar_11_b2_no_crosstalk (f : K → K → K) (g : K → K → K) (t0 t1 y0_0_0 y0_1_0 dW_0_0 dW_1_0 z0_0_0 z0_1_0 f0_0_0 f0_1_0 g0_0_0_0 g0_1_0_0 y0_1_0' dW_1_0' z0_1_0' f0_1_0' g0_1_0_0' : K) :
    Gen.reversible_heun_s_scalar_11_b2_y1_0_0 f g t0 t1 y0_0_0 y0_1_0 dW_0_0 dW_1_0 z0_0_0 z0_1_0 f0_0_0 f0_1_0 g0_0_0_0 g0_1_0_0 = Gen.reversible_heun_s_scalar_11_b2_y1_0_0 f g t0 t1 y0_0_0 y0_1_0' dW_0_0 dW_1_0' z0_0_0 z0_1_0' f0_0_0 f0_1_0' g0_0_0_0 g0_1_0_0' ∧
    Gen.reversible_heun_s_scalar_11_b2_y1_1_0 f g t0 t1 y0_0_0 y0_1_0 dW_0_0 dW_1_0 z0_0_0 z0_1_0 f0_0_0 f0_1_0 g0_0_0_0 g0_1_0_0 = Gen.reversible_heun_s_scalar_11_b2_y1_0_0 f g t0 t1 y0_1_0 y0_0_0 dW_1_0 dW_0_0 z0_1_0 z0_0_0 f0_1_0 f0_0_0 g0_1_0_0 g0_0_0_0 := by
  constructor <;> simp only [Gen.reversible_heun_s_scalar_11_b2_f1_0_0, Gen.reversible_heun_s_scalar_11_b2_f1_1_0, Gen.reversible_heun_s_scalar_11_b2_g1_0_0_0, Gen.reversible_heun_s_scalar_11_b2_g1_1_0_0, Gen.reversible_heun_s_scalar_11_b2_y1_0_0, Gen.reversible_heun_s_scalar_11_b2_y1_1_0, Gen.reversible_heun_s_scalar_11_b2_z1_0_0, Gen.reversible_heun_s_scalar_11_b2_z1_1_0] <;> ring

/-- `srk_i_additive_11` with two batch rows: row b of the output = the one-row step on row b of the inputs -/
theorem srk_i_additive_11_b2_rowwise (f : K → K → K) (g : K → K) (t0 t1 y0_0_0 y0_1_0 dW_0_0 dW_1_0 U_0_0 U_1_0 : K) :
    Gen.srk_i_additive_11_b2_y1_0_0 f g t0 t1 y0_0_0 y0_1_0 dW_0_0 dW_1_0 U_0_0 U_1_0
      = Gen.srk_i_additive_11_y1_0_0 f g t0 t1 y0_0_0 dW_0_0 U_0_0 ∧
    Gen.srk_i_additive_11_b2_y1_1_0 f g t0 t1 y0_0_0 y0_1_0 dW_0_0 dW_1_0 U_0_0 U_1_0
      = Gen.srk_i_additive_11_y1_0_0 f g t0 t1 y0_1_0 dW_1_0 U_1_0 := by
  refine ⟨?_, ?_⟩ <;> simp only [Gen.srk_i_additive_11_b2_y1_0_0, Gen.srk_i_additive_11_b2_y1_1_0, Gen.srk_i_additive_11_y1_0_0] <;> ring

/-- row 0 is unaffected by anything in row 1; swapping the rows of the inputs swaps the rows of the output -/
theorem srk_i_additive_11_b2_no_crosstalk (f : K → K → K) (g : K → K) (t0 t1 y0_0_0 y0_1_0 dW_0_0 dW_1_0 U_0_0 U_1_0 y0_1_0' dW_1_0' U_1_0' : K) :
    Gen.srk_i_additive_11_b2_y1_0_0 f g t0 t1 y0_0_0 y0_1_0 dW_0_0 dW_1_0 U_0_0 U_1_0 = Gen.srk_i_additive_11_b2_y1_0_0 f g t0 t1 y0_0_0 y0_1_0' dW_0_0 dW_1_0' U_0_0 U_1_0' ∧
    Gen.srk_i_additive_11_b2_y1_1_0 f g t0 t1 y0_0_0 y0_1_0 dW_0_0 dW_1_0 U_0_0 U_1_0 = Gen.srk_i_additive_11_b2_y1_0_0 f g t0 t1 y0_1_0 y0_0_0 dW_1_0 dW_0_0 U_1_0 U_0_0 := by
  constructor <;> simp only [Gen.srk_i_additive_11_b2_y1_0_0, Gen.srk_i_additive_11_b2_y1_1_0] <;> ring

/-- `srk_i_diagonal_11` with two batch rows: row b of the output = the one-row step on row b of the inputs -/
theorem srk_i_diagonal_11_b2_rowwise (sqrt : K → K) (f : K → K → K) (g : K → K → K) (t0 t1 y0_0_0 y0_1_0 dW_0_0 dW_1_0 U_0_0 U_1_0 : K) :
    Gen.srk_i_diagonal_11_b2_y1_0_0 sqrt f g t0 t1 y0_0_0 y0_1_0 dW_0_0 dW_1_0 U_0_0 U_1_0
      = Gen.srk_i_diagonal_11_y1_0_0 sqrt f g t0 t1 y0_0_0 dW_0_0 U_0_0 ∧
    Gen.srk_i_diagonal_11_b2_y1_1_0 sqrt f g t0 t1 y0_0_0 y0_1_0 dW_0_0 dW_1_0 U_0_0 U_1_0
      = Gen.srk_i_diagonal_11_y1_0_0 sqrt f g t0 t1 y0_1_0 dW_1_0 U_1_0 := by
  refine ⟨?_, ?_⟩ <;> simp only [Gen.srk_i_diagonal_11_b2_y1_0_0, Gen.srk_i_diagonal_11_b2_y1_1_0, Gen.srk_i_diagonal_11_y1_0_0] <;> ring

/-- row 0 is unaffected by anything in row 1; swapping the rows of the inputs swaps the rows of the output -/
theorem srk_i_diagonal_11_b2_no_crosstalk (sqrt : K → K) (f : K → K → K) (g : K → K → K) (t0 t1 y0_0_0 y0_1_0 dW_0_0 dW_1_0 U_0_0 U_1_0 y0_1_0' dW_1_0' U_1_0' : K) :
    Gen.srk_i_diagonal_11_b2_y1_0_0 sqrt f g t0 t1 y0_0_0 y0_1_0 dW_0_0 dW_1_0 U_0_0 U_1_0 = Gen.srk_i_diagonal_11_b2_y1_0_0 sqrt f g t0 t1 y0_0_0 y0_1_0' dW_0_0 dW_1_0' U_0_0 U_1_0' ∧
    Gen.srk_i_diagonal_11_b2_y1_1_0 sqrt f g t0 t1 y0_0_0 y0_1_0 dW_0_0 dW_1_0 U_0_0 U_1_0 = Gen.srk_i_diagonal_11_b2_y1_0_0 sqrt f g t0 t1 y0_1_0 y0_0_0 dW_1_0 dW_0_0 U_1_0 U_0_0 := by
  constructor <;> simp only [Gen.srk_i_diagonal_11_b2_y1_0_0, Gen.srk_i_diagonal_11_b2_y1_1_0] <;> ring

/-- `srk_i_diagonal_22` with two batch rows: row b of the output = the one-row step on row b of the inputs -/
theorem srk_i_diagonal_22_b2_rowwise (sqrt : K → K) (f0 : K → K → K → K) (f1 : K → K → K → K) (g0 : K → K → K) (g1 : K → K → K) (t0 t1 y0_0_0 y0_0_1 y0_1_0 y0_1_1 dW_0_0 dW_0_1 dW_1_0 dW_1_1 U_0_0 U_0_1 U_1_0 U_1_1 : K) :
    Gen.srk_i_diagonal_22_b2_y1_0_0 sqrt f0 f1 g0 g1 t0 t1 y0_0_0 y0_0_1 y0_1_0 y0_1_1 dW_0_0 dW_0_1 dW_1_0 dW_1_1 U_0_0 U_0_1 U_1_0 U_1_1
      = Gen.srk_i_diagonal_22_y1_0_0 sqrt f0 f1 g0 g1 t0 t1 y0_0_0 y0_0_1 dW_0_0 dW_0_1 U_0_0 U_0_1 ∧
    Gen.srk_i_diagonal_22_b2_y1_0_1 sqrt f0 f1 g0 g1 t0 t1 y0_0_0 y0_0_1 y0_1_0 y0_1_1 dW_0_0 dW_0_1 dW_1_0 dW_1_1 U_0_0 U_0_1 U_1_0 U_1_1
      = Gen.srk_i_diagonal_22_y1_0_1 sqrt f0 f1 g0 g1 t0 t1 y0_0_0 y0_0_1 dW_0_0 dW_0_1 U_0_0 U_0_1 ∧
    Gen.srk_i_diagonal_22_b2_y1_1_0 sqrt f0 f1 g0 g1 t0 t1 y0_0_0 y0_0_1 y0_1_0 y0_1_1 dW_0_0 dW_0_1 dW_1_0 dW_1_1 U_0_0 U_0_1 U_1_0 U_1_1
      = Gen.srk_i_diagonal_22_y1_0_0 sqrt f0 f1 g0 g1 t0 t1 y0_1_0 y0_1_1 dW_1_0 dW_1_1 U_1_0 U_1_1 ∧
    Gen.srk_i_diagonal_22_b2_y1_1_1 sqrt f0 f1 g0 g1 t0 t1 y0_0_0 y0_0_1 y0_1_0 y0_1_1 dW_0_0 dW_0_1 dW_1_0 dW_1_1 U_0_0 U_0_1 U_1_0 U_1_1
      = Gen.srk_i_diagonal_22_y1_0_1 sqrt f0 f1 g0 g1 t0 t1 y0_1_0 y0_1_1 dW_1_0 dW_1_1 U_1_0 U_1_1 := by
  refine ⟨?_, ?_, ?_, ?_⟩ <;> simp only [Gen.srk_i_diagonal_22_b2_y1_0_0, Gen.srk_i_diagonal_22_b2_y1_0_1, Gen.srk_i_diagonal_22_b2_y1_1_0, Gen.srk_i_diagonal_22_b2_y1_1_1, Gen.srk_i_diagonal_22_y1_0_0, Gen.srk_i_diagonal_22_y1_0_1] <;> ring

/-- row 0 is unaffected by anything in row 1; swapping the rows of the inputs swaps the rows of the output -/
theorem srk_i_diagonal_22_b2_no_crosstalk (sqrt : K → K) (f0 : K → K → K → K) (f1 : K → K → K → K) (g0 : K → K → K) (g1 : K → K → K) (t0 t1 y0_0_0 y0_0_1 y0_1_0 y0_1_1 dW_0_0 dW_0_1 dW_1_0 dW_1_1 U_0_0 U_0_1 U_1_0 U_1_1 y0_1_0' y0_1_1' dW_1_0' dW_1_1' U_1_0' U_1_1' : K) :
    Gen.srk_i_diagonal_22_b2_y1_0_0 sqrt f0 f1 g0 g1 t0 t1 y0_0_0 y0_0_1 y0_1_0 y0_1_1 dW_0_0 dW_0_1 dW_1_0 dW_1_1 U_0_0 U_0_1 U_1_0 U_1_1 = Gen.srk_i_diagonal_22_b2_y1_0_0 sqrt f0 f1 g0 g1 t0 t1 y0_0_0 y0_0_1 y0_1_0' y0_1_1' dW_0_0 dW_0_1 dW_1_0' dW_1_1' U_0_0 U_0_1 U_1_0' U_1_1' ∧
    Gen.srk_i_diagonal_22_b2_y1_1_0 sqrt f0 f1 g0 g1 t0 t1 y0_0_0 y0_0_1 y0_1_0 y0_1_1 dW_0_0 dW_0_1 dW_1_0 dW_1_1 U_0_0 U_0_1 U_1_0 U_1_1 = Gen.srk_i_diagonal_22_b2_y1_0_0 sqrt f0 f1 g0 g1 t0 t1 y0_1_0 y0_1_1 y0_0_0 y0_0_1 dW_1_0 dW_1_1 dW_0_0 dW_0_1 U_1_0 U_1_1 U_0_0 U_0_1 := by
  constructor <;> simp only [Gen.srk_i_diagonal_22_b2_y1_0_0, Gen.srk_i_diagonal_22_b2_y1_0_1, Gen.srk_i_diagonal_22_b2_y1_1_0, Gen.srk_i_diagonal_22_b2_y1_1_1] <;> ring

/-- `srk_i_scalar_11` with two batch rows: row b of the output = the one-row step on row b of the inputs -/
theorem srk_i_scalar_11_b2_rowwise (sqrt : K → K) (f : K → K → K) (g : K → K → K) (t0 t1 y0_0_0 y0_1_0 dW_0_0 dW_1_0 U_0_0 U_1_0 : K) :
    Gen.srk_i_scalar_11_b2_y1_0_0 sqrt f g t0 t1 y0_0_0 y0_1_0 dW_0_0 dW_1_0 U_0_0 U_1_0
      = Gen.srk_i_scalar_11_y1_0_0 sqrt f g t0 t1 y0_0_0 dW_0_0 U_0_0 ∧
    Gen.srk_i_scalar_11_b2_y1_1_0 sqrt f g t0 t1 y0_0_0 y0_1_0 dW_0_0 dW_1_0 U_0_0 U_1_0
      = Gen.srk_i_scalar_11_y1_0_0 sqrt f g t0 t1 y0_1_0 dW_1_0 U_1_0 := by
  refine ⟨?_, ?_⟩ <;> simp only [Gen.srk_i_scalar_11_b2_y1_0_0, Gen.srk_i_scalar_11_b2_y1_1_0, Gen.srk_i_scalar_11_y1_0_0] <;> ring

/-- row 0 is unaffected by anything in row 1; swapping the rows of the inputs swaps the rows of the output -/
theorem srk_i_scalar_11_b2_no_crosstalk (sqrt : K → K) (f : K → K → K) (g : K → K → K) (t0 t1 y0_0_0 y0_1_0 dW_0_0 dW_1_0 U_0_0 U_1_0 y0_1_0' dW_1_0' U_1_0' : K) :
    Gen.srk_i_scalar_11_b2_y1_0_0 sqrt f g t0 t1 y0_0_0 y0_1_0 dW_0_0 dW_1_0 U_0_0 U_1_0 = Gen.srk_i_scalar_11_b2_y1_0_0 sqrt f g t0 t1 y0_0_0 y0_1_0' dW_0_0 dW_1_0' U_0_0 U_1_0' ∧
    Gen.srk_i_scalar_11_b2_y1_1_0 sqrt f g t0 t1 y0_0_0 y0_1_0 dW_0_0 dW_1_0 U_0_0 U_1_0 = Gen.srk_i_scalar_11_b2_y1_0_0 sqrt f g t0 t1 y0_1_0 y0_0_0 dW_1_0 dW_0_0 U_1_0 U_0_0 := by
  constructor <;> simp only [Gen.srk_i_scalar_11_b2_y1_0_0, Gen.srk_i_scalar_11_b2_y1_1_0] <;> ring

/-- bridge split on a (2,2) sample: element (i,j) of the child = the scalar split of the (i,j) elements -/
theorem split_HL_e22_elementwise (sqrt : K → K) (s m e W_0_0 W_0_1 W_1_0 W_1_1 H_0_0 H_0_1 H_1_0 H_1_1 X1_0_0 X1_0_1 X1_1_0 X1_1_1 X2_0_0 X2_0_1 X2_1_0 X2_1_1 : K) :
    Gen.split_HL_e22_W_0_0 sqrt s m e W_0_0 W_0_1 W_1_0 W_1_1 H_0_0 H_0_1 H_1_0 H_1_1 X1_0_0 X1_0_1 X1_1_0 X1_1_1 X2_0_0 X2_0_1 X2_1_0 X2_1_1 = Gen.split_HL_W sqrt s m e W_0_0 H_0_0 X1_0_0 X2_0_0 ∧
    Gen.split_HL_e22_W_0_1 sqrt s m e W_0_0 W_0_1 W_1_0 W_1_1 H_0_0 H_0_1 H_1_0 H_1_1 X1_0_0 X1_0_1 X1_1_0 X1_1_1 X2_0_0 X2_0_1 X2_1_0 X2_1_1 = Gen.split_HL_W sqrt s m e W_0_1 H_0_1 X1_0_1 X2_0_1 ∧
    Gen.split_HL_e22_W_1_0 sqrt s m e W_0_0 W_0_1 W_1_0 W_1_1 H_0_0 H_0_1 H_1_0 H_1_1 X1_0_0 X1_0_1 X1_1_0 X1_1_1 X2_0_0 X2_0_1 X2_1_0 X2_1_1 = Gen.split_HL_W sqrt s m e W_1_0 H_1_0 X1_1_0 X2_1_0 ∧
    Gen.split_HL_e22_W_1_1 sqrt s m e W_0_0 W_0_1 W_1_0 W_1_1 H_0_0 H_0_1 H_1_0 H_1_1 X1_0_0 X1_0_1 X1_1_0 X1_1_1 X2_0_0 X2_0_1 X2_1_0 X2_1_1 = Gen.split_HL_W sqrt s m e W_1_1 H_1_1 X1_1_1 X2_1_1 ∧
    Gen.split_HL_e22_H_0_0 sqrt s m e W_0_0 W_0_1 W_1_0 W_1_1 H_0_0 H_0_1 H_1_0 H_1_1 X1_0_0 X1_0_1 X1_1_0 X1_1_1 X2_0_0 X2_0_1 X2_1_0 X2_1_1 = Gen.split_HL_H sqrt s m e W_0_0 H_0_0 X1_0_0 X2_0_0 ∧
    Gen.split_HL_e22_H_0_1 sqrt s m e W_0_0 W_0_1 W_1_0 W_1_1 H_0_0 H_0_1 H_1_0 H_1_1 X1_0_0 X1_0_1 X1_1_0 X1_1_1 X2_0_0 X2_0_1 X2_1_0 X2_1_1 = Gen.split_HL_H sqrt s m e W_0_1 H_0_1 X1_0_1 X2_0_1 ∧
    Gen.split_HL_e22_H_1_0 sqrt s m e W_0_0 W_0_1 W_1_0 W_1_1 H_0_0 H_0_1 H_1_0 H_1_1 X1_0_0 X1_0_1 X1_1_0 X1_1_1 X2_0_0 X2_0_1 X2_1_0 X2_1_1 = Gen.split_HL_H sqrt s m e W_1_0 H_1_0 X1_1_0 X2_1_0 ∧
    Gen.split_HL_e22_H_1_1 sqrt s m e W_0_0 W_0_1 W_1_0 W_1_1 H_0_0 H_0_1 H_1_0 H_1_1 X1_0_0 X1_0_1 X1_1_0 X1_1_1 X2_0_0 X2_0_1 X2_1_0 X2_1_1 = Gen.split_HL_H sqrt s m e W_1_1 H_1_1 X1_1_1 X2_1_1 := by
  refine ⟨?_, ?_, ?_, ?_, ?_, ?_, ?_, ?_⟩ <;> simp only [Gen.split_HL_H, Gen.split_HL_W, Gen.split_HL_e22_H_0_0, Gen.split_HL_e22_H_0_1, Gen.split_HL_e22_H_1_0, Gen.split_HL_e22_H_1_1, Gen.split_HL_e22_W_0_0, Gen.split_HL_e22_W_0_1, Gen.split_HL_e22_W_1_0, Gen.split_HL_e22_W_1_1] <;> ring

/-- bridge split on a (2,2) sample: element (i,j) of the child = the scalar split of the (i,j) elements -/
theorem split_HR_e22_elementwise (sqrt : K → K) (s m e W_0_0 W_0_1 W_1_0 W_1_1 H_0_0 H_0_1 H_1_0 H_1_1 X1_0_0 X1_0_1 X1_1_0 X1_1_1 X2_0_0 X2_0_1 X2_1_0 X2_1_1 : K) :
    Gen.split_HR_e22_W_0_0 sqrt s m e W_0_0 W_0_1 W_1_0 W_1_1 H_0_0 H_0_1 H_1_0 H_1_1 X1_0_0 X1_0_1 X1_1_0 X1_1_1 X2_0_0 X2_0_1 X2_1_0 X2_1_1 = Gen.split_HR_W sqrt s m e W_0_0 H_0_0 X1_0_0 X2_0_0 ∧
    Gen.split_HR_e22_W_0_1 sqrt s m e W_0_0 W_0_1 W_1_0 W_1_1 H_0_0 H_0_1 H_1_0 H_1_1 X1_0_0 X1_0_1 X1_1_0 X1_1_1 X2_0_0 X2_0_1 X2_1_0 X2_1_1 = Gen.split_HR_W sqrt s m e W_0_1 H_0_1 X1_0_1 X2_0_1 ∧
    Gen.split_HR_e22_W_1_0 sqrt s m e W_0_0 W_0_1 W_1_0 W_1_1 H_0_0 H_0_1 H_1_0 H_1_1 X1_0_0 X1_0_1 X1_1_0 X1_1_1 X2_0_0 X2_0_1 X2_1_0 X2_1_1 = Gen.split_HR_W sqrt s m e W_1_0 H_1_0 X1_1_0 X2_1_0 ∧
    Gen.split_HR_e22_W_1_1 sqrt s m e W_0_0 W_0_1 W_1_0 W_1_1 H_0_0 H_0_1 H_1_0 H_1_1 X1_0_0 X1_0_1 X1_1_0 X1_1_1 X2_0_0 X2_0_1 X2_1_0 X2_1_1 = Gen.split_HR_W sqrt s m e W_1_1 H_1_1 X1_1_1 X2_1_1 ∧
    Gen.split_HR_e22_H_0_0 sqrt s m e W_0_0 W_0_1 W_1_0 W_1_1 H_0_0 H_0_1 H_1_0 H_1_1 X1_0_0 X1_0_1 X1_1_0 X1_1_1 X2_0_0 X2_0_1 X2_1_0 X2_1_1 = Gen.split_HR_H sqrt s m e W_0_0 H_0_0 X1_0_0 X2_0_0 ∧
    Gen.split_HR_e22_H_0_1 sqrt s m e W_0_0 W_0_1 W_1_0 W_1_1 H_0_0 H_0_1 H_1_0 H_1_1 X1_0_0 X1_0_1 X1_1_0 X1_1_1 X2_0_0 X2_0_1 X2_1_0 X2_1_1 = Gen.split_HR_H sqrt s m e W_0_1 H_0_1 X1_0_1 X2_0_1 ∧
    Gen.split_HR_e22_H_1_0 sqrt s m e W_0_0 W_0_1 W_1_0 W_1_1 H_0_0 H_0_1 H_1_0 H_1_1 X1_0_0 X1_0_1 X1_1_0 X1_1_1 X2_0_0 X2_0_1 X2_1_0 X2_1_1 = Gen.split_HR_H sqrt s m e W_1_0 H_1_0 X1_1_0 X2_1_0 ∧
    Gen.split_HR_e22_H_1_1 sqrt s m e W_0_0 W_0_1 W_1_0 W_1_1 H_0_0 H_0_1 H_1_0 H_1_1 X1_0_0 X1_0_1 X1_1_0 X1_1_1 X2_0_0 X2_0_1 X2_1_0 X2_1_1 = Gen.split_HR_H sqrt s m e W_1_1 H_1_1 X1_1_1 X2_1_1 := by
  refine ⟨?_, ?_, ?_, ?_, ?_, ?_, ?_, ?_⟩ <;> simp only [Gen.split_HR_H, Gen.split_HR_W, Gen.split_HR_e22_H_0_0, Gen.split_HR_e22_H_0_1, Gen.split_HR_e22_H_1_0, Gen.split_HR_e22_H_1_1, Gen.split_HR_e22_W_0_0, Gen.split_HR_e22_W_0_1, Gen.split_HR_e22_W_1_0, Gen.split_HR_e22_W_1_1] <;> ring

/-- bridge split on a (2,2) sample: element (i,j) of the child = the scalar split of the (i,j) elements -/
theorem split_WL_e22_elementwise (sqrt : K → K) (s m e W_0_0 W_0_1 W_1_0 W_1_1 X1_0_0 X1_0_1 X1_1_0 X1_1_1 : K) :
    Gen.split_WL_e22_W_0_0 sqrt s m e W_0_0 W_0_1 W_1_0 W_1_1 X1_0_0 X1_0_1 X1_1_0 X1_1_1 = Gen.split_WL_W sqrt s m e W_0_0 X1_0_0 ∧
    Gen.split_WL_e22_W_0_1 sqrt s m e W_0_0 W_0_1 W_1_0 W_1_1 X1_0_0 X1_0_1 X1_1_0 X1_1_1 = Gen.split_WL_W sqrt s m e W_0_1 X1_0_1 ∧
    Gen.split_WL_e22_W_1_0 sqrt s m e W_0_0 W_0_1 W_1_0 W_1_1 X1_0_0 X1_0_1 X1_1_0 X1_1_1 = Gen.split_WL_W sqrt s m e W_1_0 X1_1_0 ∧
    Gen.split_WL_e22_W_1_1 sqrt s m e W_0_0 W_0_1 W_1_0 W_1_1 X1_0_0 X1_0_1 X1_1_0 X1_1_1 = Gen.split_WL_W sqrt s m e W_1_1 X1_1_1 := by
  refine ⟨?_, ?_, ?_, ?_⟩ <;> simp only [Gen.split_WL_W, Gen.split_WL_e22_W_0_0, Gen.split_WL_e22_W_0_1, Gen.split_WL_e22_W_1_0, Gen.split_WL_e22_W_1_1] <;> ring

/-- bridge split on a (2,2) sample: element (i,j) of the child = the scalar split of the (i,j) elements -/
theorem split_WR_e22_elementwise (sqrt : K → K) (s m e W_0_0 W_0_1 W_1_0 W_1_1 X1_0_0 X1_0_1 X1_1_0 X1_1_1 : K) :
    Gen.split_WR_e22_W_0_0 sqrt s m e W_0_0 W_0_1 W_1_0 W_1_1 X1_0_0 X1_0_1 X1_1_0 X1_1_1 = Gen.split_WR_W sqrt s m e W_0_0 X1_0_0 ∧
    Gen.split_WR_e22_W_0_1 sqrt s m e W_0_0 W_0_1 W_1_0 W_1_1 X1_0_0 X1_0_1 X1_1_0 X1_1_1 = Gen.split_WR_W sqrt s m e W_0_1 X1_0_1 ∧
    Gen.split_WR_e22_W_1_0 sqrt s m e W_0_0 W_0_1 W_1_0 W_1_1 X1_0_0 X1_0_1 X1_1_0 X1_1_1 = Gen.split_WR_W sqrt s m e W_1_0 X1_1_0 ∧
    Gen.split_WR_e22_W_1_1 sqrt s m e W_0_0 W_0_1 W_1_0 W_1_1 X1_0_0 X1_0_1 X1_1_0 X1_1_1 = Gen.split_WR_W sqrt s m e W_1_1 X1_1_1 := by
  refine ⟨?_, ?_, ?_, ?_⟩ <;> simp only [Gen.split_WR_W, Gen.split_WR_e22_W_0_0, Gen.split_WR_e22_W_0_1, Gen.split_WR_e22_W_1_0, Gen.split_WR_e22_W_1_1] <;> ring

end C20
