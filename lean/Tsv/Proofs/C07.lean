/-
C07 (cache clause, for every history): the number of cached entries never exceeds `cache_size`.

`BMCache.insert_inv` shows one `__setitem__` keeps the invariant; here it is pushed through everything `__call__` does to
the cache (`cacheDown`, `cachedValue`, `foldPieces`, `call`) and through arbitrary query sequences.
The other clauses of C07 (no RecursionError / AttributeError / non-termination, Python stack depth independent of the
number of queries) are about the interpreter running the real code: they are decided on the real objects
(vlib/oracles_bm.robustness_search, long solver-shaped histories, adversarial sub-tolerance intervals) and through the
model correspondence (the model's fuel never runs out on corresponding runs); see DESIGN §4 C07.
-/
import Tsv.Proofs.BMCache
import Tsv.Proofs.C05

namespace C07
open Model.BM BMCache

variable {T V : Type} (o : Ops T V)

theorem cacheDown_inv : ∀ (sub : Tree T) (v : V × V) (q rest : Path) (ch : Cache V) {w ch'},
    cacheDown o sub v q rest ch = some (w, ch') → Inv ch → Inv ch' ∧ ch'.cap = ch.cap
  | _, _, _, [], ch, w, ch', h, hi => by
      simp only [cacheDown, Option.some.injEq, Prod.mk.injEq] at h
      obtain ⟨_, rfl⟩ := h; exact ⟨hi, rfl⟩
  | Tree.leaf _ _, _, _, _ :: _, _, _, _, h, _ => by simp [cacheDown] at h
  | Tree.node s e m l r, v, q, b :: rest, ch, w, ch', h, hi => by
      simp only [cacheDown] at h
      obtain ⟨h1, h2⟩ := cacheDown_inv _ _ _ rest _ h (insert_inv ch _ _ hi)
      exact ⟨h1, h2.trans (insert_cap ch _ _)⟩

theorem cachedValue_inv {t : Tree T} {top : V × V} {ch ch' : Cache V} {p : Path} {v : V × V}
    (h : cachedValue o t top ch p = some (v, ch')) (hi : Inv ch) : Inv ch' ∧ ch'.cap = ch.cap := by
  unfold cachedValue at h
  simp only at h
  split at h
  · exact cacheDown_inv o _ _ _ _ _ h hi
  · simp at h

theorem foldPieces_inv {t : Tree T} {top : V × V} {ta : T} : ∀ {ps : List Path} {ch ch' : Cache V} {acc wh : V × V},
    foldPieces o t top ta ch acc ps = some (wh, ch') → Inv ch → Inv ch' ∧ ch'.cap = ch.cap
  | [], ch, ch', acc, wh, h, hi => by
      simp only [foldPieces, Option.some.injEq, Prod.mk.injEq] at h
      obtain ⟨_, rfl⟩ := h; exact ⟨hi, rfl⟩
  | p :: more, ch, ch', acc, wh, h, hi => by
      simp only [foldPieces] at h
      split at h
      · rename_i v ch1 nd hcv _
        obtain ⟨i1, c1⟩ := cachedValue_inv o hcv hi
        obtain ⟨i2, c2⟩ := foldPieces_inv h i1
        exact ⟨i2, c2.trans c1⟩
      · simp at h

variable (c : Cfg T) (a : Arith T)

theorem depTree_cache {fuel : Nat} {st st' : State T V} {dt : T} (h : depTree c a fuel st dt = some st') :
    st'.cache = st.cache := by
  unfold depTree at h
  simp only at h
  split at h
  · simp at h
  · simp only [Option.some.injEq] at h; subst h; rfl

/-- one `__call__` keeps the cache within its capacity -/
theorem call_cache_inv {fuel : Nat} {st st' : State T V} {ta tb : T} {ans : Ans V}
    (h : call c o a fuel st ta tb = some (st', ans)) (hi : Inv st.cache) :
    Inv st'.cache ∧ st'.cache.cap = st.cache.cap := by
  unfold call at h
  extract_lets +onlyGivenNames t0 t1 ta1 tb1 ta2 tb2 at h
  split at h
  · simp at h
  · split at h
    · simp only [Option.some.injEq, Prod.mk.injEq] at h
      obtain ⟨rfl, _⟩ := h; exact ⟨hi, rfl⟩
    · split at h
      · simp at h
      · rename_i st1 hst1
        have hc1 : st1.cache = st.cache := by
          unfold statsPhase at hst1
          split at hst1
          · simp only at hst1
            split at hst1
            · split at hst1
              · have h2 := depTree_cache c a hst1
                exact h2
              · simp only [Option.some.injEq] at hst1; subst hst1; rfl
            · simp only [Option.some.injEq] at hst1; subst hst1; rfl
          · simp only [Option.some.injEq] at hst1; subst hst1; rfl
        split at h
        · simp at h
        · split at h
          · simp at h
          · split at h
            · simp at h
            · rename_i v0 ch0 hcv
              split at h
              · simp at h
              · rename_i wh ch' hfold
                simp only [Option.some.injEq, Prod.mk.injEq] at h
                obtain ⟨rfl, _⟩ := h
                obtain ⟨i1, c1⟩ := cachedValue_inv o hcv (hc1 ▸ hi)
                obtain ⟨i2, c2⟩ := foldPieces_inv o hfold i1
                exact ⟨i2, by rw [c2, c1, hc1]⟩

/-- **Bounded cache, every history.** After any sequence of queries — valid or not, any order, any number — an object
created with `cache_size = n` holds at most `n` cached entries. -/
theorem cache_bounded (n : Nat) : ∀ (qs : List (Nat × T × T)) (st : State T V), Inv st.cache → st.cache.cap = some n →
    ∀ st', (qs.foldl (fun s q => match call c o a q.1 s q.2.1 q.2.2 with | some (s', _) => s' | none => s) st) = st' →
    st'.cache.vals.length ≤ n
  | [], st, hi, hc, st', h => by
      simp only [List.foldl_nil] at h; subst h; exact vals_le_cap hi n hc
  | q :: qs, st, hi, hc, st', h => by
      simp only [List.foldl_cons] at h
      cases hq : call c o a q.1 st q.2.1 q.2.2 with
      | none => rw [hq] at h; exact cache_bounded n qs st hi hc st' h
      | some r =>
          rw [hq] at h
          obtain ⟨i1, c1⟩ := call_cache_inv o c a (st' := r.1) (ans := r.2) hq hi
          exact cache_bounded n qs r.1 i1 (c1.trans hc) st' h

end C07
