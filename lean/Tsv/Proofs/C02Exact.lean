/-
C02 (exact clause): "Euler and derivative-based Milstein steps equal their textbook formulas exactly".
`g_d1` is the symbol the tracer introduces for ∂g/∂y when the library's own autograd call
(`ForwardSDE.g_prod_and_gdg_prod_*`, `misc.vjp`) is executed symbolically.
-/
import Tsv.Gen.Steps
import Mathlib.Tactic.Ring

namespace C02
set_option linter.unusedSectionVars false
variable {K : Type} [Field K] [LinearOrder K]

/-- Euler–Maruyama, every noise type at d = m = 1. -/
theorem euler_step_eq (f g : K → K → K) (ga : K → K) (t0 t1 y0 dW : K) :
    Gen.euler_i_diagonal_11_y1_0_0 f g t0 t1 y0 dW = y0 + f t0 y0 * (t1 - t0) + g t0 y0 * dW ∧
    Gen.euler_i_scalar_11_y1_0_0 f g t0 t1 y0 dW = y0 + f t0 y0 * (t1 - t0) + g t0 y0 * dW ∧
    Gen.euler_i_general_11_y1_0_0 f g t0 t1 y0 dW = y0 + f t0 y0 * (t1 - t0) + g t0 y0 * dW ∧
    Gen.euler_i_additive_11_y1_0_0 f ga t0 t1 y0 dW = y0 + f t0 y0 * (t1 - t0) + ga t0 * dW := by
  refine ⟨?_, ?_, ?_, ?_⟩ <;>
    simp only [Gen.euler_i_diagonal_11_y1_0_0, Gen.euler_i_scalar_11_y1_0_0, Gen.euler_i_general_11_y1_0_0,
      Gen.euler_i_additive_11_y1_0_0]

/-- Euler–Maruyama, general (matrix) noise, d = m = 2: `y + f dt + G ΔW` component-wise. -/
theorem euler_step_eq_general22 (f0 f1 g00 g01 g10 g11 : K → K → K → K) (t0 t1 ya yb wa wb : K) :
    Gen.euler_i_general_22_y1_0_0 f0 f1 g00 g01 g10 g11 t0 t1 ya yb wa wb
      = ya + f0 t0 ya yb * (t1 - t0) + (g00 t0 ya yb * wa + g01 t0 ya yb * wb) ∧
    Gen.euler_i_general_22_y1_0_1 f0 f1 g00 g01 g10 g11 t0 t1 ya yb wa wb
      = yb + f1 t0 ya yb * (t1 - t0) + (g10 t0 ya yb * wa + g11 t0 ya yb * wb) := by
  constructor <;> simp only [Gen.euler_i_general_22_y1_0_0, Gen.euler_i_general_22_y1_0_1]

/-- Itô Milstein (derivative-based): `y + f h + g ΔW + ½ g ∂g (ΔW² − h)`. -/
theorem milstein_ito_step_eq (f g g' : K → K → K) (t0 t1 y0 dW : K) :
    Gen.milstein_i_diagonal_11_y1_0_0 f g g' t0 t1 y0 dW
      = y0 + f t0 y0 * (t1 - t0) + g t0 y0 * dW + (1 / 2) * g t0 y0 * g' t0 y0 * (dW ^ 2 - (t1 - t0)) ∧
    Gen.milstein_i_scalar_11_y1_0_0 f g g' t0 t1 y0 dW
      = y0 + f t0 y0 * (t1 - t0) + g t0 y0 * dW + (1 / 2) * g t0 y0 * g' t0 y0 * (dW ^ 2 - (t1 - t0)) := by
  constructor <;> simp only [Gen.milstein_i_diagonal_11_y1_0_0, Gen.milstein_i_scalar_11_y1_0_0] <;> ring

/-- Stratonovich Milstein (derivative-based): `y + f h + g ΔW + ½ g ∂g ΔW²`. -/
theorem milstein_strat_step_eq (f g g' : K → K → K) (t0 t1 y0 dW : K) :
    Gen.milstein_s_diagonal_11_y1_0_0 f g g' t0 t1 y0 dW
      = y0 + f t0 y0 * (t1 - t0) + g t0 y0 * dW + (1 / 2) * g t0 y0 * g' t0 y0 * dW ^ 2 ∧
    Gen.milstein_s_scalar_11_y1_0_0 f g g' t0 t1 y0 dW
      = y0 + f t0 y0 * (t1 - t0) + g t0 y0 * dW + (1 / 2) * g t0 y0 * g' t0 y0 * dW ^ 2 := by
  constructor <;> simp only [Gen.milstein_s_diagonal_11_y1_0_0, Gen.milstein_s_scalar_11_y1_0_0] <;> ring

/-- additive noise: Milstein degenerates to Euler (`∂g/∂y = 0`). -/
theorem milstein_additive_eq (f : K → K → K) (ga : K → K) (t0 t1 y0 dW : K) :
    Gen.milstein_i_additive_11_y1_0_0 f ga t0 t1 y0 dW = y0 + f t0 y0 * (t1 - t0) + ga t0 * dW ∧
    Gen.milstein_s_additive_11_y1_0_0 f ga t0 t1 y0 dW = y0 + f t0 y0 * (t1 - t0) + ga t0 * dW := by
  constructor <;> simp only [Gen.milstein_i_additive_11_y1_0_0, Gen.milstein_s_additive_11_y1_0_0] <;> ring

end C02
