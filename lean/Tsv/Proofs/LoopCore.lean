/-
Core lemmas about the fixed-step loop model (`Model/Loop.lean`), shared by C12 and C13.
Times form an arbitrary linear order; `plus` (= `curr_t ↦ curr_t + dt`) is an arbitrary function, so nothing here
uses a law of real arithmetic: the statements hold for IEEE doubles (NaN-free) as they stand.
-/
import Tsv.Model.Loop
import Mathlib.Order.Defs.LinearOrder
import Mathlib.Order.Basic
import Mathlib.Order.Lattice
import Mathlib.Tactic.Common

namespace LoopCore
open Model.Loop

variable {T Y X : Type} [LinearOrder T]
variable (plus : T → T) (tEnd : T) (step : T → T → Y → X → Y × X) (interp : T → Y → T → Y → T → Y)

theorem pmin_eq_min (a b : T) : pmin a b = min a b := by
  unfold pmin
  split
  · rename_i h; exact (min_eq_right (le_of_lt h)).symm
  · rename_i h; exact (min_eq_left (not_lt.mp h)).symm

/-- relational (fuel-free) semantics of `while curr_t < out_t`, with the list of steps taken -/
inductive Reaches : T → St T Y X → St T Y X → List (T × T) → Prop
  | stop {out s} : ¬ s.ct < out → Reaches out s s []
  | step {out s s' lg} : s.ct < out → Reaches out (iter plus tEnd step s) s' lg →
      Reaches out s s' ((s.ct, pmin (plus s.ct) tEnd) :: lg)

variable {plus tEnd step}

theorem advance_reaches : ∀ (fuel : Nat) (out : T) (s : St T Y X) (log : List (T × T)) {s' log'},
    advance plus tEnd step fuel out s log = some (s', log') →
    ∃ lg, log' = log ++ lg ∧ Reaches plus tEnd step out s s' lg
  | 0, _, _, _, _, _, h => by simp [advance] at h
  | fuel + 1, out, s, log, s', log', h => by
      unfold advance at h
      split at h
      · rename_i hlt
        obtain ⟨lg, hlog, hr⟩ := advance_reaches fuel out _ _ h
        exact ⟨(s.ct, pmin (plus s.ct) tEnd) :: lg, by simp [hlog], Reaches.step hlt hr⟩
      · rename_i hnl
        simp only [Option.some.injEq, Prod.mk.injEq] at h
        obtain ⟨rfl, rfl⟩ := h
        exact ⟨[], by simp, Reaches.stop hnl⟩

theorem reaches_advance {out : T} {s s' : St T Y X} {lg} (h : Reaches plus tEnd step out s s' lg) :
    ∃ fuel, ∀ log, advance plus tEnd step fuel out s log = some (s', log ++ lg) := by
  induction h with
  | stop hnl => exact ⟨1, fun log => by simp [advance, hnl]⟩
  | step hlt _ ih =>
      obtain ⟨fuel, hf⟩ := ih
      exact ⟨fuel + 1, fun log => by simp [advance, hlt, hf, List.append_assoc]⟩

/-- the loop is deterministic -/
theorem reaches_functional {out : T} {s a b : St T Y X} {la lb}
    (ha : Reaches plus tEnd step out s a la) (hb : Reaches plus tEnd step out s b lb) : a = b ∧ la = lb := by
  induction ha generalizing b lb with
  | stop hnl =>
      cases hb with
      | stop _ => exact ⟨rfl, rfl⟩
      | step hlt _ => exact absurd hlt hnl
  | step hlt _ ih =>
      cases hb with
      | stop hnl => exact absurd hlt hnl
      | step _ hr => obtain ⟨e1, e2⟩ := ih hr; exact ⟨e1, by rw [e2]⟩

/-- advancing to `out1` and then on to `out2 ≥ out1` is advancing to `out2` -/
theorem reaches_trans {out1 out2 : T} (hle : out1 ≤ out2) {s s1 s2 : St T Y X} {l1 l2}
    (h1 : Reaches plus tEnd step out1 s s1 l1) (h2 : Reaches plus tEnd step out2 s1 s2 l2) :
    Reaches plus tEnd step out2 s s2 (l1 ++ l2) := by
  induction h1 with
  | stop _ => simpa using h2
  | step hlt _ ih => exact Reaches.step (lt_of_lt_of_le hlt hle) (ih h2)

/-- conversely, a run to `out2` passes through the state reached at `out1 ≤ out2` -/
theorem reaches_split {out1 out2 : T} (hle : out1 ≤ out2) {s s1 s2 : St T Y X} {l1 l}
    (h1 : Reaches plus tEnd step out1 s s1 l1) (h : Reaches plus tEnd step out2 s s2 l) :
    ∃ l2, l = l1 ++ l2 ∧ Reaches plus tEnd step out2 s1 s2 l2 := by
  induction h1 generalizing l with
  | stop _ => exact ⟨l, by simp, h⟩
  | step hlt _ ih =>
      cases h with
      | stop hnl => exact absurd (lt_of_lt_of_le hlt hle) hnl
      | step _ hr => obtain ⟨l2, e, r⟩ := ih hr; exact ⟨l2, by simp [e], r⟩

/-- consecutive `(a,b)` pairs from `a0` to `b0` -/
def ChainLog : T → List (T × T) → T → Prop
  | a, [], b => a = b
  | a, (x, y) :: l, b => x = a ∧ ChainLog y l b

/-- the steps taken tile `[curr_t at entry, curr_t at exit]` contiguously -/
theorem reaches_chain {out : T} {s s' : St T Y X} {lg} (h : Reaches plus tEnd step out s s' lg) :
    ChainLog s.ct lg s'.ct := by
  induction h with
  | stop _ => rfl
  | step _ _ ih => exact ⟨rfl, by simpa [iter] using ih⟩

/-- every step ends at `min (plus t) tEnd`: step end points never exceed `tEnd` -/
theorem reaches_le_end {out : T} {s s' : St T Y X} {lg} (h : Reaches plus tEnd step out s s' lg)
    (hs : s.ct ≤ tEnd) : s'.ct ≤ tEnd := by
  induction h with
  | stop _ => exact hs
  | step _ _ ih => apply ih; simp only [iter, pmin_eq_min]; exact min_le_right _ _

/-- advancing to `tEnd` from inside the interval ends exactly at `tEnd` -/
theorem reaches_end_exact {s s' : St T Y X} {lg} (h : Reaches plus tEnd step tEnd s s' lg) (hs : s.ct ≤ tEnd) :
    s'.ct = tEnd := by
  have hle := reaches_le_end h hs
  have hge : ¬ s'.ct < tEnd := by
    clear hle hs
    induction h with
    | stop hnl => exact hnl
    | step _ _ ih => exact ih
  exact le_antisymm hle (not_lt.mp hge)

/-- the exit state satisfies the loop exit condition -/
theorem reaches_exit {out : T} {s s' : St T Y X} {lg} (h : Reaches plus tEnd step out s s' lg) : ¬ s'.ct < out := by
  induction h with
  | stop hnl => exact hnl
  | step _ _ ih => exact ih

/-! ### the output list -/

variable {interp}

/-- what `outputs` computes: each output time is reached from the PREVIOUS exit state -/
inductive Outs : List T → St T Y X → List Y → St T Y X → List (T × T) → Prop
  | nil {s} : Outs [] s [] s []
  | cons {out rest s s' sf ys l1 l2} : Reaches plus tEnd step out s s' l1 → Outs rest s' ys sf l2 →
      Outs (out :: rest) s (interp s'.pt s'.py s'.ct s'.cy out :: ys) sf (l1 ++ l2)

theorem outputs_outs : ∀ (fuel : Nat) (ts : List T) (s : St T Y X) (log) {ys sf lf},
    outputs plus tEnd step interp fuel ts s log = some (ys, sf, lf) →
    ∃ lg, lf = log ++ lg ∧ Outs (plus := plus) (tEnd := tEnd) (step := step) (interp := interp) ts s ys sf lg
  | _, [], s, log, ys, sf, lf, h => by
      simp only [outputs, Option.some.injEq, Prod.mk.injEq] at h
      obtain ⟨rfl, rfl, rfl⟩ := h
      exact ⟨[], by simp, Outs.nil⟩
  | fuel, out :: rest, s, log, ys, sf, lf, h => by
      unfold outputs at h
      split at h
      · simp at h
      · rename_i s' log' hadv
        split at h
        · simp at h
        · rename_i ys' sf' lf' hrest
          simp only [Option.some.injEq, Prod.mk.injEq] at h
          obtain ⟨rfl, rfl, rfl⟩ := h
          obtain ⟨l1, e1, r1⟩ := advance_reaches fuel out s log hadv
          obtain ⟨l2, e2, r2⟩ := outputs_outs fuel rest s' log' hrest
          exact ⟨l1 ++ l2, by simp [e2, e1, List.append_assoc], Outs.cons r1 r2⟩

/-- **Each output depends only on the initial loop state and on its own time**: whatever the other output times
are, the value reported at `t` is the interpolant at the state first reached with `curr_t ≥ t`. -/
theorem outs_spec {ts : List T} {s sf : St T Y X} {ys lg}
    (h : Outs (plus := plus) (tEnd := tEnd) (step := step) (interp := interp) ts s ys sf lg)
    (hsorted : ts.Pairwise (· ≤ ·)) :
    ys.length = ts.length ∧
    ∀ (i : Nat) (hi : i < ts.length) (hy : i < ys.length), ∃ s' l,
      Reaches plus tEnd step ts[i] s s' l ∧ ys[i] = interp s'.pt s'.py s'.ct s'.cy ts[i] := by
  induction h with
  | nil => exact ⟨rfl, fun i hi => absurd hi (by simp)⟩
  | @cons out rest s s' sf ys l1 l2 hr _ ih =>
      rw [List.pairwise_cons] at hsorted
      obtain ⟨hlen, hall⟩ := ih hsorted.2
      refine ⟨by simp [hlen], ?_⟩
      intro i hi hy
      cases i with
      | zero => exact ⟨s', l1, hr, rfl⟩
      | succ j =>
          have hj : j < rest.length := by simpa using hi
          obtain ⟨s'', l, hr', hy'⟩ := hall j hj (by simpa using hy)
          have hle : out ≤ rest[j] := hsorted.1 _ (List.getElem_mem hj)
          exact ⟨s'', l1 ++ l, reaches_trans hle hr hr', by simpa using hy'⟩

/-- the total list of solver steps is the list of steps of a direct run to the LAST output time:
it does not depend on the interior output times. -/
theorem outs_log {ts : List T} {s sf : St T Y X} {ys lg}
    (h : Outs (plus := plus) (tEnd := tEnd) (step := step) (interp := interp) ts s ys sf lg)
    (hsorted : ts.Pairwise (· ≤ ·)) (last : T) (hlast : ts.getLast? = some last) :
    Reaches plus tEnd step last s sf lg := by
  induction h with
  | nil => simp at hlast
  | @cons out rest s s' sf ys l1 l2 hr hrest ih =>
      rw [List.pairwise_cons] at hsorted
      cases rest with
      | nil =>
          cases hrest
          simp at hlast
          subst hlast
          simpa using hr
      | cons r rs =>
          have hl : (r :: rs).getLast? = some last := by simpa [List.getLast?_cons_cons] using hlast
          have hle : out ≤ last := hsorted.1 _ (List.mem_of_getLast? hl)
          exact reaches_trans hle hr (ih hsorted.2 hl)

end LoopCore
