/-
Non-vacuity of `C03Model.chen_W_any_history` / `chen_U_any_history`: a concrete object over ℚ (exact arithmetic, regenerated bridge
kernels with `sqrt := fun _ => 1`, noise 1/3 and -2/5), the three queries (0,1/2), (1/2,1), (0,1) made in that order, every
hypothesis of the theorems discharged, and the two conclusions obtained from the theorems (not by evaluation).
-/
import Tsv.Proofs.C03Model
import Mathlib.Tactic.NormNum

namespace C03ModelEx
open Model.BM BMCore C05 C03Model

def cQ : Cfg ℚ := { halfway := false, rnd := id, half := fun s e => (e + s) / 2, lt := fun a b => decide (a < b), eq := fun a b => decide (a = b) }
def oQ : Ops ℚ ℚ := genOps (fun _ => 1) (fun _ b => if b then -2/5 else 1/3)
def aQ : Arith ℚ :=
  { sub := (· - ·), avg := fun d av n => (d + av * (n - 1)) / n, below := fun av td => decide (av < td / 2),
    tmin := fun a b => if b < a then b else a, piece := fun td cs => td * cs * 4 / 5, mid2 := fun s e => (e + s) / 2 }
def st0 : State ℚ ℚ := State.mk (Tree.leaf 0 1) [] ⟨some 3, [], []⟩ (7/10, 1/5) (-100) 0 1 none (some 3)

theorem soundQ : Sound cQ where
  lt := fun _ _ => rfl
  eq := fun _ _ => rfl
  rnd_idem := fun _ => rfl
  rnd_mono := fun _ _ h => h
  mid_inside := fun h => by simp [cQ] at h

theorem good0 : Good (c := cQ) oQ st0 := ⟨⟨by norm_num, rfl, rfl⟩, fun kv hm => by simp [st0] at hm⟩

def r1 := call cQ oQ aQ 50 st0 0 (1/2)
theorem r1_some : r1.isSome = true := by decide +kernel
def st1 := (r1.get r1_some).1
def r2 := call cQ oQ aQ 50 st1 (1/2) 1
theorem r2_some : r2.isSome = true := by decide +kernel
def st2 := (r2.get r2_some).1
def r3 := call cQ oQ aQ 50 st2 0 1
theorem r3_some : r3.isSome = true := by decide +kernel
def st3 := (r3.get r3_some).1

theorem e1 : call cQ oQ aQ 50 st0 0 (1/2) = some (st1, (r1.get r1_some).2) := by
  show r1 = _; simp [st1]
theorem e2 : call cQ oQ aQ 50 st1 (1/2) 1 = some (st2, (r2.get r2_some).2) := by
  show r2 = _; simp [st2]
theorem e3 : call cQ oQ aQ 50 st2 0 1 = some (st3, (r3.get r3_some).2) := by
  show r3 = _; simp [st3]

theorem g1 : Good (c := cQ) oQ st1 ∧ st1.tree.s = 0 ∧ st1.tree.e = 1 := by
  have h := call_spec oQ aQ soundQ good0 (by norm_num [st0, Tree.s]) (by norm_num) (by norm_num [st0, Tree.e]) e1
  exact ⟨h.1, h.2.2.2.1, h.2.2.2.2.1⟩
theorem in1s : st1.tree.s ≤ 1/2 := by rw [g1.2.1]; norm_num
theorem in1e : (1 : ℚ) ≤ st1.tree.e := by rw [g1.2.2]
theorem g2 : Good (c := cQ) oQ st2 ∧ st2.tree.s = 0 ∧ st2.tree.e = 1 := by
  have h := call_spec oQ aQ soundQ g1.1 in1s (by norm_num) in1e e2
  exact ⟨h.1, h.2.2.2.1.trans g1.2.1, h.2.2.2.2.1.trans g1.2.2⟩
theorem in2s : st2.tree.s ≤ 0 := by rw [g2.2.1]
theorem in2e : (1 : ℚ) ≤ st2.tree.e := by rw [g2.2.2]

theorem q1 : Answered (c := cQ) (o := oQ) aQ st3 0 (1/2) (r1.get r1_some).2.W (r1.get r1_some).2.U :=
  ⟨st0, st1, 50, _, good0, by norm_num [st0, Tree.s], by norm_num, by norm_num [st0, Tree.e], e1,
    Reach.step in1s (by norm_num) in1e e2 (Reach.step in2s (by norm_num) in2e e3 (Reach.refl _)), rfl, rfl⟩
theorem q2 : Answered (c := cQ) (o := oQ) aQ st3 (1/2) 1 (r2.get r2_some).2.W (r2.get r2_some).2.U :=
  ⟨st1, st2, 50, _, g1.1, in1s, by norm_num, in1e, e2, Reach.step in2s (by norm_num) in2e e3 (Reach.refl _), rfl, rfl⟩
theorem q3 : Answered (c := cQ) (o := oQ) aQ st3 0 1 (r3.get r3_some).2.W (r3.get r3_some).2.U :=
  ⟨st2, st3, 50, _, g2.1, in2s, by norm_num, in2e, e3, Reach.refl _, rfl, rfl⟩

/-- every hypothesis of `chen_W_any_history` is met by a concrete three-query history -/
theorem chenW_instance : (r3.get r3_some).2.W = (r1.get r1_some).2.W + (r2.get r2_some).2.W :=
  chen_W_any_history aQ soundQ (genOps_bridgeAdditive _ _) (genOps_aggAdditive _ _) (s := 0) (u := 1/2) (t := 1)
    (by norm_num) (by norm_num) rfl rfl rfl q1 q2 q3

/-- … and of `chen_U_any_history` -/
theorem chenU_instance : (r3.get r3_some).2.U = (r1.get r1_some).2.U + (r2.get r2_some).2.U + (1 - 1/2) * (r1.get r1_some).2.W :=
  chen_U_any_history aQ soundQ (genOps_bridgeAdditive _ _) (genOps_bridgeChen _ _) (genOps_aggAdditive _ _) (genOps_aggChen _ _)
    (s := 0) (u := 1/2) (t := 1) (by norm_num) (by norm_num) rfl rfl rfl q1 q2 q3

/-- the instance is not degenerate: the first query really split the tree and returned a non-zero increment -/
example : (r1.get r1_some).2.W ≠ 0 ∧ (r1.get r1_some).2.pieces = 1 ∧ (r3.get r3_some).2.pieces = 1 := by decide +kernel

end C03ModelEx
