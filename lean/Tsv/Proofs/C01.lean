/-
C01 — solutions converge at the advertised strong order: the code-dependent half, and the recursion half of the classical theorem.

The statement "for smooth Lipschitz coefficients the RMS error is O(dt^p)" is Milstein's mean-square convergence theorem:
local mean error O(h^(p+1)) and local mean-square error O(h^(p+1/2)) imply global strong order p.  What the CODE contributes
is proved elsewhere and collected here:
  (1) C02 (`C02Taylor`, `C02SRK`): every solver step agrees with the Itô– resp. Stratonovich–Taylor expansion identically in all
      grades ≤ n = 2p and in the mean at grade n+1, i.e. exactly those two local orders, for the generic scalar SDE;
  (2) `advertised_le_proved` below: the `strong_order` attribute each real solver object reports (regenerated on every run into
      `Gen.Tables.strongOrder2`) never exceeds the order for which (1) is proved;
  (3) C12 (`queries_tile`, `integrate` model): the loop feeds each step exactly `bm(t_k, t_{k+1})` on a contiguous grid, so the
      numerical solution is the composition of the one-step maps along the supplied Brownian path;
  (4) `gronwall_discrete` below: the recursion-to-rate half of the theorem, for every number of steps.
Not formalised (classical analysis, see DESIGN.md §5): remainder bounds of the stochastic Taylor expansion for smooth
Lipschitz coefficients and the moment argument that turns (1) into the recursion hypothesis of (4).
-/
import Tsv.Gen.Tables
import Mathlib.Analysis.SpecialFunctions.Exp
import Mathlib.Tactic.Ring
import Mathlib.Tactic.Positivity
import Mathlib.Tactic.Linarith

namespace C01
open Model.Dispatch

/-- twice the strong order for which the local conditions are PROVED in C02 (d = m = 1; theorem names in C02Taylor / C02SRK:
`<method>_<i|s>_<noise>_11[_gf]_taylor` with n = this number, and `…_mean`).  0 = no claim. -/
def provedOrder2 : SolverClass → Noise → Nat
  | .Euler, .additive => 2 | .Euler, _ => 1
  | .MilsteinIto, .general => 0 | .MilsteinIto, _ => 2
  | .MilsteinStratonovich, .general => 0 | .MilsteinStratonovich, _ => 2
  | .SRK, .general => 0 | .SRK, _ => 3
  | .Midpoint, .general => 1 | .Midpoint, _ => 2
  | .Heun, .general => 1 | .Heun, _ => 2
  | .EulerHeun, .general => 1 | .EulerHeun, _ => 2
  | .LogODEMidpoint, .general => 1 | .LogODEMidpoint, _ => 2
  | .ReversibleHeun, .additive => 2 | .ReversibleHeun, _ => 1
  | .AdjointReversibleHeun, _ => 0

/-- the forward solvers (the adjoint-only solver's accuracy is the subject of C10, not of C01) -/
def forwardSolvers : List SolverClass :=
  [.Euler, .MilsteinIto, .MilsteinStratonovich, .SRK, .Midpoint, .ReversibleHeun, .Heun, .LogODEMidpoint, .EulerHeun]

/-- **No solver advertises more than is proved**: the regenerated `strong_order` of every forward solver, for every noise
type, is at most the order whose local conditions C02 establishes. -/
theorem advertised_le_proved :
    ∀ c ∈ forwardSolvers, ∀ n ∈ ([.additive, .diagonal, .general, .scalar] : List Noise),
      Gen.Tables.strongOrder2 c n ≤ provedOrder2 c n := by
  decide

/-- and nothing is under-advertised either (so the table above is exactly the library's) -/
theorem advertised_eq_proved :
    ∀ c ∈ forwardSolvers, ∀ n ∈ ([.additive, .diagonal, .general, .scalar] : List Noise),
      Gen.Tables.strongOrder2 c n = provedOrder2 c n := by
  decide

example : Gen.Tables.strongOrder2 .SRK .diagonal = 3 ∧ provedOrder2 .SRK .diagonal = 3 := by decide

/-- **Discrete Gronwall** (the recursion half of the mean-square convergence theorem): if the mean-square error satisfies
`e (k+1) ≤ (1 + K h) e k + h D` (`D = C h^(2p)` in the application) and `e 0 = 0`, then for EVERY number of steps
`e n ≤ D ((1 + K h)^n − 1)/K`. -/
theorem gronwall_discrete (e : ℕ → ℝ) (K h D : ℝ) (hK : 0 < K) (hh : 0 ≤ h)
    (h0 : e 0 ≤ 0) (hrec : ∀ k, e (k + 1) ≤ (1 + K * h) * e k + h * D) :
    ∀ n, e n ≤ D * ((1 + K * h) ^ n - 1) / K := by
  intro n
  induction n with
  | zero => simpa using h0
  | succ k ih =>
    have h1 : 0 ≤ 1 + K * h := by positivity
    calc e (k + 1) ≤ (1 + K * h) * e k + h * D := hrec k
      _ ≤ (1 + K * h) * (D * ((1 + K * h) ^ k - 1) / K) + h * D := by
          have := mul_le_mul_of_nonneg_left ih h1
          linarith
      _ = D * ((1 + K * h) ^ (k + 1) - 1) / K := by
          field_simp
          ring

/-- … hence, on a horizon `n h ≤ T`, `e n ≤ D (exp (K T) − 1)/K`: with `D = C h^(2p)` the mean-square error is `O(h^(2p))`,
i.e. the RMS error is `O(h^p)`, uniformly in the number of steps. -/
theorem gronwall_rate (e : ℕ → ℝ) (K h D T : ℝ) (hK : 0 < K) (hh : 0 ≤ h) (hD : 0 ≤ D)
    (h0 : e 0 ≤ 0) (hrec : ∀ k, e (k + 1) ≤ (1 + K * h) * e k + h * D) (n : ℕ) (hn : n * h ≤ T) :
    e n ≤ D * (Real.exp (K * T) - 1) / K := by
  have hg := gronwall_discrete e K h D hK hh h0 hrec n
  have hpow : (1 + K * h) ^ n ≤ Real.exp (K * T) := by
    have h1 : 1 + K * h ≤ Real.exp (K * h) := by
      have := Real.add_one_le_exp (K * h)
      linarith
    have h2 : (1 + K * h) ^ n ≤ Real.exp (K * h) ^ n := pow_le_pow_left₀ (by positivity) h1 n
    have h3 : Real.exp (K * h) ^ n = Real.exp (K * (n * h)) := by
      rw [← Real.exp_nat_mul]; ring_nf
    have h4 : Real.exp (K * (n * h)) ≤ Real.exp (K * T) :=
      Real.exp_le_exp.mpr (mul_le_mul_of_nonneg_left hn hK.le)
    linarith [h2, h3.le, h4]
  calc e n ≤ D * ((1 + K * h) ^ n - 1) / K := hg
    _ ≤ D * (Real.exp (K * T) - 1) / K := by
        apply div_le_div_of_nonneg_right _ hK.le
        exact mul_le_mul_of_nonneg_left (by linarith) hD

/-- non-vacuity: the recursion `e (k+1) = (1 + K h) e k + h D` with `e 0 = 0` satisfies the hypotheses -/
example : ∃ e : ℕ → ℝ, e 0 ≤ 0 ∧ ∀ k, e (k + 1) ≤ (1 + 2 * (1 / 10)) * e k + (1 / 10) * 3 :=
  ⟨fun k => Nat.rec 0 (fun _ x => (1 + 2 * (1 / 10)) * x + (1 / 10) * 3) k, le_refl _, fun _ => le_refl _⟩

end C01
