/-
C04 for every HISTORY of the object model: the increments a Brownian object returns have the covariance of Brownian motion, whatever was
queried before, in between and in whatever order, for every cache size, with the dependency tree firing in between.

The state machine of `Model/Brownian.lean` is run with vector-valued operations (`C04Model.vecOps`: node values are random variables;
the aggregation step adds increments, as `Model.aggStep` does).  `C03Model.Answered` = "this query was answered with this `W` at some
point of the history leading to the final state".  Then
  `answered_var`      Var W(ta,tb) = rnd tb − rnd ta            for every answered non-degenerate query;
  `answered_indep`    Cov(W(ta,tb), W(tc,td)) = 0                for answered queries with rnd tb ≤ rnd tc;
  `answered_overlap`  Cov(W(s,t'), W(u,v)) = t' − u              for answered queries with s < u < t' < v (resolved times).
Hypotheses: exact comparisons/rounding (`Sound`), orthonormal fresh noise per node, a root value with Brownian second moments
(`C04Model.root_law` for the constructor), `sqrt` a square root on non-negatives.
-/
import Tsv.Proofs.C04Points

namespace C04History
open Model.BM BMCore C05 C03Model C04Model BMPoints
set_option linter.unusedSectionVars false

variable {K R : Type} [Field K] [LinearOrder K] [IsStrictOrderedRing K] [AddCommGroup R] [Module K R]
variable (sqrt : K → K) (C : Cov K R) (nz : Path → Bool → R) {c : Cfg K} (a : Arith K)

theorem vecOps_aggAdditive : AggAdditive (vecOps sqrt nz (R := R)) := by
  intro ta acc s e v; rfl

/-- what an answered query returned is the sum of the `W`-values of the pieces that resolve it in the FINAL tree -/
theorem answered_sum (hc : Sound c) {stF : State K R} {ta tb : K} {w u : R}
    (h : Answered (c := c) (o := vecOps sqrt nz) a stF ta tb w u) (hlt : c.rnd ta < c.rnd tb) :
    ∃ ps, find stF.tree (c.rnd ta) (c.rnd tb) = some ps ∧
      sumW (vecOps sqrt nz) (φV (K := K)) stF.top stF.tree [] ps = some w ∧ WF c stF.tree := by
  obtain ⟨ps, hf, hs, hwf⟩ := answered_final a hc h hlt
  exact ⟨ps, hf, answerSpec_W (vecOps_aggAdditive sqrt nz) hs, hwf⟩

variable (hsq : ∀ x : K, 0 ≤ x → sqrt x * sqrt x = x) (hn : NoiseON C nz)
include hsq hn

/-- **variance of every answered increment** -/
theorem answered_var (hc : Sound c) {stF : State K R} (hl : LawAt C stF.top stF.tree.s stF.tree.e) (hf : Fresh C nz stF.top [])
    {ta tb : K} {w u : R} (h : Answered (c := c) (o := vecOps sqrt nz) a stF ta tb w u) (hlt : c.rnd ta < c.rnd tb) :
    C.ip w w = c.rnd tb - c.rnd ta := by
  obtain ⟨ps, hfind, hsum, hwf⟩ := answered_sum sqrt nz a hc h hlt
  obtain ⟨X, hX, hv⟩ := query_var sqrt C nz hsq hn stF.tree stF.top [] _ _ hwf hl hf hfind
  have : X = w := Option.some.inj (hX.symm.trans hsum)
  rw [← this]; exact hv

/-- **independent increments** -/
theorem answered_indep (hc : Sound c) {stF : State K R} (hl : LawAt C stF.top stF.tree.s stF.tree.e) (hf : Fresh C nz stF.top [])
    {ta tb tc td : K} {w1 u1 w2 u2 : R}
    (h1 : Answered (c := c) (o := vecOps sqrt nz) a stF ta tb w1 u1) (h2 : Answered (c := c) (o := vecOps sqrt nz) a stF tc td w2 u2)
    (l1 : c.rnd ta < c.rnd tb) (l2 : c.rnd tc < c.rnd td) (hord : c.rnd tb ≤ c.rnd tc) : C.ip w1 w2 = 0 := by
  obtain ⟨p1, f1, s1, hwf⟩ := answered_sum sqrt nz a hc h1 l1
  obtain ⟨p2, f2, s2, _⟩ := answered_sum sqrt nz a hc h2 l2
  have conv : ∀ (ps : List Path) {X : R}, sumW (vecOps sqrt nz) (φV (K := K)) stF.top stF.tree [] ps = some X →
      sumW (vecOps sqrt nz) ((ψW (K := K)).app (R := R)) stF.top stF.tree [] ps = some X := by
    intro ps
    induction ps with
    | nil => intro X h; simpa [sumW] using h
    | cons p ps ih =>
      intro X h
      simp only [sumW] at h ⊢
      split at h
      · rename_i v nd sx hv hg hs
        rw [hv, hg, ih hs]
        simp only [Option.some.injEq] at h ⊢
        rw [← h]; simp [LinF.app, ψW]
      · simp at h
  exact queries_uncorrelated sqrt C nz hsq hn hwf hl hf ψW ψW hord f1 f2 (conv _ s1) (conv _ s2)

/-- **covariance of overlapping increments = length of the overlap** (resolved times `s < u < t' < v`) -/
theorem answered_overlap (hc : Sound c) {stF : State K R} (hl : LawAt C stF.top stF.tree.s stF.tree.e) (hf : Fresh C nz stF.top [])
    {s u t' v : K} {w1 u1 w2 u2 : R} (rs : c.rnd s = s) (ru : c.rnd u = u) (rt : c.rnd t' = t') (rv : c.rnd v = v)
    (hsu : s < u) (hut : u < t') (htv : t' < v)
    (h1 : Answered (c := c) (o := vecOps sqrt nz) a stF s t' w1 u1) (h2 : Answered (c := c) (o := vecOps sqrt nz) a stF u v w2 u2) :
    C.ip w1 w2 = t' - u := by
  obtain ⟨p1, f1, s1, hwf⟩ := answered_sum sqrt nz a hc h1 (by rw [rs, rt]; exact lt_trans hsu hut)
  obtain ⟨p2, f2, s2, _⟩ := answered_sum sqrt nz a hc h2 (by rw [ru, rv]; exact lt_trans hut htv)
  rw [rs, rt] at f1
  rw [ru, rv] at f2
  obtain ⟨ps, pt⟩ := find_pts hwf f1
  obtain ⟨pu, pv⟩ := find_pts hwf f2
  obtain ⟨q1, q2, X1, X2, g1, g2, e1, e2, hcov⟩ := C04Points.overlap_cov_pts sqrt C nz hsq hn hwf hl hf ps pu pt pv hsu hut htv
  have eq1 : q1 = p1 := Option.some.inj (g1.symm.trans f1)
  have eq2 : q2 = p2 := Option.some.inj (g2.symm.trans f2)
  subst eq1 eq2
  have x1 : X1 = w1 := Option.some.inj (e1.symm.trans s1)
  have x2 : X2 = w2 := Option.some.inj (e2.symm.trans s2)
  rw [← x1, ← x2]; exact hcov

end C04History
