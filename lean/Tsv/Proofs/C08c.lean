/-
C08 — sdeint is differentiable: backprop equals the derivative of the numerical solution (fixed steps).

WRITTEN BY vlib/author_c08.py; COMMITTED; re-checked against lean/Tsv/Gen/Grad.lean, which is regenerated on every run by tracing,
for every solver x noise type, TWO fixed steps of the real `BaseSDESolver.integrate` (second step clipped to `ts[-1]`, output
produced by the real `linear_interp`) on a user SDE `f(t, y, θ)`, `g(t, y, θ)` with uninterpreted `f`, `g`, and then

  g…  : `torch.autograd.grad(yT, [y0, θ], grad_outputs = v)` executed on the TRACED GRAPH with torch's semantics (requires_grad
        propagation, `detach`, `create_graph`, `enable_grad` / `no_grad` blocks exactly as the library wrote them; the partial
        derivatives of `f`, `g` are the symbols `f_d1` (∂/∂y), `f_d2` (∂/∂θ), `g_d11`, … the tracer introduces),
  t…  : `v · ∂yT/∂y0`, `v · ∂yT/∂θ` obtained by forward differentiation of the VALUE (arithmetic only: blind to detach etc.).

Theorem per program: `g… = t…` for ARBITRARY `f`, `g`, their derivative symbols, state, parameter, increments, cotangent —
so nothing on the path from `(y0, θ)` to the output is detached or computed without a graph: solvers that differentiate the
diffusion internally (Milstein's `g ∂g v` via `vjp(create_graph=…)`, log-ODE's double-backward `jvp`) included.
Both sides are validated against the real `torch.autograd.grad` on every run (translation validation).
-/
import Tsv.Gen.Grad
import Mathlib.Tactic.Ring

namespace C08
set_option linter.unusedSectionVars false
set_option linter.unusedVariables false
set_option linter.unusedTactic false
set_option linter.unreachableTactic false
set_option maxRecDepth 8000
variable {K : Type} [Field K] [LinearOrder K]


set_option maxHeartbeats 4000000 in
/-- `grad_euler_i_additive_11`: backprop `gth` = forward derivative `tth` -/
theorem grad_euler_i_additive_11_gth  (f : K → K → K → K) (f_d1 : K → K → K → K) (f_d2 : K → K → K → K) (g : K → K → K) (g_d1 : K → K → K) (t0 t2 dt y0_0_0 theta v_0_0 dW0_0_0 dW1_0_0 : K) :
    Gen.grad_euler_i_additive_11_gth f f_d1 f_d2 g g_d1 t0 t2 dt y0_0_0 theta v_0_0 dW0_0_0 dW1_0_0 = Gen.grad_euler_i_additive_11_tth f f_d1 f_d2 g g_d1 t0 t2 dt y0_0_0 theta v_0_0 dW0_0_0 dW1_0_0 := by
  simp only [Gen.grad_euler_i_additive_11_gth, Gen.grad_euler_i_additive_11_tth]
  generalize Gen.grad_euler_i_additive_11_f_d1_9c7524f038aa f f_d1 f_d2 g g_d1 t0 t2 dt y0_0_0 theta v_0_0 dW0_0_0 dW1_0_0 = a0
  generalize Gen.grad_euler_i_additive_11_f_d2_4894b01bac57 f f_d1 f_d2 g g_d1 t0 t2 dt y0_0_0 theta v_0_0 dW0_0_0 dW1_0_0 = a1
  generalize Gen.grad_euler_i_additive_11_f_d2_75ad011491cf f f_d1 f_d2 g g_d1 t0 t2 dt y0_0_0 theta v_0_0 dW0_0_0 dW1_0_0 = a2
  generalize Gen.grad_euler_i_additive_11_g_d1_39aaf857762f f f_d1 f_d2 g g_d1 t0 t2 dt y0_0_0 theta v_0_0 dW0_0_0 dW1_0_0 = a3
  generalize Gen.grad_euler_i_additive_11_g_d1_3d49352567ba f f_d1 f_d2 g g_d1 t0 t2 dt y0_0_0 theta v_0_0 dW0_0_0 dW1_0_0 = a4
  ring

set_option maxHeartbeats 4000000 in
/-- `grad_euler_i_additive_11`: backprop `gy_0_0` = forward derivative `ty_0_0` -/
theorem grad_euler_i_additive_11_gy_0_0  (f : K → K → K → K) (f_d1 : K → K → K → K) (f_d2 : K → K → K → K) (g : K → K → K) (g_d1 : K → K → K) (t0 t2 dt y0_0_0 theta v_0_0 dW0_0_0 dW1_0_0 : K) :
    Gen.grad_euler_i_additive_11_gy_0_0 f f_d1 f_d2 g g_d1 t0 t2 dt y0_0_0 theta v_0_0 dW0_0_0 dW1_0_0 = Gen.grad_euler_i_additive_11_ty_0_0 f f_d1 f_d2 g g_d1 t0 t2 dt y0_0_0 theta v_0_0 dW0_0_0 dW1_0_0 := by
  simp only [Gen.grad_euler_i_additive_11_gy_0_0, Gen.grad_euler_i_additive_11_ty_0_0]
  generalize Gen.grad_euler_i_additive_11_f_d1_9c7524f038aa f f_d1 f_d2 g g_d1 t0 t2 dt y0_0_0 theta v_0_0 dW0_0_0 dW1_0_0 = a0
  generalize Gen.grad_euler_i_additive_11_f_d1_b39c2b677c13 f f_d1 f_d2 g g_d1 t0 t2 dt y0_0_0 theta v_0_0 dW0_0_0 dW1_0_0 = a1
  ring

set_option maxHeartbeats 4000000 in
/-- `grad_milstein_i_diagonal_11`: backprop `gth` = forward derivative `tth` -/
theorem grad_milstein_i_diagonal_11_gth  (f : K → K → K → K) (f_d1 : K → K → K → K) (f_d2 : K → K → K → K) (g : K → K → K → K) (g_d1 : K → K → K → K) (g_d11 : K → K → K → K) (g_d12 : K → K → K → K) (g_d2 : K → K → K → K) (t0 t2 dt y0_0_0 theta v_0_0 dW0_0_0 dW1_0_0 : K) :
    Gen.grad_milstein_i_diagonal_11_gth f f_d1 f_d2 g g_d1 g_d11 g_d12 g_d2 t0 t2 dt y0_0_0 theta v_0_0 dW0_0_0 dW1_0_0 = Gen.grad_milstein_i_diagonal_11_tth f f_d1 f_d2 g g_d1 g_d11 g_d12 g_d2 t0 t2 dt y0_0_0 theta v_0_0 dW0_0_0 dW1_0_0 := by
  simp only [Gen.grad_milstein_i_diagonal_11_gth, Gen.grad_milstein_i_diagonal_11_tth]
  generalize Gen.grad_milstein_i_diagonal_11_f_d1_489ec9895782 f f_d1 f_d2 g g_d1 g_d11 g_d12 g_d2 t0 t2 dt y0_0_0 theta v_0_0 dW0_0_0 dW1_0_0 = a0
  generalize Gen.grad_milstein_i_diagonal_11_f_d2_75ad011491cf f f_d1 f_d2 g g_d1 g_d11 g_d12 g_d2 t0 t2 dt y0_0_0 theta v_0_0 dW0_0_0 dW1_0_0 = a1
  generalize Gen.grad_milstein_i_diagonal_11_f_d2_f1a1d483eb7a f f_d1 f_d2 g g_d1 g_d11 g_d12 g_d2 t0 t2 dt y0_0_0 theta v_0_0 dW0_0_0 dW1_0_0 = a2
  generalize Gen.grad_milstein_i_diagonal_11_g_70f35061c2d0 f f_d1 f_d2 g g_d1 g_d11 g_d12 g_d2 t0 t2 dt y0_0_0 theta v_0_0 dW0_0_0 dW1_0_0 = a3
  generalize Gen.grad_milstein_i_diagonal_11_g_d11_8064c5c39114 f f_d1 f_d2 g g_d1 g_d11 g_d12 g_d2 t0 t2 dt y0_0_0 theta v_0_0 dW0_0_0 dW1_0_0 = a4
  generalize Gen.grad_milstein_i_diagonal_11_g_d12_40f4a140374f f f_d1 f_d2 g g_d1 g_d11 g_d12 g_d2 t0 t2 dt y0_0_0 theta v_0_0 dW0_0_0 dW1_0_0 = a5
  generalize Gen.grad_milstein_i_diagonal_11_g_d12_f09e45d90827 f f_d1 f_d2 g g_d1 g_d11 g_d12 g_d2 t0 t2 dt y0_0_0 theta v_0_0 dW0_0_0 dW1_0_0 = a6
  generalize Gen.grad_milstein_i_diagonal_11_g_d1_ddd0c5e556e2 f f_d1 f_d2 g g_d1 g_d11 g_d12 g_d2 t0 t2 dt y0_0_0 theta v_0_0 dW0_0_0 dW1_0_0 = a7
  generalize Gen.grad_milstein_i_diagonal_11_g_d1_f7710a2eb195 f f_d1 f_d2 g g_d1 g_d11 g_d12 g_d2 t0 t2 dt y0_0_0 theta v_0_0 dW0_0_0 dW1_0_0 = a8
  generalize Gen.grad_milstein_i_diagonal_11_g_d2_1dbf2324c025 f f_d1 f_d2 g g_d1 g_d11 g_d12 g_d2 t0 t2 dt y0_0_0 theta v_0_0 dW0_0_0 dW1_0_0 = a9
  generalize Gen.grad_milstein_i_diagonal_11_g_d2_722b7a6bbfae f f_d1 f_d2 g g_d1 g_d11 g_d12 g_d2 t0 t2 dt y0_0_0 theta v_0_0 dW0_0_0 dW1_0_0 = a10
  generalize Gen.grad_milstein_i_diagonal_11_g_db15086d257d f f_d1 f_d2 g g_d1 g_d11 g_d12 g_d2 t0 t2 dt y0_0_0 theta v_0_0 dW0_0_0 dW1_0_0 = a11
  ring

set_option maxHeartbeats 4000000 in
/-- `grad_milstein_i_diagonal_11`: backprop `gy_0_0` = forward derivative `ty_0_0` -/
theorem grad_milstein_i_diagonal_11_gy_0_0  (f : K → K → K → K) (f_d1 : K → K → K → K) (f_d2 : K → K → K → K) (g : K → K → K → K) (g_d1 : K → K → K → K) (g_d11 : K → K → K → K) (g_d12 : K → K → K → K) (g_d2 : K → K → K → K) (t0 t2 dt y0_0_0 theta v_0_0 dW0_0_0 dW1_0_0 : K) :
    Gen.grad_milstein_i_diagonal_11_gy_0_0 f f_d1 f_d2 g g_d1 g_d11 g_d12 g_d2 t0 t2 dt y0_0_0 theta v_0_0 dW0_0_0 dW1_0_0 = Gen.grad_milstein_i_diagonal_11_ty_0_0 f f_d1 f_d2 g g_d1 g_d11 g_d12 g_d2 t0 t2 dt y0_0_0 theta v_0_0 dW0_0_0 dW1_0_0 := by
  simp only [Gen.grad_milstein_i_diagonal_11_gy_0_0, Gen.grad_milstein_i_diagonal_11_ty_0_0]
  generalize Gen.grad_milstein_i_diagonal_11_f_d1_489ec9895782 f f_d1 f_d2 g g_d1 g_d11 g_d12 g_d2 t0 t2 dt y0_0_0 theta v_0_0 dW0_0_0 dW1_0_0 = a0
  generalize Gen.grad_milstein_i_diagonal_11_f_d1_b39c2b677c13 f f_d1 f_d2 g g_d1 g_d11 g_d12 g_d2 t0 t2 dt y0_0_0 theta v_0_0 dW0_0_0 dW1_0_0 = a1
  generalize Gen.grad_milstein_i_diagonal_11_g_70f35061c2d0 f f_d1 f_d2 g g_d1 g_d11 g_d12 g_d2 t0 t2 dt y0_0_0 theta v_0_0 dW0_0_0 dW1_0_0 = a2
  generalize Gen.grad_milstein_i_diagonal_11_g_d11_8064c5c39114 f f_d1 f_d2 g g_d1 g_d11 g_d12 g_d2 t0 t2 dt y0_0_0 theta v_0_0 dW0_0_0 dW1_0_0 = a3
  generalize Gen.grad_milstein_i_diagonal_11_g_d11_9d3773187952 f f_d1 f_d2 g g_d1 g_d11 g_d12 g_d2 t0 t2 dt y0_0_0 theta v_0_0 dW0_0_0 dW1_0_0 = a4
  generalize Gen.grad_milstein_i_diagonal_11_g_d1_ddd0c5e556e2 f f_d1 f_d2 g g_d1 g_d11 g_d12 g_d2 t0 t2 dt y0_0_0 theta v_0_0 dW0_0_0 dW1_0_0 = a5
  generalize Gen.grad_milstein_i_diagonal_11_g_d1_f7710a2eb195 f f_d1 f_d2 g g_d1 g_d11 g_d12 g_d2 t0 t2 dt y0_0_0 theta v_0_0 dW0_0_0 dW1_0_0 = a6
  generalize Gen.grad_milstein_i_diagonal_11_g_db15086d257d f f_d1 f_d2 g g_d1 g_d11 g_d12 g_d2 t0 t2 dt y0_0_0 theta v_0_0 dW0_0_0 dW1_0_0 = a7
  ring

set_option maxHeartbeats 4000000 in
/-- `gradp_milstein_i_scalar_11`: backprop `gth` = forward derivative `tth` -/
theorem gradp_milstein_i_scalar_11_gth  (f : K → K → K → K) (f_d1 : K → K → K → K) (f_d2 : K → K → K → K) (g : K → K → K → K) (g_d1 : K → K → K → K) (g_d11 : K → K → K → K) (g_d12 : K → K → K → K) (g_d2 : K → K → K → K) (t0 t2 dt y0_0_0 theta v_0_0 dW0_0_0 dW1_0_0 : K) :
    Gen.gradp_milstein_i_scalar_11_gth f f_d1 f_d2 g g_d1 g_d11 g_d12 g_d2 t0 t2 dt y0_0_0 theta v_0_0 dW0_0_0 dW1_0_0 = Gen.gradp_milstein_i_scalar_11_tth f f_d1 f_d2 g g_d1 g_d11 g_d12 g_d2 t0 t2 dt y0_0_0 theta v_0_0 dW0_0_0 dW1_0_0 := by
  simp only [Gen.gradp_milstein_i_scalar_11_gth, Gen.gradp_milstein_i_scalar_11_tth]
  generalize Gen.gradp_milstein_i_scalar_11_f_d1_489ec9895782 f f_d1 f_d2 g g_d1 g_d11 g_d12 g_d2 t0 t2 dt y0_0_0 theta v_0_0 dW0_0_0 dW1_0_0 = a0
  generalize Gen.gradp_milstein_i_scalar_11_f_d2_75ad011491cf f f_d1 f_d2 g g_d1 g_d11 g_d12 g_d2 t0 t2 dt y0_0_0 theta v_0_0 dW0_0_0 dW1_0_0 = a1
  generalize Gen.gradp_milstein_i_scalar_11_f_d2_f1a1d483eb7a f f_d1 f_d2 g g_d1 g_d11 g_d12 g_d2 t0 t2 dt y0_0_0 theta v_0_0 dW0_0_0 dW1_0_0 = a2
  generalize Gen.gradp_milstein_i_scalar_11_g_70f35061c2d0 f f_d1 f_d2 g g_d1 g_d11 g_d12 g_d2 t0 t2 dt y0_0_0 theta v_0_0 dW0_0_0 dW1_0_0 = a3
  generalize Gen.gradp_milstein_i_scalar_11_g_d11_8064c5c39114 f f_d1 f_d2 g g_d1 g_d11 g_d12 g_d2 t0 t2 dt y0_0_0 theta v_0_0 dW0_0_0 dW1_0_0 = a4
  generalize Gen.gradp_milstein_i_scalar_11_g_d12_40f4a140374f f f_d1 f_d2 g g_d1 g_d11 g_d12 g_d2 t0 t2 dt y0_0_0 theta v_0_0 dW0_0_0 dW1_0_0 = a5
  generalize Gen.gradp_milstein_i_scalar_11_g_d12_f09e45d90827 f f_d1 f_d2 g g_d1 g_d11 g_d12 g_d2 t0 t2 dt y0_0_0 theta v_0_0 dW0_0_0 dW1_0_0 = a6
  generalize Gen.gradp_milstein_i_scalar_11_g_d1_ddd0c5e556e2 f f_d1 f_d2 g g_d1 g_d11 g_d12 g_d2 t0 t2 dt y0_0_0 theta v_0_0 dW0_0_0 dW1_0_0 = a7
  generalize Gen.gradp_milstein_i_scalar_11_g_d1_f7710a2eb195 f f_d1 f_d2 g g_d1 g_d11 g_d12 g_d2 t0 t2 dt y0_0_0 theta v_0_0 dW0_0_0 dW1_0_0 = a8
  generalize Gen.gradp_milstein_i_scalar_11_g_d2_1dbf2324c025 f f_d1 f_d2 g g_d1 g_d11 g_d12 g_d2 t0 t2 dt y0_0_0 theta v_0_0 dW0_0_0 dW1_0_0 = a9
  generalize Gen.gradp_milstein_i_scalar_11_g_d2_722b7a6bbfae f f_d1 f_d2 g g_d1 g_d11 g_d12 g_d2 t0 t2 dt y0_0_0 theta v_0_0 dW0_0_0 dW1_0_0 = a10
  generalize Gen.gradp_milstein_i_scalar_11_g_db15086d257d f f_d1 f_d2 g g_d1 g_d11 g_d12 g_d2 t0 t2 dt y0_0_0 theta v_0_0 dW0_0_0 dW1_0_0 = a11
  ring

set_option maxHeartbeats 4000000 in
/-- `gradp_milstein_s_additive_11`: backprop `gth` = forward derivative `tth` -/
theorem gradp_milstein_s_additive_11_gth  (f : K → K → K → K) (f_d1 : K → K → K → K) (f_d2 : K → K → K → K) (g : K → K → K) (g_d1 : K → K → K) (t0 t2 dt y0_0_0 theta v_0_0 dW0_0_0 dW1_0_0 : K) :
    Gen.gradp_milstein_s_additive_11_gth f f_d1 f_d2 g g_d1 t0 t2 dt y0_0_0 theta v_0_0 dW0_0_0 dW1_0_0 = Gen.gradp_milstein_s_additive_11_tth f f_d1 f_d2 g g_d1 t0 t2 dt y0_0_0 theta v_0_0 dW0_0_0 dW1_0_0 := by
  simp only [Gen.gradp_milstein_s_additive_11_gth, Gen.gradp_milstein_s_additive_11_tth]
  generalize Gen.gradp_milstein_s_additive_11_f_d1_d092e7b2f9b4 f f_d1 f_d2 g g_d1 t0 t2 dt y0_0_0 theta v_0_0 dW0_0_0 dW1_0_0 = a0
  generalize Gen.gradp_milstein_s_additive_11_f_d2_68c7ff182560 f f_d1 f_d2 g g_d1 t0 t2 dt y0_0_0 theta v_0_0 dW0_0_0 dW1_0_0 = a1
  generalize Gen.gradp_milstein_s_additive_11_f_d2_75ad011491cf f f_d1 f_d2 g g_d1 t0 t2 dt y0_0_0 theta v_0_0 dW0_0_0 dW1_0_0 = a2
  generalize Gen.gradp_milstein_s_additive_11_g_d1_39aaf857762f f f_d1 f_d2 g g_d1 t0 t2 dt y0_0_0 theta v_0_0 dW0_0_0 dW1_0_0 = a3
  generalize Gen.gradp_milstein_s_additive_11_g_d1_3d49352567ba f f_d1 f_d2 g g_d1 t0 t2 dt y0_0_0 theta v_0_0 dW0_0_0 dW1_0_0 = a4
  ring

set_option maxHeartbeats 4000000 in
/-- `grad_srk_i_additive_11`: backprop `gth` = forward derivative `tth` -/
theorem grad_srk_i_additive_11_gth  (f : K → K → K → K) (f_d1 : K → K → K → K) (f_d2 : K → K → K → K) (g : K → K → K) (g_d1 : K → K → K) (t0 t2 dt y0_0_0 theta v_0_0 dW0_0_0 dW1_0_0 U0_0_0 U1_0_0 : K) :
    Gen.grad_srk_i_additive_11_gth f f_d1 f_d2 g g_d1 t0 t2 dt y0_0_0 theta v_0_0 dW0_0_0 dW1_0_0 U0_0_0 U1_0_0 = Gen.grad_srk_i_additive_11_tth f f_d1 f_d2 g g_d1 t0 t2 dt y0_0_0 theta v_0_0 dW0_0_0 dW1_0_0 U0_0_0 U1_0_0 := by
  simp only [Gen.grad_srk_i_additive_11_gth, Gen.grad_srk_i_additive_11_tth]
  generalize Gen.grad_srk_i_additive_11_f_d1_545967cf36f9 f f_d1 f_d2 g g_d1 t0 t2 dt y0_0_0 theta v_0_0 dW0_0_0 dW1_0_0 U0_0_0 U1_0_0 = a0
  generalize Gen.grad_srk_i_additive_11_f_d1_64d33f84f551 f f_d1 f_d2 g g_d1 t0 t2 dt y0_0_0 theta v_0_0 dW0_0_0 dW1_0_0 U0_0_0 U1_0_0 = a1
  generalize Gen.grad_srk_i_additive_11_f_d1_9b8e7a820dfa f f_d1 f_d2 g g_d1 t0 t2 dt y0_0_0 theta v_0_0 dW0_0_0 dW1_0_0 U0_0_0 U1_0_0 = a2
  generalize Gen.grad_srk_i_additive_11_f_d2_30982717492d f f_d1 f_d2 g g_d1 t0 t2 dt y0_0_0 theta v_0_0 dW0_0_0 dW1_0_0 U0_0_0 U1_0_0 = a3
  generalize Gen.grad_srk_i_additive_11_f_d2_310d86aaeece f f_d1 f_d2 g g_d1 t0 t2 dt y0_0_0 theta v_0_0 dW0_0_0 dW1_0_0 U0_0_0 U1_0_0 = a4
  generalize Gen.grad_srk_i_additive_11_f_d2_a07465717661 f f_d1 f_d2 g g_d1 t0 t2 dt y0_0_0 theta v_0_0 dW0_0_0 dW1_0_0 U0_0_0 U1_0_0 = a5
  generalize Gen.grad_srk_i_additive_11_f_d2_ed095023b578 f f_d1 f_d2 g g_d1 t0 t2 dt y0_0_0 theta v_0_0 dW0_0_0 dW1_0_0 U0_0_0 U1_0_0 = a6
  generalize Gen.grad_srk_i_additive_11_g_d1_844941673c3d f f_d1 f_d2 g g_d1 t0 t2 dt y0_0_0 theta v_0_0 dW0_0_0 dW1_0_0 U0_0_0 U1_0_0 = a7
  generalize Gen.grad_srk_i_additive_11_g_d1_8e9c9cac2da9 f f_d1 f_d2 g g_d1 t0 t2 dt y0_0_0 theta v_0_0 dW0_0_0 dW1_0_0 U0_0_0 U1_0_0 = a8
  generalize Gen.grad_srk_i_additive_11_g_d1_d2534fdecd73 f f_d1 f_d2 g g_d1 t0 t2 dt y0_0_0 theta v_0_0 dW0_0_0 dW1_0_0 U0_0_0 U1_0_0 = a9
  generalize Gen.grad_srk_i_additive_11_g_d1_dcd6717989e1 f f_d1 f_d2 g g_d1 t0 t2 dt y0_0_0 theta v_0_0 dW0_0_0 dW1_0_0 U0_0_0 U1_0_0 = a10
  ring

set_option maxHeartbeats 4000000 in
/-- `grad_srk_i_additive_11`: backprop `gy_0_0` = forward derivative `ty_0_0` -/
theorem grad_srk_i_additive_11_gy_0_0  (f : K → K → K → K) (f_d1 : K → K → K → K) (f_d2 : K → K → K → K) (g : K → K → K) (g_d1 : K → K → K) (t0 t2 dt y0_0_0 theta v_0_0 dW0_0_0 dW1_0_0 U0_0_0 U1_0_0 : K) :
    Gen.grad_srk_i_additive_11_gy_0_0 f f_d1 f_d2 g g_d1 t0 t2 dt y0_0_0 theta v_0_0 dW0_0_0 dW1_0_0 U0_0_0 U1_0_0 = Gen.grad_srk_i_additive_11_ty_0_0 f f_d1 f_d2 g g_d1 t0 t2 dt y0_0_0 theta v_0_0 dW0_0_0 dW1_0_0 U0_0_0 U1_0_0 := by
  simp only [Gen.grad_srk_i_additive_11_gy_0_0, Gen.grad_srk_i_additive_11_ty_0_0]
  generalize Gen.grad_srk_i_additive_11_f_d1_545967cf36f9 f f_d1 f_d2 g g_d1 t0 t2 dt y0_0_0 theta v_0_0 dW0_0_0 dW1_0_0 U0_0_0 U1_0_0 = a0
  generalize Gen.grad_srk_i_additive_11_f_d1_64d33f84f551 f f_d1 f_d2 g g_d1 t0 t2 dt y0_0_0 theta v_0_0 dW0_0_0 dW1_0_0 U0_0_0 U1_0_0 = a1
  generalize Gen.grad_srk_i_additive_11_f_d1_7cd00cd9dc7c f f_d1 f_d2 g g_d1 t0 t2 dt y0_0_0 theta v_0_0 dW0_0_0 dW1_0_0 U0_0_0 U1_0_0 = a2
  generalize Gen.grad_srk_i_additive_11_f_d1_9b8e7a820dfa f f_d1 f_d2 g g_d1 t0 t2 dt y0_0_0 theta v_0_0 dW0_0_0 dW1_0_0 U0_0_0 U1_0_0 = a3
  ring

set_option maxHeartbeats 4000000 in
/-- `grad_euler_heun_s_additive_11`: backprop `gth` = forward derivative `tth` -/
theorem grad_euler_heun_s_additive_11_gth  (f : K → K → K → K) (f_d1 : K → K → K → K) (f_d2 : K → K → K → K) (g : K → K → K) (g_d1 : K → K → K) (t0 t2 dt y0_0_0 theta v_0_0 dW0_0_0 dW1_0_0 : K) :
    Gen.grad_euler_heun_s_additive_11_gth f f_d1 f_d2 g g_d1 t0 t2 dt y0_0_0 theta v_0_0 dW0_0_0 dW1_0_0 = Gen.grad_euler_heun_s_additive_11_tth f f_d1 f_d2 g g_d1 t0 t2 dt y0_0_0 theta v_0_0 dW0_0_0 dW1_0_0 := by
  simp only [Gen.grad_euler_heun_s_additive_11_gth, Gen.grad_euler_heun_s_additive_11_tth]
  generalize Gen.grad_euler_heun_s_additive_11_f_d1_2a025112a416 f f_d1 f_d2 g g_d1 t0 t2 dt y0_0_0 theta v_0_0 dW0_0_0 dW1_0_0 = a0
  generalize Gen.grad_euler_heun_s_additive_11_f_d2_75ad011491cf f f_d1 f_d2 g g_d1 t0 t2 dt y0_0_0 theta v_0_0 dW0_0_0 dW1_0_0 = a1
  generalize Gen.grad_euler_heun_s_additive_11_f_d2_76acf2c8bf43 f f_d1 f_d2 g g_d1 t0 t2 dt y0_0_0 theta v_0_0 dW0_0_0 dW1_0_0 = a2
  generalize Gen.grad_euler_heun_s_additive_11_g_d1_098edafcd8e5 f f_d1 f_d2 g g_d1 t0 t2 dt y0_0_0 theta v_0_0 dW0_0_0 dW1_0_0 = a3
  generalize Gen.grad_euler_heun_s_additive_11_g_d1_39aaf857762f f f_d1 f_d2 g g_d1 t0 t2 dt y0_0_0 theta v_0_0 dW0_0_0 dW1_0_0 = a4
  generalize Gen.grad_euler_heun_s_additive_11_g_d1_3d49352567ba f f_d1 f_d2 g g_d1 t0 t2 dt y0_0_0 theta v_0_0 dW0_0_0 dW1_0_0 = a5
  ring

set_option maxHeartbeats 4000000 in
/-- `grad_euler_heun_s_additive_11`: backprop `gy_0_0` = forward derivative `ty_0_0` -/
theorem grad_euler_heun_s_additive_11_gy_0_0  (f : K → K → K → K) (f_d1 : K → K → K → K) (f_d2 : K → K → K → K) (g : K → K → K) (g_d1 : K → K → K) (t0 t2 dt y0_0_0 theta v_0_0 dW0_0_0 dW1_0_0 : K) :
    Gen.grad_euler_heun_s_additive_11_gy_0_0 f f_d1 f_d2 g g_d1 t0 t2 dt y0_0_0 theta v_0_0 dW0_0_0 dW1_0_0 = Gen.grad_euler_heun_s_additive_11_ty_0_0 f f_d1 f_d2 g g_d1 t0 t2 dt y0_0_0 theta v_0_0 dW0_0_0 dW1_0_0 := by
  simp only [Gen.grad_euler_heun_s_additive_11_gy_0_0, Gen.grad_euler_heun_s_additive_11_ty_0_0]
  generalize Gen.grad_euler_heun_s_additive_11_f_d1_2a025112a416 f f_d1 f_d2 g g_d1 t0 t2 dt y0_0_0 theta v_0_0 dW0_0_0 dW1_0_0 = a0
  generalize Gen.grad_euler_heun_s_additive_11_f_d1_b39c2b677c13 f f_d1 f_d2 g g_d1 t0 t2 dt y0_0_0 theta v_0_0 dW0_0_0 dW1_0_0 = a1
  ring

set_option maxHeartbeats 4000000 in
/-- `grad_heun_s_diagonal_11`: backprop `gth` = forward derivative `tth` -/
theorem grad_heun_s_diagonal_11_gth  (f : K → K → K → K) (f_d1 : K → K → K → K) (f_d2 : K → K → K → K) (g : K → K → K → K) (g_d1 : K → K → K → K) (g_d2 : K → K → K → K) (t0 t2 dt y0_0_0 theta v_0_0 dW0_0_0 dW1_0_0 : K) :
    Gen.grad_heun_s_diagonal_11_gth f f_d1 f_d2 g g_d1 g_d2 t0 t2 dt y0_0_0 theta v_0_0 dW0_0_0 dW1_0_0 = Gen.grad_heun_s_diagonal_11_tth f f_d1 f_d2 g g_d1 g_d2 t0 t2 dt y0_0_0 theta v_0_0 dW0_0_0 dW1_0_0 := by
  simp only [Gen.grad_heun_s_diagonal_11_gth, Gen.grad_heun_s_diagonal_11_tth]
  generalize Gen.grad_heun_s_diagonal_11_f_d1_850996a283cd f f_d1 f_d2 g g_d1 g_d2 t0 t2 dt y0_0_0 theta v_0_0 dW0_0_0 dW1_0_0 = a0
  generalize Gen.grad_heun_s_diagonal_11_f_d1_a0c409c02ee2 f f_d1 f_d2 g g_d1 g_d2 t0 t2 dt y0_0_0 theta v_0_0 dW0_0_0 dW1_0_0 = a1
  generalize Gen.grad_heun_s_diagonal_11_f_d1_aa6f717505bc f f_d1 f_d2 g g_d1 g_d2 t0 t2 dt y0_0_0 theta v_0_0 dW0_0_0 dW1_0_0 = a2
  generalize Gen.grad_heun_s_diagonal_11_f_d2_75ad011491cf f f_d1 f_d2 g g_d1 g_d2 t0 t2 dt y0_0_0 theta v_0_0 dW0_0_0 dW1_0_0 = a3
  generalize Gen.grad_heun_s_diagonal_11_f_d2_85fb27cb9ecd f f_d1 f_d2 g g_d1 g_d2 t0 t2 dt y0_0_0 theta v_0_0 dW0_0_0 dW1_0_0 = a4
  generalize Gen.grad_heun_s_diagonal_11_f_d2_f0ddd094ca46 f f_d1 f_d2 g g_d1 g_d2 t0 t2 dt y0_0_0 theta v_0_0 dW0_0_0 dW1_0_0 = a5
  generalize Gen.grad_heun_s_diagonal_11_f_d2_f2b7d9350614 f f_d1 f_d2 g g_d1 g_d2 t0 t2 dt y0_0_0 theta v_0_0 dW0_0_0 dW1_0_0 = a6
  generalize Gen.grad_heun_s_diagonal_11_g_d1_32d16569e2d0 f f_d1 f_d2 g g_d1 g_d2 t0 t2 dt y0_0_0 theta v_0_0 dW0_0_0 dW1_0_0 = a7
  generalize Gen.grad_heun_s_diagonal_11_g_d1_506c676fd130 f f_d1 f_d2 g g_d1 g_d2 t0 t2 dt y0_0_0 theta v_0_0 dW0_0_0 dW1_0_0 = a8
  generalize Gen.grad_heun_s_diagonal_11_g_d1_6a8c15d1c454 f f_d1 f_d2 g g_d1 g_d2 t0 t2 dt y0_0_0 theta v_0_0 dW0_0_0 dW1_0_0 = a9
  generalize Gen.grad_heun_s_diagonal_11_g_d2_02f255630af5 f f_d1 f_d2 g g_d1 g_d2 t0 t2 dt y0_0_0 theta v_0_0 dW0_0_0 dW1_0_0 = a10
  generalize Gen.grad_heun_s_diagonal_11_g_d2_4079b3c76e81 f f_d1 f_d2 g g_d1 g_d2 t0 t2 dt y0_0_0 theta v_0_0 dW0_0_0 dW1_0_0 = a11
  generalize Gen.grad_heun_s_diagonal_11_g_d2_46fb04d4bfcb f f_d1 f_d2 g g_d1 g_d2 t0 t2 dt y0_0_0 theta v_0_0 dW0_0_0 dW1_0_0 = a12
  generalize Gen.grad_heun_s_diagonal_11_g_d2_722b7a6bbfae f f_d1 f_d2 g g_d1 g_d2 t0 t2 dt y0_0_0 theta v_0_0 dW0_0_0 dW1_0_0 = a13
  ring

set_option maxHeartbeats 4000000 in
/-- `grad_heun_s_diagonal_11`: backprop `gy_0_0` = forward derivative `ty_0_0` -/
theorem grad_heun_s_diagonal_11_gy_0_0  (f : K → K → K → K) (f_d1 : K → K → K → K) (f_d2 : K → K → K → K) (g : K → K → K → K) (g_d1 : K → K → K → K) (g_d2 : K → K → K → K) (t0 t2 dt y0_0_0 theta v_0_0 dW0_0_0 dW1_0_0 : K) :
    Gen.grad_heun_s_diagonal_11_gy_0_0 f f_d1 f_d2 g g_d1 g_d2 t0 t2 dt y0_0_0 theta v_0_0 dW0_0_0 dW1_0_0 = Gen.grad_heun_s_diagonal_11_ty_0_0 f f_d1 f_d2 g g_d1 g_d2 t0 t2 dt y0_0_0 theta v_0_0 dW0_0_0 dW1_0_0 := by
  simp only [Gen.grad_heun_s_diagonal_11_gy_0_0, Gen.grad_heun_s_diagonal_11_ty_0_0]
  generalize Gen.grad_heun_s_diagonal_11_f_d1_850996a283cd f f_d1 f_d2 g g_d1 g_d2 t0 t2 dt y0_0_0 theta v_0_0 dW0_0_0 dW1_0_0 = a0
  generalize Gen.grad_heun_s_diagonal_11_f_d1_a0c409c02ee2 f f_d1 f_d2 g g_d1 g_d2 t0 t2 dt y0_0_0 theta v_0_0 dW0_0_0 dW1_0_0 = a1
  generalize Gen.grad_heun_s_diagonal_11_f_d1_aa6f717505bc f f_d1 f_d2 g g_d1 g_d2 t0 t2 dt y0_0_0 theta v_0_0 dW0_0_0 dW1_0_0 = a2
  generalize Gen.grad_heun_s_diagonal_11_f_d1_b39c2b677c13 f f_d1 f_d2 g g_d1 g_d2 t0 t2 dt y0_0_0 theta v_0_0 dW0_0_0 dW1_0_0 = a3
  generalize Gen.grad_heun_s_diagonal_11_g_d1_32d16569e2d0 f f_d1 f_d2 g g_d1 g_d2 t0 t2 dt y0_0_0 theta v_0_0 dW0_0_0 dW1_0_0 = a4
  generalize Gen.grad_heun_s_diagonal_11_g_d1_506c676fd130 f f_d1 f_d2 g g_d1 g_d2 t0 t2 dt y0_0_0 theta v_0_0 dW0_0_0 dW1_0_0 = a5
  generalize Gen.grad_heun_s_diagonal_11_g_d1_6a8c15d1c454 f f_d1 f_d2 g g_d1 g_d2 t0 t2 dt y0_0_0 theta v_0_0 dW0_0_0 dW1_0_0 = a6
  generalize Gen.grad_heun_s_diagonal_11_g_d1_ddd0c5e556e2 f f_d1 f_d2 g g_d1 g_d2 t0 t2 dt y0_0_0 theta v_0_0 dW0_0_0 dW1_0_0 = a7
  ring

set_option maxHeartbeats 4000000 in
/-- `grad_heun_s_general_11`: backprop `gth` = forward derivative `tth` -/
theorem grad_heun_s_general_11_gth  (f : K → K → K → K) (f_d1 : K → K → K → K) (f_d2 : K → K → K → K) (g : K → K → K → K) (g_d1 : K → K → K → K) (g_d2 : K → K → K → K) (t0 t2 dt y0_0_0 theta v_0_0 dW0_0_0 dW1_0_0 : K) :
    Gen.grad_heun_s_general_11_gth f f_d1 f_d2 g g_d1 g_d2 t0 t2 dt y0_0_0 theta v_0_0 dW0_0_0 dW1_0_0 = Gen.grad_heun_s_general_11_tth f f_d1 f_d2 g g_d1 g_d2 t0 t2 dt y0_0_0 theta v_0_0 dW0_0_0 dW1_0_0 := by
  simp only [Gen.grad_heun_s_general_11_gth, Gen.grad_heun_s_general_11_tth]
  generalize Gen.grad_heun_s_general_11_f_d1_850996a283cd f f_d1 f_d2 g g_d1 g_d2 t0 t2 dt y0_0_0 theta v_0_0 dW0_0_0 dW1_0_0 = a0
  generalize Gen.grad_heun_s_general_11_f_d1_a0c409c02ee2 f f_d1 f_d2 g g_d1 g_d2 t0 t2 dt y0_0_0 theta v_0_0 dW0_0_0 dW1_0_0 = a1
  generalize Gen.grad_heun_s_general_11_f_d1_aa6f717505bc f f_d1 f_d2 g g_d1 g_d2 t0 t2 dt y0_0_0 theta v_0_0 dW0_0_0 dW1_0_0 = a2
  generalize Gen.grad_heun_s_general_11_f_d2_75ad011491cf f f_d1 f_d2 g g_d1 g_d2 t0 t2 dt y0_0_0 theta v_0_0 dW0_0_0 dW1_0_0 = a3
  generalize Gen.grad_heun_s_general_11_f_d2_85fb27cb9ecd f f_d1 f_d2 g g_d1 g_d2 t0 t2 dt y0_0_0 theta v_0_0 dW0_0_0 dW1_0_0 = a4
  generalize Gen.grad_heun_s_general_11_f_d2_f0ddd094ca46 f f_d1 f_d2 g g_d1 g_d2 t0 t2 dt y0_0_0 theta v_0_0 dW0_0_0 dW1_0_0 = a5
  generalize Gen.grad_heun_s_general_11_f_d2_f2b7d9350614 f f_d1 f_d2 g g_d1 g_d2 t0 t2 dt y0_0_0 theta v_0_0 dW0_0_0 dW1_0_0 = a6
  generalize Gen.grad_heun_s_general_11_g_d1_32d16569e2d0 f f_d1 f_d2 g g_d1 g_d2 t0 t2 dt y0_0_0 theta v_0_0 dW0_0_0 dW1_0_0 = a7
  generalize Gen.grad_heun_s_general_11_g_d1_506c676fd130 f f_d1 f_d2 g g_d1 g_d2 t0 t2 dt y0_0_0 theta v_0_0 dW0_0_0 dW1_0_0 = a8
  generalize Gen.grad_heun_s_general_11_g_d1_6a8c15d1c454 f f_d1 f_d2 g g_d1 g_d2 t0 t2 dt y0_0_0 theta v_0_0 dW0_0_0 dW1_0_0 = a9
  generalize Gen.grad_heun_s_general_11_g_d2_02f255630af5 f f_d1 f_d2 g g_d1 g_d2 t0 t2 dt y0_0_0 theta v_0_0 dW0_0_0 dW1_0_0 = a10
  generalize Gen.grad_heun_s_general_11_g_d2_4079b3c76e81 f f_d1 f_d2 g g_d1 g_d2 t0 t2 dt y0_0_0 theta v_0_0 dW0_0_0 dW1_0_0 = a11
  generalize Gen.grad_heun_s_general_11_g_d2_46fb04d4bfcb f f_d1 f_d2 g g_d1 g_d2 t0 t2 dt y0_0_0 theta v_0_0 dW0_0_0 dW1_0_0 = a12
  generalize Gen.grad_heun_s_general_11_g_d2_722b7a6bbfae f f_d1 f_d2 g g_d1 g_d2 t0 t2 dt y0_0_0 theta v_0_0 dW0_0_0 dW1_0_0 = a13
  ring

set_option maxHeartbeats 4000000 in
/-- `grad_heun_s_general_11`: backprop `gy_0_0` = forward derivative `ty_0_0` -/
theorem grad_heun_s_general_11_gy_0_0  (f : K → K → K → K) (f_d1 : K → K → K → K) (f_d2 : K → K → K → K) (g : K → K → K → K) (g_d1 : K → K → K → K) (g_d2 : K → K → K → K) (t0 t2 dt y0_0_0 theta v_0_0 dW0_0_0 dW1_0_0 : K) :
    Gen.grad_heun_s_general_11_gy_0_0 f f_d1 f_d2 g g_d1 g_d2 t0 t2 dt y0_0_0 theta v_0_0 dW0_0_0 dW1_0_0 = Gen.grad_heun_s_general_11_ty_0_0 f f_d1 f_d2 g g_d1 g_d2 t0 t2 dt y0_0_0 theta v_0_0 dW0_0_0 dW1_0_0 := by
  simp only [Gen.grad_heun_s_general_11_gy_0_0, Gen.grad_heun_s_general_11_ty_0_0]
  generalize Gen.grad_heun_s_general_11_f_d1_850996a283cd f f_d1 f_d2 g g_d1 g_d2 t0 t2 dt y0_0_0 theta v_0_0 dW0_0_0 dW1_0_0 = a0
  generalize Gen.grad_heun_s_general_11_f_d1_a0c409c02ee2 f f_d1 f_d2 g g_d1 g_d2 t0 t2 dt y0_0_0 theta v_0_0 dW0_0_0 dW1_0_0 = a1
  generalize Gen.grad_heun_s_general_11_f_d1_aa6f717505bc f f_d1 f_d2 g g_d1 g_d2 t0 t2 dt y0_0_0 theta v_0_0 dW0_0_0 dW1_0_0 = a2
  generalize Gen.grad_heun_s_general_11_f_d1_b39c2b677c13 f f_d1 f_d2 g g_d1 g_d2 t0 t2 dt y0_0_0 theta v_0_0 dW0_0_0 dW1_0_0 = a3
  generalize Gen.grad_heun_s_general_11_g_d1_32d16569e2d0 f f_d1 f_d2 g g_d1 g_d2 t0 t2 dt y0_0_0 theta v_0_0 dW0_0_0 dW1_0_0 = a4
  generalize Gen.grad_heun_s_general_11_g_d1_506c676fd130 f f_d1 f_d2 g g_d1 g_d2 t0 t2 dt y0_0_0 theta v_0_0 dW0_0_0 dW1_0_0 = a5
  generalize Gen.grad_heun_s_general_11_g_d1_6a8c15d1c454 f f_d1 f_d2 g g_d1 g_d2 t0 t2 dt y0_0_0 theta v_0_0 dW0_0_0 dW1_0_0 = a6
  generalize Gen.grad_heun_s_general_11_g_d1_ddd0c5e556e2 f f_d1 f_d2 g g_d1 g_d2 t0 t2 dt y0_0_0 theta v_0_0 dW0_0_0 dW1_0_0 = a7
  ring

set_option maxHeartbeats 4000000 in
/-- `grad_midpoint_s_scalar_11`: backprop `gth` = forward derivative `tth` -/
theorem grad_midpoint_s_scalar_11_gth  (f : K → K → K → K) (f_d1 : K → K → K → K) (f_d2 : K → K → K → K) (g : K → K → K → K) (g_d1 : K → K → K → K) (g_d2 : K → K → K → K) (t0 t2 dt y0_0_0 theta v_0_0 dW0_0_0 dW1_0_0 : K) :
    Gen.grad_midpoint_s_scalar_11_gth f f_d1 f_d2 g g_d1 g_d2 t0 t2 dt y0_0_0 theta v_0_0 dW0_0_0 dW1_0_0 = Gen.grad_midpoint_s_scalar_11_tth f f_d1 f_d2 g g_d1 g_d2 t0 t2 dt y0_0_0 theta v_0_0 dW0_0_0 dW1_0_0 := by
  simp only [Gen.grad_midpoint_s_scalar_11_gth, Gen.grad_midpoint_s_scalar_11_tth]
  generalize Gen.grad_midpoint_s_scalar_11_f_d1_5ee6dd087015 f f_d1 f_d2 g g_d1 g_d2 t0 t2 dt y0_0_0 theta v_0_0 dW0_0_0 dW1_0_0 = a0
  generalize Gen.grad_midpoint_s_scalar_11_f_d1_703972b470e0 f f_d1 f_d2 g g_d1 g_d2 t0 t2 dt y0_0_0 theta v_0_0 dW0_0_0 dW1_0_0 = a1
  generalize Gen.grad_midpoint_s_scalar_11_f_d1_ea194427e5d2 f f_d1 f_d2 g g_d1 g_d2 t0 t2 dt y0_0_0 theta v_0_0 dW0_0_0 dW1_0_0 = a2
  generalize Gen.grad_midpoint_s_scalar_11_f_d2_0b924ab0a277 f f_d1 f_d2 g g_d1 g_d2 t0 t2 dt y0_0_0 theta v_0_0 dW0_0_0 dW1_0_0 = a3
  generalize Gen.grad_midpoint_s_scalar_11_f_d2_75ad011491cf f f_d1 f_d2 g g_d1 g_d2 t0 t2 dt y0_0_0 theta v_0_0 dW0_0_0 dW1_0_0 = a4
  generalize Gen.grad_midpoint_s_scalar_11_f_d2_7af3983cc4c0 f f_d1 f_d2 g g_d1 g_d2 t0 t2 dt y0_0_0 theta v_0_0 dW0_0_0 dW1_0_0 = a5
  generalize Gen.grad_midpoint_s_scalar_11_f_d2_d7cbc9408b90 f f_d1 f_d2 g g_d1 g_d2 t0 t2 dt y0_0_0 theta v_0_0 dW0_0_0 dW1_0_0 = a6
  generalize Gen.grad_midpoint_s_scalar_11_g_d1_4cebf89ea8f9 f f_d1 f_d2 g g_d1 g_d2 t0 t2 dt y0_0_0 theta v_0_0 dW0_0_0 dW1_0_0 = a7
  generalize Gen.grad_midpoint_s_scalar_11_g_d1_6efd91c6bd6e f f_d1 f_d2 g g_d1 g_d2 t0 t2 dt y0_0_0 theta v_0_0 dW0_0_0 dW1_0_0 = a8
  generalize Gen.grad_midpoint_s_scalar_11_g_d1_76b5237ed2e6 f f_d1 f_d2 g g_d1 g_d2 t0 t2 dt y0_0_0 theta v_0_0 dW0_0_0 dW1_0_0 = a9
  generalize Gen.grad_midpoint_s_scalar_11_g_d2_722b7a6bbfae f f_d1 f_d2 g g_d1 g_d2 t0 t2 dt y0_0_0 theta v_0_0 dW0_0_0 dW1_0_0 = a10
  generalize Gen.grad_midpoint_s_scalar_11_g_d2_971f06219250 f f_d1 f_d2 g g_d1 g_d2 t0 t2 dt y0_0_0 theta v_0_0 dW0_0_0 dW1_0_0 = a11
  generalize Gen.grad_midpoint_s_scalar_11_g_d2_e3437f9b71a5 f f_d1 f_d2 g g_d1 g_d2 t0 t2 dt y0_0_0 theta v_0_0 dW0_0_0 dW1_0_0 = a12
  generalize Gen.grad_midpoint_s_scalar_11_g_d2_ee9a050cb9fa f f_d1 f_d2 g g_d1 g_d2 t0 t2 dt y0_0_0 theta v_0_0 dW0_0_0 dW1_0_0 = a13
  ring

set_option maxHeartbeats 4000000 in
/-- `grad_midpoint_s_scalar_11`: backprop `gy_0_0` = forward derivative `ty_0_0` -/
theorem grad_midpoint_s_scalar_11_gy_0_0  (f : K → K → K → K) (f_d1 : K → K → K → K) (f_d2 : K → K → K → K) (g : K → K → K → K) (g_d1 : K → K → K → K) (g_d2 : K → K → K → K) (t0 t2 dt y0_0_0 theta v_0_0 dW0_0_0 dW1_0_0 : K) :
    Gen.grad_midpoint_s_scalar_11_gy_0_0 f f_d1 f_d2 g g_d1 g_d2 t0 t2 dt y0_0_0 theta v_0_0 dW0_0_0 dW1_0_0 = Gen.grad_midpoint_s_scalar_11_ty_0_0 f f_d1 f_d2 g g_d1 g_d2 t0 t2 dt y0_0_0 theta v_0_0 dW0_0_0 dW1_0_0 := by
  simp only [Gen.grad_midpoint_s_scalar_11_gy_0_0, Gen.grad_midpoint_s_scalar_11_ty_0_0]
  generalize Gen.grad_midpoint_s_scalar_11_f_d1_5ee6dd087015 f f_d1 f_d2 g g_d1 g_d2 t0 t2 dt y0_0_0 theta v_0_0 dW0_0_0 dW1_0_0 = a0
  generalize Gen.grad_midpoint_s_scalar_11_f_d1_703972b470e0 f f_d1 f_d2 g g_d1 g_d2 t0 t2 dt y0_0_0 theta v_0_0 dW0_0_0 dW1_0_0 = a1
  generalize Gen.grad_midpoint_s_scalar_11_f_d1_b39c2b677c13 f f_d1 f_d2 g g_d1 g_d2 t0 t2 dt y0_0_0 theta v_0_0 dW0_0_0 dW1_0_0 = a2
  generalize Gen.grad_midpoint_s_scalar_11_f_d1_ea194427e5d2 f f_d1 f_d2 g g_d1 g_d2 t0 t2 dt y0_0_0 theta v_0_0 dW0_0_0 dW1_0_0 = a3
  generalize Gen.grad_midpoint_s_scalar_11_g_d1_4cebf89ea8f9 f f_d1 f_d2 g g_d1 g_d2 t0 t2 dt y0_0_0 theta v_0_0 dW0_0_0 dW1_0_0 = a4
  generalize Gen.grad_midpoint_s_scalar_11_g_d1_6efd91c6bd6e f f_d1 f_d2 g g_d1 g_d2 t0 t2 dt y0_0_0 theta v_0_0 dW0_0_0 dW1_0_0 = a5
  generalize Gen.grad_midpoint_s_scalar_11_g_d1_76b5237ed2e6 f f_d1 f_d2 g g_d1 g_d2 t0 t2 dt y0_0_0 theta v_0_0 dW0_0_0 dW1_0_0 = a6
  generalize Gen.grad_midpoint_s_scalar_11_g_d1_ddd0c5e556e2 f f_d1 f_d2 g g_d1 g_d2 t0 t2 dt y0_0_0 theta v_0_0 dW0_0_0 dW1_0_0 = a7
  ring

set_option maxHeartbeats 4000000 in
/-- `grad_log_ode_s_additive_11`: backprop `gth` = forward derivative `tth` -/
theorem grad_log_ode_s_additive_11_gth  (f : K → K → K → K) (f_d1 : K → K → K → K) (f_d2 : K → K → K → K) (g : K → K → K) (g_d1 : K → K → K) (t0 t2 dt y0_0_0 theta v_0_0 dW0_0_0 dW1_0_0 U0_0_0 U1_0_0 A0_0_0_0 A1_0_0_0 : K) :
    Gen.grad_log_ode_s_additive_11_gth f f_d1 f_d2 g g_d1 t0 t2 dt y0_0_0 theta v_0_0 dW0_0_0 dW1_0_0 U0_0_0 U1_0_0 A0_0_0_0 A1_0_0_0 = Gen.grad_log_ode_s_additive_11_tth f f_d1 f_d2 g g_d1 t0 t2 dt y0_0_0 theta v_0_0 dW0_0_0 dW1_0_0 U0_0_0 U1_0_0 A0_0_0_0 A1_0_0_0 := by
  simp only [Gen.grad_log_ode_s_additive_11_gth, Gen.grad_log_ode_s_additive_11_tth]
  generalize Gen.grad_log_ode_s_additive_11_f_d1_0d0c9a3077c6 f f_d1 f_d2 g g_d1 t0 t2 dt y0_0_0 theta v_0_0 dW0_0_0 dW1_0_0 U0_0_0 U1_0_0 A0_0_0_0 A1_0_0_0 = a0
  generalize Gen.grad_log_ode_s_additive_11_f_d1_e98ae284e0cb f f_d1 f_d2 g g_d1 t0 t2 dt y0_0_0 theta v_0_0 dW0_0_0 dW1_0_0 U0_0_0 U1_0_0 A0_0_0_0 A1_0_0_0 = a1
  generalize Gen.grad_log_ode_s_additive_11_f_d1_ff7f21209d68 f f_d1 f_d2 g g_d1 t0 t2 dt y0_0_0 theta v_0_0 dW0_0_0 dW1_0_0 U0_0_0 U1_0_0 A0_0_0_0 A1_0_0_0 = a2
  generalize Gen.grad_log_ode_s_additive_11_f_d2_29b33e7b64ab f f_d1 f_d2 g g_d1 t0 t2 dt y0_0_0 theta v_0_0 dW0_0_0 dW1_0_0 U0_0_0 U1_0_0 A0_0_0_0 A1_0_0_0 = a3
  generalize Gen.grad_log_ode_s_additive_11_f_d2_75ad011491cf f f_d1 f_d2 g g_d1 t0 t2 dt y0_0_0 theta v_0_0 dW0_0_0 dW1_0_0 U0_0_0 U1_0_0 A0_0_0_0 A1_0_0_0 = a4
  generalize Gen.grad_log_ode_s_additive_11_f_d2_9c26a268e4ad f f_d1 f_d2 g g_d1 t0 t2 dt y0_0_0 theta v_0_0 dW0_0_0 dW1_0_0 U0_0_0 U1_0_0 A0_0_0_0 A1_0_0_0 = a5
  generalize Gen.grad_log_ode_s_additive_11_f_d2_d17937baee3f f f_d1 f_d2 g g_d1 t0 t2 dt y0_0_0 theta v_0_0 dW0_0_0 dW1_0_0 U0_0_0 U1_0_0 A0_0_0_0 A1_0_0_0 = a6
  generalize Gen.grad_log_ode_s_additive_11_g_d1_39aaf857762f f f_d1 f_d2 g g_d1 t0 t2 dt y0_0_0 theta v_0_0 dW0_0_0 dW1_0_0 U0_0_0 U1_0_0 A0_0_0_0 A1_0_0_0 = a7
  generalize Gen.grad_log_ode_s_additive_11_g_d1_3d49352567ba f f_d1 f_d2 g g_d1 t0 t2 dt y0_0_0 theta v_0_0 dW0_0_0 dW1_0_0 U0_0_0 U1_0_0 A0_0_0_0 A1_0_0_0 = a8
  generalize Gen.grad_log_ode_s_additive_11_g_d1_d6c79566b23d f f_d1 f_d2 g g_d1 t0 t2 dt y0_0_0 theta v_0_0 dW0_0_0 dW1_0_0 U0_0_0 U1_0_0 A0_0_0_0 A1_0_0_0 = a9
  generalize Gen.grad_log_ode_s_additive_11_g_d1_e503fc41dafc f f_d1 f_d2 g g_d1 t0 t2 dt y0_0_0 theta v_0_0 dW0_0_0 dW1_0_0 U0_0_0 U1_0_0 A0_0_0_0 A1_0_0_0 = a10
  ring

set_option maxHeartbeats 4000000 in
/-- `grad_log_ode_s_additive_11`: backprop `gy_0_0` = forward derivative `ty_0_0` -/
theorem grad_log_ode_s_additive_11_gy_0_0  (f : K → K → K → K) (f_d1 : K → K → K → K) (f_d2 : K → K → K → K) (g : K → K → K) (g_d1 : K → K → K) (t0 t2 dt y0_0_0 theta v_0_0 dW0_0_0 dW1_0_0 U0_0_0 U1_0_0 A0_0_0_0 A1_0_0_0 : K) :
    Gen.grad_log_ode_s_additive_11_gy_0_0 f f_d1 f_d2 g g_d1 t0 t2 dt y0_0_0 theta v_0_0 dW0_0_0 dW1_0_0 U0_0_0 U1_0_0 A0_0_0_0 A1_0_0_0 = Gen.grad_log_ode_s_additive_11_ty_0_0 f f_d1 f_d2 g g_d1 t0 t2 dt y0_0_0 theta v_0_0 dW0_0_0 dW1_0_0 U0_0_0 U1_0_0 A0_0_0_0 A1_0_0_0 := by
  simp only [Gen.grad_log_ode_s_additive_11_gy_0_0, Gen.grad_log_ode_s_additive_11_ty_0_0]
  generalize Gen.grad_log_ode_s_additive_11_f_d1_0d0c9a3077c6 f f_d1 f_d2 g g_d1 t0 t2 dt y0_0_0 theta v_0_0 dW0_0_0 dW1_0_0 U0_0_0 U1_0_0 A0_0_0_0 A1_0_0_0 = a0
  generalize Gen.grad_log_ode_s_additive_11_f_d1_b39c2b677c13 f f_d1 f_d2 g g_d1 t0 t2 dt y0_0_0 theta v_0_0 dW0_0_0 dW1_0_0 U0_0_0 U1_0_0 A0_0_0_0 A1_0_0_0 = a1
  generalize Gen.grad_log_ode_s_additive_11_f_d1_e98ae284e0cb f f_d1 f_d2 g g_d1 t0 t2 dt y0_0_0 theta v_0_0 dW0_0_0 dW1_0_0 U0_0_0 U1_0_0 A0_0_0_0 A1_0_0_0 = a2
  generalize Gen.grad_log_ode_s_additive_11_f_d1_ff7f21209d68 f f_d1 f_d2 g g_d1 t0 t2 dt y0_0_0 theta v_0_0 dW0_0_0 dW1_0_0 U0_0_0 U1_0_0 A0_0_0_0 A1_0_0_0 = a3
  ring

set_option maxHeartbeats 4000000 in
/-- `grad_reversible_heun_s_diagonal_11`: backprop `gth` = forward derivative `tth` -/
theorem grad_reversible_heun_s_diagonal_11_gth  (f : K → K → K → K) (f_d1 : K → K → K → K) (f_d2 : K → K → K → K) (g : K → K → K → K) (g_d1 : K → K → K → K) (g_d2 : K → K → K → K) (t0 t2 dt y0_0_0 theta v_0_0 dW0_0_0 dW1_0_0 : K) :
    Gen.grad_reversible_heun_s_diagonal_11_gth f f_d1 f_d2 g g_d1 g_d2 t0 t2 dt y0_0_0 theta v_0_0 dW0_0_0 dW1_0_0 = Gen.grad_reversible_heun_s_diagonal_11_tth f f_d1 f_d2 g g_d1 g_d2 t0 t2 dt y0_0_0 theta v_0_0 dW0_0_0 dW1_0_0 := by
  simp only [Gen.grad_reversible_heun_s_diagonal_11_gth, Gen.grad_reversible_heun_s_diagonal_11_tth]
  generalize Gen.grad_reversible_heun_s_diagonal_11_f_d1_668ff2e067df f f_d1 f_d2 g g_d1 g_d2 t0 t2 dt y0_0_0 theta v_0_0 dW0_0_0 dW1_0_0 = a0
  generalize Gen.grad_reversible_heun_s_diagonal_11_f_d1_7d8b6bbb9a6e f f_d1 f_d2 g g_d1 g_d2 t0 t2 dt y0_0_0 theta v_0_0 dW0_0_0 dW1_0_0 = a1
  generalize Gen.grad_reversible_heun_s_diagonal_11_f_d2_75ad011491cf f f_d1 f_d2 g g_d1 g_d2 t0 t2 dt y0_0_0 theta v_0_0 dW0_0_0 dW1_0_0 = a2
  generalize Gen.grad_reversible_heun_s_diagonal_11_f_d2_aa59138e4563 f f_d1 f_d2 g g_d1 g_d2 t0 t2 dt y0_0_0 theta v_0_0 dW0_0_0 dW1_0_0 = a3
  generalize Gen.grad_reversible_heun_s_diagonal_11_f_d2_f85d5dcbccb1 f f_d1 f_d2 g g_d1 g_d2 t0 t2 dt y0_0_0 theta v_0_0 dW0_0_0 dW1_0_0 = a4
  generalize Gen.grad_reversible_heun_s_diagonal_11_g_d1_09229750873c f f_d1 f_d2 g g_d1 g_d2 t0 t2 dt y0_0_0 theta v_0_0 dW0_0_0 dW1_0_0 = a5
  generalize Gen.grad_reversible_heun_s_diagonal_11_g_d1_18d452194dca f f_d1 f_d2 g g_d1 g_d2 t0 t2 dt y0_0_0 theta v_0_0 dW0_0_0 dW1_0_0 = a6
  generalize Gen.grad_reversible_heun_s_diagonal_11_g_d2_722b7a6bbfae f f_d1 f_d2 g g_d1 g_d2 t0 t2 dt y0_0_0 theta v_0_0 dW0_0_0 dW1_0_0 = a7
  generalize Gen.grad_reversible_heun_s_diagonal_11_g_d2_72ad817e521d f f_d1 f_d2 g g_d1 g_d2 t0 t2 dt y0_0_0 theta v_0_0 dW0_0_0 dW1_0_0 = a8
  generalize Gen.grad_reversible_heun_s_diagonal_11_g_d2_b5ffc99eee28 f f_d1 f_d2 g g_d1 g_d2 t0 t2 dt y0_0_0 theta v_0_0 dW0_0_0 dW1_0_0 = a9
  ring

set_option maxHeartbeats 4000000 in
/-- `grad_reversible_heun_s_diagonal_11`: backprop `gy_0_0` = forward derivative `ty_0_0` -/
theorem grad_reversible_heun_s_diagonal_11_gy_0_0  (f : K → K → K → K) (f_d1 : K → K → K → K) (f_d2 : K → K → K → K) (g : K → K → K → K) (g_d1 : K → K → K → K) (g_d2 : K → K → K → K) (t0 t2 dt y0_0_0 theta v_0_0 dW0_0_0 dW1_0_0 : K) :
    Gen.grad_reversible_heun_s_diagonal_11_gy_0_0 f f_d1 f_d2 g g_d1 g_d2 t0 t2 dt y0_0_0 theta v_0_0 dW0_0_0 dW1_0_0 = Gen.grad_reversible_heun_s_diagonal_11_ty_0_0 f f_d1 f_d2 g g_d1 g_d2 t0 t2 dt y0_0_0 theta v_0_0 dW0_0_0 dW1_0_0 := by
  simp only [Gen.grad_reversible_heun_s_diagonal_11_gy_0_0, Gen.grad_reversible_heun_s_diagonal_11_ty_0_0]
  generalize Gen.grad_reversible_heun_s_diagonal_11_f_d1_668ff2e067df f f_d1 f_d2 g g_d1 g_d2 t0 t2 dt y0_0_0 theta v_0_0 dW0_0_0 dW1_0_0 = a0
  generalize Gen.grad_reversible_heun_s_diagonal_11_f_d1_7d8b6bbb9a6e f f_d1 f_d2 g g_d1 g_d2 t0 t2 dt y0_0_0 theta v_0_0 dW0_0_0 dW1_0_0 = a1
  generalize Gen.grad_reversible_heun_s_diagonal_11_f_d1_b39c2b677c13 f f_d1 f_d2 g g_d1 g_d2 t0 t2 dt y0_0_0 theta v_0_0 dW0_0_0 dW1_0_0 = a2
  generalize Gen.grad_reversible_heun_s_diagonal_11_g_d1_09229750873c f f_d1 f_d2 g g_d1 g_d2 t0 t2 dt y0_0_0 theta v_0_0 dW0_0_0 dW1_0_0 = a3
  generalize Gen.grad_reversible_heun_s_diagonal_11_g_d1_18d452194dca f f_d1 f_d2 g g_d1 g_d2 t0 t2 dt y0_0_0 theta v_0_0 dW0_0_0 dW1_0_0 = a4
  generalize Gen.grad_reversible_heun_s_diagonal_11_g_d1_ddd0c5e556e2 f f_d1 f_d2 g g_d1 g_d2 t0 t2 dt y0_0_0 theta v_0_0 dW0_0_0 dW1_0_0 = a5
  ring

set_option maxHeartbeats 4000000 in
/-- `grad_reversible_heun_s_general_11`: backprop `gth` = forward derivative `tth` -/
theorem grad_reversible_heun_s_general_11_gth  (f : K → K → K → K) (f_d1 : K → K → K → K) (f_d2 : K → K → K → K) (g : K → K → K → K) (g_d1 : K → K → K → K) (g_d2 : K → K → K → K) (t0 t2 dt y0_0_0 theta v_0_0 dW0_0_0 dW1_0_0 : K) :
    Gen.grad_reversible_heun_s_general_11_gth f f_d1 f_d2 g g_d1 g_d2 t0 t2 dt y0_0_0 theta v_0_0 dW0_0_0 dW1_0_0 = Gen.grad_reversible_heun_s_general_11_tth f f_d1 f_d2 g g_d1 g_d2 t0 t2 dt y0_0_0 theta v_0_0 dW0_0_0 dW1_0_0 := by
  simp only [Gen.grad_reversible_heun_s_general_11_gth, Gen.grad_reversible_heun_s_general_11_tth]
  generalize Gen.grad_reversible_heun_s_general_11_f_d1_668ff2e067df f f_d1 f_d2 g g_d1 g_d2 t0 t2 dt y0_0_0 theta v_0_0 dW0_0_0 dW1_0_0 = a0
  generalize Gen.grad_reversible_heun_s_general_11_f_d1_7d8b6bbb9a6e f f_d1 f_d2 g g_d1 g_d2 t0 t2 dt y0_0_0 theta v_0_0 dW0_0_0 dW1_0_0 = a1
  generalize Gen.grad_reversible_heun_s_general_11_f_d2_75ad011491cf f f_d1 f_d2 g g_d1 g_d2 t0 t2 dt y0_0_0 theta v_0_0 dW0_0_0 dW1_0_0 = a2
  generalize Gen.grad_reversible_heun_s_general_11_f_d2_aa59138e4563 f f_d1 f_d2 g g_d1 g_d2 t0 t2 dt y0_0_0 theta v_0_0 dW0_0_0 dW1_0_0 = a3
  generalize Gen.grad_reversible_heun_s_general_11_f_d2_f85d5dcbccb1 f f_d1 f_d2 g g_d1 g_d2 t0 t2 dt y0_0_0 theta v_0_0 dW0_0_0 dW1_0_0 = a4
  generalize Gen.grad_reversible_heun_s_general_11_g_d1_09229750873c f f_d1 f_d2 g g_d1 g_d2 t0 t2 dt y0_0_0 theta v_0_0 dW0_0_0 dW1_0_0 = a5
  generalize Gen.grad_reversible_heun_s_general_11_g_d1_18d452194dca f f_d1 f_d2 g g_d1 g_d2 t0 t2 dt y0_0_0 theta v_0_0 dW0_0_0 dW1_0_0 = a6
  generalize Gen.grad_reversible_heun_s_general_11_g_d2_722b7a6bbfae f f_d1 f_d2 g g_d1 g_d2 t0 t2 dt y0_0_0 theta v_0_0 dW0_0_0 dW1_0_0 = a7
  generalize Gen.grad_reversible_heun_s_general_11_g_d2_72ad817e521d f f_d1 f_d2 g g_d1 g_d2 t0 t2 dt y0_0_0 theta v_0_0 dW0_0_0 dW1_0_0 = a8
  generalize Gen.grad_reversible_heun_s_general_11_g_d2_b5ffc99eee28 f f_d1 f_d2 g g_d1 g_d2 t0 t2 dt y0_0_0 theta v_0_0 dW0_0_0 dW1_0_0 = a9
  ring

set_option maxHeartbeats 4000000 in
/-- `grad_reversible_heun_s_general_11`: backprop `gy_0_0` = forward derivative `ty_0_0` -/
theorem grad_reversible_heun_s_general_11_gy_0_0  (f : K → K → K → K) (f_d1 : K → K → K → K) (f_d2 : K → K → K → K) (g : K → K → K → K) (g_d1 : K → K → K → K) (g_d2 : K → K → K → K) (t0 t2 dt y0_0_0 theta v_0_0 dW0_0_0 dW1_0_0 : K) :
    Gen.grad_reversible_heun_s_general_11_gy_0_0 f f_d1 f_d2 g g_d1 g_d2 t0 t2 dt y0_0_0 theta v_0_0 dW0_0_0 dW1_0_0 = Gen.grad_reversible_heun_s_general_11_ty_0_0 f f_d1 f_d2 g g_d1 g_d2 t0 t2 dt y0_0_0 theta v_0_0 dW0_0_0 dW1_0_0 := by
  simp only [Gen.grad_reversible_heun_s_general_11_gy_0_0, Gen.grad_reversible_heun_s_general_11_ty_0_0]
  generalize Gen.grad_reversible_heun_s_general_11_f_d1_668ff2e067df f f_d1 f_d2 g g_d1 g_d2 t0 t2 dt y0_0_0 theta v_0_0 dW0_0_0 dW1_0_0 = a0
  generalize Gen.grad_reversible_heun_s_general_11_f_d1_7d8b6bbb9a6e f f_d1 f_d2 g g_d1 g_d2 t0 t2 dt y0_0_0 theta v_0_0 dW0_0_0 dW1_0_0 = a1
  generalize Gen.grad_reversible_heun_s_general_11_f_d1_b39c2b677c13 f f_d1 f_d2 g g_d1 g_d2 t0 t2 dt y0_0_0 theta v_0_0 dW0_0_0 dW1_0_0 = a2
  generalize Gen.grad_reversible_heun_s_general_11_g_d1_09229750873c f f_d1 f_d2 g g_d1 g_d2 t0 t2 dt y0_0_0 theta v_0_0 dW0_0_0 dW1_0_0 = a3
  generalize Gen.grad_reversible_heun_s_general_11_g_d1_18d452194dca f f_d1 f_d2 g g_d1 g_d2 t0 t2 dt y0_0_0 theta v_0_0 dW0_0_0 dW1_0_0 = a4
  generalize Gen.grad_reversible_heun_s_general_11_g_d1_ddd0c5e556e2 f f_d1 f_d2 g g_d1 g_d2 t0 t2 dt y0_0_0 theta v_0_0 dW0_0_0 dW1_0_0 = a5
  ring

set_option maxHeartbeats 4000000 in
/-- `grad_reversible_heun_s_general_22`: backprop `gth` = forward derivative `tth` -/
theorem grad_reversible_heun_s_general_22_gth  (f0 : K → K → K → K → K) (f0_d1 : K → K → K → K → K) (f0_d2 : K → K → K → K → K) (f0_d3 : K → K → K → K → K) (f1 : K → K → K → K → K) (f1_d1 : K → K → K → K → K) (f1_d2 : K → K → K → K → K) (f1_d3 : K → K → K → K → K) (g00 : K → K → K → K → K) (g00_d1 : K → K → K → K → K) (g00_d2 : K → K → K → K → K) (g00_d3 : K → K → K → K → K) (g01 : K → K → K → K → K) (g01_d1 : K → K → K → K → K) (g01_d2 : K → K → K → K → K) (g01_d3 : K → K → K → K → K) (g10 : K → K → K → K → K) (g10_d1 : K → K → K → K → K) (g10_d2 : K → K → K → K → K) (g10_d3 : K → K → K → K → K) (g11 : K → K → K → K → K) (g11_d1 : K → K → K → K → K) (g11_d2 : K → K → K → K → K) (g11_d3 : K → K → K → K → K) (t0 t2 dt y0_0_0 y0_0_1 theta v_0_0 v_0_1 dW0_0_0 dW0_0_1 : K) :
    Gen.grad_reversible_heun_s_general_22_gth f0 f0_d1 f0_d2 f0_d3 f1 f1_d1 f1_d2 f1_d3 g00 g00_d1 g00_d2 g00_d3 g01 g01_d1 g01_d2 g01_d3 g10 g10_d1 g10_d2 g10_d3 g11 g11_d1 g11_d2 g11_d3 t0 t2 dt y0_0_0 y0_0_1 theta v_0_0 v_0_1 dW0_0_0 dW0_0_1 = Gen.grad_reversible_heun_s_general_22_tth f0 f0_d1 f0_d2 f0_d3 f1 f1_d1 f1_d2 f1_d3 g00 g00_d1 g00_d2 g00_d3 g01 g01_d1 g01_d2 g01_d3 g10 g10_d1 g10_d2 g10_d3 g11 g11_d1 g11_d2 g11_d3 t0 t2 dt y0_0_0 y0_0_1 theta v_0_0 v_0_1 dW0_0_0 dW0_0_1 := by
  simp only [Gen.grad_reversible_heun_s_general_22_gth, Gen.grad_reversible_heun_s_general_22_tth]
  generalize Gen.grad_reversible_heun_s_general_22_f0_d1_77e5c7a2795b f0 f0_d1 f0_d2 f0_d3 f1 f1_d1 f1_d2 f1_d3 g00 g00_d1 g00_d2 g00_d3 g01 g01_d1 g01_d2 g01_d3 g10 g10_d1 g10_d2 g10_d3 g11 g11_d1 g11_d2 g11_d3 t0 t2 dt y0_0_0 y0_0_1 theta v_0_0 v_0_1 dW0_0_0 dW0_0_1 = a0
  generalize Gen.grad_reversible_heun_s_general_22_f0_d2_55345f65df34 f0 f0_d1 f0_d2 f0_d3 f1 f1_d1 f1_d2 f1_d3 g00 g00_d1 g00_d2 g00_d3 g01 g01_d1 g01_d2 g01_d3 g10 g10_d1 g10_d2 g10_d3 g11 g11_d1 g11_d2 g11_d3 t0 t2 dt y0_0_0 y0_0_1 theta v_0_0 v_0_1 dW0_0_0 dW0_0_1 = a1
  generalize Gen.grad_reversible_heun_s_general_22_f0_d3_117f0ace4604 f0 f0_d1 f0_d2 f0_d3 f1 f1_d1 f1_d2 f1_d3 g00 g00_d1 g00_d2 g00_d3 g01 g01_d1 g01_d2 g01_d3 g10 g10_d1 g10_d2 g10_d3 g11 g11_d1 g11_d2 g11_d3 t0 t2 dt y0_0_0 y0_0_1 theta v_0_0 v_0_1 dW0_0_0 dW0_0_1 = a2
  generalize Gen.grad_reversible_heun_s_general_22_f0_d3_bd942d2575cd f0 f0_d1 f0_d2 f0_d3 f1 f1_d1 f1_d2 f1_d3 g00 g00_d1 g00_d2 g00_d3 g01 g01_d1 g01_d2 g01_d3 g10 g10_d1 g10_d2 g10_d3 g11 g11_d1 g11_d2 g11_d3 t0 t2 dt y0_0_0 y0_0_1 theta v_0_0 v_0_1 dW0_0_0 dW0_0_1 = a3
  generalize Gen.grad_reversible_heun_s_general_22_f1_d1_b2b28c391301 f0 f0_d1 f0_d2 f0_d3 f1 f1_d1 f1_d2 f1_d3 g00 g00_d1 g00_d2 g00_d3 g01 g01_d1 g01_d2 g01_d3 g10 g10_d1 g10_d2 g10_d3 g11 g11_d1 g11_d2 g11_d3 t0 t2 dt y0_0_0 y0_0_1 theta v_0_0 v_0_1 dW0_0_0 dW0_0_1 = a4
  generalize Gen.grad_reversible_heun_s_general_22_f1_d2_a161aedeeb25 f0 f0_d1 f0_d2 f0_d3 f1 f1_d1 f1_d2 f1_d3 g00 g00_d1 g00_d2 g00_d3 g01 g01_d1 g01_d2 g01_d3 g10 g10_d1 g10_d2 g10_d3 g11 g11_d1 g11_d2 g11_d3 t0 t2 dt y0_0_0 y0_0_1 theta v_0_0 v_0_1 dW0_0_0 dW0_0_1 = a5
  generalize Gen.grad_reversible_heun_s_general_22_f1_d3_711269134f9c f0 f0_d1 f0_d2 f0_d3 f1 f1_d1 f1_d2 f1_d3 g00 g00_d1 g00_d2 g00_d3 g01 g01_d1 g01_d2 g01_d3 g10 g10_d1 g10_d2 g10_d3 g11 g11_d1 g11_d2 g11_d3 t0 t2 dt y0_0_0 y0_0_1 theta v_0_0 v_0_1 dW0_0_0 dW0_0_1 = a6
  generalize Gen.grad_reversible_heun_s_general_22_f1_d3_99b62b03a77a f0 f0_d1 f0_d2 f0_d3 f1 f1_d1 f1_d2 f1_d3 g00 g00_d1 g00_d2 g00_d3 g01 g01_d1 g01_d2 g01_d3 g10 g10_d1 g10_d2 g10_d3 g11 g11_d1 g11_d2 g11_d3 t0 t2 dt y0_0_0 y0_0_1 theta v_0_0 v_0_1 dW0_0_0 dW0_0_1 = a7
  generalize Gen.grad_reversible_heun_s_general_22_g00_d1_d045b0262d93 f0 f0_d1 f0_d2 f0_d3 f1 f1_d1 f1_d2 f1_d3 g00 g00_d1 g00_d2 g00_d3 g01 g01_d1 g01_d2 g01_d3 g10 g10_d1 g10_d2 g10_d3 g11 g11_d1 g11_d2 g11_d3 t0 t2 dt y0_0_0 y0_0_1 theta v_0_0 v_0_1 dW0_0_0 dW0_0_1 = a8
  generalize Gen.grad_reversible_heun_s_general_22_g00_d2_045eda3b0fd9 f0 f0_d1 f0_d2 f0_d3 f1 f1_d1 f1_d2 f1_d3 g00 g00_d1 g00_d2 g00_d3 g01 g01_d1 g01_d2 g01_d3 g10 g10_d1 g10_d2 g10_d3 g11 g11_d1 g11_d2 g11_d3 t0 t2 dt y0_0_0 y0_0_1 theta v_0_0 v_0_1 dW0_0_0 dW0_0_1 = a9
  generalize Gen.grad_reversible_heun_s_general_22_g00_d3_3c9c1013bc30 f0 f0_d1 f0_d2 f0_d3 f1 f1_d1 f1_d2 f1_d3 g00 g00_d1 g00_d2 g00_d3 g01 g01_d1 g01_d2 g01_d3 g10 g10_d1 g10_d2 g10_d3 g11 g11_d1 g11_d2 g11_d3 t0 t2 dt y0_0_0 y0_0_1 theta v_0_0 v_0_1 dW0_0_0 dW0_0_1 = a10
  generalize Gen.grad_reversible_heun_s_general_22_g00_d3_b94e31578305 f0 f0_d1 f0_d2 f0_d3 f1 f1_d1 f1_d2 f1_d3 g00 g00_d1 g00_d2 g00_d3 g01 g01_d1 g01_d2 g01_d3 g10 g10_d1 g10_d2 g10_d3 g11 g11_d1 g11_d2 g11_d3 t0 t2 dt y0_0_0 y0_0_1 theta v_0_0 v_0_1 dW0_0_0 dW0_0_1 = a11
  generalize Gen.grad_reversible_heun_s_general_22_g01_d1_096aa254ca4c f0 f0_d1 f0_d2 f0_d3 f1 f1_d1 f1_d2 f1_d3 g00 g00_d1 g00_d2 g00_d3 g01 g01_d1 g01_d2 g01_d3 g10 g10_d1 g10_d2 g10_d3 g11 g11_d1 g11_d2 g11_d3 t0 t2 dt y0_0_0 y0_0_1 theta v_0_0 v_0_1 dW0_0_0 dW0_0_1 = a12
  generalize Gen.grad_reversible_heun_s_general_22_g01_d2_605b9285dac6 f0 f0_d1 f0_d2 f0_d3 f1 f1_d1 f1_d2 f1_d3 g00 g00_d1 g00_d2 g00_d3 g01 g01_d1 g01_d2 g01_d3 g10 g10_d1 g10_d2 g10_d3 g11 g11_d1 g11_d2 g11_d3 t0 t2 dt y0_0_0 y0_0_1 theta v_0_0 v_0_1 dW0_0_0 dW0_0_1 = a13
  generalize Gen.grad_reversible_heun_s_general_22_g01_d3_36b2116c1fe6 f0 f0_d1 f0_d2 f0_d3 f1 f1_d1 f1_d2 f1_d3 g00 g00_d1 g00_d2 g00_d3 g01 g01_d1 g01_d2 g01_d3 g10 g10_d1 g10_d2 g10_d3 g11 g11_d1 g11_d2 g11_d3 t0 t2 dt y0_0_0 y0_0_1 theta v_0_0 v_0_1 dW0_0_0 dW0_0_1 = a14
  generalize Gen.grad_reversible_heun_s_general_22_g01_d3_c841a128504b f0 f0_d1 f0_d2 f0_d3 f1 f1_d1 f1_d2 f1_d3 g00 g00_d1 g00_d2 g00_d3 g01 g01_d1 g01_d2 g01_d3 g10 g10_d1 g10_d2 g10_d3 g11 g11_d1 g11_d2 g11_d3 t0 t2 dt y0_0_0 y0_0_1 theta v_0_0 v_0_1 dW0_0_0 dW0_0_1 = a15
  generalize Gen.grad_reversible_heun_s_general_22_g10_d1_c8d1a7e0ae0b f0 f0_d1 f0_d2 f0_d3 f1 f1_d1 f1_d2 f1_d3 g00 g00_d1 g00_d2 g00_d3 g01 g01_d1 g01_d2 g01_d3 g10 g10_d1 g10_d2 g10_d3 g11 g11_d1 g11_d2 g11_d3 t0 t2 dt y0_0_0 y0_0_1 theta v_0_0 v_0_1 dW0_0_0 dW0_0_1 = a16
  generalize Gen.grad_reversible_heun_s_general_22_g10_d2_5ebd58ddec5f f0 f0_d1 f0_d2 f0_d3 f1 f1_d1 f1_d2 f1_d3 g00 g00_d1 g00_d2 g00_d3 g01 g01_d1 g01_d2 g01_d3 g10 g10_d1 g10_d2 g10_d3 g11 g11_d1 g11_d2 g11_d3 t0 t2 dt y0_0_0 y0_0_1 theta v_0_0 v_0_1 dW0_0_0 dW0_0_1 = a17
  generalize Gen.grad_reversible_heun_s_general_22_g10_d3_c04201fdc573 f0 f0_d1 f0_d2 f0_d3 f1 f1_d1 f1_d2 f1_d3 g00 g00_d1 g00_d2 g00_d3 g01 g01_d1 g01_d2 g01_d3 g10 g10_d1 g10_d2 g10_d3 g11 g11_d1 g11_d2 g11_d3 t0 t2 dt y0_0_0 y0_0_1 theta v_0_0 v_0_1 dW0_0_0 dW0_0_1 = a18
  generalize Gen.grad_reversible_heun_s_general_22_g10_d3_f3c762927fb5 f0 f0_d1 f0_d2 f0_d3 f1 f1_d1 f1_d2 f1_d3 g00 g00_d1 g00_d2 g00_d3 g01 g01_d1 g01_d2 g01_d3 g10 g10_d1 g10_d2 g10_d3 g11 g11_d1 g11_d2 g11_d3 t0 t2 dt y0_0_0 y0_0_1 theta v_0_0 v_0_1 dW0_0_0 dW0_0_1 = a19
  generalize Gen.grad_reversible_heun_s_general_22_g11_d1_29afddc1a6e5 f0 f0_d1 f0_d2 f0_d3 f1 f1_d1 f1_d2 f1_d3 g00 g00_d1 g00_d2 g00_d3 g01 g01_d1 g01_d2 g01_d3 g10 g10_d1 g10_d2 g10_d3 g11 g11_d1 g11_d2 g11_d3 t0 t2 dt y0_0_0 y0_0_1 theta v_0_0 v_0_1 dW0_0_0 dW0_0_1 = a20
  generalize Gen.grad_reversible_heun_s_general_22_g11_d2_73b2ca98aa5f f0 f0_d1 f0_d2 f0_d3 f1 f1_d1 f1_d2 f1_d3 g00 g00_d1 g00_d2 g00_d3 g01 g01_d1 g01_d2 g01_d3 g10 g10_d1 g10_d2 g10_d3 g11 g11_d1 g11_d2 g11_d3 t0 t2 dt y0_0_0 y0_0_1 theta v_0_0 v_0_1 dW0_0_0 dW0_0_1 = a21
  generalize Gen.grad_reversible_heun_s_general_22_g11_d3_a0a038d42b97 f0 f0_d1 f0_d2 f0_d3 f1 f1_d1 f1_d2 f1_d3 g00 g00_d1 g00_d2 g00_d3 g01 g01_d1 g01_d2 g01_d3 g10 g10_d1 g10_d2 g10_d3 g11 g11_d1 g11_d2 g11_d3 t0 t2 dt y0_0_0 y0_0_1 theta v_0_0 v_0_1 dW0_0_0 dW0_0_1 = a22
  generalize Gen.grad_reversible_heun_s_general_22_g11_d3_a15e18a17a26 f0 f0_d1 f0_d2 f0_d3 f1 f1_d1 f1_d2 f1_d3 g00 g00_d1 g00_d2 g00_d3 g01 g01_d1 g01_d2 g01_d3 g10 g10_d1 g10_d2 g10_d3 g11 g11_d1 g11_d2 g11_d3 t0 t2 dt y0_0_0 y0_0_1 theta v_0_0 v_0_1 dW0_0_0 dW0_0_1 = a23
  ring

set_option maxHeartbeats 4000000 in
/-- `grad_reversible_heun_s_general_22`: backprop `gy_0_0` = forward derivative `ty_0_0` -/
theorem grad_reversible_heun_s_general_22_gy_0_0  (f0 : K → K → K → K → K) (f0_d1 : K → K → K → K → K) (f0_d2 : K → K → K → K → K) (f0_d3 : K → K → K → K → K) (f1 : K → K → K → K → K) (f1_d1 : K → K → K → K → K) (f1_d2 : K → K → K → K → K) (f1_d3 : K → K → K → K → K) (g00 : K → K → K → K → K) (g00_d1 : K → K → K → K → K) (g00_d2 : K → K → K → K → K) (g00_d3 : K → K → K → K → K) (g01 : K → K → K → K → K) (g01_d1 : K → K → K → K → K) (g01_d2 : K → K → K → K → K) (g01_d3 : K → K → K → K → K) (g10 : K → K → K → K → K) (g10_d1 : K → K → K → K → K) (g10_d2 : K → K → K → K → K) (g10_d3 : K → K → K → K → K) (g11 : K → K → K → K → K) (g11_d1 : K → K → K → K → K) (g11_d2 : K → K → K → K → K) (g11_d3 : K → K → K → K → K) (t0 t2 dt y0_0_0 y0_0_1 theta v_0_0 v_0_1 dW0_0_0 dW0_0_1 : K) :
    Gen.grad_reversible_heun_s_general_22_gy_0_0 f0 f0_d1 f0_d2 f0_d3 f1 f1_d1 f1_d2 f1_d3 g00 g00_d1 g00_d2 g00_d3 g01 g01_d1 g01_d2 g01_d3 g10 g10_d1 g10_d2 g10_d3 g11 g11_d1 g11_d2 g11_d3 t0 t2 dt y0_0_0 y0_0_1 theta v_0_0 v_0_1 dW0_0_0 dW0_0_1 = Gen.grad_reversible_heun_s_general_22_ty_0_0 f0 f0_d1 f0_d2 f0_d3 f1 f1_d1 f1_d2 f1_d3 g00 g00_d1 g00_d2 g00_d3 g01 g01_d1 g01_d2 g01_d3 g10 g10_d1 g10_d2 g10_d3 g11 g11_d1 g11_d2 g11_d3 t0 t2 dt y0_0_0 y0_0_1 theta v_0_0 v_0_1 dW0_0_0 dW0_0_1 := by
  simp only [Gen.grad_reversible_heun_s_general_22_gy_0_0, Gen.grad_reversible_heun_s_general_22_ty_0_0]
  generalize Gen.grad_reversible_heun_s_general_22_f0_d1_7762e1f68fca f0 f0_d1 f0_d2 f0_d3 f1 f1_d1 f1_d2 f1_d3 g00 g00_d1 g00_d2 g00_d3 g01 g01_d1 g01_d2 g01_d3 g10 g10_d1 g10_d2 g10_d3 g11 g11_d1 g11_d2 g11_d3 t0 t2 dt y0_0_0 y0_0_1 theta v_0_0 v_0_1 dW0_0_0 dW0_0_1 = a0
  generalize Gen.grad_reversible_heun_s_general_22_f0_d1_77e5c7a2795b f0 f0_d1 f0_d2 f0_d3 f1 f1_d1 f1_d2 f1_d3 g00 g00_d1 g00_d2 g00_d3 g01 g01_d1 g01_d2 g01_d3 g10 g10_d1 g10_d2 g10_d3 g11 g11_d1 g11_d2 g11_d3 t0 t2 dt y0_0_0 y0_0_1 theta v_0_0 v_0_1 dW0_0_0 dW0_0_1 = a1
  generalize Gen.grad_reversible_heun_s_general_22_f0_d2_55345f65df34 f0 f0_d1 f0_d2 f0_d3 f1 f1_d1 f1_d2 f1_d3 g00 g00_d1 g00_d2 g00_d3 g01 g01_d1 g01_d2 g01_d3 g10 g10_d1 g10_d2 g10_d3 g11 g11_d1 g11_d2 g11_d3 t0 t2 dt y0_0_0 y0_0_1 theta v_0_0 v_0_1 dW0_0_0 dW0_0_1 = a2
  generalize Gen.grad_reversible_heun_s_general_22_f1_d1_1deef72810c1 f0 f0_d1 f0_d2 f0_d3 f1 f1_d1 f1_d2 f1_d3 g00 g00_d1 g00_d2 g00_d3 g01 g01_d1 g01_d2 g01_d3 g10 g10_d1 g10_d2 g10_d3 g11 g11_d1 g11_d2 g11_d3 t0 t2 dt y0_0_0 y0_0_1 theta v_0_0 v_0_1 dW0_0_0 dW0_0_1 = a3
  generalize Gen.grad_reversible_heun_s_general_22_f1_d1_b2b28c391301 f0 f0_d1 f0_d2 f0_d3 f1 f1_d1 f1_d2 f1_d3 g00 g00_d1 g00_d2 g00_d3 g01 g01_d1 g01_d2 g01_d3 g10 g10_d1 g10_d2 g10_d3 g11 g11_d1 g11_d2 g11_d3 t0 t2 dt y0_0_0 y0_0_1 theta v_0_0 v_0_1 dW0_0_0 dW0_0_1 = a4
  generalize Gen.grad_reversible_heun_s_general_22_f1_d2_a161aedeeb25 f0 f0_d1 f0_d2 f0_d3 f1 f1_d1 f1_d2 f1_d3 g00 g00_d1 g00_d2 g00_d3 g01 g01_d1 g01_d2 g01_d3 g10 g10_d1 g10_d2 g10_d3 g11 g11_d1 g11_d2 g11_d3 t0 t2 dt y0_0_0 y0_0_1 theta v_0_0 v_0_1 dW0_0_0 dW0_0_1 = a5
  generalize Gen.grad_reversible_heun_s_general_22_g00_d1_99e549f5f236 f0 f0_d1 f0_d2 f0_d3 f1 f1_d1 f1_d2 f1_d3 g00 g00_d1 g00_d2 g00_d3 g01 g01_d1 g01_d2 g01_d3 g10 g10_d1 g10_d2 g10_d3 g11 g11_d1 g11_d2 g11_d3 t0 t2 dt y0_0_0 y0_0_1 theta v_0_0 v_0_1 dW0_0_0 dW0_0_1 = a6
  generalize Gen.grad_reversible_heun_s_general_22_g00_d1_d045b0262d93 f0 f0_d1 f0_d2 f0_d3 f1 f1_d1 f1_d2 f1_d3 g00 g00_d1 g00_d2 g00_d3 g01 g01_d1 g01_d2 g01_d3 g10 g10_d1 g10_d2 g10_d3 g11 g11_d1 g11_d2 g11_d3 t0 t2 dt y0_0_0 y0_0_1 theta v_0_0 v_0_1 dW0_0_0 dW0_0_1 = a7
  generalize Gen.grad_reversible_heun_s_general_22_g00_d2_045eda3b0fd9 f0 f0_d1 f0_d2 f0_d3 f1 f1_d1 f1_d2 f1_d3 g00 g00_d1 g00_d2 g00_d3 g01 g01_d1 g01_d2 g01_d3 g10 g10_d1 g10_d2 g10_d3 g11 g11_d1 g11_d2 g11_d3 t0 t2 dt y0_0_0 y0_0_1 theta v_0_0 v_0_1 dW0_0_0 dW0_0_1 = a8
  generalize Gen.grad_reversible_heun_s_general_22_g01_d1_096aa254ca4c f0 f0_d1 f0_d2 f0_d3 f1 f1_d1 f1_d2 f1_d3 g00 g00_d1 g00_d2 g00_d3 g01 g01_d1 g01_d2 g01_d3 g10 g10_d1 g10_d2 g10_d3 g11 g11_d1 g11_d2 g11_d3 t0 t2 dt y0_0_0 y0_0_1 theta v_0_0 v_0_1 dW0_0_0 dW0_0_1 = a9
  generalize Gen.grad_reversible_heun_s_general_22_g01_d1_7592549b1609 f0 f0_d1 f0_d2 f0_d3 f1 f1_d1 f1_d2 f1_d3 g00 g00_d1 g00_d2 g00_d3 g01 g01_d1 g01_d2 g01_d3 g10 g10_d1 g10_d2 g10_d3 g11 g11_d1 g11_d2 g11_d3 t0 t2 dt y0_0_0 y0_0_1 theta v_0_0 v_0_1 dW0_0_0 dW0_0_1 = a10
  generalize Gen.grad_reversible_heun_s_general_22_g01_d2_605b9285dac6 f0 f0_d1 f0_d2 f0_d3 f1 f1_d1 f1_d2 f1_d3 g00 g00_d1 g00_d2 g00_d3 g01 g01_d1 g01_d2 g01_d3 g10 g10_d1 g10_d2 g10_d3 g11 g11_d1 g11_d2 g11_d3 t0 t2 dt y0_0_0 y0_0_1 theta v_0_0 v_0_1 dW0_0_0 dW0_0_1 = a11
  generalize Gen.grad_reversible_heun_s_general_22_g10_d1_59805037ed9a f0 f0_d1 f0_d2 f0_d3 f1 f1_d1 f1_d2 f1_d3 g00 g00_d1 g00_d2 g00_d3 g01 g01_d1 g01_d2 g01_d3 g10 g10_d1 g10_d2 g10_d3 g11 g11_d1 g11_d2 g11_d3 t0 t2 dt y0_0_0 y0_0_1 theta v_0_0 v_0_1 dW0_0_0 dW0_0_1 = a12
  generalize Gen.grad_reversible_heun_s_general_22_g10_d1_c8d1a7e0ae0b f0 f0_d1 f0_d2 f0_d3 f1 f1_d1 f1_d2 f1_d3 g00 g00_d1 g00_d2 g00_d3 g01 g01_d1 g01_d2 g01_d3 g10 g10_d1 g10_d2 g10_d3 g11 g11_d1 g11_d2 g11_d3 t0 t2 dt y0_0_0 y0_0_1 theta v_0_0 v_0_1 dW0_0_0 dW0_0_1 = a13
  generalize Gen.grad_reversible_heun_s_general_22_g10_d2_5ebd58ddec5f f0 f0_d1 f0_d2 f0_d3 f1 f1_d1 f1_d2 f1_d3 g00 g00_d1 g00_d2 g00_d3 g01 g01_d1 g01_d2 g01_d3 g10 g10_d1 g10_d2 g10_d3 g11 g11_d1 g11_d2 g11_d3 t0 t2 dt y0_0_0 y0_0_1 theta v_0_0 v_0_1 dW0_0_0 dW0_0_1 = a14
  generalize Gen.grad_reversible_heun_s_general_22_g11_d1_29afddc1a6e5 f0 f0_d1 f0_d2 f0_d3 f1 f1_d1 f1_d2 f1_d3 g00 g00_d1 g00_d2 g00_d3 g01 g01_d1 g01_d2 g01_d3 g10 g10_d1 g10_d2 g10_d3 g11 g11_d1 g11_d2 g11_d3 t0 t2 dt y0_0_0 y0_0_1 theta v_0_0 v_0_1 dW0_0_0 dW0_0_1 = a15
  generalize Gen.grad_reversible_heun_s_general_22_g11_d1_88bd16bfc9a4 f0 f0_d1 f0_d2 f0_d3 f1 f1_d1 f1_d2 f1_d3 g00 g00_d1 g00_d2 g00_d3 g01 g01_d1 g01_d2 g01_d3 g10 g10_d1 g10_d2 g10_d3 g11 g11_d1 g11_d2 g11_d3 t0 t2 dt y0_0_0 y0_0_1 theta v_0_0 v_0_1 dW0_0_0 dW0_0_1 = a16
  generalize Gen.grad_reversible_heun_s_general_22_g11_d2_73b2ca98aa5f f0 f0_d1 f0_d2 f0_d3 f1 f1_d1 f1_d2 f1_d3 g00 g00_d1 g00_d2 g00_d3 g01 g01_d1 g01_d2 g01_d3 g10 g10_d1 g10_d2 g10_d3 g11 g11_d1 g11_d2 g11_d3 t0 t2 dt y0_0_0 y0_0_1 theta v_0_0 v_0_1 dW0_0_0 dW0_0_1 = a17
  ring

set_option maxHeartbeats 4000000 in
/-- `grad_reversible_heun_s_general_22`: backprop `gy_0_1` = forward derivative `ty_0_1` -/
theorem grad_reversible_heun_s_general_22_gy_0_1  (f0 : K → K → K → K → K) (f0_d1 : K → K → K → K → K) (f0_d2 : K → K → K → K → K) (f0_d3 : K → K → K → K → K) (f1 : K → K → K → K → K) (f1_d1 : K → K → K → K → K) (f1_d2 : K → K → K → K → K) (f1_d3 : K → K → K → K → K) (g00 : K → K → K → K → K) (g00_d1 : K → K → K → K → K) (g00_d2 : K → K → K → K → K) (g00_d3 : K → K → K → K → K) (g01 : K → K → K → K → K) (g01_d1 : K → K → K → K → K) (g01_d2 : K → K → K → K → K) (g01_d3 : K → K → K → K → K) (g10 : K → K → K → K → K) (g10_d1 : K → K → K → K → K) (g10_d2 : K → K → K → K → K) (g10_d3 : K → K → K → K → K) (g11 : K → K → K → K → K) (g11_d1 : K → K → K → K → K) (g11_d2 : K → K → K → K → K) (g11_d3 : K → K → K → K → K) (t0 t2 dt y0_0_0 y0_0_1 theta v_0_0 v_0_1 dW0_0_0 dW0_0_1 : K) :
    Gen.grad_reversible_heun_s_general_22_gy_0_1 f0 f0_d1 f0_d2 f0_d3 f1 f1_d1 f1_d2 f1_d3 g00 g00_d1 g00_d2 g00_d3 g01 g01_d1 g01_d2 g01_d3 g10 g10_d1 g10_d2 g10_d3 g11 g11_d1 g11_d2 g11_d3 t0 t2 dt y0_0_0 y0_0_1 theta v_0_0 v_0_1 dW0_0_0 dW0_0_1 = Gen.grad_reversible_heun_s_general_22_ty_0_1 f0 f0_d1 f0_d2 f0_d3 f1 f1_d1 f1_d2 f1_d3 g00 g00_d1 g00_d2 g00_d3 g01 g01_d1 g01_d2 g01_d3 g10 g10_d1 g10_d2 g10_d3 g11 g11_d1 g11_d2 g11_d3 t0 t2 dt y0_0_0 y0_0_1 theta v_0_0 v_0_1 dW0_0_0 dW0_0_1 := by
  simp only [Gen.grad_reversible_heun_s_general_22_gy_0_1, Gen.grad_reversible_heun_s_general_22_ty_0_1]
  generalize Gen.grad_reversible_heun_s_general_22_f0_d1_77e5c7a2795b f0 f0_d1 f0_d2 f0_d3 f1 f1_d1 f1_d2 f1_d3 g00 g00_d1 g00_d2 g00_d3 g01 g01_d1 g01_d2 g01_d3 g10 g10_d1 g10_d2 g10_d3 g11 g11_d1 g11_d2 g11_d3 t0 t2 dt y0_0_0 y0_0_1 theta v_0_0 v_0_1 dW0_0_0 dW0_0_1 = a0
  generalize Gen.grad_reversible_heun_s_general_22_f0_d2_55345f65df34 f0 f0_d1 f0_d2 f0_d3 f1 f1_d1 f1_d2 f1_d3 g00 g00_d1 g00_d2 g00_d3 g01 g01_d1 g01_d2 g01_d3 g10 g10_d1 g10_d2 g10_d3 g11 g11_d1 g11_d2 g11_d3 t0 t2 dt y0_0_0 y0_0_1 theta v_0_0 v_0_1 dW0_0_0 dW0_0_1 = a1
  generalize Gen.grad_reversible_heun_s_general_22_f0_d2_c08f7f271659 f0 f0_d1 f0_d2 f0_d3 f1 f1_d1 f1_d2 f1_d3 g00 g00_d1 g00_d2 g00_d3 g01 g01_d1 g01_d2 g01_d3 g10 g10_d1 g10_d2 g10_d3 g11 g11_d1 g11_d2 g11_d3 t0 t2 dt y0_0_0 y0_0_1 theta v_0_0 v_0_1 dW0_0_0 dW0_0_1 = a2
  generalize Gen.grad_reversible_heun_s_general_22_f1_d1_b2b28c391301 f0 f0_d1 f0_d2 f0_d3 f1 f1_d1 f1_d2 f1_d3 g00 g00_d1 g00_d2 g00_d3 g01 g01_d1 g01_d2 g01_d3 g10 g10_d1 g10_d2 g10_d3 g11 g11_d1 g11_d2 g11_d3 t0 t2 dt y0_0_0 y0_0_1 theta v_0_0 v_0_1 dW0_0_0 dW0_0_1 = a3
  generalize Gen.grad_reversible_heun_s_general_22_f1_d2_0cc4972e78ba f0 f0_d1 f0_d2 f0_d3 f1 f1_d1 f1_d2 f1_d3 g00 g00_d1 g00_d2 g00_d3 g01 g01_d1 g01_d2 g01_d3 g10 g10_d1 g10_d2 g10_d3 g11 g11_d1 g11_d2 g11_d3 t0 t2 dt y0_0_0 y0_0_1 theta v_0_0 v_0_1 dW0_0_0 dW0_0_1 = a4
  generalize Gen.grad_reversible_heun_s_general_22_f1_d2_a161aedeeb25 f0 f0_d1 f0_d2 f0_d3 f1 f1_d1 f1_d2 f1_d3 g00 g00_d1 g00_d2 g00_d3 g01 g01_d1 g01_d2 g01_d3 g10 g10_d1 g10_d2 g10_d3 g11 g11_d1 g11_d2 g11_d3 t0 t2 dt y0_0_0 y0_0_1 theta v_0_0 v_0_1 dW0_0_0 dW0_0_1 = a5
  generalize Gen.grad_reversible_heun_s_general_22_g00_d1_d045b0262d93 f0 f0_d1 f0_d2 f0_d3 f1 f1_d1 f1_d2 f1_d3 g00 g00_d1 g00_d2 g00_d3 g01 g01_d1 g01_d2 g01_d3 g10 g10_d1 g10_d2 g10_d3 g11 g11_d1 g11_d2 g11_d3 t0 t2 dt y0_0_0 y0_0_1 theta v_0_0 v_0_1 dW0_0_0 dW0_0_1 = a6
  generalize Gen.grad_reversible_heun_s_general_22_g00_d2_045eda3b0fd9 f0 f0_d1 f0_d2 f0_d3 f1 f1_d1 f1_d2 f1_d3 g00 g00_d1 g00_d2 g00_d3 g01 g01_d1 g01_d2 g01_d3 g10 g10_d1 g10_d2 g10_d3 g11 g11_d1 g11_d2 g11_d3 t0 t2 dt y0_0_0 y0_0_1 theta v_0_0 v_0_1 dW0_0_0 dW0_0_1 = a7
  generalize Gen.grad_reversible_heun_s_general_22_g00_d2_923f70e91096 f0 f0_d1 f0_d2 f0_d3 f1 f1_d1 f1_d2 f1_d3 g00 g00_d1 g00_d2 g00_d3 g01 g01_d1 g01_d2 g01_d3 g10 g10_d1 g10_d2 g10_d3 g11 g11_d1 g11_d2 g11_d3 t0 t2 dt y0_0_0 y0_0_1 theta v_0_0 v_0_1 dW0_0_0 dW0_0_1 = a8
  generalize Gen.grad_reversible_heun_s_general_22_g01_d1_096aa254ca4c f0 f0_d1 f0_d2 f0_d3 f1 f1_d1 f1_d2 f1_d3 g00 g00_d1 g00_d2 g00_d3 g01 g01_d1 g01_d2 g01_d3 g10 g10_d1 g10_d2 g10_d3 g11 g11_d1 g11_d2 g11_d3 t0 t2 dt y0_0_0 y0_0_1 theta v_0_0 v_0_1 dW0_0_0 dW0_0_1 = a9
  generalize Gen.grad_reversible_heun_s_general_22_g01_d2_605b9285dac6 f0 f0_d1 f0_d2 f0_d3 f1 f1_d1 f1_d2 f1_d3 g00 g00_d1 g00_d2 g00_d3 g01 g01_d1 g01_d2 g01_d3 g10 g10_d1 g10_d2 g10_d3 g11 g11_d1 g11_d2 g11_d3 t0 t2 dt y0_0_0 y0_0_1 theta v_0_0 v_0_1 dW0_0_0 dW0_0_1 = a10
  generalize Gen.grad_reversible_heun_s_general_22_g01_d2_962a65f646b5 f0 f0_d1 f0_d2 f0_d3 f1 f1_d1 f1_d2 f1_d3 g00 g00_d1 g00_d2 g00_d3 g01 g01_d1 g01_d2 g01_d3 g10 g10_d1 g10_d2 g10_d3 g11 g11_d1 g11_d2 g11_d3 t0 t2 dt y0_0_0 y0_0_1 theta v_0_0 v_0_1 dW0_0_0 dW0_0_1 = a11
  generalize Gen.grad_reversible_heun_s_general_22_g10_d1_c8d1a7e0ae0b f0 f0_d1 f0_d2 f0_d3 f1 f1_d1 f1_d2 f1_d3 g00 g00_d1 g00_d2 g00_d3 g01 g01_d1 g01_d2 g01_d3 g10 g10_d1 g10_d2 g10_d3 g11 g11_d1 g11_d2 g11_d3 t0 t2 dt y0_0_0 y0_0_1 theta v_0_0 v_0_1 dW0_0_0 dW0_0_1 = a12
  generalize Gen.grad_reversible_heun_s_general_22_g10_d2_5ebd58ddec5f f0 f0_d1 f0_d2 f0_d3 f1 f1_d1 f1_d2 f1_d3 g00 g00_d1 g00_d2 g00_d3 g01 g01_d1 g01_d2 g01_d3 g10 g10_d1 g10_d2 g10_d3 g11 g11_d1 g11_d2 g11_d3 t0 t2 dt y0_0_0 y0_0_1 theta v_0_0 v_0_1 dW0_0_0 dW0_0_1 = a13
  generalize Gen.grad_reversible_heun_s_general_22_g10_d2_bf171d2ca00a f0 f0_d1 f0_d2 f0_d3 f1 f1_d1 f1_d2 f1_d3 g00 g00_d1 g00_d2 g00_d3 g01 g01_d1 g01_d2 g01_d3 g10 g10_d1 g10_d2 g10_d3 g11 g11_d1 g11_d2 g11_d3 t0 t2 dt y0_0_0 y0_0_1 theta v_0_0 v_0_1 dW0_0_0 dW0_0_1 = a14
  generalize Gen.grad_reversible_heun_s_general_22_g11_d1_29afddc1a6e5 f0 f0_d1 f0_d2 f0_d3 f1 f1_d1 f1_d2 f1_d3 g00 g00_d1 g00_d2 g00_d3 g01 g01_d1 g01_d2 g01_d3 g10 g10_d1 g10_d2 g10_d3 g11 g11_d1 g11_d2 g11_d3 t0 t2 dt y0_0_0 y0_0_1 theta v_0_0 v_0_1 dW0_0_0 dW0_0_1 = a15
  generalize Gen.grad_reversible_heun_s_general_22_g11_d2_4d3c1fb23696 f0 f0_d1 f0_d2 f0_d3 f1 f1_d1 f1_d2 f1_d3 g00 g00_d1 g00_d2 g00_d3 g01 g01_d1 g01_d2 g01_d3 g10 g10_d1 g10_d2 g10_d3 g11 g11_d1 g11_d2 g11_d3 t0 t2 dt y0_0_0 y0_0_1 theta v_0_0 v_0_1 dW0_0_0 dW0_0_1 = a16
  generalize Gen.grad_reversible_heun_s_general_22_g11_d2_73b2ca98aa5f f0 f0_d1 f0_d2 f0_d3 f1 f1_d1 f1_d2 f1_d3 g00 g00_d1 g00_d2 g00_d3 g01 g01_d1 g01_d2 g01_d3 g10 g10_d1 g10_d2 g10_d3 g11 g11_d1 g11_d2 g11_d3 t0 t2 dt y0_0_0 y0_0_1 theta v_0_0 v_0_1 dW0_0_0 dW0_0_1 = a17
  ring

end C08
