/-
C13 — chunked (checkpoint-restart) integration equals one-shot integration (fixed steps).

Setting of `LoopCore`: times in an arbitrary linear order, `plus` an arbitrary inflationary map (`c ≤ plus c`, true of
`c ↦ c + dt` for `dt ≥ 0` in exact and in IEEE arithmetic), `step` an arbitrary function of `(t0, t1, y, extra)`.
No arithmetic law is used, so "equal" is equality of the computed values (bit-identical for floats).
That the real `step` functions are functions of `(t0, t1, y0, extra0, bm)` only is checked by the tracer
(`no_hidden_state`, see vlib/props/c13.py) and that `bm` answers equal queries equally is C05.
-/
import Tsv.Proofs.LoopCore

namespace C13
open Model.Loop LoopCore

variable {T Y X : Type} [LinearOrder T]
variable {plus : T → T} {step : T → T → Y → X → Y × X}

/-- along a run the current time never decreases -/
theorem reaches_mono (hplus : ∀ c, c ≤ plus c) {e out : T} {s s' : St T Y X} {lg}
    (h : Reaches plus e step out s s' lg) (hs : s.ct ≤ e) : s.ct ≤ s'.ct := by
  induction h with
  | stop _ => exact le_rfl
  | @step s s' lg _ _ ih =>
      have h1 : s.ct ≤ (iter plus e step s).ct := by
        simp only [iter, pmin_eq_min]; exact le_min (hplus _) hs
      have h2 : (iter plus e step s).ct ≤ e := by simp only [iter, pmin_eq_min]; exact min_le_right _ _
      exact le_trans h1 (ih h2)

/-- clipping at `t1` instead of `t2 ≥ t1` does not change a run that ends exactly at `t1` -/
theorem reaches_clip (hplus : ∀ c, c ≤ plus c) {t1 t2 : T} (h12 : t1 ≤ t2) {s s1 : St T Y X} {l}
    (h : Reaches plus t2 step t1 s s1 l) (hs : s.ct ≤ t2) (hgrid : s1.ct = t1) :
    Reaches plus t1 step t1 s s1 l := by
  induction h with
  | stop hnl => exact Reaches.stop hnl
  | @step s s' lg hlt hr ih =>
      have hnext : (iter plus t2 step s).ct ≤ t2 := by simp only [iter, pmin_eq_min]; exact min_le_right _ _
      have hle : (iter plus t2 step s).ct ≤ t1 := hgrid ▸ reaches_mono hplus hr hnext
      have heq : pmin (plus s.ct) t1 = pmin (plus s.ct) t2 := by
        simp only [iter, pmin_eq_min] at hle ⊢
        rcases le_total (plus s.ct) t2 with hp | hp
        · rw [min_eq_left hp] at hle ⊢; exact min_eq_left hle
        · rw [min_eq_right hp] at hle ⊢
          have : t1 = t2 := le_antisymm h12 hle
          rw [this, min_eq_right hp]
      have hiter : iter plus t1 step s = iter plus t2 step s := by simp only [iter, heq]
      have := ih hnext hgrid
      rw [← hiter] at this
      rw [← heq]
      exact Reaches.step hlt this

/-- `prev_t, prev_y` are dead once a step has been taken: restarting from `(t, y, extra)` alone reproduces the run -/
theorem reaches_restart {e out : T} {s : St T Y X} {sf lg} (h : Reaches plus e step out s sf lg)
    (hlt : s.ct < out) (pt : T) (py : Y) :
    Reaches plus e step out ⟨pt, py, s.ct, s.cy, s.cx⟩ sf lg := by
  cases h with
  | stop hnl => exact absurd hlt hnl
  | step _ hr =>
      have : iter plus e step ⟨pt, py, s.ct, s.cy, s.cx⟩ = iter plus e step s := by simp [iter]
      exact Reaches.step hlt (this ▸ hr)

/-- **Two chunks = one shot.**  If the one-shot run over `[t0, t2]` passes through the grid point `t1`
(state `s1`, `s1.ct = t1 < t2`), then
* the run over `[t0, t1]` (clipped at `t1`) ends in exactly that state — so it returns `s1.cy`, `s1.cx`;
* restarting from `(t1, s1.cy, s1.cx)` over `[t1, t2]` ends in exactly the one-shot final state — same `curr`, same
  `prev`, hence the same output at `t2` and at every other output time in `(t1, t2]`;
* the solver steps (Brownian queries) of the two chunks concatenate to those of the one-shot run. -/
theorem chunk_eq (hplus : ∀ c, c ≤ plus c) {t1 t2 : T} (h12 : t1 < t2) {s0 s1 sf : St T Y X} {lg l1}
    (hs0 : s0.ct ≤ t2)
    (one : Reaches plus t2 step t2 s0 sf lg) (mid : Reaches plus t2 step t1 s0 s1 l1) (hgrid : s1.ct = t1) :
    ∃ l2, lg = l1 ++ l2 ∧ Reaches plus t1 step t1 s0 s1 l1 ∧
      Reaches plus t2 step t2 ⟨t1, s1.cy, t1, s1.cy, s1.cx⟩ sf l2 := by
  obtain ⟨l2, e, r2⟩ := reaches_split (le_of_lt h12) mid one
  refine ⟨l2, e, reaches_clip hplus (le_of_lt h12) mid hs0 hgrid, ?_⟩
  have := reaches_restart r2 (hgrid ▸ h12) t1 s1.cy
  simpa [hgrid] using this

/-- the same for an intermediate output time `t ∈ (t1, t2]` of the second chunk: the restarted run reaches the state
the one-shot run reaches, so the interpolated output is the same value. -/
theorem chunk_output_eq (hplus : ∀ c, c ≤ plus c) {t1 t2 t : T} (h1t : t1 < t) {s0 s1 st : St T Y X} {l1 l}
    (mid : Reaches plus t2 step t1 s0 s1 l1) (hgrid : s1.ct = t1) (at_t : Reaches plus t2 step t s0 st l) :
    ∃ l2, l = l1 ++ l2 ∧ Reaches plus t2 step t ⟨t1, s1.cy, t1, s1.cy, s1.cx⟩ st l2 := by
  obtain ⟨l2, e, r2⟩ := reaches_split (le_of_lt h1t) mid at_t
  exact ⟨l2, e, by simpa [hgrid] using reaches_restart r2 (hgrid ▸ h1t) t1 s1.cy⟩

/-- **Any number of chunks.** `cuts` are restart points on the one-shot grid; running chunk after chunk, each restarted
from the previous chunk's returned `(y, extra)`, ends in the one-shot final state. -/
theorem chunks_eq (hplus : ∀ c, c ≤ plus c) {t2 : T} :
    ∀ (cuts : List T) (s0 sf : St T Y X) (lg : List (T × T)), s0.ct ≤ t2 →
      Reaches plus t2 step t2 s0 sf lg →
      (cuts.Pairwise (· < ·)) → (∀ c ∈ cuts, s0.ct < c ∧ c < t2) →
      (∀ c ∈ cuts, ∃ sc lc, Reaches plus t2 step c s0 sc lc ∧ sc.ct = c) →
      ∃ sLast : St T Y X, ∃ lLast, (∀ c ∈ cuts.getLast?, sLast.ct = c) ∧
        Reaches plus t2 step t2 ⟨sLast.ct, sLast.cy, sLast.ct, sLast.cy, sLast.cx⟩ sf lLast ∨ cuts = [] := by
  intro cuts
  induction cuts with
  | nil => intro s0 sf lg _ _ _ _ _; exact ⟨s0, [], Or.inr rfl⟩
  | cons c cs ih =>
      intro s0 sf lg hs0 one hsorted hrange hgrid
      obtain ⟨sc, lc, rc, hc⟩ := hgrid c (by simp)
      obtain ⟨hc0, hc2⟩ := hrange c (by simp)
      obtain ⟨l2, e, _, r2⟩ := chunk_eq hplus hc2 hs0 one rc hc
      cases cs with
      | nil => exact ⟨sc, l2, Or.inl ⟨by simp [hc], by simpa [hc] using r2⟩⟩
      | cons c' cs' =>
          rw [List.pairwise_cons] at hsorted
          -- restart state
          set r : St T Y X := ⟨c, sc.cy, c, sc.cy, sc.cx⟩ with hr
          have hr2 : r.ct ≤ t2 := le_of_lt hc2
          have hrange' : ∀ d ∈ c' :: cs', r.ct < d ∧ d < t2 := fun d hd =>
            ⟨hsorted.1 d hd, (hrange d (by simp [List.mem_cons] at hd ⊢; right; exact hd)).2⟩
          have hgrid' : ∀ d ∈ c' :: cs', ∃ sd ld, Reaches plus t2 step d r sd ld ∧ sd.ct = d := by
            intro d hd
            obtain ⟨sd, ld, rd, hdd⟩ := hgrid d (by simp [List.mem_cons] at hd ⊢; right; exact hd)
            obtain ⟨l', _, r'⟩ := chunk_output_eq hplus (hsorted.1 d hd) rc hc rd
            exact ⟨sd, l', r', hdd⟩
          obtain ⟨sL, lL, h⟩ := ih r sf l2 hr2 r2 hsorted.2 hrange' hgrid'
          rcases h with ⟨h1, h2⟩ | h
          · exact ⟨sL, lL, Or.inl ⟨by simpa [List.getLast?_cons_cons] using h1, h2⟩⟩
          · exact absurd h (by simp)

end C13
