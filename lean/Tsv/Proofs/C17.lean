/-
C17 — special noise types agree with their general-noise embedding.

For every solver that accepts general noise, the regenerated step of the SDE declared `diagonal` (resp. `additive`,
`scalar`) equals the regenerated step of the same SDE declared `general` with its diffusion written as a matrix
(`diag(g)`, resp. the same y-independent / single-column matrix) — as functions of ARBITRARY drift and diffusion
functions, increments and state, at d = m = 2 (scalar: d = 2, m = 1).  The two steps are traced from the real solver
classes through the real `ForwardSDE` (`prod_diagonal` vs `batch_mvp`), so this compares the two code paths.
For log-ODE the Levy-area term of the general path vanishes on a diagonal diffusion because `A` has zero diagonal.
One step is enough: both runs start from the same state, so induction over steps gives the same trajectory.
-/
import Tsv.Gen.Steps
import Mathlib.Tactic.Ring

namespace C17
set_option linter.unusedSectionVars false
set_option linter.unusedVariables false
variable {K : Type} [Field K] [LinearOrder K]

/-- euler: declared diagonal = declared general with `diag(g)` -/
theorem euler_diag_embed (f0 : K → K → K → K) (f1 : K → K → K → K) (g0 : K → K → K) (g1 : K → K → K) (t0 t1 y0_0_0 y0_0_1 dW_0_0 dW_0_1 : K) :
    Gen.euler_i_general_22_y1_0_0 f0 f1 (fun t a b => g0 t a) (fun _ _ _ => 0) (fun _ _ _ => 0) (fun t a b => g1 t b) t0 t1 y0_0_0 y0_0_1 dW_0_0 dW_0_1
      = Gen.euler_i_diagonal_22_y1_0_0 f0 f1 g0 g1 t0 t1 y0_0_0 y0_0_1 dW_0_0 dW_0_1 ∧
    Gen.euler_i_general_22_y1_0_1 f0 f1 (fun t a b => g0 t a) (fun _ _ _ => 0) (fun _ _ _ => 0) (fun t a b => g1 t b) t0 t1 y0_0_0 y0_0_1 dW_0_0 dW_0_1
      = Gen.euler_i_diagonal_22_y1_0_1 f0 f1 g0 g1 t0 t1 y0_0_0 y0_0_1 dW_0_0 dW_0_1 := by
  refine ⟨?_, ?_⟩ <;> simp only [Gen.euler_i_general_22_y1_0_0, Gen.euler_i_general_22_y1_0_1, Gen.euler_i_diagonal_22_y1_0_0, Gen.euler_i_diagonal_22_y1_0_1] <;> ring

/-- euler: declared additive = declared general with a state-independent matrix -/
theorem euler_additive_embed (f0 : K → K → K → K) (f1 : K → K → K → K) (g00 : K → K) (g01 : K → K) (g10 : K → K) (g11 : K → K) (t0 t1 y0_0_0 y0_0_1 dW_0_0 dW_0_1 : K) :
    Gen.euler_i_general_22_y1_0_0 f0 f1 (fun t _ _ => g00 t) (fun t _ _ => g01 t) (fun t _ _ => g10 t) (fun t _ _ => g11 t) t0 t1 y0_0_0 y0_0_1 dW_0_0 dW_0_1
      = Gen.euler_i_additive_22_y1_0_0 f0 f1 g00 g01 g10 g11 t0 t1 y0_0_0 y0_0_1 dW_0_0 dW_0_1 ∧
    Gen.euler_i_general_22_y1_0_1 f0 f1 (fun t _ _ => g00 t) (fun t _ _ => g01 t) (fun t _ _ => g10 t) (fun t _ _ => g11 t) t0 t1 y0_0_0 y0_0_1 dW_0_0 dW_0_1
      = Gen.euler_i_additive_22_y1_0_1 f0 f1 g00 g01 g10 g11 t0 t1 y0_0_0 y0_0_1 dW_0_0 dW_0_1 := by
  refine ⟨?_, ?_⟩ <;> simp only [Gen.euler_i_general_22_y1_0_0, Gen.euler_i_general_22_y1_0_1, Gen.euler_i_additive_22_y1_0_0, Gen.euler_i_additive_22_y1_0_1] <;> ring

/-- euler_heun: declared diagonal = declared general with `diag(g)` -/
theorem euler_heun_diag_embed (f0 : K → K → K → K) (f1 : K → K → K → K) (g0 : K → K → K) (g1 : K → K → K) (t0 t1 y0_0_0 y0_0_1 dW_0_0 dW_0_1 : K) :
    Gen.euler_heun_s_general_22_y1_0_0 f0 f1 (fun t a b => g0 t a) (fun _ _ _ => 0) (fun _ _ _ => 0) (fun t a b => g1 t b) t0 t1 y0_0_0 y0_0_1 dW_0_0 dW_0_1
      = Gen.euler_heun_s_diagonal_22_y1_0_0 f0 f1 g0 g1 t0 t1 y0_0_0 y0_0_1 dW_0_0 dW_0_1 ∧
    Gen.euler_heun_s_general_22_y1_0_1 f0 f1 (fun t a b => g0 t a) (fun _ _ _ => 0) (fun _ _ _ => 0) (fun t a b => g1 t b) t0 t1 y0_0_0 y0_0_1 dW_0_0 dW_0_1
      = Gen.euler_heun_s_diagonal_22_y1_0_1 f0 f1 g0 g1 t0 t1 y0_0_0 y0_0_1 dW_0_0 dW_0_1 := by
  refine ⟨?_, ?_⟩ <;> simp only [Gen.euler_heun_s_general_22_y1_0_0, Gen.euler_heun_s_general_22_y1_0_1, Gen.euler_heun_s_diagonal_22_y1_0_0, Gen.euler_heun_s_diagonal_22_y1_0_1] <;> ring

/-- euler_heun: declared additive = declared general with a state-independent matrix -/
theorem euler_heun_additive_embed (f0 : K → K → K → K) (f1 : K → K → K → K) (g00 : K → K) (g01 : K → K) (g10 : K → K) (g11 : K → K) (t0 t1 y0_0_0 y0_0_1 dW_0_0 dW_0_1 : K) :
    Gen.euler_heun_s_general_22_y1_0_0 f0 f1 (fun t _ _ => g00 t) (fun t _ _ => g01 t) (fun t _ _ => g10 t) (fun t _ _ => g11 t) t0 t1 y0_0_0 y0_0_1 dW_0_0 dW_0_1
      = Gen.euler_heun_s_additive_22_y1_0_0 f0 f1 g00 g01 g10 g11 t0 t1 y0_0_0 y0_0_1 dW_0_0 dW_0_1 ∧
    Gen.euler_heun_s_general_22_y1_0_1 f0 f1 (fun t _ _ => g00 t) (fun t _ _ => g01 t) (fun t _ _ => g10 t) (fun t _ _ => g11 t) t0 t1 y0_0_0 y0_0_1 dW_0_0 dW_0_1
      = Gen.euler_heun_s_additive_22_y1_0_1 f0 f1 g00 g01 g10 g11 t0 t1 y0_0_0 y0_0_1 dW_0_0 dW_0_1 := by
  refine ⟨?_, ?_⟩ <;> simp only [Gen.euler_heun_s_general_22_y1_0_0, Gen.euler_heun_s_general_22_y1_0_1, Gen.euler_heun_s_additive_22_y1_0_0, Gen.euler_heun_s_additive_22_y1_0_1] <;> ring

/-- heun: declared diagonal = declared general with `diag(g)` -/
theorem heun_diag_embed (f0 : K → K → K → K) (f1 : K → K → K → K) (g0 : K → K → K) (g1 : K → K → K) (t0 t1 y0_0_0 y0_0_1 dW_0_0 dW_0_1 : K) :
    Gen.heun_s_general_22_y1_0_0 f0 f1 (fun t a b => g0 t a) (fun _ _ _ => 0) (fun _ _ _ => 0) (fun t a b => g1 t b) t0 t1 y0_0_0 y0_0_1 dW_0_0 dW_0_1
      = Gen.heun_s_diagonal_22_y1_0_0 f0 f1 g0 g1 t0 t1 y0_0_0 y0_0_1 dW_0_0 dW_0_1 ∧
    Gen.heun_s_general_22_y1_0_1 f0 f1 (fun t a b => g0 t a) (fun _ _ _ => 0) (fun _ _ _ => 0) (fun t a b => g1 t b) t0 t1 y0_0_0 y0_0_1 dW_0_0 dW_0_1
      = Gen.heun_s_diagonal_22_y1_0_1 f0 f1 g0 g1 t0 t1 y0_0_0 y0_0_1 dW_0_0 dW_0_1 := by
  refine ⟨?_, ?_⟩ <;> simp only [Gen.heun_s_general_22_y1_0_0, Gen.heun_s_general_22_y1_0_1, Gen.heun_s_diagonal_22_y1_0_0, Gen.heun_s_diagonal_22_y1_0_1] <;> ring

/-- heun: declared additive = declared general with a state-independent matrix -/
theorem heun_additive_embed (f0 : K → K → K → K) (f1 : K → K → K → K) (g00 : K → K) (g01 : K → K) (g10 : K → K) (g11 : K → K) (t0 t1 y0_0_0 y0_0_1 dW_0_0 dW_0_1 : K) :
    Gen.heun_s_general_22_y1_0_0 f0 f1 (fun t _ _ => g00 t) (fun t _ _ => g01 t) (fun t _ _ => g10 t) (fun t _ _ => g11 t) t0 t1 y0_0_0 y0_0_1 dW_0_0 dW_0_1
      = Gen.heun_s_additive_22_y1_0_0 f0 f1 g00 g01 g10 g11 t0 t1 y0_0_0 y0_0_1 dW_0_0 dW_0_1 ∧
    Gen.heun_s_general_22_y1_0_1 f0 f1 (fun t _ _ => g00 t) (fun t _ _ => g01 t) (fun t _ _ => g10 t) (fun t _ _ => g11 t) t0 t1 y0_0_0 y0_0_1 dW_0_0 dW_0_1
      = Gen.heun_s_additive_22_y1_0_1 f0 f1 g00 g01 g10 g11 t0 t1 y0_0_0 y0_0_1 dW_0_0 dW_0_1 := by
  refine ⟨?_, ?_⟩ <;> simp only [Gen.heun_s_general_22_y1_0_0, Gen.heun_s_general_22_y1_0_1, Gen.heun_s_additive_22_y1_0_0, Gen.heun_s_additive_22_y1_0_1] <;> ring

/-- midpoint: declared diagonal = declared general with `diag(g)` -/
theorem midpoint_diag_embed (f0 : K → K → K → K) (f1 : K → K → K → K) (g0 : K → K → K) (g1 : K → K → K) (t0 t1 y0_0_0 y0_0_1 dW_0_0 dW_0_1 : K) :
    Gen.midpoint_s_general_22_y1_0_0 f0 f1 (fun t a b => g0 t a) (fun _ _ _ => 0) (fun _ _ _ => 0) (fun t a b => g1 t b) t0 t1 y0_0_0 y0_0_1 dW_0_0 dW_0_1
      = Gen.midpoint_s_diagonal_22_y1_0_0 f0 f1 g0 g1 t0 t1 y0_0_0 y0_0_1 dW_0_0 dW_0_1 ∧
    Gen.midpoint_s_general_22_y1_0_1 f0 f1 (fun t a b => g0 t a) (fun _ _ _ => 0) (fun _ _ _ => 0) (fun t a b => g1 t b) t0 t1 y0_0_0 y0_0_1 dW_0_0 dW_0_1
      = Gen.midpoint_s_diagonal_22_y1_0_1 f0 f1 g0 g1 t0 t1 y0_0_0 y0_0_1 dW_0_0 dW_0_1 := by
  refine ⟨?_, ?_⟩ <;> simp only [Gen.midpoint_s_general_22_y1_0_0, Gen.midpoint_s_general_22_y1_0_1, Gen.midpoint_s_diagonal_22_y1_0_0, Gen.midpoint_s_diagonal_22_y1_0_1] <;> ring

/-- midpoint: declared additive = declared general with a state-independent matrix -/
theorem midpoint_additive_embed (f0 : K → K → K → K) (f1 : K → K → K → K) (g00 : K → K) (g01 : K → K) (g10 : K → K) (g11 : K → K) (t0 t1 y0_0_0 y0_0_1 dW_0_0 dW_0_1 : K) :
    Gen.midpoint_s_general_22_y1_0_0 f0 f1 (fun t _ _ => g00 t) (fun t _ _ => g01 t) (fun t _ _ => g10 t) (fun t _ _ => g11 t) t0 t1 y0_0_0 y0_0_1 dW_0_0 dW_0_1
      = Gen.midpoint_s_additive_22_y1_0_0 f0 f1 g00 g01 g10 g11 t0 t1 y0_0_0 y0_0_1 dW_0_0 dW_0_1 ∧
    Gen.midpoint_s_general_22_y1_0_1 f0 f1 (fun t _ _ => g00 t) (fun t _ _ => g01 t) (fun t _ _ => g10 t) (fun t _ _ => g11 t) t0 t1 y0_0_0 y0_0_1 dW_0_0 dW_0_1
      = Gen.midpoint_s_additive_22_y1_0_1 f0 f1 g00 g01 g10 g11 t0 t1 y0_0_0 y0_0_1 dW_0_0 dW_0_1 := by
  refine ⟨?_, ?_⟩ <;> simp only [Gen.midpoint_s_general_22_y1_0_0, Gen.midpoint_s_general_22_y1_0_1, Gen.midpoint_s_additive_22_y1_0_0, Gen.midpoint_s_additive_22_y1_0_1] <;> ring

/-- reversible_heun: declared diagonal = declared general with `diag(g)` -/
theorem reversible_heun_diag_embed (f0 : K → K → K → K) (f1 : K → K → K → K) (g0 : K → K → K) (g1 : K → K → K) (t0 t1 y0_0_0 y0_0_1 dW_0_0 dW_0_1 z0_0_0 z0_0_1 f0_0_0 f0_0_1 g0_0_0 g0_0_1 : K) :
    Gen.reversible_heun_s_general_22_y1_0_0 f0 f1 (fun t a b => g0 t a) (fun _ _ _ => 0) (fun _ _ _ => 0) (fun t a b => g1 t b) t0 t1 y0_0_0 y0_0_1 dW_0_0 dW_0_1 z0_0_0 z0_0_1 f0_0_0 f0_0_1 g0_0_0 (0:K) (0:K) g0_0_1
      = Gen.reversible_heun_s_diagonal_22_y1_0_0 f0 f1 g0 g1 t0 t1 y0_0_0 y0_0_1 dW_0_0 dW_0_1 z0_0_0 z0_0_1 f0_0_0 f0_0_1 g0_0_0 g0_0_1 ∧
    Gen.reversible_heun_s_general_22_y1_0_1 f0 f1 (fun t a b => g0 t a) (fun _ _ _ => 0) (fun _ _ _ => 0) (fun t a b => g1 t b) t0 t1 y0_0_0 y0_0_1 dW_0_0 dW_0_1 z0_0_0 z0_0_1 f0_0_0 f0_0_1 g0_0_0 (0:K) (0:K) g0_0_1
      = Gen.reversible_heun_s_diagonal_22_y1_0_1 f0 f1 g0 g1 t0 t1 y0_0_0 y0_0_1 dW_0_0 dW_0_1 z0_0_0 z0_0_1 f0_0_0 f0_0_1 g0_0_0 g0_0_1 ∧
    Gen.reversible_heun_s_general_22_f1_0_0 f0 f1 (fun t a b => g0 t a) (fun _ _ _ => 0) (fun _ _ _ => 0) (fun t a b => g1 t b) t0 t1 y0_0_0 y0_0_1 dW_0_0 dW_0_1 z0_0_0 z0_0_1 f0_0_0 f0_0_1 g0_0_0 (0:K) (0:K) g0_0_1
      = Gen.reversible_heun_s_diagonal_22_f1_0_0 f0 f1 g0 g1 t0 t1 y0_0_0 y0_0_1 dW_0_0 dW_0_1 z0_0_0 z0_0_1 f0_0_0 f0_0_1 g0_0_0 g0_0_1 ∧
    Gen.reversible_heun_s_general_22_f1_0_1 f0 f1 (fun t a b => g0 t a) (fun _ _ _ => 0) (fun _ _ _ => 0) (fun t a b => g1 t b) t0 t1 y0_0_0 y0_0_1 dW_0_0 dW_0_1 z0_0_0 z0_0_1 f0_0_0 f0_0_1 g0_0_0 (0:K) (0:K) g0_0_1
      = Gen.reversible_heun_s_diagonal_22_f1_0_1 f0 f1 g0 g1 t0 t1 y0_0_0 y0_0_1 dW_0_0 dW_0_1 z0_0_0 z0_0_1 f0_0_0 f0_0_1 g0_0_0 g0_0_1 ∧
    Gen.reversible_heun_s_general_22_z1_0_0 f0 f1 (fun t a b => g0 t a) (fun _ _ _ => 0) (fun _ _ _ => 0) (fun t a b => g1 t b) t0 t1 y0_0_0 y0_0_1 dW_0_0 dW_0_1 z0_0_0 z0_0_1 f0_0_0 f0_0_1 g0_0_0 (0:K) (0:K) g0_0_1
      = Gen.reversible_heun_s_diagonal_22_z1_0_0 f0 f1 g0 g1 t0 t1 y0_0_0 y0_0_1 dW_0_0 dW_0_1 z0_0_0 z0_0_1 f0_0_0 f0_0_1 g0_0_0 g0_0_1 ∧
    Gen.reversible_heun_s_general_22_z1_0_1 f0 f1 (fun t a b => g0 t a) (fun _ _ _ => 0) (fun _ _ _ => 0) (fun t a b => g1 t b) t0 t1 y0_0_0 y0_0_1 dW_0_0 dW_0_1 z0_0_0 z0_0_1 f0_0_0 f0_0_1 g0_0_0 (0:K) (0:K) g0_0_1
      = Gen.reversible_heun_s_diagonal_22_z1_0_1 f0 f1 g0 g1 t0 t1 y0_0_0 y0_0_1 dW_0_0 dW_0_1 z0_0_0 z0_0_1 f0_0_0 f0_0_1 g0_0_0 g0_0_1 ∧
    Gen.reversible_heun_s_general_22_g1_0_0_0 f0 f1 (fun t a b => g0 t a) (fun _ _ _ => 0) (fun _ _ _ => 0) (fun t a b => g1 t b) t0 t1 y0_0_0 y0_0_1 dW_0_0 dW_0_1 z0_0_0 z0_0_1 f0_0_0 f0_0_1 g0_0_0 (0:K) (0:K) g0_0_1
      = Gen.reversible_heun_s_diagonal_22_g1_0_0 f0 f1 g0 g1 t0 t1 y0_0_0 y0_0_1 dW_0_0 dW_0_1 z0_0_0 z0_0_1 f0_0_0 f0_0_1 g0_0_0 g0_0_1 ∧
    Gen.reversible_heun_s_general_22_g1_0_0_1 f0 f1 (fun t a b => g0 t a) (fun _ _ _ => 0) (fun _ _ _ => 0) (fun t a b => g1 t b) t0 t1 y0_0_0 y0_0_1 dW_0_0 dW_0_1 z0_0_0 z0_0_1 f0_0_0 f0_0_1 g0_0_0 (0:K) (0:K) g0_0_1
      = 0 ∧
    Gen.reversible_heun_s_general_22_g1_0_1_0 f0 f1 (fun t a b => g0 t a) (fun _ _ _ => 0) (fun _ _ _ => 0) (fun t a b => g1 t b) t0 t1 y0_0_0 y0_0_1 dW_0_0 dW_0_1 z0_0_0 z0_0_1 f0_0_0 f0_0_1 g0_0_0 (0:K) (0:K) g0_0_1
      = 0 ∧
    Gen.reversible_heun_s_general_22_g1_0_1_1 f0 f1 (fun t a b => g0 t a) (fun _ _ _ => 0) (fun _ _ _ => 0) (fun t a b => g1 t b) t0 t1 y0_0_0 y0_0_1 dW_0_0 dW_0_1 z0_0_0 z0_0_1 f0_0_0 f0_0_1 g0_0_0 (0:K) (0:K) g0_0_1
      = Gen.reversible_heun_s_diagonal_22_g1_0_1 f0 f1 g0 g1 t0 t1 y0_0_0 y0_0_1 dW_0_0 dW_0_1 z0_0_0 z0_0_1 f0_0_0 f0_0_1 g0_0_0 g0_0_1 := by
  refine ⟨?_, ?_, ?_, ?_, ?_, ?_, ?_, ?_, ?_, ?_⟩ <;> simp only [Gen.reversible_heun_s_general_22_y1_0_0, Gen.reversible_heun_s_general_22_y1_0_1, Gen.reversible_heun_s_general_22_f1_0_0, Gen.reversible_heun_s_general_22_f1_0_1, Gen.reversible_heun_s_general_22_z1_0_0, Gen.reversible_heun_s_general_22_z1_0_1, Gen.reversible_heun_s_diagonal_22_y1_0_0, Gen.reversible_heun_s_diagonal_22_y1_0_1, Gen.reversible_heun_s_diagonal_22_f1_0_0, Gen.reversible_heun_s_diagonal_22_f1_0_1, Gen.reversible_heun_s_diagonal_22_z1_0_0, Gen.reversible_heun_s_diagonal_22_z1_0_1, Gen.reversible_heun_s_general_22_g1_0_0_0, Gen.reversible_heun_s_general_22_g1_0_0_1, Gen.reversible_heun_s_diagonal_22_g1_0_0, Gen.reversible_heun_s_general_22_g1_0_1_0, Gen.reversible_heun_s_general_22_g1_0_1_1, Gen.reversible_heun_s_diagonal_22_g1_0_1] <;> ring

/-- reversible_heun: declared additive = declared general with a state-independent matrix -/
theorem reversible_heun_additive_embed (f0 : K → K → K → K) (f1 : K → K → K → K) (g00 : K → K) (g01 : K → K) (g10 : K → K) (g11 : K → K) (t0 t1 y0_0_0 y0_0_1 dW_0_0 dW_0_1 z0_0_0 z0_0_1 f0_0_0 f0_0_1 g0_0_0_0 g0_0_0_1 g0_0_1_0 g0_0_1_1 : K) :
    Gen.reversible_heun_s_general_22_y1_0_0 f0 f1 (fun t _ _ => g00 t) (fun t _ _ => g01 t) (fun t _ _ => g10 t) (fun t _ _ => g11 t) t0 t1 y0_0_0 y0_0_1 dW_0_0 dW_0_1 z0_0_0 z0_0_1 f0_0_0 f0_0_1 g0_0_0_0 g0_0_0_1 g0_0_1_0 g0_0_1_1
      = Gen.reversible_heun_s_additive_22_y1_0_0 f0 f1 g00 g01 g10 g11 t0 t1 y0_0_0 y0_0_1 dW_0_0 dW_0_1 z0_0_0 z0_0_1 f0_0_0 f0_0_1 g0_0_0_0 g0_0_0_1 g0_0_1_0 g0_0_1_1 ∧
    Gen.reversible_heun_s_general_22_y1_0_1 f0 f1 (fun t _ _ => g00 t) (fun t _ _ => g01 t) (fun t _ _ => g10 t) (fun t _ _ => g11 t) t0 t1 y0_0_0 y0_0_1 dW_0_0 dW_0_1 z0_0_0 z0_0_1 f0_0_0 f0_0_1 g0_0_0_0 g0_0_0_1 g0_0_1_0 g0_0_1_1
      = Gen.reversible_heun_s_additive_22_y1_0_1 f0 f1 g00 g01 g10 g11 t0 t1 y0_0_0 y0_0_1 dW_0_0 dW_0_1 z0_0_0 z0_0_1 f0_0_0 f0_0_1 g0_0_0_0 g0_0_0_1 g0_0_1_0 g0_0_1_1 ∧
    Gen.reversible_heun_s_general_22_f1_0_0 f0 f1 (fun t _ _ => g00 t) (fun t _ _ => g01 t) (fun t _ _ => g10 t) (fun t _ _ => g11 t) t0 t1 y0_0_0 y0_0_1 dW_0_0 dW_0_1 z0_0_0 z0_0_1 f0_0_0 f0_0_1 g0_0_0_0 g0_0_0_1 g0_0_1_0 g0_0_1_1
      = Gen.reversible_heun_s_additive_22_f1_0_0 f0 f1 g00 g01 g10 g11 t0 t1 y0_0_0 y0_0_1 dW_0_0 dW_0_1 z0_0_0 z0_0_1 f0_0_0 f0_0_1 g0_0_0_0 g0_0_0_1 g0_0_1_0 g0_0_1_1 ∧
    Gen.reversible_heun_s_general_22_f1_0_1 f0 f1 (fun t _ _ => g00 t) (fun t _ _ => g01 t) (fun t _ _ => g10 t) (fun t _ _ => g11 t) t0 t1 y0_0_0 y0_0_1 dW_0_0 dW_0_1 z0_0_0 z0_0_1 f0_0_0 f0_0_1 g0_0_0_0 g0_0_0_1 g0_0_1_0 g0_0_1_1
      = Gen.reversible_heun_s_additive_22_f1_0_1 f0 f1 g00 g01 g10 g11 t0 t1 y0_0_0 y0_0_1 dW_0_0 dW_0_1 z0_0_0 z0_0_1 f0_0_0 f0_0_1 g0_0_0_0 g0_0_0_1 g0_0_1_0 g0_0_1_1 ∧
    Gen.reversible_heun_s_general_22_g1_0_0_0 f0 f1 (fun t _ _ => g00 t) (fun t _ _ => g01 t) (fun t _ _ => g10 t) (fun t _ _ => g11 t) t0 t1 y0_0_0 y0_0_1 dW_0_0 dW_0_1 z0_0_0 z0_0_1 f0_0_0 f0_0_1 g0_0_0_0 g0_0_0_1 g0_0_1_0 g0_0_1_1
      = Gen.reversible_heun_s_additive_22_g1_0_0_0 f0 f1 g00 g01 g10 g11 t0 t1 y0_0_0 y0_0_1 dW_0_0 dW_0_1 z0_0_0 z0_0_1 f0_0_0 f0_0_1 g0_0_0_0 g0_0_0_1 g0_0_1_0 g0_0_1_1 ∧
    Gen.reversible_heun_s_general_22_g1_0_0_1 f0 f1 (fun t _ _ => g00 t) (fun t _ _ => g01 t) (fun t _ _ => g10 t) (fun t _ _ => g11 t) t0 t1 y0_0_0 y0_0_1 dW_0_0 dW_0_1 z0_0_0 z0_0_1 f0_0_0 f0_0_1 g0_0_0_0 g0_0_0_1 g0_0_1_0 g0_0_1_1
      = Gen.reversible_heun_s_additive_22_g1_0_0_1 f0 f1 g00 g01 g10 g11 t0 t1 y0_0_0 y0_0_1 dW_0_0 dW_0_1 z0_0_0 z0_0_1 f0_0_0 f0_0_1 g0_0_0_0 g0_0_0_1 g0_0_1_0 g0_0_1_1 ∧
    Gen.reversible_heun_s_general_22_g1_0_1_0 f0 f1 (fun t _ _ => g00 t) (fun t _ _ => g01 t) (fun t _ _ => g10 t) (fun t _ _ => g11 t) t0 t1 y0_0_0 y0_0_1 dW_0_0 dW_0_1 z0_0_0 z0_0_1 f0_0_0 f0_0_1 g0_0_0_0 g0_0_0_1 g0_0_1_0 g0_0_1_1
      = Gen.reversible_heun_s_additive_22_g1_0_1_0 f0 f1 g00 g01 g10 g11 t0 t1 y0_0_0 y0_0_1 dW_0_0 dW_0_1 z0_0_0 z0_0_1 f0_0_0 f0_0_1 g0_0_0_0 g0_0_0_1 g0_0_1_0 g0_0_1_1 ∧
    Gen.reversible_heun_s_general_22_g1_0_1_1 f0 f1 (fun t _ _ => g00 t) (fun t _ _ => g01 t) (fun t _ _ => g10 t) (fun t _ _ => g11 t) t0 t1 y0_0_0 y0_0_1 dW_0_0 dW_0_1 z0_0_0 z0_0_1 f0_0_0 f0_0_1 g0_0_0_0 g0_0_0_1 g0_0_1_0 g0_0_1_1
      = Gen.reversible_heun_s_additive_22_g1_0_1_1 f0 f1 g00 g01 g10 g11 t0 t1 y0_0_0 y0_0_1 dW_0_0 dW_0_1 z0_0_0 z0_0_1 f0_0_0 f0_0_1 g0_0_0_0 g0_0_0_1 g0_0_1_0 g0_0_1_1 ∧
    Gen.reversible_heun_s_general_22_z1_0_0 f0 f1 (fun t _ _ => g00 t) (fun t _ _ => g01 t) (fun t _ _ => g10 t) (fun t _ _ => g11 t) t0 t1 y0_0_0 y0_0_1 dW_0_0 dW_0_1 z0_0_0 z0_0_1 f0_0_0 f0_0_1 g0_0_0_0 g0_0_0_1 g0_0_1_0 g0_0_1_1
      = Gen.reversible_heun_s_additive_22_z1_0_0 f0 f1 g00 g01 g10 g11 t0 t1 y0_0_0 y0_0_1 dW_0_0 dW_0_1 z0_0_0 z0_0_1 f0_0_0 f0_0_1 g0_0_0_0 g0_0_0_1 g0_0_1_0 g0_0_1_1 ∧
    Gen.reversible_heun_s_general_22_z1_0_1 f0 f1 (fun t _ _ => g00 t) (fun t _ _ => g01 t) (fun t _ _ => g10 t) (fun t _ _ => g11 t) t0 t1 y0_0_0 y0_0_1 dW_0_0 dW_0_1 z0_0_0 z0_0_1 f0_0_0 f0_0_1 g0_0_0_0 g0_0_0_1 g0_0_1_0 g0_0_1_1
      = Gen.reversible_heun_s_additive_22_z1_0_1 f0 f1 g00 g01 g10 g11 t0 t1 y0_0_0 y0_0_1 dW_0_0 dW_0_1 z0_0_0 z0_0_1 f0_0_0 f0_0_1 g0_0_0_0 g0_0_0_1 g0_0_1_0 g0_0_1_1 := by
  refine ⟨?_, ?_, ?_, ?_, ?_, ?_, ?_, ?_, ?_, ?_⟩ <;> simp only [Gen.reversible_heun_s_general_22_y1_0_0, Gen.reversible_heun_s_general_22_y1_0_1, Gen.reversible_heun_s_general_22_f1_0_0, Gen.reversible_heun_s_general_22_f1_0_1, Gen.reversible_heun_s_general_22_g1_0_0_0, Gen.reversible_heun_s_general_22_g1_0_0_1, Gen.reversible_heun_s_general_22_g1_0_1_0, Gen.reversible_heun_s_general_22_g1_0_1_1, Gen.reversible_heun_s_general_22_z1_0_0, Gen.reversible_heun_s_general_22_z1_0_1, Gen.reversible_heun_s_additive_22_y1_0_0, Gen.reversible_heun_s_additive_22_y1_0_1, Gen.reversible_heun_s_additive_22_f1_0_0, Gen.reversible_heun_s_additive_22_f1_0_1, Gen.reversible_heun_s_additive_22_g1_0_0_0, Gen.reversible_heun_s_additive_22_g1_0_0_1, Gen.reversible_heun_s_additive_22_g1_0_1_0, Gen.reversible_heun_s_additive_22_g1_0_1_1, Gen.reversible_heun_s_additive_22_z1_0_0, Gen.reversible_heun_s_additive_22_z1_0_1] <;> ring

/-- log_ode: declared diagonal = declared general with `diag(g)` -/
theorem log_ode_diag_embed (f0 : K → K → K → K) (f1 : K → K → K → K) (g0 : K → K → K) (g1 : K → K → K) (g0_d1 : K → K → K) (g1_d1 : K → K → K) (t0 t1 y0_0_0 y0_0_1 dW_0_0 dW_0_1 U_0_0 U_0_1 A_0_0_0 A_0_0_1 A_0_1_0 A_0_1_1 : K) (hA0 : A_0_0_0 = 0) (hA1 : A_0_1_1 = 0) :
    Gen.log_ode_s_general_22_y1_0_0 f0 f1 (fun t a b => g0 t a) (fun t a b => g0_d1 t a) (fun _ _ _ => 0) (fun _ _ _ => 0) (fun _ _ _ => 0) (fun _ _ _ => 0) (fun _ _ _ => 0) (fun _ _ _ => 0) (fun _ _ _ => 0) (fun t a b => g1 t b) (fun _ _ _ => 0) (fun t a b => g1_d1 t b) t0 t1 y0_0_0 y0_0_1 dW_0_0 dW_0_1 U_0_0 U_0_1 A_0_0_0 A_0_0_1 A_0_1_0 A_0_1_1
      = Gen.log_ode_s_diagonal_22_y1_0_0 f0 f1 g0 g1 t0 t1 y0_0_0 y0_0_1 dW_0_0 dW_0_1 U_0_0 U_0_1 A_0_0_0 A_0_0_1 A_0_1_0 A_0_1_1 ∧
    Gen.log_ode_s_general_22_y1_0_1 f0 f1 (fun t a b => g0 t a) (fun t a b => g0_d1 t a) (fun _ _ _ => 0) (fun _ _ _ => 0) (fun _ _ _ => 0) (fun _ _ _ => 0) (fun _ _ _ => 0) (fun _ _ _ => 0) (fun _ _ _ => 0) (fun t a b => g1 t b) (fun _ _ _ => 0) (fun t a b => g1_d1 t b) t0 t1 y0_0_0 y0_0_1 dW_0_0 dW_0_1 U_0_0 U_0_1 A_0_0_0 A_0_0_1 A_0_1_0 A_0_1_1
      = Gen.log_ode_s_diagonal_22_y1_0_1 f0 f1 g0 g1 t0 t1 y0_0_0 y0_0_1 dW_0_0 dW_0_1 U_0_0 U_0_1 A_0_0_0 A_0_0_1 A_0_1_0 A_0_1_1 := by
  subst hA0 hA1
  refine ⟨?_, ?_⟩ <;> simp only [Gen.log_ode_s_general_22_y1_0_0, Gen.log_ode_s_general_22_y1_0_1, Gen.log_ode_s_diagonal_22_y1_0_0, Gen.log_ode_s_diagonal_22_y1_0_1] <;> ring

/-- log_ode: declared additive = declared general with a state-independent matrix -/
theorem log_ode_additive_embed (f0 : K → K → K → K) (f1 : K → K → K → K) (g00 : K → K) (g01 : K → K) (g10 : K → K) (g11 : K → K) (t0 t1 y0_0_0 y0_0_1 dW_0_0 dW_0_1 U_0_0 U_0_1 A_0_0_0 A_0_0_1 A_0_1_0 A_0_1_1 : K) :
    Gen.log_ode_s_general_22_y1_0_0 f0 f1 (fun t _ _ => g00 t) (fun _ _ _ => 0) (fun _ _ _ => 0) (fun t _ _ => g01 t) (fun _ _ _ => 0) (fun _ _ _ => 0) (fun t _ _ => g10 t) (fun _ _ _ => 0) (fun _ _ _ => 0) (fun t _ _ => g11 t) (fun _ _ _ => 0) (fun _ _ _ => 0) t0 t1 y0_0_0 y0_0_1 dW_0_0 dW_0_1 U_0_0 U_0_1 A_0_0_0 A_0_0_1 A_0_1_0 A_0_1_1
      = Gen.log_ode_s_additive_22_y1_0_0 f0 f1 g00 g01 g10 g11 t0 t1 y0_0_0 y0_0_1 dW_0_0 dW_0_1 U_0_0 U_0_1 A_0_0_0 A_0_0_1 A_0_1_0 A_0_1_1 ∧
    Gen.log_ode_s_general_22_y1_0_1 f0 f1 (fun t _ _ => g00 t) (fun _ _ _ => 0) (fun _ _ _ => 0) (fun t _ _ => g01 t) (fun _ _ _ => 0) (fun _ _ _ => 0) (fun t _ _ => g10 t) (fun _ _ _ => 0) (fun _ _ _ => 0) (fun t _ _ => g11 t) (fun _ _ _ => 0) (fun _ _ _ => 0) t0 t1 y0_0_0 y0_0_1 dW_0_0 dW_0_1 U_0_0 U_0_1 A_0_0_0 A_0_0_1 A_0_1_0 A_0_1_1
      = Gen.log_ode_s_additive_22_y1_0_1 f0 f1 g00 g01 g10 g11 t0 t1 y0_0_0 y0_0_1 dW_0_0 dW_0_1 U_0_0 U_0_1 A_0_0_0 A_0_0_1 A_0_1_0 A_0_1_1 := by
  refine ⟨?_, ?_⟩ <;> simp only [Gen.log_ode_s_general_22_y1_0_0, Gen.log_ode_s_general_22_y1_0_1, Gen.log_ode_s_additive_22_y1_0_0, Gen.log_ode_s_additive_22_y1_0_1] <;> ring

end C17
