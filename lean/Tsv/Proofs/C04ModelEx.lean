/-
Non-vacuity of `C04Model.node_law`: all its hypotheses hold for
  K = ℝ with the real square root, random variables = finitely supported coefficient vectors over the noise coordinates
  (two coordinates for the root, two per tree node) with the dot product as covariance, one-hot noise,
and an unbalanced three-level tree; the conclusion is then read off FROM the theorem for an inner node.
-/
import Tsv.Proofs.C04Model
import Tsv.Proofs.C04ModelW
import Mathlib.Analysis.Real.Sqrt
import Mathlib.Data.Finsupp.Basic
import Mathlib.Algebra.BigOperators.Finsupp.Basic
import Mathlib.Data.Finsupp.SMul
import Mathlib.Tactic.NormNum

namespace C04ModelEx
open Model.BM BMCore C04Model

abbrev Idx := Bool ⊕ (Path × Bool)
abbrev RV := Idx →₀ ℝ

noncomputable def dot (x y : RV) : ℝ := x.sum fun i a => a * y i

theorem dot_eq (x y : RV) : dot x y = ∑ i ∈ x.support ∪ y.support, x i * y i := by
  unfold dot Finsupp.sum
  apply Finset.sum_subset Finset.subset_union_left
  intro i _ hi
  simp only [Finsupp.notMem_support_iff.mp hi, zero_mul]

theorem dot_symm (x y : RV) : dot x y = dot y x := by
  rw [dot_eq, dot_eq, Finset.union_comm]
  exact Finset.sum_congr rfl fun i _ => mul_comm _ _

noncomputable def cov : Cov ℝ RV where
  ip := dot
  add_left := fun x y z => by
    unfold dot
    rw [Finsupp.sum_add_index' (fun i => by simp) (fun i a b => by ring)]
  smul_left := fun a x z => by
    unfold dot
    rw [Finsupp.sum_smul_index' (fun i => by simp), Finsupp.mul_sum]
    exact Finsupp.sum_congr fun i _ => by simp [mul_assoc]
  symm := dot_symm

noncomputable def nz (p : Path) (b : Bool) : RV := Finsupp.single (Sum.inr (p, b)) 1
noncomputable def xi (b : Bool) : RV := Finsupp.single (Sum.inl b) 1

theorem dot_single (i j : Idx) : dot (Finsupp.single i 1) (Finsupp.single j 1) = if i = j then 1 else 0 := by
  unfold dot
  rw [Finsupp.sum_single_index (by simp)]
  by_cases h : i = j
  · subst h; simp
  · simp [Finsupp.single_apply, h, Ne.symm h]

theorem noiseON : NoiseON cov nz where
  unit := fun p b => by show dot _ _ = 1; unfold nz; rw [dot_single]; simp
  orth := fun p b q b' h => by
    show dot _ _ = 0; unfold nz; rw [dot_single]
    rw [if_neg]; intro hh; exact h (Sum.inr.inj hh)

theorem sqrt_ok : ∀ x : ℝ, 0 ≤ x → Real.sqrt x * Real.sqrt x = x := fun x hx => Real.mul_self_sqrt hx

noncomputable def cfg : Cfg ℝ := { halfway := false, rnd := id, half := fun s e => (e + s) / 2, lt := fun _ _ => false, eq := fun _ _ => false }

/-- `[0,1]` split at 1/3; the right part `[1/3,1]` split at 1/2 -/
noncomputable def tree : Model.BM.Tree ℝ :=
  Model.BM.Tree.node 0 1 (1 / 3) (Model.BM.Tree.leaf 0 (1 / 3))
    (Model.BM.Tree.node (1 / 3) 1 (1 / 2) (Model.BM.Tree.leaf (1 / 3) (1 / 2)) (Model.BM.Tree.leaf (1 / 2) 1))

theorem tree_wf : WF cfg tree := by
  unfold tree
  simp only [WF, Model.BM.Tree.s, Model.BM.Tree.e, cfg, id]
  norm_num

/-- the node `[1/3, 1/2]` (path right, left) of this tree: its `W` has variance `1/2 - 1/3`, its `H` variance `(1/2 - 1/3)/12`, they are
uncorrelated - obtained from `root_law` and `node_law`, every hypothesis discharged. -/
theorem instance_law :
    ∃ v, valueAt (vecOps Real.sqrt nz) (Real.sqrt 1 • xi false, Real.sqrt (1 / 12) • xi true) tree [true, false] [] = some v ∧
      cov.ip v.1 v.1 = 1 / 2 - 1 / 3 ∧ cov.ip v.2 v.2 = (1 / 2 - 1 / 3) / 12 ∧ cov.ip v.1 v.2 = 0 := by
  obtain ⟨hl, hf⟩ := root_law (T := 1) Real.sqrt cov nz sqrt_ok (xi0 := xi false) (xi1 := xi true) (by norm_num)
    (by show dot _ _ = 1; unfold xi; rw [dot_single]; simp)
    (by show dot _ _ = 1; unfold xi; rw [dot_single]; simp)
    (by show dot _ _ = 0; unfold xi; rw [dot_single]; simp)
    (fun q b => by show dot _ _ = 0; unfold xi nz; rw [dot_single]; simp)
    (fun q b => by show dot _ _ = 0; unfold xi nz; rw [dot_single]; simp) 0 1 (by norm_num)
  refine ⟨_, by simp only [tree, valueAt]; rfl, ?_⟩
  have h := node_law (c := cfg) Real.sqrt cov nz sqrt_ok noiseON tree _ [true, false] [] tree_wf
    (by simpa [tree, Model.BM.Tree.s, Model.BM.Tree.e] using hl) hf (by simp only [tree, valueAt]; rfl)
    (nd := Model.BM.Tree.leaf (1 / 3) (1 / 2)) (by simp [tree, Model.BM.Tree.get?])
  simpa [LawAt, Model.BM.Tree.s, Model.BM.Tree.e] using h.1

/-- the query `[0, 1/2]` of this tree is resolved by two pieces from different subtrees (`[0,1/3]` and `[1/3,1/2]`); the variance of
its increment is `1/2`, obtained from `query_var`. -/
theorem instance_query :
    ∃ ps X, find tree 0 (1 / 2) = some ps ∧ ps.length = 2 ∧
      C03Model.sumW (vecOps Real.sqrt nz) (φV (K := ℝ)) (Real.sqrt 1 • xi false, Real.sqrt (1 / 12) • xi true) tree [] ps = some X ∧
      cov.ip X X = 1 / 2 - 0 := by
  obtain ⟨hl, hf⟩ := root_law (T := 1) Real.sqrt cov nz sqrt_ok (xi0 := xi false) (xi1 := xi true) (by norm_num)
    (by show dot _ _ = 1; unfold xi; rw [dot_single]; simp)
    (by show dot _ _ = 1; unfold xi; rw [dot_single]; simp)
    (by show dot _ _ = 0; unfold xi; rw [dot_single]; simp)
    (fun q b => by show dot _ _ = 0; unfold xi nz; rw [dot_single]; simp)
    (fun q b => by show dot _ _ = 0; unfold xi nz; rw [dot_single]; simp) 0 1 (by norm_num)
  have hfind : find tree 0 (1 / 2) = some [[false], [true, false]] := by
    simp only [tree, find]
    norm_num
  obtain ⟨X, hX, hv⟩ := query_var (c := cfg) Real.sqrt cov nz sqrt_ok noiseON tree _ [] 0 (1 / 2) tree_wf
    (by simpa [tree, Model.BM.Tree.s, Model.BM.Tree.e] using hl) hf hfind
  exact ⟨_, X, hfind, rfl, hX, hv⟩

/-- the queries `[0, 1/3]` and `[1/3, 1]` of this tree: the `U` of the first and the `W` of the second are uncorrelated - from
`queries_uncorrelated`. -/
theorem instance_independent :
    ∃ X1 X2, C03Model.sumW (vecOps Real.sqrt nz) ((ψU (1 / 3 : ℝ)).app (R := RV)) (Real.sqrt 1 • xi false, Real.sqrt (1 / 12) • xi true) tree []
        [[false]] = some X1 ∧
      C03Model.sumW (vecOps Real.sqrt nz) ((ψW (K := ℝ)).app (R := RV)) (Real.sqrt 1 • xi false, Real.sqrt (1 / 12) • xi true) tree []
        [[true]] = some X2 ∧ cov.ip X1 X2 = 0 := by
  obtain ⟨hl, hf⟩ := root_law (T := 1) Real.sqrt cov nz sqrt_ok (xi0 := xi false) (xi1 := xi true) (by norm_num)
    (by show dot _ _ = 1; unfold xi; rw [dot_single]; simp)
    (by show dot _ _ = 1; unfold xi; rw [dot_single]; simp)
    (by show dot _ _ = 0; unfold xi; rw [dot_single]; simp)
    (fun q b => by show dot _ _ = 0; unfold xi nz; rw [dot_single]; simp)
    (fun q b => by show dot _ _ = 0; unfold xi nz; rw [dot_single]; simp) 0 1 (by norm_num)
  have f1 : find tree 0 (1 / 3) = some [[false]] := by simp only [tree, find]; norm_num
  have f2 : find tree (1 / 3) 1 = some [[true]] := by simp only [tree, find]; norm_num
  refine ⟨_, _, by simp only [tree, C03Model.sumW, valueAt, Model.BM.Tree.get?]; rfl,
    by simp only [tree, C03Model.sumW, valueAt, Model.BM.Tree.get?]; rfl, ?_⟩
  exact queries_uncorrelated (c := cfg) Real.sqrt cov nz sqrt_ok noiseON tree_wf
    (by simpa [tree, Model.BM.Tree.s, Model.BM.Tree.e] using hl) hf (ψU (1 / 3)) ψW (le_refl (1 / 3 : ℝ)) f1 f2
    (by simp only [tree, C03Model.sumW, valueAt, Model.BM.Tree.get?]; rfl)
    (by simp only [tree, C03Model.sumW, valueAt, Model.BM.Tree.get?]; rfl)

/-- the same tree in `'none'` mode (increments only): the query `[0, 1/2]` has an increment of variance `1/2` - from `query_var_W`. -/
theorem instance_query_W :
    ∃ X, C03Model.sumW (C04ModelW.vecOpsW Real.sqrt nz) (φV (K := ℝ)) (Real.sqrt 1 • xi false, (0 : RV)) tree []
        [[false], [true, false]] = some X ∧ cov.ip X X = 1 / 2 - 0 := by
  obtain ⟨hl, hf⟩ := C04ModelW.root_law_W (T := 1) Real.sqrt cov nz sqrt_ok (xi0 := xi false) (by norm_num)
    (by show dot _ _ = 1; unfold xi; rw [dot_single]; simp)
    (fun q b => by show dot _ _ = 0; unfold xi nz; rw [dot_single]; simp) 0 1 (by norm_num) (0 : RV)
  have hfind : find tree 0 (1 / 2) = some [[false], [true, false]] := by
    simp only [tree, find]
    norm_num
  exact C04ModelW.query_var_W (c := cfg) Real.sqrt cov nz sqrt_ok noiseON tree _ [] 0 (1 / 2) tree_wf
    (by simpa [tree, Model.BM.Tree.s, Model.BM.Tree.e] using hl) hf hfind

end C04ModelEx
