/-
Which intervals does a Brownian tree resolve?  Exactly those between two of its points.

`IsPt t x`: `x` is an end point of some node of `t` (for a well-formed tree: the root's end points and every split point).
`find_complete`: between any two points `ta < tb` of a well-formed tree, `find` succeeds - so the hypotheses "the interval is resolved"
of `C03Model.find_additive`, `C04Model.query_WU`, `C04Model.overlap_cov` hold for ALL pairs of times that were ever end points of
queries (`find_pts`: the end points of a resolved interval are points; `C05`: a query makes its rounded end points resolved, and
refinement keeps points: `isPt_refines`).
-/
import Tsv.Proofs.BMCore

namespace BMPoints
open Model.BM BMCore
set_option linter.unusedSectionVars false

variable {T : Type} [LinearOrder T] {c : Cfg T}

def IsPt : Model.BM.Tree T → T → Prop
  | Model.BM.Tree.leaf s e, x => x = s ∨ x = e
  | Model.BM.Tree.node _ _ _ l r, x => IsPt l x ∨ IsPt r x

theorem isPt_s : ∀ {t : Model.BM.Tree T}, WF c t → IsPt t t.s
  | Model.BM.Tree.leaf _ _, _ => Or.inl rfl
  | Model.BM.Tree.node s e m l r, h => by
      obtain ⟨_, _, _, hls, _, _, _, hwl, _⟩ := h
      exact Or.inl (by have := isPt_s hwl; rw [hls] at this; exact this)

theorem isPt_e : ∀ {t : Model.BM.Tree T}, WF c t → IsPt t t.e
  | Model.BM.Tree.leaf _ _, _ => Or.inr rfl
  | Model.BM.Tree.node s e m l r, h => by
      obtain ⟨_, _, _, _, _, _, hre, _, hwr⟩ := h
      exact Or.inr (by have := isPt_e hwr; rw [hre] at this; exact this)

theorem isPt_bounds : ∀ {t : Model.BM.Tree T} {x : T}, WF c t → IsPt t x → t.s ≤ x ∧ x ≤ t.e
  | Model.BM.Tree.leaf s e, x, h, hp => by
      rcases hp with rfl | rfl
      · exact ⟨le_refl _, le_of_lt h.1⟩
      · exact ⟨le_of_lt h.1, le_refl _⟩
  | Model.BM.Tree.node s e m l r, x, h, hp => by
      obtain ⟨hsm, hme, _, hls, hle, hrs, hre, hwl, hwr⟩ := h
      simp only [Model.BM.Tree.s, Model.BM.Tree.e]
      rcases hp with hp | hp
      · obtain ⟨b1, b2⟩ := isPt_bounds hwl hp
        exact ⟨by rw [← hls]; exact b1, le_trans b2 (by rw [hle]; exact le_of_lt hme)⟩
      · obtain ⟨b1, b2⟩ := isPt_bounds hwr hp
        exact ⟨le_trans (by rw [hrs]; exact le_of_lt hsm) b1, by rw [← hre]; exact b2⟩

/-- **completeness of the search**: any interval between two points of a well-formed tree is resolved -/
theorem find_complete : ∀ {t : Model.BM.Tree T} {ta tb : T}, WF c t → IsPt t ta → IsPt t tb → ta < tb → ∃ ps, find t ta tb = some ps
  | Model.BM.Tree.leaf s e, ta, tb, h, ha, hb, hlt => by
      have : ta = s ∧ tb = e := by
        rcases ha with rfl | rfl <;> rcases hb with rfl | rfl
        · exact absurd hlt (lt_irrefl _)
        · exact ⟨rfl, rfl⟩
        · exact absurd hlt (not_lt.mpr (le_of_lt h.1))
        · exact absurd hlt (lt_irrefl _)
      exact ⟨[[]], by simp [find, this]⟩
  | Model.BM.Tree.node s e m l r, ta, tb, h, ha, hb, hlt => by
      have hwf := h
      obtain ⟨hsm, hme, _, hls, hle, hrs, hre, hwl, hwr⟩ := h
      simp only [find]
      by_cases hc : ta = s ∧ tb = e
      · exact ⟨[[]], by rw [if_pos hc]⟩
      · rw [if_neg hc]
        -- a point left of `m` is a point of the left child; a point right of `m` one of the right child; `m` is both
        have left_of : ∀ x, IsPt (Model.BM.Tree.node s e m l r) x → x ≤ m → IsPt l x := by
          intro x hx hxm
          rcases hx with hx | hx
          · exact hx
          · have := (isPt_bounds hwr hx).1
            rw [hrs] at this
            have : x = m := le_antisymm hxm this
            rw [this, ← hle]; exact isPt_e hwl
        have right_of : ∀ x, IsPt (Model.BM.Tree.node s e m l r) x → m ≤ x → IsPt r x := by
          intro x hx hxm
          rcases hx with hx | hx
          · have := (isPt_bounds hwl hx).2
            rw [hle] at this
            have : x = m := le_antisymm this hxm
            rw [this, ← hrs]; exact isPt_s hwr
          · exact hx
        by_cases h1 : tb ≤ m
        · rw [if_pos h1]
          obtain ⟨ps, hps⟩ := find_complete hwl (left_of ta ha (le_trans (le_of_lt hlt) h1)) (left_of tb hb h1) hlt
          exact ⟨_, by rw [hps]; rfl⟩
        · rw [if_neg h1]
          by_cases h2 : m ≤ ta
          · rw [if_pos h2]
            obtain ⟨ps, hps⟩ := find_complete hwr (right_of ta ha h2) (right_of tb hb (le_trans h2 (le_of_lt hlt))) hlt
            exact ⟨_, by rw [hps]; rfl⟩
          · rw [if_neg h2]
            have htam : ta < m := not_le.mp h2
            have hmtb : m < tb := not_le.mp h1
            obtain ⟨pa, hpa⟩ := find_complete hwl (left_of ta ha (le_of_lt htam)) (by rw [← hle]; exact isPt_e hwl) htam
            obtain ⟨pb, hpb⟩ := find_complete hwr (by rw [← hrs]; exact isPt_s hwr) (right_of tb hb (le_of_lt hmtb)) hmtb
            exact ⟨_, by rw [hpa, hpb]⟩

/-- conversely the end points of a resolved interval are points of the tree -/
theorem find_pts : ∀ {t : Model.BM.Tree T} {ta tb : T} {ps : List Path}, WF c t → find t ta tb = some ps → IsPt t ta ∧ IsPt t tb
  | Model.BM.Tree.leaf s e, ta, tb, ps, _, h => by
      simp only [find] at h
      split at h
      · rename_i hc; exact ⟨Or.inl hc.1, Or.inr hc.2⟩
      · simp at h
  | Model.BM.Tree.node s e m l r, ta, tb, ps, hwf, h => by
      have hw := hwf
      obtain ⟨hsm, hme, _, hls, hle, hrs, hre, hwl, hwr⟩ := hwf
      simp only [find] at h
      split at h
      · rename_i hc
        rw [hc.1, hc.2]
        exact ⟨isPt_s (t := Model.BM.Tree.node s e m l r) hw, isPt_e (t := Model.BM.Tree.node s e m l r) hw⟩
      · split at h
        · cases hl : find l ta tb with
          | none => simp [hl] at h
          | some a => obtain ⟨p1, p2⟩ := find_pts hwl hl; exact ⟨Or.inl p1, Or.inl p2⟩
        · split at h
          · cases hr : find r ta tb with
            | none => simp [hr] at h
            | some a => obtain ⟨p1, p2⟩ := find_pts hwr hr; exact ⟨Or.inr p1, Or.inr p2⟩
          · cases hl : find l ta m with
            | none => simp [hl] at h
            | some a =>
              cases hr : find r m tb with
              | none => simp [hl, hr] at h
              | some b =>
                obtain ⟨p1, _⟩ := find_pts hwl hl
                obtain ⟨_, p2⟩ := find_pts hwr hr
                exact ⟨Or.inl p1, Or.inr p2⟩

/-- refinement keeps every point (points are never forgotten: once an interval is resolved it stays resolved) -/
theorem isPt_refines : ∀ {t t' : Model.BM.Tree T} {x : T}, WF c t' → Refines t t' → IsPt t x → IsPt t' x
  | Model.BM.Tree.leaf s e, t', x, hw, hr, hp => by
      obtain ⟨h1, h2⟩ := hr
      rcases hp with rfl | rfl
      · rw [← h1]; exact isPt_s hw
      · rw [← h2]; exact isPt_e hw
  | Model.BM.Tree.node s e m l r, Model.BM.Tree.node s' e' m' l' r', x, hw, hr, hp => by
      obtain ⟨_, _, _, hl, hr'⟩ := hr
      obtain ⟨_, _, _, _, _, _, _, hwl, hwr⟩ := hw
      rcases hp with hp | hp
      · exact Or.inl (isPt_refines hwl hl hp)
      · exact Or.inr (isPt_refines hwr hr' hp)
  | Model.BM.Tree.node _ _ _ _ _, Model.BM.Tree.leaf _ _, _, _, hr, _ => by exact absurd hr (by simp [Refines])

/-- non-vacuity: the three points of a once-split interval -/
example : IsPt (Model.BM.Tree.node (0 : Int) 4 1 (Model.BM.Tree.leaf 0 1) (Model.BM.Tree.leaf 1 4)) 1 := Or.inl (Or.inr rfl)

end BMPoints
