/-
C08 — sdeint is differentiable: backprop equals the derivative of the numerical solution (fixed steps).

WRITTEN BY vlib/author_c08.py; COMMITTED; re-checked against lean/Tsv/Gen/Grad.lean, which is regenerated on every run by tracing,
for every solver x noise type, TWO fixed steps of the real `BaseSDESolver.integrate` (second step clipped to `ts[-1]`, output
produced by the real `linear_interp`) on a user SDE `f(t, y, θ)`, `g(t, y, θ)` with uninterpreted `f`, `g`, and then

  g…  : `torch.autograd.grad(yT, [y0, θ], grad_outputs = v)` executed on the TRACED GRAPH with torch's semantics (requires_grad
        propagation, `detach`, `create_graph`, `enable_grad` / `no_grad` blocks exactly as the library wrote them; the partial
        derivatives of `f`, `g` are the symbols `f_d1` (∂/∂y), `f_d2` (∂/∂θ), `g_d11`, … the tracer introduces),
  t…  : `v · ∂yT/∂y0`, `v · ∂yT/∂θ` obtained by forward differentiation of the VALUE (arithmetic only: blind to detach etc.).

Theorem per program: `g… = t…` for ARBITRARY `f`, `g`, their derivative symbols, state, parameter, increments, cotangent —
so nothing on the path from `(y0, θ)` to the output is detached or computed without a graph: solvers that differentiate the
diffusion internally (Milstein's `g ∂g v` via `vjp(create_graph=…)`, log-ODE's double-backward `jvp`) included.
Both sides are validated against the real `torch.autograd.grad` on every run (translation validation).
-/
import Tsv.Gen.Grad
import Mathlib.Tactic.Ring

namespace C08
set_option linter.unusedSectionVars false
set_option linter.unusedVariables false
set_option linter.unusedTactic false
set_option linter.unreachableTactic false
set_option maxRecDepth 8000
variable {K : Type} [Field K] [LinearOrder K]


set_option maxHeartbeats 4000000 in
/-- `grad_euler_i_scalar_11`: backprop `gth` = forward derivative `tth` -/
theorem grad_euler_i_scalar_11_gth  (f : K → K → K → K) (f_d1 : K → K → K → K) (f_d2 : K → K → K → K) (g : K → K → K → K) (g_d1 : K → K → K → K) (g_d2 : K → K → K → K) (t0 t2 dt y0_0_0 theta v_0_0 dW0_0_0 dW1_0_0 : K) :
    Gen.grad_euler_i_scalar_11_gth f f_d1 f_d2 g g_d1 g_d2 t0 t2 dt y0_0_0 theta v_0_0 dW0_0_0 dW1_0_0 = Gen.grad_euler_i_scalar_11_tth f f_d1 f_d2 g g_d1 g_d2 t0 t2 dt y0_0_0 theta v_0_0 dW0_0_0 dW1_0_0 := by
  simp only [Gen.grad_euler_i_scalar_11_gth, Gen.grad_euler_i_scalar_11_tth]
  generalize Gen.grad_euler_i_scalar_11_f_d1_c5cd2284f49d f f_d1 f_d2 g g_d1 g_d2 t0 t2 dt y0_0_0 theta v_0_0 dW0_0_0 dW1_0_0 = a0
  generalize Gen.grad_euler_i_scalar_11_f_d2_75ad011491cf f f_d1 f_d2 g g_d1 g_d2 t0 t2 dt y0_0_0 theta v_0_0 dW0_0_0 dW1_0_0 = a1
  generalize Gen.grad_euler_i_scalar_11_f_d2_f2902e1bab85 f f_d1 f_d2 g g_d1 g_d2 t0 t2 dt y0_0_0 theta v_0_0 dW0_0_0 dW1_0_0 = a2
  generalize Gen.grad_euler_i_scalar_11_g_d1_a2931f36efaa f f_d1 f_d2 g g_d1 g_d2 t0 t2 dt y0_0_0 theta v_0_0 dW0_0_0 dW1_0_0 = a3
  generalize Gen.grad_euler_i_scalar_11_g_d2_722b7a6bbfae f f_d1 f_d2 g g_d1 g_d2 t0 t2 dt y0_0_0 theta v_0_0 dW0_0_0 dW1_0_0 = a4
  generalize Gen.grad_euler_i_scalar_11_g_d2_b2655ef31e85 f f_d1 f_d2 g g_d1 g_d2 t0 t2 dt y0_0_0 theta v_0_0 dW0_0_0 dW1_0_0 = a5
  ring

set_option maxHeartbeats 4000000 in
/-- `grad_euler_i_scalar_11`: backprop `gy_0_0` = forward derivative `ty_0_0` -/
theorem grad_euler_i_scalar_11_gy_0_0  (f : K → K → K → K) (f_d1 : K → K → K → K) (f_d2 : K → K → K → K) (g : K → K → K → K) (g_d1 : K → K → K → K) (g_d2 : K → K → K → K) (t0 t2 dt y0_0_0 theta v_0_0 dW0_0_0 dW1_0_0 : K) :
    Gen.grad_euler_i_scalar_11_gy_0_0 f f_d1 f_d2 g g_d1 g_d2 t0 t2 dt y0_0_0 theta v_0_0 dW0_0_0 dW1_0_0 = Gen.grad_euler_i_scalar_11_ty_0_0 f f_d1 f_d2 g g_d1 g_d2 t0 t2 dt y0_0_0 theta v_0_0 dW0_0_0 dW1_0_0 := by
  simp only [Gen.grad_euler_i_scalar_11_gy_0_0, Gen.grad_euler_i_scalar_11_ty_0_0]
  generalize Gen.grad_euler_i_scalar_11_f_d1_b39c2b677c13 f f_d1 f_d2 g g_d1 g_d2 t0 t2 dt y0_0_0 theta v_0_0 dW0_0_0 dW1_0_0 = a0
  generalize Gen.grad_euler_i_scalar_11_f_d1_c5cd2284f49d f f_d1 f_d2 g g_d1 g_d2 t0 t2 dt y0_0_0 theta v_0_0 dW0_0_0 dW1_0_0 = a1
  generalize Gen.grad_euler_i_scalar_11_g_d1_a2931f36efaa f f_d1 f_d2 g g_d1 g_d2 t0 t2 dt y0_0_0 theta v_0_0 dW0_0_0 dW1_0_0 = a2
  generalize Gen.grad_euler_i_scalar_11_g_d1_ddd0c5e556e2 f f_d1 f_d2 g g_d1 g_d2 t0 t2 dt y0_0_0 theta v_0_0 dW0_0_0 dW1_0_0 = a3
  ring

set_option maxHeartbeats 4000000 in
/-- `grad_milstein_i_diagonal_11_gf`: backprop `gth` = forward derivative `tth` -/
theorem grad_milstein_i_diagonal_11_gf_gth (sqrt : K → K) (f : K → K → K → K) (f_d1 : K → K → K → K) (f_d2 : K → K → K → K) (g : K → K → K → K) (g_d1 : K → K → K → K) (g_d2 : K → K → K → K) (t0 t2 dt y0_0_0 theta v_0_0 dW0_0_0 dW1_0_0 : K) :
    Gen.grad_milstein_i_diagonal_11_gf_gth sqrt f f_d1 f_d2 g g_d1 g_d2 t0 t2 dt y0_0_0 theta v_0_0 dW0_0_0 dW1_0_0 = Gen.grad_milstein_i_diagonal_11_gf_tth sqrt f f_d1 f_d2 g g_d1 g_d2 t0 t2 dt y0_0_0 theta v_0_0 dW0_0_0 dW1_0_0 := by
  simp only [Gen.grad_milstein_i_diagonal_11_gf_gth, Gen.grad_milstein_i_diagonal_11_gf_tth]
  generalize Gen.grad_milstein_i_diagonal_11_gf_f_d1_0d13626a177a sqrt f f_d1 f_d2 g g_d1 g_d2 t0 t2 dt y0_0_0 theta v_0_0 dW0_0_0 dW1_0_0 = a0
  generalize Gen.grad_milstein_i_diagonal_11_gf_f_d2_75ad011491cf sqrt f f_d1 f_d2 g g_d1 g_d2 t0 t2 dt y0_0_0 theta v_0_0 dW0_0_0 dW1_0_0 = a1
  generalize Gen.grad_milstein_i_diagonal_11_gf_f_d2_8f01485f34bd sqrt f f_d1 f_d2 g g_d1 g_d2 t0 t2 dt y0_0_0 theta v_0_0 dW0_0_0 dW1_0_0 = a2
  generalize Gen.grad_milstein_i_diagonal_11_gf_g_d1_02b813f80bf9 sqrt f f_d1 f_d2 g g_d1 g_d2 t0 t2 dt y0_0_0 theta v_0_0 dW0_0_0 dW1_0_0 = a3
  generalize Gen.grad_milstein_i_diagonal_11_gf_g_d1_fcbd887f1bc8 sqrt f f_d1 f_d2 g g_d1 g_d2 t0 t2 dt y0_0_0 theta v_0_0 dW0_0_0 dW1_0_0 = a4
  generalize Gen.grad_milstein_i_diagonal_11_gf_g_d1_fe90e523b752 sqrt f f_d1 f_d2 g g_d1 g_d2 t0 t2 dt y0_0_0 theta v_0_0 dW0_0_0 dW1_0_0 = a5
  generalize Gen.grad_milstein_i_diagonal_11_gf_g_d2_30df7870a577 sqrt f f_d1 f_d2 g g_d1 g_d2 t0 t2 dt y0_0_0 theta v_0_0 dW0_0_0 dW1_0_0 = a6
  generalize Gen.grad_milstein_i_diagonal_11_gf_g_d2_5f1ed0e1d509 sqrt f f_d1 f_d2 g g_d1 g_d2 t0 t2 dt y0_0_0 theta v_0_0 dW0_0_0 dW1_0_0 = a7
  generalize Gen.grad_milstein_i_diagonal_11_gf_g_d2_722b7a6bbfae sqrt f f_d1 f_d2 g g_d1 g_d2 t0 t2 dt y0_0_0 theta v_0_0 dW0_0_0 dW1_0_0 = a8
  generalize Gen.grad_milstein_i_diagonal_11_gf_g_d2_9c51f97a67da sqrt f f_d1 f_d2 g g_d1 g_d2 t0 t2 dt y0_0_0 theta v_0_0 dW0_0_0 dW1_0_0 = a9
  ring

set_option maxHeartbeats 4000000 in
/-- `grad_milstein_i_diagonal_11_gf`: backprop `gy_0_0` = forward derivative `ty_0_0` -/
theorem grad_milstein_i_diagonal_11_gf_gy_0_0 (sqrt : K → K) (f : K → K → K → K) (f_d1 : K → K → K → K) (f_d2 : K → K → K → K) (g : K → K → K → K) (g_d1 : K → K → K → K) (g_d2 : K → K → K → K) (t0 t2 dt y0_0_0 theta v_0_0 dW0_0_0 dW1_0_0 : K) :
    Gen.grad_milstein_i_diagonal_11_gf_gy_0_0 sqrt f f_d1 f_d2 g g_d1 g_d2 t0 t2 dt y0_0_0 theta v_0_0 dW0_0_0 dW1_0_0 = Gen.grad_milstein_i_diagonal_11_gf_ty_0_0 sqrt f f_d1 f_d2 g g_d1 g_d2 t0 t2 dt y0_0_0 theta v_0_0 dW0_0_0 dW1_0_0 := by
  simp only [Gen.grad_milstein_i_diagonal_11_gf_gy_0_0, Gen.grad_milstein_i_diagonal_11_gf_ty_0_0]
  generalize Gen.grad_milstein_i_diagonal_11_gf_f_d1_0d13626a177a sqrt f f_d1 f_d2 g g_d1 g_d2 t0 t2 dt y0_0_0 theta v_0_0 dW0_0_0 dW1_0_0 = a0
  generalize Gen.grad_milstein_i_diagonal_11_gf_f_d1_b39c2b677c13 sqrt f f_d1 f_d2 g g_d1 g_d2 t0 t2 dt y0_0_0 theta v_0_0 dW0_0_0 dW1_0_0 = a1
  generalize Gen.grad_milstein_i_diagonal_11_gf_g_d1_02b813f80bf9 sqrt f f_d1 f_d2 g g_d1 g_d2 t0 t2 dt y0_0_0 theta v_0_0 dW0_0_0 dW1_0_0 = a2
  generalize Gen.grad_milstein_i_diagonal_11_gf_g_d1_ddd0c5e556e2 sqrt f f_d1 f_d2 g g_d1 g_d2 t0 t2 dt y0_0_0 theta v_0_0 dW0_0_0 dW1_0_0 = a3
  generalize Gen.grad_milstein_i_diagonal_11_gf_g_d1_fcbd887f1bc8 sqrt f f_d1 f_d2 g g_d1 g_d2 t0 t2 dt y0_0_0 theta v_0_0 dW0_0_0 dW1_0_0 = a4
  generalize Gen.grad_milstein_i_diagonal_11_gf_g_d1_fe90e523b752 sqrt f f_d1 f_d2 g g_d1 g_d2 t0 t2 dt y0_0_0 theta v_0_0 dW0_0_0 dW1_0_0 = a5
  ring

set_option maxHeartbeats 4000000 in
/-- `grad_milstein_s_diagonal_11`: backprop `gth` = forward derivative `tth` -/
theorem grad_milstein_s_diagonal_11_gth  (f : K → K → K → K) (f_d1 : K → K → K → K) (f_d2 : K → K → K → K) (g : K → K → K → K) (g_d1 : K → K → K → K) (g_d11 : K → K → K → K) (g_d12 : K → K → K → K) (g_d2 : K → K → K → K) (t0 t2 dt y0_0_0 theta v_0_0 dW0_0_0 dW1_0_0 : K) :
    Gen.grad_milstein_s_diagonal_11_gth f f_d1 f_d2 g g_d1 g_d11 g_d12 g_d2 t0 t2 dt y0_0_0 theta v_0_0 dW0_0_0 dW1_0_0 = Gen.grad_milstein_s_diagonal_11_tth f f_d1 f_d2 g g_d1 g_d11 g_d12 g_d2 t0 t2 dt y0_0_0 theta v_0_0 dW0_0_0 dW1_0_0 := by
  simp only [Gen.grad_milstein_s_diagonal_11_gth, Gen.grad_milstein_s_diagonal_11_tth]
  generalize Gen.grad_milstein_s_diagonal_11_f_d1_d1594caba5a3 f f_d1 f_d2 g g_d1 g_d11 g_d12 g_d2 t0 t2 dt y0_0_0 theta v_0_0 dW0_0_0 dW1_0_0 = a0
  generalize Gen.grad_milstein_s_diagonal_11_f_d2_19f2c5491e7e f f_d1 f_d2 g g_d1 g_d11 g_d12 g_d2 t0 t2 dt y0_0_0 theta v_0_0 dW0_0_0 dW1_0_0 = a1
  generalize Gen.grad_milstein_s_diagonal_11_f_d2_75ad011491cf f f_d1 f_d2 g g_d1 g_d11 g_d12 g_d2 t0 t2 dt y0_0_0 theta v_0_0 dW0_0_0 dW1_0_0 = a2
  generalize Gen.grad_milstein_s_diagonal_11_g_91660bdd818e f f_d1 f_d2 g g_d1 g_d11 g_d12 g_d2 t0 t2 dt y0_0_0 theta v_0_0 dW0_0_0 dW1_0_0 = a3
  generalize Gen.grad_milstein_s_diagonal_11_g_d11_ac6c316b1b1e f f_d1 f_d2 g g_d1 g_d11 g_d12 g_d2 t0 t2 dt y0_0_0 theta v_0_0 dW0_0_0 dW1_0_0 = a4
  generalize Gen.grad_milstein_s_diagonal_11_g_d12_40f4a140374f f f_d1 f_d2 g g_d1 g_d11 g_d12 g_d2 t0 t2 dt y0_0_0 theta v_0_0 dW0_0_0 dW1_0_0 = a5
  generalize Gen.grad_milstein_s_diagonal_11_g_d12_a9aa2e37d5f4 f f_d1 f_d2 g g_d1 g_d11 g_d12 g_d2 t0 t2 dt y0_0_0 theta v_0_0 dW0_0_0 dW1_0_0 = a6
  generalize Gen.grad_milstein_s_diagonal_11_g_d1_1704cf843a85 f f_d1 f_d2 g g_d1 g_d11 g_d12 g_d2 t0 t2 dt y0_0_0 theta v_0_0 dW0_0_0 dW1_0_0 = a7
  generalize Gen.grad_milstein_s_diagonal_11_g_d1_ddd0c5e556e2 f f_d1 f_d2 g g_d1 g_d11 g_d12 g_d2 t0 t2 dt y0_0_0 theta v_0_0 dW0_0_0 dW1_0_0 = a8
  generalize Gen.grad_milstein_s_diagonal_11_g_d2_722b7a6bbfae f f_d1 f_d2 g g_d1 g_d11 g_d12 g_d2 t0 t2 dt y0_0_0 theta v_0_0 dW0_0_0 dW1_0_0 = a9
  generalize Gen.grad_milstein_s_diagonal_11_g_d2_b13a46e3cda9 f f_d1 f_d2 g g_d1 g_d11 g_d12 g_d2 t0 t2 dt y0_0_0 theta v_0_0 dW0_0_0 dW1_0_0 = a10
  generalize Gen.grad_milstein_s_diagonal_11_g_db15086d257d f f_d1 f_d2 g g_d1 g_d11 g_d12 g_d2 t0 t2 dt y0_0_0 theta v_0_0 dW0_0_0 dW1_0_0 = a11
  ring

set_option maxHeartbeats 4000000 in
/-- `grad_milstein_s_diagonal_11`: backprop `gy_0_0` = forward derivative `ty_0_0` -/
theorem grad_milstein_s_diagonal_11_gy_0_0  (f : K → K → K → K) (f_d1 : K → K → K → K) (f_d2 : K → K → K → K) (g : K → K → K → K) (g_d1 : K → K → K → K) (g_d11 : K → K → K → K) (g_d12 : K → K → K → K) (g_d2 : K → K → K → K) (t0 t2 dt y0_0_0 theta v_0_0 dW0_0_0 dW1_0_0 : K) :
    Gen.grad_milstein_s_diagonal_11_gy_0_0 f f_d1 f_d2 g g_d1 g_d11 g_d12 g_d2 t0 t2 dt y0_0_0 theta v_0_0 dW0_0_0 dW1_0_0 = Gen.grad_milstein_s_diagonal_11_ty_0_0 f f_d1 f_d2 g g_d1 g_d11 g_d12 g_d2 t0 t2 dt y0_0_0 theta v_0_0 dW0_0_0 dW1_0_0 := by
  simp only [Gen.grad_milstein_s_diagonal_11_gy_0_0, Gen.grad_milstein_s_diagonal_11_ty_0_0]
  generalize Gen.grad_milstein_s_diagonal_11_f_d1_b39c2b677c13 f f_d1 f_d2 g g_d1 g_d11 g_d12 g_d2 t0 t2 dt y0_0_0 theta v_0_0 dW0_0_0 dW1_0_0 = a0
  generalize Gen.grad_milstein_s_diagonal_11_f_d1_d1594caba5a3 f f_d1 f_d2 g g_d1 g_d11 g_d12 g_d2 t0 t2 dt y0_0_0 theta v_0_0 dW0_0_0 dW1_0_0 = a1
  generalize Gen.grad_milstein_s_diagonal_11_g_91660bdd818e f f_d1 f_d2 g g_d1 g_d11 g_d12 g_d2 t0 t2 dt y0_0_0 theta v_0_0 dW0_0_0 dW1_0_0 = a2
  generalize Gen.grad_milstein_s_diagonal_11_g_d11_9d3773187952 f f_d1 f_d2 g g_d1 g_d11 g_d12 g_d2 t0 t2 dt y0_0_0 theta v_0_0 dW0_0_0 dW1_0_0 = a3
  generalize Gen.grad_milstein_s_diagonal_11_g_d11_ac6c316b1b1e f f_d1 f_d2 g g_d1 g_d11 g_d12 g_d2 t0 t2 dt y0_0_0 theta v_0_0 dW0_0_0 dW1_0_0 = a4
  generalize Gen.grad_milstein_s_diagonal_11_g_d1_1704cf843a85 f f_d1 f_d2 g g_d1 g_d11 g_d12 g_d2 t0 t2 dt y0_0_0 theta v_0_0 dW0_0_0 dW1_0_0 = a5
  generalize Gen.grad_milstein_s_diagonal_11_g_d1_ddd0c5e556e2 f f_d1 f_d2 g g_d1 g_d11 g_d12 g_d2 t0 t2 dt y0_0_0 theta v_0_0 dW0_0_0 dW1_0_0 = a6
  generalize Gen.grad_milstein_s_diagonal_11_g_db15086d257d f f_d1 f_d2 g g_d1 g_d11 g_d12 g_d2 t0 t2 dt y0_0_0 theta v_0_0 dW0_0_0 dW1_0_0 = a7
  ring

set_option maxHeartbeats 4000000 in
/-- `gradp_milstein_s_scalar_11`: backprop `gth` = forward derivative `tth` -/
theorem gradp_milstein_s_scalar_11_gth  (f : K → K → K → K) (f_d1 : K → K → K → K) (f_d2 : K → K → K → K) (g : K → K → K → K) (g_d1 : K → K → K → K) (g_d11 : K → K → K → K) (g_d12 : K → K → K → K) (g_d2 : K → K → K → K) (t0 t2 dt y0_0_0 theta v_0_0 dW0_0_0 dW1_0_0 : K) :
    Gen.gradp_milstein_s_scalar_11_gth f f_d1 f_d2 g g_d1 g_d11 g_d12 g_d2 t0 t2 dt y0_0_0 theta v_0_0 dW0_0_0 dW1_0_0 = Gen.gradp_milstein_s_scalar_11_tth f f_d1 f_d2 g g_d1 g_d11 g_d12 g_d2 t0 t2 dt y0_0_0 theta v_0_0 dW0_0_0 dW1_0_0 := by
  simp only [Gen.gradp_milstein_s_scalar_11_gth, Gen.gradp_milstein_s_scalar_11_tth]
  generalize Gen.gradp_milstein_s_scalar_11_f_d1_d1594caba5a3 f f_d1 f_d2 g g_d1 g_d11 g_d12 g_d2 t0 t2 dt y0_0_0 theta v_0_0 dW0_0_0 dW1_0_0 = a0
  generalize Gen.gradp_milstein_s_scalar_11_f_d2_19f2c5491e7e f f_d1 f_d2 g g_d1 g_d11 g_d12 g_d2 t0 t2 dt y0_0_0 theta v_0_0 dW0_0_0 dW1_0_0 = a1
  generalize Gen.gradp_milstein_s_scalar_11_f_d2_75ad011491cf f f_d1 f_d2 g g_d1 g_d11 g_d12 g_d2 t0 t2 dt y0_0_0 theta v_0_0 dW0_0_0 dW1_0_0 = a2
  generalize Gen.gradp_milstein_s_scalar_11_g_91660bdd818e f f_d1 f_d2 g g_d1 g_d11 g_d12 g_d2 t0 t2 dt y0_0_0 theta v_0_0 dW0_0_0 dW1_0_0 = a3
  generalize Gen.gradp_milstein_s_scalar_11_g_d11_ac6c316b1b1e f f_d1 f_d2 g g_d1 g_d11 g_d12 g_d2 t0 t2 dt y0_0_0 theta v_0_0 dW0_0_0 dW1_0_0 = a4
  generalize Gen.gradp_milstein_s_scalar_11_g_d12_40f4a140374f f f_d1 f_d2 g g_d1 g_d11 g_d12 g_d2 t0 t2 dt y0_0_0 theta v_0_0 dW0_0_0 dW1_0_0 = a5
  generalize Gen.gradp_milstein_s_scalar_11_g_d12_a9aa2e37d5f4 f f_d1 f_d2 g g_d1 g_d11 g_d12 g_d2 t0 t2 dt y0_0_0 theta v_0_0 dW0_0_0 dW1_0_0 = a6
  generalize Gen.gradp_milstein_s_scalar_11_g_d1_1704cf843a85 f f_d1 f_d2 g g_d1 g_d11 g_d12 g_d2 t0 t2 dt y0_0_0 theta v_0_0 dW0_0_0 dW1_0_0 = a7
  generalize Gen.gradp_milstein_s_scalar_11_g_d1_ddd0c5e556e2 f f_d1 f_d2 g g_d1 g_d11 g_d12 g_d2 t0 t2 dt y0_0_0 theta v_0_0 dW0_0_0 dW1_0_0 = a8
  generalize Gen.gradp_milstein_s_scalar_11_g_d2_722b7a6bbfae f f_d1 f_d2 g g_d1 g_d11 g_d12 g_d2 t0 t2 dt y0_0_0 theta v_0_0 dW0_0_0 dW1_0_0 = a9
  generalize Gen.gradp_milstein_s_scalar_11_g_d2_b13a46e3cda9 f f_d1 f_d2 g g_d1 g_d11 g_d12 g_d2 t0 t2 dt y0_0_0 theta v_0_0 dW0_0_0 dW1_0_0 = a10
  generalize Gen.gradp_milstein_s_scalar_11_g_db15086d257d f f_d1 f_d2 g g_d1 g_d11 g_d12 g_d2 t0 t2 dt y0_0_0 theta v_0_0 dW0_0_0 dW1_0_0 = a11
  ring

set_option maxHeartbeats 4000000 in
/-- `grad_srk_i_scalar_11`: backprop `gth` = forward derivative `tth` -/
theorem grad_srk_i_scalar_11_gth (sqrt : K → K) (f : K → K → K → K) (f_d1 : K → K → K → K) (f_d2 : K → K → K → K) (g : K → K → K → K) (g_d1 : K → K → K → K) (g_d2 : K → K → K → K) (t0 t2 dt y0_0_0 theta v_0_0 dW0_0_0 U0_0_0 : K) :
    Gen.grad_srk_i_scalar_11_gth sqrt f f_d1 f_d2 g g_d1 g_d2 t0 t2 dt y0_0_0 theta v_0_0 dW0_0_0 U0_0_0 = Gen.grad_srk_i_scalar_11_tth sqrt f f_d1 f_d2 g g_d1 g_d2 t0 t2 dt y0_0_0 theta v_0_0 dW0_0_0 U0_0_0 := by
  simp only [Gen.grad_srk_i_scalar_11_gth, Gen.grad_srk_i_scalar_11_tth]
  generalize Gen.grad_srk_i_scalar_11_f_d1_a342043d5a17 sqrt f f_d1 f_d2 g g_d1 g_d2 t0 t2 dt y0_0_0 theta v_0_0 dW0_0_0 U0_0_0 = a0
  generalize Gen.grad_srk_i_scalar_11_f_d1_d156dc18c48e sqrt f f_d1 f_d2 g g_d1 g_d2 t0 t2 dt y0_0_0 theta v_0_0 dW0_0_0 U0_0_0 = a1
  generalize Gen.grad_srk_i_scalar_11_f_d1_eea9c406aae6 sqrt f f_d1 f_d2 g g_d1 g_d2 t0 t2 dt y0_0_0 theta v_0_0 dW0_0_0 U0_0_0 = a2
  generalize Gen.grad_srk_i_scalar_11_f_d2_310d86aaeece sqrt f f_d1 f_d2 g g_d1 g_d2 t0 t2 dt y0_0_0 theta v_0_0 dW0_0_0 U0_0_0 = a3
  generalize Gen.grad_srk_i_scalar_11_f_d2_43a8eccf42bd sqrt f f_d1 f_d2 g g_d1 g_d2 t0 t2 dt y0_0_0 theta v_0_0 dW0_0_0 U0_0_0 = a4
  generalize Gen.grad_srk_i_scalar_11_f_d2_652b80508777 sqrt f f_d1 f_d2 g g_d1 g_d2 t0 t2 dt y0_0_0 theta v_0_0 dW0_0_0 U0_0_0 = a5
  generalize Gen.grad_srk_i_scalar_11_f_d2_c1eb736ab027 sqrt f f_d1 f_d2 g g_d1 g_d2 t0 t2 dt y0_0_0 theta v_0_0 dW0_0_0 U0_0_0 = a6
  generalize Gen.grad_srk_i_scalar_11_g_d1_3cc28ec53cea sqrt f f_d1 f_d2 g g_d1 g_d2 t0 t2 dt y0_0_0 theta v_0_0 dW0_0_0 U0_0_0 = a7
  generalize Gen.grad_srk_i_scalar_11_g_d1_523c86524621 sqrt f f_d1 f_d2 g g_d1 g_d2 t0 t2 dt y0_0_0 theta v_0_0 dW0_0_0 U0_0_0 = a8
  generalize Gen.grad_srk_i_scalar_11_g_d1_a6006d1b1274 sqrt f f_d1 f_d2 g g_d1 g_d2 t0 t2 dt y0_0_0 theta v_0_0 dW0_0_0 U0_0_0 = a9
  generalize Gen.grad_srk_i_scalar_11_g_d2_0dc38bec0349 sqrt f f_d1 f_d2 g g_d1 g_d2 t0 t2 dt y0_0_0 theta v_0_0 dW0_0_0 U0_0_0 = a10
  generalize Gen.grad_srk_i_scalar_11_g_d2_2f935788fb80 sqrt f f_d1 f_d2 g g_d1 g_d2 t0 t2 dt y0_0_0 theta v_0_0 dW0_0_0 U0_0_0 = a11
  generalize Gen.grad_srk_i_scalar_11_g_d2_86f392ebaf1c sqrt f f_d1 f_d2 g g_d1 g_d2 t0 t2 dt y0_0_0 theta v_0_0 dW0_0_0 U0_0_0 = a12
  generalize Gen.grad_srk_i_scalar_11_g_d2_ebe97742e314 sqrt f f_d1 f_d2 g g_d1 g_d2 t0 t2 dt y0_0_0 theta v_0_0 dW0_0_0 U0_0_0 = a13
  ring

set_option maxHeartbeats 4000000 in
/-- `grad_srk_i_scalar_11`: backprop `gy_0_0` = forward derivative `ty_0_0` -/
theorem grad_srk_i_scalar_11_gy_0_0 (sqrt : K → K) (f : K → K → K → K) (f_d1 : K → K → K → K) (f_d2 : K → K → K → K) (g : K → K → K → K) (g_d1 : K → K → K → K) (g_d2 : K → K → K → K) (t0 t2 dt y0_0_0 theta v_0_0 dW0_0_0 U0_0_0 : K) :
    Gen.grad_srk_i_scalar_11_gy_0_0 sqrt f f_d1 f_d2 g g_d1 g_d2 t0 t2 dt y0_0_0 theta v_0_0 dW0_0_0 U0_0_0 = Gen.grad_srk_i_scalar_11_ty_0_0 sqrt f f_d1 f_d2 g g_d1 g_d2 t0 t2 dt y0_0_0 theta v_0_0 dW0_0_0 U0_0_0 := by
  simp only [Gen.grad_srk_i_scalar_11_gy_0_0, Gen.grad_srk_i_scalar_11_ty_0_0]
  generalize Gen.grad_srk_i_scalar_11_f_d1_7cd00cd9dc7c sqrt f f_d1 f_d2 g g_d1 g_d2 t0 t2 dt y0_0_0 theta v_0_0 dW0_0_0 U0_0_0 = a0
  generalize Gen.grad_srk_i_scalar_11_f_d1_a342043d5a17 sqrt f f_d1 f_d2 g g_d1 g_d2 t0 t2 dt y0_0_0 theta v_0_0 dW0_0_0 U0_0_0 = a1
  generalize Gen.grad_srk_i_scalar_11_f_d1_d156dc18c48e sqrt f f_d1 f_d2 g g_d1 g_d2 t0 t2 dt y0_0_0 theta v_0_0 dW0_0_0 U0_0_0 = a2
  generalize Gen.grad_srk_i_scalar_11_f_d1_eea9c406aae6 sqrt f f_d1 f_d2 g g_d1 g_d2 t0 t2 dt y0_0_0 theta v_0_0 dW0_0_0 U0_0_0 = a3
  generalize Gen.grad_srk_i_scalar_11_g_d1_032aab118eab sqrt f f_d1 f_d2 g g_d1 g_d2 t0 t2 dt y0_0_0 theta v_0_0 dW0_0_0 U0_0_0 = a4
  generalize Gen.grad_srk_i_scalar_11_g_d1_3cc28ec53cea sqrt f f_d1 f_d2 g g_d1 g_d2 t0 t2 dt y0_0_0 theta v_0_0 dW0_0_0 U0_0_0 = a5
  generalize Gen.grad_srk_i_scalar_11_g_d1_523c86524621 sqrt f f_d1 f_d2 g g_d1 g_d2 t0 t2 dt y0_0_0 theta v_0_0 dW0_0_0 U0_0_0 = a6
  generalize Gen.grad_srk_i_scalar_11_g_d1_a6006d1b1274 sqrt f f_d1 f_d2 g g_d1 g_d2 t0 t2 dt y0_0_0 theta v_0_0 dW0_0_0 U0_0_0 = a7
  ring

set_option maxHeartbeats 4000000 in
/-- `grad_euler_heun_s_scalar_11`: backprop `gth` = forward derivative `tth` -/
theorem grad_euler_heun_s_scalar_11_gth  (f : K → K → K → K) (f_d1 : K → K → K → K) (f_d2 : K → K → K → K) (g : K → K → K → K) (g_d1 : K → K → K → K) (g_d2 : K → K → K → K) (t0 t2 dt y0_0_0 theta v_0_0 dW0_0_0 dW1_0_0 : K) :
    Gen.grad_euler_heun_s_scalar_11_gth f f_d1 f_d2 g g_d1 g_d2 t0 t2 dt y0_0_0 theta v_0_0 dW0_0_0 dW1_0_0 = Gen.grad_euler_heun_s_scalar_11_tth f f_d1 f_d2 g g_d1 g_d2 t0 t2 dt y0_0_0 theta v_0_0 dW0_0_0 dW1_0_0 := by
  simp only [Gen.grad_euler_heun_s_scalar_11_gth, Gen.grad_euler_heun_s_scalar_11_tth]
  generalize Gen.grad_euler_heun_s_scalar_11_f_d1_7cbdf16831d8 f f_d1 f_d2 g g_d1 g_d2 t0 t2 dt y0_0_0 theta v_0_0 dW0_0_0 dW1_0_0 = a0
  generalize Gen.grad_euler_heun_s_scalar_11_f_d2_75ad011491cf f f_d1 f_d2 g g_d1 g_d2 t0 t2 dt y0_0_0 theta v_0_0 dW0_0_0 dW1_0_0 = a1
  generalize Gen.grad_euler_heun_s_scalar_11_f_d2_f32f36b49a22 f f_d1 f_d2 g g_d1 g_d2 t0 t2 dt y0_0_0 theta v_0_0 dW0_0_0 dW1_0_0 = a2
  generalize Gen.grad_euler_heun_s_scalar_11_g_d1_53853b54eea6 f f_d1 f_d2 g g_d1 g_d2 t0 t2 dt y0_0_0 theta v_0_0 dW0_0_0 dW1_0_0 = a3
  generalize Gen.grad_euler_heun_s_scalar_11_g_d1_5e54333cf929 f f_d1 f_d2 g g_d1 g_d2 t0 t2 dt y0_0_0 theta v_0_0 dW0_0_0 dW1_0_0 = a4
  generalize Gen.grad_euler_heun_s_scalar_11_g_d1_b614375c6151 f f_d1 f_d2 g g_d1 g_d2 t0 t2 dt y0_0_0 theta v_0_0 dW0_0_0 dW1_0_0 = a5
  generalize Gen.grad_euler_heun_s_scalar_11_g_d2_09a42bc83543 f f_d1 f_d2 g g_d1 g_d2 t0 t2 dt y0_0_0 theta v_0_0 dW0_0_0 dW1_0_0 = a6
  generalize Gen.grad_euler_heun_s_scalar_11_g_d2_265183a04306 f f_d1 f_d2 g g_d1 g_d2 t0 t2 dt y0_0_0 theta v_0_0 dW0_0_0 dW1_0_0 = a7
  generalize Gen.grad_euler_heun_s_scalar_11_g_d2_722b7a6bbfae f f_d1 f_d2 g g_d1 g_d2 t0 t2 dt y0_0_0 theta v_0_0 dW0_0_0 dW1_0_0 = a8
  generalize Gen.grad_euler_heun_s_scalar_11_g_d2_db3783b54d14 f f_d1 f_d2 g g_d1 g_d2 t0 t2 dt y0_0_0 theta v_0_0 dW0_0_0 dW1_0_0 = a9
  ring

set_option maxHeartbeats 4000000 in
/-- `grad_euler_heun_s_scalar_11`: backprop `gy_0_0` = forward derivative `ty_0_0` -/
theorem grad_euler_heun_s_scalar_11_gy_0_0  (f : K → K → K → K) (f_d1 : K → K → K → K) (f_d2 : K → K → K → K) (g : K → K → K → K) (g_d1 : K → K → K → K) (g_d2 : K → K → K → K) (t0 t2 dt y0_0_0 theta v_0_0 dW0_0_0 dW1_0_0 : K) :
    Gen.grad_euler_heun_s_scalar_11_gy_0_0 f f_d1 f_d2 g g_d1 g_d2 t0 t2 dt y0_0_0 theta v_0_0 dW0_0_0 dW1_0_0 = Gen.grad_euler_heun_s_scalar_11_ty_0_0 f f_d1 f_d2 g g_d1 g_d2 t0 t2 dt y0_0_0 theta v_0_0 dW0_0_0 dW1_0_0 := by
  simp only [Gen.grad_euler_heun_s_scalar_11_gy_0_0, Gen.grad_euler_heun_s_scalar_11_ty_0_0]
  generalize Gen.grad_euler_heun_s_scalar_11_f_d1_7cbdf16831d8 f f_d1 f_d2 g g_d1 g_d2 t0 t2 dt y0_0_0 theta v_0_0 dW0_0_0 dW1_0_0 = a0
  generalize Gen.grad_euler_heun_s_scalar_11_f_d1_b39c2b677c13 f f_d1 f_d2 g g_d1 g_d2 t0 t2 dt y0_0_0 theta v_0_0 dW0_0_0 dW1_0_0 = a1
  generalize Gen.grad_euler_heun_s_scalar_11_g_d1_53853b54eea6 f f_d1 f_d2 g g_d1 g_d2 t0 t2 dt y0_0_0 theta v_0_0 dW0_0_0 dW1_0_0 = a2
  generalize Gen.grad_euler_heun_s_scalar_11_g_d1_5e54333cf929 f f_d1 f_d2 g g_d1 g_d2 t0 t2 dt y0_0_0 theta v_0_0 dW0_0_0 dW1_0_0 = a3
  generalize Gen.grad_euler_heun_s_scalar_11_g_d1_b614375c6151 f f_d1 f_d2 g g_d1 g_d2 t0 t2 dt y0_0_0 theta v_0_0 dW0_0_0 dW1_0_0 = a4
  generalize Gen.grad_euler_heun_s_scalar_11_g_d1_ddd0c5e556e2 f f_d1 f_d2 g g_d1 g_d2 t0 t2 dt y0_0_0 theta v_0_0 dW0_0_0 dW1_0_0 = a5
  ring

set_option maxHeartbeats 4000000 in
/-- `grad_heun_s_additive_11`: backprop `gth` = forward derivative `tth` -/
theorem grad_heun_s_additive_11_gth  (f : K → K → K → K) (f_d1 : K → K → K → K) (f_d2 : K → K → K → K) (g : K → K → K) (g_d1 : K → K → K) (t0 t2 dt y0_0_0 theta v_0_0 dW0_0_0 dW1_0_0 : K) :
    Gen.grad_heun_s_additive_11_gth f f_d1 f_d2 g g_d1 t0 t2 dt y0_0_0 theta v_0_0 dW0_0_0 dW1_0_0 = Gen.grad_heun_s_additive_11_tth f f_d1 f_d2 g g_d1 t0 t2 dt y0_0_0 theta v_0_0 dW0_0_0 dW1_0_0 := by
  simp only [Gen.grad_heun_s_additive_11_gth, Gen.grad_heun_s_additive_11_tth]
  generalize Gen.grad_heun_s_additive_11_f_d1_1fd7db64d481 f f_d1 f_d2 g g_d1 t0 t2 dt y0_0_0 theta v_0_0 dW0_0_0 dW1_0_0 = a0
  generalize Gen.grad_heun_s_additive_11_f_d1_47ec61cef5f6 f f_d1 f_d2 g g_d1 t0 t2 dt y0_0_0 theta v_0_0 dW0_0_0 dW1_0_0 = a1
  generalize Gen.grad_heun_s_additive_11_f_d1_9c9ad135697f f f_d1 f_d2 g g_d1 t0 t2 dt y0_0_0 theta v_0_0 dW0_0_0 dW1_0_0 = a2
  generalize Gen.grad_heun_s_additive_11_f_d2_75ad011491cf f f_d1 f_d2 g g_d1 t0 t2 dt y0_0_0 theta v_0_0 dW0_0_0 dW1_0_0 = a3
  generalize Gen.grad_heun_s_additive_11_f_d2_8dd5d4daeaa4 f f_d1 f_d2 g g_d1 t0 t2 dt y0_0_0 theta v_0_0 dW0_0_0 dW1_0_0 = a4
  generalize Gen.grad_heun_s_additive_11_f_d2_9624fdf97184 f f_d1 f_d2 g g_d1 t0 t2 dt y0_0_0 theta v_0_0 dW0_0_0 dW1_0_0 = a5
  generalize Gen.grad_heun_s_additive_11_f_d2_b2116ecde5ac f f_d1 f_d2 g g_d1 t0 t2 dt y0_0_0 theta v_0_0 dW0_0_0 dW1_0_0 = a6
  generalize Gen.grad_heun_s_additive_11_g_d1_098edafcd8e5 f f_d1 f_d2 g g_d1 t0 t2 dt y0_0_0 theta v_0_0 dW0_0_0 dW1_0_0 = a7
  generalize Gen.grad_heun_s_additive_11_g_d1_39aaf857762f f f_d1 f_d2 g g_d1 t0 t2 dt y0_0_0 theta v_0_0 dW0_0_0 dW1_0_0 = a8
  generalize Gen.grad_heun_s_additive_11_g_d1_3d49352567ba f f_d1 f_d2 g g_d1 t0 t2 dt y0_0_0 theta v_0_0 dW0_0_0 dW1_0_0 = a9
  ring

set_option maxHeartbeats 4000000 in
/-- `grad_heun_s_additive_11`: backprop `gy_0_0` = forward derivative `ty_0_0` -/
theorem grad_heun_s_additive_11_gy_0_0  (f : K → K → K → K) (f_d1 : K → K → K → K) (f_d2 : K → K → K → K) (g : K → K → K) (g_d1 : K → K → K) (t0 t2 dt y0_0_0 theta v_0_0 dW0_0_0 dW1_0_0 : K) :
    Gen.grad_heun_s_additive_11_gy_0_0 f f_d1 f_d2 g g_d1 t0 t2 dt y0_0_0 theta v_0_0 dW0_0_0 dW1_0_0 = Gen.grad_heun_s_additive_11_ty_0_0 f f_d1 f_d2 g g_d1 t0 t2 dt y0_0_0 theta v_0_0 dW0_0_0 dW1_0_0 := by
  simp only [Gen.grad_heun_s_additive_11_gy_0_0, Gen.grad_heun_s_additive_11_ty_0_0]
  generalize Gen.grad_heun_s_additive_11_f_d1_1fd7db64d481 f f_d1 f_d2 g g_d1 t0 t2 dt y0_0_0 theta v_0_0 dW0_0_0 dW1_0_0 = a0
  generalize Gen.grad_heun_s_additive_11_f_d1_47ec61cef5f6 f f_d1 f_d2 g g_d1 t0 t2 dt y0_0_0 theta v_0_0 dW0_0_0 dW1_0_0 = a1
  generalize Gen.grad_heun_s_additive_11_f_d1_9c9ad135697f f f_d1 f_d2 g g_d1 t0 t2 dt y0_0_0 theta v_0_0 dW0_0_0 dW1_0_0 = a2
  generalize Gen.grad_heun_s_additive_11_f_d1_b39c2b677c13 f f_d1 f_d2 g g_d1 t0 t2 dt y0_0_0 theta v_0_0 dW0_0_0 dW1_0_0 = a3
  ring

set_option maxHeartbeats 4000000 in
/-- `grad_midpoint_s_diagonal_11`: backprop `gth` = forward derivative `tth` -/
theorem grad_midpoint_s_diagonal_11_gth  (f : K → K → K → K) (f_d1 : K → K → K → K) (f_d2 : K → K → K → K) (g : K → K → K → K) (g_d1 : K → K → K → K) (g_d2 : K → K → K → K) (t0 t2 dt y0_0_0 theta v_0_0 dW0_0_0 dW1_0_0 : K) :
    Gen.grad_midpoint_s_diagonal_11_gth f f_d1 f_d2 g g_d1 g_d2 t0 t2 dt y0_0_0 theta v_0_0 dW0_0_0 dW1_0_0 = Gen.grad_midpoint_s_diagonal_11_tth f f_d1 f_d2 g g_d1 g_d2 t0 t2 dt y0_0_0 theta v_0_0 dW0_0_0 dW1_0_0 := by
  simp only [Gen.grad_midpoint_s_diagonal_11_gth, Gen.grad_midpoint_s_diagonal_11_tth]
  generalize Gen.grad_midpoint_s_diagonal_11_f_d1_5ee6dd087015 f f_d1 f_d2 g g_d1 g_d2 t0 t2 dt y0_0_0 theta v_0_0 dW0_0_0 dW1_0_0 = a0
  generalize Gen.grad_midpoint_s_diagonal_11_f_d1_703972b470e0 f f_d1 f_d2 g g_d1 g_d2 t0 t2 dt y0_0_0 theta v_0_0 dW0_0_0 dW1_0_0 = a1
  generalize Gen.grad_midpoint_s_diagonal_11_f_d1_ea194427e5d2 f f_d1 f_d2 g g_d1 g_d2 t0 t2 dt y0_0_0 theta v_0_0 dW0_0_0 dW1_0_0 = a2
  generalize Gen.grad_midpoint_s_diagonal_11_f_d2_0b924ab0a277 f f_d1 f_d2 g g_d1 g_d2 t0 t2 dt y0_0_0 theta v_0_0 dW0_0_0 dW1_0_0 = a3
  generalize Gen.grad_midpoint_s_diagonal_11_f_d2_75ad011491cf f f_d1 f_d2 g g_d1 g_d2 t0 t2 dt y0_0_0 theta v_0_0 dW0_0_0 dW1_0_0 = a4
  generalize Gen.grad_midpoint_s_diagonal_11_f_d2_7af3983cc4c0 f f_d1 f_d2 g g_d1 g_d2 t0 t2 dt y0_0_0 theta v_0_0 dW0_0_0 dW1_0_0 = a5
  generalize Gen.grad_midpoint_s_diagonal_11_f_d2_d7cbc9408b90 f f_d1 f_d2 g g_d1 g_d2 t0 t2 dt y0_0_0 theta v_0_0 dW0_0_0 dW1_0_0 = a6
  generalize Gen.grad_midpoint_s_diagonal_11_g_d1_4cebf89ea8f9 f f_d1 f_d2 g g_d1 g_d2 t0 t2 dt y0_0_0 theta v_0_0 dW0_0_0 dW1_0_0 = a7
  generalize Gen.grad_midpoint_s_diagonal_11_g_d1_6efd91c6bd6e f f_d1 f_d2 g g_d1 g_d2 t0 t2 dt y0_0_0 theta v_0_0 dW0_0_0 dW1_0_0 = a8
  generalize Gen.grad_midpoint_s_diagonal_11_g_d1_76b5237ed2e6 f f_d1 f_d2 g g_d1 g_d2 t0 t2 dt y0_0_0 theta v_0_0 dW0_0_0 dW1_0_0 = a9
  generalize Gen.grad_midpoint_s_diagonal_11_g_d2_722b7a6bbfae f f_d1 f_d2 g g_d1 g_d2 t0 t2 dt y0_0_0 theta v_0_0 dW0_0_0 dW1_0_0 = a10
  generalize Gen.grad_midpoint_s_diagonal_11_g_d2_971f06219250 f f_d1 f_d2 g g_d1 g_d2 t0 t2 dt y0_0_0 theta v_0_0 dW0_0_0 dW1_0_0 = a11
  generalize Gen.grad_midpoint_s_diagonal_11_g_d2_e3437f9b71a5 f f_d1 f_d2 g g_d1 g_d2 t0 t2 dt y0_0_0 theta v_0_0 dW0_0_0 dW1_0_0 = a12
  generalize Gen.grad_midpoint_s_diagonal_11_g_d2_ee9a050cb9fa f f_d1 f_d2 g g_d1 g_d2 t0 t2 dt y0_0_0 theta v_0_0 dW0_0_0 dW1_0_0 = a13
  ring

set_option maxHeartbeats 4000000 in
/-- `grad_midpoint_s_diagonal_11`: backprop `gy_0_0` = forward derivative `ty_0_0` -/
theorem grad_midpoint_s_diagonal_11_gy_0_0  (f : K → K → K → K) (f_d1 : K → K → K → K) (f_d2 : K → K → K → K) (g : K → K → K → K) (g_d1 : K → K → K → K) (g_d2 : K → K → K → K) (t0 t2 dt y0_0_0 theta v_0_0 dW0_0_0 dW1_0_0 : K) :
    Gen.grad_midpoint_s_diagonal_11_gy_0_0 f f_d1 f_d2 g g_d1 g_d2 t0 t2 dt y0_0_0 theta v_0_0 dW0_0_0 dW1_0_0 = Gen.grad_midpoint_s_diagonal_11_ty_0_0 f f_d1 f_d2 g g_d1 g_d2 t0 t2 dt y0_0_0 theta v_0_0 dW0_0_0 dW1_0_0 := by
  simp only [Gen.grad_midpoint_s_diagonal_11_gy_0_0, Gen.grad_midpoint_s_diagonal_11_ty_0_0]
  generalize Gen.grad_midpoint_s_diagonal_11_f_d1_5ee6dd087015 f f_d1 f_d2 g g_d1 g_d2 t0 t2 dt y0_0_0 theta v_0_0 dW0_0_0 dW1_0_0 = a0
  generalize Gen.grad_midpoint_s_diagonal_11_f_d1_703972b470e0 f f_d1 f_d2 g g_d1 g_d2 t0 t2 dt y0_0_0 theta v_0_0 dW0_0_0 dW1_0_0 = a1
  generalize Gen.grad_midpoint_s_diagonal_11_f_d1_b39c2b677c13 f f_d1 f_d2 g g_d1 g_d2 t0 t2 dt y0_0_0 theta v_0_0 dW0_0_0 dW1_0_0 = a2
  generalize Gen.grad_midpoint_s_diagonal_11_f_d1_ea194427e5d2 f f_d1 f_d2 g g_d1 g_d2 t0 t2 dt y0_0_0 theta v_0_0 dW0_0_0 dW1_0_0 = a3
  generalize Gen.grad_midpoint_s_diagonal_11_g_d1_4cebf89ea8f9 f f_d1 f_d2 g g_d1 g_d2 t0 t2 dt y0_0_0 theta v_0_0 dW0_0_0 dW1_0_0 = a4
  generalize Gen.grad_midpoint_s_diagonal_11_g_d1_6efd91c6bd6e f f_d1 f_d2 g g_d1 g_d2 t0 t2 dt y0_0_0 theta v_0_0 dW0_0_0 dW1_0_0 = a5
  generalize Gen.grad_midpoint_s_diagonal_11_g_d1_76b5237ed2e6 f f_d1 f_d2 g g_d1 g_d2 t0 t2 dt y0_0_0 theta v_0_0 dW0_0_0 dW1_0_0 = a6
  generalize Gen.grad_midpoint_s_diagonal_11_g_d1_ddd0c5e556e2 f f_d1 f_d2 g g_d1 g_d2 t0 t2 dt y0_0_0 theta v_0_0 dW0_0_0 dW1_0_0 = a7
  ring

set_option maxHeartbeats 4000000 in
/-- `grad_midpoint_s_general_11`: backprop `gth` = forward derivative `tth` -/
theorem grad_midpoint_s_general_11_gth  (f : K → K → K → K) (f_d1 : K → K → K → K) (f_d2 : K → K → K → K) (g : K → K → K → K) (g_d1 : K → K → K → K) (g_d2 : K → K → K → K) (t0 t2 dt y0_0_0 theta v_0_0 dW0_0_0 dW1_0_0 : K) :
    Gen.grad_midpoint_s_general_11_gth f f_d1 f_d2 g g_d1 g_d2 t0 t2 dt y0_0_0 theta v_0_0 dW0_0_0 dW1_0_0 = Gen.grad_midpoint_s_general_11_tth f f_d1 f_d2 g g_d1 g_d2 t0 t2 dt y0_0_0 theta v_0_0 dW0_0_0 dW1_0_0 := by
  simp only [Gen.grad_midpoint_s_general_11_gth, Gen.grad_midpoint_s_general_11_tth]
  generalize Gen.grad_midpoint_s_general_11_f_d1_5ee6dd087015 f f_d1 f_d2 g g_d1 g_d2 t0 t2 dt y0_0_0 theta v_0_0 dW0_0_0 dW1_0_0 = a0
  generalize Gen.grad_midpoint_s_general_11_f_d1_703972b470e0 f f_d1 f_d2 g g_d1 g_d2 t0 t2 dt y0_0_0 theta v_0_0 dW0_0_0 dW1_0_0 = a1
  generalize Gen.grad_midpoint_s_general_11_f_d1_ea194427e5d2 f f_d1 f_d2 g g_d1 g_d2 t0 t2 dt y0_0_0 theta v_0_0 dW0_0_0 dW1_0_0 = a2
  generalize Gen.grad_midpoint_s_general_11_f_d2_0b924ab0a277 f f_d1 f_d2 g g_d1 g_d2 t0 t2 dt y0_0_0 theta v_0_0 dW0_0_0 dW1_0_0 = a3
  generalize Gen.grad_midpoint_s_general_11_f_d2_75ad011491cf f f_d1 f_d2 g g_d1 g_d2 t0 t2 dt y0_0_0 theta v_0_0 dW0_0_0 dW1_0_0 = a4
  generalize Gen.grad_midpoint_s_general_11_f_d2_7af3983cc4c0 f f_d1 f_d2 g g_d1 g_d2 t0 t2 dt y0_0_0 theta v_0_0 dW0_0_0 dW1_0_0 = a5
  generalize Gen.grad_midpoint_s_general_11_f_d2_d7cbc9408b90 f f_d1 f_d2 g g_d1 g_d2 t0 t2 dt y0_0_0 theta v_0_0 dW0_0_0 dW1_0_0 = a6
  generalize Gen.grad_midpoint_s_general_11_g_d1_4cebf89ea8f9 f f_d1 f_d2 g g_d1 g_d2 t0 t2 dt y0_0_0 theta v_0_0 dW0_0_0 dW1_0_0 = a7
  generalize Gen.grad_midpoint_s_general_11_g_d1_6efd91c6bd6e f f_d1 f_d2 g g_d1 g_d2 t0 t2 dt y0_0_0 theta v_0_0 dW0_0_0 dW1_0_0 = a8
  generalize Gen.grad_midpoint_s_general_11_g_d1_76b5237ed2e6 f f_d1 f_d2 g g_d1 g_d2 t0 t2 dt y0_0_0 theta v_0_0 dW0_0_0 dW1_0_0 = a9
  generalize Gen.grad_midpoint_s_general_11_g_d2_722b7a6bbfae f f_d1 f_d2 g g_d1 g_d2 t0 t2 dt y0_0_0 theta v_0_0 dW0_0_0 dW1_0_0 = a10
  generalize Gen.grad_midpoint_s_general_11_g_d2_971f06219250 f f_d1 f_d2 g g_d1 g_d2 t0 t2 dt y0_0_0 theta v_0_0 dW0_0_0 dW1_0_0 = a11
  generalize Gen.grad_midpoint_s_general_11_g_d2_e3437f9b71a5 f f_d1 f_d2 g g_d1 g_d2 t0 t2 dt y0_0_0 theta v_0_0 dW0_0_0 dW1_0_0 = a12
  generalize Gen.grad_midpoint_s_general_11_g_d2_ee9a050cb9fa f f_d1 f_d2 g g_d1 g_d2 t0 t2 dt y0_0_0 theta v_0_0 dW0_0_0 dW1_0_0 = a13
  ring

set_option maxHeartbeats 4000000 in
/-- `grad_midpoint_s_general_11`: backprop `gy_0_0` = forward derivative `ty_0_0` -/
theorem grad_midpoint_s_general_11_gy_0_0  (f : K → K → K → K) (f_d1 : K → K → K → K) (f_d2 : K → K → K → K) (g : K → K → K → K) (g_d1 : K → K → K → K) (g_d2 : K → K → K → K) (t0 t2 dt y0_0_0 theta v_0_0 dW0_0_0 dW1_0_0 : K) :
    Gen.grad_midpoint_s_general_11_gy_0_0 f f_d1 f_d2 g g_d1 g_d2 t0 t2 dt y0_0_0 theta v_0_0 dW0_0_0 dW1_0_0 = Gen.grad_midpoint_s_general_11_ty_0_0 f f_d1 f_d2 g g_d1 g_d2 t0 t2 dt y0_0_0 theta v_0_0 dW0_0_0 dW1_0_0 := by
  simp only [Gen.grad_midpoint_s_general_11_gy_0_0, Gen.grad_midpoint_s_general_11_ty_0_0]
  generalize Gen.grad_midpoint_s_general_11_f_d1_5ee6dd087015 f f_d1 f_d2 g g_d1 g_d2 t0 t2 dt y0_0_0 theta v_0_0 dW0_0_0 dW1_0_0 = a0
  generalize Gen.grad_midpoint_s_general_11_f_d1_703972b470e0 f f_d1 f_d2 g g_d1 g_d2 t0 t2 dt y0_0_0 theta v_0_0 dW0_0_0 dW1_0_0 = a1
  generalize Gen.grad_midpoint_s_general_11_f_d1_b39c2b677c13 f f_d1 f_d2 g g_d1 g_d2 t0 t2 dt y0_0_0 theta v_0_0 dW0_0_0 dW1_0_0 = a2
  generalize Gen.grad_midpoint_s_general_11_f_d1_ea194427e5d2 f f_d1 f_d2 g g_d1 g_d2 t0 t2 dt y0_0_0 theta v_0_0 dW0_0_0 dW1_0_0 = a3
  generalize Gen.grad_midpoint_s_general_11_g_d1_4cebf89ea8f9 f f_d1 f_d2 g g_d1 g_d2 t0 t2 dt y0_0_0 theta v_0_0 dW0_0_0 dW1_0_0 = a4
  generalize Gen.grad_midpoint_s_general_11_g_d1_6efd91c6bd6e f f_d1 f_d2 g g_d1 g_d2 t0 t2 dt y0_0_0 theta v_0_0 dW0_0_0 dW1_0_0 = a5
  generalize Gen.grad_midpoint_s_general_11_g_d1_76b5237ed2e6 f f_d1 f_d2 g g_d1 g_d2 t0 t2 dt y0_0_0 theta v_0_0 dW0_0_0 dW1_0_0 = a6
  generalize Gen.grad_midpoint_s_general_11_g_d1_ddd0c5e556e2 f f_d1 f_d2 g g_d1 g_d2 t0 t2 dt y0_0_0 theta v_0_0 dW0_0_0 dW1_0_0 = a7
  ring

set_option maxHeartbeats 4000000 in
/-- `grad_log_ode_s_scalar_11`: backprop `gth` = forward derivative `tth` -/
theorem grad_log_ode_s_scalar_11_gth  (f : K → K → K → K) (f_d1 : K → K → K → K) (f_d2 : K → K → K → K) (g : K → K → K → K) (g_d1 : K → K → K → K) (g_d2 : K → K → K → K) (t0 t2 dt y0_0_0 theta v_0_0 dW0_0_0 dW1_0_0 U0_0_0 U1_0_0 A0_0_0_0 A1_0_0_0 : K) :
    Gen.grad_log_ode_s_scalar_11_gth f f_d1 f_d2 g g_d1 g_d2 t0 t2 dt y0_0_0 theta v_0_0 dW0_0_0 dW1_0_0 U0_0_0 U1_0_0 A0_0_0_0 A1_0_0_0 = Gen.grad_log_ode_s_scalar_11_tth f f_d1 f_d2 g g_d1 g_d2 t0 t2 dt y0_0_0 theta v_0_0 dW0_0_0 dW1_0_0 U0_0_0 U1_0_0 A0_0_0_0 A1_0_0_0 := by
  simp only [Gen.grad_log_ode_s_scalar_11_gth, Gen.grad_log_ode_s_scalar_11_tth]
  generalize Gen.grad_log_ode_s_scalar_11_f_d1_aa6e56519ae1 f f_d1 f_d2 g g_d1 g_d2 t0 t2 dt y0_0_0 theta v_0_0 dW0_0_0 dW1_0_0 U0_0_0 U1_0_0 A0_0_0_0 A1_0_0_0 = a0
  generalize Gen.grad_log_ode_s_scalar_11_f_d1_c2712a6d7499 f f_d1 f_d2 g g_d1 g_d2 t0 t2 dt y0_0_0 theta v_0_0 dW0_0_0 dW1_0_0 U0_0_0 U1_0_0 A0_0_0_0 A1_0_0_0 = a1
  generalize Gen.grad_log_ode_s_scalar_11_f_d1_ea194427e5d2 f f_d1 f_d2 g g_d1 g_d2 t0 t2 dt y0_0_0 theta v_0_0 dW0_0_0 dW1_0_0 U0_0_0 U1_0_0 A0_0_0_0 A1_0_0_0 = a2
  generalize Gen.grad_log_ode_s_scalar_11_f_d2_6bf883ebc92c f f_d1 f_d2 g g_d1 g_d2 t0 t2 dt y0_0_0 theta v_0_0 dW0_0_0 dW1_0_0 U0_0_0 U1_0_0 A0_0_0_0 A1_0_0_0 = a3
  generalize Gen.grad_log_ode_s_scalar_11_f_d2_75ad011491cf f f_d1 f_d2 g g_d1 g_d2 t0 t2 dt y0_0_0 theta v_0_0 dW0_0_0 dW1_0_0 U0_0_0 U1_0_0 A0_0_0_0 A1_0_0_0 = a4
  generalize Gen.grad_log_ode_s_scalar_11_f_d2_9f37c3dc046f f f_d1 f_d2 g g_d1 g_d2 t0 t2 dt y0_0_0 theta v_0_0 dW0_0_0 dW1_0_0 U0_0_0 U1_0_0 A0_0_0_0 A1_0_0_0 = a5
  generalize Gen.grad_log_ode_s_scalar_11_f_d2_d7cbc9408b90 f f_d1 f_d2 g g_d1 g_d2 t0 t2 dt y0_0_0 theta v_0_0 dW0_0_0 dW1_0_0 U0_0_0 U1_0_0 A0_0_0_0 A1_0_0_0 = a6
  generalize Gen.grad_log_ode_s_scalar_11_g_d1_76b5237ed2e6 f f_d1 f_d2 g g_d1 g_d2 t0 t2 dt y0_0_0 theta v_0_0 dW0_0_0 dW1_0_0 U0_0_0 U1_0_0 A0_0_0_0 A1_0_0_0 = a7
  generalize Gen.grad_log_ode_s_scalar_11_g_d1_b39451c7c697 f f_d1 f_d2 g g_d1 g_d2 t0 t2 dt y0_0_0 theta v_0_0 dW0_0_0 dW1_0_0 U0_0_0 U1_0_0 A0_0_0_0 A1_0_0_0 = a8
  generalize Gen.grad_log_ode_s_scalar_11_g_d1_d76ea1a1c502 f f_d1 f_d2 g g_d1 g_d2 t0 t2 dt y0_0_0 theta v_0_0 dW0_0_0 dW1_0_0 U0_0_0 U1_0_0 A0_0_0_0 A1_0_0_0 = a9
  generalize Gen.grad_log_ode_s_scalar_11_g_d2_39921a596628 f f_d1 f_d2 g g_d1 g_d2 t0 t2 dt y0_0_0 theta v_0_0 dW0_0_0 dW1_0_0 U0_0_0 U1_0_0 A0_0_0_0 A1_0_0_0 = a10
  generalize Gen.grad_log_ode_s_scalar_11_g_d2_722b7a6bbfae f f_d1 f_d2 g g_d1 g_d2 t0 t2 dt y0_0_0 theta v_0_0 dW0_0_0 dW1_0_0 U0_0_0 U1_0_0 A0_0_0_0 A1_0_0_0 = a11
  generalize Gen.grad_log_ode_s_scalar_11_g_d2_8f2c51adb79d f f_d1 f_d2 g g_d1 g_d2 t0 t2 dt y0_0_0 theta v_0_0 dW0_0_0 dW1_0_0 U0_0_0 U1_0_0 A0_0_0_0 A1_0_0_0 = a12
  generalize Gen.grad_log_ode_s_scalar_11_g_d2_e3437f9b71a5 f f_d1 f_d2 g g_d1 g_d2 t0 t2 dt y0_0_0 theta v_0_0 dW0_0_0 dW1_0_0 U0_0_0 U1_0_0 A0_0_0_0 A1_0_0_0 = a13
  ring

set_option maxHeartbeats 4000000 in
/-- `grad_log_ode_s_scalar_11`: backprop `gy_0_0` = forward derivative `ty_0_0` -/
theorem grad_log_ode_s_scalar_11_gy_0_0  (f : K → K → K → K) (f_d1 : K → K → K → K) (f_d2 : K → K → K → K) (g : K → K → K → K) (g_d1 : K → K → K → K) (g_d2 : K → K → K → K) (t0 t2 dt y0_0_0 theta v_0_0 dW0_0_0 dW1_0_0 U0_0_0 U1_0_0 A0_0_0_0 A1_0_0_0 : K) :
    Gen.grad_log_ode_s_scalar_11_gy_0_0 f f_d1 f_d2 g g_d1 g_d2 t0 t2 dt y0_0_0 theta v_0_0 dW0_0_0 dW1_0_0 U0_0_0 U1_0_0 A0_0_0_0 A1_0_0_0 = Gen.grad_log_ode_s_scalar_11_ty_0_0 f f_d1 f_d2 g g_d1 g_d2 t0 t2 dt y0_0_0 theta v_0_0 dW0_0_0 dW1_0_0 U0_0_0 U1_0_0 A0_0_0_0 A1_0_0_0 := by
  simp only [Gen.grad_log_ode_s_scalar_11_gy_0_0, Gen.grad_log_ode_s_scalar_11_ty_0_0]
  generalize Gen.grad_log_ode_s_scalar_11_f_d1_aa6e56519ae1 f f_d1 f_d2 g g_d1 g_d2 t0 t2 dt y0_0_0 theta v_0_0 dW0_0_0 dW1_0_0 U0_0_0 U1_0_0 A0_0_0_0 A1_0_0_0 = a0
  generalize Gen.grad_log_ode_s_scalar_11_f_d1_b39c2b677c13 f f_d1 f_d2 g g_d1 g_d2 t0 t2 dt y0_0_0 theta v_0_0 dW0_0_0 dW1_0_0 U0_0_0 U1_0_0 A0_0_0_0 A1_0_0_0 = a1
  generalize Gen.grad_log_ode_s_scalar_11_f_d1_c2712a6d7499 f f_d1 f_d2 g g_d1 g_d2 t0 t2 dt y0_0_0 theta v_0_0 dW0_0_0 dW1_0_0 U0_0_0 U1_0_0 A0_0_0_0 A1_0_0_0 = a2
  generalize Gen.grad_log_ode_s_scalar_11_f_d1_ea194427e5d2 f f_d1 f_d2 g g_d1 g_d2 t0 t2 dt y0_0_0 theta v_0_0 dW0_0_0 dW1_0_0 U0_0_0 U1_0_0 A0_0_0_0 A1_0_0_0 = a3
  generalize Gen.grad_log_ode_s_scalar_11_g_d1_76b5237ed2e6 f f_d1 f_d2 g g_d1 g_d2 t0 t2 dt y0_0_0 theta v_0_0 dW0_0_0 dW1_0_0 U0_0_0 U1_0_0 A0_0_0_0 A1_0_0_0 = a4
  generalize Gen.grad_log_ode_s_scalar_11_g_d1_b39451c7c697 f f_d1 f_d2 g g_d1 g_d2 t0 t2 dt y0_0_0 theta v_0_0 dW0_0_0 dW1_0_0 U0_0_0 U1_0_0 A0_0_0_0 A1_0_0_0 = a5
  generalize Gen.grad_log_ode_s_scalar_11_g_d1_d76ea1a1c502 f f_d1 f_d2 g g_d1 g_d2 t0 t2 dt y0_0_0 theta v_0_0 dW0_0_0 dW1_0_0 U0_0_0 U1_0_0 A0_0_0_0 A1_0_0_0 = a6
  generalize Gen.grad_log_ode_s_scalar_11_g_d1_ddd0c5e556e2 f f_d1 f_d2 g g_d1 g_d2 t0 t2 dt y0_0_0 theta v_0_0 dW0_0_0 dW1_0_0 U0_0_0 U1_0_0 A0_0_0_0 A1_0_0_0 = a7
  ring

set_option maxHeartbeats 4000000 in
/-- `grad_reversible_heun_s_additive_11`: backprop `gth` = forward derivative `tth` -/
theorem grad_reversible_heun_s_additive_11_gth  (f : K → K → K → K) (f_d1 : K → K → K → K) (f_d2 : K → K → K → K) (g : K → K → K) (g_d1 : K → K → K) (t0 t2 dt y0_0_0 theta v_0_0 dW0_0_0 dW1_0_0 : K) :
    Gen.grad_reversible_heun_s_additive_11_gth f f_d1 f_d2 g g_d1 t0 t2 dt y0_0_0 theta v_0_0 dW0_0_0 dW1_0_0 = Gen.grad_reversible_heun_s_additive_11_tth f f_d1 f_d2 g g_d1 t0 t2 dt y0_0_0 theta v_0_0 dW0_0_0 dW1_0_0 := by
  simp only [Gen.grad_reversible_heun_s_additive_11_gth, Gen.grad_reversible_heun_s_additive_11_tth]
  generalize Gen.grad_reversible_heun_s_additive_11_f_d1_c4dfbb087628 f f_d1 f_d2 g g_d1 t0 t2 dt y0_0_0 theta v_0_0 dW0_0_0 dW1_0_0 = a0
  generalize Gen.grad_reversible_heun_s_additive_11_f_d1_ecad069d9452 f f_d1 f_d2 g g_d1 t0 t2 dt y0_0_0 theta v_0_0 dW0_0_0 dW1_0_0 = a1
  generalize Gen.grad_reversible_heun_s_additive_11_f_d2_09f47b3c4e4e f f_d1 f_d2 g g_d1 t0 t2 dt y0_0_0 theta v_0_0 dW0_0_0 dW1_0_0 = a2
  generalize Gen.grad_reversible_heun_s_additive_11_f_d2_75ad011491cf f f_d1 f_d2 g g_d1 t0 t2 dt y0_0_0 theta v_0_0 dW0_0_0 dW1_0_0 = a3
  generalize Gen.grad_reversible_heun_s_additive_11_f_d2_a7981309fb8a f f_d1 f_d2 g g_d1 t0 t2 dt y0_0_0 theta v_0_0 dW0_0_0 dW1_0_0 = a4
  generalize Gen.grad_reversible_heun_s_additive_11_g_d1_098edafcd8e5 f f_d1 f_d2 g g_d1 t0 t2 dt y0_0_0 theta v_0_0 dW0_0_0 dW1_0_0 = a5
  generalize Gen.grad_reversible_heun_s_additive_11_g_d1_39aaf857762f f f_d1 f_d2 g g_d1 t0 t2 dt y0_0_0 theta v_0_0 dW0_0_0 dW1_0_0 = a6
  generalize Gen.grad_reversible_heun_s_additive_11_g_d1_3d49352567ba f f_d1 f_d2 g g_d1 t0 t2 dt y0_0_0 theta v_0_0 dW0_0_0 dW1_0_0 = a7
  ring

set_option maxHeartbeats 4000000 in
/-- `grad_reversible_heun_s_additive_11`: backprop `gy_0_0` = forward derivative `ty_0_0` -/
theorem grad_reversible_heun_s_additive_11_gy_0_0  (f : K → K → K → K) (f_d1 : K → K → K → K) (f_d2 : K → K → K → K) (g : K → K → K) (g_d1 : K → K → K) (t0 t2 dt y0_0_0 theta v_0_0 dW0_0_0 dW1_0_0 : K) :
    Gen.grad_reversible_heun_s_additive_11_gy_0_0 f f_d1 f_d2 g g_d1 t0 t2 dt y0_0_0 theta v_0_0 dW0_0_0 dW1_0_0 = Gen.grad_reversible_heun_s_additive_11_ty_0_0 f f_d1 f_d2 g g_d1 t0 t2 dt y0_0_0 theta v_0_0 dW0_0_0 dW1_0_0 := by
  simp only [Gen.grad_reversible_heun_s_additive_11_gy_0_0, Gen.grad_reversible_heun_s_additive_11_ty_0_0]
  generalize Gen.grad_reversible_heun_s_additive_11_f_d1_b39c2b677c13 f f_d1 f_d2 g g_d1 t0 t2 dt y0_0_0 theta v_0_0 dW0_0_0 dW1_0_0 = a0
  generalize Gen.grad_reversible_heun_s_additive_11_f_d1_c4dfbb087628 f f_d1 f_d2 g g_d1 t0 t2 dt y0_0_0 theta v_0_0 dW0_0_0 dW1_0_0 = a1
  generalize Gen.grad_reversible_heun_s_additive_11_f_d1_ecad069d9452 f f_d1 f_d2 g g_d1 t0 t2 dt y0_0_0 theta v_0_0 dW0_0_0 dW1_0_0 = a2
  ring

set_option maxHeartbeats 4000000 in
/-- `grad_euler_i_general_22`: backprop `gth` = forward derivative `tth` -/
theorem grad_euler_i_general_22_gth  (f0 : K → K → K → K → K) (f0_d1 : K → K → K → K → K) (f0_d2 : K → K → K → K → K) (f0_d3 : K → K → K → K → K) (f1 : K → K → K → K → K) (f1_d1 : K → K → K → K → K) (f1_d2 : K → K → K → K → K) (f1_d3 : K → K → K → K → K) (g00 : K → K → K → K → K) (g00_d1 : K → K → K → K → K) (g00_d2 : K → K → K → K → K) (g00_d3 : K → K → K → K → K) (g01 : K → K → K → K → K) (g01_d1 : K → K → K → K → K) (g01_d2 : K → K → K → K → K) (g01_d3 : K → K → K → K → K) (g10 : K → K → K → K → K) (g10_d1 : K → K → K → K → K) (g10_d2 : K → K → K → K → K) (g10_d3 : K → K → K → K → K) (g11 : K → K → K → K → K) (g11_d1 : K → K → K → K → K) (g11_d2 : K → K → K → K → K) (g11_d3 : K → K → K → K → K) (t0 t2 dt y0_0_0 y0_0_1 theta v_0_0 v_0_1 dW0_0_0 dW0_0_1 : K) :
    Gen.grad_euler_i_general_22_gth f0 f0_d1 f0_d2 f0_d3 f1 f1_d1 f1_d2 f1_d3 g00 g00_d1 g00_d2 g00_d3 g01 g01_d1 g01_d2 g01_d3 g10 g10_d1 g10_d2 g10_d3 g11 g11_d1 g11_d2 g11_d3 t0 t2 dt y0_0_0 y0_0_1 theta v_0_0 v_0_1 dW0_0_0 dW0_0_1 = Gen.grad_euler_i_general_22_tth f0 f0_d1 f0_d2 f0_d3 f1 f1_d1 f1_d2 f1_d3 g00 g00_d1 g00_d2 g00_d3 g01 g01_d1 g01_d2 g01_d3 g10 g10_d1 g10_d2 g10_d3 g11 g11_d1 g11_d2 g11_d3 t0 t2 dt y0_0_0 y0_0_1 theta v_0_0 v_0_1 dW0_0_0 dW0_0_1 := by
  simp only [Gen.grad_euler_i_general_22_gth, Gen.grad_euler_i_general_22_tth]
  generalize Gen.grad_euler_i_general_22_f0_d3_117f0ace4604 f0 f0_d1 f0_d2 f0_d3 f1 f1_d1 f1_d2 f1_d3 g00 g00_d1 g00_d2 g00_d3 g01 g01_d1 g01_d2 g01_d3 g10 g10_d1 g10_d2 g10_d3 g11 g11_d1 g11_d2 g11_d3 t0 t2 dt y0_0_0 y0_0_1 theta v_0_0 v_0_1 dW0_0_0 dW0_0_1 = a0
  generalize Gen.grad_euler_i_general_22_f1_d3_711269134f9c f0 f0_d1 f0_d2 f0_d3 f1 f1_d1 f1_d2 f1_d3 g00 g00_d1 g00_d2 g00_d3 g01 g01_d1 g01_d2 g01_d3 g10 g10_d1 g10_d2 g10_d3 g11 g11_d1 g11_d2 g11_d3 t0 t2 dt y0_0_0 y0_0_1 theta v_0_0 v_0_1 dW0_0_0 dW0_0_1 = a1
  generalize Gen.grad_euler_i_general_22_g00_d3_b94e31578305 f0 f0_d1 f0_d2 f0_d3 f1 f1_d1 f1_d2 f1_d3 g00 g00_d1 g00_d2 g00_d3 g01 g01_d1 g01_d2 g01_d3 g10 g10_d1 g10_d2 g10_d3 g11 g11_d1 g11_d2 g11_d3 t0 t2 dt y0_0_0 y0_0_1 theta v_0_0 v_0_1 dW0_0_0 dW0_0_1 = a2
  generalize Gen.grad_euler_i_general_22_g01_d3_36b2116c1fe6 f0 f0_d1 f0_d2 f0_d3 f1 f1_d1 f1_d2 f1_d3 g00 g00_d1 g00_d2 g00_d3 g01 g01_d1 g01_d2 g01_d3 g10 g10_d1 g10_d2 g10_d3 g11 g11_d1 g11_d2 g11_d3 t0 t2 dt y0_0_0 y0_0_1 theta v_0_0 v_0_1 dW0_0_0 dW0_0_1 = a3
  generalize Gen.grad_euler_i_general_22_g10_d3_f3c762927fb5 f0 f0_d1 f0_d2 f0_d3 f1 f1_d1 f1_d2 f1_d3 g00 g00_d1 g00_d2 g00_d3 g01 g01_d1 g01_d2 g01_d3 g10 g10_d1 g10_d2 g10_d3 g11 g11_d1 g11_d2 g11_d3 t0 t2 dt y0_0_0 y0_0_1 theta v_0_0 v_0_1 dW0_0_0 dW0_0_1 = a4
  generalize Gen.grad_euler_i_general_22_g11_d3_a15e18a17a26 f0 f0_d1 f0_d2 f0_d3 f1 f1_d1 f1_d2 f1_d3 g00 g00_d1 g00_d2 g00_d3 g01 g01_d1 g01_d2 g01_d3 g10 g10_d1 g10_d2 g10_d3 g11 g11_d1 g11_d2 g11_d3 t0 t2 dt y0_0_0 y0_0_1 theta v_0_0 v_0_1 dW0_0_0 dW0_0_1 = a5
  ring

set_option maxHeartbeats 4000000 in
/-- `grad_euler_i_general_22`: backprop `gy_0_0` = forward derivative `ty_0_0` -/
theorem grad_euler_i_general_22_gy_0_0  (f0 : K → K → K → K → K) (f0_d1 : K → K → K → K → K) (f0_d2 : K → K → K → K → K) (f0_d3 : K → K → K → K → K) (f1 : K → K → K → K → K) (f1_d1 : K → K → K → K → K) (f1_d2 : K → K → K → K → K) (f1_d3 : K → K → K → K → K) (g00 : K → K → K → K → K) (g00_d1 : K → K → K → K → K) (g00_d2 : K → K → K → K → K) (g00_d3 : K → K → K → K → K) (g01 : K → K → K → K → K) (g01_d1 : K → K → K → K → K) (g01_d2 : K → K → K → K → K) (g01_d3 : K → K → K → K → K) (g10 : K → K → K → K → K) (g10_d1 : K → K → K → K → K) (g10_d2 : K → K → K → K → K) (g10_d3 : K → K → K → K → K) (g11 : K → K → K → K → K) (g11_d1 : K → K → K → K → K) (g11_d2 : K → K → K → K → K) (g11_d3 : K → K → K → K → K) (t0 t2 dt y0_0_0 y0_0_1 theta v_0_0 v_0_1 dW0_0_0 dW0_0_1 : K) :
    Gen.grad_euler_i_general_22_gy_0_0 f0 f0_d1 f0_d2 f0_d3 f1 f1_d1 f1_d2 f1_d3 g00 g00_d1 g00_d2 g00_d3 g01 g01_d1 g01_d2 g01_d3 g10 g10_d1 g10_d2 g10_d3 g11 g11_d1 g11_d2 g11_d3 t0 t2 dt y0_0_0 y0_0_1 theta v_0_0 v_0_1 dW0_0_0 dW0_0_1 = Gen.grad_euler_i_general_22_ty_0_0 f0 f0_d1 f0_d2 f0_d3 f1 f1_d1 f1_d2 f1_d3 g00 g00_d1 g00_d2 g00_d3 g01 g01_d1 g01_d2 g01_d3 g10 g10_d1 g10_d2 g10_d3 g11 g11_d1 g11_d2 g11_d3 t0 t2 dt y0_0_0 y0_0_1 theta v_0_0 v_0_1 dW0_0_0 dW0_0_1 := by
  simp only [Gen.grad_euler_i_general_22_gy_0_0, Gen.grad_euler_i_general_22_ty_0_0]
  generalize Gen.grad_euler_i_general_22_f0_d1_7762e1f68fca f0 f0_d1 f0_d2 f0_d3 f1 f1_d1 f1_d2 f1_d3 g00 g00_d1 g00_d2 g00_d3 g01 g01_d1 g01_d2 g01_d3 g10 g10_d1 g10_d2 g10_d3 g11 g11_d1 g11_d2 g11_d3 t0 t2 dt y0_0_0 y0_0_1 theta v_0_0 v_0_1 dW0_0_0 dW0_0_1 = a0
  generalize Gen.grad_euler_i_general_22_f1_d1_1deef72810c1 f0 f0_d1 f0_d2 f0_d3 f1 f1_d1 f1_d2 f1_d3 g00 g00_d1 g00_d2 g00_d3 g01 g01_d1 g01_d2 g01_d3 g10 g10_d1 g10_d2 g10_d3 g11 g11_d1 g11_d2 g11_d3 t0 t2 dt y0_0_0 y0_0_1 theta v_0_0 v_0_1 dW0_0_0 dW0_0_1 = a1
  generalize Gen.grad_euler_i_general_22_g00_d1_99e549f5f236 f0 f0_d1 f0_d2 f0_d3 f1 f1_d1 f1_d2 f1_d3 g00 g00_d1 g00_d2 g00_d3 g01 g01_d1 g01_d2 g01_d3 g10 g10_d1 g10_d2 g10_d3 g11 g11_d1 g11_d2 g11_d3 t0 t2 dt y0_0_0 y0_0_1 theta v_0_0 v_0_1 dW0_0_0 dW0_0_1 = a2
  generalize Gen.grad_euler_i_general_22_g01_d1_7592549b1609 f0 f0_d1 f0_d2 f0_d3 f1 f1_d1 f1_d2 f1_d3 g00 g00_d1 g00_d2 g00_d3 g01 g01_d1 g01_d2 g01_d3 g10 g10_d1 g10_d2 g10_d3 g11 g11_d1 g11_d2 g11_d3 t0 t2 dt y0_0_0 y0_0_1 theta v_0_0 v_0_1 dW0_0_0 dW0_0_1 = a3
  generalize Gen.grad_euler_i_general_22_g10_d1_59805037ed9a f0 f0_d1 f0_d2 f0_d3 f1 f1_d1 f1_d2 f1_d3 g00 g00_d1 g00_d2 g00_d3 g01 g01_d1 g01_d2 g01_d3 g10 g10_d1 g10_d2 g10_d3 g11 g11_d1 g11_d2 g11_d3 t0 t2 dt y0_0_0 y0_0_1 theta v_0_0 v_0_1 dW0_0_0 dW0_0_1 = a4
  generalize Gen.grad_euler_i_general_22_g11_d1_88bd16bfc9a4 f0 f0_d1 f0_d2 f0_d3 f1 f1_d1 f1_d2 f1_d3 g00 g00_d1 g00_d2 g00_d3 g01 g01_d1 g01_d2 g01_d3 g10 g10_d1 g10_d2 g10_d3 g11 g11_d1 g11_d2 g11_d3 t0 t2 dt y0_0_0 y0_0_1 theta v_0_0 v_0_1 dW0_0_0 dW0_0_1 = a5
  ring

set_option maxHeartbeats 4000000 in
/-- `grad_euler_i_general_22`: backprop `gy_0_1` = forward derivative `ty_0_1` -/
theorem grad_euler_i_general_22_gy_0_1  (f0 : K → K → K → K → K) (f0_d1 : K → K → K → K → K) (f0_d2 : K → K → K → K → K) (f0_d3 : K → K → K → K → K) (f1 : K → K → K → K → K) (f1_d1 : K → K → K → K → K) (f1_d2 : K → K → K → K → K) (f1_d3 : K → K → K → K → K) (g00 : K → K → K → K → K) (g00_d1 : K → K → K → K → K) (g00_d2 : K → K → K → K → K) (g00_d3 : K → K → K → K → K) (g01 : K → K → K → K → K) (g01_d1 : K → K → K → K → K) (g01_d2 : K → K → K → K → K) (g01_d3 : K → K → K → K → K) (g10 : K → K → K → K → K) (g10_d1 : K → K → K → K → K) (g10_d2 : K → K → K → K → K) (g10_d3 : K → K → K → K → K) (g11 : K → K → K → K → K) (g11_d1 : K → K → K → K → K) (g11_d2 : K → K → K → K → K) (g11_d3 : K → K → K → K → K) (t0 t2 dt y0_0_0 y0_0_1 theta v_0_0 v_0_1 dW0_0_0 dW0_0_1 : K) :
    Gen.grad_euler_i_general_22_gy_0_1 f0 f0_d1 f0_d2 f0_d3 f1 f1_d1 f1_d2 f1_d3 g00 g00_d1 g00_d2 g00_d3 g01 g01_d1 g01_d2 g01_d3 g10 g10_d1 g10_d2 g10_d3 g11 g11_d1 g11_d2 g11_d3 t0 t2 dt y0_0_0 y0_0_1 theta v_0_0 v_0_1 dW0_0_0 dW0_0_1 = Gen.grad_euler_i_general_22_ty_0_1 f0 f0_d1 f0_d2 f0_d3 f1 f1_d1 f1_d2 f1_d3 g00 g00_d1 g00_d2 g00_d3 g01 g01_d1 g01_d2 g01_d3 g10 g10_d1 g10_d2 g10_d3 g11 g11_d1 g11_d2 g11_d3 t0 t2 dt y0_0_0 y0_0_1 theta v_0_0 v_0_1 dW0_0_0 dW0_0_1 := by
  simp only [Gen.grad_euler_i_general_22_gy_0_1, Gen.grad_euler_i_general_22_ty_0_1]
  generalize Gen.grad_euler_i_general_22_f0_d2_c08f7f271659 f0 f0_d1 f0_d2 f0_d3 f1 f1_d1 f1_d2 f1_d3 g00 g00_d1 g00_d2 g00_d3 g01 g01_d1 g01_d2 g01_d3 g10 g10_d1 g10_d2 g10_d3 g11 g11_d1 g11_d2 g11_d3 t0 t2 dt y0_0_0 y0_0_1 theta v_0_0 v_0_1 dW0_0_0 dW0_0_1 = a0
  generalize Gen.grad_euler_i_general_22_f1_d2_0cc4972e78ba f0 f0_d1 f0_d2 f0_d3 f1 f1_d1 f1_d2 f1_d3 g00 g00_d1 g00_d2 g00_d3 g01 g01_d1 g01_d2 g01_d3 g10 g10_d1 g10_d2 g10_d3 g11 g11_d1 g11_d2 g11_d3 t0 t2 dt y0_0_0 y0_0_1 theta v_0_0 v_0_1 dW0_0_0 dW0_0_1 = a1
  generalize Gen.grad_euler_i_general_22_g00_d2_923f70e91096 f0 f0_d1 f0_d2 f0_d3 f1 f1_d1 f1_d2 f1_d3 g00 g00_d1 g00_d2 g00_d3 g01 g01_d1 g01_d2 g01_d3 g10 g10_d1 g10_d2 g10_d3 g11 g11_d1 g11_d2 g11_d3 t0 t2 dt y0_0_0 y0_0_1 theta v_0_0 v_0_1 dW0_0_0 dW0_0_1 = a2
  generalize Gen.grad_euler_i_general_22_g01_d2_962a65f646b5 f0 f0_d1 f0_d2 f0_d3 f1 f1_d1 f1_d2 f1_d3 g00 g00_d1 g00_d2 g00_d3 g01 g01_d1 g01_d2 g01_d3 g10 g10_d1 g10_d2 g10_d3 g11 g11_d1 g11_d2 g11_d3 t0 t2 dt y0_0_0 y0_0_1 theta v_0_0 v_0_1 dW0_0_0 dW0_0_1 = a3
  generalize Gen.grad_euler_i_general_22_g10_d2_bf171d2ca00a f0 f0_d1 f0_d2 f0_d3 f1 f1_d1 f1_d2 f1_d3 g00 g00_d1 g00_d2 g00_d3 g01 g01_d1 g01_d2 g01_d3 g10 g10_d1 g10_d2 g10_d3 g11 g11_d1 g11_d2 g11_d3 t0 t2 dt y0_0_0 y0_0_1 theta v_0_0 v_0_1 dW0_0_0 dW0_0_1 = a4
  generalize Gen.grad_euler_i_general_22_g11_d2_4d3c1fb23696 f0 f0_d1 f0_d2 f0_d3 f1 f1_d1 f1_d2 f1_d3 g00 g00_d1 g00_d2 g00_d3 g01 g01_d1 g01_d2 g01_d3 g10 g10_d1 g10_d2 g10_d3 g11 g11_d1 g11_d2 g11_d3 t0 t2 dt y0_0_0 y0_0_1 theta v_0_0 v_0_1 dW0_0_0 dW0_0_1 = a5
  ring

set_option maxHeartbeats 4000000 in
/-- `grad_midpoint_s_scalar_21`: backprop `gth` = forward derivative `tth` -/
theorem grad_midpoint_s_scalar_21_gth  (f0 : K → K → K → K → K) (f0_d1 : K → K → K → K → K) (f0_d2 : K → K → K → K → K) (f0_d3 : K → K → K → K → K) (f1 : K → K → K → K → K) (f1_d1 : K → K → K → K → K) (f1_d2 : K → K → K → K → K) (f1_d3 : K → K → K → K → K) (g00 : K → K → K → K → K) (g00_d1 : K → K → K → K → K) (g00_d2 : K → K → K → K → K) (g00_d3 : K → K → K → K → K) (g10 : K → K → K → K → K) (g10_d1 : K → K → K → K → K) (g10_d2 : K → K → K → K → K) (g10_d3 : K → K → K → K → K) (t0 t2 dt y0_0_0 y0_0_1 theta v_0_0 v_0_1 dW0_0_0 : K) :
    Gen.grad_midpoint_s_scalar_21_gth f0 f0_d1 f0_d2 f0_d3 f1 f1_d1 f1_d2 f1_d3 g00 g00_d1 g00_d2 g00_d3 g10 g10_d1 g10_d2 g10_d3 t0 t2 dt y0_0_0 y0_0_1 theta v_0_0 v_0_1 dW0_0_0 = Gen.grad_midpoint_s_scalar_21_tth f0 f0_d1 f0_d2 f0_d3 f1 f1_d1 f1_d2 f1_d3 g00 g00_d1 g00_d2 g00_d3 g10 g10_d1 g10_d2 g10_d3 t0 t2 dt y0_0_0 y0_0_1 theta v_0_0 v_0_1 dW0_0_0 := by
  simp only [Gen.grad_midpoint_s_scalar_21_gth, Gen.grad_midpoint_s_scalar_21_tth]
  generalize Gen.grad_midpoint_s_scalar_21_f0_d1_f638b6c7ea8e f0 f0_d1 f0_d2 f0_d3 f1 f1_d1 f1_d2 f1_d3 g00 g00_d1 g00_d2 g00_d3 g10 g10_d1 g10_d2 g10_d3 t0 t2 dt y0_0_0 y0_0_1 theta v_0_0 v_0_1 dW0_0_0 = a0
  generalize Gen.grad_midpoint_s_scalar_21_f0_d2_2fabce5826fa f0 f0_d1 f0_d2 f0_d3 f1 f1_d1 f1_d2 f1_d3 g00 g00_d1 g00_d2 g00_d3 g10 g10_d1 g10_d2 g10_d3 t0 t2 dt y0_0_0 y0_0_1 theta v_0_0 v_0_1 dW0_0_0 = a1
  generalize Gen.grad_midpoint_s_scalar_21_f0_d3_117f0ace4604 f0 f0_d1 f0_d2 f0_d3 f1 f1_d1 f1_d2 f1_d3 g00 g00_d1 g00_d2 g00_d3 g10 g10_d1 g10_d2 g10_d3 t0 t2 dt y0_0_0 y0_0_1 theta v_0_0 v_0_1 dW0_0_0 = a2
  generalize Gen.grad_midpoint_s_scalar_21_f0_d3_2b46c70eb389 f0 f0_d1 f0_d2 f0_d3 f1 f1_d1 f1_d2 f1_d3 g00 g00_d1 g00_d2 g00_d3 g10 g10_d1 g10_d2 g10_d3 t0 t2 dt y0_0_0 y0_0_1 theta v_0_0 v_0_1 dW0_0_0 = a3
  generalize Gen.grad_midpoint_s_scalar_21_f1_d1_524f90350aaa f0 f0_d1 f0_d2 f0_d3 f1 f1_d1 f1_d2 f1_d3 g00 g00_d1 g00_d2 g00_d3 g10 g10_d1 g10_d2 g10_d3 t0 t2 dt y0_0_0 y0_0_1 theta v_0_0 v_0_1 dW0_0_0 = a4
  generalize Gen.grad_midpoint_s_scalar_21_f1_d2_86b454ec534c f0 f0_d1 f0_d2 f0_d3 f1 f1_d1 f1_d2 f1_d3 g00 g00_d1 g00_d2 g00_d3 g10 g10_d1 g10_d2 g10_d3 t0 t2 dt y0_0_0 y0_0_1 theta v_0_0 v_0_1 dW0_0_0 = a5
  generalize Gen.grad_midpoint_s_scalar_21_f1_d3_18e643734143 f0 f0_d1 f0_d2 f0_d3 f1 f1_d1 f1_d2 f1_d3 g00 g00_d1 g00_d2 g00_d3 g10 g10_d1 g10_d2 g10_d3 t0 t2 dt y0_0_0 y0_0_1 theta v_0_0 v_0_1 dW0_0_0 = a6
  generalize Gen.grad_midpoint_s_scalar_21_f1_d3_711269134f9c f0 f0_d1 f0_d2 f0_d3 f1 f1_d1 f1_d2 f1_d3 g00 g00_d1 g00_d2 g00_d3 g10 g10_d1 g10_d2 g10_d3 t0 t2 dt y0_0_0 y0_0_1 theta v_0_0 v_0_1 dW0_0_0 = a7
  generalize Gen.grad_midpoint_s_scalar_21_g00_d1_265ea2cd0401 f0 f0_d1 f0_d2 f0_d3 f1 f1_d1 f1_d2 f1_d3 g00 g00_d1 g00_d2 g00_d3 g10 g10_d1 g10_d2 g10_d3 t0 t2 dt y0_0_0 y0_0_1 theta v_0_0 v_0_1 dW0_0_0 = a8
  generalize Gen.grad_midpoint_s_scalar_21_g00_d2_1d9cf77302dc f0 f0_d1 f0_d2 f0_d3 f1 f1_d1 f1_d2 f1_d3 g00 g00_d1 g00_d2 g00_d3 g10 g10_d1 g10_d2 g10_d3 t0 t2 dt y0_0_0 y0_0_1 theta v_0_0 v_0_1 dW0_0_0 = a9
  generalize Gen.grad_midpoint_s_scalar_21_g00_d3_44b47ead6a31 f0 f0_d1 f0_d2 f0_d3 f1 f1_d1 f1_d2 f1_d3 g00 g00_d1 g00_d2 g00_d3 g10 g10_d1 g10_d2 g10_d3 t0 t2 dt y0_0_0 y0_0_1 theta v_0_0 v_0_1 dW0_0_0 = a10
  generalize Gen.grad_midpoint_s_scalar_21_g00_d3_b94e31578305 f0 f0_d1 f0_d2 f0_d3 f1 f1_d1 f1_d2 f1_d3 g00 g00_d1 g00_d2 g00_d3 g10 g10_d1 g10_d2 g10_d3 t0 t2 dt y0_0_0 y0_0_1 theta v_0_0 v_0_1 dW0_0_0 = a11
  generalize Gen.grad_midpoint_s_scalar_21_g10_d1_ecb24dbec6bd f0 f0_d1 f0_d2 f0_d3 f1 f1_d1 f1_d2 f1_d3 g00 g00_d1 g00_d2 g00_d3 g10 g10_d1 g10_d2 g10_d3 t0 t2 dt y0_0_0 y0_0_1 theta v_0_0 v_0_1 dW0_0_0 = a12
  generalize Gen.grad_midpoint_s_scalar_21_g10_d2_e170f524d790 f0 f0_d1 f0_d2 f0_d3 f1 f1_d1 f1_d2 f1_d3 g00 g00_d1 g00_d2 g00_d3 g10 g10_d1 g10_d2 g10_d3 t0 t2 dt y0_0_0 y0_0_1 theta v_0_0 v_0_1 dW0_0_0 = a13
  generalize Gen.grad_midpoint_s_scalar_21_g10_d3_25647d00f170 f0 f0_d1 f0_d2 f0_d3 f1 f1_d1 f1_d2 f1_d3 g00 g00_d1 g00_d2 g00_d3 g10 g10_d1 g10_d2 g10_d3 t0 t2 dt y0_0_0 y0_0_1 theta v_0_0 v_0_1 dW0_0_0 = a14
  generalize Gen.grad_midpoint_s_scalar_21_g10_d3_f3c762927fb5 f0 f0_d1 f0_d2 f0_d3 f1 f1_d1 f1_d2 f1_d3 g00 g00_d1 g00_d2 g00_d3 g10 g10_d1 g10_d2 g10_d3 t0 t2 dt y0_0_0 y0_0_1 theta v_0_0 v_0_1 dW0_0_0 = a15
  ring

set_option maxHeartbeats 4000000 in
/-- `grad_midpoint_s_scalar_21`: backprop `gy_0_0` = forward derivative `ty_0_0` -/
theorem grad_midpoint_s_scalar_21_gy_0_0  (f0 : K → K → K → K → K) (f0_d1 : K → K → K → K → K) (f0_d2 : K → K → K → K → K) (f0_d3 : K → K → K → K → K) (f1 : K → K → K → K → K) (f1_d1 : K → K → K → K → K) (f1_d2 : K → K → K → K → K) (f1_d3 : K → K → K → K → K) (g00 : K → K → K → K → K) (g00_d1 : K → K → K → K → K) (g00_d2 : K → K → K → K → K) (g00_d3 : K → K → K → K → K) (g10 : K → K → K → K → K) (g10_d1 : K → K → K → K → K) (g10_d2 : K → K → K → K → K) (g10_d3 : K → K → K → K → K) (t0 t2 dt y0_0_0 y0_0_1 theta v_0_0 v_0_1 dW0_0_0 : K) :
    Gen.grad_midpoint_s_scalar_21_gy_0_0 f0 f0_d1 f0_d2 f0_d3 f1 f1_d1 f1_d2 f1_d3 g00 g00_d1 g00_d2 g00_d3 g10 g10_d1 g10_d2 g10_d3 t0 t2 dt y0_0_0 y0_0_1 theta v_0_0 v_0_1 dW0_0_0 = Gen.grad_midpoint_s_scalar_21_ty_0_0 f0 f0_d1 f0_d2 f0_d3 f1 f1_d1 f1_d2 f1_d3 g00 g00_d1 g00_d2 g00_d3 g10 g10_d1 g10_d2 g10_d3 t0 t2 dt y0_0_0 y0_0_1 theta v_0_0 v_0_1 dW0_0_0 := by
  simp only [Gen.grad_midpoint_s_scalar_21_gy_0_0, Gen.grad_midpoint_s_scalar_21_ty_0_0]
  generalize Gen.grad_midpoint_s_scalar_21_f0_d1_7762e1f68fca f0 f0_d1 f0_d2 f0_d3 f1 f1_d1 f1_d2 f1_d3 g00 g00_d1 g00_d2 g00_d3 g10 g10_d1 g10_d2 g10_d3 t0 t2 dt y0_0_0 y0_0_1 theta v_0_0 v_0_1 dW0_0_0 = a0
  generalize Gen.grad_midpoint_s_scalar_21_f0_d1_f638b6c7ea8e f0 f0_d1 f0_d2 f0_d3 f1 f1_d1 f1_d2 f1_d3 g00 g00_d1 g00_d2 g00_d3 g10 g10_d1 g10_d2 g10_d3 t0 t2 dt y0_0_0 y0_0_1 theta v_0_0 v_0_1 dW0_0_0 = a1
  generalize Gen.grad_midpoint_s_scalar_21_f0_d2_2fabce5826fa f0 f0_d1 f0_d2 f0_d3 f1 f1_d1 f1_d2 f1_d3 g00 g00_d1 g00_d2 g00_d3 g10 g10_d1 g10_d2 g10_d3 t0 t2 dt y0_0_0 y0_0_1 theta v_0_0 v_0_1 dW0_0_0 = a2
  generalize Gen.grad_midpoint_s_scalar_21_f1_d1_1deef72810c1 f0 f0_d1 f0_d2 f0_d3 f1 f1_d1 f1_d2 f1_d3 g00 g00_d1 g00_d2 g00_d3 g10 g10_d1 g10_d2 g10_d3 t0 t2 dt y0_0_0 y0_0_1 theta v_0_0 v_0_1 dW0_0_0 = a3
  generalize Gen.grad_midpoint_s_scalar_21_f1_d1_524f90350aaa f0 f0_d1 f0_d2 f0_d3 f1 f1_d1 f1_d2 f1_d3 g00 g00_d1 g00_d2 g00_d3 g10 g10_d1 g10_d2 g10_d3 t0 t2 dt y0_0_0 y0_0_1 theta v_0_0 v_0_1 dW0_0_0 = a4
  generalize Gen.grad_midpoint_s_scalar_21_f1_d2_86b454ec534c f0 f0_d1 f0_d2 f0_d3 f1 f1_d1 f1_d2 f1_d3 g00 g00_d1 g00_d2 g00_d3 g10 g10_d1 g10_d2 g10_d3 t0 t2 dt y0_0_0 y0_0_1 theta v_0_0 v_0_1 dW0_0_0 = a5
  generalize Gen.grad_midpoint_s_scalar_21_g00_d1_265ea2cd0401 f0 f0_d1 f0_d2 f0_d3 f1 f1_d1 f1_d2 f1_d3 g00 g00_d1 g00_d2 g00_d3 g10 g10_d1 g10_d2 g10_d3 t0 t2 dt y0_0_0 y0_0_1 theta v_0_0 v_0_1 dW0_0_0 = a6
  generalize Gen.grad_midpoint_s_scalar_21_g00_d1_99e549f5f236 f0 f0_d1 f0_d2 f0_d3 f1 f1_d1 f1_d2 f1_d3 g00 g00_d1 g00_d2 g00_d3 g10 g10_d1 g10_d2 g10_d3 t0 t2 dt y0_0_0 y0_0_1 theta v_0_0 v_0_1 dW0_0_0 = a7
  generalize Gen.grad_midpoint_s_scalar_21_g00_d2_1d9cf77302dc f0 f0_d1 f0_d2 f0_d3 f1 f1_d1 f1_d2 f1_d3 g00 g00_d1 g00_d2 g00_d3 g10 g10_d1 g10_d2 g10_d3 t0 t2 dt y0_0_0 y0_0_1 theta v_0_0 v_0_1 dW0_0_0 = a8
  generalize Gen.grad_midpoint_s_scalar_21_g10_d1_59805037ed9a f0 f0_d1 f0_d2 f0_d3 f1 f1_d1 f1_d2 f1_d3 g00 g00_d1 g00_d2 g00_d3 g10 g10_d1 g10_d2 g10_d3 t0 t2 dt y0_0_0 y0_0_1 theta v_0_0 v_0_1 dW0_0_0 = a9
  generalize Gen.grad_midpoint_s_scalar_21_g10_d1_ecb24dbec6bd f0 f0_d1 f0_d2 f0_d3 f1 f1_d1 f1_d2 f1_d3 g00 g00_d1 g00_d2 g00_d3 g10 g10_d1 g10_d2 g10_d3 t0 t2 dt y0_0_0 y0_0_1 theta v_0_0 v_0_1 dW0_0_0 = a10
  generalize Gen.grad_midpoint_s_scalar_21_g10_d2_e170f524d790 f0 f0_d1 f0_d2 f0_d3 f1 f1_d1 f1_d2 f1_d3 g00 g00_d1 g00_d2 g00_d3 g10 g10_d1 g10_d2 g10_d3 t0 t2 dt y0_0_0 y0_0_1 theta v_0_0 v_0_1 dW0_0_0 = a11
  ring

set_option maxHeartbeats 4000000 in
/-- `grad_midpoint_s_scalar_21`: backprop `gy_0_1` = forward derivative `ty_0_1` -/
theorem grad_midpoint_s_scalar_21_gy_0_1  (f0 : K → K → K → K → K) (f0_d1 : K → K → K → K → K) (f0_d2 : K → K → K → K → K) (f0_d3 : K → K → K → K → K) (f1 : K → K → K → K → K) (f1_d1 : K → K → K → K → K) (f1_d2 : K → K → K → K → K) (f1_d3 : K → K → K → K → K) (g00 : K → K → K → K → K) (g00_d1 : K → K → K → K → K) (g00_d2 : K → K → K → K → K) (g00_d3 : K → K → K → K → K) (g10 : K → K → K → K → K) (g10_d1 : K → K → K → K → K) (g10_d2 : K → K → K → K → K) (g10_d3 : K → K → K → K → K) (t0 t2 dt y0_0_0 y0_0_1 theta v_0_0 v_0_1 dW0_0_0 : K) :
    Gen.grad_midpoint_s_scalar_21_gy_0_1 f0 f0_d1 f0_d2 f0_d3 f1 f1_d1 f1_d2 f1_d3 g00 g00_d1 g00_d2 g00_d3 g10 g10_d1 g10_d2 g10_d3 t0 t2 dt y0_0_0 y0_0_1 theta v_0_0 v_0_1 dW0_0_0 = Gen.grad_midpoint_s_scalar_21_ty_0_1 f0 f0_d1 f0_d2 f0_d3 f1 f1_d1 f1_d2 f1_d3 g00 g00_d1 g00_d2 g00_d3 g10 g10_d1 g10_d2 g10_d3 t0 t2 dt y0_0_0 y0_0_1 theta v_0_0 v_0_1 dW0_0_0 := by
  simp only [Gen.grad_midpoint_s_scalar_21_gy_0_1, Gen.grad_midpoint_s_scalar_21_ty_0_1]
  generalize Gen.grad_midpoint_s_scalar_21_f0_d1_f638b6c7ea8e f0 f0_d1 f0_d2 f0_d3 f1 f1_d1 f1_d2 f1_d3 g00 g00_d1 g00_d2 g00_d3 g10 g10_d1 g10_d2 g10_d3 t0 t2 dt y0_0_0 y0_0_1 theta v_0_0 v_0_1 dW0_0_0 = a0
  generalize Gen.grad_midpoint_s_scalar_21_f0_d2_2fabce5826fa f0 f0_d1 f0_d2 f0_d3 f1 f1_d1 f1_d2 f1_d3 g00 g00_d1 g00_d2 g00_d3 g10 g10_d1 g10_d2 g10_d3 t0 t2 dt y0_0_0 y0_0_1 theta v_0_0 v_0_1 dW0_0_0 = a1
  generalize Gen.grad_midpoint_s_scalar_21_f0_d2_c08f7f271659 f0 f0_d1 f0_d2 f0_d3 f1 f1_d1 f1_d2 f1_d3 g00 g00_d1 g00_d2 g00_d3 g10 g10_d1 g10_d2 g10_d3 t0 t2 dt y0_0_0 y0_0_1 theta v_0_0 v_0_1 dW0_0_0 = a2
  generalize Gen.grad_midpoint_s_scalar_21_f1_d1_524f90350aaa f0 f0_d1 f0_d2 f0_d3 f1 f1_d1 f1_d2 f1_d3 g00 g00_d1 g00_d2 g00_d3 g10 g10_d1 g10_d2 g10_d3 t0 t2 dt y0_0_0 y0_0_1 theta v_0_0 v_0_1 dW0_0_0 = a3
  generalize Gen.grad_midpoint_s_scalar_21_f1_d2_0cc4972e78ba f0 f0_d1 f0_d2 f0_d3 f1 f1_d1 f1_d2 f1_d3 g00 g00_d1 g00_d2 g00_d3 g10 g10_d1 g10_d2 g10_d3 t0 t2 dt y0_0_0 y0_0_1 theta v_0_0 v_0_1 dW0_0_0 = a4
  generalize Gen.grad_midpoint_s_scalar_21_f1_d2_86b454ec534c f0 f0_d1 f0_d2 f0_d3 f1 f1_d1 f1_d2 f1_d3 g00 g00_d1 g00_d2 g00_d3 g10 g10_d1 g10_d2 g10_d3 t0 t2 dt y0_0_0 y0_0_1 theta v_0_0 v_0_1 dW0_0_0 = a5
  generalize Gen.grad_midpoint_s_scalar_21_g00_d1_265ea2cd0401 f0 f0_d1 f0_d2 f0_d3 f1 f1_d1 f1_d2 f1_d3 g00 g00_d1 g00_d2 g00_d3 g10 g10_d1 g10_d2 g10_d3 t0 t2 dt y0_0_0 y0_0_1 theta v_0_0 v_0_1 dW0_0_0 = a6
  generalize Gen.grad_midpoint_s_scalar_21_g00_d2_1d9cf77302dc f0 f0_d1 f0_d2 f0_d3 f1 f1_d1 f1_d2 f1_d3 g00 g00_d1 g00_d2 g00_d3 g10 g10_d1 g10_d2 g10_d3 t0 t2 dt y0_0_0 y0_0_1 theta v_0_0 v_0_1 dW0_0_0 = a7
  generalize Gen.grad_midpoint_s_scalar_21_g00_d2_923f70e91096 f0 f0_d1 f0_d2 f0_d3 f1 f1_d1 f1_d2 f1_d3 g00 g00_d1 g00_d2 g00_d3 g10 g10_d1 g10_d2 g10_d3 t0 t2 dt y0_0_0 y0_0_1 theta v_0_0 v_0_1 dW0_0_0 = a8
  generalize Gen.grad_midpoint_s_scalar_21_g10_d1_ecb24dbec6bd f0 f0_d1 f0_d2 f0_d3 f1 f1_d1 f1_d2 f1_d3 g00 g00_d1 g00_d2 g00_d3 g10 g10_d1 g10_d2 g10_d3 t0 t2 dt y0_0_0 y0_0_1 theta v_0_0 v_0_1 dW0_0_0 = a9
  generalize Gen.grad_midpoint_s_scalar_21_g10_d2_bf171d2ca00a f0 f0_d1 f0_d2 f0_d3 f1 f1_d1 f1_d2 f1_d3 g00 g00_d1 g00_d2 g00_d3 g10 g10_d1 g10_d2 g10_d3 t0 t2 dt y0_0_0 y0_0_1 theta v_0_0 v_0_1 dW0_0_0 = a10
  generalize Gen.grad_midpoint_s_scalar_21_g10_d2_e170f524d790 f0 f0_d1 f0_d2 f0_d3 f1 f1_d1 f1_d2 f1_d3 g00 g00_d1 g00_d2 g00_d3 g10 g10_d1 g10_d2 g10_d3 t0 t2 dt y0_0_0 y0_0_1 theta v_0_0 v_0_1 dW0_0_0 = a11
  ring

end C08
