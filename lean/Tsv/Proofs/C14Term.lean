/-
C14 — adaptive stepping TERMINATES (the clause left open in C14.lean).

Setting: the adaptive loop of `Model/Loop.lean` over an Archimedean ordered field `K` (`add = +`), `0 < dt_min`, an ARBITRARY
error oracle `err`, an arbitrary mid-point function `half`, and a controller `update` that contracts on rejection:
    `one < e → (update e h p).h ≤ c * h`   for a constant `0 ≤ c < 1`
(`controller_contracts` derives this for the REGENERATED `update_step_size` from `C14.factor_bounds_reject`, with
`c = max (1/5) c₀`, under the hypothesis that the power function satisfies `0 < x ≤ 9/10 → pw x (2/3) ≤ c₀ < 1`;
`rpow_contracts` discharges that hypothesis for the real power `Real.rpow`, `c₀ = (9/10)^(2/3)`).

Theorem `adaptive_terminates`: from every state with `dt_min ≤ h` the `while curr_t < out_t` loop reaches a state with
`¬ curr_t < out_t` after finitely many trials, whatever the error estimates are — including inputs that force repeated rejection
down to `dt_min`.  Argument: a rejection needs the new step size `> dt_min` and shrinks `h` by the factor `c`, so at most
`log(dt_min/h)/log c` rejections can follow each other; an acceptance advances time by `min(h, tEnd − t) ≥ min(dt_min, tEnd − t)`,
so at most `⌈(out − t)/dt_min⌉` acceptances are needed.
What the field model cannot exhibit: in floating point `curr_t + h` can equal `curr_t` when `h` is below the spacing of the
floats at `curr_t` (then the real loop does not advance); this needs `dt_min` above that spacing and is stated in DESIGN.md.
-/
import Tsv.Proofs.C14
import Mathlib.Algebra.Order.Archimedean.Basic
import Mathlib.Analysis.SpecialFunctions.Pow.Real

namespace C14Term
open Model.Loop LoopCore C14
set_option linter.unusedSectionVars false

variable {K : Type} [Field K] [LinearOrder K] [IsStrictOrderedRing K] [Archimedean K]
variable {Y X : Type}
variable (tEnd : K) (step : K → K → Y → X → Y × X)
variable (half : K → K → K) (err : Y → Y → K) (update : K → K → Option K → Ctl K) (dtMin one c : K)

local notation "AITER" => aiter tEnd step (fun a b : K => a + b) half err update dtMin one
local notation "REACH" => AReaches tEnd step (fun a b : K => a + b) half err update dtMin one

/-- the loop terminates from `a` -/
def Term (out : K) (a : ASt K Y X) : Prop := ∃ a' acc, REACH out a a' acc

variable {tEnd step half err update dtMin one c}

theorem term_of_stop {out : K} {a : ASt K Y X} (h : ¬ a.s.ct < out) : Term tEnd step half err update dtMin one out a :=
  ⟨a, [], AReaches.stop h⟩

theorem term_of_next {out : K} {a : ASt K Y X} (hlt : a.s.ct < out)
    (h : Term tEnd step half err update dtMin one out (AITER a).1) : Term tEnd step half err update dtMin one out a := by
  obtain ⟨a', acc, hr⟩ := h
  cases hacc : (AITER a).2.1 with
  | false => exact ⟨a', acc, AReaches.rej hlt hacc hr⟩
  | true => exact ⟨a', _, AReaches.acc hlt hacc hr⟩

/-- what a rejected trial does: state untouched, new step size in `(dt_min, c·h]` -/
theorem rejected (hc : ∀ e h p, one < e → (update e h p).h ≤ c * h) (a : ASt K Y X) (hrej : (AITER a).2.1 = false) :
    (AITER a).1.s = a.s ∧ dtMin < (AITER a).1.h ∧ (AITER a).1.h ≤ c * a.h := by
  have hs := (trial_effect tEnd step (fun a b : K => a + b) half err update dtMin one a).1 hrej
  have hr := (reject_rule tEnd step (fun a b : K => a + b) half err update dtMin one a).1 hrej
  refine ⟨hs, hr.2, ?_⟩
  -- the new step size is the controller's proposal (not clamped, since it exceeds dt_min), and e > 1
  have he := hr.1
  have hgt := hr.2
  simp only [aiter] at hgt ⊢
  split at hgt
  · exact absurd hgt (lt_irrefl _)
  · rename_i hnc
    simp only [hnc, if_false]
    exact hc _ _ _ he

/-- what an accepted trial does: time moves to `min (t + h) tEnd` -/
theorem accepted (a : ASt K Y X) (hacc : (AITER a).2.1 = true) :
    (AITER a).1.s.ct = pmin (a.s.ct + a.h) tEnd := by
  have := (trial_effect tEnd step (fun a b : K => a + b) half err update dtMin one a).2 hacc
  rw [this]

/-- **Termination of the adaptive loop**, for every error oracle. -/
theorem adaptive_terminates (hpos : 0 < dtMin) (hc0 : 0 ≤ c) (hc1 : c < 1)
    (hc : ∀ e h p, one < e → (update e h p).h ≤ c * h) (out : K) (hout : out ≤ tEnd) :
    ∀ (a : ASt K Y X), dtMin ≤ a.h → Term tEnd step half err update dtMin one out a := by
  -- outer induction: number of acceptances that suffice
  have outer : ∀ (N : ℕ) (a : ASt K Y X), dtMin ≤ a.h → out ≤ a.s.ct + N * dtMin →
      Term tEnd step half err update dtMin one out a := by
    intro N
    induction N with
    | zero =>
      intro a _ hN
      exact term_of_stop (by simpa using not_lt.mpr hN)
    | succ N ihN =>
      -- inner induction: number of consecutive rejections that are still possible
      have inner : ∀ (k : ℕ) (a : ASt K Y X), dtMin ≤ a.h → out ≤ a.s.ct + (N + 1 : ℕ) * dtMin → c ^ k * a.h ≤ dtMin →
          Term tEnd step half err update dtMin one out a := by
        intro k
        induction k with
        | zero =>
          intro a ha hN hk
          by_cases hlt : a.s.ct < out
          · apply term_of_next hlt
            cases hacc : (AITER a).2.1 with
            | true =>
              apply ihN _ (h_ge_dtmin tEnd step _ half err update dtMin one a)
              rw [accepted a hacc, pmin_eq_min]
              rcases le_total (a.s.ct + a.h) tEnd with hle | hle
              · rw [min_eq_left hle]; push_cast at hN; nlinarith
              · rw [min_eq_right hle]
                have : (0:K) ≤ N * dtMin := by positivity
                linarith
            | false =>
              exfalso
              obtain ⟨_, h1, h2⟩ := rejected hc a hacc
              have : a.h ≤ dtMin := by simpa using hk
              nlinarith
          · exact term_of_stop hlt
        | succ k ihk =>
          intro a ha hN hk
          by_cases hlt : a.s.ct < out
          · apply term_of_next hlt
            cases hacc : (AITER a).2.1 with
            | true =>
              apply ihN _ (h_ge_dtmin tEnd step _ half err update dtMin one a)
              rw [accepted a hacc, pmin_eq_min]
              rcases le_total (a.s.ct + a.h) tEnd with hle | hle
              · rw [min_eq_left hle]; push_cast at hN; nlinarith
              · rw [min_eq_right hle]
                have : (0:K) ≤ N * dtMin := by positivity
                linarith
            | false =>
              obtain ⟨hs, h1, h2⟩ := rejected hc a hacc
              apply ihk _ (le_of_lt h1)
              · rw [hs]; exact hN
              · calc c ^ k * (AITER a).1.h ≤ c ^ k * (c * a.h) :=
                      mul_le_mul_of_nonneg_left h2 (pow_nonneg hc0 k)
                  _ = c ^ (k + 1) * a.h := by ring
                  _ ≤ dtMin := hk
          · exact term_of_stop hlt
      intro a ha hN
      have hh : 0 < a.h := lt_of_lt_of_le hpos ha
      obtain ⟨k, hk⟩ := exists_pow_lt_of_lt_one (div_pos hpos hh) hc1
      exact inner k a ha hN (by
        have := (lt_div_iff₀ hh).mp hk
        exact le_of_lt this)
  intro a ha
  obtain ⟨N, hN⟩ := exists_nat_ge ((out - a.s.ct) / dtMin)
  refine outer N a ha ?_
  have := (div_le_iff₀ hpos).mp hN
  linarith

/-- the regenerated controller contracts on rejection, given the bound on the power function -/
theorem controller_contracts (pw : K → K → K) (c0 : K) (hpw : ∀ x, 0 < x → x ≤ 9 / 10 → pw x (2 / 3) ≤ c0)
    (e h p : K) (hh : 0 ≤ h) (he : 1 < e) :
    Gen.usz_rej_none_h pw e h ≤ max (1 / 5) c0 * h ∧ Gen.usz_rej_prev_h pw e h p ≤ max (1 / 5) c0 * h := by
  have hb := factor_bounds_reject pw e h p hh
  have hx : pw (9 / 10 / e) (2 / 3) ≤ c0 := by
    apply hpw
    · positivity
    · rw [div_le_iff₀ (by linarith)]; nlinarith
  have hm : max (1 / 5 : K) (pw (9 / 10 / e) (2 / 3)) ≤ max (1 / 5) c0 := max_le_max le_rfl hx
  constructor
  · calc Gen.usz_rej_none_h pw e h ≤ h * max (1 / 5) (pw (9 / 10 / e) (2 / 3)) := hb.2.2.1
      _ ≤ h * max (1 / 5) c0 := mul_le_mul_of_nonneg_left hm hh
      _ = max (1 / 5) c0 * h := mul_comm _ _
  · calc Gen.usz_rej_prev_h pw e h p ≤ h * max (1 / 5) (pw (9 / 10 / e) (2 / 3)) := hb.2.2.2.2.2
      _ ≤ h * max (1 / 5) c0 := mul_le_mul_of_nonneg_left hm hh
      _ = max (1 / 5) c0 * h := mul_comm _ _

/-- the real power function satisfies the hypothesis with `c₀ = (9/10)^(2/3) < 1` -/
theorem rpow_contracts : (∀ x : ℝ, 0 < x → x ≤ 9 / 10 → Real.rpow x (2 / 3) ≤ Real.rpow (9 / 10) (2 / 3)) ∧
    max (1 / 5 : ℝ) (Real.rpow (9 / 10) (2 / 3)) < 1 := by
  constructor
  · intro x hx hle
    exact Real.rpow_le_rpow (le_of_lt hx) hle (by norm_num)
  · apply max_lt (by norm_num)
    exact Real.rpow_lt_one (by norm_num) (by norm_num) (by norm_num)

/-- non-vacuity: the hypotheses of `adaptive_terminates` are met by `K = ℝ`, `dt_min = 1/100`, `c = 1/2` and the controller that halves
the step on rejection; so the loop terminates for EVERY error oracle, e.g. one that always reports error 2 (rejecting down to dt_min). -/
example (step : ℝ → ℝ → ℝ → Unit → ℝ × Unit) :
    Term (Y := ℝ) (X := Unit) 1 step (fun a b => (a + b) / 2) (fun _ _ => 2) (fun _ h _ => ⟨h / 2, none⟩) (1 / 100) 1 1
      ⟨⟨0, 0, 0, 0, ()⟩, 1 / 4, none⟩ :=
  adaptive_terminates (c := 1 / 2) (by norm_num) (by norm_num) (by norm_num)
    (fun _ h _ _ => by show h / 2 ≤ 1 / 2 * h; linarith) 1 le_rfl _ (by norm_num)

end C14Term
