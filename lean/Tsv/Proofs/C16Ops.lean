/-
C16, part C — the operators ForwardSDE derives from the user's diffusion equal their mathematical definitions.

The programs of group Ops are the REAL methods `ForwardSDE.prod` (prod_diagonal / prod_default = misc.batch_mvp),
`g_prod_and_gdg_prod_{default,diagonal,additive}`, `dg_ga_jvp_column_sum_v1 / _v2`, traced on a diffusion whose entries are
uninterpreted functions g_ij(t, y_0, y_1); `g_ij_d1`, `g_ij_d2` are the partial derivatives ∂g_ij/∂y_0, ∂g_ij/∂y_1 produced
by the tracer's reverse-mode differentiation of the library's own torch.autograd.grad calls (misc.vjp, misc.jvp's double-vjp).
Right-hand sides (written out explicitly, for ALL smooth g, all t, y, v, w and EVERY matrix A — antisymmetric or not):

  prod                  (g v)_i           = Σ_l g_il v_l                          (diagonal noise: g_i v_i)
  g_prod_and_gdg_prod   second component  = Σ_{j,l} g_jl · ∂g_jl/∂y_i · w_l       (the source comment's formula; scalar noise: l = 0)
        diagonal noise  second component  = Σ_j g_j · ∂g_j/∂y_i · w_j             (= g_i · ∂g_i/∂y_i · w_i for element-wise g_i(t, y_i))
        additive noise  second component  = 0
  dg_ga_jvp_column_sum  (v1 and v2)_i     = Σ_{j,k,l} ∂g_il/∂y_j · g_jk · A_kl
  and v1 = v2.

Grad modes: every operator is traced three times — under torch.enable_grad() (`eg`, no suffix), under torch.no_grad()
(`_ng`) and with a state that already requires grad (`_rg`); `*_modes` theorems: the VALUES are the same.
Sizes: d = m = 2 and d = 2, m = 1 (batch 1; `_b2`: batch 2, row-wise).
-/
import Tsv.Gen.Ops
import Mathlib.Tactic.Ring

namespace C16Ops
set_option linter.unusedVariables false
set_option linter.unusedSectionVars false
set_option linter.style.nameCheck false
set_option linter.unusedTactic false
set_option linter.unreachableTactic false
variable {K : Type} [Field K] [LinearOrder K]

theorem prod_general_22_def (G_0_0_0 G_0_0_1 G_0_1_0 G_0_1_1 v_0_0 v_0_1 : K) :
    Gen.prod_general_22_p_0_0 G_0_0_0 G_0_0_1 G_0_1_0 G_0_1_1 v_0_0 v_0_1
      = G_0_0_0 * v_0_0 + G_0_0_1 * v_0_1 ∧
    Gen.prod_general_22_p_0_1 G_0_0_0 G_0_0_1 G_0_1_0 G_0_1_1 v_0_0 v_0_1
      = G_0_1_0 * v_0_0 + G_0_1_1 * v_0_1 := by
  refine ⟨?_, ?_⟩ <;> simp only [Gen.prod_general_22_p_0_0, Gen.prod_general_22_p_0_1] <;> ring

theorem prod_scalar_21_def (G_0_0_0 G_0_1_0 v_0_0 : K) :
    Gen.prod_scalar_21_p_0_0 G_0_0_0 G_0_1_0 v_0_0
      = G_0_0_0 * v_0_0 ∧
    Gen.prod_scalar_21_p_0_1 G_0_0_0 G_0_1_0 v_0_0
      = G_0_1_0 * v_0_0 := by
  refine ⟨?_, ?_⟩ <;> simp only [Gen.prod_scalar_21_p_0_0, Gen.prod_scalar_21_p_0_1] <;> ring

theorem prod_diagonal_22_def (G_0_0 G_0_1 v_0_0 v_0_1 : K) :
    Gen.prod_diagonal_22_p_0_0 G_0_0 G_0_1 v_0_0 v_0_1
      = G_0_0 * v_0_0 ∧
    Gen.prod_diagonal_22_p_0_1 G_0_0 G_0_1 v_0_0 v_0_1
      = G_0_1 * v_0_1 := by
  refine ⟨?_, ?_⟩ <;> simp only [Gen.prod_diagonal_22_p_0_0, Gen.prod_diagonal_22_p_0_1] <;> ring

theorem prod_additive_22_def (G_0_0_0 G_0_0_1 G_0_1_0 G_0_1_1 v_0_0 v_0_1 : K) :
    Gen.prod_additive_22_p_0_0 G_0_0_0 G_0_0_1 G_0_1_0 G_0_1_1 v_0_0 v_0_1
      = G_0_0_0 * v_0_0 + G_0_0_1 * v_0_1 ∧
    Gen.prod_additive_22_p_0_1 G_0_0_0 G_0_0_1 G_0_1_0 G_0_1_1 v_0_0 v_0_1
      = G_0_1_0 * v_0_0 + G_0_1_1 * v_0_1 := by
  refine ⟨?_, ?_⟩ <;> simp only [Gen.prod_additive_22_p_0_0, Gen.prod_additive_22_p_0_1] <;> ring

theorem prod_general_22_b2_def (G_0_0_0 G_0_0_1 G_0_1_0 G_0_1_1 G_1_0_0 G_1_0_1 G_1_1_0 G_1_1_1 v_0_0 v_0_1 v_1_0 v_1_1 : K) :
    Gen.prod_general_22_b2_p_0_0 G_0_0_0 G_0_0_1 G_0_1_0 G_0_1_1 G_1_0_0 G_1_0_1 G_1_1_0 G_1_1_1 v_0_0 v_0_1 v_1_0 v_1_1
      = G_0_0_0 * v_0_0 + G_0_0_1 * v_0_1 ∧
    Gen.prod_general_22_b2_p_0_1 G_0_0_0 G_0_0_1 G_0_1_0 G_0_1_1 G_1_0_0 G_1_0_1 G_1_1_0 G_1_1_1 v_0_0 v_0_1 v_1_0 v_1_1
      = G_0_1_0 * v_0_0 + G_0_1_1 * v_0_1 ∧
    Gen.prod_general_22_b2_p_1_0 G_0_0_0 G_0_0_1 G_0_1_0 G_0_1_1 G_1_0_0 G_1_0_1 G_1_1_0 G_1_1_1 v_0_0 v_0_1 v_1_0 v_1_1
      = G_1_0_0 * v_1_0 + G_1_0_1 * v_1_1 ∧
    Gen.prod_general_22_b2_p_1_1 G_0_0_0 G_0_0_1 G_0_1_0 G_0_1_1 G_1_0_0 G_1_0_1 G_1_1_0 G_1_1_1 v_0_0 v_0_1 v_1_0 v_1_1
      = G_1_1_0 * v_1_0 + G_1_1_1 * v_1_1 := by
  refine ⟨?_, ?_, ?_, ?_⟩ <;> simp only [Gen.prod_general_22_b2_p_0_0, Gen.prod_general_22_b2_p_0_1, Gen.prod_general_22_b2_p_1_0, Gen.prod_general_22_b2_p_1_1] <;> ring

theorem gdg_general_22_def (g00 : K → K → K → K) (g00_d1 : K → K → K → K) (g00_d2 : K → K → K → K) (g01 : K → K → K → K) (g01_d1 : K → K → K → K) (g01_d2 : K → K → K → K) (g10 : K → K → K → K) (g10_d1 : K → K → K → K) (g10_d2 : K → K → K → K) (g11 : K → K → K → K) (g11_d1 : K → K → K → K) (g11_d2 : K → K → K → K) (t y_0_0 y_0_1 v_0_0 v_0_1 w_0_0 w_0_1 : K) :
    Gen.gdg_general_22_gp_0_0 g00 g00_d1 g00_d2 g01 g01_d1 g01_d2 g10 g10_d1 g10_d2 g11 g11_d1 g11_d2 t y_0_0 y_0_1 v_0_0 v_0_1 w_0_0 w_0_1
      = g00 t y_0_0 y_0_1 * v_0_0 + g01 t y_0_0 y_0_1 * v_0_1 ∧
    Gen.gdg_general_22_gp_0_1 g00 g00_d1 g00_d2 g01 g01_d1 g01_d2 g10 g10_d1 g10_d2 g11 g11_d1 g11_d2 t y_0_0 y_0_1 v_0_0 v_0_1 w_0_0 w_0_1
      = g10 t y_0_0 y_0_1 * v_0_0 + g11 t y_0_0 y_0_1 * v_0_1 ∧
    Gen.gdg_general_22_gdg_0_0 g00 g00_d1 g00_d2 g01 g01_d1 g01_d2 g10 g10_d1 g10_d2 g11 g11_d1 g11_d2 t y_0_0 y_0_1 v_0_0 v_0_1 w_0_0 w_0_1
      = g00 t y_0_0 y_0_1 * g00_d1 t y_0_0 y_0_1 * w_0_0 + g01 t y_0_0 y_0_1 * g01_d1 t y_0_0 y_0_1 * w_0_1 + g10 t y_0_0 y_0_1 * g10_d1 t y_0_0 y_0_1 * w_0_0 + g11 t y_0_0 y_0_1 * g11_d1 t y_0_0 y_0_1 * w_0_1 ∧
    Gen.gdg_general_22_gdg_0_1 g00 g00_d1 g00_d2 g01 g01_d1 g01_d2 g10 g10_d1 g10_d2 g11 g11_d1 g11_d2 t y_0_0 y_0_1 v_0_0 v_0_1 w_0_0 w_0_1
      = g00 t y_0_0 y_0_1 * g00_d2 t y_0_0 y_0_1 * w_0_0 + g01 t y_0_0 y_0_1 * g01_d2 t y_0_0 y_0_1 * w_0_1 + g10 t y_0_0 y_0_1 * g10_d2 t y_0_0 y_0_1 * w_0_0 + g11 t y_0_0 y_0_1 * g11_d2 t y_0_0 y_0_1 * w_0_1 := by
  refine ⟨?_, ?_, ?_, ?_⟩ <;> simp only [Gen.gdg_general_22_gp_0_0, Gen.gdg_general_22_gp_0_1, Gen.gdg_general_22_gdg_0_0, Gen.gdg_general_22_gdg_0_1] <;> ring

theorem gdg_scalar_21_def (g00 : K → K → K → K) (g00_d1 : K → K → K → K) (g00_d2 : K → K → K → K) (g10 : K → K → K → K) (g10_d1 : K → K → K → K) (g10_d2 : K → K → K → K) (t y_0_0 y_0_1 v_0_0 w_0_0 : K) :
    Gen.gdg_scalar_21_gp_0_0 g00 g00_d1 g00_d2 g10 g10_d1 g10_d2 t y_0_0 y_0_1 v_0_0 w_0_0
      = g00 t y_0_0 y_0_1 * v_0_0 ∧
    Gen.gdg_scalar_21_gp_0_1 g00 g00_d1 g00_d2 g10 g10_d1 g10_d2 t y_0_0 y_0_1 v_0_0 w_0_0
      = g10 t y_0_0 y_0_1 * v_0_0 ∧
    Gen.gdg_scalar_21_gdg_0_0 g00 g00_d1 g00_d2 g10 g10_d1 g10_d2 t y_0_0 y_0_1 v_0_0 w_0_0
      = g00 t y_0_0 y_0_1 * g00_d1 t y_0_0 y_0_1 * w_0_0 + g10 t y_0_0 y_0_1 * g10_d1 t y_0_0 y_0_1 * w_0_0 ∧
    Gen.gdg_scalar_21_gdg_0_1 g00 g00_d1 g00_d2 g10 g10_d1 g10_d2 t y_0_0 y_0_1 v_0_0 w_0_0
      = g00 t y_0_0 y_0_1 * g00_d2 t y_0_0 y_0_1 * w_0_0 + g10 t y_0_0 y_0_1 * g10_d2 t y_0_0 y_0_1 * w_0_0 := by
  refine ⟨?_, ?_, ?_, ?_⟩ <;> simp only [Gen.gdg_scalar_21_gp_0_0, Gen.gdg_scalar_21_gp_0_1, Gen.gdg_scalar_21_gdg_0_0, Gen.gdg_scalar_21_gdg_0_1] <;> ring

theorem gdg_diagonal_22_def (g0 : K → K → K) (g0_d1 : K → K → K) (g1 : K → K → K) (g1_d1 : K → K → K) (t y_0_0 y_0_1 v_0_0 v_0_1 w_0_0 w_0_1 : K) :
    Gen.gdg_diagonal_22_gp_0_0 g0 g0_d1 g1 g1_d1 t y_0_0 y_0_1 v_0_0 v_0_1 w_0_0 w_0_1
      = g0 t y_0_0 * v_0_0 ∧
    Gen.gdg_diagonal_22_gp_0_1 g0 g0_d1 g1 g1_d1 t y_0_0 y_0_1 v_0_0 v_0_1 w_0_0 w_0_1
      = g1 t y_0_1 * v_0_1 ∧
    Gen.gdg_diagonal_22_gdg_0_0 g0 g0_d1 g1 g1_d1 t y_0_0 y_0_1 v_0_0 v_0_1 w_0_0 w_0_1
      = g0 t y_0_0 * g0_d1 t y_0_0 * w_0_0 ∧
    Gen.gdg_diagonal_22_gdg_0_1 g0 g0_d1 g1 g1_d1 t y_0_0 y_0_1 v_0_0 v_0_1 w_0_0 w_0_1
      = g1 t y_0_1 * g1_d1 t y_0_1 * w_0_1 := by
  refine ⟨?_, ?_, ?_, ?_⟩ <;> simp only [Gen.gdg_diagonal_22_gp_0_0, Gen.gdg_diagonal_22_gp_0_1, Gen.gdg_diagonal_22_gdg_0_0, Gen.gdg_diagonal_22_gdg_0_1] <;> ring

theorem gdg_diagonalfull_22_def (g0 : K → K → K → K) (g0_d1 : K → K → K → K) (g0_d2 : K → K → K → K) (g1 : K → K → K → K) (g1_d1 : K → K → K → K) (g1_d2 : K → K → K → K) (t y_0_0 y_0_1 v_0_0 v_0_1 w_0_0 w_0_1 : K) :
    Gen.gdg_diagonalfull_22_gp_0_0 g0 g0_d1 g0_d2 g1 g1_d1 g1_d2 t y_0_0 y_0_1 v_0_0 v_0_1 w_0_0 w_0_1
      = g0 t y_0_0 y_0_1 * v_0_0 ∧
    Gen.gdg_diagonalfull_22_gp_0_1 g0 g0_d1 g0_d2 g1 g1_d1 g1_d2 t y_0_0 y_0_1 v_0_0 v_0_1 w_0_0 w_0_1
      = g1 t y_0_0 y_0_1 * v_0_1 ∧
    Gen.gdg_diagonalfull_22_gdg_0_0 g0 g0_d1 g0_d2 g1 g1_d1 g1_d2 t y_0_0 y_0_1 v_0_0 v_0_1 w_0_0 w_0_1
      = g0 t y_0_0 y_0_1 * g0_d1 t y_0_0 y_0_1 * w_0_0 + g1 t y_0_0 y_0_1 * g1_d1 t y_0_0 y_0_1 * w_0_1 ∧
    Gen.gdg_diagonalfull_22_gdg_0_1 g0 g0_d1 g0_d2 g1 g1_d1 g1_d2 t y_0_0 y_0_1 v_0_0 v_0_1 w_0_0 w_0_1
      = g0 t y_0_0 y_0_1 * g0_d2 t y_0_0 y_0_1 * w_0_0 + g1 t y_0_0 y_0_1 * g1_d2 t y_0_0 y_0_1 * w_0_1 := by
  refine ⟨?_, ?_, ?_, ?_⟩ <;> simp only [Gen.gdg_diagonalfull_22_gp_0_0, Gen.gdg_diagonalfull_22_gp_0_1, Gen.gdg_diagonalfull_22_gdg_0_0, Gen.gdg_diagonalfull_22_gdg_0_1] <;> ring

theorem gdg_additive_22_def (g00 : K → K) (g01 : K → K) (g10 : K → K) (g11 : K → K) (t y_0_0 y_0_1 v_0_0 v_0_1 w_0_0 w_0_1 : K) :
    Gen.gdg_additive_22_gp_0_0 g00 g01 g10 g11 t y_0_0 y_0_1 v_0_0 v_0_1 w_0_0 w_0_1
      = g00 t * v_0_0 + g01 t * v_0_1 ∧
    Gen.gdg_additive_22_gp_0_1 g00 g01 g10 g11 t y_0_0 y_0_1 v_0_0 v_0_1 w_0_0 w_0_1
      = g10 t * v_0_0 + g11 t * v_0_1 ∧
    Gen.gdg_additive_22_gdg g00 g01 g10 g11 t y_0_0 y_0_1 v_0_0 v_0_1 w_0_0 w_0_1
      = 0 := by
  refine ⟨?_, ?_, ?_⟩ <;> simp only [Gen.gdg_additive_22_gp_0_0, Gen.gdg_additive_22_gp_0_1, Gen.gdg_additive_22_gdg] <;> ring

theorem dgga_v1_general_22_def (g00 : K → K → K → K) (g00_d1 : K → K → K → K) (g00_d2 : K → K → K → K) (g01 : K → K → K → K) (g01_d1 : K → K → K → K) (g01_d2 : K → K → K → K) (g10 : K → K → K → K) (g10_d1 : K → K → K → K) (g10_d2 : K → K → K → K) (g11 : K → K → K → K) (g11_d1 : K → K → K → K) (g11_d2 : K → K → K → K) (t y_0_0 y_0_1 A_0_0_0 A_0_0_1 A_0_1_0 A_0_1_1 : K) :
    Gen.dgga_v1_general_22_r_0_0 g00 g00_d1 g00_d2 g01 g01_d1 g01_d2 g10 g10_d1 g10_d2 g11 g11_d1 g11_d2 t y_0_0 y_0_1 A_0_0_0 A_0_0_1 A_0_1_0 A_0_1_1
      = g00_d1 t y_0_0 y_0_1 * g00 t y_0_0 y_0_1 * A_0_0_0 + g01_d1 t y_0_0 y_0_1 * g00 t y_0_0 y_0_1 * A_0_0_1 + g00_d1 t y_0_0 y_0_1 * g01 t y_0_0 y_0_1 * A_0_1_0 + g01_d1 t y_0_0 y_0_1 * g01 t y_0_0 y_0_1 * A_0_1_1 + g00_d2 t y_0_0 y_0_1 * g10 t y_0_0 y_0_1 * A_0_0_0 + g01_d2 t y_0_0 y_0_1 * g10 t y_0_0 y_0_1 * A_0_0_1 + g00_d2 t y_0_0 y_0_1 * g11 t y_0_0 y_0_1 * A_0_1_0 + g01_d2 t y_0_0 y_0_1 * g11 t y_0_0 y_0_1 * A_0_1_1 ∧
    Gen.dgga_v1_general_22_r_0_1 g00 g00_d1 g00_d2 g01 g01_d1 g01_d2 g10 g10_d1 g10_d2 g11 g11_d1 g11_d2 t y_0_0 y_0_1 A_0_0_0 A_0_0_1 A_0_1_0 A_0_1_1
      = g10_d1 t y_0_0 y_0_1 * g00 t y_0_0 y_0_1 * A_0_0_0 + g11_d1 t y_0_0 y_0_1 * g00 t y_0_0 y_0_1 * A_0_0_1 + g10_d1 t y_0_0 y_0_1 * g01 t y_0_0 y_0_1 * A_0_1_0 + g11_d1 t y_0_0 y_0_1 * g01 t y_0_0 y_0_1 * A_0_1_1 + g10_d2 t y_0_0 y_0_1 * g10 t y_0_0 y_0_1 * A_0_0_0 + g11_d2 t y_0_0 y_0_1 * g10 t y_0_0 y_0_1 * A_0_0_1 + g10_d2 t y_0_0 y_0_1 * g11 t y_0_0 y_0_1 * A_0_1_0 + g11_d2 t y_0_0 y_0_1 * g11 t y_0_0 y_0_1 * A_0_1_1 := by
  refine ⟨?_, ?_⟩ <;> simp only [Gen.dgga_v1_general_22_r_0_0, Gen.dgga_v1_general_22_r_0_1] <;> ring

theorem dgga_v1_general_21_def (g00 : K → K → K → K) (g00_d1 : K → K → K → K) (g00_d2 : K → K → K → K) (g10 : K → K → K → K) (g10_d1 : K → K → K → K) (g10_d2 : K → K → K → K) (t y_0_0 y_0_1 A_0_0_0 : K) :
    Gen.dgga_v1_general_21_r_0_0 g00 g00_d1 g00_d2 g10 g10_d1 g10_d2 t y_0_0 y_0_1 A_0_0_0
      = g00_d1 t y_0_0 y_0_1 * g00 t y_0_0 y_0_1 * A_0_0_0 + g00_d2 t y_0_0 y_0_1 * g10 t y_0_0 y_0_1 * A_0_0_0 ∧
    Gen.dgga_v1_general_21_r_0_1 g00 g00_d1 g00_d2 g10 g10_d1 g10_d2 t y_0_0 y_0_1 A_0_0_0
      = g10_d1 t y_0_0 y_0_1 * g00 t y_0_0 y_0_1 * A_0_0_0 + g10_d2 t y_0_0 y_0_1 * g10 t y_0_0 y_0_1 * A_0_0_0 := by
  refine ⟨?_, ?_⟩ <;> simp only [Gen.dgga_v1_general_21_r_0_0, Gen.dgga_v1_general_21_r_0_1] <;> ring

theorem dgga_v2_general_22_def (g00 : K → K → K → K) (g00_d1 : K → K → K → K) (g00_d2 : K → K → K → K) (g01 : K → K → K → K) (g01_d1 : K → K → K → K) (g01_d2 : K → K → K → K) (g10 : K → K → K → K) (g10_d1 : K → K → K → K) (g10_d2 : K → K → K → K) (g11 : K → K → K → K) (g11_d1 : K → K → K → K) (g11_d2 : K → K → K → K) (t y_0_0 y_0_1 A_0_0_0 A_0_0_1 A_0_1_0 A_0_1_1 : K) :
    Gen.dgga_v2_general_22_r_0_0 g00 g00_d1 g00_d2 g01 g01_d1 g01_d2 g10 g10_d1 g10_d2 g11 g11_d1 g11_d2 t y_0_0 y_0_1 A_0_0_0 A_0_0_1 A_0_1_0 A_0_1_1
      = g00_d1 t y_0_0 y_0_1 * g00 t y_0_0 y_0_1 * A_0_0_0 + g01_d1 t y_0_0 y_0_1 * g00 t y_0_0 y_0_1 * A_0_0_1 + g00_d1 t y_0_0 y_0_1 * g01 t y_0_0 y_0_1 * A_0_1_0 + g01_d1 t y_0_0 y_0_1 * g01 t y_0_0 y_0_1 * A_0_1_1 + g00_d2 t y_0_0 y_0_1 * g10 t y_0_0 y_0_1 * A_0_0_0 + g01_d2 t y_0_0 y_0_1 * g10 t y_0_0 y_0_1 * A_0_0_1 + g00_d2 t y_0_0 y_0_1 * g11 t y_0_0 y_0_1 * A_0_1_0 + g01_d2 t y_0_0 y_0_1 * g11 t y_0_0 y_0_1 * A_0_1_1 ∧
    Gen.dgga_v2_general_22_r_0_1 g00 g00_d1 g00_d2 g01 g01_d1 g01_d2 g10 g10_d1 g10_d2 g11 g11_d1 g11_d2 t y_0_0 y_0_1 A_0_0_0 A_0_0_1 A_0_1_0 A_0_1_1
      = g10_d1 t y_0_0 y_0_1 * g00 t y_0_0 y_0_1 * A_0_0_0 + g11_d1 t y_0_0 y_0_1 * g00 t y_0_0 y_0_1 * A_0_0_1 + g10_d1 t y_0_0 y_0_1 * g01 t y_0_0 y_0_1 * A_0_1_0 + g11_d1 t y_0_0 y_0_1 * g01 t y_0_0 y_0_1 * A_0_1_1 + g10_d2 t y_0_0 y_0_1 * g10 t y_0_0 y_0_1 * A_0_0_0 + g11_d2 t y_0_0 y_0_1 * g10 t y_0_0 y_0_1 * A_0_0_1 + g10_d2 t y_0_0 y_0_1 * g11 t y_0_0 y_0_1 * A_0_1_0 + g11_d2 t y_0_0 y_0_1 * g11 t y_0_0 y_0_1 * A_0_1_1 := by
  refine ⟨?_, ?_⟩ <;> simp only [Gen.dgga_v2_general_22_r_0_0, Gen.dgga_v2_general_22_r_0_1] <;> ring

theorem dgga_v2_general_21_def (g00 : K → K → K → K) (g00_d1 : K → K → K → K) (g00_d2 : K → K → K → K) (g10 : K → K → K → K) (g10_d1 : K → K → K → K) (g10_d2 : K → K → K → K) (t y_0_0 y_0_1 A_0_0_0 : K) :
    Gen.dgga_v2_general_21_r_0_0 g00 g00_d1 g00_d2 g10 g10_d1 g10_d2 t y_0_0 y_0_1 A_0_0_0
      = g00_d1 t y_0_0 y_0_1 * g00 t y_0_0 y_0_1 * A_0_0_0 + g00_d2 t y_0_0 y_0_1 * g10 t y_0_0 y_0_1 * A_0_0_0 ∧
    Gen.dgga_v2_general_21_r_0_1 g00 g00_d1 g00_d2 g10 g10_d1 g10_d2 t y_0_0 y_0_1 A_0_0_0
      = g10_d1 t y_0_0 y_0_1 * g00 t y_0_0 y_0_1 * A_0_0_0 + g10_d2 t y_0_0 y_0_1 * g10 t y_0_0 y_0_1 * A_0_0_0 := by
  refine ⟨?_, ?_⟩ <;> simp only [Gen.dgga_v2_general_21_r_0_0, Gen.dgga_v2_general_21_r_0_1] <;> ring

theorem gdg_general_22_ng_def (g00 : K → K → K → K) (g00_d1 : K → K → K → K) (g00_d2 : K → K → K → K) (g01 : K → K → K → K) (g01_d1 : K → K → K → K) (g01_d2 : K → K → K → K) (g10 : K → K → K → K) (g10_d1 : K → K → K → K) (g10_d2 : K → K → K → K) (g11 : K → K → K → K) (g11_d1 : K → K → K → K) (g11_d2 : K → K → K → K) (t y_0_0 y_0_1 v_0_0 v_0_1 w_0_0 w_0_1 : K) :
    Gen.gdg_general_22_ng_gp_0_0 g00 g00_d1 g00_d2 g01 g01_d1 g01_d2 g10 g10_d1 g10_d2 g11 g11_d1 g11_d2 t y_0_0 y_0_1 v_0_0 v_0_1 w_0_0 w_0_1
      = g00 t y_0_0 y_0_1 * v_0_0 + g01 t y_0_0 y_0_1 * v_0_1 ∧
    Gen.gdg_general_22_ng_gp_0_1 g00 g00_d1 g00_d2 g01 g01_d1 g01_d2 g10 g10_d1 g10_d2 g11 g11_d1 g11_d2 t y_0_0 y_0_1 v_0_0 v_0_1 w_0_0 w_0_1
      = g10 t y_0_0 y_0_1 * v_0_0 + g11 t y_0_0 y_0_1 * v_0_1 ∧
    Gen.gdg_general_22_ng_gdg_0_0 g00 g00_d1 g00_d2 g01 g01_d1 g01_d2 g10 g10_d1 g10_d2 g11 g11_d1 g11_d2 t y_0_0 y_0_1 v_0_0 v_0_1 w_0_0 w_0_1
      = g00 t y_0_0 y_0_1 * g00_d1 t y_0_0 y_0_1 * w_0_0 + g01 t y_0_0 y_0_1 * g01_d1 t y_0_0 y_0_1 * w_0_1 + g10 t y_0_0 y_0_1 * g10_d1 t y_0_0 y_0_1 * w_0_0 + g11 t y_0_0 y_0_1 * g11_d1 t y_0_0 y_0_1 * w_0_1 ∧
    Gen.gdg_general_22_ng_gdg_0_1 g00 g00_d1 g00_d2 g01 g01_d1 g01_d2 g10 g10_d1 g10_d2 g11 g11_d1 g11_d2 t y_0_0 y_0_1 v_0_0 v_0_1 w_0_0 w_0_1
      = g00 t y_0_0 y_0_1 * g00_d2 t y_0_0 y_0_1 * w_0_0 + g01 t y_0_0 y_0_1 * g01_d2 t y_0_0 y_0_1 * w_0_1 + g10 t y_0_0 y_0_1 * g10_d2 t y_0_0 y_0_1 * w_0_0 + g11 t y_0_0 y_0_1 * g11_d2 t y_0_0 y_0_1 * w_0_1 := by
  refine ⟨?_, ?_, ?_, ?_⟩ <;> simp only [Gen.gdg_general_22_ng_gp_0_0, Gen.gdg_general_22_ng_gp_0_1, Gen.gdg_general_22_ng_gdg_0_0, Gen.gdg_general_22_ng_gdg_0_1] <;> ring

theorem gdg_scalar_21_ng_def (g00 : K → K → K → K) (g00_d1 : K → K → K → K) (g00_d2 : K → K → K → K) (g10 : K → K → K → K) (g10_d1 : K → K → K → K) (g10_d2 : K → K → K → K) (t y_0_0 y_0_1 v_0_0 w_0_0 : K) :
    Gen.gdg_scalar_21_ng_gp_0_0 g00 g00_d1 g00_d2 g10 g10_d1 g10_d2 t y_0_0 y_0_1 v_0_0 w_0_0
      = g00 t y_0_0 y_0_1 * v_0_0 ∧
    Gen.gdg_scalar_21_ng_gp_0_1 g00 g00_d1 g00_d2 g10 g10_d1 g10_d2 t y_0_0 y_0_1 v_0_0 w_0_0
      = g10 t y_0_0 y_0_1 * v_0_0 ∧
    Gen.gdg_scalar_21_ng_gdg_0_0 g00 g00_d1 g00_d2 g10 g10_d1 g10_d2 t y_0_0 y_0_1 v_0_0 w_0_0
      = g00 t y_0_0 y_0_1 * g00_d1 t y_0_0 y_0_1 * w_0_0 + g10 t y_0_0 y_0_1 * g10_d1 t y_0_0 y_0_1 * w_0_0 ∧
    Gen.gdg_scalar_21_ng_gdg_0_1 g00 g00_d1 g00_d2 g10 g10_d1 g10_d2 t y_0_0 y_0_1 v_0_0 w_0_0
      = g00 t y_0_0 y_0_1 * g00_d2 t y_0_0 y_0_1 * w_0_0 + g10 t y_0_0 y_0_1 * g10_d2 t y_0_0 y_0_1 * w_0_0 := by
  refine ⟨?_, ?_, ?_, ?_⟩ <;> simp only [Gen.gdg_scalar_21_ng_gp_0_0, Gen.gdg_scalar_21_ng_gp_0_1, Gen.gdg_scalar_21_ng_gdg_0_0, Gen.gdg_scalar_21_ng_gdg_0_1] <;> ring

theorem gdg_diagonal_22_ng_def (g0 : K → K → K) (g0_d1 : K → K → K) (g1 : K → K → K) (g1_d1 : K → K → K) (t y_0_0 y_0_1 v_0_0 v_0_1 w_0_0 w_0_1 : K) :
    Gen.gdg_diagonal_22_ng_gp_0_0 g0 g0_d1 g1 g1_d1 t y_0_0 y_0_1 v_0_0 v_0_1 w_0_0 w_0_1
      = g0 t y_0_0 * v_0_0 ∧
    Gen.gdg_diagonal_22_ng_gp_0_1 g0 g0_d1 g1 g1_d1 t y_0_0 y_0_1 v_0_0 v_0_1 w_0_0 w_0_1
      = g1 t y_0_1 * v_0_1 ∧
    Gen.gdg_diagonal_22_ng_gdg_0_0 g0 g0_d1 g1 g1_d1 t y_0_0 y_0_1 v_0_0 v_0_1 w_0_0 w_0_1
      = g0 t y_0_0 * g0_d1 t y_0_0 * w_0_0 ∧
    Gen.gdg_diagonal_22_ng_gdg_0_1 g0 g0_d1 g1 g1_d1 t y_0_0 y_0_1 v_0_0 v_0_1 w_0_0 w_0_1
      = g1 t y_0_1 * g1_d1 t y_0_1 * w_0_1 := by
  refine ⟨?_, ?_, ?_, ?_⟩ <;> simp only [Gen.gdg_diagonal_22_ng_gp_0_0, Gen.gdg_diagonal_22_ng_gp_0_1, Gen.gdg_diagonal_22_ng_gdg_0_0, Gen.gdg_diagonal_22_ng_gdg_0_1] <;> ring

theorem gdg_diagonalfull_22_ng_def (g0 : K → K → K → K) (g0_d1 : K → K → K → K) (g0_d2 : K → K → K → K) (g1 : K → K → K → K) (g1_d1 : K → K → K → K) (g1_d2 : K → K → K → K) (t y_0_0 y_0_1 v_0_0 v_0_1 w_0_0 w_0_1 : K) :
    Gen.gdg_diagonalfull_22_ng_gp_0_0 g0 g0_d1 g0_d2 g1 g1_d1 g1_d2 t y_0_0 y_0_1 v_0_0 v_0_1 w_0_0 w_0_1
      = g0 t y_0_0 y_0_1 * v_0_0 ∧
    Gen.gdg_diagonalfull_22_ng_gp_0_1 g0 g0_d1 g0_d2 g1 g1_d1 g1_d2 t y_0_0 y_0_1 v_0_0 v_0_1 w_0_0 w_0_1
      = g1 t y_0_0 y_0_1 * v_0_1 ∧
    Gen.gdg_diagonalfull_22_ng_gdg_0_0 g0 g0_d1 g0_d2 g1 g1_d1 g1_d2 t y_0_0 y_0_1 v_0_0 v_0_1 w_0_0 w_0_1
      = g0 t y_0_0 y_0_1 * g0_d1 t y_0_0 y_0_1 * w_0_0 + g1 t y_0_0 y_0_1 * g1_d1 t y_0_0 y_0_1 * w_0_1 ∧
    Gen.gdg_diagonalfull_22_ng_gdg_0_1 g0 g0_d1 g0_d2 g1 g1_d1 g1_d2 t y_0_0 y_0_1 v_0_0 v_0_1 w_0_0 w_0_1
      = g0 t y_0_0 y_0_1 * g0_d2 t y_0_0 y_0_1 * w_0_0 + g1 t y_0_0 y_0_1 * g1_d2 t y_0_0 y_0_1 * w_0_1 := by
  refine ⟨?_, ?_, ?_, ?_⟩ <;> simp only [Gen.gdg_diagonalfull_22_ng_gp_0_0, Gen.gdg_diagonalfull_22_ng_gp_0_1, Gen.gdg_diagonalfull_22_ng_gdg_0_0, Gen.gdg_diagonalfull_22_ng_gdg_0_1] <;> ring

theorem gdg_additive_22_ng_def (g00 : K → K) (g01 : K → K) (g10 : K → K) (g11 : K → K) (t y_0_0 y_0_1 v_0_0 v_0_1 w_0_0 w_0_1 : K) :
    Gen.gdg_additive_22_ng_gp_0_0 g00 g01 g10 g11 t y_0_0 y_0_1 v_0_0 v_0_1 w_0_0 w_0_1
      = g00 t * v_0_0 + g01 t * v_0_1 ∧
    Gen.gdg_additive_22_ng_gp_0_1 g00 g01 g10 g11 t y_0_0 y_0_1 v_0_0 v_0_1 w_0_0 w_0_1
      = g10 t * v_0_0 + g11 t * v_0_1 ∧
    Gen.gdg_additive_22_ng_gdg g00 g01 g10 g11 t y_0_0 y_0_1 v_0_0 v_0_1 w_0_0 w_0_1
      = 0 := by
  refine ⟨?_, ?_, ?_⟩ <;> simp only [Gen.gdg_additive_22_ng_gp_0_0, Gen.gdg_additive_22_ng_gp_0_1, Gen.gdg_additive_22_ng_gdg] <;> ring

theorem dgga_v1_general_22_ng_def (g00 : K → K → K → K) (g00_d1 : K → K → K → K) (g00_d2 : K → K → K → K) (g01 : K → K → K → K) (g01_d1 : K → K → K → K) (g01_d2 : K → K → K → K) (g10 : K → K → K → K) (g10_d1 : K → K → K → K) (g10_d2 : K → K → K → K) (g11 : K → K → K → K) (g11_d1 : K → K → K → K) (g11_d2 : K → K → K → K) (t y_0_0 y_0_1 A_0_0_0 A_0_0_1 A_0_1_0 A_0_1_1 : K) :
    Gen.dgga_v1_general_22_ng_r_0_0 g00 g00_d1 g00_d2 g01 g01_d1 g01_d2 g10 g10_d1 g10_d2 g11 g11_d1 g11_d2 t y_0_0 y_0_1 A_0_0_0 A_0_0_1 A_0_1_0 A_0_1_1
      = g00_d1 t y_0_0 y_0_1 * g00 t y_0_0 y_0_1 * A_0_0_0 + g01_d1 t y_0_0 y_0_1 * g00 t y_0_0 y_0_1 * A_0_0_1 + g00_d1 t y_0_0 y_0_1 * g01 t y_0_0 y_0_1 * A_0_1_0 + g01_d1 t y_0_0 y_0_1 * g01 t y_0_0 y_0_1 * A_0_1_1 + g00_d2 t y_0_0 y_0_1 * g10 t y_0_0 y_0_1 * A_0_0_0 + g01_d2 t y_0_0 y_0_1 * g10 t y_0_0 y_0_1 * A_0_0_1 + g00_d2 t y_0_0 y_0_1 * g11 t y_0_0 y_0_1 * A_0_1_0 + g01_d2 t y_0_0 y_0_1 * g11 t y_0_0 y_0_1 * A_0_1_1 ∧
    Gen.dgga_v1_general_22_ng_r_0_1 g00 g00_d1 g00_d2 g01 g01_d1 g01_d2 g10 g10_d1 g10_d2 g11 g11_d1 g11_d2 t y_0_0 y_0_1 A_0_0_0 A_0_0_1 A_0_1_0 A_0_1_1
      = g10_d1 t y_0_0 y_0_1 * g00 t y_0_0 y_0_1 * A_0_0_0 + g11_d1 t y_0_0 y_0_1 * g00 t y_0_0 y_0_1 * A_0_0_1 + g10_d1 t y_0_0 y_0_1 * g01 t y_0_0 y_0_1 * A_0_1_0 + g11_d1 t y_0_0 y_0_1 * g01 t y_0_0 y_0_1 * A_0_1_1 + g10_d2 t y_0_0 y_0_1 * g10 t y_0_0 y_0_1 * A_0_0_0 + g11_d2 t y_0_0 y_0_1 * g10 t y_0_0 y_0_1 * A_0_0_1 + g10_d2 t y_0_0 y_0_1 * g11 t y_0_0 y_0_1 * A_0_1_0 + g11_d2 t y_0_0 y_0_1 * g11 t y_0_0 y_0_1 * A_0_1_1 := by
  refine ⟨?_, ?_⟩ <;> simp only [Gen.dgga_v1_general_22_ng_r_0_0, Gen.dgga_v1_general_22_ng_r_0_1] <;> ring

theorem dgga_v1_general_21_ng_def (g00 : K → K → K → K) (g00_d1 : K → K → K → K) (g00_d2 : K → K → K → K) (g10 : K → K → K → K) (g10_d1 : K → K → K → K) (g10_d2 : K → K → K → K) (t y_0_0 y_0_1 A_0_0_0 : K) :
    Gen.dgga_v1_general_21_ng_r_0_0 g00 g00_d1 g00_d2 g10 g10_d1 g10_d2 t y_0_0 y_0_1 A_0_0_0
      = g00_d1 t y_0_0 y_0_1 * g00 t y_0_0 y_0_1 * A_0_0_0 + g00_d2 t y_0_0 y_0_1 * g10 t y_0_0 y_0_1 * A_0_0_0 ∧
    Gen.dgga_v1_general_21_ng_r_0_1 g00 g00_d1 g00_d2 g10 g10_d1 g10_d2 t y_0_0 y_0_1 A_0_0_0
      = g10_d1 t y_0_0 y_0_1 * g00 t y_0_0 y_0_1 * A_0_0_0 + g10_d2 t y_0_0 y_0_1 * g10 t y_0_0 y_0_1 * A_0_0_0 := by
  refine ⟨?_, ?_⟩ <;> simp only [Gen.dgga_v1_general_21_ng_r_0_0, Gen.dgga_v1_general_21_ng_r_0_1] <;> ring

theorem dgga_v2_general_22_ng_def (g00 : K → K → K → K) (g00_d1 : K → K → K → K) (g00_d2 : K → K → K → K) (g01 : K → K → K → K) (g01_d1 : K → K → K → K) (g01_d2 : K → K → K → K) (g10 : K → K → K → K) (g10_d1 : K → K → K → K) (g10_d2 : K → K → K → K) (g11 : K → K → K → K) (g11_d1 : K → K → K → K) (g11_d2 : K → K → K → K) (t y_0_0 y_0_1 A_0_0_0 A_0_0_1 A_0_1_0 A_0_1_1 : K) :
    Gen.dgga_v2_general_22_ng_r_0_0 g00 g00_d1 g00_d2 g01 g01_d1 g01_d2 g10 g10_d1 g10_d2 g11 g11_d1 g11_d2 t y_0_0 y_0_1 A_0_0_0 A_0_0_1 A_0_1_0 A_0_1_1
      = g00_d1 t y_0_0 y_0_1 * g00 t y_0_0 y_0_1 * A_0_0_0 + g01_d1 t y_0_0 y_0_1 * g00 t y_0_0 y_0_1 * A_0_0_1 + g00_d1 t y_0_0 y_0_1 * g01 t y_0_0 y_0_1 * A_0_1_0 + g01_d1 t y_0_0 y_0_1 * g01 t y_0_0 y_0_1 * A_0_1_1 + g00_d2 t y_0_0 y_0_1 * g10 t y_0_0 y_0_1 * A_0_0_0 + g01_d2 t y_0_0 y_0_1 * g10 t y_0_0 y_0_1 * A_0_0_1 + g00_d2 t y_0_0 y_0_1 * g11 t y_0_0 y_0_1 * A_0_1_0 + g01_d2 t y_0_0 y_0_1 * g11 t y_0_0 y_0_1 * A_0_1_1 ∧
    Gen.dgga_v2_general_22_ng_r_0_1 g00 g00_d1 g00_d2 g01 g01_d1 g01_d2 g10 g10_d1 g10_d2 g11 g11_d1 g11_d2 t y_0_0 y_0_1 A_0_0_0 A_0_0_1 A_0_1_0 A_0_1_1
      = g10_d1 t y_0_0 y_0_1 * g00 t y_0_0 y_0_1 * A_0_0_0 + g11_d1 t y_0_0 y_0_1 * g00 t y_0_0 y_0_1 * A_0_0_1 + g10_d1 t y_0_0 y_0_1 * g01 t y_0_0 y_0_1 * A_0_1_0 + g11_d1 t y_0_0 y_0_1 * g01 t y_0_0 y_0_1 * A_0_1_1 + g10_d2 t y_0_0 y_0_1 * g10 t y_0_0 y_0_1 * A_0_0_0 + g11_d2 t y_0_0 y_0_1 * g10 t y_0_0 y_0_1 * A_0_0_1 + g10_d2 t y_0_0 y_0_1 * g11 t y_0_0 y_0_1 * A_0_1_0 + g11_d2 t y_0_0 y_0_1 * g11 t y_0_0 y_0_1 * A_0_1_1 := by
  refine ⟨?_, ?_⟩ <;> simp only [Gen.dgga_v2_general_22_ng_r_0_0, Gen.dgga_v2_general_22_ng_r_0_1] <;> ring

theorem dgga_v2_general_21_ng_def (g00 : K → K → K → K) (g00_d1 : K → K → K → K) (g00_d2 : K → K → K → K) (g10 : K → K → K → K) (g10_d1 : K → K → K → K) (g10_d2 : K → K → K → K) (t y_0_0 y_0_1 A_0_0_0 : K) :
    Gen.dgga_v2_general_21_ng_r_0_0 g00 g00_d1 g00_d2 g10 g10_d1 g10_d2 t y_0_0 y_0_1 A_0_0_0
      = g00_d1 t y_0_0 y_0_1 * g00 t y_0_0 y_0_1 * A_0_0_0 + g00_d2 t y_0_0 y_0_1 * g10 t y_0_0 y_0_1 * A_0_0_0 ∧
    Gen.dgga_v2_general_21_ng_r_0_1 g00 g00_d1 g00_d2 g10 g10_d1 g10_d2 t y_0_0 y_0_1 A_0_0_0
      = g10_d1 t y_0_0 y_0_1 * g00 t y_0_0 y_0_1 * A_0_0_0 + g10_d2 t y_0_0 y_0_1 * g10 t y_0_0 y_0_1 * A_0_0_0 := by
  refine ⟨?_, ?_⟩ <;> simp only [Gen.dgga_v2_general_21_ng_r_0_0, Gen.dgga_v2_general_21_ng_r_0_1] <;> ring

theorem gdg_general_22_rg_def (g00 : K → K → K → K) (g00_d1 : K → K → K → K) (g00_d2 : K → K → K → K) (g01 : K → K → K → K) (g01_d1 : K → K → K → K) (g01_d2 : K → K → K → K) (g10 : K → K → K → K) (g10_d1 : K → K → K → K) (g10_d2 : K → K → K → K) (g11 : K → K → K → K) (g11_d1 : K → K → K → K) (g11_d2 : K → K → K → K) (t y_0_0 y_0_1 v_0_0 v_0_1 w_0_0 w_0_1 : K) :
    Gen.gdg_general_22_rg_gp_0_0 g00 g00_d1 g00_d2 g01 g01_d1 g01_d2 g10 g10_d1 g10_d2 g11 g11_d1 g11_d2 t y_0_0 y_0_1 v_0_0 v_0_1 w_0_0 w_0_1
      = g00 t y_0_0 y_0_1 * v_0_0 + g01 t y_0_0 y_0_1 * v_0_1 ∧
    Gen.gdg_general_22_rg_gp_0_1 g00 g00_d1 g00_d2 g01 g01_d1 g01_d2 g10 g10_d1 g10_d2 g11 g11_d1 g11_d2 t y_0_0 y_0_1 v_0_0 v_0_1 w_0_0 w_0_1
      = g10 t y_0_0 y_0_1 * v_0_0 + g11 t y_0_0 y_0_1 * v_0_1 ∧
    Gen.gdg_general_22_rg_gdg_0_0 g00 g00_d1 g00_d2 g01 g01_d1 g01_d2 g10 g10_d1 g10_d2 g11 g11_d1 g11_d2 t y_0_0 y_0_1 v_0_0 v_0_1 w_0_0 w_0_1
      = g00 t y_0_0 y_0_1 * g00_d1 t y_0_0 y_0_1 * w_0_0 + g01 t y_0_0 y_0_1 * g01_d1 t y_0_0 y_0_1 * w_0_1 + g10 t y_0_0 y_0_1 * g10_d1 t y_0_0 y_0_1 * w_0_0 + g11 t y_0_0 y_0_1 * g11_d1 t y_0_0 y_0_1 * w_0_1 ∧
    Gen.gdg_general_22_rg_gdg_0_1 g00 g00_d1 g00_d2 g01 g01_d1 g01_d2 g10 g10_d1 g10_d2 g11 g11_d1 g11_d2 t y_0_0 y_0_1 v_0_0 v_0_1 w_0_0 w_0_1
      = g00 t y_0_0 y_0_1 * g00_d2 t y_0_0 y_0_1 * w_0_0 + g01 t y_0_0 y_0_1 * g01_d2 t y_0_0 y_0_1 * w_0_1 + g10 t y_0_0 y_0_1 * g10_d2 t y_0_0 y_0_1 * w_0_0 + g11 t y_0_0 y_0_1 * g11_d2 t y_0_0 y_0_1 * w_0_1 := by
  refine ⟨?_, ?_, ?_, ?_⟩ <;> simp only [Gen.gdg_general_22_rg_gp_0_0, Gen.gdg_general_22_rg_gp_0_1, Gen.gdg_general_22_rg_gdg_0_0, Gen.gdg_general_22_rg_gdg_0_1] <;> ring

theorem gdg_scalar_21_rg_def (g00 : K → K → K → K) (g00_d1 : K → K → K → K) (g00_d2 : K → K → K → K) (g10 : K → K → K → K) (g10_d1 : K → K → K → K) (g10_d2 : K → K → K → K) (t y_0_0 y_0_1 v_0_0 w_0_0 : K) :
    Gen.gdg_scalar_21_rg_gp_0_0 g00 g00_d1 g00_d2 g10 g10_d1 g10_d2 t y_0_0 y_0_1 v_0_0 w_0_0
      = g00 t y_0_0 y_0_1 * v_0_0 ∧
    Gen.gdg_scalar_21_rg_gp_0_1 g00 g00_d1 g00_d2 g10 g10_d1 g10_d2 t y_0_0 y_0_1 v_0_0 w_0_0
      = g10 t y_0_0 y_0_1 * v_0_0 ∧
    Gen.gdg_scalar_21_rg_gdg_0_0 g00 g00_d1 g00_d2 g10 g10_d1 g10_d2 t y_0_0 y_0_1 v_0_0 w_0_0
      = g00 t y_0_0 y_0_1 * g00_d1 t y_0_0 y_0_1 * w_0_0 + g10 t y_0_0 y_0_1 * g10_d1 t y_0_0 y_0_1 * w_0_0 ∧
    Gen.gdg_scalar_21_rg_gdg_0_1 g00 g00_d1 g00_d2 g10 g10_d1 g10_d2 t y_0_0 y_0_1 v_0_0 w_0_0
      = g00 t y_0_0 y_0_1 * g00_d2 t y_0_0 y_0_1 * w_0_0 + g10 t y_0_0 y_0_1 * g10_d2 t y_0_0 y_0_1 * w_0_0 := by
  refine ⟨?_, ?_, ?_, ?_⟩ <;> simp only [Gen.gdg_scalar_21_rg_gp_0_0, Gen.gdg_scalar_21_rg_gp_0_1, Gen.gdg_scalar_21_rg_gdg_0_0, Gen.gdg_scalar_21_rg_gdg_0_1] <;> ring

theorem gdg_diagonal_22_rg_def (g0 : K → K → K) (g0_d1 : K → K → K) (g1 : K → K → K) (g1_d1 : K → K → K) (t y_0_0 y_0_1 v_0_0 v_0_1 w_0_0 w_0_1 : K) :
    Gen.gdg_diagonal_22_rg_gp_0_0 g0 g0_d1 g1 g1_d1 t y_0_0 y_0_1 v_0_0 v_0_1 w_0_0 w_0_1
      = g0 t y_0_0 * v_0_0 ∧
    Gen.gdg_diagonal_22_rg_gp_0_1 g0 g0_d1 g1 g1_d1 t y_0_0 y_0_1 v_0_0 v_0_1 w_0_0 w_0_1
      = g1 t y_0_1 * v_0_1 ∧
    Gen.gdg_diagonal_22_rg_gdg_0_0 g0 g0_d1 g1 g1_d1 t y_0_0 y_0_1 v_0_0 v_0_1 w_0_0 w_0_1
      = g0 t y_0_0 * g0_d1 t y_0_0 * w_0_0 ∧
    Gen.gdg_diagonal_22_rg_gdg_0_1 g0 g0_d1 g1 g1_d1 t y_0_0 y_0_1 v_0_0 v_0_1 w_0_0 w_0_1
      = g1 t y_0_1 * g1_d1 t y_0_1 * w_0_1 := by
  refine ⟨?_, ?_, ?_, ?_⟩ <;> simp only [Gen.gdg_diagonal_22_rg_gp_0_0, Gen.gdg_diagonal_22_rg_gp_0_1, Gen.gdg_diagonal_22_rg_gdg_0_0, Gen.gdg_diagonal_22_rg_gdg_0_1] <;> ring

theorem gdg_diagonalfull_22_rg_def (g0 : K → K → K → K) (g0_d1 : K → K → K → K) (g0_d2 : K → K → K → K) (g1 : K → K → K → K) (g1_d1 : K → K → K → K) (g1_d2 : K → K → K → K) (t y_0_0 y_0_1 v_0_0 v_0_1 w_0_0 w_0_1 : K) :
    Gen.gdg_diagonalfull_22_rg_gp_0_0 g0 g0_d1 g0_d2 g1 g1_d1 g1_d2 t y_0_0 y_0_1 v_0_0 v_0_1 w_0_0 w_0_1
      = g0 t y_0_0 y_0_1 * v_0_0 ∧
    Gen.gdg_diagonalfull_22_rg_gp_0_1 g0 g0_d1 g0_d2 g1 g1_d1 g1_d2 t y_0_0 y_0_1 v_0_0 v_0_1 w_0_0 w_0_1
      = g1 t y_0_0 y_0_1 * v_0_1 ∧
    Gen.gdg_diagonalfull_22_rg_gdg_0_0 g0 g0_d1 g0_d2 g1 g1_d1 g1_d2 t y_0_0 y_0_1 v_0_0 v_0_1 w_0_0 w_0_1
      = g0 t y_0_0 y_0_1 * g0_d1 t y_0_0 y_0_1 * w_0_0 + g1 t y_0_0 y_0_1 * g1_d1 t y_0_0 y_0_1 * w_0_1 ∧
    Gen.gdg_diagonalfull_22_rg_gdg_0_1 g0 g0_d1 g0_d2 g1 g1_d1 g1_d2 t y_0_0 y_0_1 v_0_0 v_0_1 w_0_0 w_0_1
      = g0 t y_0_0 y_0_1 * g0_d2 t y_0_0 y_0_1 * w_0_0 + g1 t y_0_0 y_0_1 * g1_d2 t y_0_0 y_0_1 * w_0_1 := by
  refine ⟨?_, ?_, ?_, ?_⟩ <;> simp only [Gen.gdg_diagonalfull_22_rg_gp_0_0, Gen.gdg_diagonalfull_22_rg_gp_0_1, Gen.gdg_diagonalfull_22_rg_gdg_0_0, Gen.gdg_diagonalfull_22_rg_gdg_0_1] <;> ring

theorem gdg_additive_22_rg_def (g00 : K → K) (g01 : K → K) (g10 : K → K) (g11 : K → K) (t y_0_0 y_0_1 v_0_0 v_0_1 w_0_0 w_0_1 : K) :
    Gen.gdg_additive_22_rg_gp_0_0 g00 g01 g10 g11 t y_0_0 y_0_1 v_0_0 v_0_1 w_0_0 w_0_1
      = g00 t * v_0_0 + g01 t * v_0_1 ∧
    Gen.gdg_additive_22_rg_gp_0_1 g00 g01 g10 g11 t y_0_0 y_0_1 v_0_0 v_0_1 w_0_0 w_0_1
      = g10 t * v_0_0 + g11 t * v_0_1 ∧
    Gen.gdg_additive_22_rg_gdg g00 g01 g10 g11 t y_0_0 y_0_1 v_0_0 v_0_1 w_0_0 w_0_1
      = 0 := by
  refine ⟨?_, ?_, ?_⟩ <;> simp only [Gen.gdg_additive_22_rg_gp_0_0, Gen.gdg_additive_22_rg_gp_0_1, Gen.gdg_additive_22_rg_gdg] <;> ring

theorem dgga_v1_general_22_rg_def (g00 : K → K → K → K) (g00_d1 : K → K → K → K) (g00_d2 : K → K → K → K) (g01 : K → K → K → K) (g01_d1 : K → K → K → K) (g01_d2 : K → K → K → K) (g10 : K → K → K → K) (g10_d1 : K → K → K → K) (g10_d2 : K → K → K → K) (g11 : K → K → K → K) (g11_d1 : K → K → K → K) (g11_d2 : K → K → K → K) (t y_0_0 y_0_1 A_0_0_0 A_0_0_1 A_0_1_0 A_0_1_1 : K) :
    Gen.dgga_v1_general_22_rg_r_0_0 g00 g00_d1 g00_d2 g01 g01_d1 g01_d2 g10 g10_d1 g10_d2 g11 g11_d1 g11_d2 t y_0_0 y_0_1 A_0_0_0 A_0_0_1 A_0_1_0 A_0_1_1
      = g00_d1 t y_0_0 y_0_1 * g00 t y_0_0 y_0_1 * A_0_0_0 + g01_d1 t y_0_0 y_0_1 * g00 t y_0_0 y_0_1 * A_0_0_1 + g00_d1 t y_0_0 y_0_1 * g01 t y_0_0 y_0_1 * A_0_1_0 + g01_d1 t y_0_0 y_0_1 * g01 t y_0_0 y_0_1 * A_0_1_1 + g00_d2 t y_0_0 y_0_1 * g10 t y_0_0 y_0_1 * A_0_0_0 + g01_d2 t y_0_0 y_0_1 * g10 t y_0_0 y_0_1 * A_0_0_1 + g00_d2 t y_0_0 y_0_1 * g11 t y_0_0 y_0_1 * A_0_1_0 + g01_d2 t y_0_0 y_0_1 * g11 t y_0_0 y_0_1 * A_0_1_1 ∧
    Gen.dgga_v1_general_22_rg_r_0_1 g00 g00_d1 g00_d2 g01 g01_d1 g01_d2 g10 g10_d1 g10_d2 g11 g11_d1 g11_d2 t y_0_0 y_0_1 A_0_0_0 A_0_0_1 A_0_1_0 A_0_1_1
      = g10_d1 t y_0_0 y_0_1 * g00 t y_0_0 y_0_1 * A_0_0_0 + g11_d1 t y_0_0 y_0_1 * g00 t y_0_0 y_0_1 * A_0_0_1 + g10_d1 t y_0_0 y_0_1 * g01 t y_0_0 y_0_1 * A_0_1_0 + g11_d1 t y_0_0 y_0_1 * g01 t y_0_0 y_0_1 * A_0_1_1 + g10_d2 t y_0_0 y_0_1 * g10 t y_0_0 y_0_1 * A_0_0_0 + g11_d2 t y_0_0 y_0_1 * g10 t y_0_0 y_0_1 * A_0_0_1 + g10_d2 t y_0_0 y_0_1 * g11 t y_0_0 y_0_1 * A_0_1_0 + g11_d2 t y_0_0 y_0_1 * g11 t y_0_0 y_0_1 * A_0_1_1 := by
  refine ⟨?_, ?_⟩ <;> simp only [Gen.dgga_v1_general_22_rg_r_0_0, Gen.dgga_v1_general_22_rg_r_0_1] <;> ring

theorem dgga_v1_general_21_rg_def (g00 : K → K → K → K) (g00_d1 : K → K → K → K) (g00_d2 : K → K → K → K) (g10 : K → K → K → K) (g10_d1 : K → K → K → K) (g10_d2 : K → K → K → K) (t y_0_0 y_0_1 A_0_0_0 : K) :
    Gen.dgga_v1_general_21_rg_r_0_0 g00 g00_d1 g00_d2 g10 g10_d1 g10_d2 t y_0_0 y_0_1 A_0_0_0
      = g00_d1 t y_0_0 y_0_1 * g00 t y_0_0 y_0_1 * A_0_0_0 + g00_d2 t y_0_0 y_0_1 * g10 t y_0_0 y_0_1 * A_0_0_0 ∧
    Gen.dgga_v1_general_21_rg_r_0_1 g00 g00_d1 g00_d2 g10 g10_d1 g10_d2 t y_0_0 y_0_1 A_0_0_0
      = g10_d1 t y_0_0 y_0_1 * g00 t y_0_0 y_0_1 * A_0_0_0 + g10_d2 t y_0_0 y_0_1 * g10 t y_0_0 y_0_1 * A_0_0_0 := by
  refine ⟨?_, ?_⟩ <;> simp only [Gen.dgga_v1_general_21_rg_r_0_0, Gen.dgga_v1_general_21_rg_r_0_1] <;> ring

theorem dgga_v2_general_22_rg_def (g00 : K → K → K → K) (g00_d1 : K → K → K → K) (g00_d2 : K → K → K → K) (g01 : K → K → K → K) (g01_d1 : K → K → K → K) (g01_d2 : K → K → K → K) (g10 : K → K → K → K) (g10_d1 : K → K → K → K) (g10_d2 : K → K → K → K) (g11 : K → K → K → K) (g11_d1 : K → K → K → K) (g11_d2 : K → K → K → K) (t y_0_0 y_0_1 A_0_0_0 A_0_0_1 A_0_1_0 A_0_1_1 : K) :
    Gen.dgga_v2_general_22_rg_r_0_0 g00 g00_d1 g00_d2 g01 g01_d1 g01_d2 g10 g10_d1 g10_d2 g11 g11_d1 g11_d2 t y_0_0 y_0_1 A_0_0_0 A_0_0_1 A_0_1_0 A_0_1_1
      = g00_d1 t y_0_0 y_0_1 * g00 t y_0_0 y_0_1 * A_0_0_0 + g01_d1 t y_0_0 y_0_1 * g00 t y_0_0 y_0_1 * A_0_0_1 + g00_d1 t y_0_0 y_0_1 * g01 t y_0_0 y_0_1 * A_0_1_0 + g01_d1 t y_0_0 y_0_1 * g01 t y_0_0 y_0_1 * A_0_1_1 + g00_d2 t y_0_0 y_0_1 * g10 t y_0_0 y_0_1 * A_0_0_0 + g01_d2 t y_0_0 y_0_1 * g10 t y_0_0 y_0_1 * A_0_0_1 + g00_d2 t y_0_0 y_0_1 * g11 t y_0_0 y_0_1 * A_0_1_0 + g01_d2 t y_0_0 y_0_1 * g11 t y_0_0 y_0_1 * A_0_1_1 ∧
    Gen.dgga_v2_general_22_rg_r_0_1 g00 g00_d1 g00_d2 g01 g01_d1 g01_d2 g10 g10_d1 g10_d2 g11 g11_d1 g11_d2 t y_0_0 y_0_1 A_0_0_0 A_0_0_1 A_0_1_0 A_0_1_1
      = g10_d1 t y_0_0 y_0_1 * g00 t y_0_0 y_0_1 * A_0_0_0 + g11_d1 t y_0_0 y_0_1 * g00 t y_0_0 y_0_1 * A_0_0_1 + g10_d1 t y_0_0 y_0_1 * g01 t y_0_0 y_0_1 * A_0_1_0 + g11_d1 t y_0_0 y_0_1 * g01 t y_0_0 y_0_1 * A_0_1_1 + g10_d2 t y_0_0 y_0_1 * g10 t y_0_0 y_0_1 * A_0_0_0 + g11_d2 t y_0_0 y_0_1 * g10 t y_0_0 y_0_1 * A_0_0_1 + g10_d2 t y_0_0 y_0_1 * g11 t y_0_0 y_0_1 * A_0_1_0 + g11_d2 t y_0_0 y_0_1 * g11 t y_0_0 y_0_1 * A_0_1_1 := by
  refine ⟨?_, ?_⟩ <;> simp only [Gen.dgga_v2_general_22_rg_r_0_0, Gen.dgga_v2_general_22_rg_r_0_1] <;> ring

theorem dgga_v2_general_21_rg_def (g00 : K → K → K → K) (g00_d1 : K → K → K → K) (g00_d2 : K → K → K → K) (g10 : K → K → K → K) (g10_d1 : K → K → K → K) (g10_d2 : K → K → K → K) (t y_0_0 y_0_1 A_0_0_0 : K) :
    Gen.dgga_v2_general_21_rg_r_0_0 g00 g00_d1 g00_d2 g10 g10_d1 g10_d2 t y_0_0 y_0_1 A_0_0_0
      = g00_d1 t y_0_0 y_0_1 * g00 t y_0_0 y_0_1 * A_0_0_0 + g00_d2 t y_0_0 y_0_1 * g10 t y_0_0 y_0_1 * A_0_0_0 ∧
    Gen.dgga_v2_general_21_rg_r_0_1 g00 g00_d1 g00_d2 g10 g10_d1 g10_d2 t y_0_0 y_0_1 A_0_0_0
      = g10_d1 t y_0_0 y_0_1 * g00 t y_0_0 y_0_1 * A_0_0_0 + g10_d2 t y_0_0 y_0_1 * g10 t y_0_0 y_0_1 * A_0_0_0 := by
  refine ⟨?_, ?_⟩ <;> simp only [Gen.dgga_v2_general_21_rg_r_0_0, Gen.dgga_v2_general_21_rg_r_0_1] <;> ring

theorem dgga_v1_general_22_b2_def (g00 : K → K → K → K) (g00_d1 : K → K → K → K) (g00_d2 : K → K → K → K) (g01 : K → K → K → K) (g01_d1 : K → K → K → K) (g01_d2 : K → K → K → K) (g10 : K → K → K → K) (g10_d1 : K → K → K → K) (g10_d2 : K → K → K → K) (g11 : K → K → K → K) (g11_d1 : K → K → K → K) (g11_d2 : K → K → K → K) (t y_0_0 y_0_1 y_1_0 y_1_1 A_0_0_0 A_0_0_1 A_0_1_0 A_0_1_1 A_1_0_0 A_1_0_1 A_1_1_0 A_1_1_1 : K) :
    Gen.dgga_v1_general_22_b2_r_0_0 g00 g00_d1 g00_d2 g01 g01_d1 g01_d2 g10 g10_d1 g10_d2 g11 g11_d1 g11_d2 t y_0_0 y_0_1 y_1_0 y_1_1 A_0_0_0 A_0_0_1 A_0_1_0 A_0_1_1 A_1_0_0 A_1_0_1 A_1_1_0 A_1_1_1
      = g00_d1 t y_0_0 y_0_1 * g00 t y_0_0 y_0_1 * A_0_0_0 + g01_d1 t y_0_0 y_0_1 * g00 t y_0_0 y_0_1 * A_0_0_1 + g00_d1 t y_0_0 y_0_1 * g01 t y_0_0 y_0_1 * A_0_1_0 + g01_d1 t y_0_0 y_0_1 * g01 t y_0_0 y_0_1 * A_0_1_1 + g00_d2 t y_0_0 y_0_1 * g10 t y_0_0 y_0_1 * A_0_0_0 + g01_d2 t y_0_0 y_0_1 * g10 t y_0_0 y_0_1 * A_0_0_1 + g00_d2 t y_0_0 y_0_1 * g11 t y_0_0 y_0_1 * A_0_1_0 + g01_d2 t y_0_0 y_0_1 * g11 t y_0_0 y_0_1 * A_0_1_1 ∧
    Gen.dgga_v1_general_22_b2_r_0_1 g00 g00_d1 g00_d2 g01 g01_d1 g01_d2 g10 g10_d1 g10_d2 g11 g11_d1 g11_d2 t y_0_0 y_0_1 y_1_0 y_1_1 A_0_0_0 A_0_0_1 A_0_1_0 A_0_1_1 A_1_0_0 A_1_0_1 A_1_1_0 A_1_1_1
      = g10_d1 t y_0_0 y_0_1 * g00 t y_0_0 y_0_1 * A_0_0_0 + g11_d1 t y_0_0 y_0_1 * g00 t y_0_0 y_0_1 * A_0_0_1 + g10_d1 t y_0_0 y_0_1 * g01 t y_0_0 y_0_1 * A_0_1_0 + g11_d1 t y_0_0 y_0_1 * g01 t y_0_0 y_0_1 * A_0_1_1 + g10_d2 t y_0_0 y_0_1 * g10 t y_0_0 y_0_1 * A_0_0_0 + g11_d2 t y_0_0 y_0_1 * g10 t y_0_0 y_0_1 * A_0_0_1 + g10_d2 t y_0_0 y_0_1 * g11 t y_0_0 y_0_1 * A_0_1_0 + g11_d2 t y_0_0 y_0_1 * g11 t y_0_0 y_0_1 * A_0_1_1 ∧
    Gen.dgga_v1_general_22_b2_r_1_0 g00 g00_d1 g00_d2 g01 g01_d1 g01_d2 g10 g10_d1 g10_d2 g11 g11_d1 g11_d2 t y_0_0 y_0_1 y_1_0 y_1_1 A_0_0_0 A_0_0_1 A_0_1_0 A_0_1_1 A_1_0_0 A_1_0_1 A_1_1_0 A_1_1_1
      = g00_d1 t y_1_0 y_1_1 * g00 t y_1_0 y_1_1 * A_1_0_0 + g01_d1 t y_1_0 y_1_1 * g00 t y_1_0 y_1_1 * A_1_0_1 + g00_d1 t y_1_0 y_1_1 * g01 t y_1_0 y_1_1 * A_1_1_0 + g01_d1 t y_1_0 y_1_1 * g01 t y_1_0 y_1_1 * A_1_1_1 + g00_d2 t y_1_0 y_1_1 * g10 t y_1_0 y_1_1 * A_1_0_0 + g01_d2 t y_1_0 y_1_1 * g10 t y_1_0 y_1_1 * A_1_0_1 + g00_d2 t y_1_0 y_1_1 * g11 t y_1_0 y_1_1 * A_1_1_0 + g01_d2 t y_1_0 y_1_1 * g11 t y_1_0 y_1_1 * A_1_1_1 ∧
    Gen.dgga_v1_general_22_b2_r_1_1 g00 g00_d1 g00_d2 g01 g01_d1 g01_d2 g10 g10_d1 g10_d2 g11 g11_d1 g11_d2 t y_0_0 y_0_1 y_1_0 y_1_1 A_0_0_0 A_0_0_1 A_0_1_0 A_0_1_1 A_1_0_0 A_1_0_1 A_1_1_0 A_1_1_1
      = g10_d1 t y_1_0 y_1_1 * g00 t y_1_0 y_1_1 * A_1_0_0 + g11_d1 t y_1_0 y_1_1 * g00 t y_1_0 y_1_1 * A_1_0_1 + g10_d1 t y_1_0 y_1_1 * g01 t y_1_0 y_1_1 * A_1_1_0 + g11_d1 t y_1_0 y_1_1 * g01 t y_1_0 y_1_1 * A_1_1_1 + g10_d2 t y_1_0 y_1_1 * g10 t y_1_0 y_1_1 * A_1_0_0 + g11_d2 t y_1_0 y_1_1 * g10 t y_1_0 y_1_1 * A_1_0_1 + g10_d2 t y_1_0 y_1_1 * g11 t y_1_0 y_1_1 * A_1_1_0 + g11_d2 t y_1_0 y_1_1 * g11 t y_1_0 y_1_1 * A_1_1_1 := by
  refine ⟨?_, ?_, ?_, ?_⟩ <;> simp only [Gen.dgga_v1_general_22_b2_r_0_0, Gen.dgga_v1_general_22_b2_r_0_1, Gen.dgga_v1_general_22_b2_r_1_0, Gen.dgga_v1_general_22_b2_r_1_1] <;> ring

theorem dgga_v2_general_22_b2_def (g00 : K → K → K → K) (g00_d1 : K → K → K → K) (g00_d2 : K → K → K → K) (g01 : K → K → K → K) (g01_d1 : K → K → K → K) (g01_d2 : K → K → K → K) (g10 : K → K → K → K) (g10_d1 : K → K → K → K) (g10_d2 : K → K → K → K) (g11 : K → K → K → K) (g11_d1 : K → K → K → K) (g11_d2 : K → K → K → K) (t y_0_0 y_0_1 y_1_0 y_1_1 A_0_0_0 A_0_0_1 A_0_1_0 A_0_1_1 A_1_0_0 A_1_0_1 A_1_1_0 A_1_1_1 : K) :
    Gen.dgga_v2_general_22_b2_r_0_0 g00 g00_d1 g00_d2 g01 g01_d1 g01_d2 g10 g10_d1 g10_d2 g11 g11_d1 g11_d2 t y_0_0 y_0_1 y_1_0 y_1_1 A_0_0_0 A_0_0_1 A_0_1_0 A_0_1_1 A_1_0_0 A_1_0_1 A_1_1_0 A_1_1_1
      = g00_d1 t y_0_0 y_0_1 * g00 t y_0_0 y_0_1 * A_0_0_0 + g01_d1 t y_0_0 y_0_1 * g00 t y_0_0 y_0_1 * A_0_0_1 + g00_d1 t y_0_0 y_0_1 * g01 t y_0_0 y_0_1 * A_0_1_0 + g01_d1 t y_0_0 y_0_1 * g01 t y_0_0 y_0_1 * A_0_1_1 + g00_d2 t y_0_0 y_0_1 * g10 t y_0_0 y_0_1 * A_0_0_0 + g01_d2 t y_0_0 y_0_1 * g10 t y_0_0 y_0_1 * A_0_0_1 + g00_d2 t y_0_0 y_0_1 * g11 t y_0_0 y_0_1 * A_0_1_0 + g01_d2 t y_0_0 y_0_1 * g11 t y_0_0 y_0_1 * A_0_1_1 ∧
    Gen.dgga_v2_general_22_b2_r_0_1 g00 g00_d1 g00_d2 g01 g01_d1 g01_d2 g10 g10_d1 g10_d2 g11 g11_d1 g11_d2 t y_0_0 y_0_1 y_1_0 y_1_1 A_0_0_0 A_0_0_1 A_0_1_0 A_0_1_1 A_1_0_0 A_1_0_1 A_1_1_0 A_1_1_1
      = g10_d1 t y_0_0 y_0_1 * g00 t y_0_0 y_0_1 * A_0_0_0 + g11_d1 t y_0_0 y_0_1 * g00 t y_0_0 y_0_1 * A_0_0_1 + g10_d1 t y_0_0 y_0_1 * g01 t y_0_0 y_0_1 * A_0_1_0 + g11_d1 t y_0_0 y_0_1 * g01 t y_0_0 y_0_1 * A_0_1_1 + g10_d2 t y_0_0 y_0_1 * g10 t y_0_0 y_0_1 * A_0_0_0 + g11_d2 t y_0_0 y_0_1 * g10 t y_0_0 y_0_1 * A_0_0_1 + g10_d2 t y_0_0 y_0_1 * g11 t y_0_0 y_0_1 * A_0_1_0 + g11_d2 t y_0_0 y_0_1 * g11 t y_0_0 y_0_1 * A_0_1_1 ∧
    Gen.dgga_v2_general_22_b2_r_1_0 g00 g00_d1 g00_d2 g01 g01_d1 g01_d2 g10 g10_d1 g10_d2 g11 g11_d1 g11_d2 t y_0_0 y_0_1 y_1_0 y_1_1 A_0_0_0 A_0_0_1 A_0_1_0 A_0_1_1 A_1_0_0 A_1_0_1 A_1_1_0 A_1_1_1
      = g00_d1 t y_1_0 y_1_1 * g00 t y_1_0 y_1_1 * A_1_0_0 + g01_d1 t y_1_0 y_1_1 * g00 t y_1_0 y_1_1 * A_1_0_1 + g00_d1 t y_1_0 y_1_1 * g01 t y_1_0 y_1_1 * A_1_1_0 + g01_d1 t y_1_0 y_1_1 * g01 t y_1_0 y_1_1 * A_1_1_1 + g00_d2 t y_1_0 y_1_1 * g10 t y_1_0 y_1_1 * A_1_0_0 + g01_d2 t y_1_0 y_1_1 * g10 t y_1_0 y_1_1 * A_1_0_1 + g00_d2 t y_1_0 y_1_1 * g11 t y_1_0 y_1_1 * A_1_1_0 + g01_d2 t y_1_0 y_1_1 * g11 t y_1_0 y_1_1 * A_1_1_1 ∧
    Gen.dgga_v2_general_22_b2_r_1_1 g00 g00_d1 g00_d2 g01 g01_d1 g01_d2 g10 g10_d1 g10_d2 g11 g11_d1 g11_d2 t y_0_0 y_0_1 y_1_0 y_1_1 A_0_0_0 A_0_0_1 A_0_1_0 A_0_1_1 A_1_0_0 A_1_0_1 A_1_1_0 A_1_1_1
      = g10_d1 t y_1_0 y_1_1 * g00 t y_1_0 y_1_1 * A_1_0_0 + g11_d1 t y_1_0 y_1_1 * g00 t y_1_0 y_1_1 * A_1_0_1 + g10_d1 t y_1_0 y_1_1 * g01 t y_1_0 y_1_1 * A_1_1_0 + g11_d1 t y_1_0 y_1_1 * g01 t y_1_0 y_1_1 * A_1_1_1 + g10_d2 t y_1_0 y_1_1 * g10 t y_1_0 y_1_1 * A_1_0_0 + g11_d2 t y_1_0 y_1_1 * g10 t y_1_0 y_1_1 * A_1_0_1 + g10_d2 t y_1_0 y_1_1 * g11 t y_1_0 y_1_1 * A_1_1_0 + g11_d2 t y_1_0 y_1_1 * g11 t y_1_0 y_1_1 * A_1_1_1 := by
  refine ⟨?_, ?_, ?_, ?_⟩ <;> simp only [Gen.dgga_v2_general_22_b2_r_0_0, Gen.dgga_v2_general_22_b2_r_0_1, Gen.dgga_v2_general_22_b2_r_1_0, Gen.dgga_v2_general_22_b2_r_1_1] <;> ring

theorem gdg_general_22_modes (g00 : K → K → K → K) (g00_d1 : K → K → K → K) (g00_d2 : K → K → K → K) (g01 : K → K → K → K) (g01_d1 : K → K → K → K) (g01_d2 : K → K → K → K) (g10 : K → K → K → K) (g10_d1 : K → K → K → K) (g10_d2 : K → K → K → K) (g11 : K → K → K → K) (g11_d1 : K → K → K → K) (g11_d2 : K → K → K → K) (t y_0_0 y_0_1 v_0_0 v_0_1 w_0_0 w_0_1 : K) :
    Gen.gdg_general_22_ng_gp_0_0 g00 g00_d1 g00_d2 g01 g01_d1 g01_d2 g10 g10_d1 g10_d2 g11 g11_d1 g11_d2 t y_0_0 y_0_1 v_0_0 v_0_1 w_0_0 w_0_1 = Gen.gdg_general_22_gp_0_0 g00 g00_d1 g00_d2 g01 g01_d1 g01_d2 g10 g10_d1 g10_d2 g11 g11_d1 g11_d2 t y_0_0 y_0_1 v_0_0 v_0_1 w_0_0 w_0_1 ∧
    Gen.gdg_general_22_ng_gp_0_1 g00 g00_d1 g00_d2 g01 g01_d1 g01_d2 g10 g10_d1 g10_d2 g11 g11_d1 g11_d2 t y_0_0 y_0_1 v_0_0 v_0_1 w_0_0 w_0_1 = Gen.gdg_general_22_gp_0_1 g00 g00_d1 g00_d2 g01 g01_d1 g01_d2 g10 g10_d1 g10_d2 g11 g11_d1 g11_d2 t y_0_0 y_0_1 v_0_0 v_0_1 w_0_0 w_0_1 ∧
    Gen.gdg_general_22_ng_gdg_0_0 g00 g00_d1 g00_d2 g01 g01_d1 g01_d2 g10 g10_d1 g10_d2 g11 g11_d1 g11_d2 t y_0_0 y_0_1 v_0_0 v_0_1 w_0_0 w_0_1 = Gen.gdg_general_22_gdg_0_0 g00 g00_d1 g00_d2 g01 g01_d1 g01_d2 g10 g10_d1 g10_d2 g11 g11_d1 g11_d2 t y_0_0 y_0_1 v_0_0 v_0_1 w_0_0 w_0_1 ∧
    Gen.gdg_general_22_ng_gdg_0_1 g00 g00_d1 g00_d2 g01 g01_d1 g01_d2 g10 g10_d1 g10_d2 g11 g11_d1 g11_d2 t y_0_0 y_0_1 v_0_0 v_0_1 w_0_0 w_0_1 = Gen.gdg_general_22_gdg_0_1 g00 g00_d1 g00_d2 g01 g01_d1 g01_d2 g10 g10_d1 g10_d2 g11 g11_d1 g11_d2 t y_0_0 y_0_1 v_0_0 v_0_1 w_0_0 w_0_1 ∧
    Gen.gdg_general_22_rg_gp_0_0 g00 g00_d1 g00_d2 g01 g01_d1 g01_d2 g10 g10_d1 g10_d2 g11 g11_d1 g11_d2 t y_0_0 y_0_1 v_0_0 v_0_1 w_0_0 w_0_1 = Gen.gdg_general_22_gp_0_0 g00 g00_d1 g00_d2 g01 g01_d1 g01_d2 g10 g10_d1 g10_d2 g11 g11_d1 g11_d2 t y_0_0 y_0_1 v_0_0 v_0_1 w_0_0 w_0_1 ∧
    Gen.gdg_general_22_rg_gp_0_1 g00 g00_d1 g00_d2 g01 g01_d1 g01_d2 g10 g10_d1 g10_d2 g11 g11_d1 g11_d2 t y_0_0 y_0_1 v_0_0 v_0_1 w_0_0 w_0_1 = Gen.gdg_general_22_gp_0_1 g00 g00_d1 g00_d2 g01 g01_d1 g01_d2 g10 g10_d1 g10_d2 g11 g11_d1 g11_d2 t y_0_0 y_0_1 v_0_0 v_0_1 w_0_0 w_0_1 ∧
    Gen.gdg_general_22_rg_gdg_0_0 g00 g00_d1 g00_d2 g01 g01_d1 g01_d2 g10 g10_d1 g10_d2 g11 g11_d1 g11_d2 t y_0_0 y_0_1 v_0_0 v_0_1 w_0_0 w_0_1 = Gen.gdg_general_22_gdg_0_0 g00 g00_d1 g00_d2 g01 g01_d1 g01_d2 g10 g10_d1 g10_d2 g11 g11_d1 g11_d2 t y_0_0 y_0_1 v_0_0 v_0_1 w_0_0 w_0_1 ∧
    Gen.gdg_general_22_rg_gdg_0_1 g00 g00_d1 g00_d2 g01 g01_d1 g01_d2 g10 g10_d1 g10_d2 g11 g11_d1 g11_d2 t y_0_0 y_0_1 v_0_0 v_0_1 w_0_0 w_0_1 = Gen.gdg_general_22_gdg_0_1 g00 g00_d1 g00_d2 g01 g01_d1 g01_d2 g10 g10_d1 g10_d2 g11 g11_d1 g11_d2 t y_0_0 y_0_1 v_0_0 v_0_1 w_0_0 w_0_1 := by
  refine ⟨?_, ?_, ?_, ?_, ?_, ?_, ?_, ?_⟩ <;> simp only [Gen.gdg_general_22_gdg_0_0, Gen.gdg_general_22_gdg_0_1, Gen.gdg_general_22_gp_0_0, Gen.gdg_general_22_gp_0_1, Gen.gdg_general_22_ng_gdg_0_0, Gen.gdg_general_22_ng_gdg_0_1, Gen.gdg_general_22_ng_gp_0_0, Gen.gdg_general_22_ng_gp_0_1, Gen.gdg_general_22_rg_gdg_0_0, Gen.gdg_general_22_rg_gdg_0_1, Gen.gdg_general_22_rg_gp_0_0, Gen.gdg_general_22_rg_gp_0_1] <;> ring

theorem gdg_scalar_21_modes (g00 : K → K → K → K) (g00_d1 : K → K → K → K) (g00_d2 : K → K → K → K) (g10 : K → K → K → K) (g10_d1 : K → K → K → K) (g10_d2 : K → K → K → K) (t y_0_0 y_0_1 v_0_0 w_0_0 : K) :
    Gen.gdg_scalar_21_ng_gp_0_0 g00 g00_d1 g00_d2 g10 g10_d1 g10_d2 t y_0_0 y_0_1 v_0_0 w_0_0 = Gen.gdg_scalar_21_gp_0_0 g00 g00_d1 g00_d2 g10 g10_d1 g10_d2 t y_0_0 y_0_1 v_0_0 w_0_0 ∧
    Gen.gdg_scalar_21_ng_gp_0_1 g00 g00_d1 g00_d2 g10 g10_d1 g10_d2 t y_0_0 y_0_1 v_0_0 w_0_0 = Gen.gdg_scalar_21_gp_0_1 g00 g00_d1 g00_d2 g10 g10_d1 g10_d2 t y_0_0 y_0_1 v_0_0 w_0_0 ∧
    Gen.gdg_scalar_21_ng_gdg_0_0 g00 g00_d1 g00_d2 g10 g10_d1 g10_d2 t y_0_0 y_0_1 v_0_0 w_0_0 = Gen.gdg_scalar_21_gdg_0_0 g00 g00_d1 g00_d2 g10 g10_d1 g10_d2 t y_0_0 y_0_1 v_0_0 w_0_0 ∧
    Gen.gdg_scalar_21_ng_gdg_0_1 g00 g00_d1 g00_d2 g10 g10_d1 g10_d2 t y_0_0 y_0_1 v_0_0 w_0_0 = Gen.gdg_scalar_21_gdg_0_1 g00 g00_d1 g00_d2 g10 g10_d1 g10_d2 t y_0_0 y_0_1 v_0_0 w_0_0 ∧
    Gen.gdg_scalar_21_rg_gp_0_0 g00 g00_d1 g00_d2 g10 g10_d1 g10_d2 t y_0_0 y_0_1 v_0_0 w_0_0 = Gen.gdg_scalar_21_gp_0_0 g00 g00_d1 g00_d2 g10 g10_d1 g10_d2 t y_0_0 y_0_1 v_0_0 w_0_0 ∧
    Gen.gdg_scalar_21_rg_gp_0_1 g00 g00_d1 g00_d2 g10 g10_d1 g10_d2 t y_0_0 y_0_1 v_0_0 w_0_0 = Gen.gdg_scalar_21_gp_0_1 g00 g00_d1 g00_d2 g10 g10_d1 g10_d2 t y_0_0 y_0_1 v_0_0 w_0_0 ∧
    Gen.gdg_scalar_21_rg_gdg_0_0 g00 g00_d1 g00_d2 g10 g10_d1 g10_d2 t y_0_0 y_0_1 v_0_0 w_0_0 = Gen.gdg_scalar_21_gdg_0_0 g00 g00_d1 g00_d2 g10 g10_d1 g10_d2 t y_0_0 y_0_1 v_0_0 w_0_0 ∧
    Gen.gdg_scalar_21_rg_gdg_0_1 g00 g00_d1 g00_d2 g10 g10_d1 g10_d2 t y_0_0 y_0_1 v_0_0 w_0_0 = Gen.gdg_scalar_21_gdg_0_1 g00 g00_d1 g00_d2 g10 g10_d1 g10_d2 t y_0_0 y_0_1 v_0_0 w_0_0 := by
  refine ⟨?_, ?_, ?_, ?_, ?_, ?_, ?_, ?_⟩ <;> simp only [Gen.gdg_scalar_21_gdg_0_0, Gen.gdg_scalar_21_gdg_0_1, Gen.gdg_scalar_21_gp_0_0, Gen.gdg_scalar_21_gp_0_1, Gen.gdg_scalar_21_ng_gdg_0_0, Gen.gdg_scalar_21_ng_gdg_0_1, Gen.gdg_scalar_21_ng_gp_0_0, Gen.gdg_scalar_21_ng_gp_0_1, Gen.gdg_scalar_21_rg_gdg_0_0, Gen.gdg_scalar_21_rg_gdg_0_1, Gen.gdg_scalar_21_rg_gp_0_0, Gen.gdg_scalar_21_rg_gp_0_1] <;> ring

theorem gdg_diagonal_22_modes (g0 : K → K → K) (g0_d1 : K → K → K) (g1 : K → K → K) (g1_d1 : K → K → K) (t y_0_0 y_0_1 v_0_0 v_0_1 w_0_0 w_0_1 : K) :
    Gen.gdg_diagonal_22_ng_gp_0_0 g0 g0_d1 g1 g1_d1 t y_0_0 y_0_1 v_0_0 v_0_1 w_0_0 w_0_1 = Gen.gdg_diagonal_22_gp_0_0 g0 g0_d1 g1 g1_d1 t y_0_0 y_0_1 v_0_0 v_0_1 w_0_0 w_0_1 ∧
    Gen.gdg_diagonal_22_ng_gp_0_1 g0 g0_d1 g1 g1_d1 t y_0_0 y_0_1 v_0_0 v_0_1 w_0_0 w_0_1 = Gen.gdg_diagonal_22_gp_0_1 g0 g0_d1 g1 g1_d1 t y_0_0 y_0_1 v_0_0 v_0_1 w_0_0 w_0_1 ∧
    Gen.gdg_diagonal_22_ng_gdg_0_0 g0 g0_d1 g1 g1_d1 t y_0_0 y_0_1 v_0_0 v_0_1 w_0_0 w_0_1 = Gen.gdg_diagonal_22_gdg_0_0 g0 g0_d1 g1 g1_d1 t y_0_0 y_0_1 v_0_0 v_0_1 w_0_0 w_0_1 ∧
    Gen.gdg_diagonal_22_ng_gdg_0_1 g0 g0_d1 g1 g1_d1 t y_0_0 y_0_1 v_0_0 v_0_1 w_0_0 w_0_1 = Gen.gdg_diagonal_22_gdg_0_1 g0 g0_d1 g1 g1_d1 t y_0_0 y_0_1 v_0_0 v_0_1 w_0_0 w_0_1 ∧
    Gen.gdg_diagonal_22_rg_gp_0_0 g0 g0_d1 g1 g1_d1 t y_0_0 y_0_1 v_0_0 v_0_1 w_0_0 w_0_1 = Gen.gdg_diagonal_22_gp_0_0 g0 g0_d1 g1 g1_d1 t y_0_0 y_0_1 v_0_0 v_0_1 w_0_0 w_0_1 ∧
    Gen.gdg_diagonal_22_rg_gp_0_1 g0 g0_d1 g1 g1_d1 t y_0_0 y_0_1 v_0_0 v_0_1 w_0_0 w_0_1 = Gen.gdg_diagonal_22_gp_0_1 g0 g0_d1 g1 g1_d1 t y_0_0 y_0_1 v_0_0 v_0_1 w_0_0 w_0_1 ∧
    Gen.gdg_diagonal_22_rg_gdg_0_0 g0 g0_d1 g1 g1_d1 t y_0_0 y_0_1 v_0_0 v_0_1 w_0_0 w_0_1 = Gen.gdg_diagonal_22_gdg_0_0 g0 g0_d1 g1 g1_d1 t y_0_0 y_0_1 v_0_0 v_0_1 w_0_0 w_0_1 ∧
    Gen.gdg_diagonal_22_rg_gdg_0_1 g0 g0_d1 g1 g1_d1 t y_0_0 y_0_1 v_0_0 v_0_1 w_0_0 w_0_1 = Gen.gdg_diagonal_22_gdg_0_1 g0 g0_d1 g1 g1_d1 t y_0_0 y_0_1 v_0_0 v_0_1 w_0_0 w_0_1 := by
  refine ⟨?_, ?_, ?_, ?_, ?_, ?_, ?_, ?_⟩ <;> simp only [Gen.gdg_diagonal_22_gdg_0_0, Gen.gdg_diagonal_22_gdg_0_1, Gen.gdg_diagonal_22_gp_0_0, Gen.gdg_diagonal_22_gp_0_1, Gen.gdg_diagonal_22_ng_gdg_0_0, Gen.gdg_diagonal_22_ng_gdg_0_1, Gen.gdg_diagonal_22_ng_gp_0_0, Gen.gdg_diagonal_22_ng_gp_0_1, Gen.gdg_diagonal_22_rg_gdg_0_0, Gen.gdg_diagonal_22_rg_gdg_0_1, Gen.gdg_diagonal_22_rg_gp_0_0, Gen.gdg_diagonal_22_rg_gp_0_1] <;> ring

theorem gdg_diagonalfull_22_modes (g0 : K → K → K → K) (g0_d1 : K → K → K → K) (g0_d2 : K → K → K → K) (g1 : K → K → K → K) (g1_d1 : K → K → K → K) (g1_d2 : K → K → K → K) (t y_0_0 y_0_1 v_0_0 v_0_1 w_0_0 w_0_1 : K) :
    Gen.gdg_diagonalfull_22_ng_gp_0_0 g0 g0_d1 g0_d2 g1 g1_d1 g1_d2 t y_0_0 y_0_1 v_0_0 v_0_1 w_0_0 w_0_1 = Gen.gdg_diagonalfull_22_gp_0_0 g0 g0_d1 g0_d2 g1 g1_d1 g1_d2 t y_0_0 y_0_1 v_0_0 v_0_1 w_0_0 w_0_1 ∧
    Gen.gdg_diagonalfull_22_ng_gp_0_1 g0 g0_d1 g0_d2 g1 g1_d1 g1_d2 t y_0_0 y_0_1 v_0_0 v_0_1 w_0_0 w_0_1 = Gen.gdg_diagonalfull_22_gp_0_1 g0 g0_d1 g0_d2 g1 g1_d1 g1_d2 t y_0_0 y_0_1 v_0_0 v_0_1 w_0_0 w_0_1 ∧
    Gen.gdg_diagonalfull_22_ng_gdg_0_0 g0 g0_d1 g0_d2 g1 g1_d1 g1_d2 t y_0_0 y_0_1 v_0_0 v_0_1 w_0_0 w_0_1 = Gen.gdg_diagonalfull_22_gdg_0_0 g0 g0_d1 g0_d2 g1 g1_d1 g1_d2 t y_0_0 y_0_1 v_0_0 v_0_1 w_0_0 w_0_1 ∧
    Gen.gdg_diagonalfull_22_ng_gdg_0_1 g0 g0_d1 g0_d2 g1 g1_d1 g1_d2 t y_0_0 y_0_1 v_0_0 v_0_1 w_0_0 w_0_1 = Gen.gdg_diagonalfull_22_gdg_0_1 g0 g0_d1 g0_d2 g1 g1_d1 g1_d2 t y_0_0 y_0_1 v_0_0 v_0_1 w_0_0 w_0_1 ∧
    Gen.gdg_diagonalfull_22_rg_gp_0_0 g0 g0_d1 g0_d2 g1 g1_d1 g1_d2 t y_0_0 y_0_1 v_0_0 v_0_1 w_0_0 w_0_1 = Gen.gdg_diagonalfull_22_gp_0_0 g0 g0_d1 g0_d2 g1 g1_d1 g1_d2 t y_0_0 y_0_1 v_0_0 v_0_1 w_0_0 w_0_1 ∧
    Gen.gdg_diagonalfull_22_rg_gp_0_1 g0 g0_d1 g0_d2 g1 g1_d1 g1_d2 t y_0_0 y_0_1 v_0_0 v_0_1 w_0_0 w_0_1 = Gen.gdg_diagonalfull_22_gp_0_1 g0 g0_d1 g0_d2 g1 g1_d1 g1_d2 t y_0_0 y_0_1 v_0_0 v_0_1 w_0_0 w_0_1 ∧
    Gen.gdg_diagonalfull_22_rg_gdg_0_0 g0 g0_d1 g0_d2 g1 g1_d1 g1_d2 t y_0_0 y_0_1 v_0_0 v_0_1 w_0_0 w_0_1 = Gen.gdg_diagonalfull_22_gdg_0_0 g0 g0_d1 g0_d2 g1 g1_d1 g1_d2 t y_0_0 y_0_1 v_0_0 v_0_1 w_0_0 w_0_1 ∧
    Gen.gdg_diagonalfull_22_rg_gdg_0_1 g0 g0_d1 g0_d2 g1 g1_d1 g1_d2 t y_0_0 y_0_1 v_0_0 v_0_1 w_0_0 w_0_1 = Gen.gdg_diagonalfull_22_gdg_0_1 g0 g0_d1 g0_d2 g1 g1_d1 g1_d2 t y_0_0 y_0_1 v_0_0 v_0_1 w_0_0 w_0_1 := by
  refine ⟨?_, ?_, ?_, ?_, ?_, ?_, ?_, ?_⟩ <;> simp only [Gen.gdg_diagonalfull_22_gdg_0_0, Gen.gdg_diagonalfull_22_gdg_0_1, Gen.gdg_diagonalfull_22_gp_0_0, Gen.gdg_diagonalfull_22_gp_0_1, Gen.gdg_diagonalfull_22_ng_gdg_0_0, Gen.gdg_diagonalfull_22_ng_gdg_0_1, Gen.gdg_diagonalfull_22_ng_gp_0_0, Gen.gdg_diagonalfull_22_ng_gp_0_1, Gen.gdg_diagonalfull_22_rg_gdg_0_0, Gen.gdg_diagonalfull_22_rg_gdg_0_1, Gen.gdg_diagonalfull_22_rg_gp_0_0, Gen.gdg_diagonalfull_22_rg_gp_0_1] <;> ring

theorem gdg_additive_22_modes (g00 : K → K) (g01 : K → K) (g10 : K → K) (g11 : K → K) (t y_0_0 y_0_1 v_0_0 v_0_1 w_0_0 w_0_1 : K) :
    Gen.gdg_additive_22_ng_gp_0_0 g00 g01 g10 g11 t y_0_0 y_0_1 v_0_0 v_0_1 w_0_0 w_0_1 = Gen.gdg_additive_22_gp_0_0 g00 g01 g10 g11 t y_0_0 y_0_1 v_0_0 v_0_1 w_0_0 w_0_1 ∧
    Gen.gdg_additive_22_ng_gp_0_1 g00 g01 g10 g11 t y_0_0 y_0_1 v_0_0 v_0_1 w_0_0 w_0_1 = Gen.gdg_additive_22_gp_0_1 g00 g01 g10 g11 t y_0_0 y_0_1 v_0_0 v_0_1 w_0_0 w_0_1 ∧
    Gen.gdg_additive_22_ng_gdg g00 g01 g10 g11 t y_0_0 y_0_1 v_0_0 v_0_1 w_0_0 w_0_1 = Gen.gdg_additive_22_gdg g00 g01 g10 g11 t y_0_0 y_0_1 v_0_0 v_0_1 w_0_0 w_0_1 ∧
    Gen.gdg_additive_22_rg_gp_0_0 g00 g01 g10 g11 t y_0_0 y_0_1 v_0_0 v_0_1 w_0_0 w_0_1 = Gen.gdg_additive_22_gp_0_0 g00 g01 g10 g11 t y_0_0 y_0_1 v_0_0 v_0_1 w_0_0 w_0_1 ∧
    Gen.gdg_additive_22_rg_gp_0_1 g00 g01 g10 g11 t y_0_0 y_0_1 v_0_0 v_0_1 w_0_0 w_0_1 = Gen.gdg_additive_22_gp_0_1 g00 g01 g10 g11 t y_0_0 y_0_1 v_0_0 v_0_1 w_0_0 w_0_1 ∧
    Gen.gdg_additive_22_rg_gdg g00 g01 g10 g11 t y_0_0 y_0_1 v_0_0 v_0_1 w_0_0 w_0_1 = Gen.gdg_additive_22_gdg g00 g01 g10 g11 t y_0_0 y_0_1 v_0_0 v_0_1 w_0_0 w_0_1 := by
  refine ⟨?_, ?_, ?_, ?_, ?_, ?_⟩ <;> simp only [Gen.gdg_additive_22_gdg, Gen.gdg_additive_22_gp_0_0, Gen.gdg_additive_22_gp_0_1, Gen.gdg_additive_22_ng_gdg, Gen.gdg_additive_22_ng_gp_0_0, Gen.gdg_additive_22_ng_gp_0_1, Gen.gdg_additive_22_rg_gdg, Gen.gdg_additive_22_rg_gp_0_0, Gen.gdg_additive_22_rg_gp_0_1] <;> ring

theorem dgga_v1_general_22_modes (g00 : K → K → K → K) (g00_d1 : K → K → K → K) (g00_d2 : K → K → K → K) (g01 : K → K → K → K) (g01_d1 : K → K → K → K) (g01_d2 : K → K → K → K) (g10 : K → K → K → K) (g10_d1 : K → K → K → K) (g10_d2 : K → K → K → K) (g11 : K → K → K → K) (g11_d1 : K → K → K → K) (g11_d2 : K → K → K → K) (t y_0_0 y_0_1 A_0_0_0 A_0_0_1 A_0_1_0 A_0_1_1 : K) :
    Gen.dgga_v1_general_22_ng_r_0_0 g00 g00_d1 g00_d2 g01 g01_d1 g01_d2 g10 g10_d1 g10_d2 g11 g11_d1 g11_d2 t y_0_0 y_0_1 A_0_0_0 A_0_0_1 A_0_1_0 A_0_1_1 = Gen.dgga_v1_general_22_r_0_0 g00 g00_d1 g00_d2 g01 g01_d1 g01_d2 g10 g10_d1 g10_d2 g11 g11_d1 g11_d2 t y_0_0 y_0_1 A_0_0_0 A_0_0_1 A_0_1_0 A_0_1_1 ∧
    Gen.dgga_v1_general_22_ng_r_0_1 g00 g00_d1 g00_d2 g01 g01_d1 g01_d2 g10 g10_d1 g10_d2 g11 g11_d1 g11_d2 t y_0_0 y_0_1 A_0_0_0 A_0_0_1 A_0_1_0 A_0_1_1 = Gen.dgga_v1_general_22_r_0_1 g00 g00_d1 g00_d2 g01 g01_d1 g01_d2 g10 g10_d1 g10_d2 g11 g11_d1 g11_d2 t y_0_0 y_0_1 A_0_0_0 A_0_0_1 A_0_1_0 A_0_1_1 ∧
    Gen.dgga_v1_general_22_rg_r_0_0 g00 g00_d1 g00_d2 g01 g01_d1 g01_d2 g10 g10_d1 g10_d2 g11 g11_d1 g11_d2 t y_0_0 y_0_1 A_0_0_0 A_0_0_1 A_0_1_0 A_0_1_1 = Gen.dgga_v1_general_22_r_0_0 g00 g00_d1 g00_d2 g01 g01_d1 g01_d2 g10 g10_d1 g10_d2 g11 g11_d1 g11_d2 t y_0_0 y_0_1 A_0_0_0 A_0_0_1 A_0_1_0 A_0_1_1 ∧
    Gen.dgga_v1_general_22_rg_r_0_1 g00 g00_d1 g00_d2 g01 g01_d1 g01_d2 g10 g10_d1 g10_d2 g11 g11_d1 g11_d2 t y_0_0 y_0_1 A_0_0_0 A_0_0_1 A_0_1_0 A_0_1_1 = Gen.dgga_v1_general_22_r_0_1 g00 g00_d1 g00_d2 g01 g01_d1 g01_d2 g10 g10_d1 g10_d2 g11 g11_d1 g11_d2 t y_0_0 y_0_1 A_0_0_0 A_0_0_1 A_0_1_0 A_0_1_1 := by
  refine ⟨?_, ?_, ?_, ?_⟩ <;> simp only [Gen.dgga_v1_general_22_ng_r_0_0, Gen.dgga_v1_general_22_ng_r_0_1, Gen.dgga_v1_general_22_r_0_0, Gen.dgga_v1_general_22_r_0_1, Gen.dgga_v1_general_22_rg_r_0_0, Gen.dgga_v1_general_22_rg_r_0_1] <;> ring

theorem dgga_v1_general_21_modes (g00 : K → K → K → K) (g00_d1 : K → K → K → K) (g00_d2 : K → K → K → K) (g10 : K → K → K → K) (g10_d1 : K → K → K → K) (g10_d2 : K → K → K → K) (t y_0_0 y_0_1 A_0_0_0 : K) :
    Gen.dgga_v1_general_21_ng_r_0_0 g00 g00_d1 g00_d2 g10 g10_d1 g10_d2 t y_0_0 y_0_1 A_0_0_0 = Gen.dgga_v1_general_21_r_0_0 g00 g00_d1 g00_d2 g10 g10_d1 g10_d2 t y_0_0 y_0_1 A_0_0_0 ∧
    Gen.dgga_v1_general_21_ng_r_0_1 g00 g00_d1 g00_d2 g10 g10_d1 g10_d2 t y_0_0 y_0_1 A_0_0_0 = Gen.dgga_v1_general_21_r_0_1 g00 g00_d1 g00_d2 g10 g10_d1 g10_d2 t y_0_0 y_0_1 A_0_0_0 ∧
    Gen.dgga_v1_general_21_rg_r_0_0 g00 g00_d1 g00_d2 g10 g10_d1 g10_d2 t y_0_0 y_0_1 A_0_0_0 = Gen.dgga_v1_general_21_r_0_0 g00 g00_d1 g00_d2 g10 g10_d1 g10_d2 t y_0_0 y_0_1 A_0_0_0 ∧
    Gen.dgga_v1_general_21_rg_r_0_1 g00 g00_d1 g00_d2 g10 g10_d1 g10_d2 t y_0_0 y_0_1 A_0_0_0 = Gen.dgga_v1_general_21_r_0_1 g00 g00_d1 g00_d2 g10 g10_d1 g10_d2 t y_0_0 y_0_1 A_0_0_0 := by
  refine ⟨?_, ?_, ?_, ?_⟩ <;> simp only [Gen.dgga_v1_general_21_ng_r_0_0, Gen.dgga_v1_general_21_ng_r_0_1, Gen.dgga_v1_general_21_r_0_0, Gen.dgga_v1_general_21_r_0_1, Gen.dgga_v1_general_21_rg_r_0_0, Gen.dgga_v1_general_21_rg_r_0_1] <;> ring

theorem dgga_v2_general_22_modes (g00 : K → K → K → K) (g00_d1 : K → K → K → K) (g00_d2 : K → K → K → K) (g01 : K → K → K → K) (g01_d1 : K → K → K → K) (g01_d2 : K → K → K → K) (g10 : K → K → K → K) (g10_d1 : K → K → K → K) (g10_d2 : K → K → K → K) (g11 : K → K → K → K) (g11_d1 : K → K → K → K) (g11_d2 : K → K → K → K) (t y_0_0 y_0_1 A_0_0_0 A_0_0_1 A_0_1_0 A_0_1_1 : K) :
    Gen.dgga_v2_general_22_ng_r_0_0 g00 g00_d1 g00_d2 g01 g01_d1 g01_d2 g10 g10_d1 g10_d2 g11 g11_d1 g11_d2 t y_0_0 y_0_1 A_0_0_0 A_0_0_1 A_0_1_0 A_0_1_1 = Gen.dgga_v2_general_22_r_0_0 g00 g00_d1 g00_d2 g01 g01_d1 g01_d2 g10 g10_d1 g10_d2 g11 g11_d1 g11_d2 t y_0_0 y_0_1 A_0_0_0 A_0_0_1 A_0_1_0 A_0_1_1 ∧
    Gen.dgga_v2_general_22_ng_r_0_1 g00 g00_d1 g00_d2 g01 g01_d1 g01_d2 g10 g10_d1 g10_d2 g11 g11_d1 g11_d2 t y_0_0 y_0_1 A_0_0_0 A_0_0_1 A_0_1_0 A_0_1_1 = Gen.dgga_v2_general_22_r_0_1 g00 g00_d1 g00_d2 g01 g01_d1 g01_d2 g10 g10_d1 g10_d2 g11 g11_d1 g11_d2 t y_0_0 y_0_1 A_0_0_0 A_0_0_1 A_0_1_0 A_0_1_1 ∧
    Gen.dgga_v2_general_22_rg_r_0_0 g00 g00_d1 g00_d2 g01 g01_d1 g01_d2 g10 g10_d1 g10_d2 g11 g11_d1 g11_d2 t y_0_0 y_0_1 A_0_0_0 A_0_0_1 A_0_1_0 A_0_1_1 = Gen.dgga_v2_general_22_r_0_0 g00 g00_d1 g00_d2 g01 g01_d1 g01_d2 g10 g10_d1 g10_d2 g11 g11_d1 g11_d2 t y_0_0 y_0_1 A_0_0_0 A_0_0_1 A_0_1_0 A_0_1_1 ∧
    Gen.dgga_v2_general_22_rg_r_0_1 g00 g00_d1 g00_d2 g01 g01_d1 g01_d2 g10 g10_d1 g10_d2 g11 g11_d1 g11_d2 t y_0_0 y_0_1 A_0_0_0 A_0_0_1 A_0_1_0 A_0_1_1 = Gen.dgga_v2_general_22_r_0_1 g00 g00_d1 g00_d2 g01 g01_d1 g01_d2 g10 g10_d1 g10_d2 g11 g11_d1 g11_d2 t y_0_0 y_0_1 A_0_0_0 A_0_0_1 A_0_1_0 A_0_1_1 := by
  refine ⟨?_, ?_, ?_, ?_⟩ <;> simp only [Gen.dgga_v2_general_22_ng_r_0_0, Gen.dgga_v2_general_22_ng_r_0_1, Gen.dgga_v2_general_22_r_0_0, Gen.dgga_v2_general_22_r_0_1, Gen.dgga_v2_general_22_rg_r_0_0, Gen.dgga_v2_general_22_rg_r_0_1] <;> ring

theorem dgga_v2_general_21_modes (g00 : K → K → K → K) (g00_d1 : K → K → K → K) (g00_d2 : K → K → K → K) (g10 : K → K → K → K) (g10_d1 : K → K → K → K) (g10_d2 : K → K → K → K) (t y_0_0 y_0_1 A_0_0_0 : K) :
    Gen.dgga_v2_general_21_ng_r_0_0 g00 g00_d1 g00_d2 g10 g10_d1 g10_d2 t y_0_0 y_0_1 A_0_0_0 = Gen.dgga_v2_general_21_r_0_0 g00 g00_d1 g00_d2 g10 g10_d1 g10_d2 t y_0_0 y_0_1 A_0_0_0 ∧
    Gen.dgga_v2_general_21_ng_r_0_1 g00 g00_d1 g00_d2 g10 g10_d1 g10_d2 t y_0_0 y_0_1 A_0_0_0 = Gen.dgga_v2_general_21_r_0_1 g00 g00_d1 g00_d2 g10 g10_d1 g10_d2 t y_0_0 y_0_1 A_0_0_0 ∧
    Gen.dgga_v2_general_21_rg_r_0_0 g00 g00_d1 g00_d2 g10 g10_d1 g10_d2 t y_0_0 y_0_1 A_0_0_0 = Gen.dgga_v2_general_21_r_0_0 g00 g00_d1 g00_d2 g10 g10_d1 g10_d2 t y_0_0 y_0_1 A_0_0_0 ∧
    Gen.dgga_v2_general_21_rg_r_0_1 g00 g00_d1 g00_d2 g10 g10_d1 g10_d2 t y_0_0 y_0_1 A_0_0_0 = Gen.dgga_v2_general_21_r_0_1 g00 g00_d1 g00_d2 g10 g10_d1 g10_d2 t y_0_0 y_0_1 A_0_0_0 := by
  refine ⟨?_, ?_, ?_, ?_⟩ <;> simp only [Gen.dgga_v2_general_21_ng_r_0_0, Gen.dgga_v2_general_21_ng_r_0_1, Gen.dgga_v2_general_21_r_0_0, Gen.dgga_v2_general_21_r_0_1, Gen.dgga_v2_general_21_rg_r_0_0, Gen.dgga_v2_general_21_rg_r_0_1] <;> ring

/-- the two implementations of the Levy-area Jacobian term agree -/
theorem dgga_v1_general_22_eq_v2 (g00 : K → K → K → K) (g00_d1 : K → K → K → K) (g00_d2 : K → K → K → K) (g01 : K → K → K → K) (g01_d1 : K → K → K → K) (g01_d2 : K → K → K → K) (g10 : K → K → K → K) (g10_d1 : K → K → K → K) (g10_d2 : K → K → K → K) (g11 : K → K → K → K) (g11_d1 : K → K → K → K) (g11_d2 : K → K → K → K) (t y_0_0 y_0_1 A_0_0_0 A_0_0_1 A_0_1_0 A_0_1_1 : K) :
    Gen.dgga_v1_general_22_r_0_0 g00 g00_d1 g00_d2 g01 g01_d1 g01_d2 g10 g10_d1 g10_d2 g11 g11_d1 g11_d2 t y_0_0 y_0_1 A_0_0_0 A_0_0_1 A_0_1_0 A_0_1_1 = Gen.dgga_v2_general_22_r_0_0 g00 g00_d1 g00_d2 g01 g01_d1 g01_d2 g10 g10_d1 g10_d2 g11 g11_d1 g11_d2 t y_0_0 y_0_1 A_0_0_0 A_0_0_1 A_0_1_0 A_0_1_1 ∧
    Gen.dgga_v1_general_22_r_0_1 g00 g00_d1 g00_d2 g01 g01_d1 g01_d2 g10 g10_d1 g10_d2 g11 g11_d1 g11_d2 t y_0_0 y_0_1 A_0_0_0 A_0_0_1 A_0_1_0 A_0_1_1 = Gen.dgga_v2_general_22_r_0_1 g00 g00_d1 g00_d2 g01 g01_d1 g01_d2 g10 g10_d1 g10_d2 g11 g11_d1 g11_d2 t y_0_0 y_0_1 A_0_0_0 A_0_0_1 A_0_1_0 A_0_1_1 := by
  refine ⟨?_, ?_⟩ <;> simp only [Gen.dgga_v1_general_22_r_0_0, Gen.dgga_v1_general_22_r_0_1, Gen.dgga_v2_general_22_r_0_0, Gen.dgga_v2_general_22_r_0_1] <;> ring

/-- the two implementations of the Levy-area Jacobian term agree -/
theorem dgga_v1_general_21_eq_v2 (g00 : K → K → K → K) (g00_d1 : K → K → K → K) (g00_d2 : K → K → K → K) (g10 : K → K → K → K) (g10_d1 : K → K → K → K) (g10_d2 : K → K → K → K) (t y_0_0 y_0_1 A_0_0_0 : K) :
    Gen.dgga_v1_general_21_r_0_0 g00 g00_d1 g00_d2 g10 g10_d1 g10_d2 t y_0_0 y_0_1 A_0_0_0 = Gen.dgga_v2_general_21_r_0_0 g00 g00_d1 g00_d2 g10 g10_d1 g10_d2 t y_0_0 y_0_1 A_0_0_0 ∧
    Gen.dgga_v1_general_21_r_0_1 g00 g00_d1 g00_d2 g10 g10_d1 g10_d2 t y_0_0 y_0_1 A_0_0_0 = Gen.dgga_v2_general_21_r_0_1 g00 g00_d1 g00_d2 g10 g10_d1 g10_d2 t y_0_0 y_0_1 A_0_0_0 := by
  refine ⟨?_, ?_⟩ <;> simp only [Gen.dgga_v1_general_21_r_0_0, Gen.dgga_v1_general_21_r_0_1, Gen.dgga_v2_general_21_r_0_0, Gen.dgga_v2_general_21_r_0_1] <;> ring

/-- the two implementations of the Levy-area Jacobian term agree -/
theorem dgga_v1_general_22_ng_eq_v2 (g00 : K → K → K → K) (g00_d1 : K → K → K → K) (g00_d2 : K → K → K → K) (g01 : K → K → K → K) (g01_d1 : K → K → K → K) (g01_d2 : K → K → K → K) (g10 : K → K → K → K) (g10_d1 : K → K → K → K) (g10_d2 : K → K → K → K) (g11 : K → K → K → K) (g11_d1 : K → K → K → K) (g11_d2 : K → K → K → K) (t y_0_0 y_0_1 A_0_0_0 A_0_0_1 A_0_1_0 A_0_1_1 : K) :
    Gen.dgga_v1_general_22_ng_r_0_0 g00 g00_d1 g00_d2 g01 g01_d1 g01_d2 g10 g10_d1 g10_d2 g11 g11_d1 g11_d2 t y_0_0 y_0_1 A_0_0_0 A_0_0_1 A_0_1_0 A_0_1_1 = Gen.dgga_v2_general_22_ng_r_0_0 g00 g00_d1 g00_d2 g01 g01_d1 g01_d2 g10 g10_d1 g10_d2 g11 g11_d1 g11_d2 t y_0_0 y_0_1 A_0_0_0 A_0_0_1 A_0_1_0 A_0_1_1 ∧
    Gen.dgga_v1_general_22_ng_r_0_1 g00 g00_d1 g00_d2 g01 g01_d1 g01_d2 g10 g10_d1 g10_d2 g11 g11_d1 g11_d2 t y_0_0 y_0_1 A_0_0_0 A_0_0_1 A_0_1_0 A_0_1_1 = Gen.dgga_v2_general_22_ng_r_0_1 g00 g00_d1 g00_d2 g01 g01_d1 g01_d2 g10 g10_d1 g10_d2 g11 g11_d1 g11_d2 t y_0_0 y_0_1 A_0_0_0 A_0_0_1 A_0_1_0 A_0_1_1 := by
  refine ⟨?_, ?_⟩ <;> simp only [Gen.dgga_v1_general_22_ng_r_0_0, Gen.dgga_v1_general_22_ng_r_0_1, Gen.dgga_v2_general_22_ng_r_0_0, Gen.dgga_v2_general_22_ng_r_0_1] <;> ring

/-- the two implementations of the Levy-area Jacobian term agree -/
theorem dgga_v1_general_21_ng_eq_v2 (g00 : K → K → K → K) (g00_d1 : K → K → K → K) (g00_d2 : K → K → K → K) (g10 : K → K → K → K) (g10_d1 : K → K → K → K) (g10_d2 : K → K → K → K) (t y_0_0 y_0_1 A_0_0_0 : K) :
    Gen.dgga_v1_general_21_ng_r_0_0 g00 g00_d1 g00_d2 g10 g10_d1 g10_d2 t y_0_0 y_0_1 A_0_0_0 = Gen.dgga_v2_general_21_ng_r_0_0 g00 g00_d1 g00_d2 g10 g10_d1 g10_d2 t y_0_0 y_0_1 A_0_0_0 ∧
    Gen.dgga_v1_general_21_ng_r_0_1 g00 g00_d1 g00_d2 g10 g10_d1 g10_d2 t y_0_0 y_0_1 A_0_0_0 = Gen.dgga_v2_general_21_ng_r_0_1 g00 g00_d1 g00_d2 g10 g10_d1 g10_d2 t y_0_0 y_0_1 A_0_0_0 := by
  refine ⟨?_, ?_⟩ <;> simp only [Gen.dgga_v1_general_21_ng_r_0_0, Gen.dgga_v1_general_21_ng_r_0_1, Gen.dgga_v2_general_21_ng_r_0_0, Gen.dgga_v2_general_21_ng_r_0_1] <;> ring

/-- the two implementations of the Levy-area Jacobian term agree -/
theorem dgga_v1_general_22_rg_eq_v2 (g00 : K → K → K → K) (g00_d1 : K → K → K → K) (g00_d2 : K → K → K → K) (g01 : K → K → K → K) (g01_d1 : K → K → K → K) (g01_d2 : K → K → K → K) (g10 : K → K → K → K) (g10_d1 : K → K → K → K) (g10_d2 : K → K → K → K) (g11 : K → K → K → K) (g11_d1 : K → K → K → K) (g11_d2 : K → K → K → K) (t y_0_0 y_0_1 A_0_0_0 A_0_0_1 A_0_1_0 A_0_1_1 : K) :
    Gen.dgga_v1_general_22_rg_r_0_0 g00 g00_d1 g00_d2 g01 g01_d1 g01_d2 g10 g10_d1 g10_d2 g11 g11_d1 g11_d2 t y_0_0 y_0_1 A_0_0_0 A_0_0_1 A_0_1_0 A_0_1_1 = Gen.dgga_v2_general_22_rg_r_0_0 g00 g00_d1 g00_d2 g01 g01_d1 g01_d2 g10 g10_d1 g10_d2 g11 g11_d1 g11_d2 t y_0_0 y_0_1 A_0_0_0 A_0_0_1 A_0_1_0 A_0_1_1 ∧
    Gen.dgga_v1_general_22_rg_r_0_1 g00 g00_d1 g00_d2 g01 g01_d1 g01_d2 g10 g10_d1 g10_d2 g11 g11_d1 g11_d2 t y_0_0 y_0_1 A_0_0_0 A_0_0_1 A_0_1_0 A_0_1_1 = Gen.dgga_v2_general_22_rg_r_0_1 g00 g00_d1 g00_d2 g01 g01_d1 g01_d2 g10 g10_d1 g10_d2 g11 g11_d1 g11_d2 t y_0_0 y_0_1 A_0_0_0 A_0_0_1 A_0_1_0 A_0_1_1 := by
  refine ⟨?_, ?_⟩ <;> simp only [Gen.dgga_v1_general_22_rg_r_0_0, Gen.dgga_v1_general_22_rg_r_0_1, Gen.dgga_v2_general_22_rg_r_0_0, Gen.dgga_v2_general_22_rg_r_0_1] <;> ring

/-- the two implementations of the Levy-area Jacobian term agree -/
theorem dgga_v1_general_21_rg_eq_v2 (g00 : K → K → K → K) (g00_d1 : K → K → K → K) (g00_d2 : K → K → K → K) (g10 : K → K → K → K) (g10_d1 : K → K → K → K) (g10_d2 : K → K → K → K) (t y_0_0 y_0_1 A_0_0_0 : K) :
    Gen.dgga_v1_general_21_rg_r_0_0 g00 g00_d1 g00_d2 g10 g10_d1 g10_d2 t y_0_0 y_0_1 A_0_0_0 = Gen.dgga_v2_general_21_rg_r_0_0 g00 g00_d1 g00_d2 g10 g10_d1 g10_d2 t y_0_0 y_0_1 A_0_0_0 ∧
    Gen.dgga_v1_general_21_rg_r_0_1 g00 g00_d1 g00_d2 g10 g10_d1 g10_d2 t y_0_0 y_0_1 A_0_0_0 = Gen.dgga_v2_general_21_rg_r_0_1 g00 g00_d1 g00_d2 g10 g10_d1 g10_d2 t y_0_0 y_0_1 A_0_0_0 := by
  refine ⟨?_, ?_⟩ <;> simp only [Gen.dgga_v1_general_21_rg_r_0_0, Gen.dgga_v1_general_21_rg_r_0_1, Gen.dgga_v2_general_21_rg_r_0_0, Gen.dgga_v2_general_21_rg_r_0_1] <;> ring

/-- the two implementations of the Levy-area Jacobian term agree -/
theorem dgga_v1_general_22_b2_eq_v2 (g00 : K → K → K → K) (g00_d1 : K → K → K → K) (g00_d2 : K → K → K → K) (g01 : K → K → K → K) (g01_d1 : K → K → K → K) (g01_d2 : K → K → K → K) (g10 : K → K → K → K) (g10_d1 : K → K → K → K) (g10_d2 : K → K → K → K) (g11 : K → K → K → K) (g11_d1 : K → K → K → K) (g11_d2 : K → K → K → K) (t y_0_0 y_0_1 y_1_0 y_1_1 A_0_0_0 A_0_0_1 A_0_1_0 A_0_1_1 A_1_0_0 A_1_0_1 A_1_1_0 A_1_1_1 : K) :
    Gen.dgga_v1_general_22_b2_r_0_0 g00 g00_d1 g00_d2 g01 g01_d1 g01_d2 g10 g10_d1 g10_d2 g11 g11_d1 g11_d2 t y_0_0 y_0_1 y_1_0 y_1_1 A_0_0_0 A_0_0_1 A_0_1_0 A_0_1_1 A_1_0_0 A_1_0_1 A_1_1_0 A_1_1_1 = Gen.dgga_v2_general_22_b2_r_0_0 g00 g00_d1 g00_d2 g01 g01_d1 g01_d2 g10 g10_d1 g10_d2 g11 g11_d1 g11_d2 t y_0_0 y_0_1 y_1_0 y_1_1 A_0_0_0 A_0_0_1 A_0_1_0 A_0_1_1 A_1_0_0 A_1_0_1 A_1_1_0 A_1_1_1 ∧
    Gen.dgga_v1_general_22_b2_r_0_1 g00 g00_d1 g00_d2 g01 g01_d1 g01_d2 g10 g10_d1 g10_d2 g11 g11_d1 g11_d2 t y_0_0 y_0_1 y_1_0 y_1_1 A_0_0_0 A_0_0_1 A_0_1_0 A_0_1_1 A_1_0_0 A_1_0_1 A_1_1_0 A_1_1_1 = Gen.dgga_v2_general_22_b2_r_0_1 g00 g00_d1 g00_d2 g01 g01_d1 g01_d2 g10 g10_d1 g10_d2 g11 g11_d1 g11_d2 t y_0_0 y_0_1 y_1_0 y_1_1 A_0_0_0 A_0_0_1 A_0_1_0 A_0_1_1 A_1_0_0 A_1_0_1 A_1_1_0 A_1_1_1 ∧
    Gen.dgga_v1_general_22_b2_r_1_0 g00 g00_d1 g00_d2 g01 g01_d1 g01_d2 g10 g10_d1 g10_d2 g11 g11_d1 g11_d2 t y_0_0 y_0_1 y_1_0 y_1_1 A_0_0_0 A_0_0_1 A_0_1_0 A_0_1_1 A_1_0_0 A_1_0_1 A_1_1_0 A_1_1_1 = Gen.dgga_v2_general_22_b2_r_1_0 g00 g00_d1 g00_d2 g01 g01_d1 g01_d2 g10 g10_d1 g10_d2 g11 g11_d1 g11_d2 t y_0_0 y_0_1 y_1_0 y_1_1 A_0_0_0 A_0_0_1 A_0_1_0 A_0_1_1 A_1_0_0 A_1_0_1 A_1_1_0 A_1_1_1 ∧
    Gen.dgga_v1_general_22_b2_r_1_1 g00 g00_d1 g00_d2 g01 g01_d1 g01_d2 g10 g10_d1 g10_d2 g11 g11_d1 g11_d2 t y_0_0 y_0_1 y_1_0 y_1_1 A_0_0_0 A_0_0_1 A_0_1_0 A_0_1_1 A_1_0_0 A_1_0_1 A_1_1_0 A_1_1_1 = Gen.dgga_v2_general_22_b2_r_1_1 g00 g00_d1 g00_d2 g01 g01_d1 g01_d2 g10 g10_d1 g10_d2 g11 g11_d1 g11_d2 t y_0_0 y_0_1 y_1_0 y_1_1 A_0_0_0 A_0_0_1 A_0_1_0 A_0_1_1 A_1_0_0 A_1_0_1 A_1_1_0 A_1_1_1 := by
  refine ⟨?_, ?_, ?_, ?_⟩ <;> simp only [Gen.dgga_v1_general_22_b2_r_0_0, Gen.dgga_v1_general_22_b2_r_0_1, Gen.dgga_v1_general_22_b2_r_1_0, Gen.dgga_v1_general_22_b2_r_1_1, Gen.dgga_v2_general_22_b2_r_0_0, Gen.dgga_v2_general_22_b2_r_0_1, Gen.dgga_v2_general_22_b2_r_1_0, Gen.dgga_v2_general_22_b2_r_1_1] <;> ring

end C16Ops
