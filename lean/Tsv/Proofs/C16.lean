/-
C16, part A — equivalent SDE interfaces give the same solver step, bit for bit.

Every program `<step>__<variant>` (group Iface) is ONE step of a real solver class on the real `ForwardSDE`, traced with a
fake user SDE that exposes only a subset of methods describing the SAME functions f, g:
  fandg (f_and_g only) · f_g_gprod (f, g, g_prod) · f_gprod (f, g_prod) · fgprod (f_and_g_prod only) ·
  fandg_gprod (f_and_g, g_prod) · fandg_fgprod (f_and_g, f_and_g_prod) ·
  renamed (foo, bar through RenameMethodsSDE, names = {drift: foo, diffusion: bar}) ·
  renamed_all (foo, bar, baz, g_prod, qux with all four renameable names)
where the user's g_prod / f_and_g_prod multiply in the same operation order as the library (g * v, resp. bmm(g, v[..., None])).
`<step>` (group Steps) is the same step with the plain (f, g) interface.

Statement per cell that integrates: every output of the variant step IS the output of the baseline step
  `_float` : as Float programs (`GenF.*`: the float64 operations in the order the code performs them) — proved by `rfl`,
             i.e. the two traces are the same expression tree: no commutativity, no re-association, bit-identical results;
  `_field` : the same over an arbitrary ordered field (`Gen.*`), also by `rfl`.
No cell needs `ring`: there is no `_field`-only cell.  Since one step maps equal states to equal states, equal trajectories
follow by induction over the steps (the loop does not look at the SDE interface).
The cells whose step raises instead (a needed method is neither supplied nor derivable) are not here: their outcome is
regenerated into Gen/IfaceTables.lean and compared with the model in Proofs/C16Model.lean.
-/
import Tsv.Gen.Steps
import Tsv.GenF.Steps
import Tsv.Gen.Iface
import Tsv.GenF.Iface

namespace C16
set_option linter.unusedVariables false
set_option linter.style.nameCheck false

theorem euler_i_diagonal_11__fandg_float (f : Float → Float → Float) (g : Float → Float → Float) (t0 t1 y0_0_0 dW_0_0 : Float) :
    GenF.euler_i_diagonal_11__fandg_y1_0_0 f g t0 t1 y0_0_0 dW_0_0 = GenF.euler_i_diagonal_11_y1_0_0 f g t0 t1 y0_0_0 dW_0_0 :=
  rfl

theorem euler_i_diagonal_11__fandg_field {K : Type} [Field K] [LinearOrder K] (f : K → K → K) (g : K → K → K) (t0 t1 y0_0_0 dW_0_0 : K) :
    Gen.euler_i_diagonal_11__fandg_y1_0_0 f g t0 t1 y0_0_0 dW_0_0 = Gen.euler_i_diagonal_11_y1_0_0 f g t0 t1 y0_0_0 dW_0_0 :=
  rfl

theorem euler_i_diagonal_11__f_g_gprod_float (f : Float → Float → Float) (g : Float → Float → Float) (t0 t1 y0_0_0 dW_0_0 : Float) :
    GenF.euler_i_diagonal_11__f_g_gprod_y1_0_0 f g t0 t1 y0_0_0 dW_0_0 = GenF.euler_i_diagonal_11_y1_0_0 f g t0 t1 y0_0_0 dW_0_0 :=
  rfl

theorem euler_i_diagonal_11__f_g_gprod_field {K : Type} [Field K] [LinearOrder K] (f : K → K → K) (g : K → K → K) (t0 t1 y0_0_0 dW_0_0 : K) :
    Gen.euler_i_diagonal_11__f_g_gprod_y1_0_0 f g t0 t1 y0_0_0 dW_0_0 = Gen.euler_i_diagonal_11_y1_0_0 f g t0 t1 y0_0_0 dW_0_0 :=
  rfl

theorem euler_i_diagonal_11__f_gprod_float (f : Float → Float → Float) (g : Float → Float → Float) (t0 t1 y0_0_0 dW_0_0 : Float) :
    GenF.euler_i_diagonal_11__f_gprod_y1_0_0 f g t0 t1 y0_0_0 dW_0_0 = GenF.euler_i_diagonal_11_y1_0_0 f g t0 t1 y0_0_0 dW_0_0 :=
  rfl

theorem euler_i_diagonal_11__f_gprod_field {K : Type} [Field K] [LinearOrder K] (f : K → K → K) (g : K → K → K) (t0 t1 y0_0_0 dW_0_0 : K) :
    Gen.euler_i_diagonal_11__f_gprod_y1_0_0 f g t0 t1 y0_0_0 dW_0_0 = Gen.euler_i_diagonal_11_y1_0_0 f g t0 t1 y0_0_0 dW_0_0 :=
  rfl

theorem euler_i_diagonal_11__fgprod_float (f : Float → Float → Float) (g : Float → Float → Float) (t0 t1 y0_0_0 dW_0_0 : Float) :
    GenF.euler_i_diagonal_11__fgprod_y1_0_0 f g t0 t1 y0_0_0 dW_0_0 = GenF.euler_i_diagonal_11_y1_0_0 f g t0 t1 y0_0_0 dW_0_0 :=
  rfl

theorem euler_i_diagonal_11__fgprod_field {K : Type} [Field K] [LinearOrder K] (f : K → K → K) (g : K → K → K) (t0 t1 y0_0_0 dW_0_0 : K) :
    Gen.euler_i_diagonal_11__fgprod_y1_0_0 f g t0 t1 y0_0_0 dW_0_0 = Gen.euler_i_diagonal_11_y1_0_0 f g t0 t1 y0_0_0 dW_0_0 :=
  rfl

theorem euler_i_diagonal_11__fandg_gprod_float (f : Float → Float → Float) (g : Float → Float → Float) (t0 t1 y0_0_0 dW_0_0 : Float) :
    GenF.euler_i_diagonal_11__fandg_gprod_y1_0_0 f g t0 t1 y0_0_0 dW_0_0 = GenF.euler_i_diagonal_11_y1_0_0 f g t0 t1 y0_0_0 dW_0_0 :=
  rfl

theorem euler_i_diagonal_11__fandg_gprod_field {K : Type} [Field K] [LinearOrder K] (f : K → K → K) (g : K → K → K) (t0 t1 y0_0_0 dW_0_0 : K) :
    Gen.euler_i_diagonal_11__fandg_gprod_y1_0_0 f g t0 t1 y0_0_0 dW_0_0 = Gen.euler_i_diagonal_11_y1_0_0 f g t0 t1 y0_0_0 dW_0_0 :=
  rfl

theorem euler_i_diagonal_11__fandg_fgprod_float (f : Float → Float → Float) (g : Float → Float → Float) (t0 t1 y0_0_0 dW_0_0 : Float) :
    GenF.euler_i_diagonal_11__fandg_fgprod_y1_0_0 f g t0 t1 y0_0_0 dW_0_0 = GenF.euler_i_diagonal_11_y1_0_0 f g t0 t1 y0_0_0 dW_0_0 :=
  rfl

theorem euler_i_diagonal_11__fandg_fgprod_field {K : Type} [Field K] [LinearOrder K] (f : K → K → K) (g : K → K → K) (t0 t1 y0_0_0 dW_0_0 : K) :
    Gen.euler_i_diagonal_11__fandg_fgprod_y1_0_0 f g t0 t1 y0_0_0 dW_0_0 = Gen.euler_i_diagonal_11_y1_0_0 f g t0 t1 y0_0_0 dW_0_0 :=
  rfl

theorem euler_i_diagonal_11__renamed_float (f : Float → Float → Float) (g : Float → Float → Float) (t0 t1 y0_0_0 dW_0_0 : Float) :
    GenF.euler_i_diagonal_11__renamed_y1_0_0 f g t0 t1 y0_0_0 dW_0_0 = GenF.euler_i_diagonal_11_y1_0_0 f g t0 t1 y0_0_0 dW_0_0 :=
  rfl

theorem euler_i_diagonal_11__renamed_field {K : Type} [Field K] [LinearOrder K] (f : K → K → K) (g : K → K → K) (t0 t1 y0_0_0 dW_0_0 : K) :
    Gen.euler_i_diagonal_11__renamed_y1_0_0 f g t0 t1 y0_0_0 dW_0_0 = Gen.euler_i_diagonal_11_y1_0_0 f g t0 t1 y0_0_0 dW_0_0 :=
  rfl

theorem euler_i_diagonal_11__renamed_all_float (f : Float → Float → Float) (g : Float → Float → Float) (t0 t1 y0_0_0 dW_0_0 : Float) :
    GenF.euler_i_diagonal_11__renamed_all_y1_0_0 f g t0 t1 y0_0_0 dW_0_0 = GenF.euler_i_diagonal_11_y1_0_0 f g t0 t1 y0_0_0 dW_0_0 :=
  rfl

theorem euler_i_diagonal_11__renamed_all_field {K : Type} [Field K] [LinearOrder K] (f : K → K → K) (g : K → K → K) (t0 t1 y0_0_0 dW_0_0 : K) :
    Gen.euler_i_diagonal_11__renamed_all_y1_0_0 f g t0 t1 y0_0_0 dW_0_0 = Gen.euler_i_diagonal_11_y1_0_0 f g t0 t1 y0_0_0 dW_0_0 :=
  rfl

theorem euler_i_additive_11__fandg_float (f : Float → Float → Float) (g : Float → Float) (t0 t1 y0_0_0 dW_0_0 : Float) :
    GenF.euler_i_additive_11__fandg_y1_0_0 f g t0 t1 y0_0_0 dW_0_0 = GenF.euler_i_additive_11_y1_0_0 f g t0 t1 y0_0_0 dW_0_0 :=
  rfl

theorem euler_i_additive_11__fandg_field {K : Type} [Field K] [LinearOrder K] (f : K → K → K) (g : K → K) (t0 t1 y0_0_0 dW_0_0 : K) :
    Gen.euler_i_additive_11__fandg_y1_0_0 f g t0 t1 y0_0_0 dW_0_0 = Gen.euler_i_additive_11_y1_0_0 f g t0 t1 y0_0_0 dW_0_0 :=
  rfl

theorem euler_i_additive_11__f_g_gprod_float (f : Float → Float → Float) (g : Float → Float) (t0 t1 y0_0_0 dW_0_0 : Float) :
    GenF.euler_i_additive_11__f_g_gprod_y1_0_0 f g t0 t1 y0_0_0 dW_0_0 = GenF.euler_i_additive_11_y1_0_0 f g t0 t1 y0_0_0 dW_0_0 :=
  rfl

theorem euler_i_additive_11__f_g_gprod_field {K : Type} [Field K] [LinearOrder K] (f : K → K → K) (g : K → K) (t0 t1 y0_0_0 dW_0_0 : K) :
    Gen.euler_i_additive_11__f_g_gprod_y1_0_0 f g t0 t1 y0_0_0 dW_0_0 = Gen.euler_i_additive_11_y1_0_0 f g t0 t1 y0_0_0 dW_0_0 :=
  rfl

theorem euler_i_additive_11__f_gprod_float (f : Float → Float → Float) (g : Float → Float) (t0 t1 y0_0_0 dW_0_0 : Float) :
    GenF.euler_i_additive_11__f_gprod_y1_0_0 f g t0 t1 y0_0_0 dW_0_0 = GenF.euler_i_additive_11_y1_0_0 f g t0 t1 y0_0_0 dW_0_0 :=
  rfl

theorem euler_i_additive_11__f_gprod_field {K : Type} [Field K] [LinearOrder K] (f : K → K → K) (g : K → K) (t0 t1 y0_0_0 dW_0_0 : K) :
    Gen.euler_i_additive_11__f_gprod_y1_0_0 f g t0 t1 y0_0_0 dW_0_0 = Gen.euler_i_additive_11_y1_0_0 f g t0 t1 y0_0_0 dW_0_0 :=
  rfl

theorem euler_i_additive_11__fgprod_float (f : Float → Float → Float) (g : Float → Float) (t0 t1 y0_0_0 dW_0_0 : Float) :
    GenF.euler_i_additive_11__fgprod_y1_0_0 f g t0 t1 y0_0_0 dW_0_0 = GenF.euler_i_additive_11_y1_0_0 f g t0 t1 y0_0_0 dW_0_0 :=
  rfl

theorem euler_i_additive_11__fgprod_field {K : Type} [Field K] [LinearOrder K] (f : K → K → K) (g : K → K) (t0 t1 y0_0_0 dW_0_0 : K) :
    Gen.euler_i_additive_11__fgprod_y1_0_0 f g t0 t1 y0_0_0 dW_0_0 = Gen.euler_i_additive_11_y1_0_0 f g t0 t1 y0_0_0 dW_0_0 :=
  rfl

theorem euler_i_additive_11__fandg_gprod_float (f : Float → Float → Float) (g : Float → Float) (t0 t1 y0_0_0 dW_0_0 : Float) :
    GenF.euler_i_additive_11__fandg_gprod_y1_0_0 f g t0 t1 y0_0_0 dW_0_0 = GenF.euler_i_additive_11_y1_0_0 f g t0 t1 y0_0_0 dW_0_0 :=
  rfl

theorem euler_i_additive_11__fandg_gprod_field {K : Type} [Field K] [LinearOrder K] (f : K → K → K) (g : K → K) (t0 t1 y0_0_0 dW_0_0 : K) :
    Gen.euler_i_additive_11__fandg_gprod_y1_0_0 f g t0 t1 y0_0_0 dW_0_0 = Gen.euler_i_additive_11_y1_0_0 f g t0 t1 y0_0_0 dW_0_0 :=
  rfl

theorem euler_i_additive_11__fandg_fgprod_float (f : Float → Float → Float) (g : Float → Float) (t0 t1 y0_0_0 dW_0_0 : Float) :
    GenF.euler_i_additive_11__fandg_fgprod_y1_0_0 f g t0 t1 y0_0_0 dW_0_0 = GenF.euler_i_additive_11_y1_0_0 f g t0 t1 y0_0_0 dW_0_0 :=
  rfl

theorem euler_i_additive_11__fandg_fgprod_field {K : Type} [Field K] [LinearOrder K] (f : K → K → K) (g : K → K) (t0 t1 y0_0_0 dW_0_0 : K) :
    Gen.euler_i_additive_11__fandg_fgprod_y1_0_0 f g t0 t1 y0_0_0 dW_0_0 = Gen.euler_i_additive_11_y1_0_0 f g t0 t1 y0_0_0 dW_0_0 :=
  rfl

theorem euler_i_additive_11__renamed_float (f : Float → Float → Float) (g : Float → Float) (t0 t1 y0_0_0 dW_0_0 : Float) :
    GenF.euler_i_additive_11__renamed_y1_0_0 f g t0 t1 y0_0_0 dW_0_0 = GenF.euler_i_additive_11_y1_0_0 f g t0 t1 y0_0_0 dW_0_0 :=
  rfl

theorem euler_i_additive_11__renamed_field {K : Type} [Field K] [LinearOrder K] (f : K → K → K) (g : K → K) (t0 t1 y0_0_0 dW_0_0 : K) :
    Gen.euler_i_additive_11__renamed_y1_0_0 f g t0 t1 y0_0_0 dW_0_0 = Gen.euler_i_additive_11_y1_0_0 f g t0 t1 y0_0_0 dW_0_0 :=
  rfl

theorem euler_i_additive_11__renamed_all_float (f : Float → Float → Float) (g : Float → Float) (t0 t1 y0_0_0 dW_0_0 : Float) :
    GenF.euler_i_additive_11__renamed_all_y1_0_0 f g t0 t1 y0_0_0 dW_0_0 = GenF.euler_i_additive_11_y1_0_0 f g t0 t1 y0_0_0 dW_0_0 :=
  rfl

theorem euler_i_additive_11__renamed_all_field {K : Type} [Field K] [LinearOrder K] (f : K → K → K) (g : K → K) (t0 t1 y0_0_0 dW_0_0 : K) :
    Gen.euler_i_additive_11__renamed_all_y1_0_0 f g t0 t1 y0_0_0 dW_0_0 = Gen.euler_i_additive_11_y1_0_0 f g t0 t1 y0_0_0 dW_0_0 :=
  rfl

theorem euler_i_scalar_11__fandg_float (f : Float → Float → Float) (g : Float → Float → Float) (t0 t1 y0_0_0 dW_0_0 : Float) :
    GenF.euler_i_scalar_11__fandg_y1_0_0 f g t0 t1 y0_0_0 dW_0_0 = GenF.euler_i_scalar_11_y1_0_0 f g t0 t1 y0_0_0 dW_0_0 :=
  rfl

theorem euler_i_scalar_11__fandg_field {K : Type} [Field K] [LinearOrder K] (f : K → K → K) (g : K → K → K) (t0 t1 y0_0_0 dW_0_0 : K) :
    Gen.euler_i_scalar_11__fandg_y1_0_0 f g t0 t1 y0_0_0 dW_0_0 = Gen.euler_i_scalar_11_y1_0_0 f g t0 t1 y0_0_0 dW_0_0 :=
  rfl

theorem euler_i_scalar_11__f_g_gprod_float (f : Float → Float → Float) (g : Float → Float → Float) (t0 t1 y0_0_0 dW_0_0 : Float) :
    GenF.euler_i_scalar_11__f_g_gprod_y1_0_0 f g t0 t1 y0_0_0 dW_0_0 = GenF.euler_i_scalar_11_y1_0_0 f g t0 t1 y0_0_0 dW_0_0 :=
  rfl

theorem euler_i_scalar_11__f_g_gprod_field {K : Type} [Field K] [LinearOrder K] (f : K → K → K) (g : K → K → K) (t0 t1 y0_0_0 dW_0_0 : K) :
    Gen.euler_i_scalar_11__f_g_gprod_y1_0_0 f g t0 t1 y0_0_0 dW_0_0 = Gen.euler_i_scalar_11_y1_0_0 f g t0 t1 y0_0_0 dW_0_0 :=
  rfl

theorem euler_i_scalar_11__f_gprod_float (f : Float → Float → Float) (g : Float → Float → Float) (t0 t1 y0_0_0 dW_0_0 : Float) :
    GenF.euler_i_scalar_11__f_gprod_y1_0_0 f g t0 t1 y0_0_0 dW_0_0 = GenF.euler_i_scalar_11_y1_0_0 f g t0 t1 y0_0_0 dW_0_0 :=
  rfl

theorem euler_i_scalar_11__f_gprod_field {K : Type} [Field K] [LinearOrder K] (f : K → K → K) (g : K → K → K) (t0 t1 y0_0_0 dW_0_0 : K) :
    Gen.euler_i_scalar_11__f_gprod_y1_0_0 f g t0 t1 y0_0_0 dW_0_0 = Gen.euler_i_scalar_11_y1_0_0 f g t0 t1 y0_0_0 dW_0_0 :=
  rfl

theorem euler_i_scalar_11__fgprod_float (f : Float → Float → Float) (g : Float → Float → Float) (t0 t1 y0_0_0 dW_0_0 : Float) :
    GenF.euler_i_scalar_11__fgprod_y1_0_0 f g t0 t1 y0_0_0 dW_0_0 = GenF.euler_i_scalar_11_y1_0_0 f g t0 t1 y0_0_0 dW_0_0 :=
  rfl

theorem euler_i_scalar_11__fgprod_field {K : Type} [Field K] [LinearOrder K] (f : K → K → K) (g : K → K → K) (t0 t1 y0_0_0 dW_0_0 : K) :
    Gen.euler_i_scalar_11__fgprod_y1_0_0 f g t0 t1 y0_0_0 dW_0_0 = Gen.euler_i_scalar_11_y1_0_0 f g t0 t1 y0_0_0 dW_0_0 :=
  rfl

theorem euler_i_scalar_11__fandg_gprod_float (f : Float → Float → Float) (g : Float → Float → Float) (t0 t1 y0_0_0 dW_0_0 : Float) :
    GenF.euler_i_scalar_11__fandg_gprod_y1_0_0 f g t0 t1 y0_0_0 dW_0_0 = GenF.euler_i_scalar_11_y1_0_0 f g t0 t1 y0_0_0 dW_0_0 :=
  rfl

theorem euler_i_scalar_11__fandg_gprod_field {K : Type} [Field K] [LinearOrder K] (f : K → K → K) (g : K → K → K) (t0 t1 y0_0_0 dW_0_0 : K) :
    Gen.euler_i_scalar_11__fandg_gprod_y1_0_0 f g t0 t1 y0_0_0 dW_0_0 = Gen.euler_i_scalar_11_y1_0_0 f g t0 t1 y0_0_0 dW_0_0 :=
  rfl

theorem euler_i_scalar_11__fandg_fgprod_float (f : Float → Float → Float) (g : Float → Float → Float) (t0 t1 y0_0_0 dW_0_0 : Float) :
    GenF.euler_i_scalar_11__fandg_fgprod_y1_0_0 f g t0 t1 y0_0_0 dW_0_0 = GenF.euler_i_scalar_11_y1_0_0 f g t0 t1 y0_0_0 dW_0_0 :=
  rfl

theorem euler_i_scalar_11__fandg_fgprod_field {K : Type} [Field K] [LinearOrder K] (f : K → K → K) (g : K → K → K) (t0 t1 y0_0_0 dW_0_0 : K) :
    Gen.euler_i_scalar_11__fandg_fgprod_y1_0_0 f g t0 t1 y0_0_0 dW_0_0 = Gen.euler_i_scalar_11_y1_0_0 f g t0 t1 y0_0_0 dW_0_0 :=
  rfl

theorem euler_i_scalar_11__renamed_float (f : Float → Float → Float) (g : Float → Float → Float) (t0 t1 y0_0_0 dW_0_0 : Float) :
    GenF.euler_i_scalar_11__renamed_y1_0_0 f g t0 t1 y0_0_0 dW_0_0 = GenF.euler_i_scalar_11_y1_0_0 f g t0 t1 y0_0_0 dW_0_0 :=
  rfl

theorem euler_i_scalar_11__renamed_field {K : Type} [Field K] [LinearOrder K] (f : K → K → K) (g : K → K → K) (t0 t1 y0_0_0 dW_0_0 : K) :
    Gen.euler_i_scalar_11__renamed_y1_0_0 f g t0 t1 y0_0_0 dW_0_0 = Gen.euler_i_scalar_11_y1_0_0 f g t0 t1 y0_0_0 dW_0_0 :=
  rfl

theorem euler_i_scalar_11__renamed_all_float (f : Float → Float → Float) (g : Float → Float → Float) (t0 t1 y0_0_0 dW_0_0 : Float) :
    GenF.euler_i_scalar_11__renamed_all_y1_0_0 f g t0 t1 y0_0_0 dW_0_0 = GenF.euler_i_scalar_11_y1_0_0 f g t0 t1 y0_0_0 dW_0_0 :=
  rfl

theorem euler_i_scalar_11__renamed_all_field {K : Type} [Field K] [LinearOrder K] (f : K → K → K) (g : K → K → K) (t0 t1 y0_0_0 dW_0_0 : K) :
    Gen.euler_i_scalar_11__renamed_all_y1_0_0 f g t0 t1 y0_0_0 dW_0_0 = Gen.euler_i_scalar_11_y1_0_0 f g t0 t1 y0_0_0 dW_0_0 :=
  rfl

theorem euler_i_general_11__fandg_float (f : Float → Float → Float) (g : Float → Float → Float) (t0 t1 y0_0_0 dW_0_0 : Float) :
    GenF.euler_i_general_11__fandg_y1_0_0 f g t0 t1 y0_0_0 dW_0_0 = GenF.euler_i_general_11_y1_0_0 f g t0 t1 y0_0_0 dW_0_0 :=
  rfl

theorem euler_i_general_11__fandg_field {K : Type} [Field K] [LinearOrder K] (f : K → K → K) (g : K → K → K) (t0 t1 y0_0_0 dW_0_0 : K) :
    Gen.euler_i_general_11__fandg_y1_0_0 f g t0 t1 y0_0_0 dW_0_0 = Gen.euler_i_general_11_y1_0_0 f g t0 t1 y0_0_0 dW_0_0 :=
  rfl

theorem euler_i_general_11__f_g_gprod_float (f : Float → Float → Float) (g : Float → Float → Float) (t0 t1 y0_0_0 dW_0_0 : Float) :
    GenF.euler_i_general_11__f_g_gprod_y1_0_0 f g t0 t1 y0_0_0 dW_0_0 = GenF.euler_i_general_11_y1_0_0 f g t0 t1 y0_0_0 dW_0_0 :=
  rfl

theorem euler_i_general_11__f_g_gprod_field {K : Type} [Field K] [LinearOrder K] (f : K → K → K) (g : K → K → K) (t0 t1 y0_0_0 dW_0_0 : K) :
    Gen.euler_i_general_11__f_g_gprod_y1_0_0 f g t0 t1 y0_0_0 dW_0_0 = Gen.euler_i_general_11_y1_0_0 f g t0 t1 y0_0_0 dW_0_0 :=
  rfl

theorem euler_i_general_11__f_gprod_float (f : Float → Float → Float) (g : Float → Float → Float) (t0 t1 y0_0_0 dW_0_0 : Float) :
    GenF.euler_i_general_11__f_gprod_y1_0_0 f g t0 t1 y0_0_0 dW_0_0 = GenF.euler_i_general_11_y1_0_0 f g t0 t1 y0_0_0 dW_0_0 :=
  rfl

theorem euler_i_general_11__f_gprod_field {K : Type} [Field K] [LinearOrder K] (f : K → K → K) (g : K → K → K) (t0 t1 y0_0_0 dW_0_0 : K) :
    Gen.euler_i_general_11__f_gprod_y1_0_0 f g t0 t1 y0_0_0 dW_0_0 = Gen.euler_i_general_11_y1_0_0 f g t0 t1 y0_0_0 dW_0_0 :=
  rfl

theorem euler_i_general_11__fgprod_float (f : Float → Float → Float) (g : Float → Float → Float) (t0 t1 y0_0_0 dW_0_0 : Float) :
    GenF.euler_i_general_11__fgprod_y1_0_0 f g t0 t1 y0_0_0 dW_0_0 = GenF.euler_i_general_11_y1_0_0 f g t0 t1 y0_0_0 dW_0_0 :=
  rfl

theorem euler_i_general_11__fgprod_field {K : Type} [Field K] [LinearOrder K] (f : K → K → K) (g : K → K → K) (t0 t1 y0_0_0 dW_0_0 : K) :
    Gen.euler_i_general_11__fgprod_y1_0_0 f g t0 t1 y0_0_0 dW_0_0 = Gen.euler_i_general_11_y1_0_0 f g t0 t1 y0_0_0 dW_0_0 :=
  rfl

theorem euler_i_general_11__fandg_gprod_float (f : Float → Float → Float) (g : Float → Float → Float) (t0 t1 y0_0_0 dW_0_0 : Float) :
    GenF.euler_i_general_11__fandg_gprod_y1_0_0 f g t0 t1 y0_0_0 dW_0_0 = GenF.euler_i_general_11_y1_0_0 f g t0 t1 y0_0_0 dW_0_0 :=
  rfl

theorem euler_i_general_11__fandg_gprod_field {K : Type} [Field K] [LinearOrder K] (f : K → K → K) (g : K → K → K) (t0 t1 y0_0_0 dW_0_0 : K) :
    Gen.euler_i_general_11__fandg_gprod_y1_0_0 f g t0 t1 y0_0_0 dW_0_0 = Gen.euler_i_general_11_y1_0_0 f g t0 t1 y0_0_0 dW_0_0 :=
  rfl

theorem euler_i_general_11__fandg_fgprod_float (f : Float → Float → Float) (g : Float → Float → Float) (t0 t1 y0_0_0 dW_0_0 : Float) :
    GenF.euler_i_general_11__fandg_fgprod_y1_0_0 f g t0 t1 y0_0_0 dW_0_0 = GenF.euler_i_general_11_y1_0_0 f g t0 t1 y0_0_0 dW_0_0 :=
  rfl

theorem euler_i_general_11__fandg_fgprod_field {K : Type} [Field K] [LinearOrder K] (f : K → K → K) (g : K → K → K) (t0 t1 y0_0_0 dW_0_0 : K) :
    Gen.euler_i_general_11__fandg_fgprod_y1_0_0 f g t0 t1 y0_0_0 dW_0_0 = Gen.euler_i_general_11_y1_0_0 f g t0 t1 y0_0_0 dW_0_0 :=
  rfl

theorem euler_i_general_11__renamed_float (f : Float → Float → Float) (g : Float → Float → Float) (t0 t1 y0_0_0 dW_0_0 : Float) :
    GenF.euler_i_general_11__renamed_y1_0_0 f g t0 t1 y0_0_0 dW_0_0 = GenF.euler_i_general_11_y1_0_0 f g t0 t1 y0_0_0 dW_0_0 :=
  rfl

theorem euler_i_general_11__renamed_field {K : Type} [Field K] [LinearOrder K] (f : K → K → K) (g : K → K → K) (t0 t1 y0_0_0 dW_0_0 : K) :
    Gen.euler_i_general_11__renamed_y1_0_0 f g t0 t1 y0_0_0 dW_0_0 = Gen.euler_i_general_11_y1_0_0 f g t0 t1 y0_0_0 dW_0_0 :=
  rfl

theorem euler_i_general_11__renamed_all_float (f : Float → Float → Float) (g : Float → Float → Float) (t0 t1 y0_0_0 dW_0_0 : Float) :
    GenF.euler_i_general_11__renamed_all_y1_0_0 f g t0 t1 y0_0_0 dW_0_0 = GenF.euler_i_general_11_y1_0_0 f g t0 t1 y0_0_0 dW_0_0 :=
  rfl

theorem euler_i_general_11__renamed_all_field {K : Type} [Field K] [LinearOrder K] (f : K → K → K) (g : K → K → K) (t0 t1 y0_0_0 dW_0_0 : K) :
    Gen.euler_i_general_11__renamed_all_y1_0_0 f g t0 t1 y0_0_0 dW_0_0 = Gen.euler_i_general_11_y1_0_0 f g t0 t1 y0_0_0 dW_0_0 :=
  rfl

theorem milstein_i_diagonal_11__f_g_gprod_float (f : Float → Float → Float) (g : Float → Float → Float) (g_d1 : Float → Float → Float) (t0 t1 y0_0_0 dW_0_0 : Float) :
    GenF.milstein_i_diagonal_11__f_g_gprod_y1_0_0 f g g_d1 t0 t1 y0_0_0 dW_0_0 = GenF.milstein_i_diagonal_11_y1_0_0 f g g_d1 t0 t1 y0_0_0 dW_0_0 :=
  rfl

theorem milstein_i_diagonal_11__f_g_gprod_field {K : Type} [Field K] [LinearOrder K] (f : K → K → K) (g : K → K → K) (g_d1 : K → K → K) (t0 t1 y0_0_0 dW_0_0 : K) :
    Gen.milstein_i_diagonal_11__f_g_gprod_y1_0_0 f g g_d1 t0 t1 y0_0_0 dW_0_0 = Gen.milstein_i_diagonal_11_y1_0_0 f g g_d1 t0 t1 y0_0_0 dW_0_0 :=
  rfl

theorem milstein_i_diagonal_11__renamed_float (f : Float → Float → Float) (g : Float → Float → Float) (g_d1 : Float → Float → Float) (t0 t1 y0_0_0 dW_0_0 : Float) :
    GenF.milstein_i_diagonal_11__renamed_y1_0_0 f g g_d1 t0 t1 y0_0_0 dW_0_0 = GenF.milstein_i_diagonal_11_y1_0_0 f g g_d1 t0 t1 y0_0_0 dW_0_0 :=
  rfl

theorem milstein_i_diagonal_11__renamed_field {K : Type} [Field K] [LinearOrder K] (f : K → K → K) (g : K → K → K) (g_d1 : K → K → K) (t0 t1 y0_0_0 dW_0_0 : K) :
    Gen.milstein_i_diagonal_11__renamed_y1_0_0 f g g_d1 t0 t1 y0_0_0 dW_0_0 = Gen.milstein_i_diagonal_11_y1_0_0 f g g_d1 t0 t1 y0_0_0 dW_0_0 :=
  rfl

theorem milstein_i_diagonal_11__renamed_all_float (f : Float → Float → Float) (g : Float → Float → Float) (g_d1 : Float → Float → Float) (t0 t1 y0_0_0 dW_0_0 : Float) :
    GenF.milstein_i_diagonal_11__renamed_all_y1_0_0 f g g_d1 t0 t1 y0_0_0 dW_0_0 = GenF.milstein_i_diagonal_11_y1_0_0 f g g_d1 t0 t1 y0_0_0 dW_0_0 :=
  rfl

theorem milstein_i_diagonal_11__renamed_all_field {K : Type} [Field K] [LinearOrder K] (f : K → K → K) (g : K → K → K) (g_d1 : K → K → K) (t0 t1 y0_0_0 dW_0_0 : K) :
    Gen.milstein_i_diagonal_11__renamed_all_y1_0_0 f g g_d1 t0 t1 y0_0_0 dW_0_0 = Gen.milstein_i_diagonal_11_y1_0_0 f g g_d1 t0 t1 y0_0_0 dW_0_0 :=
  rfl

theorem milstein_i_diagonal_11_gf__f_g_gprod_float (f : Float → Float → Float) (g : Float → Float → Float) (t0 t1 y0_0_0 dW_0_0 : Float) :
    GenF.milstein_i_diagonal_11_gf__f_g_gprod_y1_0_0 f g t0 t1 y0_0_0 dW_0_0 = GenF.milstein_i_diagonal_11_gf_y1_0_0 f g t0 t1 y0_0_0 dW_0_0 :=
  rfl

theorem milstein_i_diagonal_11_gf__f_g_gprod_field {K : Type} [Field K] [LinearOrder K] (sqrt : K → K) (f : K → K → K) (g : K → K → K) (t0 t1 y0_0_0 dW_0_0 : K) :
    Gen.milstein_i_diagonal_11_gf__f_g_gprod_y1_0_0 sqrt f g t0 t1 y0_0_0 dW_0_0 = Gen.milstein_i_diagonal_11_gf_y1_0_0 sqrt f g t0 t1 y0_0_0 dW_0_0 :=
  rfl

theorem milstein_i_diagonal_11_gf__renamed_float (f : Float → Float → Float) (g : Float → Float → Float) (t0 t1 y0_0_0 dW_0_0 : Float) :
    GenF.milstein_i_diagonal_11_gf__renamed_y1_0_0 f g t0 t1 y0_0_0 dW_0_0 = GenF.milstein_i_diagonal_11_gf_y1_0_0 f g t0 t1 y0_0_0 dW_0_0 :=
  rfl

theorem milstein_i_diagonal_11_gf__renamed_field {K : Type} [Field K] [LinearOrder K] (sqrt : K → K) (f : K → K → K) (g : K → K → K) (t0 t1 y0_0_0 dW_0_0 : K) :
    Gen.milstein_i_diagonal_11_gf__renamed_y1_0_0 sqrt f g t0 t1 y0_0_0 dW_0_0 = Gen.milstein_i_diagonal_11_gf_y1_0_0 sqrt f g t0 t1 y0_0_0 dW_0_0 :=
  rfl

theorem milstein_i_diagonal_11_gf__renamed_all_float (f : Float → Float → Float) (g : Float → Float → Float) (t0 t1 y0_0_0 dW_0_0 : Float) :
    GenF.milstein_i_diagonal_11_gf__renamed_all_y1_0_0 f g t0 t1 y0_0_0 dW_0_0 = GenF.milstein_i_diagonal_11_gf_y1_0_0 f g t0 t1 y0_0_0 dW_0_0 :=
  rfl

theorem milstein_i_diagonal_11_gf__renamed_all_field {K : Type} [Field K] [LinearOrder K] (sqrt : K → K) (f : K → K → K) (g : K → K → K) (t0 t1 y0_0_0 dW_0_0 : K) :
    Gen.milstein_i_diagonal_11_gf__renamed_all_y1_0_0 sqrt f g t0 t1 y0_0_0 dW_0_0 = Gen.milstein_i_diagonal_11_gf_y1_0_0 sqrt f g t0 t1 y0_0_0 dW_0_0 :=
  rfl

theorem milstein_i_additive_11__f_g_gprod_float (f : Float → Float → Float) (g : Float → Float) (t0 t1 y0_0_0 dW_0_0 : Float) :
    GenF.milstein_i_additive_11__f_g_gprod_y1_0_0 f g t0 t1 y0_0_0 dW_0_0 = GenF.milstein_i_additive_11_y1_0_0 f g t0 t1 y0_0_0 dW_0_0 :=
  rfl

theorem milstein_i_additive_11__f_g_gprod_field {K : Type} [Field K] [LinearOrder K] (f : K → K → K) (g : K → K) (t0 t1 y0_0_0 dW_0_0 : K) :
    Gen.milstein_i_additive_11__f_g_gprod_y1_0_0 f g t0 t1 y0_0_0 dW_0_0 = Gen.milstein_i_additive_11_y1_0_0 f g t0 t1 y0_0_0 dW_0_0 :=
  rfl

theorem milstein_i_additive_11__f_gprod_float (f : Float → Float → Float) (g : Float → Float) (t0 t1 y0_0_0 dW_0_0 : Float) :
    GenF.milstein_i_additive_11__f_gprod_y1_0_0 f g t0 t1 y0_0_0 dW_0_0 = GenF.milstein_i_additive_11_y1_0_0 f g t0 t1 y0_0_0 dW_0_0 :=
  rfl

theorem milstein_i_additive_11__f_gprod_field {K : Type} [Field K] [LinearOrder K] (f : K → K → K) (g : K → K) (t0 t1 y0_0_0 dW_0_0 : K) :
    Gen.milstein_i_additive_11__f_gprod_y1_0_0 f g t0 t1 y0_0_0 dW_0_0 = Gen.milstein_i_additive_11_y1_0_0 f g t0 t1 y0_0_0 dW_0_0 :=
  rfl

theorem milstein_i_additive_11__renamed_float (f : Float → Float → Float) (g : Float → Float) (t0 t1 y0_0_0 dW_0_0 : Float) :
    GenF.milstein_i_additive_11__renamed_y1_0_0 f g t0 t1 y0_0_0 dW_0_0 = GenF.milstein_i_additive_11_y1_0_0 f g t0 t1 y0_0_0 dW_0_0 :=
  rfl

theorem milstein_i_additive_11__renamed_field {K : Type} [Field K] [LinearOrder K] (f : K → K → K) (g : K → K) (t0 t1 y0_0_0 dW_0_0 : K) :
    Gen.milstein_i_additive_11__renamed_y1_0_0 f g t0 t1 y0_0_0 dW_0_0 = Gen.milstein_i_additive_11_y1_0_0 f g t0 t1 y0_0_0 dW_0_0 :=
  rfl

theorem milstein_i_additive_11__renamed_all_float (f : Float → Float → Float) (g : Float → Float) (t0 t1 y0_0_0 dW_0_0 : Float) :
    GenF.milstein_i_additive_11__renamed_all_y1_0_0 f g t0 t1 y0_0_0 dW_0_0 = GenF.milstein_i_additive_11_y1_0_0 f g t0 t1 y0_0_0 dW_0_0 :=
  rfl

theorem milstein_i_additive_11__renamed_all_field {K : Type} [Field K] [LinearOrder K] (f : K → K → K) (g : K → K) (t0 t1 y0_0_0 dW_0_0 : K) :
    Gen.milstein_i_additive_11__renamed_all_y1_0_0 f g t0 t1 y0_0_0 dW_0_0 = Gen.milstein_i_additive_11_y1_0_0 f g t0 t1 y0_0_0 dW_0_0 :=
  rfl

theorem milstein_i_scalar_11__f_g_gprod_float (f : Float → Float → Float) (g : Float → Float → Float) (g_d1 : Float → Float → Float) (t0 t1 y0_0_0 dW_0_0 : Float) :
    GenF.milstein_i_scalar_11__f_g_gprod_y1_0_0 f g g_d1 t0 t1 y0_0_0 dW_0_0 = GenF.milstein_i_scalar_11_y1_0_0 f g g_d1 t0 t1 y0_0_0 dW_0_0 :=
  rfl

theorem milstein_i_scalar_11__f_g_gprod_field {K : Type} [Field K] [LinearOrder K] (f : K → K → K) (g : K → K → K) (g_d1 : K → K → K) (t0 t1 y0_0_0 dW_0_0 : K) :
    Gen.milstein_i_scalar_11__f_g_gprod_y1_0_0 f g g_d1 t0 t1 y0_0_0 dW_0_0 = Gen.milstein_i_scalar_11_y1_0_0 f g g_d1 t0 t1 y0_0_0 dW_0_0 :=
  rfl

theorem milstein_i_scalar_11__renamed_float (f : Float → Float → Float) (g : Float → Float → Float) (g_d1 : Float → Float → Float) (t0 t1 y0_0_0 dW_0_0 : Float) :
    GenF.milstein_i_scalar_11__renamed_y1_0_0 f g g_d1 t0 t1 y0_0_0 dW_0_0 = GenF.milstein_i_scalar_11_y1_0_0 f g g_d1 t0 t1 y0_0_0 dW_0_0 :=
  rfl

theorem milstein_i_scalar_11__renamed_field {K : Type} [Field K] [LinearOrder K] (f : K → K → K) (g : K → K → K) (g_d1 : K → K → K) (t0 t1 y0_0_0 dW_0_0 : K) :
    Gen.milstein_i_scalar_11__renamed_y1_0_0 f g g_d1 t0 t1 y0_0_0 dW_0_0 = Gen.milstein_i_scalar_11_y1_0_0 f g g_d1 t0 t1 y0_0_0 dW_0_0 :=
  rfl

theorem milstein_i_scalar_11__renamed_all_float (f : Float → Float → Float) (g : Float → Float → Float) (g_d1 : Float → Float → Float) (t0 t1 y0_0_0 dW_0_0 : Float) :
    GenF.milstein_i_scalar_11__renamed_all_y1_0_0 f g g_d1 t0 t1 y0_0_0 dW_0_0 = GenF.milstein_i_scalar_11_y1_0_0 f g g_d1 t0 t1 y0_0_0 dW_0_0 :=
  rfl

theorem milstein_i_scalar_11__renamed_all_field {K : Type} [Field K] [LinearOrder K] (f : K → K → K) (g : K → K → K) (g_d1 : K → K → K) (t0 t1 y0_0_0 dW_0_0 : K) :
    Gen.milstein_i_scalar_11__renamed_all_y1_0_0 f g g_d1 t0 t1 y0_0_0 dW_0_0 = Gen.milstein_i_scalar_11_y1_0_0 f g g_d1 t0 t1 y0_0_0 dW_0_0 :=
  rfl

theorem milstein_i_scalar_11_gf__f_g_gprod_float (f : Float → Float → Float) (g : Float → Float → Float) (t0 t1 y0_0_0 dW_0_0 : Float) :
    GenF.milstein_i_scalar_11_gf__f_g_gprod_y1_0_0 f g t0 t1 y0_0_0 dW_0_0 = GenF.milstein_i_scalar_11_gf_y1_0_0 f g t0 t1 y0_0_0 dW_0_0 :=
  rfl

theorem milstein_i_scalar_11_gf__f_g_gprod_field {K : Type} [Field K] [LinearOrder K] (sqrt : K → K) (f : K → K → K) (g : K → K → K) (t0 t1 y0_0_0 dW_0_0 : K) :
    Gen.milstein_i_scalar_11_gf__f_g_gprod_y1_0_0 sqrt f g t0 t1 y0_0_0 dW_0_0 = Gen.milstein_i_scalar_11_gf_y1_0_0 sqrt f g t0 t1 y0_0_0 dW_0_0 :=
  rfl

theorem milstein_i_scalar_11_gf__renamed_float (f : Float → Float → Float) (g : Float → Float → Float) (t0 t1 y0_0_0 dW_0_0 : Float) :
    GenF.milstein_i_scalar_11_gf__renamed_y1_0_0 f g t0 t1 y0_0_0 dW_0_0 = GenF.milstein_i_scalar_11_gf_y1_0_0 f g t0 t1 y0_0_0 dW_0_0 :=
  rfl

theorem milstein_i_scalar_11_gf__renamed_field {K : Type} [Field K] [LinearOrder K] (sqrt : K → K) (f : K → K → K) (g : K → K → K) (t0 t1 y0_0_0 dW_0_0 : K) :
    Gen.milstein_i_scalar_11_gf__renamed_y1_0_0 sqrt f g t0 t1 y0_0_0 dW_0_0 = Gen.milstein_i_scalar_11_gf_y1_0_0 sqrt f g t0 t1 y0_0_0 dW_0_0 :=
  rfl

theorem milstein_i_scalar_11_gf__renamed_all_float (f : Float → Float → Float) (g : Float → Float → Float) (t0 t1 y0_0_0 dW_0_0 : Float) :
    GenF.milstein_i_scalar_11_gf__renamed_all_y1_0_0 f g t0 t1 y0_0_0 dW_0_0 = GenF.milstein_i_scalar_11_gf_y1_0_0 f g t0 t1 y0_0_0 dW_0_0 :=
  rfl

theorem milstein_i_scalar_11_gf__renamed_all_field {K : Type} [Field K] [LinearOrder K] (sqrt : K → K) (f : K → K → K) (g : K → K → K) (t0 t1 y0_0_0 dW_0_0 : K) :
    Gen.milstein_i_scalar_11_gf__renamed_all_y1_0_0 sqrt f g t0 t1 y0_0_0 dW_0_0 = Gen.milstein_i_scalar_11_gf_y1_0_0 sqrt f g t0 t1 y0_0_0 dW_0_0 :=
  rfl

theorem milstein_s_diagonal_11__f_g_gprod_float (f : Float → Float → Float) (g : Float → Float → Float) (g_d1 : Float → Float → Float) (t0 t1 y0_0_0 dW_0_0 : Float) :
    GenF.milstein_s_diagonal_11__f_g_gprod_y1_0_0 f g g_d1 t0 t1 y0_0_0 dW_0_0 = GenF.milstein_s_diagonal_11_y1_0_0 f g g_d1 t0 t1 y0_0_0 dW_0_0 :=
  rfl

theorem milstein_s_diagonal_11__f_g_gprod_field {K : Type} [Field K] [LinearOrder K] (f : K → K → K) (g : K → K → K) (g_d1 : K → K → K) (t0 t1 y0_0_0 dW_0_0 : K) :
    Gen.milstein_s_diagonal_11__f_g_gprod_y1_0_0 f g g_d1 t0 t1 y0_0_0 dW_0_0 = Gen.milstein_s_diagonal_11_y1_0_0 f g g_d1 t0 t1 y0_0_0 dW_0_0 :=
  rfl

theorem milstein_s_diagonal_11__renamed_float (f : Float → Float → Float) (g : Float → Float → Float) (g_d1 : Float → Float → Float) (t0 t1 y0_0_0 dW_0_0 : Float) :
    GenF.milstein_s_diagonal_11__renamed_y1_0_0 f g g_d1 t0 t1 y0_0_0 dW_0_0 = GenF.milstein_s_diagonal_11_y1_0_0 f g g_d1 t0 t1 y0_0_0 dW_0_0 :=
  rfl

theorem milstein_s_diagonal_11__renamed_field {K : Type} [Field K] [LinearOrder K] (f : K → K → K) (g : K → K → K) (g_d1 : K → K → K) (t0 t1 y0_0_0 dW_0_0 : K) :
    Gen.milstein_s_diagonal_11__renamed_y1_0_0 f g g_d1 t0 t1 y0_0_0 dW_0_0 = Gen.milstein_s_diagonal_11_y1_0_0 f g g_d1 t0 t1 y0_0_0 dW_0_0 :=
  rfl

theorem milstein_s_diagonal_11__renamed_all_float (f : Float → Float → Float) (g : Float → Float → Float) (g_d1 : Float → Float → Float) (t0 t1 y0_0_0 dW_0_0 : Float) :
    GenF.milstein_s_diagonal_11__renamed_all_y1_0_0 f g g_d1 t0 t1 y0_0_0 dW_0_0 = GenF.milstein_s_diagonal_11_y1_0_0 f g g_d1 t0 t1 y0_0_0 dW_0_0 :=
  rfl

theorem milstein_s_diagonal_11__renamed_all_field {K : Type} [Field K] [LinearOrder K] (f : K → K → K) (g : K → K → K) (g_d1 : K → K → K) (t0 t1 y0_0_0 dW_0_0 : K) :
    Gen.milstein_s_diagonal_11__renamed_all_y1_0_0 f g g_d1 t0 t1 y0_0_0 dW_0_0 = Gen.milstein_s_diagonal_11_y1_0_0 f g g_d1 t0 t1 y0_0_0 dW_0_0 :=
  rfl

theorem milstein_s_diagonal_11_gf__f_g_gprod_float (f : Float → Float → Float) (g : Float → Float → Float) (t0 t1 y0_0_0 dW_0_0 : Float) :
    GenF.milstein_s_diagonal_11_gf__f_g_gprod_y1_0_0 f g t0 t1 y0_0_0 dW_0_0 = GenF.milstein_s_diagonal_11_gf_y1_0_0 f g t0 t1 y0_0_0 dW_0_0 :=
  rfl

theorem milstein_s_diagonal_11_gf__f_g_gprod_field {K : Type} [Field K] [LinearOrder K] (sqrt : K → K) (f : K → K → K) (g : K → K → K) (t0 t1 y0_0_0 dW_0_0 : K) :
    Gen.milstein_s_diagonal_11_gf__f_g_gprod_y1_0_0 sqrt f g t0 t1 y0_0_0 dW_0_0 = Gen.milstein_s_diagonal_11_gf_y1_0_0 sqrt f g t0 t1 y0_0_0 dW_0_0 :=
  rfl

theorem milstein_s_diagonal_11_gf__renamed_float (f : Float → Float → Float) (g : Float → Float → Float) (t0 t1 y0_0_0 dW_0_0 : Float) :
    GenF.milstein_s_diagonal_11_gf__renamed_y1_0_0 f g t0 t1 y0_0_0 dW_0_0 = GenF.milstein_s_diagonal_11_gf_y1_0_0 f g t0 t1 y0_0_0 dW_0_0 :=
  rfl

theorem milstein_s_diagonal_11_gf__renamed_field {K : Type} [Field K] [LinearOrder K] (sqrt : K → K) (f : K → K → K) (g : K → K → K) (t0 t1 y0_0_0 dW_0_0 : K) :
    Gen.milstein_s_diagonal_11_gf__renamed_y1_0_0 sqrt f g t0 t1 y0_0_0 dW_0_0 = Gen.milstein_s_diagonal_11_gf_y1_0_0 sqrt f g t0 t1 y0_0_0 dW_0_0 :=
  rfl

theorem milstein_s_diagonal_11_gf__renamed_all_float (f : Float → Float → Float) (g : Float → Float → Float) (t0 t1 y0_0_0 dW_0_0 : Float) :
    GenF.milstein_s_diagonal_11_gf__renamed_all_y1_0_0 f g t0 t1 y0_0_0 dW_0_0 = GenF.milstein_s_diagonal_11_gf_y1_0_0 f g t0 t1 y0_0_0 dW_0_0 :=
  rfl

theorem milstein_s_diagonal_11_gf__renamed_all_field {K : Type} [Field K] [LinearOrder K] (sqrt : K → K) (f : K → K → K) (g : K → K → K) (t0 t1 y0_0_0 dW_0_0 : K) :
    Gen.milstein_s_diagonal_11_gf__renamed_all_y1_0_0 sqrt f g t0 t1 y0_0_0 dW_0_0 = Gen.milstein_s_diagonal_11_gf_y1_0_0 sqrt f g t0 t1 y0_0_0 dW_0_0 :=
  rfl

theorem milstein_s_additive_11__f_g_gprod_float (f : Float → Float → Float) (g : Float → Float) (t0 t1 y0_0_0 dW_0_0 : Float) :
    GenF.milstein_s_additive_11__f_g_gprod_y1_0_0 f g t0 t1 y0_0_0 dW_0_0 = GenF.milstein_s_additive_11_y1_0_0 f g t0 t1 y0_0_0 dW_0_0 :=
  rfl

theorem milstein_s_additive_11__f_g_gprod_field {K : Type} [Field K] [LinearOrder K] (f : K → K → K) (g : K → K) (t0 t1 y0_0_0 dW_0_0 : K) :
    Gen.milstein_s_additive_11__f_g_gprod_y1_0_0 f g t0 t1 y0_0_0 dW_0_0 = Gen.milstein_s_additive_11_y1_0_0 f g t0 t1 y0_0_0 dW_0_0 :=
  rfl

theorem milstein_s_additive_11__f_gprod_float (f : Float → Float → Float) (g : Float → Float) (t0 t1 y0_0_0 dW_0_0 : Float) :
    GenF.milstein_s_additive_11__f_gprod_y1_0_0 f g t0 t1 y0_0_0 dW_0_0 = GenF.milstein_s_additive_11_y1_0_0 f g t0 t1 y0_0_0 dW_0_0 :=
  rfl

theorem milstein_s_additive_11__f_gprod_field {K : Type} [Field K] [LinearOrder K] (f : K → K → K) (g : K → K) (t0 t1 y0_0_0 dW_0_0 : K) :
    Gen.milstein_s_additive_11__f_gprod_y1_0_0 f g t0 t1 y0_0_0 dW_0_0 = Gen.milstein_s_additive_11_y1_0_0 f g t0 t1 y0_0_0 dW_0_0 :=
  rfl

theorem milstein_s_additive_11__renamed_float (f : Float → Float → Float) (g : Float → Float) (t0 t1 y0_0_0 dW_0_0 : Float) :
    GenF.milstein_s_additive_11__renamed_y1_0_0 f g t0 t1 y0_0_0 dW_0_0 = GenF.milstein_s_additive_11_y1_0_0 f g t0 t1 y0_0_0 dW_0_0 :=
  rfl

theorem milstein_s_additive_11__renamed_field {K : Type} [Field K] [LinearOrder K] (f : K → K → K) (g : K → K) (t0 t1 y0_0_0 dW_0_0 : K) :
    Gen.milstein_s_additive_11__renamed_y1_0_0 f g t0 t1 y0_0_0 dW_0_0 = Gen.milstein_s_additive_11_y1_0_0 f g t0 t1 y0_0_0 dW_0_0 :=
  rfl

theorem milstein_s_additive_11__renamed_all_float (f : Float → Float → Float) (g : Float → Float) (t0 t1 y0_0_0 dW_0_0 : Float) :
    GenF.milstein_s_additive_11__renamed_all_y1_0_0 f g t0 t1 y0_0_0 dW_0_0 = GenF.milstein_s_additive_11_y1_0_0 f g t0 t1 y0_0_0 dW_0_0 :=
  rfl

theorem milstein_s_additive_11__renamed_all_field {K : Type} [Field K] [LinearOrder K] (f : K → K → K) (g : K → K) (t0 t1 y0_0_0 dW_0_0 : K) :
    Gen.milstein_s_additive_11__renamed_all_y1_0_0 f g t0 t1 y0_0_0 dW_0_0 = Gen.milstein_s_additive_11_y1_0_0 f g t0 t1 y0_0_0 dW_0_0 :=
  rfl

theorem milstein_s_scalar_11__f_g_gprod_float (f : Float → Float → Float) (g : Float → Float → Float) (g_d1 : Float → Float → Float) (t0 t1 y0_0_0 dW_0_0 : Float) :
    GenF.milstein_s_scalar_11__f_g_gprod_y1_0_0 f g g_d1 t0 t1 y0_0_0 dW_0_0 = GenF.milstein_s_scalar_11_y1_0_0 f g g_d1 t0 t1 y0_0_0 dW_0_0 :=
  rfl

theorem milstein_s_scalar_11__f_g_gprod_field {K : Type} [Field K] [LinearOrder K] (f : K → K → K) (g : K → K → K) (g_d1 : K → K → K) (t0 t1 y0_0_0 dW_0_0 : K) :
    Gen.milstein_s_scalar_11__f_g_gprod_y1_0_0 f g g_d1 t0 t1 y0_0_0 dW_0_0 = Gen.milstein_s_scalar_11_y1_0_0 f g g_d1 t0 t1 y0_0_0 dW_0_0 :=
  rfl

theorem milstein_s_scalar_11__renamed_float (f : Float → Float → Float) (g : Float → Float → Float) (g_d1 : Float → Float → Float) (t0 t1 y0_0_0 dW_0_0 : Float) :
    GenF.milstein_s_scalar_11__renamed_y1_0_0 f g g_d1 t0 t1 y0_0_0 dW_0_0 = GenF.milstein_s_scalar_11_y1_0_0 f g g_d1 t0 t1 y0_0_0 dW_0_0 :=
  rfl

theorem milstein_s_scalar_11__renamed_field {K : Type} [Field K] [LinearOrder K] (f : K → K → K) (g : K → K → K) (g_d1 : K → K → K) (t0 t1 y0_0_0 dW_0_0 : K) :
    Gen.milstein_s_scalar_11__renamed_y1_0_0 f g g_d1 t0 t1 y0_0_0 dW_0_0 = Gen.milstein_s_scalar_11_y1_0_0 f g g_d1 t0 t1 y0_0_0 dW_0_0 :=
  rfl

theorem milstein_s_scalar_11__renamed_all_float (f : Float → Float → Float) (g : Float → Float → Float) (g_d1 : Float → Float → Float) (t0 t1 y0_0_0 dW_0_0 : Float) :
    GenF.milstein_s_scalar_11__renamed_all_y1_0_0 f g g_d1 t0 t1 y0_0_0 dW_0_0 = GenF.milstein_s_scalar_11_y1_0_0 f g g_d1 t0 t1 y0_0_0 dW_0_0 :=
  rfl

theorem milstein_s_scalar_11__renamed_all_field {K : Type} [Field K] [LinearOrder K] (f : K → K → K) (g : K → K → K) (g_d1 : K → K → K) (t0 t1 y0_0_0 dW_0_0 : K) :
    Gen.milstein_s_scalar_11__renamed_all_y1_0_0 f g g_d1 t0 t1 y0_0_0 dW_0_0 = Gen.milstein_s_scalar_11_y1_0_0 f g g_d1 t0 t1 y0_0_0 dW_0_0 :=
  rfl

theorem milstein_s_scalar_11_gf__f_g_gprod_float (f : Float → Float → Float) (g : Float → Float → Float) (t0 t1 y0_0_0 dW_0_0 : Float) :
    GenF.milstein_s_scalar_11_gf__f_g_gprod_y1_0_0 f g t0 t1 y0_0_0 dW_0_0 = GenF.milstein_s_scalar_11_gf_y1_0_0 f g t0 t1 y0_0_0 dW_0_0 :=
  rfl

theorem milstein_s_scalar_11_gf__f_g_gprod_field {K : Type} [Field K] [LinearOrder K] (sqrt : K → K) (f : K → K → K) (g : K → K → K) (t0 t1 y0_0_0 dW_0_0 : K) :
    Gen.milstein_s_scalar_11_gf__f_g_gprod_y1_0_0 sqrt f g t0 t1 y0_0_0 dW_0_0 = Gen.milstein_s_scalar_11_gf_y1_0_0 sqrt f g t0 t1 y0_0_0 dW_0_0 :=
  rfl

theorem milstein_s_scalar_11_gf__renamed_float (f : Float → Float → Float) (g : Float → Float → Float) (t0 t1 y0_0_0 dW_0_0 : Float) :
    GenF.milstein_s_scalar_11_gf__renamed_y1_0_0 f g t0 t1 y0_0_0 dW_0_0 = GenF.milstein_s_scalar_11_gf_y1_0_0 f g t0 t1 y0_0_0 dW_0_0 :=
  rfl

theorem milstein_s_scalar_11_gf__renamed_field {K : Type} [Field K] [LinearOrder K] (sqrt : K → K) (f : K → K → K) (g : K → K → K) (t0 t1 y0_0_0 dW_0_0 : K) :
    Gen.milstein_s_scalar_11_gf__renamed_y1_0_0 sqrt f g t0 t1 y0_0_0 dW_0_0 = Gen.milstein_s_scalar_11_gf_y1_0_0 sqrt f g t0 t1 y0_0_0 dW_0_0 :=
  rfl

theorem milstein_s_scalar_11_gf__renamed_all_float (f : Float → Float → Float) (g : Float → Float → Float) (t0 t1 y0_0_0 dW_0_0 : Float) :
    GenF.milstein_s_scalar_11_gf__renamed_all_y1_0_0 f g t0 t1 y0_0_0 dW_0_0 = GenF.milstein_s_scalar_11_gf_y1_0_0 f g t0 t1 y0_0_0 dW_0_0 :=
  rfl

theorem milstein_s_scalar_11_gf__renamed_all_field {K : Type} [Field K] [LinearOrder K] (sqrt : K → K) (f : K → K → K) (g : K → K → K) (t0 t1 y0_0_0 dW_0_0 : K) :
    Gen.milstein_s_scalar_11_gf__renamed_all_y1_0_0 sqrt f g t0 t1 y0_0_0 dW_0_0 = Gen.milstein_s_scalar_11_gf_y1_0_0 sqrt f g t0 t1 y0_0_0 dW_0_0 :=
  rfl

theorem srk_i_diagonal_11__f_g_gprod_float (f : Float → Float → Float) (g : Float → Float → Float) (t0 t1 y0_0_0 dW_0_0 U_0_0 : Float) :
    GenF.srk_i_diagonal_11__f_g_gprod_y1_0_0 f g t0 t1 y0_0_0 dW_0_0 U_0_0 = GenF.srk_i_diagonal_11_y1_0_0 f g t0 t1 y0_0_0 dW_0_0 U_0_0 :=
  rfl

theorem srk_i_diagonal_11__f_g_gprod_field {K : Type} [Field K] [LinearOrder K] (sqrt : K → K) (f : K → K → K) (g : K → K → K) (t0 t1 y0_0_0 dW_0_0 U_0_0 : K) :
    Gen.srk_i_diagonal_11__f_g_gprod_y1_0_0 sqrt f g t0 t1 y0_0_0 dW_0_0 U_0_0 = Gen.srk_i_diagonal_11_y1_0_0 sqrt f g t0 t1 y0_0_0 dW_0_0 U_0_0 :=
  rfl

theorem srk_i_diagonal_11__renamed_float (f : Float → Float → Float) (g : Float → Float → Float) (t0 t1 y0_0_0 dW_0_0 U_0_0 : Float) :
    GenF.srk_i_diagonal_11__renamed_y1_0_0 f g t0 t1 y0_0_0 dW_0_0 U_0_0 = GenF.srk_i_diagonal_11_y1_0_0 f g t0 t1 y0_0_0 dW_0_0 U_0_0 :=
  rfl

theorem srk_i_diagonal_11__renamed_field {K : Type} [Field K] [LinearOrder K] (sqrt : K → K) (f : K → K → K) (g : K → K → K) (t0 t1 y0_0_0 dW_0_0 U_0_0 : K) :
    Gen.srk_i_diagonal_11__renamed_y1_0_0 sqrt f g t0 t1 y0_0_0 dW_0_0 U_0_0 = Gen.srk_i_diagonal_11_y1_0_0 sqrt f g t0 t1 y0_0_0 dW_0_0 U_0_0 :=
  rfl

theorem srk_i_diagonal_11__renamed_all_float (f : Float → Float → Float) (g : Float → Float → Float) (t0 t1 y0_0_0 dW_0_0 U_0_0 : Float) :
    GenF.srk_i_diagonal_11__renamed_all_y1_0_0 f g t0 t1 y0_0_0 dW_0_0 U_0_0 = GenF.srk_i_diagonal_11_y1_0_0 f g t0 t1 y0_0_0 dW_0_0 U_0_0 :=
  rfl

theorem srk_i_diagonal_11__renamed_all_field {K : Type} [Field K] [LinearOrder K] (sqrt : K → K) (f : K → K → K) (g : K → K → K) (t0 t1 y0_0_0 dW_0_0 U_0_0 : K) :
    Gen.srk_i_diagonal_11__renamed_all_y1_0_0 sqrt f g t0 t1 y0_0_0 dW_0_0 U_0_0 = Gen.srk_i_diagonal_11_y1_0_0 sqrt f g t0 t1 y0_0_0 dW_0_0 U_0_0 :=
  rfl

theorem srk_i_additive_11__f_g_gprod_float (f : Float → Float → Float) (g : Float → Float) (t0 t1 y0_0_0 dW_0_0 U_0_0 : Float) :
    GenF.srk_i_additive_11__f_g_gprod_y1_0_0 f g t0 t1 y0_0_0 dW_0_0 U_0_0 = GenF.srk_i_additive_11_y1_0_0 f g t0 t1 y0_0_0 dW_0_0 U_0_0 :=
  rfl

theorem srk_i_additive_11__f_g_gprod_field {K : Type} [Field K] [LinearOrder K] (f : K → K → K) (g : K → K) (t0 t1 y0_0_0 dW_0_0 U_0_0 : K) :
    Gen.srk_i_additive_11__f_g_gprod_y1_0_0 f g t0 t1 y0_0_0 dW_0_0 U_0_0 = Gen.srk_i_additive_11_y1_0_0 f g t0 t1 y0_0_0 dW_0_0 U_0_0 :=
  rfl

theorem srk_i_additive_11__f_gprod_float (f : Float → Float → Float) (g : Float → Float) (t0 t1 y0_0_0 dW_0_0 U_0_0 : Float) :
    GenF.srk_i_additive_11__f_gprod_y1_0_0 f g t0 t1 y0_0_0 dW_0_0 U_0_0 = GenF.srk_i_additive_11_y1_0_0 f g t0 t1 y0_0_0 dW_0_0 U_0_0 :=
  rfl

theorem srk_i_additive_11__f_gprod_field {K : Type} [Field K] [LinearOrder K] (f : K → K → K) (g : K → K) (t0 t1 y0_0_0 dW_0_0 U_0_0 : K) :
    Gen.srk_i_additive_11__f_gprod_y1_0_0 f g t0 t1 y0_0_0 dW_0_0 U_0_0 = Gen.srk_i_additive_11_y1_0_0 f g t0 t1 y0_0_0 dW_0_0 U_0_0 :=
  rfl

theorem srk_i_additive_11__renamed_float (f : Float → Float → Float) (g : Float → Float) (t0 t1 y0_0_0 dW_0_0 U_0_0 : Float) :
    GenF.srk_i_additive_11__renamed_y1_0_0 f g t0 t1 y0_0_0 dW_0_0 U_0_0 = GenF.srk_i_additive_11_y1_0_0 f g t0 t1 y0_0_0 dW_0_0 U_0_0 :=
  rfl

theorem srk_i_additive_11__renamed_field {K : Type} [Field K] [LinearOrder K] (f : K → K → K) (g : K → K) (t0 t1 y0_0_0 dW_0_0 U_0_0 : K) :
    Gen.srk_i_additive_11__renamed_y1_0_0 f g t0 t1 y0_0_0 dW_0_0 U_0_0 = Gen.srk_i_additive_11_y1_0_0 f g t0 t1 y0_0_0 dW_0_0 U_0_0 :=
  rfl

theorem srk_i_additive_11__renamed_all_float (f : Float → Float → Float) (g : Float → Float) (t0 t1 y0_0_0 dW_0_0 U_0_0 : Float) :
    GenF.srk_i_additive_11__renamed_all_y1_0_0 f g t0 t1 y0_0_0 dW_0_0 U_0_0 = GenF.srk_i_additive_11_y1_0_0 f g t0 t1 y0_0_0 dW_0_0 U_0_0 :=
  rfl

theorem srk_i_additive_11__renamed_all_field {K : Type} [Field K] [LinearOrder K] (f : K → K → K) (g : K → K) (t0 t1 y0_0_0 dW_0_0 U_0_0 : K) :
    Gen.srk_i_additive_11__renamed_all_y1_0_0 f g t0 t1 y0_0_0 dW_0_0 U_0_0 = Gen.srk_i_additive_11_y1_0_0 f g t0 t1 y0_0_0 dW_0_0 U_0_0 :=
  rfl

theorem srk_i_scalar_11__f_g_gprod_float (f : Float → Float → Float) (g : Float → Float → Float) (t0 t1 y0_0_0 dW_0_0 U_0_0 : Float) :
    GenF.srk_i_scalar_11__f_g_gprod_y1_0_0 f g t0 t1 y0_0_0 dW_0_0 U_0_0 = GenF.srk_i_scalar_11_y1_0_0 f g t0 t1 y0_0_0 dW_0_0 U_0_0 :=
  rfl

theorem srk_i_scalar_11__f_g_gprod_field {K : Type} [Field K] [LinearOrder K] (sqrt : K → K) (f : K → K → K) (g : K → K → K) (t0 t1 y0_0_0 dW_0_0 U_0_0 : K) :
    Gen.srk_i_scalar_11__f_g_gprod_y1_0_0 sqrt f g t0 t1 y0_0_0 dW_0_0 U_0_0 = Gen.srk_i_scalar_11_y1_0_0 sqrt f g t0 t1 y0_0_0 dW_0_0 U_0_0 :=
  rfl

theorem srk_i_scalar_11__renamed_float (f : Float → Float → Float) (g : Float → Float → Float) (t0 t1 y0_0_0 dW_0_0 U_0_0 : Float) :
    GenF.srk_i_scalar_11__renamed_y1_0_0 f g t0 t1 y0_0_0 dW_0_0 U_0_0 = GenF.srk_i_scalar_11_y1_0_0 f g t0 t1 y0_0_0 dW_0_0 U_0_0 :=
  rfl

theorem srk_i_scalar_11__renamed_field {K : Type} [Field K] [LinearOrder K] (sqrt : K → K) (f : K → K → K) (g : K → K → K) (t0 t1 y0_0_0 dW_0_0 U_0_0 : K) :
    Gen.srk_i_scalar_11__renamed_y1_0_0 sqrt f g t0 t1 y0_0_0 dW_0_0 U_0_0 = Gen.srk_i_scalar_11_y1_0_0 sqrt f g t0 t1 y0_0_0 dW_0_0 U_0_0 :=
  rfl

theorem srk_i_scalar_11__renamed_all_float (f : Float → Float → Float) (g : Float → Float → Float) (t0 t1 y0_0_0 dW_0_0 U_0_0 : Float) :
    GenF.srk_i_scalar_11__renamed_all_y1_0_0 f g t0 t1 y0_0_0 dW_0_0 U_0_0 = GenF.srk_i_scalar_11_y1_0_0 f g t0 t1 y0_0_0 dW_0_0 U_0_0 :=
  rfl

theorem srk_i_scalar_11__renamed_all_field {K : Type} [Field K] [LinearOrder K] (sqrt : K → K) (f : K → K → K) (g : K → K → K) (t0 t1 y0_0_0 dW_0_0 U_0_0 : K) :
    Gen.srk_i_scalar_11__renamed_all_y1_0_0 sqrt f g t0 t1 y0_0_0 dW_0_0 U_0_0 = Gen.srk_i_scalar_11_y1_0_0 sqrt f g t0 t1 y0_0_0 dW_0_0 U_0_0 :=
  rfl

theorem euler_heun_s_diagonal_11__f_g_gprod_float (f : Float → Float → Float) (g : Float → Float → Float) (t0 t1 y0_0_0 dW_0_0 : Float) :
    GenF.euler_heun_s_diagonal_11__f_g_gprod_y1_0_0 f g t0 t1 y0_0_0 dW_0_0 = GenF.euler_heun_s_diagonal_11_y1_0_0 f g t0 t1 y0_0_0 dW_0_0 :=
  rfl

theorem euler_heun_s_diagonal_11__f_g_gprod_field {K : Type} [Field K] [LinearOrder K] (f : K → K → K) (g : K → K → K) (t0 t1 y0_0_0 dW_0_0 : K) :
    Gen.euler_heun_s_diagonal_11__f_g_gprod_y1_0_0 f g t0 t1 y0_0_0 dW_0_0 = Gen.euler_heun_s_diagonal_11_y1_0_0 f g t0 t1 y0_0_0 dW_0_0 :=
  rfl

theorem euler_heun_s_diagonal_11__f_gprod_float (f : Float → Float → Float) (g : Float → Float → Float) (t0 t1 y0_0_0 dW_0_0 : Float) :
    GenF.euler_heun_s_diagonal_11__f_gprod_y1_0_0 f g t0 t1 y0_0_0 dW_0_0 = GenF.euler_heun_s_diagonal_11_y1_0_0 f g t0 t1 y0_0_0 dW_0_0 :=
  rfl

theorem euler_heun_s_diagonal_11__f_gprod_field {K : Type} [Field K] [LinearOrder K] (f : K → K → K) (g : K → K → K) (t0 t1 y0_0_0 dW_0_0 : K) :
    Gen.euler_heun_s_diagonal_11__f_gprod_y1_0_0 f g t0 t1 y0_0_0 dW_0_0 = Gen.euler_heun_s_diagonal_11_y1_0_0 f g t0 t1 y0_0_0 dW_0_0 :=
  rfl

theorem euler_heun_s_diagonal_11__fandg_gprod_float (f : Float → Float → Float) (g : Float → Float → Float) (t0 t1 y0_0_0 dW_0_0 : Float) :
    GenF.euler_heun_s_diagonal_11__fandg_gprod_y1_0_0 f g t0 t1 y0_0_0 dW_0_0 = GenF.euler_heun_s_diagonal_11_y1_0_0 f g t0 t1 y0_0_0 dW_0_0 :=
  rfl

theorem euler_heun_s_diagonal_11__fandg_gprod_field {K : Type} [Field K] [LinearOrder K] (f : K → K → K) (g : K → K → K) (t0 t1 y0_0_0 dW_0_0 : K) :
    Gen.euler_heun_s_diagonal_11__fandg_gprod_y1_0_0 f g t0 t1 y0_0_0 dW_0_0 = Gen.euler_heun_s_diagonal_11_y1_0_0 f g t0 t1 y0_0_0 dW_0_0 :=
  rfl

theorem euler_heun_s_diagonal_11__renamed_float (f : Float → Float → Float) (g : Float → Float → Float) (t0 t1 y0_0_0 dW_0_0 : Float) :
    GenF.euler_heun_s_diagonal_11__renamed_y1_0_0 f g t0 t1 y0_0_0 dW_0_0 = GenF.euler_heun_s_diagonal_11_y1_0_0 f g t0 t1 y0_0_0 dW_0_0 :=
  rfl

theorem euler_heun_s_diagonal_11__renamed_field {K : Type} [Field K] [LinearOrder K] (f : K → K → K) (g : K → K → K) (t0 t1 y0_0_0 dW_0_0 : K) :
    Gen.euler_heun_s_diagonal_11__renamed_y1_0_0 f g t0 t1 y0_0_0 dW_0_0 = Gen.euler_heun_s_diagonal_11_y1_0_0 f g t0 t1 y0_0_0 dW_0_0 :=
  rfl

theorem euler_heun_s_diagonal_11__renamed_all_float (f : Float → Float → Float) (g : Float → Float → Float) (t0 t1 y0_0_0 dW_0_0 : Float) :
    GenF.euler_heun_s_diagonal_11__renamed_all_y1_0_0 f g t0 t1 y0_0_0 dW_0_0 = GenF.euler_heun_s_diagonal_11_y1_0_0 f g t0 t1 y0_0_0 dW_0_0 :=
  rfl

theorem euler_heun_s_diagonal_11__renamed_all_field {K : Type} [Field K] [LinearOrder K] (f : K → K → K) (g : K → K → K) (t0 t1 y0_0_0 dW_0_0 : K) :
    Gen.euler_heun_s_diagonal_11__renamed_all_y1_0_0 f g t0 t1 y0_0_0 dW_0_0 = Gen.euler_heun_s_diagonal_11_y1_0_0 f g t0 t1 y0_0_0 dW_0_0 :=
  rfl

theorem euler_heun_s_additive_11__f_g_gprod_float (f : Float → Float → Float) (g : Float → Float) (t0 t1 y0_0_0 dW_0_0 : Float) :
    GenF.euler_heun_s_additive_11__f_g_gprod_y1_0_0 f g t0 t1 y0_0_0 dW_0_0 = GenF.euler_heun_s_additive_11_y1_0_0 f g t0 t1 y0_0_0 dW_0_0 :=
  rfl

theorem euler_heun_s_additive_11__f_g_gprod_field {K : Type} [Field K] [LinearOrder K] (f : K → K → K) (g : K → K) (t0 t1 y0_0_0 dW_0_0 : K) :
    Gen.euler_heun_s_additive_11__f_g_gprod_y1_0_0 f g t0 t1 y0_0_0 dW_0_0 = Gen.euler_heun_s_additive_11_y1_0_0 f g t0 t1 y0_0_0 dW_0_0 :=
  rfl

theorem euler_heun_s_additive_11__f_gprod_float (f : Float → Float → Float) (g : Float → Float) (t0 t1 y0_0_0 dW_0_0 : Float) :
    GenF.euler_heun_s_additive_11__f_gprod_y1_0_0 f g t0 t1 y0_0_0 dW_0_0 = GenF.euler_heun_s_additive_11_y1_0_0 f g t0 t1 y0_0_0 dW_0_0 :=
  rfl

theorem euler_heun_s_additive_11__f_gprod_field {K : Type} [Field K] [LinearOrder K] (f : K → K → K) (g : K → K) (t0 t1 y0_0_0 dW_0_0 : K) :
    Gen.euler_heun_s_additive_11__f_gprod_y1_0_0 f g t0 t1 y0_0_0 dW_0_0 = Gen.euler_heun_s_additive_11_y1_0_0 f g t0 t1 y0_0_0 dW_0_0 :=
  rfl

theorem euler_heun_s_additive_11__fandg_gprod_float (f : Float → Float → Float) (g : Float → Float) (t0 t1 y0_0_0 dW_0_0 : Float) :
    GenF.euler_heun_s_additive_11__fandg_gprod_y1_0_0 f g t0 t1 y0_0_0 dW_0_0 = GenF.euler_heun_s_additive_11_y1_0_0 f g t0 t1 y0_0_0 dW_0_0 :=
  rfl

theorem euler_heun_s_additive_11__fandg_gprod_field {K : Type} [Field K] [LinearOrder K] (f : K → K → K) (g : K → K) (t0 t1 y0_0_0 dW_0_0 : K) :
    Gen.euler_heun_s_additive_11__fandg_gprod_y1_0_0 f g t0 t1 y0_0_0 dW_0_0 = Gen.euler_heun_s_additive_11_y1_0_0 f g t0 t1 y0_0_0 dW_0_0 :=
  rfl

theorem euler_heun_s_additive_11__renamed_float (f : Float → Float → Float) (g : Float → Float) (t0 t1 y0_0_0 dW_0_0 : Float) :
    GenF.euler_heun_s_additive_11__renamed_y1_0_0 f g t0 t1 y0_0_0 dW_0_0 = GenF.euler_heun_s_additive_11_y1_0_0 f g t0 t1 y0_0_0 dW_0_0 :=
  rfl

theorem euler_heun_s_additive_11__renamed_field {K : Type} [Field K] [LinearOrder K] (f : K → K → K) (g : K → K) (t0 t1 y0_0_0 dW_0_0 : K) :
    Gen.euler_heun_s_additive_11__renamed_y1_0_0 f g t0 t1 y0_0_0 dW_0_0 = Gen.euler_heun_s_additive_11_y1_0_0 f g t0 t1 y0_0_0 dW_0_0 :=
  rfl

theorem euler_heun_s_additive_11__renamed_all_float (f : Float → Float → Float) (g : Float → Float) (t0 t1 y0_0_0 dW_0_0 : Float) :
    GenF.euler_heun_s_additive_11__renamed_all_y1_0_0 f g t0 t1 y0_0_0 dW_0_0 = GenF.euler_heun_s_additive_11_y1_0_0 f g t0 t1 y0_0_0 dW_0_0 :=
  rfl

theorem euler_heun_s_additive_11__renamed_all_field {K : Type} [Field K] [LinearOrder K] (f : K → K → K) (g : K → K) (t0 t1 y0_0_0 dW_0_0 : K) :
    Gen.euler_heun_s_additive_11__renamed_all_y1_0_0 f g t0 t1 y0_0_0 dW_0_0 = Gen.euler_heun_s_additive_11_y1_0_0 f g t0 t1 y0_0_0 dW_0_0 :=
  rfl

theorem euler_heun_s_scalar_11__f_g_gprod_float (f : Float → Float → Float) (g : Float → Float → Float) (t0 t1 y0_0_0 dW_0_0 : Float) :
    GenF.euler_heun_s_scalar_11__f_g_gprod_y1_0_0 f g t0 t1 y0_0_0 dW_0_0 = GenF.euler_heun_s_scalar_11_y1_0_0 f g t0 t1 y0_0_0 dW_0_0 :=
  rfl

theorem euler_heun_s_scalar_11__f_g_gprod_field {K : Type} [Field K] [LinearOrder K] (f : K → K → K) (g : K → K → K) (t0 t1 y0_0_0 dW_0_0 : K) :
    Gen.euler_heun_s_scalar_11__f_g_gprod_y1_0_0 f g t0 t1 y0_0_0 dW_0_0 = Gen.euler_heun_s_scalar_11_y1_0_0 f g t0 t1 y0_0_0 dW_0_0 :=
  rfl

theorem euler_heun_s_scalar_11__f_gprod_float (f : Float → Float → Float) (g : Float → Float → Float) (t0 t1 y0_0_0 dW_0_0 : Float) :
    GenF.euler_heun_s_scalar_11__f_gprod_y1_0_0 f g t0 t1 y0_0_0 dW_0_0 = GenF.euler_heun_s_scalar_11_y1_0_0 f g t0 t1 y0_0_0 dW_0_0 :=
  rfl

theorem euler_heun_s_scalar_11__f_gprod_field {K : Type} [Field K] [LinearOrder K] (f : K → K → K) (g : K → K → K) (t0 t1 y0_0_0 dW_0_0 : K) :
    Gen.euler_heun_s_scalar_11__f_gprod_y1_0_0 f g t0 t1 y0_0_0 dW_0_0 = Gen.euler_heun_s_scalar_11_y1_0_0 f g t0 t1 y0_0_0 dW_0_0 :=
  rfl

theorem euler_heun_s_scalar_11__fandg_gprod_float (f : Float → Float → Float) (g : Float → Float → Float) (t0 t1 y0_0_0 dW_0_0 : Float) :
    GenF.euler_heun_s_scalar_11__fandg_gprod_y1_0_0 f g t0 t1 y0_0_0 dW_0_0 = GenF.euler_heun_s_scalar_11_y1_0_0 f g t0 t1 y0_0_0 dW_0_0 :=
  rfl

theorem euler_heun_s_scalar_11__fandg_gprod_field {K : Type} [Field K] [LinearOrder K] (f : K → K → K) (g : K → K → K) (t0 t1 y0_0_0 dW_0_0 : K) :
    Gen.euler_heun_s_scalar_11__fandg_gprod_y1_0_0 f g t0 t1 y0_0_0 dW_0_0 = Gen.euler_heun_s_scalar_11_y1_0_0 f g t0 t1 y0_0_0 dW_0_0 :=
  rfl

theorem euler_heun_s_scalar_11__renamed_float (f : Float → Float → Float) (g : Float → Float → Float) (t0 t1 y0_0_0 dW_0_0 : Float) :
    GenF.euler_heun_s_scalar_11__renamed_y1_0_0 f g t0 t1 y0_0_0 dW_0_0 = GenF.euler_heun_s_scalar_11_y1_0_0 f g t0 t1 y0_0_0 dW_0_0 :=
  rfl

theorem euler_heun_s_scalar_11__renamed_field {K : Type} [Field K] [LinearOrder K] (f : K → K → K) (g : K → K → K) (t0 t1 y0_0_0 dW_0_0 : K) :
    Gen.euler_heun_s_scalar_11__renamed_y1_0_0 f g t0 t1 y0_0_0 dW_0_0 = Gen.euler_heun_s_scalar_11_y1_0_0 f g t0 t1 y0_0_0 dW_0_0 :=
  rfl

theorem euler_heun_s_scalar_11__renamed_all_float (f : Float → Float → Float) (g : Float → Float → Float) (t0 t1 y0_0_0 dW_0_0 : Float) :
    GenF.euler_heun_s_scalar_11__renamed_all_y1_0_0 f g t0 t1 y0_0_0 dW_0_0 = GenF.euler_heun_s_scalar_11_y1_0_0 f g t0 t1 y0_0_0 dW_0_0 :=
  rfl

theorem euler_heun_s_scalar_11__renamed_all_field {K : Type} [Field K] [LinearOrder K] (f : K → K → K) (g : K → K → K) (t0 t1 y0_0_0 dW_0_0 : K) :
    Gen.euler_heun_s_scalar_11__renamed_all_y1_0_0 f g t0 t1 y0_0_0 dW_0_0 = Gen.euler_heun_s_scalar_11_y1_0_0 f g t0 t1 y0_0_0 dW_0_0 :=
  rfl

theorem euler_heun_s_general_11__f_g_gprod_float (f : Float → Float → Float) (g : Float → Float → Float) (t0 t1 y0_0_0 dW_0_0 : Float) :
    GenF.euler_heun_s_general_11__f_g_gprod_y1_0_0 f g t0 t1 y0_0_0 dW_0_0 = GenF.euler_heun_s_general_11_y1_0_0 f g t0 t1 y0_0_0 dW_0_0 :=
  rfl

theorem euler_heun_s_general_11__f_g_gprod_field {K : Type} [Field K] [LinearOrder K] (f : K → K → K) (g : K → K → K) (t0 t1 y0_0_0 dW_0_0 : K) :
    Gen.euler_heun_s_general_11__f_g_gprod_y1_0_0 f g t0 t1 y0_0_0 dW_0_0 = Gen.euler_heun_s_general_11_y1_0_0 f g t0 t1 y0_0_0 dW_0_0 :=
  rfl

theorem euler_heun_s_general_11__f_gprod_float (f : Float → Float → Float) (g : Float → Float → Float) (t0 t1 y0_0_0 dW_0_0 : Float) :
    GenF.euler_heun_s_general_11__f_gprod_y1_0_0 f g t0 t1 y0_0_0 dW_0_0 = GenF.euler_heun_s_general_11_y1_0_0 f g t0 t1 y0_0_0 dW_0_0 :=
  rfl

theorem euler_heun_s_general_11__f_gprod_field {K : Type} [Field K] [LinearOrder K] (f : K → K → K) (g : K → K → K) (t0 t1 y0_0_0 dW_0_0 : K) :
    Gen.euler_heun_s_general_11__f_gprod_y1_0_0 f g t0 t1 y0_0_0 dW_0_0 = Gen.euler_heun_s_general_11_y1_0_0 f g t0 t1 y0_0_0 dW_0_0 :=
  rfl

theorem euler_heun_s_general_11__fandg_gprod_float (f : Float → Float → Float) (g : Float → Float → Float) (t0 t1 y0_0_0 dW_0_0 : Float) :
    GenF.euler_heun_s_general_11__fandg_gprod_y1_0_0 f g t0 t1 y0_0_0 dW_0_0 = GenF.euler_heun_s_general_11_y1_0_0 f g t0 t1 y0_0_0 dW_0_0 :=
  rfl

theorem euler_heun_s_general_11__fandg_gprod_field {K : Type} [Field K] [LinearOrder K] (f : K → K → K) (g : K → K → K) (t0 t1 y0_0_0 dW_0_0 : K) :
    Gen.euler_heun_s_general_11__fandg_gprod_y1_0_0 f g t0 t1 y0_0_0 dW_0_0 = Gen.euler_heun_s_general_11_y1_0_0 f g t0 t1 y0_0_0 dW_0_0 :=
  rfl

theorem euler_heun_s_general_11__renamed_float (f : Float → Float → Float) (g : Float → Float → Float) (t0 t1 y0_0_0 dW_0_0 : Float) :
    GenF.euler_heun_s_general_11__renamed_y1_0_0 f g t0 t1 y0_0_0 dW_0_0 = GenF.euler_heun_s_general_11_y1_0_0 f g t0 t1 y0_0_0 dW_0_0 :=
  rfl

theorem euler_heun_s_general_11__renamed_field {K : Type} [Field K] [LinearOrder K] (f : K → K → K) (g : K → K → K) (t0 t1 y0_0_0 dW_0_0 : K) :
    Gen.euler_heun_s_general_11__renamed_y1_0_0 f g t0 t1 y0_0_0 dW_0_0 = Gen.euler_heun_s_general_11_y1_0_0 f g t0 t1 y0_0_0 dW_0_0 :=
  rfl

theorem euler_heun_s_general_11__renamed_all_float (f : Float → Float → Float) (g : Float → Float → Float) (t0 t1 y0_0_0 dW_0_0 : Float) :
    GenF.euler_heun_s_general_11__renamed_all_y1_0_0 f g t0 t1 y0_0_0 dW_0_0 = GenF.euler_heun_s_general_11_y1_0_0 f g t0 t1 y0_0_0 dW_0_0 :=
  rfl

theorem euler_heun_s_general_11__renamed_all_field {K : Type} [Field K] [LinearOrder K] (f : K → K → K) (g : K → K → K) (t0 t1 y0_0_0 dW_0_0 : K) :
    Gen.euler_heun_s_general_11__renamed_all_y1_0_0 f g t0 t1 y0_0_0 dW_0_0 = Gen.euler_heun_s_general_11_y1_0_0 f g t0 t1 y0_0_0 dW_0_0 :=
  rfl

theorem heun_s_diagonal_11__fandg_float (f : Float → Float → Float) (g : Float → Float → Float) (t0 t1 y0_0_0 dW_0_0 : Float) :
    GenF.heun_s_diagonal_11__fandg_y1_0_0 f g t0 t1 y0_0_0 dW_0_0 = GenF.heun_s_diagonal_11_y1_0_0 f g t0 t1 y0_0_0 dW_0_0 :=
  rfl

theorem heun_s_diagonal_11__fandg_field {K : Type} [Field K] [LinearOrder K] (f : K → K → K) (g : K → K → K) (t0 t1 y0_0_0 dW_0_0 : K) :
    Gen.heun_s_diagonal_11__fandg_y1_0_0 f g t0 t1 y0_0_0 dW_0_0 = Gen.heun_s_diagonal_11_y1_0_0 f g t0 t1 y0_0_0 dW_0_0 :=
  rfl

theorem heun_s_diagonal_11__f_g_gprod_float (f : Float → Float → Float) (g : Float → Float → Float) (t0 t1 y0_0_0 dW_0_0 : Float) :
    GenF.heun_s_diagonal_11__f_g_gprod_y1_0_0 f g t0 t1 y0_0_0 dW_0_0 = GenF.heun_s_diagonal_11_y1_0_0 f g t0 t1 y0_0_0 dW_0_0 :=
  rfl

theorem heun_s_diagonal_11__f_g_gprod_field {K : Type} [Field K] [LinearOrder K] (f : K → K → K) (g : K → K → K) (t0 t1 y0_0_0 dW_0_0 : K) :
    Gen.heun_s_diagonal_11__f_g_gprod_y1_0_0 f g t0 t1 y0_0_0 dW_0_0 = Gen.heun_s_diagonal_11_y1_0_0 f g t0 t1 y0_0_0 dW_0_0 :=
  rfl

theorem heun_s_diagonal_11__f_gprod_float (f : Float → Float → Float) (g : Float → Float → Float) (t0 t1 y0_0_0 dW_0_0 : Float) :
    GenF.heun_s_diagonal_11__f_gprod_y1_0_0 f g t0 t1 y0_0_0 dW_0_0 = GenF.heun_s_diagonal_11_y1_0_0 f g t0 t1 y0_0_0 dW_0_0 :=
  rfl

theorem heun_s_diagonal_11__f_gprod_field {K : Type} [Field K] [LinearOrder K] (f : K → K → K) (g : K → K → K) (t0 t1 y0_0_0 dW_0_0 : K) :
    Gen.heun_s_diagonal_11__f_gprod_y1_0_0 f g t0 t1 y0_0_0 dW_0_0 = Gen.heun_s_diagonal_11_y1_0_0 f g t0 t1 y0_0_0 dW_0_0 :=
  rfl

theorem heun_s_diagonal_11__fgprod_float (f : Float → Float → Float) (g : Float → Float → Float) (t0 t1 y0_0_0 dW_0_0 : Float) :
    GenF.heun_s_diagonal_11__fgprod_y1_0_0 f g t0 t1 y0_0_0 dW_0_0 = GenF.heun_s_diagonal_11_y1_0_0 f g t0 t1 y0_0_0 dW_0_0 :=
  rfl

theorem heun_s_diagonal_11__fgprod_field {K : Type} [Field K] [LinearOrder K] (f : K → K → K) (g : K → K → K) (t0 t1 y0_0_0 dW_0_0 : K) :
    Gen.heun_s_diagonal_11__fgprod_y1_0_0 f g t0 t1 y0_0_0 dW_0_0 = Gen.heun_s_diagonal_11_y1_0_0 f g t0 t1 y0_0_0 dW_0_0 :=
  rfl

theorem heun_s_diagonal_11__fandg_gprod_float (f : Float → Float → Float) (g : Float → Float → Float) (t0 t1 y0_0_0 dW_0_0 : Float) :
    GenF.heun_s_diagonal_11__fandg_gprod_y1_0_0 f g t0 t1 y0_0_0 dW_0_0 = GenF.heun_s_diagonal_11_y1_0_0 f g t0 t1 y0_0_0 dW_0_0 :=
  rfl

theorem heun_s_diagonal_11__fandg_gprod_field {K : Type} [Field K] [LinearOrder K] (f : K → K → K) (g : K → K → K) (t0 t1 y0_0_0 dW_0_0 : K) :
    Gen.heun_s_diagonal_11__fandg_gprod_y1_0_0 f g t0 t1 y0_0_0 dW_0_0 = Gen.heun_s_diagonal_11_y1_0_0 f g t0 t1 y0_0_0 dW_0_0 :=
  rfl

theorem heun_s_diagonal_11__fandg_fgprod_float (f : Float → Float → Float) (g : Float → Float → Float) (t0 t1 y0_0_0 dW_0_0 : Float) :
    GenF.heun_s_diagonal_11__fandg_fgprod_y1_0_0 f g t0 t1 y0_0_0 dW_0_0 = GenF.heun_s_diagonal_11_y1_0_0 f g t0 t1 y0_0_0 dW_0_0 :=
  rfl

theorem heun_s_diagonal_11__fandg_fgprod_field {K : Type} [Field K] [LinearOrder K] (f : K → K → K) (g : K → K → K) (t0 t1 y0_0_0 dW_0_0 : K) :
    Gen.heun_s_diagonal_11__fandg_fgprod_y1_0_0 f g t0 t1 y0_0_0 dW_0_0 = Gen.heun_s_diagonal_11_y1_0_0 f g t0 t1 y0_0_0 dW_0_0 :=
  rfl

theorem heun_s_diagonal_11__renamed_float (f : Float → Float → Float) (g : Float → Float → Float) (t0 t1 y0_0_0 dW_0_0 : Float) :
    GenF.heun_s_diagonal_11__renamed_y1_0_0 f g t0 t1 y0_0_0 dW_0_0 = GenF.heun_s_diagonal_11_y1_0_0 f g t0 t1 y0_0_0 dW_0_0 :=
  rfl

theorem heun_s_diagonal_11__renamed_field {K : Type} [Field K] [LinearOrder K] (f : K → K → K) (g : K → K → K) (t0 t1 y0_0_0 dW_0_0 : K) :
    Gen.heun_s_diagonal_11__renamed_y1_0_0 f g t0 t1 y0_0_0 dW_0_0 = Gen.heun_s_diagonal_11_y1_0_0 f g t0 t1 y0_0_0 dW_0_0 :=
  rfl

theorem heun_s_diagonal_11__renamed_all_float (f : Float → Float → Float) (g : Float → Float → Float) (t0 t1 y0_0_0 dW_0_0 : Float) :
    GenF.heun_s_diagonal_11__renamed_all_y1_0_0 f g t0 t1 y0_0_0 dW_0_0 = GenF.heun_s_diagonal_11_y1_0_0 f g t0 t1 y0_0_0 dW_0_0 :=
  rfl

theorem heun_s_diagonal_11__renamed_all_field {K : Type} [Field K] [LinearOrder K] (f : K → K → K) (g : K → K → K) (t0 t1 y0_0_0 dW_0_0 : K) :
    Gen.heun_s_diagonal_11__renamed_all_y1_0_0 f g t0 t1 y0_0_0 dW_0_0 = Gen.heun_s_diagonal_11_y1_0_0 f g t0 t1 y0_0_0 dW_0_0 :=
  rfl

theorem heun_s_additive_11__fandg_float (f : Float → Float → Float) (g : Float → Float) (t0 t1 y0_0_0 dW_0_0 : Float) :
    GenF.heun_s_additive_11__fandg_y1_0_0 f g t0 t1 y0_0_0 dW_0_0 = GenF.heun_s_additive_11_y1_0_0 f g t0 t1 y0_0_0 dW_0_0 :=
  rfl

theorem heun_s_additive_11__fandg_field {K : Type} [Field K] [LinearOrder K] (f : K → K → K) (g : K → K) (t0 t1 y0_0_0 dW_0_0 : K) :
    Gen.heun_s_additive_11__fandg_y1_0_0 f g t0 t1 y0_0_0 dW_0_0 = Gen.heun_s_additive_11_y1_0_0 f g t0 t1 y0_0_0 dW_0_0 :=
  rfl

theorem heun_s_additive_11__f_g_gprod_float (f : Float → Float → Float) (g : Float → Float) (t0 t1 y0_0_0 dW_0_0 : Float) :
    GenF.heun_s_additive_11__f_g_gprod_y1_0_0 f g t0 t1 y0_0_0 dW_0_0 = GenF.heun_s_additive_11_y1_0_0 f g t0 t1 y0_0_0 dW_0_0 :=
  rfl

theorem heun_s_additive_11__f_g_gprod_field {K : Type} [Field K] [LinearOrder K] (f : K → K → K) (g : K → K) (t0 t1 y0_0_0 dW_0_0 : K) :
    Gen.heun_s_additive_11__f_g_gprod_y1_0_0 f g t0 t1 y0_0_0 dW_0_0 = Gen.heun_s_additive_11_y1_0_0 f g t0 t1 y0_0_0 dW_0_0 :=
  rfl

theorem heun_s_additive_11__f_gprod_float (f : Float → Float → Float) (g : Float → Float) (t0 t1 y0_0_0 dW_0_0 : Float) :
    GenF.heun_s_additive_11__f_gprod_y1_0_0 f g t0 t1 y0_0_0 dW_0_0 = GenF.heun_s_additive_11_y1_0_0 f g t0 t1 y0_0_0 dW_0_0 :=
  rfl

theorem heun_s_additive_11__f_gprod_field {K : Type} [Field K] [LinearOrder K] (f : K → K → K) (g : K → K) (t0 t1 y0_0_0 dW_0_0 : K) :
    Gen.heun_s_additive_11__f_gprod_y1_0_0 f g t0 t1 y0_0_0 dW_0_0 = Gen.heun_s_additive_11_y1_0_0 f g t0 t1 y0_0_0 dW_0_0 :=
  rfl

theorem heun_s_additive_11__fgprod_float (f : Float → Float → Float) (g : Float → Float) (t0 t1 y0_0_0 dW_0_0 : Float) :
    GenF.heun_s_additive_11__fgprod_y1_0_0 f g t0 t1 y0_0_0 dW_0_0 = GenF.heun_s_additive_11_y1_0_0 f g t0 t1 y0_0_0 dW_0_0 :=
  rfl

theorem heun_s_additive_11__fgprod_field {K : Type} [Field K] [LinearOrder K] (f : K → K → K) (g : K → K) (t0 t1 y0_0_0 dW_0_0 : K) :
    Gen.heun_s_additive_11__fgprod_y1_0_0 f g t0 t1 y0_0_0 dW_0_0 = Gen.heun_s_additive_11_y1_0_0 f g t0 t1 y0_0_0 dW_0_0 :=
  rfl

theorem heun_s_additive_11__fandg_gprod_float (f : Float → Float → Float) (g : Float → Float) (t0 t1 y0_0_0 dW_0_0 : Float) :
    GenF.heun_s_additive_11__fandg_gprod_y1_0_0 f g t0 t1 y0_0_0 dW_0_0 = GenF.heun_s_additive_11_y1_0_0 f g t0 t1 y0_0_0 dW_0_0 :=
  rfl

theorem heun_s_additive_11__fandg_gprod_field {K : Type} [Field K] [LinearOrder K] (f : K → K → K) (g : K → K) (t0 t1 y0_0_0 dW_0_0 : K) :
    Gen.heun_s_additive_11__fandg_gprod_y1_0_0 f g t0 t1 y0_0_0 dW_0_0 = Gen.heun_s_additive_11_y1_0_0 f g t0 t1 y0_0_0 dW_0_0 :=
  rfl

theorem heun_s_additive_11__fandg_fgprod_float (f : Float → Float → Float) (g : Float → Float) (t0 t1 y0_0_0 dW_0_0 : Float) :
    GenF.heun_s_additive_11__fandg_fgprod_y1_0_0 f g t0 t1 y0_0_0 dW_0_0 = GenF.heun_s_additive_11_y1_0_0 f g t0 t1 y0_0_0 dW_0_0 :=
  rfl

theorem heun_s_additive_11__fandg_fgprod_field {K : Type} [Field K] [LinearOrder K] (f : K → K → K) (g : K → K) (t0 t1 y0_0_0 dW_0_0 : K) :
    Gen.heun_s_additive_11__fandg_fgprod_y1_0_0 f g t0 t1 y0_0_0 dW_0_0 = Gen.heun_s_additive_11_y1_0_0 f g t0 t1 y0_0_0 dW_0_0 :=
  rfl

theorem heun_s_additive_11__renamed_float (f : Float → Float → Float) (g : Float → Float) (t0 t1 y0_0_0 dW_0_0 : Float) :
    GenF.heun_s_additive_11__renamed_y1_0_0 f g t0 t1 y0_0_0 dW_0_0 = GenF.heun_s_additive_11_y1_0_0 f g t0 t1 y0_0_0 dW_0_0 :=
  rfl

theorem heun_s_additive_11__renamed_field {K : Type} [Field K] [LinearOrder K] (f : K → K → K) (g : K → K) (t0 t1 y0_0_0 dW_0_0 : K) :
    Gen.heun_s_additive_11__renamed_y1_0_0 f g t0 t1 y0_0_0 dW_0_0 = Gen.heun_s_additive_11_y1_0_0 f g t0 t1 y0_0_0 dW_0_0 :=
  rfl

theorem heun_s_additive_11__renamed_all_float (f : Float → Float → Float) (g : Float → Float) (t0 t1 y0_0_0 dW_0_0 : Float) :
    GenF.heun_s_additive_11__renamed_all_y1_0_0 f g t0 t1 y0_0_0 dW_0_0 = GenF.heun_s_additive_11_y1_0_0 f g t0 t1 y0_0_0 dW_0_0 :=
  rfl

theorem heun_s_additive_11__renamed_all_field {K : Type} [Field K] [LinearOrder K] (f : K → K → K) (g : K → K) (t0 t1 y0_0_0 dW_0_0 : K) :
    Gen.heun_s_additive_11__renamed_all_y1_0_0 f g t0 t1 y0_0_0 dW_0_0 = Gen.heun_s_additive_11_y1_0_0 f g t0 t1 y0_0_0 dW_0_0 :=
  rfl

theorem heun_s_scalar_11__fandg_float (f : Float → Float → Float) (g : Float → Float → Float) (t0 t1 y0_0_0 dW_0_0 : Float) :
    GenF.heun_s_scalar_11__fandg_y1_0_0 f g t0 t1 y0_0_0 dW_0_0 = GenF.heun_s_scalar_11_y1_0_0 f g t0 t1 y0_0_0 dW_0_0 :=
  rfl

theorem heun_s_scalar_11__fandg_field {K : Type} [Field K] [LinearOrder K] (f : K → K → K) (g : K → K → K) (t0 t1 y0_0_0 dW_0_0 : K) :
    Gen.heun_s_scalar_11__fandg_y1_0_0 f g t0 t1 y0_0_0 dW_0_0 = Gen.heun_s_scalar_11_y1_0_0 f g t0 t1 y0_0_0 dW_0_0 :=
  rfl

theorem heun_s_scalar_11__f_g_gprod_float (f : Float → Float → Float) (g : Float → Float → Float) (t0 t1 y0_0_0 dW_0_0 : Float) :
    GenF.heun_s_scalar_11__f_g_gprod_y1_0_0 f g t0 t1 y0_0_0 dW_0_0 = GenF.heun_s_scalar_11_y1_0_0 f g t0 t1 y0_0_0 dW_0_0 :=
  rfl

theorem heun_s_scalar_11__f_g_gprod_field {K : Type} [Field K] [LinearOrder K] (f : K → K → K) (g : K → K → K) (t0 t1 y0_0_0 dW_0_0 : K) :
    Gen.heun_s_scalar_11__f_g_gprod_y1_0_0 f g t0 t1 y0_0_0 dW_0_0 = Gen.heun_s_scalar_11_y1_0_0 f g t0 t1 y0_0_0 dW_0_0 :=
  rfl

theorem heun_s_scalar_11__f_gprod_float (f : Float → Float → Float) (g : Float → Float → Float) (t0 t1 y0_0_0 dW_0_0 : Float) :
    GenF.heun_s_scalar_11__f_gprod_y1_0_0 f g t0 t1 y0_0_0 dW_0_0 = GenF.heun_s_scalar_11_y1_0_0 f g t0 t1 y0_0_0 dW_0_0 :=
  rfl

theorem heun_s_scalar_11__f_gprod_field {K : Type} [Field K] [LinearOrder K] (f : K → K → K) (g : K → K → K) (t0 t1 y0_0_0 dW_0_0 : K) :
    Gen.heun_s_scalar_11__f_gprod_y1_0_0 f g t0 t1 y0_0_0 dW_0_0 = Gen.heun_s_scalar_11_y1_0_0 f g t0 t1 y0_0_0 dW_0_0 :=
  rfl

theorem heun_s_scalar_11__fgprod_float (f : Float → Float → Float) (g : Float → Float → Float) (t0 t1 y0_0_0 dW_0_0 : Float) :
    GenF.heun_s_scalar_11__fgprod_y1_0_0 f g t0 t1 y0_0_0 dW_0_0 = GenF.heun_s_scalar_11_y1_0_0 f g t0 t1 y0_0_0 dW_0_0 :=
  rfl

theorem heun_s_scalar_11__fgprod_field {K : Type} [Field K] [LinearOrder K] (f : K → K → K) (g : K → K → K) (t0 t1 y0_0_0 dW_0_0 : K) :
    Gen.heun_s_scalar_11__fgprod_y1_0_0 f g t0 t1 y0_0_0 dW_0_0 = Gen.heun_s_scalar_11_y1_0_0 f g t0 t1 y0_0_0 dW_0_0 :=
  rfl

theorem heun_s_scalar_11__fandg_gprod_float (f : Float → Float → Float) (g : Float → Float → Float) (t0 t1 y0_0_0 dW_0_0 : Float) :
    GenF.heun_s_scalar_11__fandg_gprod_y1_0_0 f g t0 t1 y0_0_0 dW_0_0 = GenF.heun_s_scalar_11_y1_0_0 f g t0 t1 y0_0_0 dW_0_0 :=
  rfl

theorem heun_s_scalar_11__fandg_gprod_field {K : Type} [Field K] [LinearOrder K] (f : K → K → K) (g : K → K → K) (t0 t1 y0_0_0 dW_0_0 : K) :
    Gen.heun_s_scalar_11__fandg_gprod_y1_0_0 f g t0 t1 y0_0_0 dW_0_0 = Gen.heun_s_scalar_11_y1_0_0 f g t0 t1 y0_0_0 dW_0_0 :=
  rfl

theorem heun_s_scalar_11__fandg_fgprod_float (f : Float → Float → Float) (g : Float → Float → Float) (t0 t1 y0_0_0 dW_0_0 : Float) :
    GenF.heun_s_scalar_11__fandg_fgprod_y1_0_0 f g t0 t1 y0_0_0 dW_0_0 = GenF.heun_s_scalar_11_y1_0_0 f g t0 t1 y0_0_0 dW_0_0 :=
  rfl

theorem heun_s_scalar_11__fandg_fgprod_field {K : Type} [Field K] [LinearOrder K] (f : K → K → K) (g : K → K → K) (t0 t1 y0_0_0 dW_0_0 : K) :
    Gen.heun_s_scalar_11__fandg_fgprod_y1_0_0 f g t0 t1 y0_0_0 dW_0_0 = Gen.heun_s_scalar_11_y1_0_0 f g t0 t1 y0_0_0 dW_0_0 :=
  rfl

theorem heun_s_scalar_11__renamed_float (f : Float → Float → Float) (g : Float → Float → Float) (t0 t1 y0_0_0 dW_0_0 : Float) :
    GenF.heun_s_scalar_11__renamed_y1_0_0 f g t0 t1 y0_0_0 dW_0_0 = GenF.heun_s_scalar_11_y1_0_0 f g t0 t1 y0_0_0 dW_0_0 :=
  rfl

theorem heun_s_scalar_11__renamed_field {K : Type} [Field K] [LinearOrder K] (f : K → K → K) (g : K → K → K) (t0 t1 y0_0_0 dW_0_0 : K) :
    Gen.heun_s_scalar_11__renamed_y1_0_0 f g t0 t1 y0_0_0 dW_0_0 = Gen.heun_s_scalar_11_y1_0_0 f g t0 t1 y0_0_0 dW_0_0 :=
  rfl

theorem heun_s_scalar_11__renamed_all_float (f : Float → Float → Float) (g : Float → Float → Float) (t0 t1 y0_0_0 dW_0_0 : Float) :
    GenF.heun_s_scalar_11__renamed_all_y1_0_0 f g t0 t1 y0_0_0 dW_0_0 = GenF.heun_s_scalar_11_y1_0_0 f g t0 t1 y0_0_0 dW_0_0 :=
  rfl

theorem heun_s_scalar_11__renamed_all_field {K : Type} [Field K] [LinearOrder K] (f : K → K → K) (g : K → K → K) (t0 t1 y0_0_0 dW_0_0 : K) :
    Gen.heun_s_scalar_11__renamed_all_y1_0_0 f g t0 t1 y0_0_0 dW_0_0 = Gen.heun_s_scalar_11_y1_0_0 f g t0 t1 y0_0_0 dW_0_0 :=
  rfl

theorem heun_s_general_11__fandg_float (f : Float → Float → Float) (g : Float → Float → Float) (t0 t1 y0_0_0 dW_0_0 : Float) :
    GenF.heun_s_general_11__fandg_y1_0_0 f g t0 t1 y0_0_0 dW_0_0 = GenF.heun_s_general_11_y1_0_0 f g t0 t1 y0_0_0 dW_0_0 :=
  rfl

theorem heun_s_general_11__fandg_field {K : Type} [Field K] [LinearOrder K] (f : K → K → K) (g : K → K → K) (t0 t1 y0_0_0 dW_0_0 : K) :
    Gen.heun_s_general_11__fandg_y1_0_0 f g t0 t1 y0_0_0 dW_0_0 = Gen.heun_s_general_11_y1_0_0 f g t0 t1 y0_0_0 dW_0_0 :=
  rfl

theorem heun_s_general_11__f_g_gprod_float (f : Float → Float → Float) (g : Float → Float → Float) (t0 t1 y0_0_0 dW_0_0 : Float) :
    GenF.heun_s_general_11__f_g_gprod_y1_0_0 f g t0 t1 y0_0_0 dW_0_0 = GenF.heun_s_general_11_y1_0_0 f g t0 t1 y0_0_0 dW_0_0 :=
  rfl

theorem heun_s_general_11__f_g_gprod_field {K : Type} [Field K] [LinearOrder K] (f : K → K → K) (g : K → K → K) (t0 t1 y0_0_0 dW_0_0 : K) :
    Gen.heun_s_general_11__f_g_gprod_y1_0_0 f g t0 t1 y0_0_0 dW_0_0 = Gen.heun_s_general_11_y1_0_0 f g t0 t1 y0_0_0 dW_0_0 :=
  rfl

theorem heun_s_general_11__f_gprod_float (f : Float → Float → Float) (g : Float → Float → Float) (t0 t1 y0_0_0 dW_0_0 : Float) :
    GenF.heun_s_general_11__f_gprod_y1_0_0 f g t0 t1 y0_0_0 dW_0_0 = GenF.heun_s_general_11_y1_0_0 f g t0 t1 y0_0_0 dW_0_0 :=
  rfl

theorem heun_s_general_11__f_gprod_field {K : Type} [Field K] [LinearOrder K] (f : K → K → K) (g : K → K → K) (t0 t1 y0_0_0 dW_0_0 : K) :
    Gen.heun_s_general_11__f_gprod_y1_0_0 f g t0 t1 y0_0_0 dW_0_0 = Gen.heun_s_general_11_y1_0_0 f g t0 t1 y0_0_0 dW_0_0 :=
  rfl

theorem heun_s_general_11__fgprod_float (f : Float → Float → Float) (g : Float → Float → Float) (t0 t1 y0_0_0 dW_0_0 : Float) :
    GenF.heun_s_general_11__fgprod_y1_0_0 f g t0 t1 y0_0_0 dW_0_0 = GenF.heun_s_general_11_y1_0_0 f g t0 t1 y0_0_0 dW_0_0 :=
  rfl

theorem heun_s_general_11__fgprod_field {K : Type} [Field K] [LinearOrder K] (f : K → K → K) (g : K → K → K) (t0 t1 y0_0_0 dW_0_0 : K) :
    Gen.heun_s_general_11__fgprod_y1_0_0 f g t0 t1 y0_0_0 dW_0_0 = Gen.heun_s_general_11_y1_0_0 f g t0 t1 y0_0_0 dW_0_0 :=
  rfl

theorem heun_s_general_11__fandg_gprod_float (f : Float → Float → Float) (g : Float → Float → Float) (t0 t1 y0_0_0 dW_0_0 : Float) :
    GenF.heun_s_general_11__fandg_gprod_y1_0_0 f g t0 t1 y0_0_0 dW_0_0 = GenF.heun_s_general_11_y1_0_0 f g t0 t1 y0_0_0 dW_0_0 :=
  rfl

theorem heun_s_general_11__fandg_gprod_field {K : Type} [Field K] [LinearOrder K] (f : K → K → K) (g : K → K → K) (t0 t1 y0_0_0 dW_0_0 : K) :
    Gen.heun_s_general_11__fandg_gprod_y1_0_0 f g t0 t1 y0_0_0 dW_0_0 = Gen.heun_s_general_11_y1_0_0 f g t0 t1 y0_0_0 dW_0_0 :=
  rfl

theorem heun_s_general_11__fandg_fgprod_float (f : Float → Float → Float) (g : Float → Float → Float) (t0 t1 y0_0_0 dW_0_0 : Float) :
    GenF.heun_s_general_11__fandg_fgprod_y1_0_0 f g t0 t1 y0_0_0 dW_0_0 = GenF.heun_s_general_11_y1_0_0 f g t0 t1 y0_0_0 dW_0_0 :=
  rfl

theorem heun_s_general_11__fandg_fgprod_field {K : Type} [Field K] [LinearOrder K] (f : K → K → K) (g : K → K → K) (t0 t1 y0_0_0 dW_0_0 : K) :
    Gen.heun_s_general_11__fandg_fgprod_y1_0_0 f g t0 t1 y0_0_0 dW_0_0 = Gen.heun_s_general_11_y1_0_0 f g t0 t1 y0_0_0 dW_0_0 :=
  rfl

theorem heun_s_general_11__renamed_float (f : Float → Float → Float) (g : Float → Float → Float) (t0 t1 y0_0_0 dW_0_0 : Float) :
    GenF.heun_s_general_11__renamed_y1_0_0 f g t0 t1 y0_0_0 dW_0_0 = GenF.heun_s_general_11_y1_0_0 f g t0 t1 y0_0_0 dW_0_0 :=
  rfl

theorem heun_s_general_11__renamed_field {K : Type} [Field K] [LinearOrder K] (f : K → K → K) (g : K → K → K) (t0 t1 y0_0_0 dW_0_0 : K) :
    Gen.heun_s_general_11__renamed_y1_0_0 f g t0 t1 y0_0_0 dW_0_0 = Gen.heun_s_general_11_y1_0_0 f g t0 t1 y0_0_0 dW_0_0 :=
  rfl

theorem heun_s_general_11__renamed_all_float (f : Float → Float → Float) (g : Float → Float → Float) (t0 t1 y0_0_0 dW_0_0 : Float) :
    GenF.heun_s_general_11__renamed_all_y1_0_0 f g t0 t1 y0_0_0 dW_0_0 = GenF.heun_s_general_11_y1_0_0 f g t0 t1 y0_0_0 dW_0_0 :=
  rfl

theorem heun_s_general_11__renamed_all_field {K : Type} [Field K] [LinearOrder K] (f : K → K → K) (g : K → K → K) (t0 t1 y0_0_0 dW_0_0 : K) :
    Gen.heun_s_general_11__renamed_all_y1_0_0 f g t0 t1 y0_0_0 dW_0_0 = Gen.heun_s_general_11_y1_0_0 f g t0 t1 y0_0_0 dW_0_0 :=
  rfl

theorem midpoint_s_diagonal_11__fandg_float (f : Float → Float → Float) (g : Float → Float → Float) (t0 t1 y0_0_0 dW_0_0 : Float) :
    GenF.midpoint_s_diagonal_11__fandg_y1_0_0 f g t0 t1 y0_0_0 dW_0_0 = GenF.midpoint_s_diagonal_11_y1_0_0 f g t0 t1 y0_0_0 dW_0_0 :=
  rfl

theorem midpoint_s_diagonal_11__fandg_field {K : Type} [Field K] [LinearOrder K] (f : K → K → K) (g : K → K → K) (t0 t1 y0_0_0 dW_0_0 : K) :
    Gen.midpoint_s_diagonal_11__fandg_y1_0_0 f g t0 t1 y0_0_0 dW_0_0 = Gen.midpoint_s_diagonal_11_y1_0_0 f g t0 t1 y0_0_0 dW_0_0 :=
  rfl

theorem midpoint_s_diagonal_11__f_g_gprod_float (f : Float → Float → Float) (g : Float → Float → Float) (t0 t1 y0_0_0 dW_0_0 : Float) :
    GenF.midpoint_s_diagonal_11__f_g_gprod_y1_0_0 f g t0 t1 y0_0_0 dW_0_0 = GenF.midpoint_s_diagonal_11_y1_0_0 f g t0 t1 y0_0_0 dW_0_0 :=
  rfl

theorem midpoint_s_diagonal_11__f_g_gprod_field {K : Type} [Field K] [LinearOrder K] (f : K → K → K) (g : K → K → K) (t0 t1 y0_0_0 dW_0_0 : K) :
    Gen.midpoint_s_diagonal_11__f_g_gprod_y1_0_0 f g t0 t1 y0_0_0 dW_0_0 = Gen.midpoint_s_diagonal_11_y1_0_0 f g t0 t1 y0_0_0 dW_0_0 :=
  rfl

theorem midpoint_s_diagonal_11__f_gprod_float (f : Float → Float → Float) (g : Float → Float → Float) (t0 t1 y0_0_0 dW_0_0 : Float) :
    GenF.midpoint_s_diagonal_11__f_gprod_y1_0_0 f g t0 t1 y0_0_0 dW_0_0 = GenF.midpoint_s_diagonal_11_y1_0_0 f g t0 t1 y0_0_0 dW_0_0 :=
  rfl

theorem midpoint_s_diagonal_11__f_gprod_field {K : Type} [Field K] [LinearOrder K] (f : K → K → K) (g : K → K → K) (t0 t1 y0_0_0 dW_0_0 : K) :
    Gen.midpoint_s_diagonal_11__f_gprod_y1_0_0 f g t0 t1 y0_0_0 dW_0_0 = Gen.midpoint_s_diagonal_11_y1_0_0 f g t0 t1 y0_0_0 dW_0_0 :=
  rfl

theorem midpoint_s_diagonal_11__fgprod_float (f : Float → Float → Float) (g : Float → Float → Float) (t0 t1 y0_0_0 dW_0_0 : Float) :
    GenF.midpoint_s_diagonal_11__fgprod_y1_0_0 f g t0 t1 y0_0_0 dW_0_0 = GenF.midpoint_s_diagonal_11_y1_0_0 f g t0 t1 y0_0_0 dW_0_0 :=
  rfl

theorem midpoint_s_diagonal_11__fgprod_field {K : Type} [Field K] [LinearOrder K] (f : K → K → K) (g : K → K → K) (t0 t1 y0_0_0 dW_0_0 : K) :
    Gen.midpoint_s_diagonal_11__fgprod_y1_0_0 f g t0 t1 y0_0_0 dW_0_0 = Gen.midpoint_s_diagonal_11_y1_0_0 f g t0 t1 y0_0_0 dW_0_0 :=
  rfl

theorem midpoint_s_diagonal_11__fandg_gprod_float (f : Float → Float → Float) (g : Float → Float → Float) (t0 t1 y0_0_0 dW_0_0 : Float) :
    GenF.midpoint_s_diagonal_11__fandg_gprod_y1_0_0 f g t0 t1 y0_0_0 dW_0_0 = GenF.midpoint_s_diagonal_11_y1_0_0 f g t0 t1 y0_0_0 dW_0_0 :=
  rfl

theorem midpoint_s_diagonal_11__fandg_gprod_field {K : Type} [Field K] [LinearOrder K] (f : K → K → K) (g : K → K → K) (t0 t1 y0_0_0 dW_0_0 : K) :
    Gen.midpoint_s_diagonal_11__fandg_gprod_y1_0_0 f g t0 t1 y0_0_0 dW_0_0 = Gen.midpoint_s_diagonal_11_y1_0_0 f g t0 t1 y0_0_0 dW_0_0 :=
  rfl

theorem midpoint_s_diagonal_11__fandg_fgprod_float (f : Float → Float → Float) (g : Float → Float → Float) (t0 t1 y0_0_0 dW_0_0 : Float) :
    GenF.midpoint_s_diagonal_11__fandg_fgprod_y1_0_0 f g t0 t1 y0_0_0 dW_0_0 = GenF.midpoint_s_diagonal_11_y1_0_0 f g t0 t1 y0_0_0 dW_0_0 :=
  rfl

theorem midpoint_s_diagonal_11__fandg_fgprod_field {K : Type} [Field K] [LinearOrder K] (f : K → K → K) (g : K → K → K) (t0 t1 y0_0_0 dW_0_0 : K) :
    Gen.midpoint_s_diagonal_11__fandg_fgprod_y1_0_0 f g t0 t1 y0_0_0 dW_0_0 = Gen.midpoint_s_diagonal_11_y1_0_0 f g t0 t1 y0_0_0 dW_0_0 :=
  rfl

theorem midpoint_s_diagonal_11__renamed_float (f : Float → Float → Float) (g : Float → Float → Float) (t0 t1 y0_0_0 dW_0_0 : Float) :
    GenF.midpoint_s_diagonal_11__renamed_y1_0_0 f g t0 t1 y0_0_0 dW_0_0 = GenF.midpoint_s_diagonal_11_y1_0_0 f g t0 t1 y0_0_0 dW_0_0 :=
  rfl

theorem midpoint_s_diagonal_11__renamed_field {K : Type} [Field K] [LinearOrder K] (f : K → K → K) (g : K → K → K) (t0 t1 y0_0_0 dW_0_0 : K) :
    Gen.midpoint_s_diagonal_11__renamed_y1_0_0 f g t0 t1 y0_0_0 dW_0_0 = Gen.midpoint_s_diagonal_11_y1_0_0 f g t0 t1 y0_0_0 dW_0_0 :=
  rfl

theorem midpoint_s_diagonal_11__renamed_all_float (f : Float → Float → Float) (g : Float → Float → Float) (t0 t1 y0_0_0 dW_0_0 : Float) :
    GenF.midpoint_s_diagonal_11__renamed_all_y1_0_0 f g t0 t1 y0_0_0 dW_0_0 = GenF.midpoint_s_diagonal_11_y1_0_0 f g t0 t1 y0_0_0 dW_0_0 :=
  rfl

theorem midpoint_s_diagonal_11__renamed_all_field {K : Type} [Field K] [LinearOrder K] (f : K → K → K) (g : K → K → K) (t0 t1 y0_0_0 dW_0_0 : K) :
    Gen.midpoint_s_diagonal_11__renamed_all_y1_0_0 f g t0 t1 y0_0_0 dW_0_0 = Gen.midpoint_s_diagonal_11_y1_0_0 f g t0 t1 y0_0_0 dW_0_0 :=
  rfl

theorem midpoint_s_additive_11__fandg_float (f : Float → Float → Float) (g : Float → Float) (t0 t1 y0_0_0 dW_0_0 : Float) :
    GenF.midpoint_s_additive_11__fandg_y1_0_0 f g t0 t1 y0_0_0 dW_0_0 = GenF.midpoint_s_additive_11_y1_0_0 f g t0 t1 y0_0_0 dW_0_0 :=
  rfl

theorem midpoint_s_additive_11__fandg_field {K : Type} [Field K] [LinearOrder K] (f : K → K → K) (g : K → K) (t0 t1 y0_0_0 dW_0_0 : K) :
    Gen.midpoint_s_additive_11__fandg_y1_0_0 f g t0 t1 y0_0_0 dW_0_0 = Gen.midpoint_s_additive_11_y1_0_0 f g t0 t1 y0_0_0 dW_0_0 :=
  rfl

theorem midpoint_s_additive_11__f_g_gprod_float (f : Float → Float → Float) (g : Float → Float) (t0 t1 y0_0_0 dW_0_0 : Float) :
    GenF.midpoint_s_additive_11__f_g_gprod_y1_0_0 f g t0 t1 y0_0_0 dW_0_0 = GenF.midpoint_s_additive_11_y1_0_0 f g t0 t1 y0_0_0 dW_0_0 :=
  rfl

theorem midpoint_s_additive_11__f_g_gprod_field {K : Type} [Field K] [LinearOrder K] (f : K → K → K) (g : K → K) (t0 t1 y0_0_0 dW_0_0 : K) :
    Gen.midpoint_s_additive_11__f_g_gprod_y1_0_0 f g t0 t1 y0_0_0 dW_0_0 = Gen.midpoint_s_additive_11_y1_0_0 f g t0 t1 y0_0_0 dW_0_0 :=
  rfl

theorem midpoint_s_additive_11__f_gprod_float (f : Float → Float → Float) (g : Float → Float) (t0 t1 y0_0_0 dW_0_0 : Float) :
    GenF.midpoint_s_additive_11__f_gprod_y1_0_0 f g t0 t1 y0_0_0 dW_0_0 = GenF.midpoint_s_additive_11_y1_0_0 f g t0 t1 y0_0_0 dW_0_0 :=
  rfl

theorem midpoint_s_additive_11__f_gprod_field {K : Type} [Field K] [LinearOrder K] (f : K → K → K) (g : K → K) (t0 t1 y0_0_0 dW_0_0 : K) :
    Gen.midpoint_s_additive_11__f_gprod_y1_0_0 f g t0 t1 y0_0_0 dW_0_0 = Gen.midpoint_s_additive_11_y1_0_0 f g t0 t1 y0_0_0 dW_0_0 :=
  rfl

theorem midpoint_s_additive_11__fgprod_float (f : Float → Float → Float) (g : Float → Float) (t0 t1 y0_0_0 dW_0_0 : Float) :
    GenF.midpoint_s_additive_11__fgprod_y1_0_0 f g t0 t1 y0_0_0 dW_0_0 = GenF.midpoint_s_additive_11_y1_0_0 f g t0 t1 y0_0_0 dW_0_0 :=
  rfl

theorem midpoint_s_additive_11__fgprod_field {K : Type} [Field K] [LinearOrder K] (f : K → K → K) (g : K → K) (t0 t1 y0_0_0 dW_0_0 : K) :
    Gen.midpoint_s_additive_11__fgprod_y1_0_0 f g t0 t1 y0_0_0 dW_0_0 = Gen.midpoint_s_additive_11_y1_0_0 f g t0 t1 y0_0_0 dW_0_0 :=
  rfl

theorem midpoint_s_additive_11__fandg_gprod_float (f : Float → Float → Float) (g : Float → Float) (t0 t1 y0_0_0 dW_0_0 : Float) :
    GenF.midpoint_s_additive_11__fandg_gprod_y1_0_0 f g t0 t1 y0_0_0 dW_0_0 = GenF.midpoint_s_additive_11_y1_0_0 f g t0 t1 y0_0_0 dW_0_0 :=
  rfl

theorem midpoint_s_additive_11__fandg_gprod_field {K : Type} [Field K] [LinearOrder K] (f : K → K → K) (g : K → K) (t0 t1 y0_0_0 dW_0_0 : K) :
    Gen.midpoint_s_additive_11__fandg_gprod_y1_0_0 f g t0 t1 y0_0_0 dW_0_0 = Gen.midpoint_s_additive_11_y1_0_0 f g t0 t1 y0_0_0 dW_0_0 :=
  rfl

theorem midpoint_s_additive_11__fandg_fgprod_float (f : Float → Float → Float) (g : Float → Float) (t0 t1 y0_0_0 dW_0_0 : Float) :
    GenF.midpoint_s_additive_11__fandg_fgprod_y1_0_0 f g t0 t1 y0_0_0 dW_0_0 = GenF.midpoint_s_additive_11_y1_0_0 f g t0 t1 y0_0_0 dW_0_0 :=
  rfl

theorem midpoint_s_additive_11__fandg_fgprod_field {K : Type} [Field K] [LinearOrder K] (f : K → K → K) (g : K → K) (t0 t1 y0_0_0 dW_0_0 : K) :
    Gen.midpoint_s_additive_11__fandg_fgprod_y1_0_0 f g t0 t1 y0_0_0 dW_0_0 = Gen.midpoint_s_additive_11_y1_0_0 f g t0 t1 y0_0_0 dW_0_0 :=
  rfl

theorem midpoint_s_additive_11__renamed_float (f : Float → Float → Float) (g : Float → Float) (t0 t1 y0_0_0 dW_0_0 : Float) :
    GenF.midpoint_s_additive_11__renamed_y1_0_0 f g t0 t1 y0_0_0 dW_0_0 = GenF.midpoint_s_additive_11_y1_0_0 f g t0 t1 y0_0_0 dW_0_0 :=
  rfl

theorem midpoint_s_additive_11__renamed_field {K : Type} [Field K] [LinearOrder K] (f : K → K → K) (g : K → K) (t0 t1 y0_0_0 dW_0_0 : K) :
    Gen.midpoint_s_additive_11__renamed_y1_0_0 f g t0 t1 y0_0_0 dW_0_0 = Gen.midpoint_s_additive_11_y1_0_0 f g t0 t1 y0_0_0 dW_0_0 :=
  rfl

theorem midpoint_s_additive_11__renamed_all_float (f : Float → Float → Float) (g : Float → Float) (t0 t1 y0_0_0 dW_0_0 : Float) :
    GenF.midpoint_s_additive_11__renamed_all_y1_0_0 f g t0 t1 y0_0_0 dW_0_0 = GenF.midpoint_s_additive_11_y1_0_0 f g t0 t1 y0_0_0 dW_0_0 :=
  rfl

theorem midpoint_s_additive_11__renamed_all_field {K : Type} [Field K] [LinearOrder K] (f : K → K → K) (g : K → K) (t0 t1 y0_0_0 dW_0_0 : K) :
    Gen.midpoint_s_additive_11__renamed_all_y1_0_0 f g t0 t1 y0_0_0 dW_0_0 = Gen.midpoint_s_additive_11_y1_0_0 f g t0 t1 y0_0_0 dW_0_0 :=
  rfl

theorem midpoint_s_scalar_11__fandg_float (f : Float → Float → Float) (g : Float → Float → Float) (t0 t1 y0_0_0 dW_0_0 : Float) :
    GenF.midpoint_s_scalar_11__fandg_y1_0_0 f g t0 t1 y0_0_0 dW_0_0 = GenF.midpoint_s_scalar_11_y1_0_0 f g t0 t1 y0_0_0 dW_0_0 :=
  rfl

theorem midpoint_s_scalar_11__fandg_field {K : Type} [Field K] [LinearOrder K] (f : K → K → K) (g : K → K → K) (t0 t1 y0_0_0 dW_0_0 : K) :
    Gen.midpoint_s_scalar_11__fandg_y1_0_0 f g t0 t1 y0_0_0 dW_0_0 = Gen.midpoint_s_scalar_11_y1_0_0 f g t0 t1 y0_0_0 dW_0_0 :=
  rfl

theorem midpoint_s_scalar_11__f_g_gprod_float (f : Float → Float → Float) (g : Float → Float → Float) (t0 t1 y0_0_0 dW_0_0 : Float) :
    GenF.midpoint_s_scalar_11__f_g_gprod_y1_0_0 f g t0 t1 y0_0_0 dW_0_0 = GenF.midpoint_s_scalar_11_y1_0_0 f g t0 t1 y0_0_0 dW_0_0 :=
  rfl

theorem midpoint_s_scalar_11__f_g_gprod_field {K : Type} [Field K] [LinearOrder K] (f : K → K → K) (g : K → K → K) (t0 t1 y0_0_0 dW_0_0 : K) :
    Gen.midpoint_s_scalar_11__f_g_gprod_y1_0_0 f g t0 t1 y0_0_0 dW_0_0 = Gen.midpoint_s_scalar_11_y1_0_0 f g t0 t1 y0_0_0 dW_0_0 :=
  rfl

theorem midpoint_s_scalar_11__f_gprod_float (f : Float → Float → Float) (g : Float → Float → Float) (t0 t1 y0_0_0 dW_0_0 : Float) :
    GenF.midpoint_s_scalar_11__f_gprod_y1_0_0 f g t0 t1 y0_0_0 dW_0_0 = GenF.midpoint_s_scalar_11_y1_0_0 f g t0 t1 y0_0_0 dW_0_0 :=
  rfl

theorem midpoint_s_scalar_11__f_gprod_field {K : Type} [Field K] [LinearOrder K] (f : K → K → K) (g : K → K → K) (t0 t1 y0_0_0 dW_0_0 : K) :
    Gen.midpoint_s_scalar_11__f_gprod_y1_0_0 f g t0 t1 y0_0_0 dW_0_0 = Gen.midpoint_s_scalar_11_y1_0_0 f g t0 t1 y0_0_0 dW_0_0 :=
  rfl

theorem midpoint_s_scalar_11__fgprod_float (f : Float → Float → Float) (g : Float → Float → Float) (t0 t1 y0_0_0 dW_0_0 : Float) :
    GenF.midpoint_s_scalar_11__fgprod_y1_0_0 f g t0 t1 y0_0_0 dW_0_0 = GenF.midpoint_s_scalar_11_y1_0_0 f g t0 t1 y0_0_0 dW_0_0 :=
  rfl

theorem midpoint_s_scalar_11__fgprod_field {K : Type} [Field K] [LinearOrder K] (f : K → K → K) (g : K → K → K) (t0 t1 y0_0_0 dW_0_0 : K) :
    Gen.midpoint_s_scalar_11__fgprod_y1_0_0 f g t0 t1 y0_0_0 dW_0_0 = Gen.midpoint_s_scalar_11_y1_0_0 f g t0 t1 y0_0_0 dW_0_0 :=
  rfl

theorem midpoint_s_scalar_11__fandg_gprod_float (f : Float → Float → Float) (g : Float → Float → Float) (t0 t1 y0_0_0 dW_0_0 : Float) :
    GenF.midpoint_s_scalar_11__fandg_gprod_y1_0_0 f g t0 t1 y0_0_0 dW_0_0 = GenF.midpoint_s_scalar_11_y1_0_0 f g t0 t1 y0_0_0 dW_0_0 :=
  rfl

theorem midpoint_s_scalar_11__fandg_gprod_field {K : Type} [Field K] [LinearOrder K] (f : K → K → K) (g : K → K → K) (t0 t1 y0_0_0 dW_0_0 : K) :
    Gen.midpoint_s_scalar_11__fandg_gprod_y1_0_0 f g t0 t1 y0_0_0 dW_0_0 = Gen.midpoint_s_scalar_11_y1_0_0 f g t0 t1 y0_0_0 dW_0_0 :=
  rfl

theorem midpoint_s_scalar_11__fandg_fgprod_float (f : Float → Float → Float) (g : Float → Float → Float) (t0 t1 y0_0_0 dW_0_0 : Float) :
    GenF.midpoint_s_scalar_11__fandg_fgprod_y1_0_0 f g t0 t1 y0_0_0 dW_0_0 = GenF.midpoint_s_scalar_11_y1_0_0 f g t0 t1 y0_0_0 dW_0_0 :=
  rfl

theorem midpoint_s_scalar_11__fandg_fgprod_field {K : Type} [Field K] [LinearOrder K] (f : K → K → K) (g : K → K → K) (t0 t1 y0_0_0 dW_0_0 : K) :
    Gen.midpoint_s_scalar_11__fandg_fgprod_y1_0_0 f g t0 t1 y0_0_0 dW_0_0 = Gen.midpoint_s_scalar_11_y1_0_0 f g t0 t1 y0_0_0 dW_0_0 :=
  rfl

theorem midpoint_s_scalar_11__renamed_float (f : Float → Float → Float) (g : Float → Float → Float) (t0 t1 y0_0_0 dW_0_0 : Float) :
    GenF.midpoint_s_scalar_11__renamed_y1_0_0 f g t0 t1 y0_0_0 dW_0_0 = GenF.midpoint_s_scalar_11_y1_0_0 f g t0 t1 y0_0_0 dW_0_0 :=
  rfl

theorem midpoint_s_scalar_11__renamed_field {K : Type} [Field K] [LinearOrder K] (f : K → K → K) (g : K → K → K) (t0 t1 y0_0_0 dW_0_0 : K) :
    Gen.midpoint_s_scalar_11__renamed_y1_0_0 f g t0 t1 y0_0_0 dW_0_0 = Gen.midpoint_s_scalar_11_y1_0_0 f g t0 t1 y0_0_0 dW_0_0 :=
  rfl

theorem midpoint_s_scalar_11__renamed_all_float (f : Float → Float → Float) (g : Float → Float → Float) (t0 t1 y0_0_0 dW_0_0 : Float) :
    GenF.midpoint_s_scalar_11__renamed_all_y1_0_0 f g t0 t1 y0_0_0 dW_0_0 = GenF.midpoint_s_scalar_11_y1_0_0 f g t0 t1 y0_0_0 dW_0_0 :=
  rfl

theorem midpoint_s_scalar_11__renamed_all_field {K : Type} [Field K] [LinearOrder K] (f : K → K → K) (g : K → K → K) (t0 t1 y0_0_0 dW_0_0 : K) :
    Gen.midpoint_s_scalar_11__renamed_all_y1_0_0 f g t0 t1 y0_0_0 dW_0_0 = Gen.midpoint_s_scalar_11_y1_0_0 f g t0 t1 y0_0_0 dW_0_0 :=
  rfl

theorem midpoint_s_general_11__fandg_float (f : Float → Float → Float) (g : Float → Float → Float) (t0 t1 y0_0_0 dW_0_0 : Float) :
    GenF.midpoint_s_general_11__fandg_y1_0_0 f g t0 t1 y0_0_0 dW_0_0 = GenF.midpoint_s_general_11_y1_0_0 f g t0 t1 y0_0_0 dW_0_0 :=
  rfl

theorem midpoint_s_general_11__fandg_field {K : Type} [Field K] [LinearOrder K] (f : K → K → K) (g : K → K → K) (t0 t1 y0_0_0 dW_0_0 : K) :
    Gen.midpoint_s_general_11__fandg_y1_0_0 f g t0 t1 y0_0_0 dW_0_0 = Gen.midpoint_s_general_11_y1_0_0 f g t0 t1 y0_0_0 dW_0_0 :=
  rfl

theorem midpoint_s_general_11__f_g_gprod_float (f : Float → Float → Float) (g : Float → Float → Float) (t0 t1 y0_0_0 dW_0_0 : Float) :
    GenF.midpoint_s_general_11__f_g_gprod_y1_0_0 f g t0 t1 y0_0_0 dW_0_0 = GenF.midpoint_s_general_11_y1_0_0 f g t0 t1 y0_0_0 dW_0_0 :=
  rfl

theorem midpoint_s_general_11__f_g_gprod_field {K : Type} [Field K] [LinearOrder K] (f : K → K → K) (g : K → K → K) (t0 t1 y0_0_0 dW_0_0 : K) :
    Gen.midpoint_s_general_11__f_g_gprod_y1_0_0 f g t0 t1 y0_0_0 dW_0_0 = Gen.midpoint_s_general_11_y1_0_0 f g t0 t1 y0_0_0 dW_0_0 :=
  rfl

theorem midpoint_s_general_11__f_gprod_float (f : Float → Float → Float) (g : Float → Float → Float) (t0 t1 y0_0_0 dW_0_0 : Float) :
    GenF.midpoint_s_general_11__f_gprod_y1_0_0 f g t0 t1 y0_0_0 dW_0_0 = GenF.midpoint_s_general_11_y1_0_0 f g t0 t1 y0_0_0 dW_0_0 :=
  rfl

theorem midpoint_s_general_11__f_gprod_field {K : Type} [Field K] [LinearOrder K] (f : K → K → K) (g : K → K → K) (t0 t1 y0_0_0 dW_0_0 : K) :
    Gen.midpoint_s_general_11__f_gprod_y1_0_0 f g t0 t1 y0_0_0 dW_0_0 = Gen.midpoint_s_general_11_y1_0_0 f g t0 t1 y0_0_0 dW_0_0 :=
  rfl

theorem midpoint_s_general_11__fgprod_float (f : Float → Float → Float) (g : Float → Float → Float) (t0 t1 y0_0_0 dW_0_0 : Float) :
    GenF.midpoint_s_general_11__fgprod_y1_0_0 f g t0 t1 y0_0_0 dW_0_0 = GenF.midpoint_s_general_11_y1_0_0 f g t0 t1 y0_0_0 dW_0_0 :=
  rfl

theorem midpoint_s_general_11__fgprod_field {K : Type} [Field K] [LinearOrder K] (f : K → K → K) (g : K → K → K) (t0 t1 y0_0_0 dW_0_0 : K) :
    Gen.midpoint_s_general_11__fgprod_y1_0_0 f g t0 t1 y0_0_0 dW_0_0 = Gen.midpoint_s_general_11_y1_0_0 f g t0 t1 y0_0_0 dW_0_0 :=
  rfl

theorem midpoint_s_general_11__fandg_gprod_float (f : Float → Float → Float) (g : Float → Float → Float) (t0 t1 y0_0_0 dW_0_0 : Float) :
    GenF.midpoint_s_general_11__fandg_gprod_y1_0_0 f g t0 t1 y0_0_0 dW_0_0 = GenF.midpoint_s_general_11_y1_0_0 f g t0 t1 y0_0_0 dW_0_0 :=
  rfl

theorem midpoint_s_general_11__fandg_gprod_field {K : Type} [Field K] [LinearOrder K] (f : K → K → K) (g : K → K → K) (t0 t1 y0_0_0 dW_0_0 : K) :
    Gen.midpoint_s_general_11__fandg_gprod_y1_0_0 f g t0 t1 y0_0_0 dW_0_0 = Gen.midpoint_s_general_11_y1_0_0 f g t0 t1 y0_0_0 dW_0_0 :=
  rfl

theorem midpoint_s_general_11__fandg_fgprod_float (f : Float → Float → Float) (g : Float → Float → Float) (t0 t1 y0_0_0 dW_0_0 : Float) :
    GenF.midpoint_s_general_11__fandg_fgprod_y1_0_0 f g t0 t1 y0_0_0 dW_0_0 = GenF.midpoint_s_general_11_y1_0_0 f g t0 t1 y0_0_0 dW_0_0 :=
  rfl

theorem midpoint_s_general_11__fandg_fgprod_field {K : Type} [Field K] [LinearOrder K] (f : K → K → K) (g : K → K → K) (t0 t1 y0_0_0 dW_0_0 : K) :
    Gen.midpoint_s_general_11__fandg_fgprod_y1_0_0 f g t0 t1 y0_0_0 dW_0_0 = Gen.midpoint_s_general_11_y1_0_0 f g t0 t1 y0_0_0 dW_0_0 :=
  rfl

theorem midpoint_s_general_11__renamed_float (f : Float → Float → Float) (g : Float → Float → Float) (t0 t1 y0_0_0 dW_0_0 : Float) :
    GenF.midpoint_s_general_11__renamed_y1_0_0 f g t0 t1 y0_0_0 dW_0_0 = GenF.midpoint_s_general_11_y1_0_0 f g t0 t1 y0_0_0 dW_0_0 :=
  rfl

theorem midpoint_s_general_11__renamed_field {K : Type} [Field K] [LinearOrder K] (f : K → K → K) (g : K → K → K) (t0 t1 y0_0_0 dW_0_0 : K) :
    Gen.midpoint_s_general_11__renamed_y1_0_0 f g t0 t1 y0_0_0 dW_0_0 = Gen.midpoint_s_general_11_y1_0_0 f g t0 t1 y0_0_0 dW_0_0 :=
  rfl

theorem midpoint_s_general_11__renamed_all_float (f : Float → Float → Float) (g : Float → Float → Float) (t0 t1 y0_0_0 dW_0_0 : Float) :
    GenF.midpoint_s_general_11__renamed_all_y1_0_0 f g t0 t1 y0_0_0 dW_0_0 = GenF.midpoint_s_general_11_y1_0_0 f g t0 t1 y0_0_0 dW_0_0 :=
  rfl

theorem midpoint_s_general_11__renamed_all_field {K : Type} [Field K] [LinearOrder K] (f : K → K → K) (g : K → K → K) (t0 t1 y0_0_0 dW_0_0 : K) :
    Gen.midpoint_s_general_11__renamed_all_y1_0_0 f g t0 t1 y0_0_0 dW_0_0 = Gen.midpoint_s_general_11_y1_0_0 f g t0 t1 y0_0_0 dW_0_0 :=
  rfl

theorem log_ode_s_diagonal_11__fandg_float (f : Float → Float → Float) (g : Float → Float → Float) (t0 t1 y0_0_0 dW_0_0 U_0_0 A_0_0_0 : Float) :
    GenF.log_ode_s_diagonal_11__fandg_y1_0_0 f g t0 t1 y0_0_0 dW_0_0 U_0_0 A_0_0_0 = GenF.log_ode_s_diagonal_11_y1_0_0 f g t0 t1 y0_0_0 dW_0_0 U_0_0 A_0_0_0 :=
  rfl

theorem log_ode_s_diagonal_11__fandg_field {K : Type} [Field K] [LinearOrder K] (f : K → K → K) (g : K → K → K) (t0 t1 y0_0_0 dW_0_0 U_0_0 A_0_0_0 : K) :
    Gen.log_ode_s_diagonal_11__fandg_y1_0_0 f g t0 t1 y0_0_0 dW_0_0 U_0_0 A_0_0_0 = Gen.log_ode_s_diagonal_11_y1_0_0 f g t0 t1 y0_0_0 dW_0_0 U_0_0 A_0_0_0 :=
  rfl

theorem log_ode_s_diagonal_11__f_g_gprod_float (f : Float → Float → Float) (g : Float → Float → Float) (t0 t1 y0_0_0 dW_0_0 U_0_0 A_0_0_0 : Float) :
    GenF.log_ode_s_diagonal_11__f_g_gprod_y1_0_0 f g t0 t1 y0_0_0 dW_0_0 U_0_0 A_0_0_0 = GenF.log_ode_s_diagonal_11_y1_0_0 f g t0 t1 y0_0_0 dW_0_0 U_0_0 A_0_0_0 :=
  rfl

theorem log_ode_s_diagonal_11__f_g_gprod_field {K : Type} [Field K] [LinearOrder K] (f : K → K → K) (g : K → K → K) (t0 t1 y0_0_0 dW_0_0 U_0_0 A_0_0_0 : K) :
    Gen.log_ode_s_diagonal_11__f_g_gprod_y1_0_0 f g t0 t1 y0_0_0 dW_0_0 U_0_0 A_0_0_0 = Gen.log_ode_s_diagonal_11_y1_0_0 f g t0 t1 y0_0_0 dW_0_0 U_0_0 A_0_0_0 :=
  rfl

theorem log_ode_s_diagonal_11__f_gprod_float (f : Float → Float → Float) (g : Float → Float → Float) (t0 t1 y0_0_0 dW_0_0 U_0_0 A_0_0_0 : Float) :
    GenF.log_ode_s_diagonal_11__f_gprod_y1_0_0 f g t0 t1 y0_0_0 dW_0_0 U_0_0 A_0_0_0 = GenF.log_ode_s_diagonal_11_y1_0_0 f g t0 t1 y0_0_0 dW_0_0 U_0_0 A_0_0_0 :=
  rfl

theorem log_ode_s_diagonal_11__f_gprod_field {K : Type} [Field K] [LinearOrder K] (f : K → K → K) (g : K → K → K) (t0 t1 y0_0_0 dW_0_0 U_0_0 A_0_0_0 : K) :
    Gen.log_ode_s_diagonal_11__f_gprod_y1_0_0 f g t0 t1 y0_0_0 dW_0_0 U_0_0 A_0_0_0 = Gen.log_ode_s_diagonal_11_y1_0_0 f g t0 t1 y0_0_0 dW_0_0 U_0_0 A_0_0_0 :=
  rfl

theorem log_ode_s_diagonal_11__fgprod_float (f : Float → Float → Float) (g : Float → Float → Float) (t0 t1 y0_0_0 dW_0_0 U_0_0 A_0_0_0 : Float) :
    GenF.log_ode_s_diagonal_11__fgprod_y1_0_0 f g t0 t1 y0_0_0 dW_0_0 U_0_0 A_0_0_0 = GenF.log_ode_s_diagonal_11_y1_0_0 f g t0 t1 y0_0_0 dW_0_0 U_0_0 A_0_0_0 :=
  rfl

theorem log_ode_s_diagonal_11__fgprod_field {K : Type} [Field K] [LinearOrder K] (f : K → K → K) (g : K → K → K) (t0 t1 y0_0_0 dW_0_0 U_0_0 A_0_0_0 : K) :
    Gen.log_ode_s_diagonal_11__fgprod_y1_0_0 f g t0 t1 y0_0_0 dW_0_0 U_0_0 A_0_0_0 = Gen.log_ode_s_diagonal_11_y1_0_0 f g t0 t1 y0_0_0 dW_0_0 U_0_0 A_0_0_0 :=
  rfl

theorem log_ode_s_diagonal_11__fandg_gprod_float (f : Float → Float → Float) (g : Float → Float → Float) (t0 t1 y0_0_0 dW_0_0 U_0_0 A_0_0_0 : Float) :
    GenF.log_ode_s_diagonal_11__fandg_gprod_y1_0_0 f g t0 t1 y0_0_0 dW_0_0 U_0_0 A_0_0_0 = GenF.log_ode_s_diagonal_11_y1_0_0 f g t0 t1 y0_0_0 dW_0_0 U_0_0 A_0_0_0 :=
  rfl

theorem log_ode_s_diagonal_11__fandg_gprod_field {K : Type} [Field K] [LinearOrder K] (f : K → K → K) (g : K → K → K) (t0 t1 y0_0_0 dW_0_0 U_0_0 A_0_0_0 : K) :
    Gen.log_ode_s_diagonal_11__fandg_gprod_y1_0_0 f g t0 t1 y0_0_0 dW_0_0 U_0_0 A_0_0_0 = Gen.log_ode_s_diagonal_11_y1_0_0 f g t0 t1 y0_0_0 dW_0_0 U_0_0 A_0_0_0 :=
  rfl

theorem log_ode_s_diagonal_11__fandg_fgprod_float (f : Float → Float → Float) (g : Float → Float → Float) (t0 t1 y0_0_0 dW_0_0 U_0_0 A_0_0_0 : Float) :
    GenF.log_ode_s_diagonal_11__fandg_fgprod_y1_0_0 f g t0 t1 y0_0_0 dW_0_0 U_0_0 A_0_0_0 = GenF.log_ode_s_diagonal_11_y1_0_0 f g t0 t1 y0_0_0 dW_0_0 U_0_0 A_0_0_0 :=
  rfl

theorem log_ode_s_diagonal_11__fandg_fgprod_field {K : Type} [Field K] [LinearOrder K] (f : K → K → K) (g : K → K → K) (t0 t1 y0_0_0 dW_0_0 U_0_0 A_0_0_0 : K) :
    Gen.log_ode_s_diagonal_11__fandg_fgprod_y1_0_0 f g t0 t1 y0_0_0 dW_0_0 U_0_0 A_0_0_0 = Gen.log_ode_s_diagonal_11_y1_0_0 f g t0 t1 y0_0_0 dW_0_0 U_0_0 A_0_0_0 :=
  rfl

theorem log_ode_s_diagonal_11__renamed_float (f : Float → Float → Float) (g : Float → Float → Float) (t0 t1 y0_0_0 dW_0_0 U_0_0 A_0_0_0 : Float) :
    GenF.log_ode_s_diagonal_11__renamed_y1_0_0 f g t0 t1 y0_0_0 dW_0_0 U_0_0 A_0_0_0 = GenF.log_ode_s_diagonal_11_y1_0_0 f g t0 t1 y0_0_0 dW_0_0 U_0_0 A_0_0_0 :=
  rfl

theorem log_ode_s_diagonal_11__renamed_field {K : Type} [Field K] [LinearOrder K] (f : K → K → K) (g : K → K → K) (t0 t1 y0_0_0 dW_0_0 U_0_0 A_0_0_0 : K) :
    Gen.log_ode_s_diagonal_11__renamed_y1_0_0 f g t0 t1 y0_0_0 dW_0_0 U_0_0 A_0_0_0 = Gen.log_ode_s_diagonal_11_y1_0_0 f g t0 t1 y0_0_0 dW_0_0 U_0_0 A_0_0_0 :=
  rfl

theorem log_ode_s_diagonal_11__renamed_all_float (f : Float → Float → Float) (g : Float → Float → Float) (t0 t1 y0_0_0 dW_0_0 U_0_0 A_0_0_0 : Float) :
    GenF.log_ode_s_diagonal_11__renamed_all_y1_0_0 f g t0 t1 y0_0_0 dW_0_0 U_0_0 A_0_0_0 = GenF.log_ode_s_diagonal_11_y1_0_0 f g t0 t1 y0_0_0 dW_0_0 U_0_0 A_0_0_0 :=
  rfl

theorem log_ode_s_diagonal_11__renamed_all_field {K : Type} [Field K] [LinearOrder K] (f : K → K → K) (g : K → K → K) (t0 t1 y0_0_0 dW_0_0 U_0_0 A_0_0_0 : K) :
    Gen.log_ode_s_diagonal_11__renamed_all_y1_0_0 f g t0 t1 y0_0_0 dW_0_0 U_0_0 A_0_0_0 = Gen.log_ode_s_diagonal_11_y1_0_0 f g t0 t1 y0_0_0 dW_0_0 U_0_0 A_0_0_0 :=
  rfl

theorem log_ode_s_additive_11__fandg_float (f : Float → Float → Float) (g : Float → Float) (t0 t1 y0_0_0 dW_0_0 U_0_0 A_0_0_0 : Float) :
    GenF.log_ode_s_additive_11__fandg_y1_0_0 f g t0 t1 y0_0_0 dW_0_0 U_0_0 A_0_0_0 = GenF.log_ode_s_additive_11_y1_0_0 f g t0 t1 y0_0_0 dW_0_0 U_0_0 A_0_0_0 :=
  rfl

theorem log_ode_s_additive_11__fandg_field {K : Type} [Field K] [LinearOrder K] (f : K → K → K) (g : K → K) (t0 t1 y0_0_0 dW_0_0 U_0_0 A_0_0_0 : K) :
    Gen.log_ode_s_additive_11__fandg_y1_0_0 f g t0 t1 y0_0_0 dW_0_0 U_0_0 A_0_0_0 = Gen.log_ode_s_additive_11_y1_0_0 f g t0 t1 y0_0_0 dW_0_0 U_0_0 A_0_0_0 :=
  rfl

theorem log_ode_s_additive_11__f_g_gprod_float (f : Float → Float → Float) (g : Float → Float) (t0 t1 y0_0_0 dW_0_0 U_0_0 A_0_0_0 : Float) :
    GenF.log_ode_s_additive_11__f_g_gprod_y1_0_0 f g t0 t1 y0_0_0 dW_0_0 U_0_0 A_0_0_0 = GenF.log_ode_s_additive_11_y1_0_0 f g t0 t1 y0_0_0 dW_0_0 U_0_0 A_0_0_0 :=
  rfl

theorem log_ode_s_additive_11__f_g_gprod_field {K : Type} [Field K] [LinearOrder K] (f : K → K → K) (g : K → K) (t0 t1 y0_0_0 dW_0_0 U_0_0 A_0_0_0 : K) :
    Gen.log_ode_s_additive_11__f_g_gprod_y1_0_0 f g t0 t1 y0_0_0 dW_0_0 U_0_0 A_0_0_0 = Gen.log_ode_s_additive_11_y1_0_0 f g t0 t1 y0_0_0 dW_0_0 U_0_0 A_0_0_0 :=
  rfl

theorem log_ode_s_additive_11__f_gprod_float (f : Float → Float → Float) (g : Float → Float) (t0 t1 y0_0_0 dW_0_0 U_0_0 A_0_0_0 : Float) :
    GenF.log_ode_s_additive_11__f_gprod_y1_0_0 f g t0 t1 y0_0_0 dW_0_0 U_0_0 A_0_0_0 = GenF.log_ode_s_additive_11_y1_0_0 f g t0 t1 y0_0_0 dW_0_0 U_0_0 A_0_0_0 :=
  rfl

theorem log_ode_s_additive_11__f_gprod_field {K : Type} [Field K] [LinearOrder K] (f : K → K → K) (g : K → K) (t0 t1 y0_0_0 dW_0_0 U_0_0 A_0_0_0 : K) :
    Gen.log_ode_s_additive_11__f_gprod_y1_0_0 f g t0 t1 y0_0_0 dW_0_0 U_0_0 A_0_0_0 = Gen.log_ode_s_additive_11_y1_0_0 f g t0 t1 y0_0_0 dW_0_0 U_0_0 A_0_0_0 :=
  rfl

theorem log_ode_s_additive_11__fgprod_float (f : Float → Float → Float) (g : Float → Float) (t0 t1 y0_0_0 dW_0_0 U_0_0 A_0_0_0 : Float) :
    GenF.log_ode_s_additive_11__fgprod_y1_0_0 f g t0 t1 y0_0_0 dW_0_0 U_0_0 A_0_0_0 = GenF.log_ode_s_additive_11_y1_0_0 f g t0 t1 y0_0_0 dW_0_0 U_0_0 A_0_0_0 :=
  rfl

theorem log_ode_s_additive_11__fgprod_field {K : Type} [Field K] [LinearOrder K] (f : K → K → K) (g : K → K) (t0 t1 y0_0_0 dW_0_0 U_0_0 A_0_0_0 : K) :
    Gen.log_ode_s_additive_11__fgprod_y1_0_0 f g t0 t1 y0_0_0 dW_0_0 U_0_0 A_0_0_0 = Gen.log_ode_s_additive_11_y1_0_0 f g t0 t1 y0_0_0 dW_0_0 U_0_0 A_0_0_0 :=
  rfl

theorem log_ode_s_additive_11__fandg_gprod_float (f : Float → Float → Float) (g : Float → Float) (t0 t1 y0_0_0 dW_0_0 U_0_0 A_0_0_0 : Float) :
    GenF.log_ode_s_additive_11__fandg_gprod_y1_0_0 f g t0 t1 y0_0_0 dW_0_0 U_0_0 A_0_0_0 = GenF.log_ode_s_additive_11_y1_0_0 f g t0 t1 y0_0_0 dW_0_0 U_0_0 A_0_0_0 :=
  rfl

theorem log_ode_s_additive_11__fandg_gprod_field {K : Type} [Field K] [LinearOrder K] (f : K → K → K) (g : K → K) (t0 t1 y0_0_0 dW_0_0 U_0_0 A_0_0_0 : K) :
    Gen.log_ode_s_additive_11__fandg_gprod_y1_0_0 f g t0 t1 y0_0_0 dW_0_0 U_0_0 A_0_0_0 = Gen.log_ode_s_additive_11_y1_0_0 f g t0 t1 y0_0_0 dW_0_0 U_0_0 A_0_0_0 :=
  rfl

theorem log_ode_s_additive_11__fandg_fgprod_float (f : Float → Float → Float) (g : Float → Float) (t0 t1 y0_0_0 dW_0_0 U_0_0 A_0_0_0 : Float) :
    GenF.log_ode_s_additive_11__fandg_fgprod_y1_0_0 f g t0 t1 y0_0_0 dW_0_0 U_0_0 A_0_0_0 = GenF.log_ode_s_additive_11_y1_0_0 f g t0 t1 y0_0_0 dW_0_0 U_0_0 A_0_0_0 :=
  rfl

theorem log_ode_s_additive_11__fandg_fgprod_field {K : Type} [Field K] [LinearOrder K] (f : K → K → K) (g : K → K) (t0 t1 y0_0_0 dW_0_0 U_0_0 A_0_0_0 : K) :
    Gen.log_ode_s_additive_11__fandg_fgprod_y1_0_0 f g t0 t1 y0_0_0 dW_0_0 U_0_0 A_0_0_0 = Gen.log_ode_s_additive_11_y1_0_0 f g t0 t1 y0_0_0 dW_0_0 U_0_0 A_0_0_0 :=
  rfl

theorem log_ode_s_additive_11__renamed_float (f : Float → Float → Float) (g : Float → Float) (t0 t1 y0_0_0 dW_0_0 U_0_0 A_0_0_0 : Float) :
    GenF.log_ode_s_additive_11__renamed_y1_0_0 f g t0 t1 y0_0_0 dW_0_0 U_0_0 A_0_0_0 = GenF.log_ode_s_additive_11_y1_0_0 f g t0 t1 y0_0_0 dW_0_0 U_0_0 A_0_0_0 :=
  rfl

theorem log_ode_s_additive_11__renamed_field {K : Type} [Field K] [LinearOrder K] (f : K → K → K) (g : K → K) (t0 t1 y0_0_0 dW_0_0 U_0_0 A_0_0_0 : K) :
    Gen.log_ode_s_additive_11__renamed_y1_0_0 f g t0 t1 y0_0_0 dW_0_0 U_0_0 A_0_0_0 = Gen.log_ode_s_additive_11_y1_0_0 f g t0 t1 y0_0_0 dW_0_0 U_0_0 A_0_0_0 :=
  rfl

theorem log_ode_s_additive_11__renamed_all_float (f : Float → Float → Float) (g : Float → Float) (t0 t1 y0_0_0 dW_0_0 U_0_0 A_0_0_0 : Float) :
    GenF.log_ode_s_additive_11__renamed_all_y1_0_0 f g t0 t1 y0_0_0 dW_0_0 U_0_0 A_0_0_0 = GenF.log_ode_s_additive_11_y1_0_0 f g t0 t1 y0_0_0 dW_0_0 U_0_0 A_0_0_0 :=
  rfl

theorem log_ode_s_additive_11__renamed_all_field {K : Type} [Field K] [LinearOrder K] (f : K → K → K) (g : K → K) (t0 t1 y0_0_0 dW_0_0 U_0_0 A_0_0_0 : K) :
    Gen.log_ode_s_additive_11__renamed_all_y1_0_0 f g t0 t1 y0_0_0 dW_0_0 U_0_0 A_0_0_0 = Gen.log_ode_s_additive_11_y1_0_0 f g t0 t1 y0_0_0 dW_0_0 U_0_0 A_0_0_0 :=
  rfl

theorem log_ode_s_scalar_11__fandg_float (f : Float → Float → Float) (g : Float → Float → Float) (t0 t1 y0_0_0 dW_0_0 U_0_0 A_0_0_0 : Float) :
    GenF.log_ode_s_scalar_11__fandg_y1_0_0 f g t0 t1 y0_0_0 dW_0_0 U_0_0 A_0_0_0 = GenF.log_ode_s_scalar_11_y1_0_0 f g t0 t1 y0_0_0 dW_0_0 U_0_0 A_0_0_0 :=
  rfl

theorem log_ode_s_scalar_11__fandg_field {K : Type} [Field K] [LinearOrder K] (f : K → K → K) (g : K → K → K) (t0 t1 y0_0_0 dW_0_0 U_0_0 A_0_0_0 : K) :
    Gen.log_ode_s_scalar_11__fandg_y1_0_0 f g t0 t1 y0_0_0 dW_0_0 U_0_0 A_0_0_0 = Gen.log_ode_s_scalar_11_y1_0_0 f g t0 t1 y0_0_0 dW_0_0 U_0_0 A_0_0_0 :=
  rfl

theorem log_ode_s_scalar_11__f_g_gprod_float (f : Float → Float → Float) (g : Float → Float → Float) (t0 t1 y0_0_0 dW_0_0 U_0_0 A_0_0_0 : Float) :
    GenF.log_ode_s_scalar_11__f_g_gprod_y1_0_0 f g t0 t1 y0_0_0 dW_0_0 U_0_0 A_0_0_0 = GenF.log_ode_s_scalar_11_y1_0_0 f g t0 t1 y0_0_0 dW_0_0 U_0_0 A_0_0_0 :=
  rfl

theorem log_ode_s_scalar_11__f_g_gprod_field {K : Type} [Field K] [LinearOrder K] (f : K → K → K) (g : K → K → K) (t0 t1 y0_0_0 dW_0_0 U_0_0 A_0_0_0 : K) :
    Gen.log_ode_s_scalar_11__f_g_gprod_y1_0_0 f g t0 t1 y0_0_0 dW_0_0 U_0_0 A_0_0_0 = Gen.log_ode_s_scalar_11_y1_0_0 f g t0 t1 y0_0_0 dW_0_0 U_0_0 A_0_0_0 :=
  rfl

theorem log_ode_s_scalar_11__f_gprod_float (f : Float → Float → Float) (g : Float → Float → Float) (t0 t1 y0_0_0 dW_0_0 U_0_0 A_0_0_0 : Float) :
    GenF.log_ode_s_scalar_11__f_gprod_y1_0_0 f g t0 t1 y0_0_0 dW_0_0 U_0_0 A_0_0_0 = GenF.log_ode_s_scalar_11_y1_0_0 f g t0 t1 y0_0_0 dW_0_0 U_0_0 A_0_0_0 :=
  rfl

theorem log_ode_s_scalar_11__f_gprod_field {K : Type} [Field K] [LinearOrder K] (f : K → K → K) (g : K → K → K) (t0 t1 y0_0_0 dW_0_0 U_0_0 A_0_0_0 : K) :
    Gen.log_ode_s_scalar_11__f_gprod_y1_0_0 f g t0 t1 y0_0_0 dW_0_0 U_0_0 A_0_0_0 = Gen.log_ode_s_scalar_11_y1_0_0 f g t0 t1 y0_0_0 dW_0_0 U_0_0 A_0_0_0 :=
  rfl

theorem log_ode_s_scalar_11__fgprod_float (f : Float → Float → Float) (g : Float → Float → Float) (t0 t1 y0_0_0 dW_0_0 U_0_0 A_0_0_0 : Float) :
    GenF.log_ode_s_scalar_11__fgprod_y1_0_0 f g t0 t1 y0_0_0 dW_0_0 U_0_0 A_0_0_0 = GenF.log_ode_s_scalar_11_y1_0_0 f g t0 t1 y0_0_0 dW_0_0 U_0_0 A_0_0_0 :=
  rfl

theorem log_ode_s_scalar_11__fgprod_field {K : Type} [Field K] [LinearOrder K] (f : K → K → K) (g : K → K → K) (t0 t1 y0_0_0 dW_0_0 U_0_0 A_0_0_0 : K) :
    Gen.log_ode_s_scalar_11__fgprod_y1_0_0 f g t0 t1 y0_0_0 dW_0_0 U_0_0 A_0_0_0 = Gen.log_ode_s_scalar_11_y1_0_0 f g t0 t1 y0_0_0 dW_0_0 U_0_0 A_0_0_0 :=
  rfl

theorem log_ode_s_scalar_11__fandg_gprod_float (f : Float → Float → Float) (g : Float → Float → Float) (t0 t1 y0_0_0 dW_0_0 U_0_0 A_0_0_0 : Float) :
    GenF.log_ode_s_scalar_11__fandg_gprod_y1_0_0 f g t0 t1 y0_0_0 dW_0_0 U_0_0 A_0_0_0 = GenF.log_ode_s_scalar_11_y1_0_0 f g t0 t1 y0_0_0 dW_0_0 U_0_0 A_0_0_0 :=
  rfl

theorem log_ode_s_scalar_11__fandg_gprod_field {K : Type} [Field K] [LinearOrder K] (f : K → K → K) (g : K → K → K) (t0 t1 y0_0_0 dW_0_0 U_0_0 A_0_0_0 : K) :
    Gen.log_ode_s_scalar_11__fandg_gprod_y1_0_0 f g t0 t1 y0_0_0 dW_0_0 U_0_0 A_0_0_0 = Gen.log_ode_s_scalar_11_y1_0_0 f g t0 t1 y0_0_0 dW_0_0 U_0_0 A_0_0_0 :=
  rfl

theorem log_ode_s_scalar_11__fandg_fgprod_float (f : Float → Float → Float) (g : Float → Float → Float) (t0 t1 y0_0_0 dW_0_0 U_0_0 A_0_0_0 : Float) :
    GenF.log_ode_s_scalar_11__fandg_fgprod_y1_0_0 f g t0 t1 y0_0_0 dW_0_0 U_0_0 A_0_0_0 = GenF.log_ode_s_scalar_11_y1_0_0 f g t0 t1 y0_0_0 dW_0_0 U_0_0 A_0_0_0 :=
  rfl

theorem log_ode_s_scalar_11__fandg_fgprod_field {K : Type} [Field K] [LinearOrder K] (f : K → K → K) (g : K → K → K) (t0 t1 y0_0_0 dW_0_0 U_0_0 A_0_0_0 : K) :
    Gen.log_ode_s_scalar_11__fandg_fgprod_y1_0_0 f g t0 t1 y0_0_0 dW_0_0 U_0_0 A_0_0_0 = Gen.log_ode_s_scalar_11_y1_0_0 f g t0 t1 y0_0_0 dW_0_0 U_0_0 A_0_0_0 :=
  rfl

theorem log_ode_s_scalar_11__renamed_float (f : Float → Float → Float) (g : Float → Float → Float) (t0 t1 y0_0_0 dW_0_0 U_0_0 A_0_0_0 : Float) :
    GenF.log_ode_s_scalar_11__renamed_y1_0_0 f g t0 t1 y0_0_0 dW_0_0 U_0_0 A_0_0_0 = GenF.log_ode_s_scalar_11_y1_0_0 f g t0 t1 y0_0_0 dW_0_0 U_0_0 A_0_0_0 :=
  rfl

theorem log_ode_s_scalar_11__renamed_field {K : Type} [Field K] [LinearOrder K] (f : K → K → K) (g : K → K → K) (t0 t1 y0_0_0 dW_0_0 U_0_0 A_0_0_0 : K) :
    Gen.log_ode_s_scalar_11__renamed_y1_0_0 f g t0 t1 y0_0_0 dW_0_0 U_0_0 A_0_0_0 = Gen.log_ode_s_scalar_11_y1_0_0 f g t0 t1 y0_0_0 dW_0_0 U_0_0 A_0_0_0 :=
  rfl

theorem log_ode_s_scalar_11__renamed_all_float (f : Float → Float → Float) (g : Float → Float → Float) (t0 t1 y0_0_0 dW_0_0 U_0_0 A_0_0_0 : Float) :
    GenF.log_ode_s_scalar_11__renamed_all_y1_0_0 f g t0 t1 y0_0_0 dW_0_0 U_0_0 A_0_0_0 = GenF.log_ode_s_scalar_11_y1_0_0 f g t0 t1 y0_0_0 dW_0_0 U_0_0 A_0_0_0 :=
  rfl

theorem log_ode_s_scalar_11__renamed_all_field {K : Type} [Field K] [LinearOrder K] (f : K → K → K) (g : K → K → K) (t0 t1 y0_0_0 dW_0_0 U_0_0 A_0_0_0 : K) :
    Gen.log_ode_s_scalar_11__renamed_all_y1_0_0 f g t0 t1 y0_0_0 dW_0_0 U_0_0 A_0_0_0 = Gen.log_ode_s_scalar_11_y1_0_0 f g t0 t1 y0_0_0 dW_0_0 U_0_0 A_0_0_0 :=
  rfl

theorem log_ode_s_general_11__f_g_gprod_float (f : Float → Float → Float) (g : Float → Float → Float) (g_d1 : Float → Float → Float) (t0 t1 y0_0_0 dW_0_0 U_0_0 A_0_0_0 : Float) :
    GenF.log_ode_s_general_11__f_g_gprod_y1_0_0 f g g_d1 t0 t1 y0_0_0 dW_0_0 U_0_0 A_0_0_0 = GenF.log_ode_s_general_11_y1_0_0 f g g_d1 t0 t1 y0_0_0 dW_0_0 U_0_0 A_0_0_0 :=
  rfl

theorem log_ode_s_general_11__f_g_gprod_field {K : Type} [Field K] [LinearOrder K] (f : K → K → K) (g : K → K → K) (g_d1 : K → K → K) (t0 t1 y0_0_0 dW_0_0 U_0_0 A_0_0_0 : K) :
    Gen.log_ode_s_general_11__f_g_gprod_y1_0_0 f g g_d1 t0 t1 y0_0_0 dW_0_0 U_0_0 A_0_0_0 = Gen.log_ode_s_general_11_y1_0_0 f g g_d1 t0 t1 y0_0_0 dW_0_0 U_0_0 A_0_0_0 :=
  rfl

theorem log_ode_s_general_11__renamed_float (f : Float → Float → Float) (g : Float → Float → Float) (g_d1 : Float → Float → Float) (t0 t1 y0_0_0 dW_0_0 U_0_0 A_0_0_0 : Float) :
    GenF.log_ode_s_general_11__renamed_y1_0_0 f g g_d1 t0 t1 y0_0_0 dW_0_0 U_0_0 A_0_0_0 = GenF.log_ode_s_general_11_y1_0_0 f g g_d1 t0 t1 y0_0_0 dW_0_0 U_0_0 A_0_0_0 :=
  rfl

theorem log_ode_s_general_11__renamed_field {K : Type} [Field K] [LinearOrder K] (f : K → K → K) (g : K → K → K) (g_d1 : K → K → K) (t0 t1 y0_0_0 dW_0_0 U_0_0 A_0_0_0 : K) :
    Gen.log_ode_s_general_11__renamed_y1_0_0 f g g_d1 t0 t1 y0_0_0 dW_0_0 U_0_0 A_0_0_0 = Gen.log_ode_s_general_11_y1_0_0 f g g_d1 t0 t1 y0_0_0 dW_0_0 U_0_0 A_0_0_0 :=
  rfl

theorem log_ode_s_general_11__renamed_all_float (f : Float → Float → Float) (g : Float → Float → Float) (g_d1 : Float → Float → Float) (t0 t1 y0_0_0 dW_0_0 U_0_0 A_0_0_0 : Float) :
    GenF.log_ode_s_general_11__renamed_all_y1_0_0 f g g_d1 t0 t1 y0_0_0 dW_0_0 U_0_0 A_0_0_0 = GenF.log_ode_s_general_11_y1_0_0 f g g_d1 t0 t1 y0_0_0 dW_0_0 U_0_0 A_0_0_0 :=
  rfl

theorem log_ode_s_general_11__renamed_all_field {K : Type} [Field K] [LinearOrder K] (f : K → K → K) (g : K → K → K) (g_d1 : K → K → K) (t0 t1 y0_0_0 dW_0_0 U_0_0 A_0_0_0 : K) :
    Gen.log_ode_s_general_11__renamed_all_y1_0_0 f g g_d1 t0 t1 y0_0_0 dW_0_0 U_0_0 A_0_0_0 = Gen.log_ode_s_general_11_y1_0_0 f g g_d1 t0 t1 y0_0_0 dW_0_0 U_0_0 A_0_0_0 :=
  rfl

theorem reversible_heun_s_diagonal_11__fandg_float (f : Float → Float → Float) (g : Float → Float → Float) (t0 t1 y0_0_0 dW_0_0 z0_0_0 f0_0_0 g0_0_0 : Float) :
    GenF.reversible_heun_s_diagonal_11__fandg_y1_0_0 f g t0 t1 y0_0_0 dW_0_0 z0_0_0 f0_0_0 g0_0_0 = GenF.reversible_heun_s_diagonal_11_y1_0_0 f g t0 t1 y0_0_0 dW_0_0 z0_0_0 f0_0_0 g0_0_0 ∧
    GenF.reversible_heun_s_diagonal_11__fandg_f1_0_0 f g t0 t1 y0_0_0 dW_0_0 z0_0_0 f0_0_0 g0_0_0 = GenF.reversible_heun_s_diagonal_11_f1_0_0 f g t0 t1 y0_0_0 dW_0_0 z0_0_0 f0_0_0 g0_0_0 ∧
    GenF.reversible_heun_s_diagonal_11__fandg_g1_0_0 f g t0 t1 y0_0_0 dW_0_0 z0_0_0 f0_0_0 g0_0_0 = GenF.reversible_heun_s_diagonal_11_g1_0_0 f g t0 t1 y0_0_0 dW_0_0 z0_0_0 f0_0_0 g0_0_0 ∧
    GenF.reversible_heun_s_diagonal_11__fandg_z1_0_0 f g t0 t1 y0_0_0 dW_0_0 z0_0_0 f0_0_0 g0_0_0 = GenF.reversible_heun_s_diagonal_11_z1_0_0 f g t0 t1 y0_0_0 dW_0_0 z0_0_0 f0_0_0 g0_0_0 :=
  ⟨rfl, rfl, rfl, rfl⟩

theorem reversible_heun_s_diagonal_11__fandg_field {K : Type} [Field K] [LinearOrder K] (f : K → K → K) (g : K → K → K) (t0 t1 y0_0_0 dW_0_0 z0_0_0 f0_0_0 g0_0_0 : K) :
    Gen.reversible_heun_s_diagonal_11__fandg_y1_0_0 f g t0 t1 y0_0_0 dW_0_0 z0_0_0 f0_0_0 g0_0_0 = Gen.reversible_heun_s_diagonal_11_y1_0_0 f g t0 t1 y0_0_0 dW_0_0 z0_0_0 f0_0_0 g0_0_0 ∧
    Gen.reversible_heun_s_diagonal_11__fandg_f1_0_0 f g t0 t1 y0_0_0 dW_0_0 z0_0_0 f0_0_0 g0_0_0 = Gen.reversible_heun_s_diagonal_11_f1_0_0 f g t0 t1 y0_0_0 dW_0_0 z0_0_0 f0_0_0 g0_0_0 ∧
    Gen.reversible_heun_s_diagonal_11__fandg_g1_0_0 f g t0 t1 y0_0_0 dW_0_0 z0_0_0 f0_0_0 g0_0_0 = Gen.reversible_heun_s_diagonal_11_g1_0_0 f g t0 t1 y0_0_0 dW_0_0 z0_0_0 f0_0_0 g0_0_0 ∧
    Gen.reversible_heun_s_diagonal_11__fandg_z1_0_0 f g t0 t1 y0_0_0 dW_0_0 z0_0_0 f0_0_0 g0_0_0 = Gen.reversible_heun_s_diagonal_11_z1_0_0 f g t0 t1 y0_0_0 dW_0_0 z0_0_0 f0_0_0 g0_0_0 :=
  ⟨rfl, rfl, rfl, rfl⟩

theorem reversible_heun_s_diagonal_11__f_g_gprod_float (f : Float → Float → Float) (g : Float → Float → Float) (t0 t1 y0_0_0 dW_0_0 z0_0_0 f0_0_0 g0_0_0 : Float) :
    GenF.reversible_heun_s_diagonal_11__f_g_gprod_y1_0_0 f g t0 t1 y0_0_0 dW_0_0 z0_0_0 f0_0_0 g0_0_0 = GenF.reversible_heun_s_diagonal_11_y1_0_0 f g t0 t1 y0_0_0 dW_0_0 z0_0_0 f0_0_0 g0_0_0 ∧
    GenF.reversible_heun_s_diagonal_11__f_g_gprod_f1_0_0 f g t0 t1 y0_0_0 dW_0_0 z0_0_0 f0_0_0 g0_0_0 = GenF.reversible_heun_s_diagonal_11_f1_0_0 f g t0 t1 y0_0_0 dW_0_0 z0_0_0 f0_0_0 g0_0_0 ∧
    GenF.reversible_heun_s_diagonal_11__f_g_gprod_g1_0_0 f g t0 t1 y0_0_0 dW_0_0 z0_0_0 f0_0_0 g0_0_0 = GenF.reversible_heun_s_diagonal_11_g1_0_0 f g t0 t1 y0_0_0 dW_0_0 z0_0_0 f0_0_0 g0_0_0 ∧
    GenF.reversible_heun_s_diagonal_11__f_g_gprod_z1_0_0 f g t0 t1 y0_0_0 dW_0_0 z0_0_0 f0_0_0 g0_0_0 = GenF.reversible_heun_s_diagonal_11_z1_0_0 f g t0 t1 y0_0_0 dW_0_0 z0_0_0 f0_0_0 g0_0_0 :=
  ⟨rfl, rfl, rfl, rfl⟩

theorem reversible_heun_s_diagonal_11__f_g_gprod_field {K : Type} [Field K] [LinearOrder K] (f : K → K → K) (g : K → K → K) (t0 t1 y0_0_0 dW_0_0 z0_0_0 f0_0_0 g0_0_0 : K) :
    Gen.reversible_heun_s_diagonal_11__f_g_gprod_y1_0_0 f g t0 t1 y0_0_0 dW_0_0 z0_0_0 f0_0_0 g0_0_0 = Gen.reversible_heun_s_diagonal_11_y1_0_0 f g t0 t1 y0_0_0 dW_0_0 z0_0_0 f0_0_0 g0_0_0 ∧
    Gen.reversible_heun_s_diagonal_11__f_g_gprod_f1_0_0 f g t0 t1 y0_0_0 dW_0_0 z0_0_0 f0_0_0 g0_0_0 = Gen.reversible_heun_s_diagonal_11_f1_0_0 f g t0 t1 y0_0_0 dW_0_0 z0_0_0 f0_0_0 g0_0_0 ∧
    Gen.reversible_heun_s_diagonal_11__f_g_gprod_g1_0_0 f g t0 t1 y0_0_0 dW_0_0 z0_0_0 f0_0_0 g0_0_0 = Gen.reversible_heun_s_diagonal_11_g1_0_0 f g t0 t1 y0_0_0 dW_0_0 z0_0_0 f0_0_0 g0_0_0 ∧
    Gen.reversible_heun_s_diagonal_11__f_g_gprod_z1_0_0 f g t0 t1 y0_0_0 dW_0_0 z0_0_0 f0_0_0 g0_0_0 = Gen.reversible_heun_s_diagonal_11_z1_0_0 f g t0 t1 y0_0_0 dW_0_0 z0_0_0 f0_0_0 g0_0_0 :=
  ⟨rfl, rfl, rfl, rfl⟩

theorem reversible_heun_s_diagonal_11__fandg_gprod_float (f : Float → Float → Float) (g : Float → Float → Float) (t0 t1 y0_0_0 dW_0_0 z0_0_0 f0_0_0 g0_0_0 : Float) :
    GenF.reversible_heun_s_diagonal_11__fandg_gprod_y1_0_0 f g t0 t1 y0_0_0 dW_0_0 z0_0_0 f0_0_0 g0_0_0 = GenF.reversible_heun_s_diagonal_11_y1_0_0 f g t0 t1 y0_0_0 dW_0_0 z0_0_0 f0_0_0 g0_0_0 ∧
    GenF.reversible_heun_s_diagonal_11__fandg_gprod_f1_0_0 f g t0 t1 y0_0_0 dW_0_0 z0_0_0 f0_0_0 g0_0_0 = GenF.reversible_heun_s_diagonal_11_f1_0_0 f g t0 t1 y0_0_0 dW_0_0 z0_0_0 f0_0_0 g0_0_0 ∧
    GenF.reversible_heun_s_diagonal_11__fandg_gprod_g1_0_0 f g t0 t1 y0_0_0 dW_0_0 z0_0_0 f0_0_0 g0_0_0 = GenF.reversible_heun_s_diagonal_11_g1_0_0 f g t0 t1 y0_0_0 dW_0_0 z0_0_0 f0_0_0 g0_0_0 ∧
    GenF.reversible_heun_s_diagonal_11__fandg_gprod_z1_0_0 f g t0 t1 y0_0_0 dW_0_0 z0_0_0 f0_0_0 g0_0_0 = GenF.reversible_heun_s_diagonal_11_z1_0_0 f g t0 t1 y0_0_0 dW_0_0 z0_0_0 f0_0_0 g0_0_0 :=
  ⟨rfl, rfl, rfl, rfl⟩

theorem reversible_heun_s_diagonal_11__fandg_gprod_field {K : Type} [Field K] [LinearOrder K] (f : K → K → K) (g : K → K → K) (t0 t1 y0_0_0 dW_0_0 z0_0_0 f0_0_0 g0_0_0 : K) :
    Gen.reversible_heun_s_diagonal_11__fandg_gprod_y1_0_0 f g t0 t1 y0_0_0 dW_0_0 z0_0_0 f0_0_0 g0_0_0 = Gen.reversible_heun_s_diagonal_11_y1_0_0 f g t0 t1 y0_0_0 dW_0_0 z0_0_0 f0_0_0 g0_0_0 ∧
    Gen.reversible_heun_s_diagonal_11__fandg_gprod_f1_0_0 f g t0 t1 y0_0_0 dW_0_0 z0_0_0 f0_0_0 g0_0_0 = Gen.reversible_heun_s_diagonal_11_f1_0_0 f g t0 t1 y0_0_0 dW_0_0 z0_0_0 f0_0_0 g0_0_0 ∧
    Gen.reversible_heun_s_diagonal_11__fandg_gprod_g1_0_0 f g t0 t1 y0_0_0 dW_0_0 z0_0_0 f0_0_0 g0_0_0 = Gen.reversible_heun_s_diagonal_11_g1_0_0 f g t0 t1 y0_0_0 dW_0_0 z0_0_0 f0_0_0 g0_0_0 ∧
    Gen.reversible_heun_s_diagonal_11__fandg_gprod_z1_0_0 f g t0 t1 y0_0_0 dW_0_0 z0_0_0 f0_0_0 g0_0_0 = Gen.reversible_heun_s_diagonal_11_z1_0_0 f g t0 t1 y0_0_0 dW_0_0 z0_0_0 f0_0_0 g0_0_0 :=
  ⟨rfl, rfl, rfl, rfl⟩

theorem reversible_heun_s_diagonal_11__fandg_fgprod_float (f : Float → Float → Float) (g : Float → Float → Float) (t0 t1 y0_0_0 dW_0_0 z0_0_0 f0_0_0 g0_0_0 : Float) :
    GenF.reversible_heun_s_diagonal_11__fandg_fgprod_y1_0_0 f g t0 t1 y0_0_0 dW_0_0 z0_0_0 f0_0_0 g0_0_0 = GenF.reversible_heun_s_diagonal_11_y1_0_0 f g t0 t1 y0_0_0 dW_0_0 z0_0_0 f0_0_0 g0_0_0 ∧
    GenF.reversible_heun_s_diagonal_11__fandg_fgprod_f1_0_0 f g t0 t1 y0_0_0 dW_0_0 z0_0_0 f0_0_0 g0_0_0 = GenF.reversible_heun_s_diagonal_11_f1_0_0 f g t0 t1 y0_0_0 dW_0_0 z0_0_0 f0_0_0 g0_0_0 ∧
    GenF.reversible_heun_s_diagonal_11__fandg_fgprod_g1_0_0 f g t0 t1 y0_0_0 dW_0_0 z0_0_0 f0_0_0 g0_0_0 = GenF.reversible_heun_s_diagonal_11_g1_0_0 f g t0 t1 y0_0_0 dW_0_0 z0_0_0 f0_0_0 g0_0_0 ∧
    GenF.reversible_heun_s_diagonal_11__fandg_fgprod_z1_0_0 f g t0 t1 y0_0_0 dW_0_0 z0_0_0 f0_0_0 g0_0_0 = GenF.reversible_heun_s_diagonal_11_z1_0_0 f g t0 t1 y0_0_0 dW_0_0 z0_0_0 f0_0_0 g0_0_0 :=
  ⟨rfl, rfl, rfl, rfl⟩

theorem reversible_heun_s_diagonal_11__fandg_fgprod_field {K : Type} [Field K] [LinearOrder K] (f : K → K → K) (g : K → K → K) (t0 t1 y0_0_0 dW_0_0 z0_0_0 f0_0_0 g0_0_0 : K) :
    Gen.reversible_heun_s_diagonal_11__fandg_fgprod_y1_0_0 f g t0 t1 y0_0_0 dW_0_0 z0_0_0 f0_0_0 g0_0_0 = Gen.reversible_heun_s_diagonal_11_y1_0_0 f g t0 t1 y0_0_0 dW_0_0 z0_0_0 f0_0_0 g0_0_0 ∧
    Gen.reversible_heun_s_diagonal_11__fandg_fgprod_f1_0_0 f g t0 t1 y0_0_0 dW_0_0 z0_0_0 f0_0_0 g0_0_0 = Gen.reversible_heun_s_diagonal_11_f1_0_0 f g t0 t1 y0_0_0 dW_0_0 z0_0_0 f0_0_0 g0_0_0 ∧
    Gen.reversible_heun_s_diagonal_11__fandg_fgprod_g1_0_0 f g t0 t1 y0_0_0 dW_0_0 z0_0_0 f0_0_0 g0_0_0 = Gen.reversible_heun_s_diagonal_11_g1_0_0 f g t0 t1 y0_0_0 dW_0_0 z0_0_0 f0_0_0 g0_0_0 ∧
    Gen.reversible_heun_s_diagonal_11__fandg_fgprod_z1_0_0 f g t0 t1 y0_0_0 dW_0_0 z0_0_0 f0_0_0 g0_0_0 = Gen.reversible_heun_s_diagonal_11_z1_0_0 f g t0 t1 y0_0_0 dW_0_0 z0_0_0 f0_0_0 g0_0_0 :=
  ⟨rfl, rfl, rfl, rfl⟩

theorem reversible_heun_s_diagonal_11__renamed_float (f : Float → Float → Float) (g : Float → Float → Float) (t0 t1 y0_0_0 dW_0_0 z0_0_0 f0_0_0 g0_0_0 : Float) :
    GenF.reversible_heun_s_diagonal_11__renamed_y1_0_0 f g t0 t1 y0_0_0 dW_0_0 z0_0_0 f0_0_0 g0_0_0 = GenF.reversible_heun_s_diagonal_11_y1_0_0 f g t0 t1 y0_0_0 dW_0_0 z0_0_0 f0_0_0 g0_0_0 ∧
    GenF.reversible_heun_s_diagonal_11__renamed_f1_0_0 f g t0 t1 y0_0_0 dW_0_0 z0_0_0 f0_0_0 g0_0_0 = GenF.reversible_heun_s_diagonal_11_f1_0_0 f g t0 t1 y0_0_0 dW_0_0 z0_0_0 f0_0_0 g0_0_0 ∧
    GenF.reversible_heun_s_diagonal_11__renamed_g1_0_0 f g t0 t1 y0_0_0 dW_0_0 z0_0_0 f0_0_0 g0_0_0 = GenF.reversible_heun_s_diagonal_11_g1_0_0 f g t0 t1 y0_0_0 dW_0_0 z0_0_0 f0_0_0 g0_0_0 ∧
    GenF.reversible_heun_s_diagonal_11__renamed_z1_0_0 f g t0 t1 y0_0_0 dW_0_0 z0_0_0 f0_0_0 g0_0_0 = GenF.reversible_heun_s_diagonal_11_z1_0_0 f g t0 t1 y0_0_0 dW_0_0 z0_0_0 f0_0_0 g0_0_0 :=
  ⟨rfl, rfl, rfl, rfl⟩

theorem reversible_heun_s_diagonal_11__renamed_field {K : Type} [Field K] [LinearOrder K] (f : K → K → K) (g : K → K → K) (t0 t1 y0_0_0 dW_0_0 z0_0_0 f0_0_0 g0_0_0 : K) :
    Gen.reversible_heun_s_diagonal_11__renamed_y1_0_0 f g t0 t1 y0_0_0 dW_0_0 z0_0_0 f0_0_0 g0_0_0 = Gen.reversible_heun_s_diagonal_11_y1_0_0 f g t0 t1 y0_0_0 dW_0_0 z0_0_0 f0_0_0 g0_0_0 ∧
    Gen.reversible_heun_s_diagonal_11__renamed_f1_0_0 f g t0 t1 y0_0_0 dW_0_0 z0_0_0 f0_0_0 g0_0_0 = Gen.reversible_heun_s_diagonal_11_f1_0_0 f g t0 t1 y0_0_0 dW_0_0 z0_0_0 f0_0_0 g0_0_0 ∧
    Gen.reversible_heun_s_diagonal_11__renamed_g1_0_0 f g t0 t1 y0_0_0 dW_0_0 z0_0_0 f0_0_0 g0_0_0 = Gen.reversible_heun_s_diagonal_11_g1_0_0 f g t0 t1 y0_0_0 dW_0_0 z0_0_0 f0_0_0 g0_0_0 ∧
    Gen.reversible_heun_s_diagonal_11__renamed_z1_0_0 f g t0 t1 y0_0_0 dW_0_0 z0_0_0 f0_0_0 g0_0_0 = Gen.reversible_heun_s_diagonal_11_z1_0_0 f g t0 t1 y0_0_0 dW_0_0 z0_0_0 f0_0_0 g0_0_0 :=
  ⟨rfl, rfl, rfl, rfl⟩

theorem reversible_heun_s_diagonal_11__renamed_all_float (f : Float → Float → Float) (g : Float → Float → Float) (t0 t1 y0_0_0 dW_0_0 z0_0_0 f0_0_0 g0_0_0 : Float) :
    GenF.reversible_heun_s_diagonal_11__renamed_all_y1_0_0 f g t0 t1 y0_0_0 dW_0_0 z0_0_0 f0_0_0 g0_0_0 = GenF.reversible_heun_s_diagonal_11_y1_0_0 f g t0 t1 y0_0_0 dW_0_0 z0_0_0 f0_0_0 g0_0_0 ∧
    GenF.reversible_heun_s_diagonal_11__renamed_all_f1_0_0 f g t0 t1 y0_0_0 dW_0_0 z0_0_0 f0_0_0 g0_0_0 = GenF.reversible_heun_s_diagonal_11_f1_0_0 f g t0 t1 y0_0_0 dW_0_0 z0_0_0 f0_0_0 g0_0_0 ∧
    GenF.reversible_heun_s_diagonal_11__renamed_all_g1_0_0 f g t0 t1 y0_0_0 dW_0_0 z0_0_0 f0_0_0 g0_0_0 = GenF.reversible_heun_s_diagonal_11_g1_0_0 f g t0 t1 y0_0_0 dW_0_0 z0_0_0 f0_0_0 g0_0_0 ∧
    GenF.reversible_heun_s_diagonal_11__renamed_all_z1_0_0 f g t0 t1 y0_0_0 dW_0_0 z0_0_0 f0_0_0 g0_0_0 = GenF.reversible_heun_s_diagonal_11_z1_0_0 f g t0 t1 y0_0_0 dW_0_0 z0_0_0 f0_0_0 g0_0_0 :=
  ⟨rfl, rfl, rfl, rfl⟩

theorem reversible_heun_s_diagonal_11__renamed_all_field {K : Type} [Field K] [LinearOrder K] (f : K → K → K) (g : K → K → K) (t0 t1 y0_0_0 dW_0_0 z0_0_0 f0_0_0 g0_0_0 : K) :
    Gen.reversible_heun_s_diagonal_11__renamed_all_y1_0_0 f g t0 t1 y0_0_0 dW_0_0 z0_0_0 f0_0_0 g0_0_0 = Gen.reversible_heun_s_diagonal_11_y1_0_0 f g t0 t1 y0_0_0 dW_0_0 z0_0_0 f0_0_0 g0_0_0 ∧
    Gen.reversible_heun_s_diagonal_11__renamed_all_f1_0_0 f g t0 t1 y0_0_0 dW_0_0 z0_0_0 f0_0_0 g0_0_0 = Gen.reversible_heun_s_diagonal_11_f1_0_0 f g t0 t1 y0_0_0 dW_0_0 z0_0_0 f0_0_0 g0_0_0 ∧
    Gen.reversible_heun_s_diagonal_11__renamed_all_g1_0_0 f g t0 t1 y0_0_0 dW_0_0 z0_0_0 f0_0_0 g0_0_0 = Gen.reversible_heun_s_diagonal_11_g1_0_0 f g t0 t1 y0_0_0 dW_0_0 z0_0_0 f0_0_0 g0_0_0 ∧
    Gen.reversible_heun_s_diagonal_11__renamed_all_z1_0_0 f g t0 t1 y0_0_0 dW_0_0 z0_0_0 f0_0_0 g0_0_0 = Gen.reversible_heun_s_diagonal_11_z1_0_0 f g t0 t1 y0_0_0 dW_0_0 z0_0_0 f0_0_0 g0_0_0 :=
  ⟨rfl, rfl, rfl, rfl⟩

theorem reversible_heun_s_additive_11__fandg_float (f : Float → Float → Float) (g : Float → Float) (t0 t1 y0_0_0 dW_0_0 z0_0_0 f0_0_0 g0_0_0_0 : Float) :
    GenF.reversible_heun_s_additive_11__fandg_y1_0_0 f g t0 t1 y0_0_0 dW_0_0 z0_0_0 f0_0_0 g0_0_0_0 = GenF.reversible_heun_s_additive_11_y1_0_0 f g t0 t1 y0_0_0 dW_0_0 z0_0_0 f0_0_0 g0_0_0_0 ∧
    GenF.reversible_heun_s_additive_11__fandg_f1_0_0 f g t0 t1 y0_0_0 dW_0_0 z0_0_0 f0_0_0 g0_0_0_0 = GenF.reversible_heun_s_additive_11_f1_0_0 f g t0 t1 y0_0_0 dW_0_0 z0_0_0 f0_0_0 g0_0_0_0 ∧
    GenF.reversible_heun_s_additive_11__fandg_g1_0_0_0 f g t0 t1 y0_0_0 dW_0_0 z0_0_0 f0_0_0 g0_0_0_0 = GenF.reversible_heun_s_additive_11_g1_0_0_0 f g t0 t1 y0_0_0 dW_0_0 z0_0_0 f0_0_0 g0_0_0_0 ∧
    GenF.reversible_heun_s_additive_11__fandg_z1_0_0 f g t0 t1 y0_0_0 dW_0_0 z0_0_0 f0_0_0 g0_0_0_0 = GenF.reversible_heun_s_additive_11_z1_0_0 f g t0 t1 y0_0_0 dW_0_0 z0_0_0 f0_0_0 g0_0_0_0 :=
  ⟨rfl, rfl, rfl, rfl⟩

theorem reversible_heun_s_additive_11__fandg_field {K : Type} [Field K] [LinearOrder K] (f : K → K → K) (g : K → K) (t0 t1 y0_0_0 dW_0_0 z0_0_0 f0_0_0 g0_0_0_0 : K) :
    Gen.reversible_heun_s_additive_11__fandg_y1_0_0 f g t0 t1 y0_0_0 dW_0_0 z0_0_0 f0_0_0 g0_0_0_0 = Gen.reversible_heun_s_additive_11_y1_0_0 f g t0 t1 y0_0_0 dW_0_0 z0_0_0 f0_0_0 g0_0_0_0 ∧
    Gen.reversible_heun_s_additive_11__fandg_f1_0_0 f g t0 t1 y0_0_0 dW_0_0 z0_0_0 f0_0_0 g0_0_0_0 = Gen.reversible_heun_s_additive_11_f1_0_0 f g t0 t1 y0_0_0 dW_0_0 z0_0_0 f0_0_0 g0_0_0_0 ∧
    Gen.reversible_heun_s_additive_11__fandg_g1_0_0_0 f g t0 t1 y0_0_0 dW_0_0 z0_0_0 f0_0_0 g0_0_0_0 = Gen.reversible_heun_s_additive_11_g1_0_0_0 f g t0 t1 y0_0_0 dW_0_0 z0_0_0 f0_0_0 g0_0_0_0 ∧
    Gen.reversible_heun_s_additive_11__fandg_z1_0_0 f g t0 t1 y0_0_0 dW_0_0 z0_0_0 f0_0_0 g0_0_0_0 = Gen.reversible_heun_s_additive_11_z1_0_0 f g t0 t1 y0_0_0 dW_0_0 z0_0_0 f0_0_0 g0_0_0_0 :=
  ⟨rfl, rfl, rfl, rfl⟩

theorem reversible_heun_s_additive_11__f_g_gprod_float (f : Float → Float → Float) (g : Float → Float) (t0 t1 y0_0_0 dW_0_0 z0_0_0 f0_0_0 g0_0_0_0 : Float) :
    GenF.reversible_heun_s_additive_11__f_g_gprod_y1_0_0 f g t0 t1 y0_0_0 dW_0_0 z0_0_0 f0_0_0 g0_0_0_0 = GenF.reversible_heun_s_additive_11_y1_0_0 f g t0 t1 y0_0_0 dW_0_0 z0_0_0 f0_0_0 g0_0_0_0 ∧
    GenF.reversible_heun_s_additive_11__f_g_gprod_f1_0_0 f g t0 t1 y0_0_0 dW_0_0 z0_0_0 f0_0_0 g0_0_0_0 = GenF.reversible_heun_s_additive_11_f1_0_0 f g t0 t1 y0_0_0 dW_0_0 z0_0_0 f0_0_0 g0_0_0_0 ∧
    GenF.reversible_heun_s_additive_11__f_g_gprod_g1_0_0_0 f g t0 t1 y0_0_0 dW_0_0 z0_0_0 f0_0_0 g0_0_0_0 = GenF.reversible_heun_s_additive_11_g1_0_0_0 f g t0 t1 y0_0_0 dW_0_0 z0_0_0 f0_0_0 g0_0_0_0 ∧
    GenF.reversible_heun_s_additive_11__f_g_gprod_z1_0_0 f g t0 t1 y0_0_0 dW_0_0 z0_0_0 f0_0_0 g0_0_0_0 = GenF.reversible_heun_s_additive_11_z1_0_0 f g t0 t1 y0_0_0 dW_0_0 z0_0_0 f0_0_0 g0_0_0_0 :=
  ⟨rfl, rfl, rfl, rfl⟩

theorem reversible_heun_s_additive_11__f_g_gprod_field {K : Type} [Field K] [LinearOrder K] (f : K → K → K) (g : K → K) (t0 t1 y0_0_0 dW_0_0 z0_0_0 f0_0_0 g0_0_0_0 : K) :
    Gen.reversible_heun_s_additive_11__f_g_gprod_y1_0_0 f g t0 t1 y0_0_0 dW_0_0 z0_0_0 f0_0_0 g0_0_0_0 = Gen.reversible_heun_s_additive_11_y1_0_0 f g t0 t1 y0_0_0 dW_0_0 z0_0_0 f0_0_0 g0_0_0_0 ∧
    Gen.reversible_heun_s_additive_11__f_g_gprod_f1_0_0 f g t0 t1 y0_0_0 dW_0_0 z0_0_0 f0_0_0 g0_0_0_0 = Gen.reversible_heun_s_additive_11_f1_0_0 f g t0 t1 y0_0_0 dW_0_0 z0_0_0 f0_0_0 g0_0_0_0 ∧
    Gen.reversible_heun_s_additive_11__f_g_gprod_g1_0_0_0 f g t0 t1 y0_0_0 dW_0_0 z0_0_0 f0_0_0 g0_0_0_0 = Gen.reversible_heun_s_additive_11_g1_0_0_0 f g t0 t1 y0_0_0 dW_0_0 z0_0_0 f0_0_0 g0_0_0_0 ∧
    Gen.reversible_heun_s_additive_11__f_g_gprod_z1_0_0 f g t0 t1 y0_0_0 dW_0_0 z0_0_0 f0_0_0 g0_0_0_0 = Gen.reversible_heun_s_additive_11_z1_0_0 f g t0 t1 y0_0_0 dW_0_0 z0_0_0 f0_0_0 g0_0_0_0 :=
  ⟨rfl, rfl, rfl, rfl⟩

theorem reversible_heun_s_additive_11__fandg_gprod_float (f : Float → Float → Float) (g : Float → Float) (t0 t1 y0_0_0 dW_0_0 z0_0_0 f0_0_0 g0_0_0_0 : Float) :
    GenF.reversible_heun_s_additive_11__fandg_gprod_y1_0_0 f g t0 t1 y0_0_0 dW_0_0 z0_0_0 f0_0_0 g0_0_0_0 = GenF.reversible_heun_s_additive_11_y1_0_0 f g t0 t1 y0_0_0 dW_0_0 z0_0_0 f0_0_0 g0_0_0_0 ∧
    GenF.reversible_heun_s_additive_11__fandg_gprod_f1_0_0 f g t0 t1 y0_0_0 dW_0_0 z0_0_0 f0_0_0 g0_0_0_0 = GenF.reversible_heun_s_additive_11_f1_0_0 f g t0 t1 y0_0_0 dW_0_0 z0_0_0 f0_0_0 g0_0_0_0 ∧
    GenF.reversible_heun_s_additive_11__fandg_gprod_g1_0_0_0 f g t0 t1 y0_0_0 dW_0_0 z0_0_0 f0_0_0 g0_0_0_0 = GenF.reversible_heun_s_additive_11_g1_0_0_0 f g t0 t1 y0_0_0 dW_0_0 z0_0_0 f0_0_0 g0_0_0_0 ∧
    GenF.reversible_heun_s_additive_11__fandg_gprod_z1_0_0 f g t0 t1 y0_0_0 dW_0_0 z0_0_0 f0_0_0 g0_0_0_0 = GenF.reversible_heun_s_additive_11_z1_0_0 f g t0 t1 y0_0_0 dW_0_0 z0_0_0 f0_0_0 g0_0_0_0 :=
  ⟨rfl, rfl, rfl, rfl⟩

theorem reversible_heun_s_additive_11__fandg_gprod_field {K : Type} [Field K] [LinearOrder K] (f : K → K → K) (g : K → K) (t0 t1 y0_0_0 dW_0_0 z0_0_0 f0_0_0 g0_0_0_0 : K) :
    Gen.reversible_heun_s_additive_11__fandg_gprod_y1_0_0 f g t0 t1 y0_0_0 dW_0_0 z0_0_0 f0_0_0 g0_0_0_0 = Gen.reversible_heun_s_additive_11_y1_0_0 f g t0 t1 y0_0_0 dW_0_0 z0_0_0 f0_0_0 g0_0_0_0 ∧
    Gen.reversible_heun_s_additive_11__fandg_gprod_f1_0_0 f g t0 t1 y0_0_0 dW_0_0 z0_0_0 f0_0_0 g0_0_0_0 = Gen.reversible_heun_s_additive_11_f1_0_0 f g t0 t1 y0_0_0 dW_0_0 z0_0_0 f0_0_0 g0_0_0_0 ∧
    Gen.reversible_heun_s_additive_11__fandg_gprod_g1_0_0_0 f g t0 t1 y0_0_0 dW_0_0 z0_0_0 f0_0_0 g0_0_0_0 = Gen.reversible_heun_s_additive_11_g1_0_0_0 f g t0 t1 y0_0_0 dW_0_0 z0_0_0 f0_0_0 g0_0_0_0 ∧
    Gen.reversible_heun_s_additive_11__fandg_gprod_z1_0_0 f g t0 t1 y0_0_0 dW_0_0 z0_0_0 f0_0_0 g0_0_0_0 = Gen.reversible_heun_s_additive_11_z1_0_0 f g t0 t1 y0_0_0 dW_0_0 z0_0_0 f0_0_0 g0_0_0_0 :=
  ⟨rfl, rfl, rfl, rfl⟩

theorem reversible_heun_s_additive_11__fandg_fgprod_float (f : Float → Float → Float) (g : Float → Float) (t0 t1 y0_0_0 dW_0_0 z0_0_0 f0_0_0 g0_0_0_0 : Float) :
    GenF.reversible_heun_s_additive_11__fandg_fgprod_y1_0_0 f g t0 t1 y0_0_0 dW_0_0 z0_0_0 f0_0_0 g0_0_0_0 = GenF.reversible_heun_s_additive_11_y1_0_0 f g t0 t1 y0_0_0 dW_0_0 z0_0_0 f0_0_0 g0_0_0_0 ∧
    GenF.reversible_heun_s_additive_11__fandg_fgprod_f1_0_0 f g t0 t1 y0_0_0 dW_0_0 z0_0_0 f0_0_0 g0_0_0_0 = GenF.reversible_heun_s_additive_11_f1_0_0 f g t0 t1 y0_0_0 dW_0_0 z0_0_0 f0_0_0 g0_0_0_0 ∧
    GenF.reversible_heun_s_additive_11__fandg_fgprod_g1_0_0_0 f g t0 t1 y0_0_0 dW_0_0 z0_0_0 f0_0_0 g0_0_0_0 = GenF.reversible_heun_s_additive_11_g1_0_0_0 f g t0 t1 y0_0_0 dW_0_0 z0_0_0 f0_0_0 g0_0_0_0 ∧
    GenF.reversible_heun_s_additive_11__fandg_fgprod_z1_0_0 f g t0 t1 y0_0_0 dW_0_0 z0_0_0 f0_0_0 g0_0_0_0 = GenF.reversible_heun_s_additive_11_z1_0_0 f g t0 t1 y0_0_0 dW_0_0 z0_0_0 f0_0_0 g0_0_0_0 :=
  ⟨rfl, rfl, rfl, rfl⟩

theorem reversible_heun_s_additive_11__fandg_fgprod_field {K : Type} [Field K] [LinearOrder K] (f : K → K → K) (g : K → K) (t0 t1 y0_0_0 dW_0_0 z0_0_0 f0_0_0 g0_0_0_0 : K) :
    Gen.reversible_heun_s_additive_11__fandg_fgprod_y1_0_0 f g t0 t1 y0_0_0 dW_0_0 z0_0_0 f0_0_0 g0_0_0_0 = Gen.reversible_heun_s_additive_11_y1_0_0 f g t0 t1 y0_0_0 dW_0_0 z0_0_0 f0_0_0 g0_0_0_0 ∧
    Gen.reversible_heun_s_additive_11__fandg_fgprod_f1_0_0 f g t0 t1 y0_0_0 dW_0_0 z0_0_0 f0_0_0 g0_0_0_0 = Gen.reversible_heun_s_additive_11_f1_0_0 f g t0 t1 y0_0_0 dW_0_0 z0_0_0 f0_0_0 g0_0_0_0 ∧
    Gen.reversible_heun_s_additive_11__fandg_fgprod_g1_0_0_0 f g t0 t1 y0_0_0 dW_0_0 z0_0_0 f0_0_0 g0_0_0_0 = Gen.reversible_heun_s_additive_11_g1_0_0_0 f g t0 t1 y0_0_0 dW_0_0 z0_0_0 f0_0_0 g0_0_0_0 ∧
    Gen.reversible_heun_s_additive_11__fandg_fgprod_z1_0_0 f g t0 t1 y0_0_0 dW_0_0 z0_0_0 f0_0_0 g0_0_0_0 = Gen.reversible_heun_s_additive_11_z1_0_0 f g t0 t1 y0_0_0 dW_0_0 z0_0_0 f0_0_0 g0_0_0_0 :=
  ⟨rfl, rfl, rfl, rfl⟩

theorem reversible_heun_s_additive_11__renamed_float (f : Float → Float → Float) (g : Float → Float) (t0 t1 y0_0_0 dW_0_0 z0_0_0 f0_0_0 g0_0_0_0 : Float) :
    GenF.reversible_heun_s_additive_11__renamed_y1_0_0 f g t0 t1 y0_0_0 dW_0_0 z0_0_0 f0_0_0 g0_0_0_0 = GenF.reversible_heun_s_additive_11_y1_0_0 f g t0 t1 y0_0_0 dW_0_0 z0_0_0 f0_0_0 g0_0_0_0 ∧
    GenF.reversible_heun_s_additive_11__renamed_f1_0_0 f g t0 t1 y0_0_0 dW_0_0 z0_0_0 f0_0_0 g0_0_0_0 = GenF.reversible_heun_s_additive_11_f1_0_0 f g t0 t1 y0_0_0 dW_0_0 z0_0_0 f0_0_0 g0_0_0_0 ∧
    GenF.reversible_heun_s_additive_11__renamed_g1_0_0_0 f g t0 t1 y0_0_0 dW_0_0 z0_0_0 f0_0_0 g0_0_0_0 = GenF.reversible_heun_s_additive_11_g1_0_0_0 f g t0 t1 y0_0_0 dW_0_0 z0_0_0 f0_0_0 g0_0_0_0 ∧
    GenF.reversible_heun_s_additive_11__renamed_z1_0_0 f g t0 t1 y0_0_0 dW_0_0 z0_0_0 f0_0_0 g0_0_0_0 = GenF.reversible_heun_s_additive_11_z1_0_0 f g t0 t1 y0_0_0 dW_0_0 z0_0_0 f0_0_0 g0_0_0_0 :=
  ⟨rfl, rfl, rfl, rfl⟩

theorem reversible_heun_s_additive_11__renamed_field {K : Type} [Field K] [LinearOrder K] (f : K → K → K) (g : K → K) (t0 t1 y0_0_0 dW_0_0 z0_0_0 f0_0_0 g0_0_0_0 : K) :
    Gen.reversible_heun_s_additive_11__renamed_y1_0_0 f g t0 t1 y0_0_0 dW_0_0 z0_0_0 f0_0_0 g0_0_0_0 = Gen.reversible_heun_s_additive_11_y1_0_0 f g t0 t1 y0_0_0 dW_0_0 z0_0_0 f0_0_0 g0_0_0_0 ∧
    Gen.reversible_heun_s_additive_11__renamed_f1_0_0 f g t0 t1 y0_0_0 dW_0_0 z0_0_0 f0_0_0 g0_0_0_0 = Gen.reversible_heun_s_additive_11_f1_0_0 f g t0 t1 y0_0_0 dW_0_0 z0_0_0 f0_0_0 g0_0_0_0 ∧
    Gen.reversible_heun_s_additive_11__renamed_g1_0_0_0 f g t0 t1 y0_0_0 dW_0_0 z0_0_0 f0_0_0 g0_0_0_0 = Gen.reversible_heun_s_additive_11_g1_0_0_0 f g t0 t1 y0_0_0 dW_0_0 z0_0_0 f0_0_0 g0_0_0_0 ∧
    Gen.reversible_heun_s_additive_11__renamed_z1_0_0 f g t0 t1 y0_0_0 dW_0_0 z0_0_0 f0_0_0 g0_0_0_0 = Gen.reversible_heun_s_additive_11_z1_0_0 f g t0 t1 y0_0_0 dW_0_0 z0_0_0 f0_0_0 g0_0_0_0 :=
  ⟨rfl, rfl, rfl, rfl⟩

theorem reversible_heun_s_additive_11__renamed_all_float (f : Float → Float → Float) (g : Float → Float) (t0 t1 y0_0_0 dW_0_0 z0_0_0 f0_0_0 g0_0_0_0 : Float) :
    GenF.reversible_heun_s_additive_11__renamed_all_y1_0_0 f g t0 t1 y0_0_0 dW_0_0 z0_0_0 f0_0_0 g0_0_0_0 = GenF.reversible_heun_s_additive_11_y1_0_0 f g t0 t1 y0_0_0 dW_0_0 z0_0_0 f0_0_0 g0_0_0_0 ∧
    GenF.reversible_heun_s_additive_11__renamed_all_f1_0_0 f g t0 t1 y0_0_0 dW_0_0 z0_0_0 f0_0_0 g0_0_0_0 = GenF.reversible_heun_s_additive_11_f1_0_0 f g t0 t1 y0_0_0 dW_0_0 z0_0_0 f0_0_0 g0_0_0_0 ∧
    GenF.reversible_heun_s_additive_11__renamed_all_g1_0_0_0 f g t0 t1 y0_0_0 dW_0_0 z0_0_0 f0_0_0 g0_0_0_0 = GenF.reversible_heun_s_additive_11_g1_0_0_0 f g t0 t1 y0_0_0 dW_0_0 z0_0_0 f0_0_0 g0_0_0_0 ∧
    GenF.reversible_heun_s_additive_11__renamed_all_z1_0_0 f g t0 t1 y0_0_0 dW_0_0 z0_0_0 f0_0_0 g0_0_0_0 = GenF.reversible_heun_s_additive_11_z1_0_0 f g t0 t1 y0_0_0 dW_0_0 z0_0_0 f0_0_0 g0_0_0_0 :=
  ⟨rfl, rfl, rfl, rfl⟩

theorem reversible_heun_s_additive_11__renamed_all_field {K : Type} [Field K] [LinearOrder K] (f : K → K → K) (g : K → K) (t0 t1 y0_0_0 dW_0_0 z0_0_0 f0_0_0 g0_0_0_0 : K) :
    Gen.reversible_heun_s_additive_11__renamed_all_y1_0_0 f g t0 t1 y0_0_0 dW_0_0 z0_0_0 f0_0_0 g0_0_0_0 = Gen.reversible_heun_s_additive_11_y1_0_0 f g t0 t1 y0_0_0 dW_0_0 z0_0_0 f0_0_0 g0_0_0_0 ∧
    Gen.reversible_heun_s_additive_11__renamed_all_f1_0_0 f g t0 t1 y0_0_0 dW_0_0 z0_0_0 f0_0_0 g0_0_0_0 = Gen.reversible_heun_s_additive_11_f1_0_0 f g t0 t1 y0_0_0 dW_0_0 z0_0_0 f0_0_0 g0_0_0_0 ∧
    Gen.reversible_heun_s_additive_11__renamed_all_g1_0_0_0 f g t0 t1 y0_0_0 dW_0_0 z0_0_0 f0_0_0 g0_0_0_0 = Gen.reversible_heun_s_additive_11_g1_0_0_0 f g t0 t1 y0_0_0 dW_0_0 z0_0_0 f0_0_0 g0_0_0_0 ∧
    Gen.reversible_heun_s_additive_11__renamed_all_z1_0_0 f g t0 t1 y0_0_0 dW_0_0 z0_0_0 f0_0_0 g0_0_0_0 = Gen.reversible_heun_s_additive_11_z1_0_0 f g t0 t1 y0_0_0 dW_0_0 z0_0_0 f0_0_0 g0_0_0_0 :=
  ⟨rfl, rfl, rfl, rfl⟩

theorem reversible_heun_s_scalar_11__fandg_float (f : Float → Float → Float) (g : Float → Float → Float) (t0 t1 y0_0_0 dW_0_0 z0_0_0 f0_0_0 g0_0_0_0 : Float) :
    GenF.reversible_heun_s_scalar_11__fandg_y1_0_0 f g t0 t1 y0_0_0 dW_0_0 z0_0_0 f0_0_0 g0_0_0_0 = GenF.reversible_heun_s_scalar_11_y1_0_0 f g t0 t1 y0_0_0 dW_0_0 z0_0_0 f0_0_0 g0_0_0_0 ∧
    GenF.reversible_heun_s_scalar_11__fandg_f1_0_0 f g t0 t1 y0_0_0 dW_0_0 z0_0_0 f0_0_0 g0_0_0_0 = GenF.reversible_heun_s_scalar_11_f1_0_0 f g t0 t1 y0_0_0 dW_0_0 z0_0_0 f0_0_0 g0_0_0_0 ∧
    GenF.reversible_heun_s_scalar_11__fandg_g1_0_0_0 f g t0 t1 y0_0_0 dW_0_0 z0_0_0 f0_0_0 g0_0_0_0 = GenF.reversible_heun_s_scalar_11_g1_0_0_0 f g t0 t1 y0_0_0 dW_0_0 z0_0_0 f0_0_0 g0_0_0_0 ∧
    GenF.reversible_heun_s_scalar_11__fandg_z1_0_0 f g t0 t1 y0_0_0 dW_0_0 z0_0_0 f0_0_0 g0_0_0_0 = GenF.reversible_heun_s_scalar_11_z1_0_0 f g t0 t1 y0_0_0 dW_0_0 z0_0_0 f0_0_0 g0_0_0_0 :=
  ⟨rfl, rfl, rfl, rfl⟩

theorem reversible_heun_s_scalar_11__fandg_field {K : Type} [Field K] [LinearOrder K] (f : K → K → K) (g : K → K → K) (t0 t1 y0_0_0 dW_0_0 z0_0_0 f0_0_0 g0_0_0_0 : K) :
    Gen.reversible_heun_s_scalar_11__fandg_y1_0_0 f g t0 t1 y0_0_0 dW_0_0 z0_0_0 f0_0_0 g0_0_0_0 = Gen.reversible_heun_s_scalar_11_y1_0_0 f g t0 t1 y0_0_0 dW_0_0 z0_0_0 f0_0_0 g0_0_0_0 ∧
    Gen.reversible_heun_s_scalar_11__fandg_f1_0_0 f g t0 t1 y0_0_0 dW_0_0 z0_0_0 f0_0_0 g0_0_0_0 = Gen.reversible_heun_s_scalar_11_f1_0_0 f g t0 t1 y0_0_0 dW_0_0 z0_0_0 f0_0_0 g0_0_0_0 ∧
    Gen.reversible_heun_s_scalar_11__fandg_g1_0_0_0 f g t0 t1 y0_0_0 dW_0_0 z0_0_0 f0_0_0 g0_0_0_0 = Gen.reversible_heun_s_scalar_11_g1_0_0_0 f g t0 t1 y0_0_0 dW_0_0 z0_0_0 f0_0_0 g0_0_0_0 ∧
    Gen.reversible_heun_s_scalar_11__fandg_z1_0_0 f g t0 t1 y0_0_0 dW_0_0 z0_0_0 f0_0_0 g0_0_0_0 = Gen.reversible_heun_s_scalar_11_z1_0_0 f g t0 t1 y0_0_0 dW_0_0 z0_0_0 f0_0_0 g0_0_0_0 :=
  ⟨rfl, rfl, rfl, rfl⟩

theorem reversible_heun_s_scalar_11__f_g_gprod_float (f : Float → Float → Float) (g : Float → Float → Float) (t0 t1 y0_0_0 dW_0_0 z0_0_0 f0_0_0 g0_0_0_0 : Float) :
    GenF.reversible_heun_s_scalar_11__f_g_gprod_y1_0_0 f g t0 t1 y0_0_0 dW_0_0 z0_0_0 f0_0_0 g0_0_0_0 = GenF.reversible_heun_s_scalar_11_y1_0_0 f g t0 t1 y0_0_0 dW_0_0 z0_0_0 f0_0_0 g0_0_0_0 ∧
    GenF.reversible_heun_s_scalar_11__f_g_gprod_f1_0_0 f g t0 t1 y0_0_0 dW_0_0 z0_0_0 f0_0_0 g0_0_0_0 = GenF.reversible_heun_s_scalar_11_f1_0_0 f g t0 t1 y0_0_0 dW_0_0 z0_0_0 f0_0_0 g0_0_0_0 ∧
    GenF.reversible_heun_s_scalar_11__f_g_gprod_g1_0_0_0 f g t0 t1 y0_0_0 dW_0_0 z0_0_0 f0_0_0 g0_0_0_0 = GenF.reversible_heun_s_scalar_11_g1_0_0_0 f g t0 t1 y0_0_0 dW_0_0 z0_0_0 f0_0_0 g0_0_0_0 ∧
    GenF.reversible_heun_s_scalar_11__f_g_gprod_z1_0_0 f g t0 t1 y0_0_0 dW_0_0 z0_0_0 f0_0_0 g0_0_0_0 = GenF.reversible_heun_s_scalar_11_z1_0_0 f g t0 t1 y0_0_0 dW_0_0 z0_0_0 f0_0_0 g0_0_0_0 :=
  ⟨rfl, rfl, rfl, rfl⟩

theorem reversible_heun_s_scalar_11__f_g_gprod_field {K : Type} [Field K] [LinearOrder K] (f : K → K → K) (g : K → K → K) (t0 t1 y0_0_0 dW_0_0 z0_0_0 f0_0_0 g0_0_0_0 : K) :
    Gen.reversible_heun_s_scalar_11__f_g_gprod_y1_0_0 f g t0 t1 y0_0_0 dW_0_0 z0_0_0 f0_0_0 g0_0_0_0 = Gen.reversible_heun_s_scalar_11_y1_0_0 f g t0 t1 y0_0_0 dW_0_0 z0_0_0 f0_0_0 g0_0_0_0 ∧
    Gen.reversible_heun_s_scalar_11__f_g_gprod_f1_0_0 f g t0 t1 y0_0_0 dW_0_0 z0_0_0 f0_0_0 g0_0_0_0 = Gen.reversible_heun_s_scalar_11_f1_0_0 f g t0 t1 y0_0_0 dW_0_0 z0_0_0 f0_0_0 g0_0_0_0 ∧
    Gen.reversible_heun_s_scalar_11__f_g_gprod_g1_0_0_0 f g t0 t1 y0_0_0 dW_0_0 z0_0_0 f0_0_0 g0_0_0_0 = Gen.reversible_heun_s_scalar_11_g1_0_0_0 f g t0 t1 y0_0_0 dW_0_0 z0_0_0 f0_0_0 g0_0_0_0 ∧
    Gen.reversible_heun_s_scalar_11__f_g_gprod_z1_0_0 f g t0 t1 y0_0_0 dW_0_0 z0_0_0 f0_0_0 g0_0_0_0 = Gen.reversible_heun_s_scalar_11_z1_0_0 f g t0 t1 y0_0_0 dW_0_0 z0_0_0 f0_0_0 g0_0_0_0 :=
  ⟨rfl, rfl, rfl, rfl⟩

theorem reversible_heun_s_scalar_11__fandg_gprod_float (f : Float → Float → Float) (g : Float → Float → Float) (t0 t1 y0_0_0 dW_0_0 z0_0_0 f0_0_0 g0_0_0_0 : Float) :
    GenF.reversible_heun_s_scalar_11__fandg_gprod_y1_0_0 f g t0 t1 y0_0_0 dW_0_0 z0_0_0 f0_0_0 g0_0_0_0 = GenF.reversible_heun_s_scalar_11_y1_0_0 f g t0 t1 y0_0_0 dW_0_0 z0_0_0 f0_0_0 g0_0_0_0 ∧
    GenF.reversible_heun_s_scalar_11__fandg_gprod_f1_0_0 f g t0 t1 y0_0_0 dW_0_0 z0_0_0 f0_0_0 g0_0_0_0 = GenF.reversible_heun_s_scalar_11_f1_0_0 f g t0 t1 y0_0_0 dW_0_0 z0_0_0 f0_0_0 g0_0_0_0 ∧
    GenF.reversible_heun_s_scalar_11__fandg_gprod_g1_0_0_0 f g t0 t1 y0_0_0 dW_0_0 z0_0_0 f0_0_0 g0_0_0_0 = GenF.reversible_heun_s_scalar_11_g1_0_0_0 f g t0 t1 y0_0_0 dW_0_0 z0_0_0 f0_0_0 g0_0_0_0 ∧
    GenF.reversible_heun_s_scalar_11__fandg_gprod_z1_0_0 f g t0 t1 y0_0_0 dW_0_0 z0_0_0 f0_0_0 g0_0_0_0 = GenF.reversible_heun_s_scalar_11_z1_0_0 f g t0 t1 y0_0_0 dW_0_0 z0_0_0 f0_0_0 g0_0_0_0 :=
  ⟨rfl, rfl, rfl, rfl⟩

theorem reversible_heun_s_scalar_11__fandg_gprod_field {K : Type} [Field K] [LinearOrder K] (f : K → K → K) (g : K → K → K) (t0 t1 y0_0_0 dW_0_0 z0_0_0 f0_0_0 g0_0_0_0 : K) :
    Gen.reversible_heun_s_scalar_11__fandg_gprod_y1_0_0 f g t0 t1 y0_0_0 dW_0_0 z0_0_0 f0_0_0 g0_0_0_0 = Gen.reversible_heun_s_scalar_11_y1_0_0 f g t0 t1 y0_0_0 dW_0_0 z0_0_0 f0_0_0 g0_0_0_0 ∧
    Gen.reversible_heun_s_scalar_11__fandg_gprod_f1_0_0 f g t0 t1 y0_0_0 dW_0_0 z0_0_0 f0_0_0 g0_0_0_0 = Gen.reversible_heun_s_scalar_11_f1_0_0 f g t0 t1 y0_0_0 dW_0_0 z0_0_0 f0_0_0 g0_0_0_0 ∧
    Gen.reversible_heun_s_scalar_11__fandg_gprod_g1_0_0_0 f g t0 t1 y0_0_0 dW_0_0 z0_0_0 f0_0_0 g0_0_0_0 = Gen.reversible_heun_s_scalar_11_g1_0_0_0 f g t0 t1 y0_0_0 dW_0_0 z0_0_0 f0_0_0 g0_0_0_0 ∧
    Gen.reversible_heun_s_scalar_11__fandg_gprod_z1_0_0 f g t0 t1 y0_0_0 dW_0_0 z0_0_0 f0_0_0 g0_0_0_0 = Gen.reversible_heun_s_scalar_11_z1_0_0 f g t0 t1 y0_0_0 dW_0_0 z0_0_0 f0_0_0 g0_0_0_0 :=
  ⟨rfl, rfl, rfl, rfl⟩

theorem reversible_heun_s_scalar_11__fandg_fgprod_float (f : Float → Float → Float) (g : Float → Float → Float) (t0 t1 y0_0_0 dW_0_0 z0_0_0 f0_0_0 g0_0_0_0 : Float) :
    GenF.reversible_heun_s_scalar_11__fandg_fgprod_y1_0_0 f g t0 t1 y0_0_0 dW_0_0 z0_0_0 f0_0_0 g0_0_0_0 = GenF.reversible_heun_s_scalar_11_y1_0_0 f g t0 t1 y0_0_0 dW_0_0 z0_0_0 f0_0_0 g0_0_0_0 ∧
    GenF.reversible_heun_s_scalar_11__fandg_fgprod_f1_0_0 f g t0 t1 y0_0_0 dW_0_0 z0_0_0 f0_0_0 g0_0_0_0 = GenF.reversible_heun_s_scalar_11_f1_0_0 f g t0 t1 y0_0_0 dW_0_0 z0_0_0 f0_0_0 g0_0_0_0 ∧
    GenF.reversible_heun_s_scalar_11__fandg_fgprod_g1_0_0_0 f g t0 t1 y0_0_0 dW_0_0 z0_0_0 f0_0_0 g0_0_0_0 = GenF.reversible_heun_s_scalar_11_g1_0_0_0 f g t0 t1 y0_0_0 dW_0_0 z0_0_0 f0_0_0 g0_0_0_0 ∧
    GenF.reversible_heun_s_scalar_11__fandg_fgprod_z1_0_0 f g t0 t1 y0_0_0 dW_0_0 z0_0_0 f0_0_0 g0_0_0_0 = GenF.reversible_heun_s_scalar_11_z1_0_0 f g t0 t1 y0_0_0 dW_0_0 z0_0_0 f0_0_0 g0_0_0_0 :=
  ⟨rfl, rfl, rfl, rfl⟩

theorem reversible_heun_s_scalar_11__fandg_fgprod_field {K : Type} [Field K] [LinearOrder K] (f : K → K → K) (g : K → K → K) (t0 t1 y0_0_0 dW_0_0 z0_0_0 f0_0_0 g0_0_0_0 : K) :
    Gen.reversible_heun_s_scalar_11__fandg_fgprod_y1_0_0 f g t0 t1 y0_0_0 dW_0_0 z0_0_0 f0_0_0 g0_0_0_0 = Gen.reversible_heun_s_scalar_11_y1_0_0 f g t0 t1 y0_0_0 dW_0_0 z0_0_0 f0_0_0 g0_0_0_0 ∧
    Gen.reversible_heun_s_scalar_11__fandg_fgprod_f1_0_0 f g t0 t1 y0_0_0 dW_0_0 z0_0_0 f0_0_0 g0_0_0_0 = Gen.reversible_heun_s_scalar_11_f1_0_0 f g t0 t1 y0_0_0 dW_0_0 z0_0_0 f0_0_0 g0_0_0_0 ∧
    Gen.reversible_heun_s_scalar_11__fandg_fgprod_g1_0_0_0 f g t0 t1 y0_0_0 dW_0_0 z0_0_0 f0_0_0 g0_0_0_0 = Gen.reversible_heun_s_scalar_11_g1_0_0_0 f g t0 t1 y0_0_0 dW_0_0 z0_0_0 f0_0_0 g0_0_0_0 ∧
    Gen.reversible_heun_s_scalar_11__fandg_fgprod_z1_0_0 f g t0 t1 y0_0_0 dW_0_0 z0_0_0 f0_0_0 g0_0_0_0 = Gen.reversible_heun_s_scalar_11_z1_0_0 f g t0 t1 y0_0_0 dW_0_0 z0_0_0 f0_0_0 g0_0_0_0 :=
  ⟨rfl, rfl, rfl, rfl⟩

theorem reversible_heun_s_scalar_11__renamed_float (f : Float → Float → Float) (g : Float → Float → Float) (t0 t1 y0_0_0 dW_0_0 z0_0_0 f0_0_0 g0_0_0_0 : Float) :
    GenF.reversible_heun_s_scalar_11__renamed_y1_0_0 f g t0 t1 y0_0_0 dW_0_0 z0_0_0 f0_0_0 g0_0_0_0 = GenF.reversible_heun_s_scalar_11_y1_0_0 f g t0 t1 y0_0_0 dW_0_0 z0_0_0 f0_0_0 g0_0_0_0 ∧
    GenF.reversible_heun_s_scalar_11__renamed_f1_0_0 f g t0 t1 y0_0_0 dW_0_0 z0_0_0 f0_0_0 g0_0_0_0 = GenF.reversible_heun_s_scalar_11_f1_0_0 f g t0 t1 y0_0_0 dW_0_0 z0_0_0 f0_0_0 g0_0_0_0 ∧
    GenF.reversible_heun_s_scalar_11__renamed_g1_0_0_0 f g t0 t1 y0_0_0 dW_0_0 z0_0_0 f0_0_0 g0_0_0_0 = GenF.reversible_heun_s_scalar_11_g1_0_0_0 f g t0 t1 y0_0_0 dW_0_0 z0_0_0 f0_0_0 g0_0_0_0 ∧
    GenF.reversible_heun_s_scalar_11__renamed_z1_0_0 f g t0 t1 y0_0_0 dW_0_0 z0_0_0 f0_0_0 g0_0_0_0 = GenF.reversible_heun_s_scalar_11_z1_0_0 f g t0 t1 y0_0_0 dW_0_0 z0_0_0 f0_0_0 g0_0_0_0 :=
  ⟨rfl, rfl, rfl, rfl⟩

theorem reversible_heun_s_scalar_11__renamed_field {K : Type} [Field K] [LinearOrder K] (f : K → K → K) (g : K → K → K) (t0 t1 y0_0_0 dW_0_0 z0_0_0 f0_0_0 g0_0_0_0 : K) :
    Gen.reversible_heun_s_scalar_11__renamed_y1_0_0 f g t0 t1 y0_0_0 dW_0_0 z0_0_0 f0_0_0 g0_0_0_0 = Gen.reversible_heun_s_scalar_11_y1_0_0 f g t0 t1 y0_0_0 dW_0_0 z0_0_0 f0_0_0 g0_0_0_0 ∧
    Gen.reversible_heun_s_scalar_11__renamed_f1_0_0 f g t0 t1 y0_0_0 dW_0_0 z0_0_0 f0_0_0 g0_0_0_0 = Gen.reversible_heun_s_scalar_11_f1_0_0 f g t0 t1 y0_0_0 dW_0_0 z0_0_0 f0_0_0 g0_0_0_0 ∧
    Gen.reversible_heun_s_scalar_11__renamed_g1_0_0_0 f g t0 t1 y0_0_0 dW_0_0 z0_0_0 f0_0_0 g0_0_0_0 = Gen.reversible_heun_s_scalar_11_g1_0_0_0 f g t0 t1 y0_0_0 dW_0_0 z0_0_0 f0_0_0 g0_0_0_0 ∧
    Gen.reversible_heun_s_scalar_11__renamed_z1_0_0 f g t0 t1 y0_0_0 dW_0_0 z0_0_0 f0_0_0 g0_0_0_0 = Gen.reversible_heun_s_scalar_11_z1_0_0 f g t0 t1 y0_0_0 dW_0_0 z0_0_0 f0_0_0 g0_0_0_0 :=
  ⟨rfl, rfl, rfl, rfl⟩

theorem reversible_heun_s_scalar_11__renamed_all_float (f : Float → Float → Float) (g : Float → Float → Float) (t0 t1 y0_0_0 dW_0_0 z0_0_0 f0_0_0 g0_0_0_0 : Float) :
    GenF.reversible_heun_s_scalar_11__renamed_all_y1_0_0 f g t0 t1 y0_0_0 dW_0_0 z0_0_0 f0_0_0 g0_0_0_0 = GenF.reversible_heun_s_scalar_11_y1_0_0 f g t0 t1 y0_0_0 dW_0_0 z0_0_0 f0_0_0 g0_0_0_0 ∧
    GenF.reversible_heun_s_scalar_11__renamed_all_f1_0_0 f g t0 t1 y0_0_0 dW_0_0 z0_0_0 f0_0_0 g0_0_0_0 = GenF.reversible_heun_s_scalar_11_f1_0_0 f g t0 t1 y0_0_0 dW_0_0 z0_0_0 f0_0_0 g0_0_0_0 ∧
    GenF.reversible_heun_s_scalar_11__renamed_all_g1_0_0_0 f g t0 t1 y0_0_0 dW_0_0 z0_0_0 f0_0_0 g0_0_0_0 = GenF.reversible_heun_s_scalar_11_g1_0_0_0 f g t0 t1 y0_0_0 dW_0_0 z0_0_0 f0_0_0 g0_0_0_0 ∧
    GenF.reversible_heun_s_scalar_11__renamed_all_z1_0_0 f g t0 t1 y0_0_0 dW_0_0 z0_0_0 f0_0_0 g0_0_0_0 = GenF.reversible_heun_s_scalar_11_z1_0_0 f g t0 t1 y0_0_0 dW_0_0 z0_0_0 f0_0_0 g0_0_0_0 :=
  ⟨rfl, rfl, rfl, rfl⟩

theorem reversible_heun_s_scalar_11__renamed_all_field {K : Type} [Field K] [LinearOrder K] (f : K → K → K) (g : K → K → K) (t0 t1 y0_0_0 dW_0_0 z0_0_0 f0_0_0 g0_0_0_0 : K) :
    Gen.reversible_heun_s_scalar_11__renamed_all_y1_0_0 f g t0 t1 y0_0_0 dW_0_0 z0_0_0 f0_0_0 g0_0_0_0 = Gen.reversible_heun_s_scalar_11_y1_0_0 f g t0 t1 y0_0_0 dW_0_0 z0_0_0 f0_0_0 g0_0_0_0 ∧
    Gen.reversible_heun_s_scalar_11__renamed_all_f1_0_0 f g t0 t1 y0_0_0 dW_0_0 z0_0_0 f0_0_0 g0_0_0_0 = Gen.reversible_heun_s_scalar_11_f1_0_0 f g t0 t1 y0_0_0 dW_0_0 z0_0_0 f0_0_0 g0_0_0_0 ∧
    Gen.reversible_heun_s_scalar_11__renamed_all_g1_0_0_0 f g t0 t1 y0_0_0 dW_0_0 z0_0_0 f0_0_0 g0_0_0_0 = Gen.reversible_heun_s_scalar_11_g1_0_0_0 f g t0 t1 y0_0_0 dW_0_0 z0_0_0 f0_0_0 g0_0_0_0 ∧
    Gen.reversible_heun_s_scalar_11__renamed_all_z1_0_0 f g t0 t1 y0_0_0 dW_0_0 z0_0_0 f0_0_0 g0_0_0_0 = Gen.reversible_heun_s_scalar_11_z1_0_0 f g t0 t1 y0_0_0 dW_0_0 z0_0_0 f0_0_0 g0_0_0_0 :=
  ⟨rfl, rfl, rfl, rfl⟩

theorem reversible_heun_s_general_11__fandg_float (f : Float → Float → Float) (g : Float → Float → Float) (t0 t1 y0_0_0 dW_0_0 z0_0_0 f0_0_0 g0_0_0_0 : Float) :
    GenF.reversible_heun_s_general_11__fandg_y1_0_0 f g t0 t1 y0_0_0 dW_0_0 z0_0_0 f0_0_0 g0_0_0_0 = GenF.reversible_heun_s_general_11_y1_0_0 f g t0 t1 y0_0_0 dW_0_0 z0_0_0 f0_0_0 g0_0_0_0 ∧
    GenF.reversible_heun_s_general_11__fandg_f1_0_0 f g t0 t1 y0_0_0 dW_0_0 z0_0_0 f0_0_0 g0_0_0_0 = GenF.reversible_heun_s_general_11_f1_0_0 f g t0 t1 y0_0_0 dW_0_0 z0_0_0 f0_0_0 g0_0_0_0 ∧
    GenF.reversible_heun_s_general_11__fandg_g1_0_0_0 f g t0 t1 y0_0_0 dW_0_0 z0_0_0 f0_0_0 g0_0_0_0 = GenF.reversible_heun_s_general_11_g1_0_0_0 f g t0 t1 y0_0_0 dW_0_0 z0_0_0 f0_0_0 g0_0_0_0 ∧
    GenF.reversible_heun_s_general_11__fandg_z1_0_0 f g t0 t1 y0_0_0 dW_0_0 z0_0_0 f0_0_0 g0_0_0_0 = GenF.reversible_heun_s_general_11_z1_0_0 f g t0 t1 y0_0_0 dW_0_0 z0_0_0 f0_0_0 g0_0_0_0 :=
  ⟨rfl, rfl, rfl, rfl⟩

theorem reversible_heun_s_general_11__fandg_field {K : Type} [Field K] [LinearOrder K] (f : K → K → K) (g : K → K → K) (t0 t1 y0_0_0 dW_0_0 z0_0_0 f0_0_0 g0_0_0_0 : K) :
    Gen.reversible_heun_s_general_11__fandg_y1_0_0 f g t0 t1 y0_0_0 dW_0_0 z0_0_0 f0_0_0 g0_0_0_0 = Gen.reversible_heun_s_general_11_y1_0_0 f g t0 t1 y0_0_0 dW_0_0 z0_0_0 f0_0_0 g0_0_0_0 ∧
    Gen.reversible_heun_s_general_11__fandg_f1_0_0 f g t0 t1 y0_0_0 dW_0_0 z0_0_0 f0_0_0 g0_0_0_0 = Gen.reversible_heun_s_general_11_f1_0_0 f g t0 t1 y0_0_0 dW_0_0 z0_0_0 f0_0_0 g0_0_0_0 ∧
    Gen.reversible_heun_s_general_11__fandg_g1_0_0_0 f g t0 t1 y0_0_0 dW_0_0 z0_0_0 f0_0_0 g0_0_0_0 = Gen.reversible_heun_s_general_11_g1_0_0_0 f g t0 t1 y0_0_0 dW_0_0 z0_0_0 f0_0_0 g0_0_0_0 ∧
    Gen.reversible_heun_s_general_11__fandg_z1_0_0 f g t0 t1 y0_0_0 dW_0_0 z0_0_0 f0_0_0 g0_0_0_0 = Gen.reversible_heun_s_general_11_z1_0_0 f g t0 t1 y0_0_0 dW_0_0 z0_0_0 f0_0_0 g0_0_0_0 :=
  ⟨rfl, rfl, rfl, rfl⟩

theorem reversible_heun_s_general_11__f_g_gprod_float (f : Float → Float → Float) (g : Float → Float → Float) (t0 t1 y0_0_0 dW_0_0 z0_0_0 f0_0_0 g0_0_0_0 : Float) :
    GenF.reversible_heun_s_general_11__f_g_gprod_y1_0_0 f g t0 t1 y0_0_0 dW_0_0 z0_0_0 f0_0_0 g0_0_0_0 = GenF.reversible_heun_s_general_11_y1_0_0 f g t0 t1 y0_0_0 dW_0_0 z0_0_0 f0_0_0 g0_0_0_0 ∧
    GenF.reversible_heun_s_general_11__f_g_gprod_f1_0_0 f g t0 t1 y0_0_0 dW_0_0 z0_0_0 f0_0_0 g0_0_0_0 = GenF.reversible_heun_s_general_11_f1_0_0 f g t0 t1 y0_0_0 dW_0_0 z0_0_0 f0_0_0 g0_0_0_0 ∧
    GenF.reversible_heun_s_general_11__f_g_gprod_g1_0_0_0 f g t0 t1 y0_0_0 dW_0_0 z0_0_0 f0_0_0 g0_0_0_0 = GenF.reversible_heun_s_general_11_g1_0_0_0 f g t0 t1 y0_0_0 dW_0_0 z0_0_0 f0_0_0 g0_0_0_0 ∧
    GenF.reversible_heun_s_general_11__f_g_gprod_z1_0_0 f g t0 t1 y0_0_0 dW_0_0 z0_0_0 f0_0_0 g0_0_0_0 = GenF.reversible_heun_s_general_11_z1_0_0 f g t0 t1 y0_0_0 dW_0_0 z0_0_0 f0_0_0 g0_0_0_0 :=
  ⟨rfl, rfl, rfl, rfl⟩

theorem reversible_heun_s_general_11__f_g_gprod_field {K : Type} [Field K] [LinearOrder K] (f : K → K → K) (g : K → K → K) (t0 t1 y0_0_0 dW_0_0 z0_0_0 f0_0_0 g0_0_0_0 : K) :
    Gen.reversible_heun_s_general_11__f_g_gprod_y1_0_0 f g t0 t1 y0_0_0 dW_0_0 z0_0_0 f0_0_0 g0_0_0_0 = Gen.reversible_heun_s_general_11_y1_0_0 f g t0 t1 y0_0_0 dW_0_0 z0_0_0 f0_0_0 g0_0_0_0 ∧
    Gen.reversible_heun_s_general_11__f_g_gprod_f1_0_0 f g t0 t1 y0_0_0 dW_0_0 z0_0_0 f0_0_0 g0_0_0_0 = Gen.reversible_heun_s_general_11_f1_0_0 f g t0 t1 y0_0_0 dW_0_0 z0_0_0 f0_0_0 g0_0_0_0 ∧
    Gen.reversible_heun_s_general_11__f_g_gprod_g1_0_0_0 f g t0 t1 y0_0_0 dW_0_0 z0_0_0 f0_0_0 g0_0_0_0 = Gen.reversible_heun_s_general_11_g1_0_0_0 f g t0 t1 y0_0_0 dW_0_0 z0_0_0 f0_0_0 g0_0_0_0 ∧
    Gen.reversible_heun_s_general_11__f_g_gprod_z1_0_0 f g t0 t1 y0_0_0 dW_0_0 z0_0_0 f0_0_0 g0_0_0_0 = Gen.reversible_heun_s_general_11_z1_0_0 f g t0 t1 y0_0_0 dW_0_0 z0_0_0 f0_0_0 g0_0_0_0 :=
  ⟨rfl, rfl, rfl, rfl⟩

theorem reversible_heun_s_general_11__fandg_gprod_float (f : Float → Float → Float) (g : Float → Float → Float) (t0 t1 y0_0_0 dW_0_0 z0_0_0 f0_0_0 g0_0_0_0 : Float) :
    GenF.reversible_heun_s_general_11__fandg_gprod_y1_0_0 f g t0 t1 y0_0_0 dW_0_0 z0_0_0 f0_0_0 g0_0_0_0 = GenF.reversible_heun_s_general_11_y1_0_0 f g t0 t1 y0_0_0 dW_0_0 z0_0_0 f0_0_0 g0_0_0_0 ∧
    GenF.reversible_heun_s_general_11__fandg_gprod_f1_0_0 f g t0 t1 y0_0_0 dW_0_0 z0_0_0 f0_0_0 g0_0_0_0 = GenF.reversible_heun_s_general_11_f1_0_0 f g t0 t1 y0_0_0 dW_0_0 z0_0_0 f0_0_0 g0_0_0_0 ∧
    GenF.reversible_heun_s_general_11__fandg_gprod_g1_0_0_0 f g t0 t1 y0_0_0 dW_0_0 z0_0_0 f0_0_0 g0_0_0_0 = GenF.reversible_heun_s_general_11_g1_0_0_0 f g t0 t1 y0_0_0 dW_0_0 z0_0_0 f0_0_0 g0_0_0_0 ∧
    GenF.reversible_heun_s_general_11__fandg_gprod_z1_0_0 f g t0 t1 y0_0_0 dW_0_0 z0_0_0 f0_0_0 g0_0_0_0 = GenF.reversible_heun_s_general_11_z1_0_0 f g t0 t1 y0_0_0 dW_0_0 z0_0_0 f0_0_0 g0_0_0_0 :=
  ⟨rfl, rfl, rfl, rfl⟩

theorem reversible_heun_s_general_11__fandg_gprod_field {K : Type} [Field K] [LinearOrder K] (f : K → K → K) (g : K → K → K) (t0 t1 y0_0_0 dW_0_0 z0_0_0 f0_0_0 g0_0_0_0 : K) :
    Gen.reversible_heun_s_general_11__fandg_gprod_y1_0_0 f g t0 t1 y0_0_0 dW_0_0 z0_0_0 f0_0_0 g0_0_0_0 = Gen.reversible_heun_s_general_11_y1_0_0 f g t0 t1 y0_0_0 dW_0_0 z0_0_0 f0_0_0 g0_0_0_0 ∧
    Gen.reversible_heun_s_general_11__fandg_gprod_f1_0_0 f g t0 t1 y0_0_0 dW_0_0 z0_0_0 f0_0_0 g0_0_0_0 = Gen.reversible_heun_s_general_11_f1_0_0 f g t0 t1 y0_0_0 dW_0_0 z0_0_0 f0_0_0 g0_0_0_0 ∧
    Gen.reversible_heun_s_general_11__fandg_gprod_g1_0_0_0 f g t0 t1 y0_0_0 dW_0_0 z0_0_0 f0_0_0 g0_0_0_0 = Gen.reversible_heun_s_general_11_g1_0_0_0 f g t0 t1 y0_0_0 dW_0_0 z0_0_0 f0_0_0 g0_0_0_0 ∧
    Gen.reversible_heun_s_general_11__fandg_gprod_z1_0_0 f g t0 t1 y0_0_0 dW_0_0 z0_0_0 f0_0_0 g0_0_0_0 = Gen.reversible_heun_s_general_11_z1_0_0 f g t0 t1 y0_0_0 dW_0_0 z0_0_0 f0_0_0 g0_0_0_0 :=
  ⟨rfl, rfl, rfl, rfl⟩

theorem reversible_heun_s_general_11__fandg_fgprod_float (f : Float → Float → Float) (g : Float → Float → Float) (t0 t1 y0_0_0 dW_0_0 z0_0_0 f0_0_0 g0_0_0_0 : Float) :
    GenF.reversible_heun_s_general_11__fandg_fgprod_y1_0_0 f g t0 t1 y0_0_0 dW_0_0 z0_0_0 f0_0_0 g0_0_0_0 = GenF.reversible_heun_s_general_11_y1_0_0 f g t0 t1 y0_0_0 dW_0_0 z0_0_0 f0_0_0 g0_0_0_0 ∧
    GenF.reversible_heun_s_general_11__fandg_fgprod_f1_0_0 f g t0 t1 y0_0_0 dW_0_0 z0_0_0 f0_0_0 g0_0_0_0 = GenF.reversible_heun_s_general_11_f1_0_0 f g t0 t1 y0_0_0 dW_0_0 z0_0_0 f0_0_0 g0_0_0_0 ∧
    GenF.reversible_heun_s_general_11__fandg_fgprod_g1_0_0_0 f g t0 t1 y0_0_0 dW_0_0 z0_0_0 f0_0_0 g0_0_0_0 = GenF.reversible_heun_s_general_11_g1_0_0_0 f g t0 t1 y0_0_0 dW_0_0 z0_0_0 f0_0_0 g0_0_0_0 ∧
    GenF.reversible_heun_s_general_11__fandg_fgprod_z1_0_0 f g t0 t1 y0_0_0 dW_0_0 z0_0_0 f0_0_0 g0_0_0_0 = GenF.reversible_heun_s_general_11_z1_0_0 f g t0 t1 y0_0_0 dW_0_0 z0_0_0 f0_0_0 g0_0_0_0 :=
  ⟨rfl, rfl, rfl, rfl⟩

theorem reversible_heun_s_general_11__fandg_fgprod_field {K : Type} [Field K] [LinearOrder K] (f : K → K → K) (g : K → K → K) (t0 t1 y0_0_0 dW_0_0 z0_0_0 f0_0_0 g0_0_0_0 : K) :
    Gen.reversible_heun_s_general_11__fandg_fgprod_y1_0_0 f g t0 t1 y0_0_0 dW_0_0 z0_0_0 f0_0_0 g0_0_0_0 = Gen.reversible_heun_s_general_11_y1_0_0 f g t0 t1 y0_0_0 dW_0_0 z0_0_0 f0_0_0 g0_0_0_0 ∧
    Gen.reversible_heun_s_general_11__fandg_fgprod_f1_0_0 f g t0 t1 y0_0_0 dW_0_0 z0_0_0 f0_0_0 g0_0_0_0 = Gen.reversible_heun_s_general_11_f1_0_0 f g t0 t1 y0_0_0 dW_0_0 z0_0_0 f0_0_0 g0_0_0_0 ∧
    Gen.reversible_heun_s_general_11__fandg_fgprod_g1_0_0_0 f g t0 t1 y0_0_0 dW_0_0 z0_0_0 f0_0_0 g0_0_0_0 = Gen.reversible_heun_s_general_11_g1_0_0_0 f g t0 t1 y0_0_0 dW_0_0 z0_0_0 f0_0_0 g0_0_0_0 ∧
    Gen.reversible_heun_s_general_11__fandg_fgprod_z1_0_0 f g t0 t1 y0_0_0 dW_0_0 z0_0_0 f0_0_0 g0_0_0_0 = Gen.reversible_heun_s_general_11_z1_0_0 f g t0 t1 y0_0_0 dW_0_0 z0_0_0 f0_0_0 g0_0_0_0 :=
  ⟨rfl, rfl, rfl, rfl⟩

theorem reversible_heun_s_general_11__renamed_float (f : Float → Float → Float) (g : Float → Float → Float) (t0 t1 y0_0_0 dW_0_0 z0_0_0 f0_0_0 g0_0_0_0 : Float) :
    GenF.reversible_heun_s_general_11__renamed_y1_0_0 f g t0 t1 y0_0_0 dW_0_0 z0_0_0 f0_0_0 g0_0_0_0 = GenF.reversible_heun_s_general_11_y1_0_0 f g t0 t1 y0_0_0 dW_0_0 z0_0_0 f0_0_0 g0_0_0_0 ∧
    GenF.reversible_heun_s_general_11__renamed_f1_0_0 f g t0 t1 y0_0_0 dW_0_0 z0_0_0 f0_0_0 g0_0_0_0 = GenF.reversible_heun_s_general_11_f1_0_0 f g t0 t1 y0_0_0 dW_0_0 z0_0_0 f0_0_0 g0_0_0_0 ∧
    GenF.reversible_heun_s_general_11__renamed_g1_0_0_0 f g t0 t1 y0_0_0 dW_0_0 z0_0_0 f0_0_0 g0_0_0_0 = GenF.reversible_heun_s_general_11_g1_0_0_0 f g t0 t1 y0_0_0 dW_0_0 z0_0_0 f0_0_0 g0_0_0_0 ∧
    GenF.reversible_heun_s_general_11__renamed_z1_0_0 f g t0 t1 y0_0_0 dW_0_0 z0_0_0 f0_0_0 g0_0_0_0 = GenF.reversible_heun_s_general_11_z1_0_0 f g t0 t1 y0_0_0 dW_0_0 z0_0_0 f0_0_0 g0_0_0_0 :=
  ⟨rfl, rfl, rfl, rfl⟩

theorem reversible_heun_s_general_11__renamed_field {K : Type} [Field K] [LinearOrder K] (f : K → K → K) (g : K → K → K) (t0 t1 y0_0_0 dW_0_0 z0_0_0 f0_0_0 g0_0_0_0 : K) :
    Gen.reversible_heun_s_general_11__renamed_y1_0_0 f g t0 t1 y0_0_0 dW_0_0 z0_0_0 f0_0_0 g0_0_0_0 = Gen.reversible_heun_s_general_11_y1_0_0 f g t0 t1 y0_0_0 dW_0_0 z0_0_0 f0_0_0 g0_0_0_0 ∧
    Gen.reversible_heun_s_general_11__renamed_f1_0_0 f g t0 t1 y0_0_0 dW_0_0 z0_0_0 f0_0_0 g0_0_0_0 = Gen.reversible_heun_s_general_11_f1_0_0 f g t0 t1 y0_0_0 dW_0_0 z0_0_0 f0_0_0 g0_0_0_0 ∧
    Gen.reversible_heun_s_general_11__renamed_g1_0_0_0 f g t0 t1 y0_0_0 dW_0_0 z0_0_0 f0_0_0 g0_0_0_0 = Gen.reversible_heun_s_general_11_g1_0_0_0 f g t0 t1 y0_0_0 dW_0_0 z0_0_0 f0_0_0 g0_0_0_0 ∧
    Gen.reversible_heun_s_general_11__renamed_z1_0_0 f g t0 t1 y0_0_0 dW_0_0 z0_0_0 f0_0_0 g0_0_0_0 = Gen.reversible_heun_s_general_11_z1_0_0 f g t0 t1 y0_0_0 dW_0_0 z0_0_0 f0_0_0 g0_0_0_0 :=
  ⟨rfl, rfl, rfl, rfl⟩

theorem reversible_heun_s_general_11__renamed_all_float (f : Float → Float → Float) (g : Float → Float → Float) (t0 t1 y0_0_0 dW_0_0 z0_0_0 f0_0_0 g0_0_0_0 : Float) :
    GenF.reversible_heun_s_general_11__renamed_all_y1_0_0 f g t0 t1 y0_0_0 dW_0_0 z0_0_0 f0_0_0 g0_0_0_0 = GenF.reversible_heun_s_general_11_y1_0_0 f g t0 t1 y0_0_0 dW_0_0 z0_0_0 f0_0_0 g0_0_0_0 ∧
    GenF.reversible_heun_s_general_11__renamed_all_f1_0_0 f g t0 t1 y0_0_0 dW_0_0 z0_0_0 f0_0_0 g0_0_0_0 = GenF.reversible_heun_s_general_11_f1_0_0 f g t0 t1 y0_0_0 dW_0_0 z0_0_0 f0_0_0 g0_0_0_0 ∧
    GenF.reversible_heun_s_general_11__renamed_all_g1_0_0_0 f g t0 t1 y0_0_0 dW_0_0 z0_0_0 f0_0_0 g0_0_0_0 = GenF.reversible_heun_s_general_11_g1_0_0_0 f g t0 t1 y0_0_0 dW_0_0 z0_0_0 f0_0_0 g0_0_0_0 ∧
    GenF.reversible_heun_s_general_11__renamed_all_z1_0_0 f g t0 t1 y0_0_0 dW_0_0 z0_0_0 f0_0_0 g0_0_0_0 = GenF.reversible_heun_s_general_11_z1_0_0 f g t0 t1 y0_0_0 dW_0_0 z0_0_0 f0_0_0 g0_0_0_0 :=
  ⟨rfl, rfl, rfl, rfl⟩

theorem reversible_heun_s_general_11__renamed_all_field {K : Type} [Field K] [LinearOrder K] (f : K → K → K) (g : K → K → K) (t0 t1 y0_0_0 dW_0_0 z0_0_0 f0_0_0 g0_0_0_0 : K) :
    Gen.reversible_heun_s_general_11__renamed_all_y1_0_0 f g t0 t1 y0_0_0 dW_0_0 z0_0_0 f0_0_0 g0_0_0_0 = Gen.reversible_heun_s_general_11_y1_0_0 f g t0 t1 y0_0_0 dW_0_0 z0_0_0 f0_0_0 g0_0_0_0 ∧
    Gen.reversible_heun_s_general_11__renamed_all_f1_0_0 f g t0 t1 y0_0_0 dW_0_0 z0_0_0 f0_0_0 g0_0_0_0 = Gen.reversible_heun_s_general_11_f1_0_0 f g t0 t1 y0_0_0 dW_0_0 z0_0_0 f0_0_0 g0_0_0_0 ∧
    Gen.reversible_heun_s_general_11__renamed_all_g1_0_0_0 f g t0 t1 y0_0_0 dW_0_0 z0_0_0 f0_0_0 g0_0_0_0 = Gen.reversible_heun_s_general_11_g1_0_0_0 f g t0 t1 y0_0_0 dW_0_0 z0_0_0 f0_0_0 g0_0_0_0 ∧
    Gen.reversible_heun_s_general_11__renamed_all_z1_0_0 f g t0 t1 y0_0_0 dW_0_0 z0_0_0 f0_0_0 g0_0_0_0 = Gen.reversible_heun_s_general_11_z1_0_0 f g t0 t1 y0_0_0 dW_0_0 z0_0_0 f0_0_0 g0_0_0_0 :=
  ⟨rfl, rfl, rfl, rfl⟩

theorem euler_i_general_22__fandg_float (f0 : Float → Float → Float → Float) (f1 : Float → Float → Float → Float) (g00 : Float → Float → Float → Float) (g01 : Float → Float → Float → Float) (g10 : Float → Float → Float → Float) (g11 : Float → Float → Float → Float) (t0 t1 y0_0_0 y0_0_1 dW_0_0 dW_0_1 : Float) :
    GenF.euler_i_general_22__fandg_y1_0_0 f0 f1 g00 g01 g10 g11 t0 t1 y0_0_0 y0_0_1 dW_0_0 dW_0_1 = GenF.euler_i_general_22_y1_0_0 f0 f1 g00 g01 g10 g11 t0 t1 y0_0_0 y0_0_1 dW_0_0 dW_0_1 ∧
    GenF.euler_i_general_22__fandg_y1_0_1 f0 f1 g00 g01 g10 g11 t0 t1 y0_0_0 y0_0_1 dW_0_0 dW_0_1 = GenF.euler_i_general_22_y1_0_1 f0 f1 g00 g01 g10 g11 t0 t1 y0_0_0 y0_0_1 dW_0_0 dW_0_1 :=
  ⟨rfl, rfl⟩

theorem euler_i_general_22__fandg_field {K : Type} [Field K] [LinearOrder K] (f0 : K → K → K → K) (f1 : K → K → K → K) (g00 : K → K → K → K) (g01 : K → K → K → K) (g10 : K → K → K → K) (g11 : K → K → K → K) (t0 t1 y0_0_0 y0_0_1 dW_0_0 dW_0_1 : K) :
    Gen.euler_i_general_22__fandg_y1_0_0 f0 f1 g00 g01 g10 g11 t0 t1 y0_0_0 y0_0_1 dW_0_0 dW_0_1 = Gen.euler_i_general_22_y1_0_0 f0 f1 g00 g01 g10 g11 t0 t1 y0_0_0 y0_0_1 dW_0_0 dW_0_1 ∧
    Gen.euler_i_general_22__fandg_y1_0_1 f0 f1 g00 g01 g10 g11 t0 t1 y0_0_0 y0_0_1 dW_0_0 dW_0_1 = Gen.euler_i_general_22_y1_0_1 f0 f1 g00 g01 g10 g11 t0 t1 y0_0_0 y0_0_1 dW_0_0 dW_0_1 :=
  ⟨rfl, rfl⟩

theorem euler_i_general_22__f_g_gprod_float (f0 : Float → Float → Float → Float) (f1 : Float → Float → Float → Float) (g00 : Float → Float → Float → Float) (g01 : Float → Float → Float → Float) (g10 : Float → Float → Float → Float) (g11 : Float → Float → Float → Float) (t0 t1 y0_0_0 y0_0_1 dW_0_0 dW_0_1 : Float) :
    GenF.euler_i_general_22__f_g_gprod_y1_0_0 f0 f1 g00 g01 g10 g11 t0 t1 y0_0_0 y0_0_1 dW_0_0 dW_0_1 = GenF.euler_i_general_22_y1_0_0 f0 f1 g00 g01 g10 g11 t0 t1 y0_0_0 y0_0_1 dW_0_0 dW_0_1 ∧
    GenF.euler_i_general_22__f_g_gprod_y1_0_1 f0 f1 g00 g01 g10 g11 t0 t1 y0_0_0 y0_0_1 dW_0_0 dW_0_1 = GenF.euler_i_general_22_y1_0_1 f0 f1 g00 g01 g10 g11 t0 t1 y0_0_0 y0_0_1 dW_0_0 dW_0_1 :=
  ⟨rfl, rfl⟩

theorem euler_i_general_22__f_g_gprod_field {K : Type} [Field K] [LinearOrder K] (f0 : K → K → K → K) (f1 : K → K → K → K) (g00 : K → K → K → K) (g01 : K → K → K → K) (g10 : K → K → K → K) (g11 : K → K → K → K) (t0 t1 y0_0_0 y0_0_1 dW_0_0 dW_0_1 : K) :
    Gen.euler_i_general_22__f_g_gprod_y1_0_0 f0 f1 g00 g01 g10 g11 t0 t1 y0_0_0 y0_0_1 dW_0_0 dW_0_1 = Gen.euler_i_general_22_y1_0_0 f0 f1 g00 g01 g10 g11 t0 t1 y0_0_0 y0_0_1 dW_0_0 dW_0_1 ∧
    Gen.euler_i_general_22__f_g_gprod_y1_0_1 f0 f1 g00 g01 g10 g11 t0 t1 y0_0_0 y0_0_1 dW_0_0 dW_0_1 = Gen.euler_i_general_22_y1_0_1 f0 f1 g00 g01 g10 g11 t0 t1 y0_0_0 y0_0_1 dW_0_0 dW_0_1 :=
  ⟨rfl, rfl⟩

theorem euler_i_general_22__f_gprod_float (f0 : Float → Float → Float → Float) (f1 : Float → Float → Float → Float) (g00 : Float → Float → Float → Float) (g01 : Float → Float → Float → Float) (g10 : Float → Float → Float → Float) (g11 : Float → Float → Float → Float) (t0 t1 y0_0_0 y0_0_1 dW_0_0 dW_0_1 : Float) :
    GenF.euler_i_general_22__f_gprod_y1_0_0 f0 f1 g00 g01 g10 g11 t0 t1 y0_0_0 y0_0_1 dW_0_0 dW_0_1 = GenF.euler_i_general_22_y1_0_0 f0 f1 g00 g01 g10 g11 t0 t1 y0_0_0 y0_0_1 dW_0_0 dW_0_1 ∧
    GenF.euler_i_general_22__f_gprod_y1_0_1 f0 f1 g00 g01 g10 g11 t0 t1 y0_0_0 y0_0_1 dW_0_0 dW_0_1 = GenF.euler_i_general_22_y1_0_1 f0 f1 g00 g01 g10 g11 t0 t1 y0_0_0 y0_0_1 dW_0_0 dW_0_1 :=
  ⟨rfl, rfl⟩

theorem euler_i_general_22__f_gprod_field {K : Type} [Field K] [LinearOrder K] (f0 : K → K → K → K) (f1 : K → K → K → K) (g00 : K → K → K → K) (g01 : K → K → K → K) (g10 : K → K → K → K) (g11 : K → K → K → K) (t0 t1 y0_0_0 y0_0_1 dW_0_0 dW_0_1 : K) :
    Gen.euler_i_general_22__f_gprod_y1_0_0 f0 f1 g00 g01 g10 g11 t0 t1 y0_0_0 y0_0_1 dW_0_0 dW_0_1 = Gen.euler_i_general_22_y1_0_0 f0 f1 g00 g01 g10 g11 t0 t1 y0_0_0 y0_0_1 dW_0_0 dW_0_1 ∧
    Gen.euler_i_general_22__f_gprod_y1_0_1 f0 f1 g00 g01 g10 g11 t0 t1 y0_0_0 y0_0_1 dW_0_0 dW_0_1 = Gen.euler_i_general_22_y1_0_1 f0 f1 g00 g01 g10 g11 t0 t1 y0_0_0 y0_0_1 dW_0_0 dW_0_1 :=
  ⟨rfl, rfl⟩

theorem euler_i_general_22__fgprod_float (f0 : Float → Float → Float → Float) (f1 : Float → Float → Float → Float) (g00 : Float → Float → Float → Float) (g01 : Float → Float → Float → Float) (g10 : Float → Float → Float → Float) (g11 : Float → Float → Float → Float) (t0 t1 y0_0_0 y0_0_1 dW_0_0 dW_0_1 : Float) :
    GenF.euler_i_general_22__fgprod_y1_0_0 f0 f1 g00 g01 g10 g11 t0 t1 y0_0_0 y0_0_1 dW_0_0 dW_0_1 = GenF.euler_i_general_22_y1_0_0 f0 f1 g00 g01 g10 g11 t0 t1 y0_0_0 y0_0_1 dW_0_0 dW_0_1 ∧
    GenF.euler_i_general_22__fgprod_y1_0_1 f0 f1 g00 g01 g10 g11 t0 t1 y0_0_0 y0_0_1 dW_0_0 dW_0_1 = GenF.euler_i_general_22_y1_0_1 f0 f1 g00 g01 g10 g11 t0 t1 y0_0_0 y0_0_1 dW_0_0 dW_0_1 :=
  ⟨rfl, rfl⟩

theorem euler_i_general_22__fgprod_field {K : Type} [Field K] [LinearOrder K] (f0 : K → K → K → K) (f1 : K → K → K → K) (g00 : K → K → K → K) (g01 : K → K → K → K) (g10 : K → K → K → K) (g11 : K → K → K → K) (t0 t1 y0_0_0 y0_0_1 dW_0_0 dW_0_1 : K) :
    Gen.euler_i_general_22__fgprod_y1_0_0 f0 f1 g00 g01 g10 g11 t0 t1 y0_0_0 y0_0_1 dW_0_0 dW_0_1 = Gen.euler_i_general_22_y1_0_0 f0 f1 g00 g01 g10 g11 t0 t1 y0_0_0 y0_0_1 dW_0_0 dW_0_1 ∧
    Gen.euler_i_general_22__fgprod_y1_0_1 f0 f1 g00 g01 g10 g11 t0 t1 y0_0_0 y0_0_1 dW_0_0 dW_0_1 = Gen.euler_i_general_22_y1_0_1 f0 f1 g00 g01 g10 g11 t0 t1 y0_0_0 y0_0_1 dW_0_0 dW_0_1 :=
  ⟨rfl, rfl⟩

theorem euler_i_general_22__fandg_gprod_float (f0 : Float → Float → Float → Float) (f1 : Float → Float → Float → Float) (g00 : Float → Float → Float → Float) (g01 : Float → Float → Float → Float) (g10 : Float → Float → Float → Float) (g11 : Float → Float → Float → Float) (t0 t1 y0_0_0 y0_0_1 dW_0_0 dW_0_1 : Float) :
    GenF.euler_i_general_22__fandg_gprod_y1_0_0 f0 f1 g00 g01 g10 g11 t0 t1 y0_0_0 y0_0_1 dW_0_0 dW_0_1 = GenF.euler_i_general_22_y1_0_0 f0 f1 g00 g01 g10 g11 t0 t1 y0_0_0 y0_0_1 dW_0_0 dW_0_1 ∧
    GenF.euler_i_general_22__fandg_gprod_y1_0_1 f0 f1 g00 g01 g10 g11 t0 t1 y0_0_0 y0_0_1 dW_0_0 dW_0_1 = GenF.euler_i_general_22_y1_0_1 f0 f1 g00 g01 g10 g11 t0 t1 y0_0_0 y0_0_1 dW_0_0 dW_0_1 :=
  ⟨rfl, rfl⟩

theorem euler_i_general_22__fandg_gprod_field {K : Type} [Field K] [LinearOrder K] (f0 : K → K → K → K) (f1 : K → K → K → K) (g00 : K → K → K → K) (g01 : K → K → K → K) (g10 : K → K → K → K) (g11 : K → K → K → K) (t0 t1 y0_0_0 y0_0_1 dW_0_0 dW_0_1 : K) :
    Gen.euler_i_general_22__fandg_gprod_y1_0_0 f0 f1 g00 g01 g10 g11 t0 t1 y0_0_0 y0_0_1 dW_0_0 dW_0_1 = Gen.euler_i_general_22_y1_0_0 f0 f1 g00 g01 g10 g11 t0 t1 y0_0_0 y0_0_1 dW_0_0 dW_0_1 ∧
    Gen.euler_i_general_22__fandg_gprod_y1_0_1 f0 f1 g00 g01 g10 g11 t0 t1 y0_0_0 y0_0_1 dW_0_0 dW_0_1 = Gen.euler_i_general_22_y1_0_1 f0 f1 g00 g01 g10 g11 t0 t1 y0_0_0 y0_0_1 dW_0_0 dW_0_1 :=
  ⟨rfl, rfl⟩

theorem euler_i_general_22__fandg_fgprod_float (f0 : Float → Float → Float → Float) (f1 : Float → Float → Float → Float) (g00 : Float → Float → Float → Float) (g01 : Float → Float → Float → Float) (g10 : Float → Float → Float → Float) (g11 : Float → Float → Float → Float) (t0 t1 y0_0_0 y0_0_1 dW_0_0 dW_0_1 : Float) :
    GenF.euler_i_general_22__fandg_fgprod_y1_0_0 f0 f1 g00 g01 g10 g11 t0 t1 y0_0_0 y0_0_1 dW_0_0 dW_0_1 = GenF.euler_i_general_22_y1_0_0 f0 f1 g00 g01 g10 g11 t0 t1 y0_0_0 y0_0_1 dW_0_0 dW_0_1 ∧
    GenF.euler_i_general_22__fandg_fgprod_y1_0_1 f0 f1 g00 g01 g10 g11 t0 t1 y0_0_0 y0_0_1 dW_0_0 dW_0_1 = GenF.euler_i_general_22_y1_0_1 f0 f1 g00 g01 g10 g11 t0 t1 y0_0_0 y0_0_1 dW_0_0 dW_0_1 :=
  ⟨rfl, rfl⟩

theorem euler_i_general_22__fandg_fgprod_field {K : Type} [Field K] [LinearOrder K] (f0 : K → K → K → K) (f1 : K → K → K → K) (g00 : K → K → K → K) (g01 : K → K → K → K) (g10 : K → K → K → K) (g11 : K → K → K → K) (t0 t1 y0_0_0 y0_0_1 dW_0_0 dW_0_1 : K) :
    Gen.euler_i_general_22__fandg_fgprod_y1_0_0 f0 f1 g00 g01 g10 g11 t0 t1 y0_0_0 y0_0_1 dW_0_0 dW_0_1 = Gen.euler_i_general_22_y1_0_0 f0 f1 g00 g01 g10 g11 t0 t1 y0_0_0 y0_0_1 dW_0_0 dW_0_1 ∧
    Gen.euler_i_general_22__fandg_fgprod_y1_0_1 f0 f1 g00 g01 g10 g11 t0 t1 y0_0_0 y0_0_1 dW_0_0 dW_0_1 = Gen.euler_i_general_22_y1_0_1 f0 f1 g00 g01 g10 g11 t0 t1 y0_0_0 y0_0_1 dW_0_0 dW_0_1 :=
  ⟨rfl, rfl⟩

theorem euler_i_general_22__renamed_float (f0 : Float → Float → Float → Float) (f1 : Float → Float → Float → Float) (g00 : Float → Float → Float → Float) (g01 : Float → Float → Float → Float) (g10 : Float → Float → Float → Float) (g11 : Float → Float → Float → Float) (t0 t1 y0_0_0 y0_0_1 dW_0_0 dW_0_1 : Float) :
    GenF.euler_i_general_22__renamed_y1_0_0 f0 f1 g00 g01 g10 g11 t0 t1 y0_0_0 y0_0_1 dW_0_0 dW_0_1 = GenF.euler_i_general_22_y1_0_0 f0 f1 g00 g01 g10 g11 t0 t1 y0_0_0 y0_0_1 dW_0_0 dW_0_1 ∧
    GenF.euler_i_general_22__renamed_y1_0_1 f0 f1 g00 g01 g10 g11 t0 t1 y0_0_0 y0_0_1 dW_0_0 dW_0_1 = GenF.euler_i_general_22_y1_0_1 f0 f1 g00 g01 g10 g11 t0 t1 y0_0_0 y0_0_1 dW_0_0 dW_0_1 :=
  ⟨rfl, rfl⟩

theorem euler_i_general_22__renamed_field {K : Type} [Field K] [LinearOrder K] (f0 : K → K → K → K) (f1 : K → K → K → K) (g00 : K → K → K → K) (g01 : K → K → K → K) (g10 : K → K → K → K) (g11 : K → K → K → K) (t0 t1 y0_0_0 y0_0_1 dW_0_0 dW_0_1 : K) :
    Gen.euler_i_general_22__renamed_y1_0_0 f0 f1 g00 g01 g10 g11 t0 t1 y0_0_0 y0_0_1 dW_0_0 dW_0_1 = Gen.euler_i_general_22_y1_0_0 f0 f1 g00 g01 g10 g11 t0 t1 y0_0_0 y0_0_1 dW_0_0 dW_0_1 ∧
    Gen.euler_i_general_22__renamed_y1_0_1 f0 f1 g00 g01 g10 g11 t0 t1 y0_0_0 y0_0_1 dW_0_0 dW_0_1 = Gen.euler_i_general_22_y1_0_1 f0 f1 g00 g01 g10 g11 t0 t1 y0_0_0 y0_0_1 dW_0_0 dW_0_1 :=
  ⟨rfl, rfl⟩

theorem euler_i_general_22__renamed_all_float (f0 : Float → Float → Float → Float) (f1 : Float → Float → Float → Float) (g00 : Float → Float → Float → Float) (g01 : Float → Float → Float → Float) (g10 : Float → Float → Float → Float) (g11 : Float → Float → Float → Float) (t0 t1 y0_0_0 y0_0_1 dW_0_0 dW_0_1 : Float) :
    GenF.euler_i_general_22__renamed_all_y1_0_0 f0 f1 g00 g01 g10 g11 t0 t1 y0_0_0 y0_0_1 dW_0_0 dW_0_1 = GenF.euler_i_general_22_y1_0_0 f0 f1 g00 g01 g10 g11 t0 t1 y0_0_0 y0_0_1 dW_0_0 dW_0_1 ∧
    GenF.euler_i_general_22__renamed_all_y1_0_1 f0 f1 g00 g01 g10 g11 t0 t1 y0_0_0 y0_0_1 dW_0_0 dW_0_1 = GenF.euler_i_general_22_y1_0_1 f0 f1 g00 g01 g10 g11 t0 t1 y0_0_0 y0_0_1 dW_0_0 dW_0_1 :=
  ⟨rfl, rfl⟩

theorem euler_i_general_22__renamed_all_field {K : Type} [Field K] [LinearOrder K] (f0 : K → K → K → K) (f1 : K → K → K → K) (g00 : K → K → K → K) (g01 : K → K → K → K) (g10 : K → K → K → K) (g11 : K → K → K → K) (t0 t1 y0_0_0 y0_0_1 dW_0_0 dW_0_1 : K) :
    Gen.euler_i_general_22__renamed_all_y1_0_0 f0 f1 g00 g01 g10 g11 t0 t1 y0_0_0 y0_0_1 dW_0_0 dW_0_1 = Gen.euler_i_general_22_y1_0_0 f0 f1 g00 g01 g10 g11 t0 t1 y0_0_0 y0_0_1 dW_0_0 dW_0_1 ∧
    Gen.euler_i_general_22__renamed_all_y1_0_1 f0 f1 g00 g01 g10 g11 t0 t1 y0_0_0 y0_0_1 dW_0_0 dW_0_1 = Gen.euler_i_general_22_y1_0_1 f0 f1 g00 g01 g10 g11 t0 t1 y0_0_0 y0_0_1 dW_0_0 dW_0_1 :=
  ⟨rfl, rfl⟩

theorem heun_s_general_22__fandg_float (f0 : Float → Float → Float → Float) (f1 : Float → Float → Float → Float) (g00 : Float → Float → Float → Float) (g01 : Float → Float → Float → Float) (g10 : Float → Float → Float → Float) (g11 : Float → Float → Float → Float) (t0 t1 y0_0_0 y0_0_1 dW_0_0 dW_0_1 : Float) :
    GenF.heun_s_general_22__fandg_y1_0_0 f0 f1 g00 g01 g10 g11 t0 t1 y0_0_0 y0_0_1 dW_0_0 dW_0_1 = GenF.heun_s_general_22_y1_0_0 f0 f1 g00 g01 g10 g11 t0 t1 y0_0_0 y0_0_1 dW_0_0 dW_0_1 ∧
    GenF.heun_s_general_22__fandg_y1_0_1 f0 f1 g00 g01 g10 g11 t0 t1 y0_0_0 y0_0_1 dW_0_0 dW_0_1 = GenF.heun_s_general_22_y1_0_1 f0 f1 g00 g01 g10 g11 t0 t1 y0_0_0 y0_0_1 dW_0_0 dW_0_1 :=
  ⟨rfl, rfl⟩

theorem heun_s_general_22__fandg_field {K : Type} [Field K] [LinearOrder K] (f0 : K → K → K → K) (f1 : K → K → K → K) (g00 : K → K → K → K) (g01 : K → K → K → K) (g10 : K → K → K → K) (g11 : K → K → K → K) (t0 t1 y0_0_0 y0_0_1 dW_0_0 dW_0_1 : K) :
    Gen.heun_s_general_22__fandg_y1_0_0 f0 f1 g00 g01 g10 g11 t0 t1 y0_0_0 y0_0_1 dW_0_0 dW_0_1 = Gen.heun_s_general_22_y1_0_0 f0 f1 g00 g01 g10 g11 t0 t1 y0_0_0 y0_0_1 dW_0_0 dW_0_1 ∧
    Gen.heun_s_general_22__fandg_y1_0_1 f0 f1 g00 g01 g10 g11 t0 t1 y0_0_0 y0_0_1 dW_0_0 dW_0_1 = Gen.heun_s_general_22_y1_0_1 f0 f1 g00 g01 g10 g11 t0 t1 y0_0_0 y0_0_1 dW_0_0 dW_0_1 :=
  ⟨rfl, rfl⟩

theorem heun_s_general_22__f_g_gprod_float (f0 : Float → Float → Float → Float) (f1 : Float → Float → Float → Float) (g00 : Float → Float → Float → Float) (g01 : Float → Float → Float → Float) (g10 : Float → Float → Float → Float) (g11 : Float → Float → Float → Float) (t0 t1 y0_0_0 y0_0_1 dW_0_0 dW_0_1 : Float) :
    GenF.heun_s_general_22__f_g_gprod_y1_0_0 f0 f1 g00 g01 g10 g11 t0 t1 y0_0_0 y0_0_1 dW_0_0 dW_0_1 = GenF.heun_s_general_22_y1_0_0 f0 f1 g00 g01 g10 g11 t0 t1 y0_0_0 y0_0_1 dW_0_0 dW_0_1 ∧
    GenF.heun_s_general_22__f_g_gprod_y1_0_1 f0 f1 g00 g01 g10 g11 t0 t1 y0_0_0 y0_0_1 dW_0_0 dW_0_1 = GenF.heun_s_general_22_y1_0_1 f0 f1 g00 g01 g10 g11 t0 t1 y0_0_0 y0_0_1 dW_0_0 dW_0_1 :=
  ⟨rfl, rfl⟩

theorem heun_s_general_22__f_g_gprod_field {K : Type} [Field K] [LinearOrder K] (f0 : K → K → K → K) (f1 : K → K → K → K) (g00 : K → K → K → K) (g01 : K → K → K → K) (g10 : K → K → K → K) (g11 : K → K → K → K) (t0 t1 y0_0_0 y0_0_1 dW_0_0 dW_0_1 : K) :
    Gen.heun_s_general_22__f_g_gprod_y1_0_0 f0 f1 g00 g01 g10 g11 t0 t1 y0_0_0 y0_0_1 dW_0_0 dW_0_1 = Gen.heun_s_general_22_y1_0_0 f0 f1 g00 g01 g10 g11 t0 t1 y0_0_0 y0_0_1 dW_0_0 dW_0_1 ∧
    Gen.heun_s_general_22__f_g_gprod_y1_0_1 f0 f1 g00 g01 g10 g11 t0 t1 y0_0_0 y0_0_1 dW_0_0 dW_0_1 = Gen.heun_s_general_22_y1_0_1 f0 f1 g00 g01 g10 g11 t0 t1 y0_0_0 y0_0_1 dW_0_0 dW_0_1 :=
  ⟨rfl, rfl⟩

theorem heun_s_general_22__f_gprod_float (f0 : Float → Float → Float → Float) (f1 : Float → Float → Float → Float) (g00 : Float → Float → Float → Float) (g01 : Float → Float → Float → Float) (g10 : Float → Float → Float → Float) (g11 : Float → Float → Float → Float) (t0 t1 y0_0_0 y0_0_1 dW_0_0 dW_0_1 : Float) :
    GenF.heun_s_general_22__f_gprod_y1_0_0 f0 f1 g00 g01 g10 g11 t0 t1 y0_0_0 y0_0_1 dW_0_0 dW_0_1 = GenF.heun_s_general_22_y1_0_0 f0 f1 g00 g01 g10 g11 t0 t1 y0_0_0 y0_0_1 dW_0_0 dW_0_1 ∧
    GenF.heun_s_general_22__f_gprod_y1_0_1 f0 f1 g00 g01 g10 g11 t0 t1 y0_0_0 y0_0_1 dW_0_0 dW_0_1 = GenF.heun_s_general_22_y1_0_1 f0 f1 g00 g01 g10 g11 t0 t1 y0_0_0 y0_0_1 dW_0_0 dW_0_1 :=
  ⟨rfl, rfl⟩

theorem heun_s_general_22__f_gprod_field {K : Type} [Field K] [LinearOrder K] (f0 : K → K → K → K) (f1 : K → K → K → K) (g00 : K → K → K → K) (g01 : K → K → K → K) (g10 : K → K → K → K) (g11 : K → K → K → K) (t0 t1 y0_0_0 y0_0_1 dW_0_0 dW_0_1 : K) :
    Gen.heun_s_general_22__f_gprod_y1_0_0 f0 f1 g00 g01 g10 g11 t0 t1 y0_0_0 y0_0_1 dW_0_0 dW_0_1 = Gen.heun_s_general_22_y1_0_0 f0 f1 g00 g01 g10 g11 t0 t1 y0_0_0 y0_0_1 dW_0_0 dW_0_1 ∧
    Gen.heun_s_general_22__f_gprod_y1_0_1 f0 f1 g00 g01 g10 g11 t0 t1 y0_0_0 y0_0_1 dW_0_0 dW_0_1 = Gen.heun_s_general_22_y1_0_1 f0 f1 g00 g01 g10 g11 t0 t1 y0_0_0 y0_0_1 dW_0_0 dW_0_1 :=
  ⟨rfl, rfl⟩

theorem heun_s_general_22__fgprod_float (f0 : Float → Float → Float → Float) (f1 : Float → Float → Float → Float) (g00 : Float → Float → Float → Float) (g01 : Float → Float → Float → Float) (g10 : Float → Float → Float → Float) (g11 : Float → Float → Float → Float) (t0 t1 y0_0_0 y0_0_1 dW_0_0 dW_0_1 : Float) :
    GenF.heun_s_general_22__fgprod_y1_0_0 f0 f1 g00 g01 g10 g11 t0 t1 y0_0_0 y0_0_1 dW_0_0 dW_0_1 = GenF.heun_s_general_22_y1_0_0 f0 f1 g00 g01 g10 g11 t0 t1 y0_0_0 y0_0_1 dW_0_0 dW_0_1 ∧
    GenF.heun_s_general_22__fgprod_y1_0_1 f0 f1 g00 g01 g10 g11 t0 t1 y0_0_0 y0_0_1 dW_0_0 dW_0_1 = GenF.heun_s_general_22_y1_0_1 f0 f1 g00 g01 g10 g11 t0 t1 y0_0_0 y0_0_1 dW_0_0 dW_0_1 :=
  ⟨rfl, rfl⟩

theorem heun_s_general_22__fgprod_field {K : Type} [Field K] [LinearOrder K] (f0 : K → K → K → K) (f1 : K → K → K → K) (g00 : K → K → K → K) (g01 : K → K → K → K) (g10 : K → K → K → K) (g11 : K → K → K → K) (t0 t1 y0_0_0 y0_0_1 dW_0_0 dW_0_1 : K) :
    Gen.heun_s_general_22__fgprod_y1_0_0 f0 f1 g00 g01 g10 g11 t0 t1 y0_0_0 y0_0_1 dW_0_0 dW_0_1 = Gen.heun_s_general_22_y1_0_0 f0 f1 g00 g01 g10 g11 t0 t1 y0_0_0 y0_0_1 dW_0_0 dW_0_1 ∧
    Gen.heun_s_general_22__fgprod_y1_0_1 f0 f1 g00 g01 g10 g11 t0 t1 y0_0_0 y0_0_1 dW_0_0 dW_0_1 = Gen.heun_s_general_22_y1_0_1 f0 f1 g00 g01 g10 g11 t0 t1 y0_0_0 y0_0_1 dW_0_0 dW_0_1 :=
  ⟨rfl, rfl⟩

theorem heun_s_general_22__fandg_gprod_float (f0 : Float → Float → Float → Float) (f1 : Float → Float → Float → Float) (g00 : Float → Float → Float → Float) (g01 : Float → Float → Float → Float) (g10 : Float → Float → Float → Float) (g11 : Float → Float → Float → Float) (t0 t1 y0_0_0 y0_0_1 dW_0_0 dW_0_1 : Float) :
    GenF.heun_s_general_22__fandg_gprod_y1_0_0 f0 f1 g00 g01 g10 g11 t0 t1 y0_0_0 y0_0_1 dW_0_0 dW_0_1 = GenF.heun_s_general_22_y1_0_0 f0 f1 g00 g01 g10 g11 t0 t1 y0_0_0 y0_0_1 dW_0_0 dW_0_1 ∧
    GenF.heun_s_general_22__fandg_gprod_y1_0_1 f0 f1 g00 g01 g10 g11 t0 t1 y0_0_0 y0_0_1 dW_0_0 dW_0_1 = GenF.heun_s_general_22_y1_0_1 f0 f1 g00 g01 g10 g11 t0 t1 y0_0_0 y0_0_1 dW_0_0 dW_0_1 :=
  ⟨rfl, rfl⟩

theorem heun_s_general_22__fandg_gprod_field {K : Type} [Field K] [LinearOrder K] (f0 : K → K → K → K) (f1 : K → K → K → K) (g00 : K → K → K → K) (g01 : K → K → K → K) (g10 : K → K → K → K) (g11 : K → K → K → K) (t0 t1 y0_0_0 y0_0_1 dW_0_0 dW_0_1 : K) :
    Gen.heun_s_general_22__fandg_gprod_y1_0_0 f0 f1 g00 g01 g10 g11 t0 t1 y0_0_0 y0_0_1 dW_0_0 dW_0_1 = Gen.heun_s_general_22_y1_0_0 f0 f1 g00 g01 g10 g11 t0 t1 y0_0_0 y0_0_1 dW_0_0 dW_0_1 ∧
    Gen.heun_s_general_22__fandg_gprod_y1_0_1 f0 f1 g00 g01 g10 g11 t0 t1 y0_0_0 y0_0_1 dW_0_0 dW_0_1 = Gen.heun_s_general_22_y1_0_1 f0 f1 g00 g01 g10 g11 t0 t1 y0_0_0 y0_0_1 dW_0_0 dW_0_1 :=
  ⟨rfl, rfl⟩

theorem heun_s_general_22__fandg_fgprod_float (f0 : Float → Float → Float → Float) (f1 : Float → Float → Float → Float) (g00 : Float → Float → Float → Float) (g01 : Float → Float → Float → Float) (g10 : Float → Float → Float → Float) (g11 : Float → Float → Float → Float) (t0 t1 y0_0_0 y0_0_1 dW_0_0 dW_0_1 : Float) :
    GenF.heun_s_general_22__fandg_fgprod_y1_0_0 f0 f1 g00 g01 g10 g11 t0 t1 y0_0_0 y0_0_1 dW_0_0 dW_0_1 = GenF.heun_s_general_22_y1_0_0 f0 f1 g00 g01 g10 g11 t0 t1 y0_0_0 y0_0_1 dW_0_0 dW_0_1 ∧
    GenF.heun_s_general_22__fandg_fgprod_y1_0_1 f0 f1 g00 g01 g10 g11 t0 t1 y0_0_0 y0_0_1 dW_0_0 dW_0_1 = GenF.heun_s_general_22_y1_0_1 f0 f1 g00 g01 g10 g11 t0 t1 y0_0_0 y0_0_1 dW_0_0 dW_0_1 :=
  ⟨rfl, rfl⟩

theorem heun_s_general_22__fandg_fgprod_field {K : Type} [Field K] [LinearOrder K] (f0 : K → K → K → K) (f1 : K → K → K → K) (g00 : K → K → K → K) (g01 : K → K → K → K) (g10 : K → K → K → K) (g11 : K → K → K → K) (t0 t1 y0_0_0 y0_0_1 dW_0_0 dW_0_1 : K) :
    Gen.heun_s_general_22__fandg_fgprod_y1_0_0 f0 f1 g00 g01 g10 g11 t0 t1 y0_0_0 y0_0_1 dW_0_0 dW_0_1 = Gen.heun_s_general_22_y1_0_0 f0 f1 g00 g01 g10 g11 t0 t1 y0_0_0 y0_0_1 dW_0_0 dW_0_1 ∧
    Gen.heun_s_general_22__fandg_fgprod_y1_0_1 f0 f1 g00 g01 g10 g11 t0 t1 y0_0_0 y0_0_1 dW_0_0 dW_0_1 = Gen.heun_s_general_22_y1_0_1 f0 f1 g00 g01 g10 g11 t0 t1 y0_0_0 y0_0_1 dW_0_0 dW_0_1 :=
  ⟨rfl, rfl⟩

theorem heun_s_general_22__renamed_float (f0 : Float → Float → Float → Float) (f1 : Float → Float → Float → Float) (g00 : Float → Float → Float → Float) (g01 : Float → Float → Float → Float) (g10 : Float → Float → Float → Float) (g11 : Float → Float → Float → Float) (t0 t1 y0_0_0 y0_0_1 dW_0_0 dW_0_1 : Float) :
    GenF.heun_s_general_22__renamed_y1_0_0 f0 f1 g00 g01 g10 g11 t0 t1 y0_0_0 y0_0_1 dW_0_0 dW_0_1 = GenF.heun_s_general_22_y1_0_0 f0 f1 g00 g01 g10 g11 t0 t1 y0_0_0 y0_0_1 dW_0_0 dW_0_1 ∧
    GenF.heun_s_general_22__renamed_y1_0_1 f0 f1 g00 g01 g10 g11 t0 t1 y0_0_0 y0_0_1 dW_0_0 dW_0_1 = GenF.heun_s_general_22_y1_0_1 f0 f1 g00 g01 g10 g11 t0 t1 y0_0_0 y0_0_1 dW_0_0 dW_0_1 :=
  ⟨rfl, rfl⟩

theorem heun_s_general_22__renamed_field {K : Type} [Field K] [LinearOrder K] (f0 : K → K → K → K) (f1 : K → K → K → K) (g00 : K → K → K → K) (g01 : K → K → K → K) (g10 : K → K → K → K) (g11 : K → K → K → K) (t0 t1 y0_0_0 y0_0_1 dW_0_0 dW_0_1 : K) :
    Gen.heun_s_general_22__renamed_y1_0_0 f0 f1 g00 g01 g10 g11 t0 t1 y0_0_0 y0_0_1 dW_0_0 dW_0_1 = Gen.heun_s_general_22_y1_0_0 f0 f1 g00 g01 g10 g11 t0 t1 y0_0_0 y0_0_1 dW_0_0 dW_0_1 ∧
    Gen.heun_s_general_22__renamed_y1_0_1 f0 f1 g00 g01 g10 g11 t0 t1 y0_0_0 y0_0_1 dW_0_0 dW_0_1 = Gen.heun_s_general_22_y1_0_1 f0 f1 g00 g01 g10 g11 t0 t1 y0_0_0 y0_0_1 dW_0_0 dW_0_1 :=
  ⟨rfl, rfl⟩

theorem heun_s_general_22__renamed_all_float (f0 : Float → Float → Float → Float) (f1 : Float → Float → Float → Float) (g00 : Float → Float → Float → Float) (g01 : Float → Float → Float → Float) (g10 : Float → Float → Float → Float) (g11 : Float → Float → Float → Float) (t0 t1 y0_0_0 y0_0_1 dW_0_0 dW_0_1 : Float) :
    GenF.heun_s_general_22__renamed_all_y1_0_0 f0 f1 g00 g01 g10 g11 t0 t1 y0_0_0 y0_0_1 dW_0_0 dW_0_1 = GenF.heun_s_general_22_y1_0_0 f0 f1 g00 g01 g10 g11 t0 t1 y0_0_0 y0_0_1 dW_0_0 dW_0_1 ∧
    GenF.heun_s_general_22__renamed_all_y1_0_1 f0 f1 g00 g01 g10 g11 t0 t1 y0_0_0 y0_0_1 dW_0_0 dW_0_1 = GenF.heun_s_general_22_y1_0_1 f0 f1 g00 g01 g10 g11 t0 t1 y0_0_0 y0_0_1 dW_0_0 dW_0_1 :=
  ⟨rfl, rfl⟩

theorem heun_s_general_22__renamed_all_field {K : Type} [Field K] [LinearOrder K] (f0 : K → K → K → K) (f1 : K → K → K → K) (g00 : K → K → K → K) (g01 : K → K → K → K) (g10 : K → K → K → K) (g11 : K → K → K → K) (t0 t1 y0_0_0 y0_0_1 dW_0_0 dW_0_1 : K) :
    Gen.heun_s_general_22__renamed_all_y1_0_0 f0 f1 g00 g01 g10 g11 t0 t1 y0_0_0 y0_0_1 dW_0_0 dW_0_1 = Gen.heun_s_general_22_y1_0_0 f0 f1 g00 g01 g10 g11 t0 t1 y0_0_0 y0_0_1 dW_0_0 dW_0_1 ∧
    Gen.heun_s_general_22__renamed_all_y1_0_1 f0 f1 g00 g01 g10 g11 t0 t1 y0_0_0 y0_0_1 dW_0_0 dW_0_1 = Gen.heun_s_general_22_y1_0_1 f0 f1 g00 g01 g10 g11 t0 t1 y0_0_0 y0_0_1 dW_0_0 dW_0_1 :=
  ⟨rfl, rfl⟩

theorem midpoint_s_general_22__fandg_float (f0 : Float → Float → Float → Float) (f1 : Float → Float → Float → Float) (g00 : Float → Float → Float → Float) (g01 : Float → Float → Float → Float) (g10 : Float → Float → Float → Float) (g11 : Float → Float → Float → Float) (t0 t1 y0_0_0 y0_0_1 dW_0_0 dW_0_1 : Float) :
    GenF.midpoint_s_general_22__fandg_y1_0_0 f0 f1 g00 g01 g10 g11 t0 t1 y0_0_0 y0_0_1 dW_0_0 dW_0_1 = GenF.midpoint_s_general_22_y1_0_0 f0 f1 g00 g01 g10 g11 t0 t1 y0_0_0 y0_0_1 dW_0_0 dW_0_1 ∧
    GenF.midpoint_s_general_22__fandg_y1_0_1 f0 f1 g00 g01 g10 g11 t0 t1 y0_0_0 y0_0_1 dW_0_0 dW_0_1 = GenF.midpoint_s_general_22_y1_0_1 f0 f1 g00 g01 g10 g11 t0 t1 y0_0_0 y0_0_1 dW_0_0 dW_0_1 :=
  ⟨rfl, rfl⟩

theorem midpoint_s_general_22__fandg_field {K : Type} [Field K] [LinearOrder K] (f0 : K → K → K → K) (f1 : K → K → K → K) (g00 : K → K → K → K) (g01 : K → K → K → K) (g10 : K → K → K → K) (g11 : K → K → K → K) (t0 t1 y0_0_0 y0_0_1 dW_0_0 dW_0_1 : K) :
    Gen.midpoint_s_general_22__fandg_y1_0_0 f0 f1 g00 g01 g10 g11 t0 t1 y0_0_0 y0_0_1 dW_0_0 dW_0_1 = Gen.midpoint_s_general_22_y1_0_0 f0 f1 g00 g01 g10 g11 t0 t1 y0_0_0 y0_0_1 dW_0_0 dW_0_1 ∧
    Gen.midpoint_s_general_22__fandg_y1_0_1 f0 f1 g00 g01 g10 g11 t0 t1 y0_0_0 y0_0_1 dW_0_0 dW_0_1 = Gen.midpoint_s_general_22_y1_0_1 f0 f1 g00 g01 g10 g11 t0 t1 y0_0_0 y0_0_1 dW_0_0 dW_0_1 :=
  ⟨rfl, rfl⟩

theorem midpoint_s_general_22__f_g_gprod_float (f0 : Float → Float → Float → Float) (f1 : Float → Float → Float → Float) (g00 : Float → Float → Float → Float) (g01 : Float → Float → Float → Float) (g10 : Float → Float → Float → Float) (g11 : Float → Float → Float → Float) (t0 t1 y0_0_0 y0_0_1 dW_0_0 dW_0_1 : Float) :
    GenF.midpoint_s_general_22__f_g_gprod_y1_0_0 f0 f1 g00 g01 g10 g11 t0 t1 y0_0_0 y0_0_1 dW_0_0 dW_0_1 = GenF.midpoint_s_general_22_y1_0_0 f0 f1 g00 g01 g10 g11 t0 t1 y0_0_0 y0_0_1 dW_0_0 dW_0_1 ∧
    GenF.midpoint_s_general_22__f_g_gprod_y1_0_1 f0 f1 g00 g01 g10 g11 t0 t1 y0_0_0 y0_0_1 dW_0_0 dW_0_1 = GenF.midpoint_s_general_22_y1_0_1 f0 f1 g00 g01 g10 g11 t0 t1 y0_0_0 y0_0_1 dW_0_0 dW_0_1 :=
  ⟨rfl, rfl⟩

theorem midpoint_s_general_22__f_g_gprod_field {K : Type} [Field K] [LinearOrder K] (f0 : K → K → K → K) (f1 : K → K → K → K) (g00 : K → K → K → K) (g01 : K → K → K → K) (g10 : K → K → K → K) (g11 : K → K → K → K) (t0 t1 y0_0_0 y0_0_1 dW_0_0 dW_0_1 : K) :
    Gen.midpoint_s_general_22__f_g_gprod_y1_0_0 f0 f1 g00 g01 g10 g11 t0 t1 y0_0_0 y0_0_1 dW_0_0 dW_0_1 = Gen.midpoint_s_general_22_y1_0_0 f0 f1 g00 g01 g10 g11 t0 t1 y0_0_0 y0_0_1 dW_0_0 dW_0_1 ∧
    Gen.midpoint_s_general_22__f_g_gprod_y1_0_1 f0 f1 g00 g01 g10 g11 t0 t1 y0_0_0 y0_0_1 dW_0_0 dW_0_1 = Gen.midpoint_s_general_22_y1_0_1 f0 f1 g00 g01 g10 g11 t0 t1 y0_0_0 y0_0_1 dW_0_0 dW_0_1 :=
  ⟨rfl, rfl⟩

theorem midpoint_s_general_22__f_gprod_float (f0 : Float → Float → Float → Float) (f1 : Float → Float → Float → Float) (g00 : Float → Float → Float → Float) (g01 : Float → Float → Float → Float) (g10 : Float → Float → Float → Float) (g11 : Float → Float → Float → Float) (t0 t1 y0_0_0 y0_0_1 dW_0_0 dW_0_1 : Float) :
    GenF.midpoint_s_general_22__f_gprod_y1_0_0 f0 f1 g00 g01 g10 g11 t0 t1 y0_0_0 y0_0_1 dW_0_0 dW_0_1 = GenF.midpoint_s_general_22_y1_0_0 f0 f1 g00 g01 g10 g11 t0 t1 y0_0_0 y0_0_1 dW_0_0 dW_0_1 ∧
    GenF.midpoint_s_general_22__f_gprod_y1_0_1 f0 f1 g00 g01 g10 g11 t0 t1 y0_0_0 y0_0_1 dW_0_0 dW_0_1 = GenF.midpoint_s_general_22_y1_0_1 f0 f1 g00 g01 g10 g11 t0 t1 y0_0_0 y0_0_1 dW_0_0 dW_0_1 :=
  ⟨rfl, rfl⟩

theorem midpoint_s_general_22__f_gprod_field {K : Type} [Field K] [LinearOrder K] (f0 : K → K → K → K) (f1 : K → K → K → K) (g00 : K → K → K → K) (g01 : K → K → K → K) (g10 : K → K → K → K) (g11 : K → K → K → K) (t0 t1 y0_0_0 y0_0_1 dW_0_0 dW_0_1 : K) :
    Gen.midpoint_s_general_22__f_gprod_y1_0_0 f0 f1 g00 g01 g10 g11 t0 t1 y0_0_0 y0_0_1 dW_0_0 dW_0_1 = Gen.midpoint_s_general_22_y1_0_0 f0 f1 g00 g01 g10 g11 t0 t1 y0_0_0 y0_0_1 dW_0_0 dW_0_1 ∧
    Gen.midpoint_s_general_22__f_gprod_y1_0_1 f0 f1 g00 g01 g10 g11 t0 t1 y0_0_0 y0_0_1 dW_0_0 dW_0_1 = Gen.midpoint_s_general_22_y1_0_1 f0 f1 g00 g01 g10 g11 t0 t1 y0_0_0 y0_0_1 dW_0_0 dW_0_1 :=
  ⟨rfl, rfl⟩

theorem midpoint_s_general_22__fgprod_float (f0 : Float → Float → Float → Float) (f1 : Float → Float → Float → Float) (g00 : Float → Float → Float → Float) (g01 : Float → Float → Float → Float) (g10 : Float → Float → Float → Float) (g11 : Float → Float → Float → Float) (t0 t1 y0_0_0 y0_0_1 dW_0_0 dW_0_1 : Float) :
    GenF.midpoint_s_general_22__fgprod_y1_0_0 f0 f1 g00 g01 g10 g11 t0 t1 y0_0_0 y0_0_1 dW_0_0 dW_0_1 = GenF.midpoint_s_general_22_y1_0_0 f0 f1 g00 g01 g10 g11 t0 t1 y0_0_0 y0_0_1 dW_0_0 dW_0_1 ∧
    GenF.midpoint_s_general_22__fgprod_y1_0_1 f0 f1 g00 g01 g10 g11 t0 t1 y0_0_0 y0_0_1 dW_0_0 dW_0_1 = GenF.midpoint_s_general_22_y1_0_1 f0 f1 g00 g01 g10 g11 t0 t1 y0_0_0 y0_0_1 dW_0_0 dW_0_1 :=
  ⟨rfl, rfl⟩

theorem midpoint_s_general_22__fgprod_field {K : Type} [Field K] [LinearOrder K] (f0 : K → K → K → K) (f1 : K → K → K → K) (g00 : K → K → K → K) (g01 : K → K → K → K) (g10 : K → K → K → K) (g11 : K → K → K → K) (t0 t1 y0_0_0 y0_0_1 dW_0_0 dW_0_1 : K) :
    Gen.midpoint_s_general_22__fgprod_y1_0_0 f0 f1 g00 g01 g10 g11 t0 t1 y0_0_0 y0_0_1 dW_0_0 dW_0_1 = Gen.midpoint_s_general_22_y1_0_0 f0 f1 g00 g01 g10 g11 t0 t1 y0_0_0 y0_0_1 dW_0_0 dW_0_1 ∧
    Gen.midpoint_s_general_22__fgprod_y1_0_1 f0 f1 g00 g01 g10 g11 t0 t1 y0_0_0 y0_0_1 dW_0_0 dW_0_1 = Gen.midpoint_s_general_22_y1_0_1 f0 f1 g00 g01 g10 g11 t0 t1 y0_0_0 y0_0_1 dW_0_0 dW_0_1 :=
  ⟨rfl, rfl⟩

theorem midpoint_s_general_22__fandg_gprod_float (f0 : Float → Float → Float → Float) (f1 : Float → Float → Float → Float) (g00 : Float → Float → Float → Float) (g01 : Float → Float → Float → Float) (g10 : Float → Float → Float → Float) (g11 : Float → Float → Float → Float) (t0 t1 y0_0_0 y0_0_1 dW_0_0 dW_0_1 : Float) :
    GenF.midpoint_s_general_22__fandg_gprod_y1_0_0 f0 f1 g00 g01 g10 g11 t0 t1 y0_0_0 y0_0_1 dW_0_0 dW_0_1 = GenF.midpoint_s_general_22_y1_0_0 f0 f1 g00 g01 g10 g11 t0 t1 y0_0_0 y0_0_1 dW_0_0 dW_0_1 ∧
    GenF.midpoint_s_general_22__fandg_gprod_y1_0_1 f0 f1 g00 g01 g10 g11 t0 t1 y0_0_0 y0_0_1 dW_0_0 dW_0_1 = GenF.midpoint_s_general_22_y1_0_1 f0 f1 g00 g01 g10 g11 t0 t1 y0_0_0 y0_0_1 dW_0_0 dW_0_1 :=
  ⟨rfl, rfl⟩

theorem midpoint_s_general_22__fandg_gprod_field {K : Type} [Field K] [LinearOrder K] (f0 : K → K → K → K) (f1 : K → K → K → K) (g00 : K → K → K → K) (g01 : K → K → K → K) (g10 : K → K → K → K) (g11 : K → K → K → K) (t0 t1 y0_0_0 y0_0_1 dW_0_0 dW_0_1 : K) :
    Gen.midpoint_s_general_22__fandg_gprod_y1_0_0 f0 f1 g00 g01 g10 g11 t0 t1 y0_0_0 y0_0_1 dW_0_0 dW_0_1 = Gen.midpoint_s_general_22_y1_0_0 f0 f1 g00 g01 g10 g11 t0 t1 y0_0_0 y0_0_1 dW_0_0 dW_0_1 ∧
    Gen.midpoint_s_general_22__fandg_gprod_y1_0_1 f0 f1 g00 g01 g10 g11 t0 t1 y0_0_0 y0_0_1 dW_0_0 dW_0_1 = Gen.midpoint_s_general_22_y1_0_1 f0 f1 g00 g01 g10 g11 t0 t1 y0_0_0 y0_0_1 dW_0_0 dW_0_1 :=
  ⟨rfl, rfl⟩

theorem midpoint_s_general_22__fandg_fgprod_float (f0 : Float → Float → Float → Float) (f1 : Float → Float → Float → Float) (g00 : Float → Float → Float → Float) (g01 : Float → Float → Float → Float) (g10 : Float → Float → Float → Float) (g11 : Float → Float → Float → Float) (t0 t1 y0_0_0 y0_0_1 dW_0_0 dW_0_1 : Float) :
    GenF.midpoint_s_general_22__fandg_fgprod_y1_0_0 f0 f1 g00 g01 g10 g11 t0 t1 y0_0_0 y0_0_1 dW_0_0 dW_0_1 = GenF.midpoint_s_general_22_y1_0_0 f0 f1 g00 g01 g10 g11 t0 t1 y0_0_0 y0_0_1 dW_0_0 dW_0_1 ∧
    GenF.midpoint_s_general_22__fandg_fgprod_y1_0_1 f0 f1 g00 g01 g10 g11 t0 t1 y0_0_0 y0_0_1 dW_0_0 dW_0_1 = GenF.midpoint_s_general_22_y1_0_1 f0 f1 g00 g01 g10 g11 t0 t1 y0_0_0 y0_0_1 dW_0_0 dW_0_1 :=
  ⟨rfl, rfl⟩

theorem midpoint_s_general_22__fandg_fgprod_field {K : Type} [Field K] [LinearOrder K] (f0 : K → K → K → K) (f1 : K → K → K → K) (g00 : K → K → K → K) (g01 : K → K → K → K) (g10 : K → K → K → K) (g11 : K → K → K → K) (t0 t1 y0_0_0 y0_0_1 dW_0_0 dW_0_1 : K) :
    Gen.midpoint_s_general_22__fandg_fgprod_y1_0_0 f0 f1 g00 g01 g10 g11 t0 t1 y0_0_0 y0_0_1 dW_0_0 dW_0_1 = Gen.midpoint_s_general_22_y1_0_0 f0 f1 g00 g01 g10 g11 t0 t1 y0_0_0 y0_0_1 dW_0_0 dW_0_1 ∧
    Gen.midpoint_s_general_22__fandg_fgprod_y1_0_1 f0 f1 g00 g01 g10 g11 t0 t1 y0_0_0 y0_0_1 dW_0_0 dW_0_1 = Gen.midpoint_s_general_22_y1_0_1 f0 f1 g00 g01 g10 g11 t0 t1 y0_0_0 y0_0_1 dW_0_0 dW_0_1 :=
  ⟨rfl, rfl⟩

theorem midpoint_s_general_22__renamed_float (f0 : Float → Float → Float → Float) (f1 : Float → Float → Float → Float) (g00 : Float → Float → Float → Float) (g01 : Float → Float → Float → Float) (g10 : Float → Float → Float → Float) (g11 : Float → Float → Float → Float) (t0 t1 y0_0_0 y0_0_1 dW_0_0 dW_0_1 : Float) :
    GenF.midpoint_s_general_22__renamed_y1_0_0 f0 f1 g00 g01 g10 g11 t0 t1 y0_0_0 y0_0_1 dW_0_0 dW_0_1 = GenF.midpoint_s_general_22_y1_0_0 f0 f1 g00 g01 g10 g11 t0 t1 y0_0_0 y0_0_1 dW_0_0 dW_0_1 ∧
    GenF.midpoint_s_general_22__renamed_y1_0_1 f0 f1 g00 g01 g10 g11 t0 t1 y0_0_0 y0_0_1 dW_0_0 dW_0_1 = GenF.midpoint_s_general_22_y1_0_1 f0 f1 g00 g01 g10 g11 t0 t1 y0_0_0 y0_0_1 dW_0_0 dW_0_1 :=
  ⟨rfl, rfl⟩

theorem midpoint_s_general_22__renamed_field {K : Type} [Field K] [LinearOrder K] (f0 : K → K → K → K) (f1 : K → K → K → K) (g00 : K → K → K → K) (g01 : K → K → K → K) (g10 : K → K → K → K) (g11 : K → K → K → K) (t0 t1 y0_0_0 y0_0_1 dW_0_0 dW_0_1 : K) :
    Gen.midpoint_s_general_22__renamed_y1_0_0 f0 f1 g00 g01 g10 g11 t0 t1 y0_0_0 y0_0_1 dW_0_0 dW_0_1 = Gen.midpoint_s_general_22_y1_0_0 f0 f1 g00 g01 g10 g11 t0 t1 y0_0_0 y0_0_1 dW_0_0 dW_0_1 ∧
    Gen.midpoint_s_general_22__renamed_y1_0_1 f0 f1 g00 g01 g10 g11 t0 t1 y0_0_0 y0_0_1 dW_0_0 dW_0_1 = Gen.midpoint_s_general_22_y1_0_1 f0 f1 g00 g01 g10 g11 t0 t1 y0_0_0 y0_0_1 dW_0_0 dW_0_1 :=
  ⟨rfl, rfl⟩

theorem midpoint_s_general_22__renamed_all_float (f0 : Float → Float → Float → Float) (f1 : Float → Float → Float → Float) (g00 : Float → Float → Float → Float) (g01 : Float → Float → Float → Float) (g10 : Float → Float → Float → Float) (g11 : Float → Float → Float → Float) (t0 t1 y0_0_0 y0_0_1 dW_0_0 dW_0_1 : Float) :
    GenF.midpoint_s_general_22__renamed_all_y1_0_0 f0 f1 g00 g01 g10 g11 t0 t1 y0_0_0 y0_0_1 dW_0_0 dW_0_1 = GenF.midpoint_s_general_22_y1_0_0 f0 f1 g00 g01 g10 g11 t0 t1 y0_0_0 y0_0_1 dW_0_0 dW_0_1 ∧
    GenF.midpoint_s_general_22__renamed_all_y1_0_1 f0 f1 g00 g01 g10 g11 t0 t1 y0_0_0 y0_0_1 dW_0_0 dW_0_1 = GenF.midpoint_s_general_22_y1_0_1 f0 f1 g00 g01 g10 g11 t0 t1 y0_0_0 y0_0_1 dW_0_0 dW_0_1 :=
  ⟨rfl, rfl⟩

theorem midpoint_s_general_22__renamed_all_field {K : Type} [Field K] [LinearOrder K] (f0 : K → K → K → K) (f1 : K → K → K → K) (g00 : K → K → K → K) (g01 : K → K → K → K) (g10 : K → K → K → K) (g11 : K → K → K → K) (t0 t1 y0_0_0 y0_0_1 dW_0_0 dW_0_1 : K) :
    Gen.midpoint_s_general_22__renamed_all_y1_0_0 f0 f1 g00 g01 g10 g11 t0 t1 y0_0_0 y0_0_1 dW_0_0 dW_0_1 = Gen.midpoint_s_general_22_y1_0_0 f0 f1 g00 g01 g10 g11 t0 t1 y0_0_0 y0_0_1 dW_0_0 dW_0_1 ∧
    Gen.midpoint_s_general_22__renamed_all_y1_0_1 f0 f1 g00 g01 g10 g11 t0 t1 y0_0_0 y0_0_1 dW_0_0 dW_0_1 = Gen.midpoint_s_general_22_y1_0_1 f0 f1 g00 g01 g10 g11 t0 t1 y0_0_0 y0_0_1 dW_0_0 dW_0_1 :=
  ⟨rfl, rfl⟩

theorem log_ode_s_general_22__f_g_gprod_float (f0 : Float → Float → Float → Float) (f1 : Float → Float → Float → Float) (g00 : Float → Float → Float → Float) (g00_d1 : Float → Float → Float → Float) (g00_d2 : Float → Float → Float → Float) (g01 : Float → Float → Float → Float) (g01_d1 : Float → Float → Float → Float) (g01_d2 : Float → Float → Float → Float) (g10 : Float → Float → Float → Float) (g10_d1 : Float → Float → Float → Float) (g10_d2 : Float → Float → Float → Float) (g11 : Float → Float → Float → Float) (g11_d1 : Float → Float → Float → Float) (g11_d2 : Float → Float → Float → Float) (t0 t1 y0_0_0 y0_0_1 dW_0_0 dW_0_1 U_0_0 U_0_1 A_0_0_0 A_0_0_1 A_0_1_0 A_0_1_1 : Float) :
    GenF.log_ode_s_general_22__f_g_gprod_y1_0_0 f0 f1 g00 g00_d1 g00_d2 g01 g01_d1 g01_d2 g10 g10_d1 g10_d2 g11 g11_d1 g11_d2 t0 t1 y0_0_0 y0_0_1 dW_0_0 dW_0_1 U_0_0 U_0_1 A_0_0_0 A_0_0_1 A_0_1_0 A_0_1_1 = GenF.log_ode_s_general_22_y1_0_0 f0 f1 g00 g00_d1 g00_d2 g01 g01_d1 g01_d2 g10 g10_d1 g10_d2 g11 g11_d1 g11_d2 t0 t1 y0_0_0 y0_0_1 dW_0_0 dW_0_1 U_0_0 U_0_1 A_0_0_0 A_0_0_1 A_0_1_0 A_0_1_1 ∧
    GenF.log_ode_s_general_22__f_g_gprod_y1_0_1 f0 f1 g00 g00_d1 g00_d2 g01 g01_d1 g01_d2 g10 g10_d1 g10_d2 g11 g11_d1 g11_d2 t0 t1 y0_0_0 y0_0_1 dW_0_0 dW_0_1 U_0_0 U_0_1 A_0_0_0 A_0_0_1 A_0_1_0 A_0_1_1 = GenF.log_ode_s_general_22_y1_0_1 f0 f1 g00 g00_d1 g00_d2 g01 g01_d1 g01_d2 g10 g10_d1 g10_d2 g11 g11_d1 g11_d2 t0 t1 y0_0_0 y0_0_1 dW_0_0 dW_0_1 U_0_0 U_0_1 A_0_0_0 A_0_0_1 A_0_1_0 A_0_1_1 :=
  ⟨rfl, rfl⟩

theorem log_ode_s_general_22__f_g_gprod_field {K : Type} [Field K] [LinearOrder K] (f0 : K → K → K → K) (f1 : K → K → K → K) (g00 : K → K → K → K) (g00_d1 : K → K → K → K) (g00_d2 : K → K → K → K) (g01 : K → K → K → K) (g01_d1 : K → K → K → K) (g01_d2 : K → K → K → K) (g10 : K → K → K → K) (g10_d1 : K → K → K → K) (g10_d2 : K → K → K → K) (g11 : K → K → K → K) (g11_d1 : K → K → K → K) (g11_d2 : K → K → K → K) (t0 t1 y0_0_0 y0_0_1 dW_0_0 dW_0_1 U_0_0 U_0_1 A_0_0_0 A_0_0_1 A_0_1_0 A_0_1_1 : K) :
    Gen.log_ode_s_general_22__f_g_gprod_y1_0_0 f0 f1 g00 g00_d1 g00_d2 g01 g01_d1 g01_d2 g10 g10_d1 g10_d2 g11 g11_d1 g11_d2 t0 t1 y0_0_0 y0_0_1 dW_0_0 dW_0_1 U_0_0 U_0_1 A_0_0_0 A_0_0_1 A_0_1_0 A_0_1_1 = Gen.log_ode_s_general_22_y1_0_0 f0 f1 g00 g00_d1 g00_d2 g01 g01_d1 g01_d2 g10 g10_d1 g10_d2 g11 g11_d1 g11_d2 t0 t1 y0_0_0 y0_0_1 dW_0_0 dW_0_1 U_0_0 U_0_1 A_0_0_0 A_0_0_1 A_0_1_0 A_0_1_1 ∧
    Gen.log_ode_s_general_22__f_g_gprod_y1_0_1 f0 f1 g00 g00_d1 g00_d2 g01 g01_d1 g01_d2 g10 g10_d1 g10_d2 g11 g11_d1 g11_d2 t0 t1 y0_0_0 y0_0_1 dW_0_0 dW_0_1 U_0_0 U_0_1 A_0_0_0 A_0_0_1 A_0_1_0 A_0_1_1 = Gen.log_ode_s_general_22_y1_0_1 f0 f1 g00 g00_d1 g00_d2 g01 g01_d1 g01_d2 g10 g10_d1 g10_d2 g11 g11_d1 g11_d2 t0 t1 y0_0_0 y0_0_1 dW_0_0 dW_0_1 U_0_0 U_0_1 A_0_0_0 A_0_0_1 A_0_1_0 A_0_1_1 :=
  ⟨rfl, rfl⟩

theorem log_ode_s_general_22__renamed_float (f0 : Float → Float → Float → Float) (f1 : Float → Float → Float → Float) (g00 : Float → Float → Float → Float) (g00_d1 : Float → Float → Float → Float) (g00_d2 : Float → Float → Float → Float) (g01 : Float → Float → Float → Float) (g01_d1 : Float → Float → Float → Float) (g01_d2 : Float → Float → Float → Float) (g10 : Float → Float → Float → Float) (g10_d1 : Float → Float → Float → Float) (g10_d2 : Float → Float → Float → Float) (g11 : Float → Float → Float → Float) (g11_d1 : Float → Float → Float → Float) (g11_d2 : Float → Float → Float → Float) (t0 t1 y0_0_0 y0_0_1 dW_0_0 dW_0_1 U_0_0 U_0_1 A_0_0_0 A_0_0_1 A_0_1_0 A_0_1_1 : Float) :
    GenF.log_ode_s_general_22__renamed_y1_0_0 f0 f1 g00 g00_d1 g00_d2 g01 g01_d1 g01_d2 g10 g10_d1 g10_d2 g11 g11_d1 g11_d2 t0 t1 y0_0_0 y0_0_1 dW_0_0 dW_0_1 U_0_0 U_0_1 A_0_0_0 A_0_0_1 A_0_1_0 A_0_1_1 = GenF.log_ode_s_general_22_y1_0_0 f0 f1 g00 g00_d1 g00_d2 g01 g01_d1 g01_d2 g10 g10_d1 g10_d2 g11 g11_d1 g11_d2 t0 t1 y0_0_0 y0_0_1 dW_0_0 dW_0_1 U_0_0 U_0_1 A_0_0_0 A_0_0_1 A_0_1_0 A_0_1_1 ∧
    GenF.log_ode_s_general_22__renamed_y1_0_1 f0 f1 g00 g00_d1 g00_d2 g01 g01_d1 g01_d2 g10 g10_d1 g10_d2 g11 g11_d1 g11_d2 t0 t1 y0_0_0 y0_0_1 dW_0_0 dW_0_1 U_0_0 U_0_1 A_0_0_0 A_0_0_1 A_0_1_0 A_0_1_1 = GenF.log_ode_s_general_22_y1_0_1 f0 f1 g00 g00_d1 g00_d2 g01 g01_d1 g01_d2 g10 g10_d1 g10_d2 g11 g11_d1 g11_d2 t0 t1 y0_0_0 y0_0_1 dW_0_0 dW_0_1 U_0_0 U_0_1 A_0_0_0 A_0_0_1 A_0_1_0 A_0_1_1 :=
  ⟨rfl, rfl⟩

theorem log_ode_s_general_22__renamed_field {K : Type} [Field K] [LinearOrder K] (f0 : K → K → K → K) (f1 : K → K → K → K) (g00 : K → K → K → K) (g00_d1 : K → K → K → K) (g00_d2 : K → K → K → K) (g01 : K → K → K → K) (g01_d1 : K → K → K → K) (g01_d2 : K → K → K → K) (g10 : K → K → K → K) (g10_d1 : K → K → K → K) (g10_d2 : K → K → K → K) (g11 : K → K → K → K) (g11_d1 : K → K → K → K) (g11_d2 : K → K → K → K) (t0 t1 y0_0_0 y0_0_1 dW_0_0 dW_0_1 U_0_0 U_0_1 A_0_0_0 A_0_0_1 A_0_1_0 A_0_1_1 : K) :
    Gen.log_ode_s_general_22__renamed_y1_0_0 f0 f1 g00 g00_d1 g00_d2 g01 g01_d1 g01_d2 g10 g10_d1 g10_d2 g11 g11_d1 g11_d2 t0 t1 y0_0_0 y0_0_1 dW_0_0 dW_0_1 U_0_0 U_0_1 A_0_0_0 A_0_0_1 A_0_1_0 A_0_1_1 = Gen.log_ode_s_general_22_y1_0_0 f0 f1 g00 g00_d1 g00_d2 g01 g01_d1 g01_d2 g10 g10_d1 g10_d2 g11 g11_d1 g11_d2 t0 t1 y0_0_0 y0_0_1 dW_0_0 dW_0_1 U_0_0 U_0_1 A_0_0_0 A_0_0_1 A_0_1_0 A_0_1_1 ∧
    Gen.log_ode_s_general_22__renamed_y1_0_1 f0 f1 g00 g00_d1 g00_d2 g01 g01_d1 g01_d2 g10 g10_d1 g10_d2 g11 g11_d1 g11_d2 t0 t1 y0_0_0 y0_0_1 dW_0_0 dW_0_1 U_0_0 U_0_1 A_0_0_0 A_0_0_1 A_0_1_0 A_0_1_1 = Gen.log_ode_s_general_22_y1_0_1 f0 f1 g00 g00_d1 g00_d2 g01 g01_d1 g01_d2 g10 g10_d1 g10_d2 g11 g11_d1 g11_d2 t0 t1 y0_0_0 y0_0_1 dW_0_0 dW_0_1 U_0_0 U_0_1 A_0_0_0 A_0_0_1 A_0_1_0 A_0_1_1 :=
  ⟨rfl, rfl⟩

theorem log_ode_s_general_22__renamed_all_float (f0 : Float → Float → Float → Float) (f1 : Float → Float → Float → Float) (g00 : Float → Float → Float → Float) (g00_d1 : Float → Float → Float → Float) (g00_d2 : Float → Float → Float → Float) (g01 : Float → Float → Float → Float) (g01_d1 : Float → Float → Float → Float) (g01_d2 : Float → Float → Float → Float) (g10 : Float → Float → Float → Float) (g10_d1 : Float → Float → Float → Float) (g10_d2 : Float → Float → Float → Float) (g11 : Float → Float → Float → Float) (g11_d1 : Float → Float → Float → Float) (g11_d2 : Float → Float → Float → Float) (t0 t1 y0_0_0 y0_0_1 dW_0_0 dW_0_1 U_0_0 U_0_1 A_0_0_0 A_0_0_1 A_0_1_0 A_0_1_1 : Float) :
    GenF.log_ode_s_general_22__renamed_all_y1_0_0 f0 f1 g00 g00_d1 g00_d2 g01 g01_d1 g01_d2 g10 g10_d1 g10_d2 g11 g11_d1 g11_d2 t0 t1 y0_0_0 y0_0_1 dW_0_0 dW_0_1 U_0_0 U_0_1 A_0_0_0 A_0_0_1 A_0_1_0 A_0_1_1 = GenF.log_ode_s_general_22_y1_0_0 f0 f1 g00 g00_d1 g00_d2 g01 g01_d1 g01_d2 g10 g10_d1 g10_d2 g11 g11_d1 g11_d2 t0 t1 y0_0_0 y0_0_1 dW_0_0 dW_0_1 U_0_0 U_0_1 A_0_0_0 A_0_0_1 A_0_1_0 A_0_1_1 ∧
    GenF.log_ode_s_general_22__renamed_all_y1_0_1 f0 f1 g00 g00_d1 g00_d2 g01 g01_d1 g01_d2 g10 g10_d1 g10_d2 g11 g11_d1 g11_d2 t0 t1 y0_0_0 y0_0_1 dW_0_0 dW_0_1 U_0_0 U_0_1 A_0_0_0 A_0_0_1 A_0_1_0 A_0_1_1 = GenF.log_ode_s_general_22_y1_0_1 f0 f1 g00 g00_d1 g00_d2 g01 g01_d1 g01_d2 g10 g10_d1 g10_d2 g11 g11_d1 g11_d2 t0 t1 y0_0_0 y0_0_1 dW_0_0 dW_0_1 U_0_0 U_0_1 A_0_0_0 A_0_0_1 A_0_1_0 A_0_1_1 :=
  ⟨rfl, rfl⟩

theorem log_ode_s_general_22__renamed_all_field {K : Type} [Field K] [LinearOrder K] (f0 : K → K → K → K) (f1 : K → K → K → K) (g00 : K → K → K → K) (g00_d1 : K → K → K → K) (g00_d2 : K → K → K → K) (g01 : K → K → K → K) (g01_d1 : K → K → K → K) (g01_d2 : K → K → K → K) (g10 : K → K → K → K) (g10_d1 : K → K → K → K) (g10_d2 : K → K → K → K) (g11 : K → K → K → K) (g11_d1 : K → K → K → K) (g11_d2 : K → K → K → K) (t0 t1 y0_0_0 y0_0_1 dW_0_0 dW_0_1 U_0_0 U_0_1 A_0_0_0 A_0_0_1 A_0_1_0 A_0_1_1 : K) :
    Gen.log_ode_s_general_22__renamed_all_y1_0_0 f0 f1 g00 g00_d1 g00_d2 g01 g01_d1 g01_d2 g10 g10_d1 g10_d2 g11 g11_d1 g11_d2 t0 t1 y0_0_0 y0_0_1 dW_0_0 dW_0_1 U_0_0 U_0_1 A_0_0_0 A_0_0_1 A_0_1_0 A_0_1_1 = Gen.log_ode_s_general_22_y1_0_0 f0 f1 g00 g00_d1 g00_d2 g01 g01_d1 g01_d2 g10 g10_d1 g10_d2 g11 g11_d1 g11_d2 t0 t1 y0_0_0 y0_0_1 dW_0_0 dW_0_1 U_0_0 U_0_1 A_0_0_0 A_0_0_1 A_0_1_0 A_0_1_1 ∧
    Gen.log_ode_s_general_22__renamed_all_y1_0_1 f0 f1 g00 g00_d1 g00_d2 g01 g01_d1 g01_d2 g10 g10_d1 g10_d2 g11 g11_d1 g11_d2 t0 t1 y0_0_0 y0_0_1 dW_0_0 dW_0_1 U_0_0 U_0_1 A_0_0_0 A_0_0_1 A_0_1_0 A_0_1_1 = Gen.log_ode_s_general_22_y1_0_1 f0 f1 g00 g00_d1 g00_d2 g01 g01_d1 g01_d2 g10 g10_d1 g10_d2 g11 g11_d1 g11_d2 t0 t1 y0_0_0 y0_0_1 dW_0_0 dW_0_1 U_0_0 U_0_1 A_0_0_0 A_0_0_1 A_0_1_0 A_0_1_1 :=
  ⟨rfl, rfl⟩

theorem reversible_heun_s_general_22__fandg_float (f0 : Float → Float → Float → Float) (f1 : Float → Float → Float → Float) (g00 : Float → Float → Float → Float) (g01 : Float → Float → Float → Float) (g10 : Float → Float → Float → Float) (g11 : Float → Float → Float → Float) (t0 t1 y0_0_0 y0_0_1 dW_0_0 dW_0_1 z0_0_0 z0_0_1 f0_0_0 f0_0_1 g0_0_0_0 g0_0_0_1 g0_0_1_0 g0_0_1_1 : Float) :
    GenF.reversible_heun_s_general_22__fandg_y1_0_0 f0 f1 g00 g01 g10 g11 t0 t1 y0_0_0 y0_0_1 dW_0_0 dW_0_1 z0_0_0 z0_0_1 f0_0_0 f0_0_1 g0_0_0_0 g0_0_0_1 g0_0_1_0 g0_0_1_1 = GenF.reversible_heun_s_general_22_y1_0_0 f0 f1 g00 g01 g10 g11 t0 t1 y0_0_0 y0_0_1 dW_0_0 dW_0_1 z0_0_0 z0_0_1 f0_0_0 f0_0_1 g0_0_0_0 g0_0_0_1 g0_0_1_0 g0_0_1_1 ∧
    GenF.reversible_heun_s_general_22__fandg_y1_0_1 f0 f1 g00 g01 g10 g11 t0 t1 y0_0_0 y0_0_1 dW_0_0 dW_0_1 z0_0_0 z0_0_1 f0_0_0 f0_0_1 g0_0_0_0 g0_0_0_1 g0_0_1_0 g0_0_1_1 = GenF.reversible_heun_s_general_22_y1_0_1 f0 f1 g00 g01 g10 g11 t0 t1 y0_0_0 y0_0_1 dW_0_0 dW_0_1 z0_0_0 z0_0_1 f0_0_0 f0_0_1 g0_0_0_0 g0_0_0_1 g0_0_1_0 g0_0_1_1 ∧
    GenF.reversible_heun_s_general_22__fandg_f1_0_0 f0 f1 g00 g01 g10 g11 t0 t1 y0_0_0 y0_0_1 dW_0_0 dW_0_1 z0_0_0 z0_0_1 f0_0_0 f0_0_1 g0_0_0_0 g0_0_0_1 g0_0_1_0 g0_0_1_1 = GenF.reversible_heun_s_general_22_f1_0_0 f0 f1 g00 g01 g10 g11 t0 t1 y0_0_0 y0_0_1 dW_0_0 dW_0_1 z0_0_0 z0_0_1 f0_0_0 f0_0_1 g0_0_0_0 g0_0_0_1 g0_0_1_0 g0_0_1_1 ∧
    GenF.reversible_heun_s_general_22__fandg_f1_0_1 f0 f1 g00 g01 g10 g11 t0 t1 y0_0_0 y0_0_1 dW_0_0 dW_0_1 z0_0_0 z0_0_1 f0_0_0 f0_0_1 g0_0_0_0 g0_0_0_1 g0_0_1_0 g0_0_1_1 = GenF.reversible_heun_s_general_22_f1_0_1 f0 f1 g00 g01 g10 g11 t0 t1 y0_0_0 y0_0_1 dW_0_0 dW_0_1 z0_0_0 z0_0_1 f0_0_0 f0_0_1 g0_0_0_0 g0_0_0_1 g0_0_1_0 g0_0_1_1 ∧
    GenF.reversible_heun_s_general_22__fandg_g1_0_0_0 f0 f1 g00 g01 g10 g11 t0 t1 y0_0_0 y0_0_1 dW_0_0 dW_0_1 z0_0_0 z0_0_1 f0_0_0 f0_0_1 g0_0_0_0 g0_0_0_1 g0_0_1_0 g0_0_1_1 = GenF.reversible_heun_s_general_22_g1_0_0_0 f0 f1 g00 g01 g10 g11 t0 t1 y0_0_0 y0_0_1 dW_0_0 dW_0_1 z0_0_0 z0_0_1 f0_0_0 f0_0_1 g0_0_0_0 g0_0_0_1 g0_0_1_0 g0_0_1_1 ∧
    GenF.reversible_heun_s_general_22__fandg_g1_0_0_1 f0 f1 g00 g01 g10 g11 t0 t1 y0_0_0 y0_0_1 dW_0_0 dW_0_1 z0_0_0 z0_0_1 f0_0_0 f0_0_1 g0_0_0_0 g0_0_0_1 g0_0_1_0 g0_0_1_1 = GenF.reversible_heun_s_general_22_g1_0_0_1 f0 f1 g00 g01 g10 g11 t0 t1 y0_0_0 y0_0_1 dW_0_0 dW_0_1 z0_0_0 z0_0_1 f0_0_0 f0_0_1 g0_0_0_0 g0_0_0_1 g0_0_1_0 g0_0_1_1 ∧
    GenF.reversible_heun_s_general_22__fandg_g1_0_1_0 f0 f1 g00 g01 g10 g11 t0 t1 y0_0_0 y0_0_1 dW_0_0 dW_0_1 z0_0_0 z0_0_1 f0_0_0 f0_0_1 g0_0_0_0 g0_0_0_1 g0_0_1_0 g0_0_1_1 = GenF.reversible_heun_s_general_22_g1_0_1_0 f0 f1 g00 g01 g10 g11 t0 t1 y0_0_0 y0_0_1 dW_0_0 dW_0_1 z0_0_0 z0_0_1 f0_0_0 f0_0_1 g0_0_0_0 g0_0_0_1 g0_0_1_0 g0_0_1_1 ∧
    GenF.reversible_heun_s_general_22__fandg_g1_0_1_1 f0 f1 g00 g01 g10 g11 t0 t1 y0_0_0 y0_0_1 dW_0_0 dW_0_1 z0_0_0 z0_0_1 f0_0_0 f0_0_1 g0_0_0_0 g0_0_0_1 g0_0_1_0 g0_0_1_1 = GenF.reversible_heun_s_general_22_g1_0_1_1 f0 f1 g00 g01 g10 g11 t0 t1 y0_0_0 y0_0_1 dW_0_0 dW_0_1 z0_0_0 z0_0_1 f0_0_0 f0_0_1 g0_0_0_0 g0_0_0_1 g0_0_1_0 g0_0_1_1 ∧
    GenF.reversible_heun_s_general_22__fandg_z1_0_0 f0 f1 g00 g01 g10 g11 t0 t1 y0_0_0 y0_0_1 dW_0_0 dW_0_1 z0_0_0 z0_0_1 f0_0_0 f0_0_1 g0_0_0_0 g0_0_0_1 g0_0_1_0 g0_0_1_1 = GenF.reversible_heun_s_general_22_z1_0_0 f0 f1 g00 g01 g10 g11 t0 t1 y0_0_0 y0_0_1 dW_0_0 dW_0_1 z0_0_0 z0_0_1 f0_0_0 f0_0_1 g0_0_0_0 g0_0_0_1 g0_0_1_0 g0_0_1_1 ∧
    GenF.reversible_heun_s_general_22__fandg_z1_0_1 f0 f1 g00 g01 g10 g11 t0 t1 y0_0_0 y0_0_1 dW_0_0 dW_0_1 z0_0_0 z0_0_1 f0_0_0 f0_0_1 g0_0_0_0 g0_0_0_1 g0_0_1_0 g0_0_1_1 = GenF.reversible_heun_s_general_22_z1_0_1 f0 f1 g00 g01 g10 g11 t0 t1 y0_0_0 y0_0_1 dW_0_0 dW_0_1 z0_0_0 z0_0_1 f0_0_0 f0_0_1 g0_0_0_0 g0_0_0_1 g0_0_1_0 g0_0_1_1 :=
  ⟨rfl, rfl, rfl, rfl, rfl, rfl, rfl, rfl, rfl, rfl⟩

theorem reversible_heun_s_general_22__fandg_field {K : Type} [Field K] [LinearOrder K] (f0 : K → K → K → K) (f1 : K → K → K → K) (g00 : K → K → K → K) (g01 : K → K → K → K) (g10 : K → K → K → K) (g11 : K → K → K → K) (t0 t1 y0_0_0 y0_0_1 dW_0_0 dW_0_1 z0_0_0 z0_0_1 f0_0_0 f0_0_1 g0_0_0_0 g0_0_0_1 g0_0_1_0 g0_0_1_1 : K) :
    Gen.reversible_heun_s_general_22__fandg_y1_0_0 f0 f1 g00 g01 g10 g11 t0 t1 y0_0_0 y0_0_1 dW_0_0 dW_0_1 z0_0_0 z0_0_1 f0_0_0 f0_0_1 g0_0_0_0 g0_0_0_1 g0_0_1_0 g0_0_1_1 = Gen.reversible_heun_s_general_22_y1_0_0 f0 f1 g00 g01 g10 g11 t0 t1 y0_0_0 y0_0_1 dW_0_0 dW_0_1 z0_0_0 z0_0_1 f0_0_0 f0_0_1 g0_0_0_0 g0_0_0_1 g0_0_1_0 g0_0_1_1 ∧
    Gen.reversible_heun_s_general_22__fandg_y1_0_1 f0 f1 g00 g01 g10 g11 t0 t1 y0_0_0 y0_0_1 dW_0_0 dW_0_1 z0_0_0 z0_0_1 f0_0_0 f0_0_1 g0_0_0_0 g0_0_0_1 g0_0_1_0 g0_0_1_1 = Gen.reversible_heun_s_general_22_y1_0_1 f0 f1 g00 g01 g10 g11 t0 t1 y0_0_0 y0_0_1 dW_0_0 dW_0_1 z0_0_0 z0_0_1 f0_0_0 f0_0_1 g0_0_0_0 g0_0_0_1 g0_0_1_0 g0_0_1_1 ∧
    Gen.reversible_heun_s_general_22__fandg_f1_0_0 f0 f1 g00 g01 g10 g11 t0 t1 y0_0_0 y0_0_1 dW_0_0 dW_0_1 z0_0_0 z0_0_1 f0_0_0 f0_0_1 g0_0_0_0 g0_0_0_1 g0_0_1_0 g0_0_1_1 = Gen.reversible_heun_s_general_22_f1_0_0 f0 f1 g00 g01 g10 g11 t0 t1 y0_0_0 y0_0_1 dW_0_0 dW_0_1 z0_0_0 z0_0_1 f0_0_0 f0_0_1 g0_0_0_0 g0_0_0_1 g0_0_1_0 g0_0_1_1 ∧
    Gen.reversible_heun_s_general_22__fandg_f1_0_1 f0 f1 g00 g01 g10 g11 t0 t1 y0_0_0 y0_0_1 dW_0_0 dW_0_1 z0_0_0 z0_0_1 f0_0_0 f0_0_1 g0_0_0_0 g0_0_0_1 g0_0_1_0 g0_0_1_1 = Gen.reversible_heun_s_general_22_f1_0_1 f0 f1 g00 g01 g10 g11 t0 t1 y0_0_0 y0_0_1 dW_0_0 dW_0_1 z0_0_0 z0_0_1 f0_0_0 f0_0_1 g0_0_0_0 g0_0_0_1 g0_0_1_0 g0_0_1_1 ∧
    Gen.reversible_heun_s_general_22__fandg_g1_0_0_0 f0 f1 g00 g01 g10 g11 t0 t1 y0_0_0 y0_0_1 dW_0_0 dW_0_1 z0_0_0 z0_0_1 f0_0_0 f0_0_1 g0_0_0_0 g0_0_0_1 g0_0_1_0 g0_0_1_1 = Gen.reversible_heun_s_general_22_g1_0_0_0 f0 f1 g00 g01 g10 g11 t0 t1 y0_0_0 y0_0_1 dW_0_0 dW_0_1 z0_0_0 z0_0_1 f0_0_0 f0_0_1 g0_0_0_0 g0_0_0_1 g0_0_1_0 g0_0_1_1 ∧
    Gen.reversible_heun_s_general_22__fandg_g1_0_0_1 f0 f1 g00 g01 g10 g11 t0 t1 y0_0_0 y0_0_1 dW_0_0 dW_0_1 z0_0_0 z0_0_1 f0_0_0 f0_0_1 g0_0_0_0 g0_0_0_1 g0_0_1_0 g0_0_1_1 = Gen.reversible_heun_s_general_22_g1_0_0_1 f0 f1 g00 g01 g10 g11 t0 t1 y0_0_0 y0_0_1 dW_0_0 dW_0_1 z0_0_0 z0_0_1 f0_0_0 f0_0_1 g0_0_0_0 g0_0_0_1 g0_0_1_0 g0_0_1_1 ∧
    Gen.reversible_heun_s_general_22__fandg_g1_0_1_0 f0 f1 g00 g01 g10 g11 t0 t1 y0_0_0 y0_0_1 dW_0_0 dW_0_1 z0_0_0 z0_0_1 f0_0_0 f0_0_1 g0_0_0_0 g0_0_0_1 g0_0_1_0 g0_0_1_1 = Gen.reversible_heun_s_general_22_g1_0_1_0 f0 f1 g00 g01 g10 g11 t0 t1 y0_0_0 y0_0_1 dW_0_0 dW_0_1 z0_0_0 z0_0_1 f0_0_0 f0_0_1 g0_0_0_0 g0_0_0_1 g0_0_1_0 g0_0_1_1 ∧
    Gen.reversible_heun_s_general_22__fandg_g1_0_1_1 f0 f1 g00 g01 g10 g11 t0 t1 y0_0_0 y0_0_1 dW_0_0 dW_0_1 z0_0_0 z0_0_1 f0_0_0 f0_0_1 g0_0_0_0 g0_0_0_1 g0_0_1_0 g0_0_1_1 = Gen.reversible_heun_s_general_22_g1_0_1_1 f0 f1 g00 g01 g10 g11 t0 t1 y0_0_0 y0_0_1 dW_0_0 dW_0_1 z0_0_0 z0_0_1 f0_0_0 f0_0_1 g0_0_0_0 g0_0_0_1 g0_0_1_0 g0_0_1_1 ∧
    Gen.reversible_heun_s_general_22__fandg_z1_0_0 f0 f1 g00 g01 g10 g11 t0 t1 y0_0_0 y0_0_1 dW_0_0 dW_0_1 z0_0_0 z0_0_1 f0_0_0 f0_0_1 g0_0_0_0 g0_0_0_1 g0_0_1_0 g0_0_1_1 = Gen.reversible_heun_s_general_22_z1_0_0 f0 f1 g00 g01 g10 g11 t0 t1 y0_0_0 y0_0_1 dW_0_0 dW_0_1 z0_0_0 z0_0_1 f0_0_0 f0_0_1 g0_0_0_0 g0_0_0_1 g0_0_1_0 g0_0_1_1 ∧
    Gen.reversible_heun_s_general_22__fandg_z1_0_1 f0 f1 g00 g01 g10 g11 t0 t1 y0_0_0 y0_0_1 dW_0_0 dW_0_1 z0_0_0 z0_0_1 f0_0_0 f0_0_1 g0_0_0_0 g0_0_0_1 g0_0_1_0 g0_0_1_1 = Gen.reversible_heun_s_general_22_z1_0_1 f0 f1 g00 g01 g10 g11 t0 t1 y0_0_0 y0_0_1 dW_0_0 dW_0_1 z0_0_0 z0_0_1 f0_0_0 f0_0_1 g0_0_0_0 g0_0_0_1 g0_0_1_0 g0_0_1_1 :=
  ⟨rfl, rfl, rfl, rfl, rfl, rfl, rfl, rfl, rfl, rfl⟩

theorem reversible_heun_s_general_22__f_g_gprod_float (f0 : Float → Float → Float → Float) (f1 : Float → Float → Float → Float) (g00 : Float → Float → Float → Float) (g01 : Float → Float → Float → Float) (g10 : Float → Float → Float → Float) (g11 : Float → Float → Float → Float) (t0 t1 y0_0_0 y0_0_1 dW_0_0 dW_0_1 z0_0_0 z0_0_1 f0_0_0 f0_0_1 g0_0_0_0 g0_0_0_1 g0_0_1_0 g0_0_1_1 : Float) :
    GenF.reversible_heun_s_general_22__f_g_gprod_y1_0_0 f0 f1 g00 g01 g10 g11 t0 t1 y0_0_0 y0_0_1 dW_0_0 dW_0_1 z0_0_0 z0_0_1 f0_0_0 f0_0_1 g0_0_0_0 g0_0_0_1 g0_0_1_0 g0_0_1_1 = GenF.reversible_heun_s_general_22_y1_0_0 f0 f1 g00 g01 g10 g11 t0 t1 y0_0_0 y0_0_1 dW_0_0 dW_0_1 z0_0_0 z0_0_1 f0_0_0 f0_0_1 g0_0_0_0 g0_0_0_1 g0_0_1_0 g0_0_1_1 ∧
    GenF.reversible_heun_s_general_22__f_g_gprod_y1_0_1 f0 f1 g00 g01 g10 g11 t0 t1 y0_0_0 y0_0_1 dW_0_0 dW_0_1 z0_0_0 z0_0_1 f0_0_0 f0_0_1 g0_0_0_0 g0_0_0_1 g0_0_1_0 g0_0_1_1 = GenF.reversible_heun_s_general_22_y1_0_1 f0 f1 g00 g01 g10 g11 t0 t1 y0_0_0 y0_0_1 dW_0_0 dW_0_1 z0_0_0 z0_0_1 f0_0_0 f0_0_1 g0_0_0_0 g0_0_0_1 g0_0_1_0 g0_0_1_1 ∧
    GenF.reversible_heun_s_general_22__f_g_gprod_f1_0_0 f0 f1 g00 g01 g10 g11 t0 t1 y0_0_0 y0_0_1 dW_0_0 dW_0_1 z0_0_0 z0_0_1 f0_0_0 f0_0_1 g0_0_0_0 g0_0_0_1 g0_0_1_0 g0_0_1_1 = GenF.reversible_heun_s_general_22_f1_0_0 f0 f1 g00 g01 g10 g11 t0 t1 y0_0_0 y0_0_1 dW_0_0 dW_0_1 z0_0_0 z0_0_1 f0_0_0 f0_0_1 g0_0_0_0 g0_0_0_1 g0_0_1_0 g0_0_1_1 ∧
    GenF.reversible_heun_s_general_22__f_g_gprod_f1_0_1 f0 f1 g00 g01 g10 g11 t0 t1 y0_0_0 y0_0_1 dW_0_0 dW_0_1 z0_0_0 z0_0_1 f0_0_0 f0_0_1 g0_0_0_0 g0_0_0_1 g0_0_1_0 g0_0_1_1 = GenF.reversible_heun_s_general_22_f1_0_1 f0 f1 g00 g01 g10 g11 t0 t1 y0_0_0 y0_0_1 dW_0_0 dW_0_1 z0_0_0 z0_0_1 f0_0_0 f0_0_1 g0_0_0_0 g0_0_0_1 g0_0_1_0 g0_0_1_1 ∧
    GenF.reversible_heun_s_general_22__f_g_gprod_g1_0_0_0 f0 f1 g00 g01 g10 g11 t0 t1 y0_0_0 y0_0_1 dW_0_0 dW_0_1 z0_0_0 z0_0_1 f0_0_0 f0_0_1 g0_0_0_0 g0_0_0_1 g0_0_1_0 g0_0_1_1 = GenF.reversible_heun_s_general_22_g1_0_0_0 f0 f1 g00 g01 g10 g11 t0 t1 y0_0_0 y0_0_1 dW_0_0 dW_0_1 z0_0_0 z0_0_1 f0_0_0 f0_0_1 g0_0_0_0 g0_0_0_1 g0_0_1_0 g0_0_1_1 ∧
    GenF.reversible_heun_s_general_22__f_g_gprod_g1_0_0_1 f0 f1 g00 g01 g10 g11 t0 t1 y0_0_0 y0_0_1 dW_0_0 dW_0_1 z0_0_0 z0_0_1 f0_0_0 f0_0_1 g0_0_0_0 g0_0_0_1 g0_0_1_0 g0_0_1_1 = GenF.reversible_heun_s_general_22_g1_0_0_1 f0 f1 g00 g01 g10 g11 t0 t1 y0_0_0 y0_0_1 dW_0_0 dW_0_1 z0_0_0 z0_0_1 f0_0_0 f0_0_1 g0_0_0_0 g0_0_0_1 g0_0_1_0 g0_0_1_1 ∧
    GenF.reversible_heun_s_general_22__f_g_gprod_g1_0_1_0 f0 f1 g00 g01 g10 g11 t0 t1 y0_0_0 y0_0_1 dW_0_0 dW_0_1 z0_0_0 z0_0_1 f0_0_0 f0_0_1 g0_0_0_0 g0_0_0_1 g0_0_1_0 g0_0_1_1 = GenF.reversible_heun_s_general_22_g1_0_1_0 f0 f1 g00 g01 g10 g11 t0 t1 y0_0_0 y0_0_1 dW_0_0 dW_0_1 z0_0_0 z0_0_1 f0_0_0 f0_0_1 g0_0_0_0 g0_0_0_1 g0_0_1_0 g0_0_1_1 ∧
    GenF.reversible_heun_s_general_22__f_g_gprod_g1_0_1_1 f0 f1 g00 g01 g10 g11 t0 t1 y0_0_0 y0_0_1 dW_0_0 dW_0_1 z0_0_0 z0_0_1 f0_0_0 f0_0_1 g0_0_0_0 g0_0_0_1 g0_0_1_0 g0_0_1_1 = GenF.reversible_heun_s_general_22_g1_0_1_1 f0 f1 g00 g01 g10 g11 t0 t1 y0_0_0 y0_0_1 dW_0_0 dW_0_1 z0_0_0 z0_0_1 f0_0_0 f0_0_1 g0_0_0_0 g0_0_0_1 g0_0_1_0 g0_0_1_1 ∧
    GenF.reversible_heun_s_general_22__f_g_gprod_z1_0_0 f0 f1 g00 g01 g10 g11 t0 t1 y0_0_0 y0_0_1 dW_0_0 dW_0_1 z0_0_0 z0_0_1 f0_0_0 f0_0_1 g0_0_0_0 g0_0_0_1 g0_0_1_0 g0_0_1_1 = GenF.reversible_heun_s_general_22_z1_0_0 f0 f1 g00 g01 g10 g11 t0 t1 y0_0_0 y0_0_1 dW_0_0 dW_0_1 z0_0_0 z0_0_1 f0_0_0 f0_0_1 g0_0_0_0 g0_0_0_1 g0_0_1_0 g0_0_1_1 ∧
    GenF.reversible_heun_s_general_22__f_g_gprod_z1_0_1 f0 f1 g00 g01 g10 g11 t0 t1 y0_0_0 y0_0_1 dW_0_0 dW_0_1 z0_0_0 z0_0_1 f0_0_0 f0_0_1 g0_0_0_0 g0_0_0_1 g0_0_1_0 g0_0_1_1 = GenF.reversible_heun_s_general_22_z1_0_1 f0 f1 g00 g01 g10 g11 t0 t1 y0_0_0 y0_0_1 dW_0_0 dW_0_1 z0_0_0 z0_0_1 f0_0_0 f0_0_1 g0_0_0_0 g0_0_0_1 g0_0_1_0 g0_0_1_1 :=
  ⟨rfl, rfl, rfl, rfl, rfl, rfl, rfl, rfl, rfl, rfl⟩

theorem reversible_heun_s_general_22__f_g_gprod_field {K : Type} [Field K] [LinearOrder K] (f0 : K → K → K → K) (f1 : K → K → K → K) (g00 : K → K → K → K) (g01 : K → K → K → K) (g10 : K → K → K → K) (g11 : K → K → K → K) (t0 t1 y0_0_0 y0_0_1 dW_0_0 dW_0_1 z0_0_0 z0_0_1 f0_0_0 f0_0_1 g0_0_0_0 g0_0_0_1 g0_0_1_0 g0_0_1_1 : K) :
    Gen.reversible_heun_s_general_22__f_g_gprod_y1_0_0 f0 f1 g00 g01 g10 g11 t0 t1 y0_0_0 y0_0_1 dW_0_0 dW_0_1 z0_0_0 z0_0_1 f0_0_0 f0_0_1 g0_0_0_0 g0_0_0_1 g0_0_1_0 g0_0_1_1 = Gen.reversible_heun_s_general_22_y1_0_0 f0 f1 g00 g01 g10 g11 t0 t1 y0_0_0 y0_0_1 dW_0_0 dW_0_1 z0_0_0 z0_0_1 f0_0_0 f0_0_1 g0_0_0_0 g0_0_0_1 g0_0_1_0 g0_0_1_1 ∧
    Gen.reversible_heun_s_general_22__f_g_gprod_y1_0_1 f0 f1 g00 g01 g10 g11 t0 t1 y0_0_0 y0_0_1 dW_0_0 dW_0_1 z0_0_0 z0_0_1 f0_0_0 f0_0_1 g0_0_0_0 g0_0_0_1 g0_0_1_0 g0_0_1_1 = Gen.reversible_heun_s_general_22_y1_0_1 f0 f1 g00 g01 g10 g11 t0 t1 y0_0_0 y0_0_1 dW_0_0 dW_0_1 z0_0_0 z0_0_1 f0_0_0 f0_0_1 g0_0_0_0 g0_0_0_1 g0_0_1_0 g0_0_1_1 ∧
    Gen.reversible_heun_s_general_22__f_g_gprod_f1_0_0 f0 f1 g00 g01 g10 g11 t0 t1 y0_0_0 y0_0_1 dW_0_0 dW_0_1 z0_0_0 z0_0_1 f0_0_0 f0_0_1 g0_0_0_0 g0_0_0_1 g0_0_1_0 g0_0_1_1 = Gen.reversible_heun_s_general_22_f1_0_0 f0 f1 g00 g01 g10 g11 t0 t1 y0_0_0 y0_0_1 dW_0_0 dW_0_1 z0_0_0 z0_0_1 f0_0_0 f0_0_1 g0_0_0_0 g0_0_0_1 g0_0_1_0 g0_0_1_1 ∧
    Gen.reversible_heun_s_general_22__f_g_gprod_f1_0_1 f0 f1 g00 g01 g10 g11 t0 t1 y0_0_0 y0_0_1 dW_0_0 dW_0_1 z0_0_0 z0_0_1 f0_0_0 f0_0_1 g0_0_0_0 g0_0_0_1 g0_0_1_0 g0_0_1_1 = Gen.reversible_heun_s_general_22_f1_0_1 f0 f1 g00 g01 g10 g11 t0 t1 y0_0_0 y0_0_1 dW_0_0 dW_0_1 z0_0_0 z0_0_1 f0_0_0 f0_0_1 g0_0_0_0 g0_0_0_1 g0_0_1_0 g0_0_1_1 ∧
    Gen.reversible_heun_s_general_22__f_g_gprod_g1_0_0_0 f0 f1 g00 g01 g10 g11 t0 t1 y0_0_0 y0_0_1 dW_0_0 dW_0_1 z0_0_0 z0_0_1 f0_0_0 f0_0_1 g0_0_0_0 g0_0_0_1 g0_0_1_0 g0_0_1_1 = Gen.reversible_heun_s_general_22_g1_0_0_0 f0 f1 g00 g01 g10 g11 t0 t1 y0_0_0 y0_0_1 dW_0_0 dW_0_1 z0_0_0 z0_0_1 f0_0_0 f0_0_1 g0_0_0_0 g0_0_0_1 g0_0_1_0 g0_0_1_1 ∧
    Gen.reversible_heun_s_general_22__f_g_gprod_g1_0_0_1 f0 f1 g00 g01 g10 g11 t0 t1 y0_0_0 y0_0_1 dW_0_0 dW_0_1 z0_0_0 z0_0_1 f0_0_0 f0_0_1 g0_0_0_0 g0_0_0_1 g0_0_1_0 g0_0_1_1 = Gen.reversible_heun_s_general_22_g1_0_0_1 f0 f1 g00 g01 g10 g11 t0 t1 y0_0_0 y0_0_1 dW_0_0 dW_0_1 z0_0_0 z0_0_1 f0_0_0 f0_0_1 g0_0_0_0 g0_0_0_1 g0_0_1_0 g0_0_1_1 ∧
    Gen.reversible_heun_s_general_22__f_g_gprod_g1_0_1_0 f0 f1 g00 g01 g10 g11 t0 t1 y0_0_0 y0_0_1 dW_0_0 dW_0_1 z0_0_0 z0_0_1 f0_0_0 f0_0_1 g0_0_0_0 g0_0_0_1 g0_0_1_0 g0_0_1_1 = Gen.reversible_heun_s_general_22_g1_0_1_0 f0 f1 g00 g01 g10 g11 t0 t1 y0_0_0 y0_0_1 dW_0_0 dW_0_1 z0_0_0 z0_0_1 f0_0_0 f0_0_1 g0_0_0_0 g0_0_0_1 g0_0_1_0 g0_0_1_1 ∧
    Gen.reversible_heun_s_general_22__f_g_gprod_g1_0_1_1 f0 f1 g00 g01 g10 g11 t0 t1 y0_0_0 y0_0_1 dW_0_0 dW_0_1 z0_0_0 z0_0_1 f0_0_0 f0_0_1 g0_0_0_0 g0_0_0_1 g0_0_1_0 g0_0_1_1 = Gen.reversible_heun_s_general_22_g1_0_1_1 f0 f1 g00 g01 g10 g11 t0 t1 y0_0_0 y0_0_1 dW_0_0 dW_0_1 z0_0_0 z0_0_1 f0_0_0 f0_0_1 g0_0_0_0 g0_0_0_1 g0_0_1_0 g0_0_1_1 ∧
    Gen.reversible_heun_s_general_22__f_g_gprod_z1_0_0 f0 f1 g00 g01 g10 g11 t0 t1 y0_0_0 y0_0_1 dW_0_0 dW_0_1 z0_0_0 z0_0_1 f0_0_0 f0_0_1 g0_0_0_0 g0_0_0_1 g0_0_1_0 g0_0_1_1 = Gen.reversible_heun_s_general_22_z1_0_0 f0 f1 g00 g01 g10 g11 t0 t1 y0_0_0 y0_0_1 dW_0_0 dW_0_1 z0_0_0 z0_0_1 f0_0_0 f0_0_1 g0_0_0_0 g0_0_0_1 g0_0_1_0 g0_0_1_1 ∧
    Gen.reversible_heun_s_general_22__f_g_gprod_z1_0_1 f0 f1 g00 g01 g10 g11 t0 t1 y0_0_0 y0_0_1 dW_0_0 dW_0_1 z0_0_0 z0_0_1 f0_0_0 f0_0_1 g0_0_0_0 g0_0_0_1 g0_0_1_0 g0_0_1_1 = Gen.reversible_heun_s_general_22_z1_0_1 f0 f1 g00 g01 g10 g11 t0 t1 y0_0_0 y0_0_1 dW_0_0 dW_0_1 z0_0_0 z0_0_1 f0_0_0 f0_0_1 g0_0_0_0 g0_0_0_1 g0_0_1_0 g0_0_1_1 :=
  ⟨rfl, rfl, rfl, rfl, rfl, rfl, rfl, rfl, rfl, rfl⟩

theorem reversible_heun_s_general_22__fandg_gprod_float (f0 : Float → Float → Float → Float) (f1 : Float → Float → Float → Float) (g00 : Float → Float → Float → Float) (g01 : Float → Float → Float → Float) (g10 : Float → Float → Float → Float) (g11 : Float → Float → Float → Float) (t0 t1 y0_0_0 y0_0_1 dW_0_0 dW_0_1 z0_0_0 z0_0_1 f0_0_0 f0_0_1 g0_0_0_0 g0_0_0_1 g0_0_1_0 g0_0_1_1 : Float) :
    GenF.reversible_heun_s_general_22__fandg_gprod_y1_0_0 f0 f1 g00 g01 g10 g11 t0 t1 y0_0_0 y0_0_1 dW_0_0 dW_0_1 z0_0_0 z0_0_1 f0_0_0 f0_0_1 g0_0_0_0 g0_0_0_1 g0_0_1_0 g0_0_1_1 = GenF.reversible_heun_s_general_22_y1_0_0 f0 f1 g00 g01 g10 g11 t0 t1 y0_0_0 y0_0_1 dW_0_0 dW_0_1 z0_0_0 z0_0_1 f0_0_0 f0_0_1 g0_0_0_0 g0_0_0_1 g0_0_1_0 g0_0_1_1 ∧
    GenF.reversible_heun_s_general_22__fandg_gprod_y1_0_1 f0 f1 g00 g01 g10 g11 t0 t1 y0_0_0 y0_0_1 dW_0_0 dW_0_1 z0_0_0 z0_0_1 f0_0_0 f0_0_1 g0_0_0_0 g0_0_0_1 g0_0_1_0 g0_0_1_1 = GenF.reversible_heun_s_general_22_y1_0_1 f0 f1 g00 g01 g10 g11 t0 t1 y0_0_0 y0_0_1 dW_0_0 dW_0_1 z0_0_0 z0_0_1 f0_0_0 f0_0_1 g0_0_0_0 g0_0_0_1 g0_0_1_0 g0_0_1_1 ∧
    GenF.reversible_heun_s_general_22__fandg_gprod_f1_0_0 f0 f1 g00 g01 g10 g11 t0 t1 y0_0_0 y0_0_1 dW_0_0 dW_0_1 z0_0_0 z0_0_1 f0_0_0 f0_0_1 g0_0_0_0 g0_0_0_1 g0_0_1_0 g0_0_1_1 = GenF.reversible_heun_s_general_22_f1_0_0 f0 f1 g00 g01 g10 g11 t0 t1 y0_0_0 y0_0_1 dW_0_0 dW_0_1 z0_0_0 z0_0_1 f0_0_0 f0_0_1 g0_0_0_0 g0_0_0_1 g0_0_1_0 g0_0_1_1 ∧
    GenF.reversible_heun_s_general_22__fandg_gprod_f1_0_1 f0 f1 g00 g01 g10 g11 t0 t1 y0_0_0 y0_0_1 dW_0_0 dW_0_1 z0_0_0 z0_0_1 f0_0_0 f0_0_1 g0_0_0_0 g0_0_0_1 g0_0_1_0 g0_0_1_1 = GenF.reversible_heun_s_general_22_f1_0_1 f0 f1 g00 g01 g10 g11 t0 t1 y0_0_0 y0_0_1 dW_0_0 dW_0_1 z0_0_0 z0_0_1 f0_0_0 f0_0_1 g0_0_0_0 g0_0_0_1 g0_0_1_0 g0_0_1_1 ∧
    GenF.reversible_heun_s_general_22__fandg_gprod_g1_0_0_0 f0 f1 g00 g01 g10 g11 t0 t1 y0_0_0 y0_0_1 dW_0_0 dW_0_1 z0_0_0 z0_0_1 f0_0_0 f0_0_1 g0_0_0_0 g0_0_0_1 g0_0_1_0 g0_0_1_1 = GenF.reversible_heun_s_general_22_g1_0_0_0 f0 f1 g00 g01 g10 g11 t0 t1 y0_0_0 y0_0_1 dW_0_0 dW_0_1 z0_0_0 z0_0_1 f0_0_0 f0_0_1 g0_0_0_0 g0_0_0_1 g0_0_1_0 g0_0_1_1 ∧
    GenF.reversible_heun_s_general_22__fandg_gprod_g1_0_0_1 f0 f1 g00 g01 g10 g11 t0 t1 y0_0_0 y0_0_1 dW_0_0 dW_0_1 z0_0_0 z0_0_1 f0_0_0 f0_0_1 g0_0_0_0 g0_0_0_1 g0_0_1_0 g0_0_1_1 = GenF.reversible_heun_s_general_22_g1_0_0_1 f0 f1 g00 g01 g10 g11 t0 t1 y0_0_0 y0_0_1 dW_0_0 dW_0_1 z0_0_0 z0_0_1 f0_0_0 f0_0_1 g0_0_0_0 g0_0_0_1 g0_0_1_0 g0_0_1_1 ∧
    GenF.reversible_heun_s_general_22__fandg_gprod_g1_0_1_0 f0 f1 g00 g01 g10 g11 t0 t1 y0_0_0 y0_0_1 dW_0_0 dW_0_1 z0_0_0 z0_0_1 f0_0_0 f0_0_1 g0_0_0_0 g0_0_0_1 g0_0_1_0 g0_0_1_1 = GenF.reversible_heun_s_general_22_g1_0_1_0 f0 f1 g00 g01 g10 g11 t0 t1 y0_0_0 y0_0_1 dW_0_0 dW_0_1 z0_0_0 z0_0_1 f0_0_0 f0_0_1 g0_0_0_0 g0_0_0_1 g0_0_1_0 g0_0_1_1 ∧
    GenF.reversible_heun_s_general_22__fandg_gprod_g1_0_1_1 f0 f1 g00 g01 g10 g11 t0 t1 y0_0_0 y0_0_1 dW_0_0 dW_0_1 z0_0_0 z0_0_1 f0_0_0 f0_0_1 g0_0_0_0 g0_0_0_1 g0_0_1_0 g0_0_1_1 = GenF.reversible_heun_s_general_22_g1_0_1_1 f0 f1 g00 g01 g10 g11 t0 t1 y0_0_0 y0_0_1 dW_0_0 dW_0_1 z0_0_0 z0_0_1 f0_0_0 f0_0_1 g0_0_0_0 g0_0_0_1 g0_0_1_0 g0_0_1_1 ∧
    GenF.reversible_heun_s_general_22__fandg_gprod_z1_0_0 f0 f1 g00 g01 g10 g11 t0 t1 y0_0_0 y0_0_1 dW_0_0 dW_0_1 z0_0_0 z0_0_1 f0_0_0 f0_0_1 g0_0_0_0 g0_0_0_1 g0_0_1_0 g0_0_1_1 = GenF.reversible_heun_s_general_22_z1_0_0 f0 f1 g00 g01 g10 g11 t0 t1 y0_0_0 y0_0_1 dW_0_0 dW_0_1 z0_0_0 z0_0_1 f0_0_0 f0_0_1 g0_0_0_0 g0_0_0_1 g0_0_1_0 g0_0_1_1 ∧
    GenF.reversible_heun_s_general_22__fandg_gprod_z1_0_1 f0 f1 g00 g01 g10 g11 t0 t1 y0_0_0 y0_0_1 dW_0_0 dW_0_1 z0_0_0 z0_0_1 f0_0_0 f0_0_1 g0_0_0_0 g0_0_0_1 g0_0_1_0 g0_0_1_1 = GenF.reversible_heun_s_general_22_z1_0_1 f0 f1 g00 g01 g10 g11 t0 t1 y0_0_0 y0_0_1 dW_0_0 dW_0_1 z0_0_0 z0_0_1 f0_0_0 f0_0_1 g0_0_0_0 g0_0_0_1 g0_0_1_0 g0_0_1_1 :=
  ⟨rfl, rfl, rfl, rfl, rfl, rfl, rfl, rfl, rfl, rfl⟩

theorem reversible_heun_s_general_22__fandg_gprod_field {K : Type} [Field K] [LinearOrder K] (f0 : K → K → K → K) (f1 : K → K → K → K) (g00 : K → K → K → K) (g01 : K → K → K → K) (g10 : K → K → K → K) (g11 : K → K → K → K) (t0 t1 y0_0_0 y0_0_1 dW_0_0 dW_0_1 z0_0_0 z0_0_1 f0_0_0 f0_0_1 g0_0_0_0 g0_0_0_1 g0_0_1_0 g0_0_1_1 : K) :
    Gen.reversible_heun_s_general_22__fandg_gprod_y1_0_0 f0 f1 g00 g01 g10 g11 t0 t1 y0_0_0 y0_0_1 dW_0_0 dW_0_1 z0_0_0 z0_0_1 f0_0_0 f0_0_1 g0_0_0_0 g0_0_0_1 g0_0_1_0 g0_0_1_1 = Gen.reversible_heun_s_general_22_y1_0_0 f0 f1 g00 g01 g10 g11 t0 t1 y0_0_0 y0_0_1 dW_0_0 dW_0_1 z0_0_0 z0_0_1 f0_0_0 f0_0_1 g0_0_0_0 g0_0_0_1 g0_0_1_0 g0_0_1_1 ∧
    Gen.reversible_heun_s_general_22__fandg_gprod_y1_0_1 f0 f1 g00 g01 g10 g11 t0 t1 y0_0_0 y0_0_1 dW_0_0 dW_0_1 z0_0_0 z0_0_1 f0_0_0 f0_0_1 g0_0_0_0 g0_0_0_1 g0_0_1_0 g0_0_1_1 = Gen.reversible_heun_s_general_22_y1_0_1 f0 f1 g00 g01 g10 g11 t0 t1 y0_0_0 y0_0_1 dW_0_0 dW_0_1 z0_0_0 z0_0_1 f0_0_0 f0_0_1 g0_0_0_0 g0_0_0_1 g0_0_1_0 g0_0_1_1 ∧
    Gen.reversible_heun_s_general_22__fandg_gprod_f1_0_0 f0 f1 g00 g01 g10 g11 t0 t1 y0_0_0 y0_0_1 dW_0_0 dW_0_1 z0_0_0 z0_0_1 f0_0_0 f0_0_1 g0_0_0_0 g0_0_0_1 g0_0_1_0 g0_0_1_1 = Gen.reversible_heun_s_general_22_f1_0_0 f0 f1 g00 g01 g10 g11 t0 t1 y0_0_0 y0_0_1 dW_0_0 dW_0_1 z0_0_0 z0_0_1 f0_0_0 f0_0_1 g0_0_0_0 g0_0_0_1 g0_0_1_0 g0_0_1_1 ∧
    Gen.reversible_heun_s_general_22__fandg_gprod_f1_0_1 f0 f1 g00 g01 g10 g11 t0 t1 y0_0_0 y0_0_1 dW_0_0 dW_0_1 z0_0_0 z0_0_1 f0_0_0 f0_0_1 g0_0_0_0 g0_0_0_1 g0_0_1_0 g0_0_1_1 = Gen.reversible_heun_s_general_22_f1_0_1 f0 f1 g00 g01 g10 g11 t0 t1 y0_0_0 y0_0_1 dW_0_0 dW_0_1 z0_0_0 z0_0_1 f0_0_0 f0_0_1 g0_0_0_0 g0_0_0_1 g0_0_1_0 g0_0_1_1 ∧
    Gen.reversible_heun_s_general_22__fandg_gprod_g1_0_0_0 f0 f1 g00 g01 g10 g11 t0 t1 y0_0_0 y0_0_1 dW_0_0 dW_0_1 z0_0_0 z0_0_1 f0_0_0 f0_0_1 g0_0_0_0 g0_0_0_1 g0_0_1_0 g0_0_1_1 = Gen.reversible_heun_s_general_22_g1_0_0_0 f0 f1 g00 g01 g10 g11 t0 t1 y0_0_0 y0_0_1 dW_0_0 dW_0_1 z0_0_0 z0_0_1 f0_0_0 f0_0_1 g0_0_0_0 g0_0_0_1 g0_0_1_0 g0_0_1_1 ∧
    Gen.reversible_heun_s_general_22__fandg_gprod_g1_0_0_1 f0 f1 g00 g01 g10 g11 t0 t1 y0_0_0 y0_0_1 dW_0_0 dW_0_1 z0_0_0 z0_0_1 f0_0_0 f0_0_1 g0_0_0_0 g0_0_0_1 g0_0_1_0 g0_0_1_1 = Gen.reversible_heun_s_general_22_g1_0_0_1 f0 f1 g00 g01 g10 g11 t0 t1 y0_0_0 y0_0_1 dW_0_0 dW_0_1 z0_0_0 z0_0_1 f0_0_0 f0_0_1 g0_0_0_0 g0_0_0_1 g0_0_1_0 g0_0_1_1 ∧
    Gen.reversible_heun_s_general_22__fandg_gprod_g1_0_1_0 f0 f1 g00 g01 g10 g11 t0 t1 y0_0_0 y0_0_1 dW_0_0 dW_0_1 z0_0_0 z0_0_1 f0_0_0 f0_0_1 g0_0_0_0 g0_0_0_1 g0_0_1_0 g0_0_1_1 = Gen.reversible_heun_s_general_22_g1_0_1_0 f0 f1 g00 g01 g10 g11 t0 t1 y0_0_0 y0_0_1 dW_0_0 dW_0_1 z0_0_0 z0_0_1 f0_0_0 f0_0_1 g0_0_0_0 g0_0_0_1 g0_0_1_0 g0_0_1_1 ∧
    Gen.reversible_heun_s_general_22__fandg_gprod_g1_0_1_1 f0 f1 g00 g01 g10 g11 t0 t1 y0_0_0 y0_0_1 dW_0_0 dW_0_1 z0_0_0 z0_0_1 f0_0_0 f0_0_1 g0_0_0_0 g0_0_0_1 g0_0_1_0 g0_0_1_1 = Gen.reversible_heun_s_general_22_g1_0_1_1 f0 f1 g00 g01 g10 g11 t0 t1 y0_0_0 y0_0_1 dW_0_0 dW_0_1 z0_0_0 z0_0_1 f0_0_0 f0_0_1 g0_0_0_0 g0_0_0_1 g0_0_1_0 g0_0_1_1 ∧
    Gen.reversible_heun_s_general_22__fandg_gprod_z1_0_0 f0 f1 g00 g01 g10 g11 t0 t1 y0_0_0 y0_0_1 dW_0_0 dW_0_1 z0_0_0 z0_0_1 f0_0_0 f0_0_1 g0_0_0_0 g0_0_0_1 g0_0_1_0 g0_0_1_1 = Gen.reversible_heun_s_general_22_z1_0_0 f0 f1 g00 g01 g10 g11 t0 t1 y0_0_0 y0_0_1 dW_0_0 dW_0_1 z0_0_0 z0_0_1 f0_0_0 f0_0_1 g0_0_0_0 g0_0_0_1 g0_0_1_0 g0_0_1_1 ∧
    Gen.reversible_heun_s_general_22__fandg_gprod_z1_0_1 f0 f1 g00 g01 g10 g11 t0 t1 y0_0_0 y0_0_1 dW_0_0 dW_0_1 z0_0_0 z0_0_1 f0_0_0 f0_0_1 g0_0_0_0 g0_0_0_1 g0_0_1_0 g0_0_1_1 = Gen.reversible_heun_s_general_22_z1_0_1 f0 f1 g00 g01 g10 g11 t0 t1 y0_0_0 y0_0_1 dW_0_0 dW_0_1 z0_0_0 z0_0_1 f0_0_0 f0_0_1 g0_0_0_0 g0_0_0_1 g0_0_1_0 g0_0_1_1 :=
  ⟨rfl, rfl, rfl, rfl, rfl, rfl, rfl, rfl, rfl, rfl⟩

theorem reversible_heun_s_general_22__fandg_fgprod_float (f0 : Float → Float → Float → Float) (f1 : Float → Float → Float → Float) (g00 : Float → Float → Float → Float) (g01 : Float → Float → Float → Float) (g10 : Float → Float → Float → Float) (g11 : Float → Float → Float → Float) (t0 t1 y0_0_0 y0_0_1 dW_0_0 dW_0_1 z0_0_0 z0_0_1 f0_0_0 f0_0_1 g0_0_0_0 g0_0_0_1 g0_0_1_0 g0_0_1_1 : Float) :
    GenF.reversible_heun_s_general_22__fandg_fgprod_y1_0_0 f0 f1 g00 g01 g10 g11 t0 t1 y0_0_0 y0_0_1 dW_0_0 dW_0_1 z0_0_0 z0_0_1 f0_0_0 f0_0_1 g0_0_0_0 g0_0_0_1 g0_0_1_0 g0_0_1_1 = GenF.reversible_heun_s_general_22_y1_0_0 f0 f1 g00 g01 g10 g11 t0 t1 y0_0_0 y0_0_1 dW_0_0 dW_0_1 z0_0_0 z0_0_1 f0_0_0 f0_0_1 g0_0_0_0 g0_0_0_1 g0_0_1_0 g0_0_1_1 ∧
    GenF.reversible_heun_s_general_22__fandg_fgprod_y1_0_1 f0 f1 g00 g01 g10 g11 t0 t1 y0_0_0 y0_0_1 dW_0_0 dW_0_1 z0_0_0 z0_0_1 f0_0_0 f0_0_1 g0_0_0_0 g0_0_0_1 g0_0_1_0 g0_0_1_1 = GenF.reversible_heun_s_general_22_y1_0_1 f0 f1 g00 g01 g10 g11 t0 t1 y0_0_0 y0_0_1 dW_0_0 dW_0_1 z0_0_0 z0_0_1 f0_0_0 f0_0_1 g0_0_0_0 g0_0_0_1 g0_0_1_0 g0_0_1_1 ∧
    GenF.reversible_heun_s_general_22__fandg_fgprod_f1_0_0 f0 f1 g00 g01 g10 g11 t0 t1 y0_0_0 y0_0_1 dW_0_0 dW_0_1 z0_0_0 z0_0_1 f0_0_0 f0_0_1 g0_0_0_0 g0_0_0_1 g0_0_1_0 g0_0_1_1 = GenF.reversible_heun_s_general_22_f1_0_0 f0 f1 g00 g01 g10 g11 t0 t1 y0_0_0 y0_0_1 dW_0_0 dW_0_1 z0_0_0 z0_0_1 f0_0_0 f0_0_1 g0_0_0_0 g0_0_0_1 g0_0_1_0 g0_0_1_1 ∧
    GenF.reversible_heun_s_general_22__fandg_fgprod_f1_0_1 f0 f1 g00 g01 g10 g11 t0 t1 y0_0_0 y0_0_1 dW_0_0 dW_0_1 z0_0_0 z0_0_1 f0_0_0 f0_0_1 g0_0_0_0 g0_0_0_1 g0_0_1_0 g0_0_1_1 = GenF.reversible_heun_s_general_22_f1_0_1 f0 f1 g00 g01 g10 g11 t0 t1 y0_0_0 y0_0_1 dW_0_0 dW_0_1 z0_0_0 z0_0_1 f0_0_0 f0_0_1 g0_0_0_0 g0_0_0_1 g0_0_1_0 g0_0_1_1 ∧
    GenF.reversible_heun_s_general_22__fandg_fgprod_g1_0_0_0 f0 f1 g00 g01 g10 g11 t0 t1 y0_0_0 y0_0_1 dW_0_0 dW_0_1 z0_0_0 z0_0_1 f0_0_0 f0_0_1 g0_0_0_0 g0_0_0_1 g0_0_1_0 g0_0_1_1 = GenF.reversible_heun_s_general_22_g1_0_0_0 f0 f1 g00 g01 g10 g11 t0 t1 y0_0_0 y0_0_1 dW_0_0 dW_0_1 z0_0_0 z0_0_1 f0_0_0 f0_0_1 g0_0_0_0 g0_0_0_1 g0_0_1_0 g0_0_1_1 ∧
    GenF.reversible_heun_s_general_22__fandg_fgprod_g1_0_0_1 f0 f1 g00 g01 g10 g11 t0 t1 y0_0_0 y0_0_1 dW_0_0 dW_0_1 z0_0_0 z0_0_1 f0_0_0 f0_0_1 g0_0_0_0 g0_0_0_1 g0_0_1_0 g0_0_1_1 = GenF.reversible_heun_s_general_22_g1_0_0_1 f0 f1 g00 g01 g10 g11 t0 t1 y0_0_0 y0_0_1 dW_0_0 dW_0_1 z0_0_0 z0_0_1 f0_0_0 f0_0_1 g0_0_0_0 g0_0_0_1 g0_0_1_0 g0_0_1_1 ∧
    GenF.reversible_heun_s_general_22__fandg_fgprod_g1_0_1_0 f0 f1 g00 g01 g10 g11 t0 t1 y0_0_0 y0_0_1 dW_0_0 dW_0_1 z0_0_0 z0_0_1 f0_0_0 f0_0_1 g0_0_0_0 g0_0_0_1 g0_0_1_0 g0_0_1_1 = GenF.reversible_heun_s_general_22_g1_0_1_0 f0 f1 g00 g01 g10 g11 t0 t1 y0_0_0 y0_0_1 dW_0_0 dW_0_1 z0_0_0 z0_0_1 f0_0_0 f0_0_1 g0_0_0_0 g0_0_0_1 g0_0_1_0 g0_0_1_1 ∧
    GenF.reversible_heun_s_general_22__fandg_fgprod_g1_0_1_1 f0 f1 g00 g01 g10 g11 t0 t1 y0_0_0 y0_0_1 dW_0_0 dW_0_1 z0_0_0 z0_0_1 f0_0_0 f0_0_1 g0_0_0_0 g0_0_0_1 g0_0_1_0 g0_0_1_1 = GenF.reversible_heun_s_general_22_g1_0_1_1 f0 f1 g00 g01 g10 g11 t0 t1 y0_0_0 y0_0_1 dW_0_0 dW_0_1 z0_0_0 z0_0_1 f0_0_0 f0_0_1 g0_0_0_0 g0_0_0_1 g0_0_1_0 g0_0_1_1 ∧
    GenF.reversible_heun_s_general_22__fandg_fgprod_z1_0_0 f0 f1 g00 g01 g10 g11 t0 t1 y0_0_0 y0_0_1 dW_0_0 dW_0_1 z0_0_0 z0_0_1 f0_0_0 f0_0_1 g0_0_0_0 g0_0_0_1 g0_0_1_0 g0_0_1_1 = GenF.reversible_heun_s_general_22_z1_0_0 f0 f1 g00 g01 g10 g11 t0 t1 y0_0_0 y0_0_1 dW_0_0 dW_0_1 z0_0_0 z0_0_1 f0_0_0 f0_0_1 g0_0_0_0 g0_0_0_1 g0_0_1_0 g0_0_1_1 ∧
    GenF.reversible_heun_s_general_22__fandg_fgprod_z1_0_1 f0 f1 g00 g01 g10 g11 t0 t1 y0_0_0 y0_0_1 dW_0_0 dW_0_1 z0_0_0 z0_0_1 f0_0_0 f0_0_1 g0_0_0_0 g0_0_0_1 g0_0_1_0 g0_0_1_1 = GenF.reversible_heun_s_general_22_z1_0_1 f0 f1 g00 g01 g10 g11 t0 t1 y0_0_0 y0_0_1 dW_0_0 dW_0_1 z0_0_0 z0_0_1 f0_0_0 f0_0_1 g0_0_0_0 g0_0_0_1 g0_0_1_0 g0_0_1_1 :=
  ⟨rfl, rfl, rfl, rfl, rfl, rfl, rfl, rfl, rfl, rfl⟩

theorem reversible_heun_s_general_22__fandg_fgprod_field {K : Type} [Field K] [LinearOrder K] (f0 : K → K → K → K) (f1 : K → K → K → K) (g00 : K → K → K → K) (g01 : K → K → K → K) (g10 : K → K → K → K) (g11 : K → K → K → K) (t0 t1 y0_0_0 y0_0_1 dW_0_0 dW_0_1 z0_0_0 z0_0_1 f0_0_0 f0_0_1 g0_0_0_0 g0_0_0_1 g0_0_1_0 g0_0_1_1 : K) :
    Gen.reversible_heun_s_general_22__fandg_fgprod_y1_0_0 f0 f1 g00 g01 g10 g11 t0 t1 y0_0_0 y0_0_1 dW_0_0 dW_0_1 z0_0_0 z0_0_1 f0_0_0 f0_0_1 g0_0_0_0 g0_0_0_1 g0_0_1_0 g0_0_1_1 = Gen.reversible_heun_s_general_22_y1_0_0 f0 f1 g00 g01 g10 g11 t0 t1 y0_0_0 y0_0_1 dW_0_0 dW_0_1 z0_0_0 z0_0_1 f0_0_0 f0_0_1 g0_0_0_0 g0_0_0_1 g0_0_1_0 g0_0_1_1 ∧
    Gen.reversible_heun_s_general_22__fandg_fgprod_y1_0_1 f0 f1 g00 g01 g10 g11 t0 t1 y0_0_0 y0_0_1 dW_0_0 dW_0_1 z0_0_0 z0_0_1 f0_0_0 f0_0_1 g0_0_0_0 g0_0_0_1 g0_0_1_0 g0_0_1_1 = Gen.reversible_heun_s_general_22_y1_0_1 f0 f1 g00 g01 g10 g11 t0 t1 y0_0_0 y0_0_1 dW_0_0 dW_0_1 z0_0_0 z0_0_1 f0_0_0 f0_0_1 g0_0_0_0 g0_0_0_1 g0_0_1_0 g0_0_1_1 ∧
    Gen.reversible_heun_s_general_22__fandg_fgprod_f1_0_0 f0 f1 g00 g01 g10 g11 t0 t1 y0_0_0 y0_0_1 dW_0_0 dW_0_1 z0_0_0 z0_0_1 f0_0_0 f0_0_1 g0_0_0_0 g0_0_0_1 g0_0_1_0 g0_0_1_1 = Gen.reversible_heun_s_general_22_f1_0_0 f0 f1 g00 g01 g10 g11 t0 t1 y0_0_0 y0_0_1 dW_0_0 dW_0_1 z0_0_0 z0_0_1 f0_0_0 f0_0_1 g0_0_0_0 g0_0_0_1 g0_0_1_0 g0_0_1_1 ∧
    Gen.reversible_heun_s_general_22__fandg_fgprod_f1_0_1 f0 f1 g00 g01 g10 g11 t0 t1 y0_0_0 y0_0_1 dW_0_0 dW_0_1 z0_0_0 z0_0_1 f0_0_0 f0_0_1 g0_0_0_0 g0_0_0_1 g0_0_1_0 g0_0_1_1 = Gen.reversible_heun_s_general_22_f1_0_1 f0 f1 g00 g01 g10 g11 t0 t1 y0_0_0 y0_0_1 dW_0_0 dW_0_1 z0_0_0 z0_0_1 f0_0_0 f0_0_1 g0_0_0_0 g0_0_0_1 g0_0_1_0 g0_0_1_1 ∧
    Gen.reversible_heun_s_general_22__fandg_fgprod_g1_0_0_0 f0 f1 g00 g01 g10 g11 t0 t1 y0_0_0 y0_0_1 dW_0_0 dW_0_1 z0_0_0 z0_0_1 f0_0_0 f0_0_1 g0_0_0_0 g0_0_0_1 g0_0_1_0 g0_0_1_1 = Gen.reversible_heun_s_general_22_g1_0_0_0 f0 f1 g00 g01 g10 g11 t0 t1 y0_0_0 y0_0_1 dW_0_0 dW_0_1 z0_0_0 z0_0_1 f0_0_0 f0_0_1 g0_0_0_0 g0_0_0_1 g0_0_1_0 g0_0_1_1 ∧
    Gen.reversible_heun_s_general_22__fandg_fgprod_g1_0_0_1 f0 f1 g00 g01 g10 g11 t0 t1 y0_0_0 y0_0_1 dW_0_0 dW_0_1 z0_0_0 z0_0_1 f0_0_0 f0_0_1 g0_0_0_0 g0_0_0_1 g0_0_1_0 g0_0_1_1 = Gen.reversible_heun_s_general_22_g1_0_0_1 f0 f1 g00 g01 g10 g11 t0 t1 y0_0_0 y0_0_1 dW_0_0 dW_0_1 z0_0_0 z0_0_1 f0_0_0 f0_0_1 g0_0_0_0 g0_0_0_1 g0_0_1_0 g0_0_1_1 ∧
    Gen.reversible_heun_s_general_22__fandg_fgprod_g1_0_1_0 f0 f1 g00 g01 g10 g11 t0 t1 y0_0_0 y0_0_1 dW_0_0 dW_0_1 z0_0_0 z0_0_1 f0_0_0 f0_0_1 g0_0_0_0 g0_0_0_1 g0_0_1_0 g0_0_1_1 = Gen.reversible_heun_s_general_22_g1_0_1_0 f0 f1 g00 g01 g10 g11 t0 t1 y0_0_0 y0_0_1 dW_0_0 dW_0_1 z0_0_0 z0_0_1 f0_0_0 f0_0_1 g0_0_0_0 g0_0_0_1 g0_0_1_0 g0_0_1_1 ∧
    Gen.reversible_heun_s_general_22__fandg_fgprod_g1_0_1_1 f0 f1 g00 g01 g10 g11 t0 t1 y0_0_0 y0_0_1 dW_0_0 dW_0_1 z0_0_0 z0_0_1 f0_0_0 f0_0_1 g0_0_0_0 g0_0_0_1 g0_0_1_0 g0_0_1_1 = Gen.reversible_heun_s_general_22_g1_0_1_1 f0 f1 g00 g01 g10 g11 t0 t1 y0_0_0 y0_0_1 dW_0_0 dW_0_1 z0_0_0 z0_0_1 f0_0_0 f0_0_1 g0_0_0_0 g0_0_0_1 g0_0_1_0 g0_0_1_1 ∧
    Gen.reversible_heun_s_general_22__fandg_fgprod_z1_0_0 f0 f1 g00 g01 g10 g11 t0 t1 y0_0_0 y0_0_1 dW_0_0 dW_0_1 z0_0_0 z0_0_1 f0_0_0 f0_0_1 g0_0_0_0 g0_0_0_1 g0_0_1_0 g0_0_1_1 = Gen.reversible_heun_s_general_22_z1_0_0 f0 f1 g00 g01 g10 g11 t0 t1 y0_0_0 y0_0_1 dW_0_0 dW_0_1 z0_0_0 z0_0_1 f0_0_0 f0_0_1 g0_0_0_0 g0_0_0_1 g0_0_1_0 g0_0_1_1 ∧
    Gen.reversible_heun_s_general_22__fandg_fgprod_z1_0_1 f0 f1 g00 g01 g10 g11 t0 t1 y0_0_0 y0_0_1 dW_0_0 dW_0_1 z0_0_0 z0_0_1 f0_0_0 f0_0_1 g0_0_0_0 g0_0_0_1 g0_0_1_0 g0_0_1_1 = Gen.reversible_heun_s_general_22_z1_0_1 f0 f1 g00 g01 g10 g11 t0 t1 y0_0_0 y0_0_1 dW_0_0 dW_0_1 z0_0_0 z0_0_1 f0_0_0 f0_0_1 g0_0_0_0 g0_0_0_1 g0_0_1_0 g0_0_1_1 :=
  ⟨rfl, rfl, rfl, rfl, rfl, rfl, rfl, rfl, rfl, rfl⟩

theorem reversible_heun_s_general_22__renamed_float (f0 : Float → Float → Float → Float) (f1 : Float → Float → Float → Float) (g00 : Float → Float → Float → Float) (g01 : Float → Float → Float → Float) (g10 : Float → Float → Float → Float) (g11 : Float → Float → Float → Float) (t0 t1 y0_0_0 y0_0_1 dW_0_0 dW_0_1 z0_0_0 z0_0_1 f0_0_0 f0_0_1 g0_0_0_0 g0_0_0_1 g0_0_1_0 g0_0_1_1 : Float) :
    GenF.reversible_heun_s_general_22__renamed_y1_0_0 f0 f1 g00 g01 g10 g11 t0 t1 y0_0_0 y0_0_1 dW_0_0 dW_0_1 z0_0_0 z0_0_1 f0_0_0 f0_0_1 g0_0_0_0 g0_0_0_1 g0_0_1_0 g0_0_1_1 = GenF.reversible_heun_s_general_22_y1_0_0 f0 f1 g00 g01 g10 g11 t0 t1 y0_0_0 y0_0_1 dW_0_0 dW_0_1 z0_0_0 z0_0_1 f0_0_0 f0_0_1 g0_0_0_0 g0_0_0_1 g0_0_1_0 g0_0_1_1 ∧
    GenF.reversible_heun_s_general_22__renamed_y1_0_1 f0 f1 g00 g01 g10 g11 t0 t1 y0_0_0 y0_0_1 dW_0_0 dW_0_1 z0_0_0 z0_0_1 f0_0_0 f0_0_1 g0_0_0_0 g0_0_0_1 g0_0_1_0 g0_0_1_1 = GenF.reversible_heun_s_general_22_y1_0_1 f0 f1 g00 g01 g10 g11 t0 t1 y0_0_0 y0_0_1 dW_0_0 dW_0_1 z0_0_0 z0_0_1 f0_0_0 f0_0_1 g0_0_0_0 g0_0_0_1 g0_0_1_0 g0_0_1_1 ∧
    GenF.reversible_heun_s_general_22__renamed_f1_0_0 f0 f1 g00 g01 g10 g11 t0 t1 y0_0_0 y0_0_1 dW_0_0 dW_0_1 z0_0_0 z0_0_1 f0_0_0 f0_0_1 g0_0_0_0 g0_0_0_1 g0_0_1_0 g0_0_1_1 = GenF.reversible_heun_s_general_22_f1_0_0 f0 f1 g00 g01 g10 g11 t0 t1 y0_0_0 y0_0_1 dW_0_0 dW_0_1 z0_0_0 z0_0_1 f0_0_0 f0_0_1 g0_0_0_0 g0_0_0_1 g0_0_1_0 g0_0_1_1 ∧
    GenF.reversible_heun_s_general_22__renamed_f1_0_1 f0 f1 g00 g01 g10 g11 t0 t1 y0_0_0 y0_0_1 dW_0_0 dW_0_1 z0_0_0 z0_0_1 f0_0_0 f0_0_1 g0_0_0_0 g0_0_0_1 g0_0_1_0 g0_0_1_1 = GenF.reversible_heun_s_general_22_f1_0_1 f0 f1 g00 g01 g10 g11 t0 t1 y0_0_0 y0_0_1 dW_0_0 dW_0_1 z0_0_0 z0_0_1 f0_0_0 f0_0_1 g0_0_0_0 g0_0_0_1 g0_0_1_0 g0_0_1_1 ∧
    GenF.reversible_heun_s_general_22__renamed_g1_0_0_0 f0 f1 g00 g01 g10 g11 t0 t1 y0_0_0 y0_0_1 dW_0_0 dW_0_1 z0_0_0 z0_0_1 f0_0_0 f0_0_1 g0_0_0_0 g0_0_0_1 g0_0_1_0 g0_0_1_1 = GenF.reversible_heun_s_general_22_g1_0_0_0 f0 f1 g00 g01 g10 g11 t0 t1 y0_0_0 y0_0_1 dW_0_0 dW_0_1 z0_0_0 z0_0_1 f0_0_0 f0_0_1 g0_0_0_0 g0_0_0_1 g0_0_1_0 g0_0_1_1 ∧
    GenF.reversible_heun_s_general_22__renamed_g1_0_0_1 f0 f1 g00 g01 g10 g11 t0 t1 y0_0_0 y0_0_1 dW_0_0 dW_0_1 z0_0_0 z0_0_1 f0_0_0 f0_0_1 g0_0_0_0 g0_0_0_1 g0_0_1_0 g0_0_1_1 = GenF.reversible_heun_s_general_22_g1_0_0_1 f0 f1 g00 g01 g10 g11 t0 t1 y0_0_0 y0_0_1 dW_0_0 dW_0_1 z0_0_0 z0_0_1 f0_0_0 f0_0_1 g0_0_0_0 g0_0_0_1 g0_0_1_0 g0_0_1_1 ∧
    GenF.reversible_heun_s_general_22__renamed_g1_0_1_0 f0 f1 g00 g01 g10 g11 t0 t1 y0_0_0 y0_0_1 dW_0_0 dW_0_1 z0_0_0 z0_0_1 f0_0_0 f0_0_1 g0_0_0_0 g0_0_0_1 g0_0_1_0 g0_0_1_1 = GenF.reversible_heun_s_general_22_g1_0_1_0 f0 f1 g00 g01 g10 g11 t0 t1 y0_0_0 y0_0_1 dW_0_0 dW_0_1 z0_0_0 z0_0_1 f0_0_0 f0_0_1 g0_0_0_0 g0_0_0_1 g0_0_1_0 g0_0_1_1 ∧
    GenF.reversible_heun_s_general_22__renamed_g1_0_1_1 f0 f1 g00 g01 g10 g11 t0 t1 y0_0_0 y0_0_1 dW_0_0 dW_0_1 z0_0_0 z0_0_1 f0_0_0 f0_0_1 g0_0_0_0 g0_0_0_1 g0_0_1_0 g0_0_1_1 = GenF.reversible_heun_s_general_22_g1_0_1_1 f0 f1 g00 g01 g10 g11 t0 t1 y0_0_0 y0_0_1 dW_0_0 dW_0_1 z0_0_0 z0_0_1 f0_0_0 f0_0_1 g0_0_0_0 g0_0_0_1 g0_0_1_0 g0_0_1_1 ∧
    GenF.reversible_heun_s_general_22__renamed_z1_0_0 f0 f1 g00 g01 g10 g11 t0 t1 y0_0_0 y0_0_1 dW_0_0 dW_0_1 z0_0_0 z0_0_1 f0_0_0 f0_0_1 g0_0_0_0 g0_0_0_1 g0_0_1_0 g0_0_1_1 = GenF.reversible_heun_s_general_22_z1_0_0 f0 f1 g00 g01 g10 g11 t0 t1 y0_0_0 y0_0_1 dW_0_0 dW_0_1 z0_0_0 z0_0_1 f0_0_0 f0_0_1 g0_0_0_0 g0_0_0_1 g0_0_1_0 g0_0_1_1 ∧
    GenF.reversible_heun_s_general_22__renamed_z1_0_1 f0 f1 g00 g01 g10 g11 t0 t1 y0_0_0 y0_0_1 dW_0_0 dW_0_1 z0_0_0 z0_0_1 f0_0_0 f0_0_1 g0_0_0_0 g0_0_0_1 g0_0_1_0 g0_0_1_1 = GenF.reversible_heun_s_general_22_z1_0_1 f0 f1 g00 g01 g10 g11 t0 t1 y0_0_0 y0_0_1 dW_0_0 dW_0_1 z0_0_0 z0_0_1 f0_0_0 f0_0_1 g0_0_0_0 g0_0_0_1 g0_0_1_0 g0_0_1_1 :=
  ⟨rfl, rfl, rfl, rfl, rfl, rfl, rfl, rfl, rfl, rfl⟩

theorem reversible_heun_s_general_22__renamed_field {K : Type} [Field K] [LinearOrder K] (f0 : K → K → K → K) (f1 : K → K → K → K) (g00 : K → K → K → K) (g01 : K → K → K → K) (g10 : K → K → K → K) (g11 : K → K → K → K) (t0 t1 y0_0_0 y0_0_1 dW_0_0 dW_0_1 z0_0_0 z0_0_1 f0_0_0 f0_0_1 g0_0_0_0 g0_0_0_1 g0_0_1_0 g0_0_1_1 : K) :
    Gen.reversible_heun_s_general_22__renamed_y1_0_0 f0 f1 g00 g01 g10 g11 t0 t1 y0_0_0 y0_0_1 dW_0_0 dW_0_1 z0_0_0 z0_0_1 f0_0_0 f0_0_1 g0_0_0_0 g0_0_0_1 g0_0_1_0 g0_0_1_1 = Gen.reversible_heun_s_general_22_y1_0_0 f0 f1 g00 g01 g10 g11 t0 t1 y0_0_0 y0_0_1 dW_0_0 dW_0_1 z0_0_0 z0_0_1 f0_0_0 f0_0_1 g0_0_0_0 g0_0_0_1 g0_0_1_0 g0_0_1_1 ∧
    Gen.reversible_heun_s_general_22__renamed_y1_0_1 f0 f1 g00 g01 g10 g11 t0 t1 y0_0_0 y0_0_1 dW_0_0 dW_0_1 z0_0_0 z0_0_1 f0_0_0 f0_0_1 g0_0_0_0 g0_0_0_1 g0_0_1_0 g0_0_1_1 = Gen.reversible_heun_s_general_22_y1_0_1 f0 f1 g00 g01 g10 g11 t0 t1 y0_0_0 y0_0_1 dW_0_0 dW_0_1 z0_0_0 z0_0_1 f0_0_0 f0_0_1 g0_0_0_0 g0_0_0_1 g0_0_1_0 g0_0_1_1 ∧
    Gen.reversible_heun_s_general_22__renamed_f1_0_0 f0 f1 g00 g01 g10 g11 t0 t1 y0_0_0 y0_0_1 dW_0_0 dW_0_1 z0_0_0 z0_0_1 f0_0_0 f0_0_1 g0_0_0_0 g0_0_0_1 g0_0_1_0 g0_0_1_1 = Gen.reversible_heun_s_general_22_f1_0_0 f0 f1 g00 g01 g10 g11 t0 t1 y0_0_0 y0_0_1 dW_0_0 dW_0_1 z0_0_0 z0_0_1 f0_0_0 f0_0_1 g0_0_0_0 g0_0_0_1 g0_0_1_0 g0_0_1_1 ∧
    Gen.reversible_heun_s_general_22__renamed_f1_0_1 f0 f1 g00 g01 g10 g11 t0 t1 y0_0_0 y0_0_1 dW_0_0 dW_0_1 z0_0_0 z0_0_1 f0_0_0 f0_0_1 g0_0_0_0 g0_0_0_1 g0_0_1_0 g0_0_1_1 = Gen.reversible_heun_s_general_22_f1_0_1 f0 f1 g00 g01 g10 g11 t0 t1 y0_0_0 y0_0_1 dW_0_0 dW_0_1 z0_0_0 z0_0_1 f0_0_0 f0_0_1 g0_0_0_0 g0_0_0_1 g0_0_1_0 g0_0_1_1 ∧
    Gen.reversible_heun_s_general_22__renamed_g1_0_0_0 f0 f1 g00 g01 g10 g11 t0 t1 y0_0_0 y0_0_1 dW_0_0 dW_0_1 z0_0_0 z0_0_1 f0_0_0 f0_0_1 g0_0_0_0 g0_0_0_1 g0_0_1_0 g0_0_1_1 = Gen.reversible_heun_s_general_22_g1_0_0_0 f0 f1 g00 g01 g10 g11 t0 t1 y0_0_0 y0_0_1 dW_0_0 dW_0_1 z0_0_0 z0_0_1 f0_0_0 f0_0_1 g0_0_0_0 g0_0_0_1 g0_0_1_0 g0_0_1_1 ∧
    Gen.reversible_heun_s_general_22__renamed_g1_0_0_1 f0 f1 g00 g01 g10 g11 t0 t1 y0_0_0 y0_0_1 dW_0_0 dW_0_1 z0_0_0 z0_0_1 f0_0_0 f0_0_1 g0_0_0_0 g0_0_0_1 g0_0_1_0 g0_0_1_1 = Gen.reversible_heun_s_general_22_g1_0_0_1 f0 f1 g00 g01 g10 g11 t0 t1 y0_0_0 y0_0_1 dW_0_0 dW_0_1 z0_0_0 z0_0_1 f0_0_0 f0_0_1 g0_0_0_0 g0_0_0_1 g0_0_1_0 g0_0_1_1 ∧
    Gen.reversible_heun_s_general_22__renamed_g1_0_1_0 f0 f1 g00 g01 g10 g11 t0 t1 y0_0_0 y0_0_1 dW_0_0 dW_0_1 z0_0_0 z0_0_1 f0_0_0 f0_0_1 g0_0_0_0 g0_0_0_1 g0_0_1_0 g0_0_1_1 = Gen.reversible_heun_s_general_22_g1_0_1_0 f0 f1 g00 g01 g10 g11 t0 t1 y0_0_0 y0_0_1 dW_0_0 dW_0_1 z0_0_0 z0_0_1 f0_0_0 f0_0_1 g0_0_0_0 g0_0_0_1 g0_0_1_0 g0_0_1_1 ∧
    Gen.reversible_heun_s_general_22__renamed_g1_0_1_1 f0 f1 g00 g01 g10 g11 t0 t1 y0_0_0 y0_0_1 dW_0_0 dW_0_1 z0_0_0 z0_0_1 f0_0_0 f0_0_1 g0_0_0_0 g0_0_0_1 g0_0_1_0 g0_0_1_1 = Gen.reversible_heun_s_general_22_g1_0_1_1 f0 f1 g00 g01 g10 g11 t0 t1 y0_0_0 y0_0_1 dW_0_0 dW_0_1 z0_0_0 z0_0_1 f0_0_0 f0_0_1 g0_0_0_0 g0_0_0_1 g0_0_1_0 g0_0_1_1 ∧
    Gen.reversible_heun_s_general_22__renamed_z1_0_0 f0 f1 g00 g01 g10 g11 t0 t1 y0_0_0 y0_0_1 dW_0_0 dW_0_1 z0_0_0 z0_0_1 f0_0_0 f0_0_1 g0_0_0_0 g0_0_0_1 g0_0_1_0 g0_0_1_1 = Gen.reversible_heun_s_general_22_z1_0_0 f0 f1 g00 g01 g10 g11 t0 t1 y0_0_0 y0_0_1 dW_0_0 dW_0_1 z0_0_0 z0_0_1 f0_0_0 f0_0_1 g0_0_0_0 g0_0_0_1 g0_0_1_0 g0_0_1_1 ∧
    Gen.reversible_heun_s_general_22__renamed_z1_0_1 f0 f1 g00 g01 g10 g11 t0 t1 y0_0_0 y0_0_1 dW_0_0 dW_0_1 z0_0_0 z0_0_1 f0_0_0 f0_0_1 g0_0_0_0 g0_0_0_1 g0_0_1_0 g0_0_1_1 = Gen.reversible_heun_s_general_22_z1_0_1 f0 f1 g00 g01 g10 g11 t0 t1 y0_0_0 y0_0_1 dW_0_0 dW_0_1 z0_0_0 z0_0_1 f0_0_0 f0_0_1 g0_0_0_0 g0_0_0_1 g0_0_1_0 g0_0_1_1 :=
  ⟨rfl, rfl, rfl, rfl, rfl, rfl, rfl, rfl, rfl, rfl⟩

theorem reversible_heun_s_general_22__renamed_all_float (f0 : Float → Float → Float → Float) (f1 : Float → Float → Float → Float) (g00 : Float → Float → Float → Float) (g01 : Float → Float → Float → Float) (g10 : Float → Float → Float → Float) (g11 : Float → Float → Float → Float) (t0 t1 y0_0_0 y0_0_1 dW_0_0 dW_0_1 z0_0_0 z0_0_1 f0_0_0 f0_0_1 g0_0_0_0 g0_0_0_1 g0_0_1_0 g0_0_1_1 : Float) :
    GenF.reversible_heun_s_general_22__renamed_all_y1_0_0 f0 f1 g00 g01 g10 g11 t0 t1 y0_0_0 y0_0_1 dW_0_0 dW_0_1 z0_0_0 z0_0_1 f0_0_0 f0_0_1 g0_0_0_0 g0_0_0_1 g0_0_1_0 g0_0_1_1 = GenF.reversible_heun_s_general_22_y1_0_0 f0 f1 g00 g01 g10 g11 t0 t1 y0_0_0 y0_0_1 dW_0_0 dW_0_1 z0_0_0 z0_0_1 f0_0_0 f0_0_1 g0_0_0_0 g0_0_0_1 g0_0_1_0 g0_0_1_1 ∧
    GenF.reversible_heun_s_general_22__renamed_all_y1_0_1 f0 f1 g00 g01 g10 g11 t0 t1 y0_0_0 y0_0_1 dW_0_0 dW_0_1 z0_0_0 z0_0_1 f0_0_0 f0_0_1 g0_0_0_0 g0_0_0_1 g0_0_1_0 g0_0_1_1 = GenF.reversible_heun_s_general_22_y1_0_1 f0 f1 g00 g01 g10 g11 t0 t1 y0_0_0 y0_0_1 dW_0_0 dW_0_1 z0_0_0 z0_0_1 f0_0_0 f0_0_1 g0_0_0_0 g0_0_0_1 g0_0_1_0 g0_0_1_1 ∧
    GenF.reversible_heun_s_general_22__renamed_all_f1_0_0 f0 f1 g00 g01 g10 g11 t0 t1 y0_0_0 y0_0_1 dW_0_0 dW_0_1 z0_0_0 z0_0_1 f0_0_0 f0_0_1 g0_0_0_0 g0_0_0_1 g0_0_1_0 g0_0_1_1 = GenF.reversible_heun_s_general_22_f1_0_0 f0 f1 g00 g01 g10 g11 t0 t1 y0_0_0 y0_0_1 dW_0_0 dW_0_1 z0_0_0 z0_0_1 f0_0_0 f0_0_1 g0_0_0_0 g0_0_0_1 g0_0_1_0 g0_0_1_1 ∧
    GenF.reversible_heun_s_general_22__renamed_all_f1_0_1 f0 f1 g00 g01 g10 g11 t0 t1 y0_0_0 y0_0_1 dW_0_0 dW_0_1 z0_0_0 z0_0_1 f0_0_0 f0_0_1 g0_0_0_0 g0_0_0_1 g0_0_1_0 g0_0_1_1 = GenF.reversible_heun_s_general_22_f1_0_1 f0 f1 g00 g01 g10 g11 t0 t1 y0_0_0 y0_0_1 dW_0_0 dW_0_1 z0_0_0 z0_0_1 f0_0_0 f0_0_1 g0_0_0_0 g0_0_0_1 g0_0_1_0 g0_0_1_1 ∧
    GenF.reversible_heun_s_general_22__renamed_all_g1_0_0_0 f0 f1 g00 g01 g10 g11 t0 t1 y0_0_0 y0_0_1 dW_0_0 dW_0_1 z0_0_0 z0_0_1 f0_0_0 f0_0_1 g0_0_0_0 g0_0_0_1 g0_0_1_0 g0_0_1_1 = GenF.reversible_heun_s_general_22_g1_0_0_0 f0 f1 g00 g01 g10 g11 t0 t1 y0_0_0 y0_0_1 dW_0_0 dW_0_1 z0_0_0 z0_0_1 f0_0_0 f0_0_1 g0_0_0_0 g0_0_0_1 g0_0_1_0 g0_0_1_1 ∧
    GenF.reversible_heun_s_general_22__renamed_all_g1_0_0_1 f0 f1 g00 g01 g10 g11 t0 t1 y0_0_0 y0_0_1 dW_0_0 dW_0_1 z0_0_0 z0_0_1 f0_0_0 f0_0_1 g0_0_0_0 g0_0_0_1 g0_0_1_0 g0_0_1_1 = GenF.reversible_heun_s_general_22_g1_0_0_1 f0 f1 g00 g01 g10 g11 t0 t1 y0_0_0 y0_0_1 dW_0_0 dW_0_1 z0_0_0 z0_0_1 f0_0_0 f0_0_1 g0_0_0_0 g0_0_0_1 g0_0_1_0 g0_0_1_1 ∧
    GenF.reversible_heun_s_general_22__renamed_all_g1_0_1_0 f0 f1 g00 g01 g10 g11 t0 t1 y0_0_0 y0_0_1 dW_0_0 dW_0_1 z0_0_0 z0_0_1 f0_0_0 f0_0_1 g0_0_0_0 g0_0_0_1 g0_0_1_0 g0_0_1_1 = GenF.reversible_heun_s_general_22_g1_0_1_0 f0 f1 g00 g01 g10 g11 t0 t1 y0_0_0 y0_0_1 dW_0_0 dW_0_1 z0_0_0 z0_0_1 f0_0_0 f0_0_1 g0_0_0_0 g0_0_0_1 g0_0_1_0 g0_0_1_1 ∧
    GenF.reversible_heun_s_general_22__renamed_all_g1_0_1_1 f0 f1 g00 g01 g10 g11 t0 t1 y0_0_0 y0_0_1 dW_0_0 dW_0_1 z0_0_0 z0_0_1 f0_0_0 f0_0_1 g0_0_0_0 g0_0_0_1 g0_0_1_0 g0_0_1_1 = GenF.reversible_heun_s_general_22_g1_0_1_1 f0 f1 g00 g01 g10 g11 t0 t1 y0_0_0 y0_0_1 dW_0_0 dW_0_1 z0_0_0 z0_0_1 f0_0_0 f0_0_1 g0_0_0_0 g0_0_0_1 g0_0_1_0 g0_0_1_1 ∧
    GenF.reversible_heun_s_general_22__renamed_all_z1_0_0 f0 f1 g00 g01 g10 g11 t0 t1 y0_0_0 y0_0_1 dW_0_0 dW_0_1 z0_0_0 z0_0_1 f0_0_0 f0_0_1 g0_0_0_0 g0_0_0_1 g0_0_1_0 g0_0_1_1 = GenF.reversible_heun_s_general_22_z1_0_0 f0 f1 g00 g01 g10 g11 t0 t1 y0_0_0 y0_0_1 dW_0_0 dW_0_1 z0_0_0 z0_0_1 f0_0_0 f0_0_1 g0_0_0_0 g0_0_0_1 g0_0_1_0 g0_0_1_1 ∧
    GenF.reversible_heun_s_general_22__renamed_all_z1_0_1 f0 f1 g00 g01 g10 g11 t0 t1 y0_0_0 y0_0_1 dW_0_0 dW_0_1 z0_0_0 z0_0_1 f0_0_0 f0_0_1 g0_0_0_0 g0_0_0_1 g0_0_1_0 g0_0_1_1 = GenF.reversible_heun_s_general_22_z1_0_1 f0 f1 g00 g01 g10 g11 t0 t1 y0_0_0 y0_0_1 dW_0_0 dW_0_1 z0_0_0 z0_0_1 f0_0_0 f0_0_1 g0_0_0_0 g0_0_0_1 g0_0_1_0 g0_0_1_1 :=
  ⟨rfl, rfl, rfl, rfl, rfl, rfl, rfl, rfl, rfl, rfl⟩

theorem reversible_heun_s_general_22__renamed_all_field {K : Type} [Field K] [LinearOrder K] (f0 : K → K → K → K) (f1 : K → K → K → K) (g00 : K → K → K → K) (g01 : K → K → K → K) (g10 : K → K → K → K) (g11 : K → K → K → K) (t0 t1 y0_0_0 y0_0_1 dW_0_0 dW_0_1 z0_0_0 z0_0_1 f0_0_0 f0_0_1 g0_0_0_0 g0_0_0_1 g0_0_1_0 g0_0_1_1 : K) :
    Gen.reversible_heun_s_general_22__renamed_all_y1_0_0 f0 f1 g00 g01 g10 g11 t0 t1 y0_0_0 y0_0_1 dW_0_0 dW_0_1 z0_0_0 z0_0_1 f0_0_0 f0_0_1 g0_0_0_0 g0_0_0_1 g0_0_1_0 g0_0_1_1 = Gen.reversible_heun_s_general_22_y1_0_0 f0 f1 g00 g01 g10 g11 t0 t1 y0_0_0 y0_0_1 dW_0_0 dW_0_1 z0_0_0 z0_0_1 f0_0_0 f0_0_1 g0_0_0_0 g0_0_0_1 g0_0_1_0 g0_0_1_1 ∧
    Gen.reversible_heun_s_general_22__renamed_all_y1_0_1 f0 f1 g00 g01 g10 g11 t0 t1 y0_0_0 y0_0_1 dW_0_0 dW_0_1 z0_0_0 z0_0_1 f0_0_0 f0_0_1 g0_0_0_0 g0_0_0_1 g0_0_1_0 g0_0_1_1 = Gen.reversible_heun_s_general_22_y1_0_1 f0 f1 g00 g01 g10 g11 t0 t1 y0_0_0 y0_0_1 dW_0_0 dW_0_1 z0_0_0 z0_0_1 f0_0_0 f0_0_1 g0_0_0_0 g0_0_0_1 g0_0_1_0 g0_0_1_1 ∧
    Gen.reversible_heun_s_general_22__renamed_all_f1_0_0 f0 f1 g00 g01 g10 g11 t0 t1 y0_0_0 y0_0_1 dW_0_0 dW_0_1 z0_0_0 z0_0_1 f0_0_0 f0_0_1 g0_0_0_0 g0_0_0_1 g0_0_1_0 g0_0_1_1 = Gen.reversible_heun_s_general_22_f1_0_0 f0 f1 g00 g01 g10 g11 t0 t1 y0_0_0 y0_0_1 dW_0_0 dW_0_1 z0_0_0 z0_0_1 f0_0_0 f0_0_1 g0_0_0_0 g0_0_0_1 g0_0_1_0 g0_0_1_1 ∧
    Gen.reversible_heun_s_general_22__renamed_all_f1_0_1 f0 f1 g00 g01 g10 g11 t0 t1 y0_0_0 y0_0_1 dW_0_0 dW_0_1 z0_0_0 z0_0_1 f0_0_0 f0_0_1 g0_0_0_0 g0_0_0_1 g0_0_1_0 g0_0_1_1 = Gen.reversible_heun_s_general_22_f1_0_1 f0 f1 g00 g01 g10 g11 t0 t1 y0_0_0 y0_0_1 dW_0_0 dW_0_1 z0_0_0 z0_0_1 f0_0_0 f0_0_1 g0_0_0_0 g0_0_0_1 g0_0_1_0 g0_0_1_1 ∧
    Gen.reversible_heun_s_general_22__renamed_all_g1_0_0_0 f0 f1 g00 g01 g10 g11 t0 t1 y0_0_0 y0_0_1 dW_0_0 dW_0_1 z0_0_0 z0_0_1 f0_0_0 f0_0_1 g0_0_0_0 g0_0_0_1 g0_0_1_0 g0_0_1_1 = Gen.reversible_heun_s_general_22_g1_0_0_0 f0 f1 g00 g01 g10 g11 t0 t1 y0_0_0 y0_0_1 dW_0_0 dW_0_1 z0_0_0 z0_0_1 f0_0_0 f0_0_1 g0_0_0_0 g0_0_0_1 g0_0_1_0 g0_0_1_1 ∧
    Gen.reversible_heun_s_general_22__renamed_all_g1_0_0_1 f0 f1 g00 g01 g10 g11 t0 t1 y0_0_0 y0_0_1 dW_0_0 dW_0_1 z0_0_0 z0_0_1 f0_0_0 f0_0_1 g0_0_0_0 g0_0_0_1 g0_0_1_0 g0_0_1_1 = Gen.reversible_heun_s_general_22_g1_0_0_1 f0 f1 g00 g01 g10 g11 t0 t1 y0_0_0 y0_0_1 dW_0_0 dW_0_1 z0_0_0 z0_0_1 f0_0_0 f0_0_1 g0_0_0_0 g0_0_0_1 g0_0_1_0 g0_0_1_1 ∧
    Gen.reversible_heun_s_general_22__renamed_all_g1_0_1_0 f0 f1 g00 g01 g10 g11 t0 t1 y0_0_0 y0_0_1 dW_0_0 dW_0_1 z0_0_0 z0_0_1 f0_0_0 f0_0_1 g0_0_0_0 g0_0_0_1 g0_0_1_0 g0_0_1_1 = Gen.reversible_heun_s_general_22_g1_0_1_0 f0 f1 g00 g01 g10 g11 t0 t1 y0_0_0 y0_0_1 dW_0_0 dW_0_1 z0_0_0 z0_0_1 f0_0_0 f0_0_1 g0_0_0_0 g0_0_0_1 g0_0_1_0 g0_0_1_1 ∧
    Gen.reversible_heun_s_general_22__renamed_all_g1_0_1_1 f0 f1 g00 g01 g10 g11 t0 t1 y0_0_0 y0_0_1 dW_0_0 dW_0_1 z0_0_0 z0_0_1 f0_0_0 f0_0_1 g0_0_0_0 g0_0_0_1 g0_0_1_0 g0_0_1_1 = Gen.reversible_heun_s_general_22_g1_0_1_1 f0 f1 g00 g01 g10 g11 t0 t1 y0_0_0 y0_0_1 dW_0_0 dW_0_1 z0_0_0 z0_0_1 f0_0_0 f0_0_1 g0_0_0_0 g0_0_0_1 g0_0_1_0 g0_0_1_1 ∧
    Gen.reversible_heun_s_general_22__renamed_all_z1_0_0 f0 f1 g00 g01 g10 g11 t0 t1 y0_0_0 y0_0_1 dW_0_0 dW_0_1 z0_0_0 z0_0_1 f0_0_0 f0_0_1 g0_0_0_0 g0_0_0_1 g0_0_1_0 g0_0_1_1 = Gen.reversible_heun_s_general_22_z1_0_0 f0 f1 g00 g01 g10 g11 t0 t1 y0_0_0 y0_0_1 dW_0_0 dW_0_1 z0_0_0 z0_0_1 f0_0_0 f0_0_1 g0_0_0_0 g0_0_0_1 g0_0_1_0 g0_0_1_1 ∧
    Gen.reversible_heun_s_general_22__renamed_all_z1_0_1 f0 f1 g00 g01 g10 g11 t0 t1 y0_0_0 y0_0_1 dW_0_0 dW_0_1 z0_0_0 z0_0_1 f0_0_0 f0_0_1 g0_0_0_0 g0_0_0_1 g0_0_1_0 g0_0_1_1 = Gen.reversible_heun_s_general_22_z1_0_1 f0 f1 g00 g01 g10 g11 t0 t1 y0_0_0 y0_0_1 dW_0_0 dW_0_1 z0_0_0 z0_0_1 f0_0_0 f0_0_1 g0_0_0_0 g0_0_0_1 g0_0_1_0 g0_0_1_1 :=
  ⟨rfl, rfl, rfl, rfl, rfl, rfl, rfl, rfl, rfl, rfl⟩

theorem milstein_i_diagonal_22__f_g_gprod_float (f0 : Float → Float → Float → Float) (f1 : Float → Float → Float → Float) (g0 : Float → Float → Float) (g0_d1 : Float → Float → Float) (g1 : Float → Float → Float) (g1_d1 : Float → Float → Float) (t0 t1 y0_0_0 y0_0_1 dW_0_0 dW_0_1 : Float) :
    GenF.milstein_i_diagonal_22__f_g_gprod_y1_0_0 f0 f1 g0 g0_d1 g1 g1_d1 t0 t1 y0_0_0 y0_0_1 dW_0_0 dW_0_1 = GenF.milstein_i_diagonal_22_y1_0_0 f0 f1 g0 g0_d1 g1 g1_d1 t0 t1 y0_0_0 y0_0_1 dW_0_0 dW_0_1 ∧
    GenF.milstein_i_diagonal_22__f_g_gprod_y1_0_1 f0 f1 g0 g0_d1 g1 g1_d1 t0 t1 y0_0_0 y0_0_1 dW_0_0 dW_0_1 = GenF.milstein_i_diagonal_22_y1_0_1 f0 f1 g0 g0_d1 g1 g1_d1 t0 t1 y0_0_0 y0_0_1 dW_0_0 dW_0_1 :=
  ⟨rfl, rfl⟩

theorem milstein_i_diagonal_22__f_g_gprod_field {K : Type} [Field K] [LinearOrder K] (f0 : K → K → K → K) (f1 : K → K → K → K) (g0 : K → K → K) (g0_d1 : K → K → K) (g1 : K → K → K) (g1_d1 : K → K → K) (t0 t1 y0_0_0 y0_0_1 dW_0_0 dW_0_1 : K) :
    Gen.milstein_i_diagonal_22__f_g_gprod_y1_0_0 f0 f1 g0 g0_d1 g1 g1_d1 t0 t1 y0_0_0 y0_0_1 dW_0_0 dW_0_1 = Gen.milstein_i_diagonal_22_y1_0_0 f0 f1 g0 g0_d1 g1 g1_d1 t0 t1 y0_0_0 y0_0_1 dW_0_0 dW_0_1 ∧
    Gen.milstein_i_diagonal_22__f_g_gprod_y1_0_1 f0 f1 g0 g0_d1 g1 g1_d1 t0 t1 y0_0_0 y0_0_1 dW_0_0 dW_0_1 = Gen.milstein_i_diagonal_22_y1_0_1 f0 f1 g0 g0_d1 g1 g1_d1 t0 t1 y0_0_0 y0_0_1 dW_0_0 dW_0_1 :=
  ⟨rfl, rfl⟩

theorem milstein_i_diagonal_22__renamed_float (f0 : Float → Float → Float → Float) (f1 : Float → Float → Float → Float) (g0 : Float → Float → Float) (g0_d1 : Float → Float → Float) (g1 : Float → Float → Float) (g1_d1 : Float → Float → Float) (t0 t1 y0_0_0 y0_0_1 dW_0_0 dW_0_1 : Float) :
    GenF.milstein_i_diagonal_22__renamed_y1_0_0 f0 f1 g0 g0_d1 g1 g1_d1 t0 t1 y0_0_0 y0_0_1 dW_0_0 dW_0_1 = GenF.milstein_i_diagonal_22_y1_0_0 f0 f1 g0 g0_d1 g1 g1_d1 t0 t1 y0_0_0 y0_0_1 dW_0_0 dW_0_1 ∧
    GenF.milstein_i_diagonal_22__renamed_y1_0_1 f0 f1 g0 g0_d1 g1 g1_d1 t0 t1 y0_0_0 y0_0_1 dW_0_0 dW_0_1 = GenF.milstein_i_diagonal_22_y1_0_1 f0 f1 g0 g0_d1 g1 g1_d1 t0 t1 y0_0_0 y0_0_1 dW_0_0 dW_0_1 :=
  ⟨rfl, rfl⟩

theorem milstein_i_diagonal_22__renamed_field {K : Type} [Field K] [LinearOrder K] (f0 : K → K → K → K) (f1 : K → K → K → K) (g0 : K → K → K) (g0_d1 : K → K → K) (g1 : K → K → K) (g1_d1 : K → K → K) (t0 t1 y0_0_0 y0_0_1 dW_0_0 dW_0_1 : K) :
    Gen.milstein_i_diagonal_22__renamed_y1_0_0 f0 f1 g0 g0_d1 g1 g1_d1 t0 t1 y0_0_0 y0_0_1 dW_0_0 dW_0_1 = Gen.milstein_i_diagonal_22_y1_0_0 f0 f1 g0 g0_d1 g1 g1_d1 t0 t1 y0_0_0 y0_0_1 dW_0_0 dW_0_1 ∧
    Gen.milstein_i_diagonal_22__renamed_y1_0_1 f0 f1 g0 g0_d1 g1 g1_d1 t0 t1 y0_0_0 y0_0_1 dW_0_0 dW_0_1 = Gen.milstein_i_diagonal_22_y1_0_1 f0 f1 g0 g0_d1 g1 g1_d1 t0 t1 y0_0_0 y0_0_1 dW_0_0 dW_0_1 :=
  ⟨rfl, rfl⟩

theorem milstein_i_diagonal_22__renamed_all_float (f0 : Float → Float → Float → Float) (f1 : Float → Float → Float → Float) (g0 : Float → Float → Float) (g0_d1 : Float → Float → Float) (g1 : Float → Float → Float) (g1_d1 : Float → Float → Float) (t0 t1 y0_0_0 y0_0_1 dW_0_0 dW_0_1 : Float) :
    GenF.milstein_i_diagonal_22__renamed_all_y1_0_0 f0 f1 g0 g0_d1 g1 g1_d1 t0 t1 y0_0_0 y0_0_1 dW_0_0 dW_0_1 = GenF.milstein_i_diagonal_22_y1_0_0 f0 f1 g0 g0_d1 g1 g1_d1 t0 t1 y0_0_0 y0_0_1 dW_0_0 dW_0_1 ∧
    GenF.milstein_i_diagonal_22__renamed_all_y1_0_1 f0 f1 g0 g0_d1 g1 g1_d1 t0 t1 y0_0_0 y0_0_1 dW_0_0 dW_0_1 = GenF.milstein_i_diagonal_22_y1_0_1 f0 f1 g0 g0_d1 g1 g1_d1 t0 t1 y0_0_0 y0_0_1 dW_0_0 dW_0_1 :=
  ⟨rfl, rfl⟩

theorem milstein_i_diagonal_22__renamed_all_field {K : Type} [Field K] [LinearOrder K] (f0 : K → K → K → K) (f1 : K → K → K → K) (g0 : K → K → K) (g0_d1 : K → K → K) (g1 : K → K → K) (g1_d1 : K → K → K) (t0 t1 y0_0_0 y0_0_1 dW_0_0 dW_0_1 : K) :
    Gen.milstein_i_diagonal_22__renamed_all_y1_0_0 f0 f1 g0 g0_d1 g1 g1_d1 t0 t1 y0_0_0 y0_0_1 dW_0_0 dW_0_1 = Gen.milstein_i_diagonal_22_y1_0_0 f0 f1 g0 g0_d1 g1 g1_d1 t0 t1 y0_0_0 y0_0_1 dW_0_0 dW_0_1 ∧
    Gen.milstein_i_diagonal_22__renamed_all_y1_0_1 f0 f1 g0 g0_d1 g1 g1_d1 t0 t1 y0_0_0 y0_0_1 dW_0_0 dW_0_1 = Gen.milstein_i_diagonal_22_y1_0_1 f0 f1 g0 g0_d1 g1 g1_d1 t0 t1 y0_0_0 y0_0_1 dW_0_0 dW_0_1 :=
  ⟨rfl, rfl⟩

theorem milstein_s_diagonal_22__f_g_gprod_float (f0 : Float → Float → Float → Float) (f1 : Float → Float → Float → Float) (g0 : Float → Float → Float) (g0_d1 : Float → Float → Float) (g1 : Float → Float → Float) (g1_d1 : Float → Float → Float) (t0 t1 y0_0_0 y0_0_1 dW_0_0 dW_0_1 : Float) :
    GenF.milstein_s_diagonal_22__f_g_gprod_y1_0_0 f0 f1 g0 g0_d1 g1 g1_d1 t0 t1 y0_0_0 y0_0_1 dW_0_0 dW_0_1 = GenF.milstein_s_diagonal_22_y1_0_0 f0 f1 g0 g0_d1 g1 g1_d1 t0 t1 y0_0_0 y0_0_1 dW_0_0 dW_0_1 ∧
    GenF.milstein_s_diagonal_22__f_g_gprod_y1_0_1 f0 f1 g0 g0_d1 g1 g1_d1 t0 t1 y0_0_0 y0_0_1 dW_0_0 dW_0_1 = GenF.milstein_s_diagonal_22_y1_0_1 f0 f1 g0 g0_d1 g1 g1_d1 t0 t1 y0_0_0 y0_0_1 dW_0_0 dW_0_1 :=
  ⟨rfl, rfl⟩

theorem milstein_s_diagonal_22__f_g_gprod_field {K : Type} [Field K] [LinearOrder K] (f0 : K → K → K → K) (f1 : K → K → K → K) (g0 : K → K → K) (g0_d1 : K → K → K) (g1 : K → K → K) (g1_d1 : K → K → K) (t0 t1 y0_0_0 y0_0_1 dW_0_0 dW_0_1 : K) :
    Gen.milstein_s_diagonal_22__f_g_gprod_y1_0_0 f0 f1 g0 g0_d1 g1 g1_d1 t0 t1 y0_0_0 y0_0_1 dW_0_0 dW_0_1 = Gen.milstein_s_diagonal_22_y1_0_0 f0 f1 g0 g0_d1 g1 g1_d1 t0 t1 y0_0_0 y0_0_1 dW_0_0 dW_0_1 ∧
    Gen.milstein_s_diagonal_22__f_g_gprod_y1_0_1 f0 f1 g0 g0_d1 g1 g1_d1 t0 t1 y0_0_0 y0_0_1 dW_0_0 dW_0_1 = Gen.milstein_s_diagonal_22_y1_0_1 f0 f1 g0 g0_d1 g1 g1_d1 t0 t1 y0_0_0 y0_0_1 dW_0_0 dW_0_1 :=
  ⟨rfl, rfl⟩

theorem milstein_s_diagonal_22__renamed_float (f0 : Float → Float → Float → Float) (f1 : Float → Float → Float → Float) (g0 : Float → Float → Float) (g0_d1 : Float → Float → Float) (g1 : Float → Float → Float) (g1_d1 : Float → Float → Float) (t0 t1 y0_0_0 y0_0_1 dW_0_0 dW_0_1 : Float) :
    GenF.milstein_s_diagonal_22__renamed_y1_0_0 f0 f1 g0 g0_d1 g1 g1_d1 t0 t1 y0_0_0 y0_0_1 dW_0_0 dW_0_1 = GenF.milstein_s_diagonal_22_y1_0_0 f0 f1 g0 g0_d1 g1 g1_d1 t0 t1 y0_0_0 y0_0_1 dW_0_0 dW_0_1 ∧
    GenF.milstein_s_diagonal_22__renamed_y1_0_1 f0 f1 g0 g0_d1 g1 g1_d1 t0 t1 y0_0_0 y0_0_1 dW_0_0 dW_0_1 = GenF.milstein_s_diagonal_22_y1_0_1 f0 f1 g0 g0_d1 g1 g1_d1 t0 t1 y0_0_0 y0_0_1 dW_0_0 dW_0_1 :=
  ⟨rfl, rfl⟩

theorem milstein_s_diagonal_22__renamed_field {K : Type} [Field K] [LinearOrder K] (f0 : K → K → K → K) (f1 : K → K → K → K) (g0 : K → K → K) (g0_d1 : K → K → K) (g1 : K → K → K) (g1_d1 : K → K → K) (t0 t1 y0_0_0 y0_0_1 dW_0_0 dW_0_1 : K) :
    Gen.milstein_s_diagonal_22__renamed_y1_0_0 f0 f1 g0 g0_d1 g1 g1_d1 t0 t1 y0_0_0 y0_0_1 dW_0_0 dW_0_1 = Gen.milstein_s_diagonal_22_y1_0_0 f0 f1 g0 g0_d1 g1 g1_d1 t0 t1 y0_0_0 y0_0_1 dW_0_0 dW_0_1 ∧
    Gen.milstein_s_diagonal_22__renamed_y1_0_1 f0 f1 g0 g0_d1 g1 g1_d1 t0 t1 y0_0_0 y0_0_1 dW_0_0 dW_0_1 = Gen.milstein_s_diagonal_22_y1_0_1 f0 f1 g0 g0_d1 g1 g1_d1 t0 t1 y0_0_0 y0_0_1 dW_0_0 dW_0_1 :=
  ⟨rfl, rfl⟩

theorem milstein_s_diagonal_22__renamed_all_float (f0 : Float → Float → Float → Float) (f1 : Float → Float → Float → Float) (g0 : Float → Float → Float) (g0_d1 : Float → Float → Float) (g1 : Float → Float → Float) (g1_d1 : Float → Float → Float) (t0 t1 y0_0_0 y0_0_1 dW_0_0 dW_0_1 : Float) :
    GenF.milstein_s_diagonal_22__renamed_all_y1_0_0 f0 f1 g0 g0_d1 g1 g1_d1 t0 t1 y0_0_0 y0_0_1 dW_0_0 dW_0_1 = GenF.milstein_s_diagonal_22_y1_0_0 f0 f1 g0 g0_d1 g1 g1_d1 t0 t1 y0_0_0 y0_0_1 dW_0_0 dW_0_1 ∧
    GenF.milstein_s_diagonal_22__renamed_all_y1_0_1 f0 f1 g0 g0_d1 g1 g1_d1 t0 t1 y0_0_0 y0_0_1 dW_0_0 dW_0_1 = GenF.milstein_s_diagonal_22_y1_0_1 f0 f1 g0 g0_d1 g1 g1_d1 t0 t1 y0_0_0 y0_0_1 dW_0_0 dW_0_1 :=
  ⟨rfl, rfl⟩

theorem milstein_s_diagonal_22__renamed_all_field {K : Type} [Field K] [LinearOrder K] (f0 : K → K → K → K) (f1 : K → K → K → K) (g0 : K → K → K) (g0_d1 : K → K → K) (g1 : K → K → K) (g1_d1 : K → K → K) (t0 t1 y0_0_0 y0_0_1 dW_0_0 dW_0_1 : K) :
    Gen.milstein_s_diagonal_22__renamed_all_y1_0_0 f0 f1 g0 g0_d1 g1 g1_d1 t0 t1 y0_0_0 y0_0_1 dW_0_0 dW_0_1 = Gen.milstein_s_diagonal_22_y1_0_0 f0 f1 g0 g0_d1 g1 g1_d1 t0 t1 y0_0_0 y0_0_1 dW_0_0 dW_0_1 ∧
    Gen.milstein_s_diagonal_22__renamed_all_y1_0_1 f0 f1 g0 g0_d1 g1 g1_d1 t0 t1 y0_0_0 y0_0_1 dW_0_0 dW_0_1 = Gen.milstein_s_diagonal_22_y1_0_1 f0 f1 g0 g0_d1 g1 g1_d1 t0 t1 y0_0_0 y0_0_1 dW_0_0 dW_0_1 :=
  ⟨rfl, rfl⟩

theorem srk_i_diagonal_22__f_g_gprod_float (f0 : Float → Float → Float → Float) (f1 : Float → Float → Float → Float) (g0 : Float → Float → Float) (g1 : Float → Float → Float) (t0 t1 y0_0_0 y0_0_1 dW_0_0 dW_0_1 U_0_0 U_0_1 : Float) :
    GenF.srk_i_diagonal_22__f_g_gprod_y1_0_0 f0 f1 g0 g1 t0 t1 y0_0_0 y0_0_1 dW_0_0 dW_0_1 U_0_0 U_0_1 = GenF.srk_i_diagonal_22_y1_0_0 f0 f1 g0 g1 t0 t1 y0_0_0 y0_0_1 dW_0_0 dW_0_1 U_0_0 U_0_1 ∧
    GenF.srk_i_diagonal_22__f_g_gprod_y1_0_1 f0 f1 g0 g1 t0 t1 y0_0_0 y0_0_1 dW_0_0 dW_0_1 U_0_0 U_0_1 = GenF.srk_i_diagonal_22_y1_0_1 f0 f1 g0 g1 t0 t1 y0_0_0 y0_0_1 dW_0_0 dW_0_1 U_0_0 U_0_1 :=
  ⟨rfl, rfl⟩

theorem srk_i_diagonal_22__f_g_gprod_field {K : Type} [Field K] [LinearOrder K] (sqrt : K → K) (f0 : K → K → K → K) (f1 : K → K → K → K) (g0 : K → K → K) (g1 : K → K → K) (t0 t1 y0_0_0 y0_0_1 dW_0_0 dW_0_1 U_0_0 U_0_1 : K) :
    Gen.srk_i_diagonal_22__f_g_gprod_y1_0_0 sqrt f0 f1 g0 g1 t0 t1 y0_0_0 y0_0_1 dW_0_0 dW_0_1 U_0_0 U_0_1 = Gen.srk_i_diagonal_22_y1_0_0 sqrt f0 f1 g0 g1 t0 t1 y0_0_0 y0_0_1 dW_0_0 dW_0_1 U_0_0 U_0_1 ∧
    Gen.srk_i_diagonal_22__f_g_gprod_y1_0_1 sqrt f0 f1 g0 g1 t0 t1 y0_0_0 y0_0_1 dW_0_0 dW_0_1 U_0_0 U_0_1 = Gen.srk_i_diagonal_22_y1_0_1 sqrt f0 f1 g0 g1 t0 t1 y0_0_0 y0_0_1 dW_0_0 dW_0_1 U_0_0 U_0_1 :=
  ⟨rfl, rfl⟩

theorem srk_i_diagonal_22__renamed_float (f0 : Float → Float → Float → Float) (f1 : Float → Float → Float → Float) (g0 : Float → Float → Float) (g1 : Float → Float → Float) (t0 t1 y0_0_0 y0_0_1 dW_0_0 dW_0_1 U_0_0 U_0_1 : Float) :
    GenF.srk_i_diagonal_22__renamed_y1_0_0 f0 f1 g0 g1 t0 t1 y0_0_0 y0_0_1 dW_0_0 dW_0_1 U_0_0 U_0_1 = GenF.srk_i_diagonal_22_y1_0_0 f0 f1 g0 g1 t0 t1 y0_0_0 y0_0_1 dW_0_0 dW_0_1 U_0_0 U_0_1 ∧
    GenF.srk_i_diagonal_22__renamed_y1_0_1 f0 f1 g0 g1 t0 t1 y0_0_0 y0_0_1 dW_0_0 dW_0_1 U_0_0 U_0_1 = GenF.srk_i_diagonal_22_y1_0_1 f0 f1 g0 g1 t0 t1 y0_0_0 y0_0_1 dW_0_0 dW_0_1 U_0_0 U_0_1 :=
  ⟨rfl, rfl⟩

theorem srk_i_diagonal_22__renamed_field {K : Type} [Field K] [LinearOrder K] (sqrt : K → K) (f0 : K → K → K → K) (f1 : K → K → K → K) (g0 : K → K → K) (g1 : K → K → K) (t0 t1 y0_0_0 y0_0_1 dW_0_0 dW_0_1 U_0_0 U_0_1 : K) :
    Gen.srk_i_diagonal_22__renamed_y1_0_0 sqrt f0 f1 g0 g1 t0 t1 y0_0_0 y0_0_1 dW_0_0 dW_0_1 U_0_0 U_0_1 = Gen.srk_i_diagonal_22_y1_0_0 sqrt f0 f1 g0 g1 t0 t1 y0_0_0 y0_0_1 dW_0_0 dW_0_1 U_0_0 U_0_1 ∧
    Gen.srk_i_diagonal_22__renamed_y1_0_1 sqrt f0 f1 g0 g1 t0 t1 y0_0_0 y0_0_1 dW_0_0 dW_0_1 U_0_0 U_0_1 = Gen.srk_i_diagonal_22_y1_0_1 sqrt f0 f1 g0 g1 t0 t1 y0_0_0 y0_0_1 dW_0_0 dW_0_1 U_0_0 U_0_1 :=
  ⟨rfl, rfl⟩

theorem srk_i_diagonal_22__renamed_all_float (f0 : Float → Float → Float → Float) (f1 : Float → Float → Float → Float) (g0 : Float → Float → Float) (g1 : Float → Float → Float) (t0 t1 y0_0_0 y0_0_1 dW_0_0 dW_0_1 U_0_0 U_0_1 : Float) :
    GenF.srk_i_diagonal_22__renamed_all_y1_0_0 f0 f1 g0 g1 t0 t1 y0_0_0 y0_0_1 dW_0_0 dW_0_1 U_0_0 U_0_1 = GenF.srk_i_diagonal_22_y1_0_0 f0 f1 g0 g1 t0 t1 y0_0_0 y0_0_1 dW_0_0 dW_0_1 U_0_0 U_0_1 ∧
    GenF.srk_i_diagonal_22__renamed_all_y1_0_1 f0 f1 g0 g1 t0 t1 y0_0_0 y0_0_1 dW_0_0 dW_0_1 U_0_0 U_0_1 = GenF.srk_i_diagonal_22_y1_0_1 f0 f1 g0 g1 t0 t1 y0_0_0 y0_0_1 dW_0_0 dW_0_1 U_0_0 U_0_1 :=
  ⟨rfl, rfl⟩

theorem srk_i_diagonal_22__renamed_all_field {K : Type} [Field K] [LinearOrder K] (sqrt : K → K) (f0 : K → K → K → K) (f1 : K → K → K → K) (g0 : K → K → K) (g1 : K → K → K) (t0 t1 y0_0_0 y0_0_1 dW_0_0 dW_0_1 U_0_0 U_0_1 : K) :
    Gen.srk_i_diagonal_22__renamed_all_y1_0_0 sqrt f0 f1 g0 g1 t0 t1 y0_0_0 y0_0_1 dW_0_0 dW_0_1 U_0_0 U_0_1 = Gen.srk_i_diagonal_22_y1_0_0 sqrt f0 f1 g0 g1 t0 t1 y0_0_0 y0_0_1 dW_0_0 dW_0_1 U_0_0 U_0_1 ∧
    Gen.srk_i_diagonal_22__renamed_all_y1_0_1 sqrt f0 f1 g0 g1 t0 t1 y0_0_0 y0_0_1 dW_0_0 dW_0_1 U_0_0 U_0_1 = Gen.srk_i_diagonal_22_y1_0_1 sqrt f0 f1 g0 g1 t0 t1 y0_0_0 y0_0_1 dW_0_0 dW_0_1 U_0_0 U_0_1 :=
  ⟨rfl, rfl⟩

end C16
