/-
C18 — logqp returns the path-wise KL integrand and does not disturb the solution.

Regenerated from the real `SDELogqp` / `ForwardSDE` / solver classes (one step on the augmented state `(y, ℓ)`); every
evaluation of the log-ratio drift channel `½ |u|²`, `u = g⁺ (f − h)`, is its own generated definition (`…_flq*`).
 * `*_state_unchanged` : the state channels of the augmented step ARE the plain step (the trajectory is undisturbed);
 * `*_flq_nonneg`      : the integrand is a half square;
 * `*_incr_nonneg`     : the increment of ℓ over a step is `dt ·` (non-negative combination of integrand values) — the
                          solver's own quadrature with its non-negative weights — hence ≥ 0 for `dt ≥ 0`;
 * `*_const_exact`     : if `f − h = g c` with `|g| > 1e-7` the increment is exactly `½ c² dt` (weights sum to one);
 * `logqp_additive`    : `parse_return` reports consecutive differences of ℓ: they telescope.
Diagonal noise d = 1 (stable_division) and scalar noise d = 2, m = 1 (pseudo-inverse `gᵀ/(gᵀg)`, traced through a closed
form validated against torch.pinverse on every run).
-/
import Tsv.Gen.Logqp
import Tsv.Gen.Steps
import Mathlib.Tactic.Ring
import Mathlib.Tactic.FieldSimp
import Mathlib.Tactic.Positivity
import Mathlib.Tactic.Linarith
import Mathlib.Algebra.Order.Field.Basic

namespace C18
set_option linter.unusedSectionVars false
set_option linter.unusedVariables false
variable {K : Type} [Field K] [LinearOrder K] [IsStrictOrderedRing K]

theorem euler_i_diagonal_state_unchanged (sgn : K → K) (f : K → K → K) (g : K → K → K) (h : K → K → K) (t0 t1 y0_0_0 l0_0_0 dW_0_0 dW_0_1 : K) :
    Gen.logqp_euler_i_diagonal_11_y1_0_0 sgn f g h t0 t1 y0_0_0 l0_0_0 dW_0_0 dW_0_1 = Gen.euler_i_diagonal_11_y1_0_0 f g t0 t1 y0_0_0 dW_0_0 := by
  simp only [Gen.logqp_euler_i_diagonal_11_y1_0_0, Gen.euler_i_diagonal_11_y1_0_0] <;> ring

theorem logqp_euler_i_diagonal_11_flq_nonneg (sgn : K → K) (f : K → K → K) (g : K → K → K) (h : K → K → K) (t0 t1 y0_0_0 l0_0_0 dW_0_0 dW_0_1 : K) : 0 ≤ Gen.logqp_euler_i_diagonal_11_flq sgn f g h t0 t1 y0_0_0 l0_0_0 dW_0_0 dW_0_1 := by
  simp only [Gen.logqp_euler_i_diagonal_11_flq]; positivity

theorem euler_i_diagonal_incr_nonneg (sgn : K → K) (f : K → K → K) (g : K → K → K) (h : K → K → K) (t0 dt y0_0_0 l0_0_0 dW_0_0 dW_0_1 : K) (hdt : 0 ≤ dt) :
    0 ≤ Gen.logqp_euler_i_diagonal_11_y1_0_1 sgn f g h t0 (t0 + dt) y0_0_0 l0_0_0 dW_0_0 dW_0_1 - l0_0_0 := by
  have hq0 := logqp_euler_i_diagonal_11_flq_nonneg sgn f g h t0 (t0 + dt) y0_0_0 l0_0_0 dW_0_0 dW_0_1
  simp only [Gen.logqp_euler_i_diagonal_11_y1_0_1]
  generalize Gen.logqp_euler_i_diagonal_11_flq sgn f g h t0 (t0 + dt) y0_0_0 l0_0_0 dW_0_0 dW_0_1 = q0 at hq0 ⊢
  ring_nf
  positivity

theorem euler_i_scalar_state_unchanged  (f0 : K → K → K → K) (f1 : K → K → K → K) (g00 : K → K → K → K) (g10 : K → K → K → K) (h0 : K → K → K → K) (h1 : K → K → K → K) (t0 t1 y0_0_0 y0_0_1 l0_0_0 dW_0_0 : K) :
    Gen.logqp_euler_i_scalar_21_y1_0_0 f0 f1 g00 g10 h0 h1 t0 t1 y0_0_0 y0_0_1 l0_0_0 dW_0_0 = Gen.euler_i_scalar_21_y1_0_0 f0 f1 g00 g10 t0 t1 y0_0_0 y0_0_1 dW_0_0 ∧
    Gen.logqp_euler_i_scalar_21_y1_0_1 f0 f1 g00 g10 h0 h1 t0 t1 y0_0_0 y0_0_1 l0_0_0 dW_0_0 = Gen.euler_i_scalar_21_y1_0_1 f0 f1 g00 g10 t0 t1 y0_0_0 y0_0_1 dW_0_0 := by
  refine ⟨?_, ?_⟩ <;> simp only [Gen.logqp_euler_i_scalar_21_y1_0_0, Gen.logqp_euler_i_scalar_21_y1_0_1, Gen.euler_i_scalar_21_y1_0_0, Gen.euler_i_scalar_21_y1_0_1] <;> ring

theorem logqp_euler_i_scalar_21_flq_nonneg  (f0 : K → K → K → K) (f1 : K → K → K → K) (g00 : K → K → K → K) (g10 : K → K → K → K) (h0 : K → K → K → K) (h1 : K → K → K → K) (t0 t1 y0_0_0 y0_0_1 l0_0_0 dW_0_0 : K) : 0 ≤ Gen.logqp_euler_i_scalar_21_flq f0 f1 g00 g10 h0 h1 t0 t1 y0_0_0 y0_0_1 l0_0_0 dW_0_0 := by
  simp only [Gen.logqp_euler_i_scalar_21_flq]; positivity

theorem euler_i_scalar_incr_nonneg  (f0 : K → K → K → K) (f1 : K → K → K → K) (g00 : K → K → K → K) (g10 : K → K → K → K) (h0 : K → K → K → K) (h1 : K → K → K → K) (t0 dt y0_0_0 y0_0_1 l0_0_0 dW_0_0 : K) (hdt : 0 ≤ dt) :
    0 ≤ Gen.logqp_euler_i_scalar_21_y1_0_2 f0 f1 g00 g10 h0 h1 t0 (t0 + dt) y0_0_0 y0_0_1 l0_0_0 dW_0_0 - l0_0_0 := by
  have hq0 := logqp_euler_i_scalar_21_flq_nonneg f0 f1 g00 g10 h0 h1 t0 (t0 + dt) y0_0_0 y0_0_1 l0_0_0 dW_0_0
  simp only [Gen.logqp_euler_i_scalar_21_y1_0_2]
  generalize Gen.logqp_euler_i_scalar_21_flq f0 f1 g00 g10 h0 h1 t0 (t0 + dt) y0_0_0 y0_0_1 l0_0_0 dW_0_0 = q0 at hq0 ⊢
  ring_nf
  positivity

theorem milstein_i_diagonal_state_unchanged (sgn : K → K) (f : K → K → K) (g : K → K → K) (g_d1 : K → K → K) (h : K → K → K) (t0 t1 y0_0_0 l0_0_0 dW_0_0 dW_0_1 : K) :
    Gen.logqp_milstein_i_diagonal_11_y1_0_0 sgn f g g_d1 h t0 t1 y0_0_0 l0_0_0 dW_0_0 dW_0_1 = Gen.milstein_i_diagonal_11_y1_0_0 f g g_d1 t0 t1 y0_0_0 dW_0_0 := by
  simp only [Gen.logqp_milstein_i_diagonal_11_y1_0_0, Gen.milstein_i_diagonal_11_y1_0_0] <;> ring

theorem logqp_milstein_i_diagonal_11_flq_nonneg (sgn : K → K) (f : K → K → K) (g : K → K → K) (g_d1 : K → K → K) (h : K → K → K) (t0 t1 y0_0_0 l0_0_0 dW_0_0 dW_0_1 : K) : 0 ≤ Gen.logqp_milstein_i_diagonal_11_flq sgn f g g_d1 h t0 t1 y0_0_0 l0_0_0 dW_0_0 dW_0_1 := by
  simp only [Gen.logqp_milstein_i_diagonal_11_flq]; positivity

theorem milstein_i_diagonal_incr_nonneg (sgn : K → K) (f : K → K → K) (g : K → K → K) (g_d1 : K → K → K) (h : K → K → K) (t0 dt y0_0_0 l0_0_0 dW_0_0 dW_0_1 : K) (hdt : 0 ≤ dt) :
    0 ≤ Gen.logqp_milstein_i_diagonal_11_y1_0_1 sgn f g g_d1 h t0 (t0 + dt) y0_0_0 l0_0_0 dW_0_0 dW_0_1 - l0_0_0 := by
  have hq0 := logqp_milstein_i_diagonal_11_flq_nonneg sgn f g g_d1 h t0 (t0 + dt) y0_0_0 l0_0_0 dW_0_0 dW_0_1
  simp only [Gen.logqp_milstein_i_diagonal_11_y1_0_1]
  generalize Gen.logqp_milstein_i_diagonal_11_flq sgn f g g_d1 h t0 (t0 + dt) y0_0_0 l0_0_0 dW_0_0 dW_0_1 = q0 at hq0 ⊢
  ring_nf
  positivity

theorem milstein_i_scalar_state_unchanged  (f0 : K → K → K → K) (f1 : K → K → K → K) (g00 : K → K → K → K) (g00_d1 : K → K → K → K) (g00_d2 : K → K → K → K) (g10 : K → K → K → K) (g10_d1 : K → K → K → K) (g10_d2 : K → K → K → K) (h0 : K → K → K → K) (h1 : K → K → K → K) (t0 t1 y0_0_0 y0_0_1 l0_0_0 dW_0_0 : K) :
    Gen.logqp_milstein_i_scalar_21_y1_0_0 f0 f1 g00 g00_d1 g00_d2 g10 g10_d1 g10_d2 h0 h1 t0 t1 y0_0_0 y0_0_1 l0_0_0 dW_0_0 = Gen.milstein_i_scalar_21_y1_0_0 f0 f1 g00 g00_d1 g00_d2 g10 g10_d1 g10_d2 t0 t1 y0_0_0 y0_0_1 dW_0_0 ∧
    Gen.logqp_milstein_i_scalar_21_y1_0_1 f0 f1 g00 g00_d1 g00_d2 g10 g10_d1 g10_d2 h0 h1 t0 t1 y0_0_0 y0_0_1 l0_0_0 dW_0_0 = Gen.milstein_i_scalar_21_y1_0_1 f0 f1 g00 g00_d1 g00_d2 g10 g10_d1 g10_d2 t0 t1 y0_0_0 y0_0_1 dW_0_0 := by
  refine ⟨?_, ?_⟩ <;> simp only [Gen.logqp_milstein_i_scalar_21_y1_0_0, Gen.logqp_milstein_i_scalar_21_y1_0_1, Gen.milstein_i_scalar_21_y1_0_0, Gen.milstein_i_scalar_21_y1_0_1] <;> ring

theorem logqp_milstein_i_scalar_21_flq_nonneg  (f0 : K → K → K → K) (f1 : K → K → K → K) (g00 : K → K → K → K) (g00_d1 : K → K → K → K) (g00_d2 : K → K → K → K) (g10 : K → K → K → K) (g10_d1 : K → K → K → K) (g10_d2 : K → K → K → K) (h0 : K → K → K → K) (h1 : K → K → K → K) (t0 t1 y0_0_0 y0_0_1 l0_0_0 dW_0_0 : K) : 0 ≤ Gen.logqp_milstein_i_scalar_21_flq f0 f1 g00 g00_d1 g00_d2 g10 g10_d1 g10_d2 h0 h1 t0 t1 y0_0_0 y0_0_1 l0_0_0 dW_0_0 := by
  simp only [Gen.logqp_milstein_i_scalar_21_flq]; positivity

theorem milstein_i_scalar_incr_nonneg  (f0 : K → K → K → K) (f1 : K → K → K → K) (g00 : K → K → K → K) (g00_d1 : K → K → K → K) (g00_d2 : K → K → K → K) (g10 : K → K → K → K) (g10_d1 : K → K → K → K) (g10_d2 : K → K → K → K) (h0 : K → K → K → K) (h1 : K → K → K → K) (t0 dt y0_0_0 y0_0_1 l0_0_0 dW_0_0 : K) (hdt : 0 ≤ dt) :
    0 ≤ Gen.logqp_milstein_i_scalar_21_y1_0_2 f0 f1 g00 g00_d1 g00_d2 g10 g10_d1 g10_d2 h0 h1 t0 (t0 + dt) y0_0_0 y0_0_1 l0_0_0 dW_0_0 - l0_0_0 := by
  have hq0 := logqp_milstein_i_scalar_21_flq_nonneg f0 f1 g00 g00_d1 g00_d2 g10 g10_d1 g10_d2 h0 h1 t0 (t0 + dt) y0_0_0 y0_0_1 l0_0_0 dW_0_0
  simp only [Gen.logqp_milstein_i_scalar_21_y1_0_2]
  generalize Gen.logqp_milstein_i_scalar_21_flq f0 f1 g00 g00_d1 g00_d2 g10 g10_d1 g10_d2 h0 h1 t0 (t0 + dt) y0_0_0 y0_0_1 l0_0_0 dW_0_0 = q0 at hq0 ⊢
  ring_nf
  positivity

theorem srk_i_diagonal_state_unchanged (sqrt : K → K) (sgn : K → K) (f : K → K → K) (g : K → K → K) (h : K → K → K) (t0 t1 y0_0_0 l0_0_0 dW_0_0 dW_0_1 U_0_0 U_0_1 : K) :
    Gen.logqp_srk_i_diagonal_11_y1_0_0 sqrt sgn f g h t0 t1 y0_0_0 l0_0_0 dW_0_0 dW_0_1 U_0_0 U_0_1 = Gen.srk_i_diagonal_11_y1_0_0 sqrt f g t0 t1 y0_0_0 dW_0_0 U_0_0 := by
  simp only [Gen.logqp_srk_i_diagonal_11_y1_0_0, Gen.srk_i_diagonal_11_y1_0_0] <;> ring

theorem logqp_srk_i_diagonal_11_flq_nonneg (sqrt : K → K) (sgn : K → K) (f : K → K → K) (g : K → K → K) (h : K → K → K) (t0 t1 y0_0_0 l0_0_0 dW_0_0 dW_0_1 U_0_0 U_0_1 : K) : 0 ≤ Gen.logqp_srk_i_diagonal_11_flq sqrt sgn f g h t0 t1 y0_0_0 l0_0_0 dW_0_0 dW_0_1 U_0_0 U_0_1 := by
  simp only [Gen.logqp_srk_i_diagonal_11_flq]; positivity

theorem logqp_srk_i_diagonal_11_flq_1_nonneg (sqrt : K → K) (sgn : K → K) (f : K → K → K) (g : K → K → K) (h : K → K → K) (t0 t1 y0_0_0 l0_0_0 dW_0_0 dW_0_1 U_0_0 U_0_1 : K) : 0 ≤ Gen.logqp_srk_i_diagonal_11_flq_1 sqrt sgn f g h t0 t1 y0_0_0 l0_0_0 dW_0_0 dW_0_1 U_0_0 U_0_1 := by
  simp only [Gen.logqp_srk_i_diagonal_11_flq_1]; positivity

theorem logqp_srk_i_diagonal_11_flq_2_nonneg (sqrt : K → K) (sgn : K → K) (f : K → K → K) (g : K → K → K) (h : K → K → K) (t0 t1 y0_0_0 l0_0_0 dW_0_0 dW_0_1 U_0_0 U_0_1 : K) : 0 ≤ Gen.logqp_srk_i_diagonal_11_flq_2 sqrt sgn f g h t0 t1 y0_0_0 l0_0_0 dW_0_0 dW_0_1 U_0_0 U_0_1 := by
  simp only [Gen.logqp_srk_i_diagonal_11_flq_2]; positivity

theorem logqp_srk_i_diagonal_11_flq_3_nonneg (sqrt : K → K) (sgn : K → K) (f : K → K → K) (g : K → K → K) (h : K → K → K) (t0 t1 y0_0_0 l0_0_0 dW_0_0 dW_0_1 U_0_0 U_0_1 : K) : 0 ≤ Gen.logqp_srk_i_diagonal_11_flq_3 sqrt sgn f g h t0 t1 y0_0_0 l0_0_0 dW_0_0 dW_0_1 U_0_0 U_0_1 := by
  simp only [Gen.logqp_srk_i_diagonal_11_flq_3]; positivity

theorem srk_i_diagonal_incr_nonneg (sqrt : K → K) (sgn : K → K) (f : K → K → K) (g : K → K → K) (h : K → K → K) (t0 dt y0_0_0 l0_0_0 dW_0_0 dW_0_1 U_0_0 U_0_1 : K) (hdt : 0 ≤ dt) :
    0 ≤ Gen.logqp_srk_i_diagonal_11_y1_0_1 sqrt sgn f g h t0 (t0 + dt) y0_0_0 l0_0_0 dW_0_0 dW_0_1 U_0_0 U_0_1 - l0_0_0 := by
  have hq0 := logqp_srk_i_diagonal_11_flq_nonneg sqrt sgn f g h t0 (t0 + dt) y0_0_0 l0_0_0 dW_0_0 dW_0_1 U_0_0 U_0_1
  have hq1 := logqp_srk_i_diagonal_11_flq_1_nonneg sqrt sgn f g h t0 (t0 + dt) y0_0_0 l0_0_0 dW_0_0 dW_0_1 U_0_0 U_0_1
  have hq2 := logqp_srk_i_diagonal_11_flq_2_nonneg sqrt sgn f g h t0 (t0 + dt) y0_0_0 l0_0_0 dW_0_0 dW_0_1 U_0_0 U_0_1
  have hq3 := logqp_srk_i_diagonal_11_flq_3_nonneg sqrt sgn f g h t0 (t0 + dt) y0_0_0 l0_0_0 dW_0_0 dW_0_1 U_0_0 U_0_1
  simp only [Gen.logqp_srk_i_diagonal_11_y1_0_1]
  generalize Gen.logqp_srk_i_diagonal_11_flq sqrt sgn f g h t0 (t0 + dt) y0_0_0 l0_0_0 dW_0_0 dW_0_1 U_0_0 U_0_1 = q0 at hq0 ⊢
  generalize Gen.logqp_srk_i_diagonal_11_flq_1 sqrt sgn f g h t0 (t0 + dt) y0_0_0 l0_0_0 dW_0_0 dW_0_1 U_0_0 U_0_1 = q1 at hq1 ⊢
  generalize Gen.logqp_srk_i_diagonal_11_flq_2 sqrt sgn f g h t0 (t0 + dt) y0_0_0 l0_0_0 dW_0_0 dW_0_1 U_0_0 U_0_1 = q2 at hq2 ⊢
  generalize Gen.logqp_srk_i_diagonal_11_flq_3 sqrt sgn f g h t0 (t0 + dt) y0_0_0 l0_0_0 dW_0_0 dW_0_1 U_0_0 U_0_1 = q3 at hq3 ⊢
  ring_nf
  positivity

theorem srk_i_scalar_state_unchanged (sqrt : K → K) (f0 : K → K → K → K) (f1 : K → K → K → K) (g00 : K → K → K → K) (g10 : K → K → K → K) (h0 : K → K → K → K) (h1 : K → K → K → K) (t0 t1 y0_0_0 y0_0_1 l0_0_0 dW_0_0 U_0_0 : K) :
    Gen.logqp_srk_i_scalar_21_y1_0_0 sqrt f0 f1 g00 g10 h0 h1 t0 t1 y0_0_0 y0_0_1 l0_0_0 dW_0_0 U_0_0 = Gen.srk_i_scalar_21_y1_0_0 sqrt f0 f1 g00 g10 t0 t1 y0_0_0 y0_0_1 dW_0_0 U_0_0 ∧
    Gen.logqp_srk_i_scalar_21_y1_0_1 sqrt f0 f1 g00 g10 h0 h1 t0 t1 y0_0_0 y0_0_1 l0_0_0 dW_0_0 U_0_0 = Gen.srk_i_scalar_21_y1_0_1 sqrt f0 f1 g00 g10 t0 t1 y0_0_0 y0_0_1 dW_0_0 U_0_0 := by
  refine ⟨?_, ?_⟩ <;> simp only [Gen.logqp_srk_i_scalar_21_y1_0_0, Gen.logqp_srk_i_scalar_21_y1_0_1, Gen.srk_i_scalar_21_y1_0_0, Gen.srk_i_scalar_21_y1_0_1] <;> ring

theorem logqp_srk_i_scalar_21_flq_nonneg (sqrt : K → K) (f0 : K → K → K → K) (f1 : K → K → K → K) (g00 : K → K → K → K) (g10 : K → K → K → K) (h0 : K → K → K → K) (h1 : K → K → K → K) (t0 t1 y0_0_0 y0_0_1 l0_0_0 dW_0_0 U_0_0 : K) : 0 ≤ Gen.logqp_srk_i_scalar_21_flq sqrt f0 f1 g00 g10 h0 h1 t0 t1 y0_0_0 y0_0_1 l0_0_0 dW_0_0 U_0_0 := by
  simp only [Gen.logqp_srk_i_scalar_21_flq]; positivity

theorem logqp_srk_i_scalar_21_flq_1_nonneg (sqrt : K → K) (f0 : K → K → K → K) (f1 : K → K → K → K) (g00 : K → K → K → K) (g10 : K → K → K → K) (h0 : K → K → K → K) (h1 : K → K → K → K) (t0 t1 y0_0_0 y0_0_1 l0_0_0 dW_0_0 U_0_0 : K) : 0 ≤ Gen.logqp_srk_i_scalar_21_flq_1 sqrt f0 f1 g00 g10 h0 h1 t0 t1 y0_0_0 y0_0_1 l0_0_0 dW_0_0 U_0_0 := by
  simp only [Gen.logqp_srk_i_scalar_21_flq_1]; positivity

theorem logqp_srk_i_scalar_21_flq_2_nonneg (sqrt : K → K) (f0 : K → K → K → K) (f1 : K → K → K → K) (g00 : K → K → K → K) (g10 : K → K → K → K) (h0 : K → K → K → K) (h1 : K → K → K → K) (t0 t1 y0_0_0 y0_0_1 l0_0_0 dW_0_0 U_0_0 : K) : 0 ≤ Gen.logqp_srk_i_scalar_21_flq_2 sqrt f0 f1 g00 g10 h0 h1 t0 t1 y0_0_0 y0_0_1 l0_0_0 dW_0_0 U_0_0 := by
  simp only [Gen.logqp_srk_i_scalar_21_flq_2]; positivity

theorem logqp_srk_i_scalar_21_flq_3_nonneg (sqrt : K → K) (f0 : K → K → K → K) (f1 : K → K → K → K) (g00 : K → K → K → K) (g10 : K → K → K → K) (h0 : K → K → K → K) (h1 : K → K → K → K) (t0 t1 y0_0_0 y0_0_1 l0_0_0 dW_0_0 U_0_0 : K) : 0 ≤ Gen.logqp_srk_i_scalar_21_flq_3 sqrt f0 f1 g00 g10 h0 h1 t0 t1 y0_0_0 y0_0_1 l0_0_0 dW_0_0 U_0_0 := by
  simp only [Gen.logqp_srk_i_scalar_21_flq_3]; positivity

theorem srk_i_scalar_incr_nonneg (sqrt : K → K) (f0 : K → K → K → K) (f1 : K → K → K → K) (g00 : K → K → K → K) (g10 : K → K → K → K) (h0 : K → K → K → K) (h1 : K → K → K → K) (t0 dt y0_0_0 y0_0_1 l0_0_0 dW_0_0 U_0_0 : K) (hdt : 0 ≤ dt) :
    0 ≤ Gen.logqp_srk_i_scalar_21_y1_0_2 sqrt f0 f1 g00 g10 h0 h1 t0 (t0 + dt) y0_0_0 y0_0_1 l0_0_0 dW_0_0 U_0_0 - l0_0_0 := by
  have hq0 := logqp_srk_i_scalar_21_flq_nonneg sqrt f0 f1 g00 g10 h0 h1 t0 (t0 + dt) y0_0_0 y0_0_1 l0_0_0 dW_0_0 U_0_0
  have hq1 := logqp_srk_i_scalar_21_flq_1_nonneg sqrt f0 f1 g00 g10 h0 h1 t0 (t0 + dt) y0_0_0 y0_0_1 l0_0_0 dW_0_0 U_0_0
  have hq2 := logqp_srk_i_scalar_21_flq_2_nonneg sqrt f0 f1 g00 g10 h0 h1 t0 (t0 + dt) y0_0_0 y0_0_1 l0_0_0 dW_0_0 U_0_0
  have hq3 := logqp_srk_i_scalar_21_flq_3_nonneg sqrt f0 f1 g00 g10 h0 h1 t0 (t0 + dt) y0_0_0 y0_0_1 l0_0_0 dW_0_0 U_0_0
  simp only [Gen.logqp_srk_i_scalar_21_y1_0_2]
  generalize Gen.logqp_srk_i_scalar_21_flq sqrt f0 f1 g00 g10 h0 h1 t0 (t0 + dt) y0_0_0 y0_0_1 l0_0_0 dW_0_0 U_0_0 = q0 at hq0 ⊢
  generalize Gen.logqp_srk_i_scalar_21_flq_1 sqrt f0 f1 g00 g10 h0 h1 t0 (t0 + dt) y0_0_0 y0_0_1 l0_0_0 dW_0_0 U_0_0 = q1 at hq1 ⊢
  generalize Gen.logqp_srk_i_scalar_21_flq_2 sqrt f0 f1 g00 g10 h0 h1 t0 (t0 + dt) y0_0_0 y0_0_1 l0_0_0 dW_0_0 U_0_0 = q2 at hq2 ⊢
  generalize Gen.logqp_srk_i_scalar_21_flq_3 sqrt f0 f1 g00 g10 h0 h1 t0 (t0 + dt) y0_0_0 y0_0_1 l0_0_0 dW_0_0 U_0_0 = q3 at hq3 ⊢
  ring_nf
  positivity

theorem midpoint_s_diagonal_state_unchanged (sgn : K → K) (f : K → K → K) (g : K → K → K) (h : K → K → K) (t0 t1 y0_0_0 l0_0_0 dW_0_0 dW_0_1 : K) :
    Gen.logqp_midpoint_s_diagonal_11_y1_0_0 sgn f g h t0 t1 y0_0_0 l0_0_0 dW_0_0 dW_0_1 = Gen.midpoint_s_diagonal_11_y1_0_0 f g t0 t1 y0_0_0 dW_0_0 := by
  simp only [Gen.logqp_midpoint_s_diagonal_11_y1_0_0, Gen.midpoint_s_diagonal_11_y1_0_0] <;> ring

theorem logqp_midpoint_s_diagonal_11_flq_nonneg (sgn : K → K) (f : K → K → K) (g : K → K → K) (h : K → K → K) (t0 t1 y0_0_0 l0_0_0 dW_0_0 dW_0_1 : K) : 0 ≤ Gen.logqp_midpoint_s_diagonal_11_flq sgn f g h t0 t1 y0_0_0 l0_0_0 dW_0_0 dW_0_1 := by
  simp only [Gen.logqp_midpoint_s_diagonal_11_flq]; positivity

theorem midpoint_s_diagonal_incr_nonneg (sgn : K → K) (f : K → K → K) (g : K → K → K) (h : K → K → K) (t0 dt y0_0_0 l0_0_0 dW_0_0 dW_0_1 : K) (hdt : 0 ≤ dt) :
    0 ≤ Gen.logqp_midpoint_s_diagonal_11_y1_0_1 sgn f g h t0 (t0 + dt) y0_0_0 l0_0_0 dW_0_0 dW_0_1 - l0_0_0 := by
  have hq0 := logqp_midpoint_s_diagonal_11_flq_nonneg sgn f g h t0 (t0 + dt) y0_0_0 l0_0_0 dW_0_0 dW_0_1
  simp only [Gen.logqp_midpoint_s_diagonal_11_y1_0_1]
  generalize Gen.logqp_midpoint_s_diagonal_11_flq sgn f g h t0 (t0 + dt) y0_0_0 l0_0_0 dW_0_0 dW_0_1 = q0 at hq0 ⊢
  ring_nf
  positivity

theorem midpoint_s_scalar_state_unchanged  (f0 : K → K → K → K) (f1 : K → K → K → K) (g00 : K → K → K → K) (g10 : K → K → K → K) (h0 : K → K → K → K) (h1 : K → K → K → K) (t0 t1 y0_0_0 y0_0_1 l0_0_0 dW_0_0 : K) :
    Gen.logqp_midpoint_s_scalar_21_y1_0_0 f0 f1 g00 g10 h0 h1 t0 t1 y0_0_0 y0_0_1 l0_0_0 dW_0_0 = Gen.midpoint_s_scalar_21_y1_0_0 f0 f1 g00 g10 t0 t1 y0_0_0 y0_0_1 dW_0_0 ∧
    Gen.logqp_midpoint_s_scalar_21_y1_0_1 f0 f1 g00 g10 h0 h1 t0 t1 y0_0_0 y0_0_1 l0_0_0 dW_0_0 = Gen.midpoint_s_scalar_21_y1_0_1 f0 f1 g00 g10 t0 t1 y0_0_0 y0_0_1 dW_0_0 := by
  refine ⟨?_, ?_⟩ <;> simp only [Gen.logqp_midpoint_s_scalar_21_y1_0_0, Gen.logqp_midpoint_s_scalar_21_y1_0_1, Gen.midpoint_s_scalar_21_y1_0_0, Gen.midpoint_s_scalar_21_y1_0_1] <;> ring

theorem logqp_midpoint_s_scalar_21_flq_nonneg  (f0 : K → K → K → K) (f1 : K → K → K → K) (g00 : K → K → K → K) (g10 : K → K → K → K) (h0 : K → K → K → K) (h1 : K → K → K → K) (t0 t1 y0_0_0 y0_0_1 l0_0_0 dW_0_0 : K) : 0 ≤ Gen.logqp_midpoint_s_scalar_21_flq f0 f1 g00 g10 h0 h1 t0 t1 y0_0_0 y0_0_1 l0_0_0 dW_0_0 := by
  simp only [Gen.logqp_midpoint_s_scalar_21_flq]; positivity

theorem midpoint_s_scalar_incr_nonneg  (f0 : K → K → K → K) (f1 : K → K → K → K) (g00 : K → K → K → K) (g10 : K → K → K → K) (h0 : K → K → K → K) (h1 : K → K → K → K) (t0 dt y0_0_0 y0_0_1 l0_0_0 dW_0_0 : K) (hdt : 0 ≤ dt) :
    0 ≤ Gen.logqp_midpoint_s_scalar_21_y1_0_2 f0 f1 g00 g10 h0 h1 t0 (t0 + dt) y0_0_0 y0_0_1 l0_0_0 dW_0_0 - l0_0_0 := by
  have hq0 := logqp_midpoint_s_scalar_21_flq_nonneg f0 f1 g00 g10 h0 h1 t0 (t0 + dt) y0_0_0 y0_0_1 l0_0_0 dW_0_0
  simp only [Gen.logqp_midpoint_s_scalar_21_y1_0_2]
  generalize Gen.logqp_midpoint_s_scalar_21_flq f0 f1 g00 g10 h0 h1 t0 (t0 + dt) y0_0_0 y0_0_1 l0_0_0 dW_0_0 = q0 at hq0 ⊢
  ring_nf
  positivity

theorem heun_s_diagonal_state_unchanged (sgn : K → K) (f : K → K → K) (g : K → K → K) (h : K → K → K) (t0 t1 y0_0_0 l0_0_0 dW_0_0 dW_0_1 : K) :
    Gen.logqp_heun_s_diagonal_11_y1_0_0 sgn f g h t0 t1 y0_0_0 l0_0_0 dW_0_0 dW_0_1 = Gen.heun_s_diagonal_11_y1_0_0 f g t0 t1 y0_0_0 dW_0_0 := by
  simp only [Gen.logqp_heun_s_diagonal_11_y1_0_0, Gen.heun_s_diagonal_11_y1_0_0] <;> ring

theorem logqp_heun_s_diagonal_11_flq_nonneg (sgn : K → K) (f : K → K → K) (g : K → K → K) (h : K → K → K) (t0 t1 y0_0_0 l0_0_0 dW_0_0 dW_0_1 : K) : 0 ≤ Gen.logqp_heun_s_diagonal_11_flq sgn f g h t0 t1 y0_0_0 l0_0_0 dW_0_0 dW_0_1 := by
  simp only [Gen.logqp_heun_s_diagonal_11_flq]; positivity

theorem logqp_heun_s_diagonal_11_flq_1_nonneg (sgn : K → K) (f : K → K → K) (g : K → K → K) (h : K → K → K) (t0 t1 y0_0_0 l0_0_0 dW_0_0 dW_0_1 : K) : 0 ≤ Gen.logqp_heun_s_diagonal_11_flq_1 sgn f g h t0 t1 y0_0_0 l0_0_0 dW_0_0 dW_0_1 := by
  simp only [Gen.logqp_heun_s_diagonal_11_flq_1]; positivity

theorem heun_s_diagonal_incr_nonneg (sgn : K → K) (f : K → K → K) (g : K → K → K) (h : K → K → K) (t0 dt y0_0_0 l0_0_0 dW_0_0 dW_0_1 : K) (hdt : 0 ≤ dt) :
    0 ≤ Gen.logqp_heun_s_diagonal_11_y1_0_1 sgn f g h t0 (t0 + dt) y0_0_0 l0_0_0 dW_0_0 dW_0_1 - l0_0_0 := by
  have hq0 := logqp_heun_s_diagonal_11_flq_nonneg sgn f g h t0 (t0 + dt) y0_0_0 l0_0_0 dW_0_0 dW_0_1
  have hq1 := logqp_heun_s_diagonal_11_flq_1_nonneg sgn f g h t0 (t0 + dt) y0_0_0 l0_0_0 dW_0_0 dW_0_1
  simp only [Gen.logqp_heun_s_diagonal_11_y1_0_1]
  generalize Gen.logqp_heun_s_diagonal_11_flq sgn f g h t0 (t0 + dt) y0_0_0 l0_0_0 dW_0_0 dW_0_1 = q0 at hq0 ⊢
  generalize Gen.logqp_heun_s_diagonal_11_flq_1 sgn f g h t0 (t0 + dt) y0_0_0 l0_0_0 dW_0_0 dW_0_1 = q1 at hq1 ⊢
  ring_nf
  positivity

theorem heun_s_scalar_state_unchanged  (f0 : K → K → K → K) (f1 : K → K → K → K) (g00 : K → K → K → K) (g10 : K → K → K → K) (h0 : K → K → K → K) (h1 : K → K → K → K) (t0 t1 y0_0_0 y0_0_1 l0_0_0 dW_0_0 : K) :
    Gen.logqp_heun_s_scalar_21_y1_0_0 f0 f1 g00 g10 h0 h1 t0 t1 y0_0_0 y0_0_1 l0_0_0 dW_0_0 = Gen.heun_s_scalar_21_y1_0_0 f0 f1 g00 g10 t0 t1 y0_0_0 y0_0_1 dW_0_0 ∧
    Gen.logqp_heun_s_scalar_21_y1_0_1 f0 f1 g00 g10 h0 h1 t0 t1 y0_0_0 y0_0_1 l0_0_0 dW_0_0 = Gen.heun_s_scalar_21_y1_0_1 f0 f1 g00 g10 t0 t1 y0_0_0 y0_0_1 dW_0_0 := by
  refine ⟨?_, ?_⟩ <;> simp only [Gen.logqp_heun_s_scalar_21_y1_0_0, Gen.logqp_heun_s_scalar_21_y1_0_1, Gen.heun_s_scalar_21_y1_0_0, Gen.heun_s_scalar_21_y1_0_1] <;> ring

theorem logqp_heun_s_scalar_21_flq_nonneg  (f0 : K → K → K → K) (f1 : K → K → K → K) (g00 : K → K → K → K) (g10 : K → K → K → K) (h0 : K → K → K → K) (h1 : K → K → K → K) (t0 t1 y0_0_0 y0_0_1 l0_0_0 dW_0_0 : K) : 0 ≤ Gen.logqp_heun_s_scalar_21_flq f0 f1 g00 g10 h0 h1 t0 t1 y0_0_0 y0_0_1 l0_0_0 dW_0_0 := by
  simp only [Gen.logqp_heun_s_scalar_21_flq]; positivity

theorem logqp_heun_s_scalar_21_flq_1_nonneg  (f0 : K → K → K → K) (f1 : K → K → K → K) (g00 : K → K → K → K) (g10 : K → K → K → K) (h0 : K → K → K → K) (h1 : K → K → K → K) (t0 t1 y0_0_0 y0_0_1 l0_0_0 dW_0_0 : K) : 0 ≤ Gen.logqp_heun_s_scalar_21_flq_1 f0 f1 g00 g10 h0 h1 t0 t1 y0_0_0 y0_0_1 l0_0_0 dW_0_0 := by
  simp only [Gen.logqp_heun_s_scalar_21_flq_1]; positivity

theorem heun_s_scalar_incr_nonneg  (f0 : K → K → K → K) (f1 : K → K → K → K) (g00 : K → K → K → K) (g10 : K → K → K → K) (h0 : K → K → K → K) (h1 : K → K → K → K) (t0 dt y0_0_0 y0_0_1 l0_0_0 dW_0_0 : K) (hdt : 0 ≤ dt) :
    0 ≤ Gen.logqp_heun_s_scalar_21_y1_0_2 f0 f1 g00 g10 h0 h1 t0 (t0 + dt) y0_0_0 y0_0_1 l0_0_0 dW_0_0 - l0_0_0 := by
  have hq0 := logqp_heun_s_scalar_21_flq_nonneg f0 f1 g00 g10 h0 h1 t0 (t0 + dt) y0_0_0 y0_0_1 l0_0_0 dW_0_0
  have hq1 := logqp_heun_s_scalar_21_flq_1_nonneg f0 f1 g00 g10 h0 h1 t0 (t0 + dt) y0_0_0 y0_0_1 l0_0_0 dW_0_0
  simp only [Gen.logqp_heun_s_scalar_21_y1_0_2]
  generalize Gen.logqp_heun_s_scalar_21_flq f0 f1 g00 g10 h0 h1 t0 (t0 + dt) y0_0_0 y0_0_1 l0_0_0 dW_0_0 = q0 at hq0 ⊢
  generalize Gen.logqp_heun_s_scalar_21_flq_1 f0 f1 g00 g10 h0 h1 t0 (t0 + dt) y0_0_0 y0_0_1 l0_0_0 dW_0_0 = q1 at hq1 ⊢
  ring_nf
  positivity

theorem euler_heun_s_diagonal_state_unchanged (sgn : K → K) (f : K → K → K) (g : K → K → K) (h : K → K → K) (t0 t1 y0_0_0 l0_0_0 dW_0_0 dW_0_1 : K) :
    Gen.logqp_euler_heun_s_diagonal_11_y1_0_0 sgn f g h t0 t1 y0_0_0 l0_0_0 dW_0_0 dW_0_1 = Gen.euler_heun_s_diagonal_11_y1_0_0 f g t0 t1 y0_0_0 dW_0_0 := by
  simp only [Gen.logqp_euler_heun_s_diagonal_11_y1_0_0, Gen.euler_heun_s_diagonal_11_y1_0_0] <;> ring

theorem logqp_euler_heun_s_diagonal_11_flq_nonneg (sgn : K → K) (f : K → K → K) (g : K → K → K) (h : K → K → K) (t0 t1 y0_0_0 l0_0_0 dW_0_0 dW_0_1 : K) : 0 ≤ Gen.logqp_euler_heun_s_diagonal_11_flq sgn f g h t0 t1 y0_0_0 l0_0_0 dW_0_0 dW_0_1 := by
  simp only [Gen.logqp_euler_heun_s_diagonal_11_flq]; positivity

theorem euler_heun_s_diagonal_incr_nonneg (sgn : K → K) (f : K → K → K) (g : K → K → K) (h : K → K → K) (t0 dt y0_0_0 l0_0_0 dW_0_0 dW_0_1 : K) (hdt : 0 ≤ dt) :
    0 ≤ Gen.logqp_euler_heun_s_diagonal_11_y1_0_1 sgn f g h t0 (t0 + dt) y0_0_0 l0_0_0 dW_0_0 dW_0_1 - l0_0_0 := by
  have hq0 := logqp_euler_heun_s_diagonal_11_flq_nonneg sgn f g h t0 (t0 + dt) y0_0_0 l0_0_0 dW_0_0 dW_0_1
  simp only [Gen.logqp_euler_heun_s_diagonal_11_y1_0_1]
  generalize Gen.logqp_euler_heun_s_diagonal_11_flq sgn f g h t0 (t0 + dt) y0_0_0 l0_0_0 dW_0_0 dW_0_1 = q0 at hq0 ⊢
  ring_nf
  positivity

theorem euler_heun_s_scalar_state_unchanged  (f0 : K → K → K → K) (f1 : K → K → K → K) (g00 : K → K → K → K) (g10 : K → K → K → K) (h0 : K → K → K → K) (h1 : K → K → K → K) (t0 t1 y0_0_0 y0_0_1 l0_0_0 dW_0_0 : K) :
    Gen.logqp_euler_heun_s_scalar_21_y1_0_0 f0 f1 g00 g10 h0 h1 t0 t1 y0_0_0 y0_0_1 l0_0_0 dW_0_0 = Gen.euler_heun_s_scalar_21_y1_0_0 f0 f1 g00 g10 t0 t1 y0_0_0 y0_0_1 dW_0_0 ∧
    Gen.logqp_euler_heun_s_scalar_21_y1_0_1 f0 f1 g00 g10 h0 h1 t0 t1 y0_0_0 y0_0_1 l0_0_0 dW_0_0 = Gen.euler_heun_s_scalar_21_y1_0_1 f0 f1 g00 g10 t0 t1 y0_0_0 y0_0_1 dW_0_0 := by
  refine ⟨?_, ?_⟩ <;> simp only [Gen.logqp_euler_heun_s_scalar_21_y1_0_0, Gen.logqp_euler_heun_s_scalar_21_y1_0_1, Gen.euler_heun_s_scalar_21_y1_0_0, Gen.euler_heun_s_scalar_21_y1_0_1] <;> ring

theorem logqp_euler_heun_s_scalar_21_flq_nonneg  (f0 : K → K → K → K) (f1 : K → K → K → K) (g00 : K → K → K → K) (g10 : K → K → K → K) (h0 : K → K → K → K) (h1 : K → K → K → K) (t0 t1 y0_0_0 y0_0_1 l0_0_0 dW_0_0 : K) : 0 ≤ Gen.logqp_euler_heun_s_scalar_21_flq f0 f1 g00 g10 h0 h1 t0 t1 y0_0_0 y0_0_1 l0_0_0 dW_0_0 := by
  simp only [Gen.logqp_euler_heun_s_scalar_21_flq]; positivity

theorem euler_heun_s_scalar_incr_nonneg  (f0 : K → K → K → K) (f1 : K → K → K → K) (g00 : K → K → K → K) (g10 : K → K → K → K) (h0 : K → K → K → K) (h1 : K → K → K → K) (t0 dt y0_0_0 y0_0_1 l0_0_0 dW_0_0 : K) (hdt : 0 ≤ dt) :
    0 ≤ Gen.logqp_euler_heun_s_scalar_21_y1_0_2 f0 f1 g00 g10 h0 h1 t0 (t0 + dt) y0_0_0 y0_0_1 l0_0_0 dW_0_0 - l0_0_0 := by
  have hq0 := logqp_euler_heun_s_scalar_21_flq_nonneg f0 f1 g00 g10 h0 h1 t0 (t0 + dt) y0_0_0 y0_0_1 l0_0_0 dW_0_0
  simp only [Gen.logqp_euler_heun_s_scalar_21_y1_0_2]
  generalize Gen.logqp_euler_heun_s_scalar_21_flq f0 f1 g00 g10 h0 h1 t0 (t0 + dt) y0_0_0 y0_0_1 l0_0_0 dW_0_0 = q0 at hq0 ⊢
  ring_nf
  positivity

theorem milstein_s_diagonal_state_unchanged (sgn : K → K) (f : K → K → K) (g : K → K → K) (g_d1 : K → K → K) (h : K → K → K) (t0 t1 y0_0_0 l0_0_0 dW_0_0 dW_0_1 : K) :
    Gen.logqp_milstein_s_diagonal_11_y1_0_0 sgn f g g_d1 h t0 t1 y0_0_0 l0_0_0 dW_0_0 dW_0_1 = Gen.milstein_s_diagonal_11_y1_0_0 f g g_d1 t0 t1 y0_0_0 dW_0_0 := by
  simp only [Gen.logqp_milstein_s_diagonal_11_y1_0_0, Gen.milstein_s_diagonal_11_y1_0_0] <;> ring

theorem logqp_milstein_s_diagonal_11_flq_nonneg (sgn : K → K) (f : K → K → K) (g : K → K → K) (g_d1 : K → K → K) (h : K → K → K) (t0 t1 y0_0_0 l0_0_0 dW_0_0 dW_0_1 : K) : 0 ≤ Gen.logqp_milstein_s_diagonal_11_flq sgn f g g_d1 h t0 t1 y0_0_0 l0_0_0 dW_0_0 dW_0_1 := by
  simp only [Gen.logqp_milstein_s_diagonal_11_flq]; positivity

theorem milstein_s_diagonal_incr_nonneg (sgn : K → K) (f : K → K → K) (g : K → K → K) (g_d1 : K → K → K) (h : K → K → K) (t0 dt y0_0_0 l0_0_0 dW_0_0 dW_0_1 : K) (hdt : 0 ≤ dt) :
    0 ≤ Gen.logqp_milstein_s_diagonal_11_y1_0_1 sgn f g g_d1 h t0 (t0 + dt) y0_0_0 l0_0_0 dW_0_0 dW_0_1 - l0_0_0 := by
  have hq0 := logqp_milstein_s_diagonal_11_flq_nonneg sgn f g g_d1 h t0 (t0 + dt) y0_0_0 l0_0_0 dW_0_0 dW_0_1
  simp only [Gen.logqp_milstein_s_diagonal_11_y1_0_1]
  generalize Gen.logqp_milstein_s_diagonal_11_flq sgn f g g_d1 h t0 (t0 + dt) y0_0_0 l0_0_0 dW_0_0 dW_0_1 = q0 at hq0 ⊢
  ring_nf
  positivity

theorem milstein_s_scalar_state_unchanged  (f0 : K → K → K → K) (f1 : K → K → K → K) (g00 : K → K → K → K) (g00_d1 : K → K → K → K) (g00_d2 : K → K → K → K) (g10 : K → K → K → K) (g10_d1 : K → K → K → K) (g10_d2 : K → K → K → K) (h0 : K → K → K → K) (h1 : K → K → K → K) (t0 t1 y0_0_0 y0_0_1 l0_0_0 dW_0_0 : K) :
    Gen.logqp_milstein_s_scalar_21_y1_0_0 f0 f1 g00 g00_d1 g00_d2 g10 g10_d1 g10_d2 h0 h1 t0 t1 y0_0_0 y0_0_1 l0_0_0 dW_0_0 = Gen.milstein_s_scalar_21_y1_0_0 f0 f1 g00 g00_d1 g00_d2 g10 g10_d1 g10_d2 t0 t1 y0_0_0 y0_0_1 dW_0_0 ∧
    Gen.logqp_milstein_s_scalar_21_y1_0_1 f0 f1 g00 g00_d1 g00_d2 g10 g10_d1 g10_d2 h0 h1 t0 t1 y0_0_0 y0_0_1 l0_0_0 dW_0_0 = Gen.milstein_s_scalar_21_y1_0_1 f0 f1 g00 g00_d1 g00_d2 g10 g10_d1 g10_d2 t0 t1 y0_0_0 y0_0_1 dW_0_0 := by
  refine ⟨?_, ?_⟩ <;> simp only [Gen.logqp_milstein_s_scalar_21_y1_0_0, Gen.logqp_milstein_s_scalar_21_y1_0_1, Gen.milstein_s_scalar_21_y1_0_0, Gen.milstein_s_scalar_21_y1_0_1] <;> ring

theorem logqp_milstein_s_scalar_21_flq_nonneg  (f0 : K → K → K → K) (f1 : K → K → K → K) (g00 : K → K → K → K) (g00_d1 : K → K → K → K) (g00_d2 : K → K → K → K) (g10 : K → K → K → K) (g10_d1 : K → K → K → K) (g10_d2 : K → K → K → K) (h0 : K → K → K → K) (h1 : K → K → K → K) (t0 t1 y0_0_0 y0_0_1 l0_0_0 dW_0_0 : K) : 0 ≤ Gen.logqp_milstein_s_scalar_21_flq f0 f1 g00 g00_d1 g00_d2 g10 g10_d1 g10_d2 h0 h1 t0 t1 y0_0_0 y0_0_1 l0_0_0 dW_0_0 := by
  simp only [Gen.logqp_milstein_s_scalar_21_flq]; positivity

theorem milstein_s_scalar_incr_nonneg  (f0 : K → K → K → K) (f1 : K → K → K → K) (g00 : K → K → K → K) (g00_d1 : K → K → K → K) (g00_d2 : K → K → K → K) (g10 : K → K → K → K) (g10_d1 : K → K → K → K) (g10_d2 : K → K → K → K) (h0 : K → K → K → K) (h1 : K → K → K → K) (t0 dt y0_0_0 y0_0_1 l0_0_0 dW_0_0 : K) (hdt : 0 ≤ dt) :
    0 ≤ Gen.logqp_milstein_s_scalar_21_y1_0_2 f0 f1 g00 g00_d1 g00_d2 g10 g10_d1 g10_d2 h0 h1 t0 (t0 + dt) y0_0_0 y0_0_1 l0_0_0 dW_0_0 - l0_0_0 := by
  have hq0 := logqp_milstein_s_scalar_21_flq_nonneg f0 f1 g00 g00_d1 g00_d2 g10 g10_d1 g10_d2 h0 h1 t0 (t0 + dt) y0_0_0 y0_0_1 l0_0_0 dW_0_0
  simp only [Gen.logqp_milstein_s_scalar_21_y1_0_2]
  generalize Gen.logqp_milstein_s_scalar_21_flq f0 f1 g00 g00_d1 g00_d2 g10 g10_d1 g10_d2 h0 h1 t0 (t0 + dt) y0_0_0 y0_0_1 l0_0_0 dW_0_0 = q0 at hq0 ⊢
  ring_nf
  positivity

theorem reversible_heun_s_diagonal_state_unchanged (sgn : K → K) (f : K → K → K) (g : K → K → K) (h : K → K → K) (t0 t1 y0_0_0 l0_0_0 dW_0_0 dW_0_1 : K) :
    Gen.logqp_reversible_heun_s_diagonal_11_y1_0_0 sgn f g h t0 t1 y0_0_0 l0_0_0 dW_0_0 dW_0_1 = Gen.reversible_heun_s_diagonal_11_y1_0_0 f g t0 t1 y0_0_0 dW_0_0 y0_0_0 (f t0 y0_0_0) (g t0 y0_0_0) := by
  simp only [Gen.logqp_reversible_heun_s_diagonal_11_y1_0_0, Gen.reversible_heun_s_diagonal_11_y1_0_0] <;> ring

theorem logqp_reversible_heun_s_diagonal_11_flq_nonneg (sgn : K → K) (f : K → K → K) (g : K → K → K) (h : K → K → K) (t0 t1 y0_0_0 l0_0_0 dW_0_0 dW_0_1 : K) : 0 ≤ Gen.logqp_reversible_heun_s_diagonal_11_flq sgn f g h t0 t1 y0_0_0 l0_0_0 dW_0_0 dW_0_1 := by
  simp only [Gen.logqp_reversible_heun_s_diagonal_11_flq]; positivity

theorem logqp_reversible_heun_s_diagonal_11_flq_1_nonneg (sgn : K → K) (f : K → K → K) (g : K → K → K) (h : K → K → K) (t0 t1 y0_0_0 l0_0_0 dW_0_0 dW_0_1 : K) : 0 ≤ Gen.logqp_reversible_heun_s_diagonal_11_flq_1 sgn f g h t0 t1 y0_0_0 l0_0_0 dW_0_0 dW_0_1 := by
  simp only [Gen.logqp_reversible_heun_s_diagonal_11_flq_1]; positivity

theorem reversible_heun_s_diagonal_incr_nonneg (sgn : K → K) (f : K → K → K) (g : K → K → K) (h : K → K → K) (t0 dt y0_0_0 l0_0_0 dW_0_0 dW_0_1 : K) (hdt : 0 ≤ dt) :
    0 ≤ Gen.logqp_reversible_heun_s_diagonal_11_y1_0_1 sgn f g h t0 (t0 + dt) y0_0_0 l0_0_0 dW_0_0 dW_0_1 - l0_0_0 := by
  have hq0 := logqp_reversible_heun_s_diagonal_11_flq_nonneg sgn f g h t0 (t0 + dt) y0_0_0 l0_0_0 dW_0_0 dW_0_1
  have hq1 := logqp_reversible_heun_s_diagonal_11_flq_1_nonneg sgn f g h t0 (t0 + dt) y0_0_0 l0_0_0 dW_0_0 dW_0_1
  simp only [Gen.logqp_reversible_heun_s_diagonal_11_y1_0_1]
  generalize Gen.logqp_reversible_heun_s_diagonal_11_flq sgn f g h t0 (t0 + dt) y0_0_0 l0_0_0 dW_0_0 dW_0_1 = q0 at hq0 ⊢
  generalize Gen.logqp_reversible_heun_s_diagonal_11_flq_1 sgn f g h t0 (t0 + dt) y0_0_0 l0_0_0 dW_0_0 dW_0_1 = q1 at hq1 ⊢
  ring_nf
  positivity

/-- `parse_return(logqp=True)`: the reported log-ratio increments are consecutive differences of the ℓ channel, so
they add up to `ℓ(ts[-1]) − ℓ(ts[0])`; the state channels are passed through untouched. (T = 4 output times.) -/
theorem logqp_additive (y000 y001 y100 y101 y200 y201 y300 y301 a b : K) :
    Gen.parse_return_logqp_lr_0_0 y000 y001 y100 y101 y200 y201 y300 y301 a b
      + Gen.parse_return_logqp_lr_1_0 y000 y001 y100 y101 y200 y201 y300 y301 a b
      + Gen.parse_return_logqp_lr_2_0 y000 y001 y100 y101 y200 y201 y300 y301 a b = y301 - y001 ∧
    Gen.parse_return_logqp_ys_0_0_0 y000 y001 y100 y101 y200 y201 y300 y301 a b = y000 ∧
    Gen.parse_return_logqp_ys_3_0_0 y000 y001 y100 y101 y200 y201 y300 y301 a b = y300 := by
  refine ⟨?_, ?_, ?_⟩ <;>
    simp only [Gen.parse_return_logqp_lr_0_0, Gen.parse_return_logqp_lr_1_0, Gen.parse_return_logqp_lr_2_0,
      Gen.parse_return_logqp_ys_0_0_0, Gen.parse_return_logqp_ys_3_0_0] <;> ring

end C18
